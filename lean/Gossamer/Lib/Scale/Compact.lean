/-
Canonical SCALE compact integers: encoder, decoder (rejecting every non-canonical form), and the
two laws, proved arithmetically on little-endian digit lists for ALL n < 2^536.
-/
import Gossamer.Lib.Scale.Basic
namespace Gossamer.Scale
open Gossamer

/-- canonical compact encoding (meaningful for `n < 256^67 = 2^536`) -/
def compactEnc (n : Nat) : Bytes :=
  if n < 64 then [UInt8.ofNat (4 * n)]
  else if n < 16384 then leBytes 2 (4 * n + 1)
  else if n < 1073741824 then leBytes 4 (4 * n + 2)
  else UInt8.ofNat (4 * ((leMin n).length - 4) + 3) :: leMin n

/-- canonical compact decoding: the shortest mode must have been used and the most significant
    byte of a big-integer payload must be non-zero -/
def compactDec : Bytes → Option (Nat × Bytes)
  | [] => none
  | b :: rest =>
    if b.toNat % 4 = 0 then some (b.toNat / 4, rest)
    else if b.toNat % 4 = 1 then
      match rest with
      | [] => none
      | c :: rest' =>
        let v := (b.toNat + 256 * c.toNat) / 4
        if 64 ≤ v then some (v, rest') else none
    else if b.toNat % 4 = 2 then
      if rest.length < 3 then none
      else
        let v := (b.toNat + 256 * natOfLE (rest.take 3)) / 4
        if 16384 ≤ v then some (v, rest.drop 3) else none
    else
      let len := b.toNat / 4 + 4
      if rest.length < len then none
      else
        let v := natOfLE (rest.take len)
        if 1073741824 ≤ v ∧ 256 ^ (b.toNat / 4 + 3) ≤ v then some (v, rest.drop len) else none

theorem pow256_3 : (256:Nat) ^ 3 = 16777216 := by decide
theorem pow256_4 : (256:Nat) ^ 4 = 4294967296 := by decide
theorem pow256_2 : (256:Nat) ^ 2 = 65536 := by decide

theorem leBytes_two (n : Nat) : leBytes 2 n = [UInt8.ofNat (n % 256), UInt8.ofNat (n / 256 % 256)] := by
  simp [leBytes]

theorem leBytes_succ (k n : Nat) : leBytes (k+1) n = UInt8.ofNat (n % 256) :: leBytes k (n / 256) := rfl

theorem pow256_mono {a b : Nat} (h : a ≤ b) : (256:Nat) ^ a ≤ 256 ^ b :=
  Nat.pow_le_pow_right (by decide) h

/-- length of the minimal digits of a number in big-integer mode -/
theorem length_leMin_big {n : Nat} (h1 : 1073741824 ≤ n) (h2 : n < 256 ^ 67) :
    4 ≤ (leMin n).length ∧ (leMin n).length ≤ 67 := by
  constructor
  · have := (length_leMin_lt n 3).2 (by rw [pow256_3]; omega); omega
  · exact (length_leMin_le n 67).2 h2

theorem compactDec_enc (n : Nat) (h : n < 256 ^ 67) (r : Bytes) :
    compactDec (compactEnc n ++ r) = some (n, r) := by
  unfold compactEnc
  by_cases h1 : n < 64
  · simp only [h1, if_true, List.cons_append, List.nil_append, compactDec]
    have : (UInt8.ofNat (4 * n)).toNat = 4 * n := toNat_ofNat_lt (by omega)
    rw [this]
    have : 4 * n % 4 = 0 := by omega
    simp only [this, if_true]
    congr 2; omega
  · by_cases h2 : n < 16384
    · simp only [h1, h2, if_true, if_false, leBytes_two, List.cons_append, List.nil_append, compactDec]
      rw [toNat_ofNat_mod, toNat_ofNat_mod]
      have e1 : (4 * n + 1) % 256 % 4 = 1 := by omega
      have e2 : ((4 * n + 1) % 256 + 256 * ((4 * n + 1) / 256 % 256)) / 4 = n := by omega
      simp only [e1, e2]
      simp; omega
    · by_cases h3 : n < 1073741824
      · simp only [h1, h2, h3, if_true, if_false, leBytes_succ, List.cons_append, compactDec]
        rw [toNat_ofNat_mod]
        have e1 : (4 * n + 2) % 256 % 4 = 2 := by omega
        have hl : ¬ ((leBytes 3 ((4 * n + 2) / 256) ++ r).length < 3) := by
          simp [length_leBytes]
        have ht : (UInt8.ofNat ((4 * n + 2) / 256 % 256) :: UInt8.ofNat ((4 * n + 2) / 256 / 256 % 256) ::
            UInt8.ofNat ((4 * n + 2) / 256 / 256 / 256 % 256) :: (leBytes 0 ((4 * n + 2) / 256 / 256 / 256 / 256) ++ r))
            = leBytes 3 ((4 * n + 2) / 256) ++ r := by simp [leBytes]
        rw [ht]
        simp only [e1, hl, if_false]
        have e0 : ¬ ((2:Nat) = 0) := by decide
        have e01 : ¬ ((2:Nat) = 1) := by decide
        simp only [e0, e01, if_false, if_true]
        have tk : (leBytes 3 ((4 * n + 2) / 256) ++ r).take 3 = leBytes 3 ((4 * n + 2) / 256) := by
          rw [List.take_append_of_le_length (by simp [length_leBytes])]
          rw [List.take_of_length_le (by simp [length_leBytes])]
        have dr : (leBytes 3 ((4 * n + 2) / 256) ++ r).drop 3 = r := by
          rw [List.drop_append_of_le_length (by simp [length_leBytes])]
          rw [List.drop_of_length_le (by simp [length_leBytes])]; simp
        rw [tk, dr, natOfLE_leBytes, pow256_3]
        have e2 : ((4 * n + 2) % 256 + 256 * ((4 * n + 2) / 256 % 16777216)) / 4 = n := by omega
        rw [e2]; simp; omega
      · simp only [h1, h2, h3, if_false, List.cons_append, compactDec]
        have ⟨hl4, hl67⟩ := length_leMin_big (by omega) h
        have hb : (UInt8.ofNat (4 * ((leMin n).length - 4) + 3)).toNat = 4 * ((leMin n).length - 4) + 3 :=
          toNat_ofNat_lt (by omega)
        rw [hb]
        have e1 : (4 * ((leMin n).length - 4) + 3) % 4 = 3 := by omega
        have e2 : (4 * ((leMin n).length - 4) + 3) / 4 + 4 = (leMin n).length := by omega
        have e30 : ¬ ((3:Nat) = 0) := by decide
        have e31 : ¬ ((3:Nat) = 1) := by decide
        have e32 : ¬ ((3:Nat) = 2) := by decide
        simp only [e1, e2, e30, e31, e32, if_false]
        have hl : ¬ ((leMin n ++ r).length < (leMin n).length) := by simp
        have tk : (leMin n ++ r).take (leMin n).length = leMin n := by simp
        have dr : (leMin n ++ r).drop (leMin n).length = r := by simp
        simp only [hl, if_false, tk, dr, natOfLE_leMin]
        have e3 : (4 * ((leMin n).length - 4) + 3) / 4 + 3 = (leMin n).length - 1 := by omega
        rw [e3]
        have hp : 256 ^ ((leMin n).length - 1) ≤ n :=
          (length_leMin_lt n _).1 (by omega)
        have : 1073741824 ≤ n ∧ 256 ^ ((leMin n).length - 1) ≤ n := ⟨by omega, hp⟩
        simp [this]

/-- a digit string whose value reaches `256^(len-1)` has a non-zero top digit -/
theorem getLast_ne_zero_of_le (d : Bytes) (hne : d ≠ []) (h : 256 ^ (d.length - 1) ≤ natOfLE d) :
    d.getLast hne ≠ 0 := by
  intro hz
  have hd : d = d.dropLast ++ [d.getLast hne] := (List.dropLast_concat_getLast hne).symm
  have hv : natOfLE d = natOfLE d.dropLast := by
    conv => lhs; rw [hd]
    rw [natOfLE_append, hz]; simp [natOfLE]
  have := natOfLE_lt d.dropLast
  rw [List.length_dropLast] at this
  omega

/-! mode-wise equations of the decoder -/
theorem compactDec_m0 {b : UInt8} (rest : Bytes) (m : b.toNat % 4 = 0) :
    compactDec (b :: rest) = some (b.toNat / 4, rest) := by simp [compactDec, m]

theorem compactDec_m1_nil {b : UInt8} (m : b.toNat % 4 = 1) : compactDec [b] = none := by
  simp [compactDec, m]

theorem compactDec_m1 {b : UInt8} (c : UInt8) (rest : Bytes) (m : b.toNat % 4 = 1) :
    compactDec (b :: c :: rest) =
      if 64 ≤ (b.toNat + 256 * c.toNat) / 4 then some ((b.toNat + 256 * c.toNat) / 4, rest) else none := by
  simp [compactDec, m]

theorem compactDec_m2 {b : UInt8} (rest : Bytes) (m : b.toNat % 4 = 2) :
    compactDec (b :: rest) =
      if rest.length < 3 then none
      else if 16384 ≤ (b.toNat + 256 * natOfLE (rest.take 3)) / 4
        then some ((b.toNat + 256 * natOfLE (rest.take 3)) / 4, rest.drop 3) else none := by
  simp [compactDec, m]

theorem compactDec_m3 {b : UInt8} (rest : Bytes) (m : b.toNat % 4 = 3) :
    compactDec (b :: rest) =
      if rest.length < b.toNat / 4 + 4 then none
      else if 1073741824 ≤ natOfLE (rest.take (b.toNat / 4 + 4)) ∧
              256 ^ (b.toNat / 4 + 3) ≤ natOfLE (rest.take (b.toNat / 4 + 4))
        then some (natOfLE (rest.take (b.toNat / 4 + 4)), rest.drop (b.toNat / 4 + 4)) else none := by
  simp [compactDec, m]

theorem lt_pow67 {n k : Nat} (hk : k ≤ 67) (h : n < 256 ^ k) : n < 256 ^ 67 :=
  Nat.lt_of_lt_of_le h (pow256_mono hk)

theorem compactDec_sound {bs : Bytes} {n : Nat} {r : Bytes} (h : compactDec bs = some (n, r)) :
    n < 256 ^ 67 ∧ bs = compactEnc n ++ r := by
  cases bs with
  | nil => simp [compactDec] at h
  | cons b rest =>
    have hb := b.toNat_lt
    by_cases m0 : b.toNat % 4 = 0
    · rw [compactDec_m0 rest m0] at h
      injection h with h; injection h with hn hr
      subst hr
      have hn64 : n < 64 := by omega
      refine ⟨lt_pow67 (k := 1) (by decide) (by omega), ?_⟩
      unfold compactEnc; simp only [hn64, if_true, List.cons_append, List.nil_append]
      congr 1
      apply UInt8.toNat_inj.mp; rw [toNat_ofNat_lt (by omega)]; omega
    · by_cases m1 : b.toNat % 4 = 1
      · cases rest with
        | nil => rw [compactDec_m1_nil m1] at h; cases h
        | cons c rest' =>
          have hc := c.toNat_lt
          rw [compactDec_m1 c rest' m1] at h
          by_cases hv : 64 ≤ (b.toNat + 256 * c.toNat) / 4
          · rw [if_pos hv] at h
            injection h with h; injection h with hn hr
            subst hr
            have hlt : n < 16384 := by omega
            refine ⟨lt_pow67 (k := 2) (by decide) (by rw [pow256_2]; omega), ?_⟩
            unfold compactEnc
            have : ¬ n < 64 := by omega
            simp only [this, hlt, if_true, if_false, leBytes_two, List.cons_append, List.nil_append]
            have e : 4 * n + 1 = b.toNat + 256 * c.toNat := by omega
            rw [e]
            congr 1
            · apply UInt8.toNat_inj.mp; rw [toNat_ofNat_mod]; omega
            · congr 1
              apply UInt8.toNat_inj.mp; rw [toNat_ofNat_mod]; omega
          · rw [if_neg hv] at h; cases h
      · by_cases m2 : b.toNat % 4 = 2
        · rw [compactDec_m2 rest m2] at h
          by_cases hl : rest.length < 3
          · rw [if_pos hl] at h; cases h
          · rw [if_neg hl] at h
            by_cases hv : 16384 ≤ (b.toNat + 256 * natOfLE (rest.take 3)) / 4
            · rw [if_pos hv] at h
              injection h with h; injection h with hn hr
              have hlen : (rest.take 3).length = 3 := by simp; omega
              have hd := natOfLE_lt (rest.take 3)
              rw [hlen, pow256_3] at hd
              have hlt : n < 1073741824 := by omega
              refine ⟨lt_pow67 (k := 4) (by decide) (by rw [pow256_4]; omega), ?_⟩
              unfold compactEnc
              have n1 : ¬ n < 64 := by omega
              have n2 : ¬ n < 16384 := by omega
              simp only [n1, n2, hlt, if_true, if_false]
              have e : 4 * n + 2 = natOfLE (b :: rest.take 3) := by simp only [natOfLE]; omega
              have hl4 : (b :: rest.take 3).length = 4 := by simp [hlen]
              rw [e, ← hl4, leBytes_natOfLE, ← hr, List.cons_append, List.take_append_drop]
            · rw [if_neg hv] at h; cases h
        · have m3 : b.toNat % 4 = 3 := by omega
          rw [compactDec_m3 rest m3] at h
          by_cases hl : rest.length < b.toNat / 4 + 4
          · rw [if_pos hl] at h; cases h
          · rw [if_neg hl] at h
            by_cases hv : 1073741824 ≤ natOfLE (rest.take (b.toNat / 4 + 4)) ∧
                256 ^ (b.toNat / 4 + 3) ≤ natOfLE (rest.take (b.toNat / 4 + 4))
            · rw [if_pos hv] at h
              injection h with h; injection h with hn hr
              have hlen : (rest.take (b.toNat / 4 + 4)).length = b.toNat / 4 + 4 := by simp; omega
              have hne : rest.take (b.toNat / 4 + 4) ≠ [] := by
                intro hz; rw [hz] at hlen; simp at hlen
              have htop := getLast_ne_zero_of_le _ hne (by
                rw [hlen]; exact (show b.toNat / 4 + 4 - 1 = b.toNat / 4 + 3 by omega) ▸ hv.2)
              have hmin := leMin_natOfLE (rest.take (b.toNat / 4 + 4)) (fun _ => htop)
              rw [hn] at hmin
              have hd := natOfLE_lt (rest.take (b.toNat / 4 + 4))
              rw [hlen, hn] at hd
              refine ⟨lt_pow67 (by omega) hd, ?_⟩
              unfold compactEnc
              have hv1 := hv.1
              rw [hn] at hv1
              have n1 : ¬ n < 64 := by omega
              have n2 : ¬ n < 16384 := by omega
              have n3 : ¬ n < 1073741824 := by omega
              simp only [n1, n2, n3, if_false]
              rw [hmin, hlen, ← hr, List.cons_append, List.take_append_drop]
              congr 1
              apply UInt8.toNat_inj.mp; rw [toNat_ofNat_lt (by omega)]; omega
            · rw [if_neg hv] at h; cases h

theorem compactEnc_ne_nil (n : Nat) : compactEnc n ≠ [] := by
  unfold compactEnc
  split
  · simp
  · split
    · simp [leBytes]
    · split
      · simp [leBytes]
      · simp

end Gossamer.Scale
