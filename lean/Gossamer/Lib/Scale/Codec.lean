/-
The structural layer of SCALE, generic in the primitive codec, and its theorems:
round trip, soundness (a successful decode consumed exactly an encoding of the result),
truncation (no strict prefix of an encoding decodes), all by induction on the type.
-/
import Gossamer.Lib.Scale.Compact
namespace Gossamer.Scale
open Gossamer

/-- the primitive layer: how leaves and length prefixes are written and read -/
structure Codec where
  encP : Prim → Val → Bytes
  decP : Prim → Bytes → Option (Val × Bytes)
  encLen : Nat → Bytes
  decLen : Bytes → Option (Nat × Bytes)

/-- decode `n` items with `f`, left to right, stopping at the first failure -/
def decN (f : Bytes → Option (Val × Bytes)) : Nat → Bytes → Option (List Val × Bytes)
  | 0, bs => some ([], bs)
  | n + 1, bs =>
    match f bs with
    | none => none
    | some (v, r) =>
      match decN f n r with
      | none => none
      | some (vs, r') => some (v :: vs, r')

/-- concatenated encodings of the items -/
def encList (f : Val → Bytes) : List Val → Bytes
  | [] => []
  | v :: vs => f v ++ encList f vs

def encode (C : Codec) : Ty → Val → Bytes
  | .prim p, v => C.encP p v
  | .unit, _ => []
  | .pair a b, .pair x y => encode C a x ++ encode C b y
  | .option _, .none => [0]
  | .option t, .some v => 1 :: encode C t v
  | .result a _, .ok v => 0 :: encode C a v
  | .result _ b, .err v => 1 :: encode C b v
  | .array _ t, .list vs => encList (encode C t) vs
  | .seq t, .list vs => C.encLen vs.length ++ encList (encode C t) vs
  | .enumCons i t rest, .variant j v =>
      if j = i then UInt8.ofNat i :: encode C t v else encode C rest (.variant j v)
  | _, _ => []

def decode (C : Codec) : Ty → Bytes → Option (Val × Bytes)
  | .prim p, bs => C.decP p bs
  | .unit, bs => some (.unit, bs)
  | .pair a b, bs =>
    match decode C a bs with
    | none => none
    | some (x, r) =>
      match decode C b r with
      | none => none
      | some (y, r') => some (.pair x y, r')
  | .option t, bs =>
    match bs with
    | [] => none
    | tag :: r =>
      if tag = 0 then some (.none, r)
      else if tag = 1 then
        match decode C t r with
        | none => none
        | some (v, r') => some (.some v, r')
      else none
  | .result a b, bs =>
    match bs with
    | [] => none
    | tag :: r =>
      if tag = 0 then
        match decode C a r with
        | none => none
        | some (v, r') => some (.ok v, r')
      else if tag = 1 then
        match decode C b r with
        | none => none
        | some (v, r') => some (.err v, r')
      else none
  | .array n t, bs =>
    match decN (decode C t) n bs with
    | none => none
    | some (vs, r) => some (.list vs, r)
  | .seq t, bs =>
    match C.decLen bs with
    | none => none
    | some (n, r) =>
      match decN (decode C t) n r with
      | none => none
      | some (vs, r') => some (.list vs, r')
  | .enumNil, _ => none
  | .enumCons i t rest, bs =>
    match bs with
    | [] => none
    | tag :: r =>
      if tag.toNat = i then
        match decode C t r with
        | none => none
        | some (v, r') => some (.variant i v, r')
      else decode C rest bs

/-- round-trip law of a primitive codec: what was written is read back -/
structure Codec.RT (C : Codec) : Prop where
  rtP : ∀ p v r, wtKind p.kind v = true → C.decP p (C.encP p v ++ r) = some (v, r)
  rtLen : ∀ n r, n < maxSeqLen → C.decLen (C.encLen n ++ r) = some (n, r)

/-- soundness law of a primitive codec: what is read is exactly what would have been written -/
structure Codec.Snd (C : Codec) : Prop where
  sndP : ∀ p bs v r, C.decP p bs = some (v, r) → wtKind p.kind v = true ∧ bs = C.encP p v ++ r
  sndLen : ∀ bs n r, C.decLen bs = some (n, r) → n < maxSeqLen ∧ bs = C.encLen n ++ r

/-- both laws -/
structure Codec.Lawful (C : Codec) : Prop extends C.RT, C.Snd

/-! ### lists -/

theorem decN_encList (f : Bytes → Option (Val × Bytes)) (g : Val → Bytes) (vs : List Val) (r : Bytes)
    (h : ∀ v ∈ vs, ∀ r, f (g v ++ r) = some (v, r)) :
    decN f vs.length (encList g vs ++ r) = some (vs, r) := by
  induction vs with
  | nil => simp [decN, encList]
  | cons v vs ih =>
    simp only [List.length_cons, decN, encList, List.append_assoc]
    rw [h v (by simp)]
    simp only
    rw [ih (fun w hw => h w (by simp [hw]))]

theorem decN_sound (f : Bytes → Option (Val × Bytes)) (g : Val → Bytes) (P : Val → Prop) :
    ∀ (n : Nat) (bs : Bytes) (vs : List Val) (r : Bytes),
    (∀ bs v r, f bs = some (v, r) → P v ∧ bs = g v ++ r) →
    decN f n bs = some (vs, r) →
    vs.length = n ∧ (∀ v ∈ vs, P v) ∧ bs = encList g vs ++ r := by
  intro n
  induction n with
  | zero =>
    intro bs vs r _ h
    simp only [decN, Option.some.injEq, Prod.mk.injEq] at h
    obtain ⟨h1, h2⟩ := h
    subst h1; subst h2; simp [encList]
  | succ n ih =>
    intro bs vs r hf h
    simp only [decN] at h
    cases hfb : f bs with
    | none => simp [hfb] at h
    | some p =>
      obtain ⟨v, r1⟩ := p
      simp only [hfb] at h
      cases hrest : decN f n r1 with
      | none => simp [hrest] at h
      | some q =>
        obtain ⟨vs', r2⟩ := q
        simp only [hrest, Option.some.injEq, Prod.mk.injEq] at h
        obtain ⟨h1, h2⟩ := h
        subst h1; subst h2
        have ⟨hp, hb⟩ := hf bs v r1 hfb
        have ⟨hl, hall, hb2⟩ := ih r1 vs' r2 hf hrest
        refine ⟨by simp [hl], ?_, ?_⟩
        · intro w hw
          rcases List.mem_cons.mp hw with e | e
          · subst e; exact hp
          · exact hall w e
        · rw [hb, hb2]; simp [encList]

/-! ### enums -/

theorem wtKind_variant (k : PKind) (j : Nat) (x : Val) : wtKind k (.variant j x) = false := by
  cases k <;> rfl

/-- well-formed type descriptors: the tail of an enum chain is an enum chain -/
def Ty.isEnum : Ty → Bool
  | .enumNil => true
  | .enumCons _ _ _ => true
  | _ => false

def Ty.wf : Ty → Bool
  | .prim _ => true
  | .unit => true
  | .pair a b => a.wf && b.wf
  | .option t => t.wf
  | .result a b => a.wf && b.wf
  | .array _ t => t.wf
  | .seq t => t.wf
  | .enumNil => true
  | .enumCons _ t rest => t.wf && rest.isEnum && rest.wf

/-- the encoding of a well-typed variant starts with its index byte -/
theorem encode_variant_head (C : Codec) :
    ∀ (t : Ty) (j : Nat) (x : Val), wt t (.variant j x) = true →
      j < 256 ∧ ∃ tl, encode C t (.variant j x) = UInt8.ofNat j :: tl := by
  intro t
  induction t with
  | enumCons i t rest _ ihr =>
    intro j x h
    simp only [wt] at h
    by_cases hj : j = i
    · subst hj
      simp only [if_true, Bool.and_eq_true, decide_eq_true_eq] at h
      exact ⟨h.1, ⟨encode C t x, by simp [encode]⟩⟩
    · simp only [hj, if_false] at h
      have ⟨h1, tl, h2⟩ := ihr j x h
      exact ⟨h1, tl, by simp [encode, hj, h2]⟩
  | prim p => intro j x h; simp [wt, wtKind_variant] at h
  | _ => intro j x h; simp [wt] at h

theorem encode_enumCons_ne (C : Codec) {i j : Nat} (t rest : Ty) (x : Val) (h : ¬ j = i) :
    encode C (.enumCons i t rest) (.variant j x) = encode C rest (.variant j x) := by
  simp [encode, h]

theorem wt_enumCons_ne {i j : Nat} (t rest : Ty) (x : Val) (h : ¬ j = i) :
    wt (.enumCons i t rest) (.variant j x) = wt rest (.variant j x) := by
  simp [wt, h]

/-- only variants inhabit an enum type -/
theorem wt_enum_variant {i : Nat} {t rest : Ty} {v : Val} (h : wt (.enumCons i t rest) v = true) :
    ∃ j x, v = .variant j x := by
  cases v <;> simp [wt] at h
  exact ⟨_, _, rfl⟩

/-! ### round trip -/

theorem roundtrip (C : Codec) (L : C.RT) :
    ∀ (t : Ty) (v : Val) (r : Bytes), wt t v = true → decode C t (encode C t v ++ r) = some (v, r) := by
  intro t
  induction t with
  | prim p => intro v r h; exact L.rtP p v r (by simpa [wt] using h)
  | unit => intro v r h; cases v <;> simp [wt] at h; simp [encode, decode]
  | pair a b iha ihb =>
    intro v r h
    cases v <;> simp [wt] at h
    rename_i x y
    simp only [encode, decode, List.append_assoc]
    rw [iha x _ h.1]; simp only
    rw [ihb y _ h.2]
  | option t ih =>
    intro v r h
    cases v <;> simp [wt] at h
    · simp [encode, decode]
    · rename_i x
      simp only [encode, decode, List.cons_append]
      rw [ih x r h]; simp
  | result a b iha ihb =>
    intro v r h
    cases v <;> simp [wt] at h
    · rename_i x
      simp only [encode, decode, List.cons_append]
      rw [iha x r h]; simp
    · rename_i x
      simp only [encode, decode, List.cons_append]
      rw [ihb x r h]; simp
  | array n t ih =>
    intro v r h
    cases v <;> simp [wt] at h
    rename_i vs
    obtain ⟨hl, hall⟩ := h
    simp only [encode, decode]
    subst hl
    rw [decN_encList _ _ vs r (fun w hw r' => ih w r' (hall w hw))]
  | seq t ih =>
    intro v r h
    cases v <;> simp [wt] at h
    rename_i vs
    obtain ⟨hl, hall⟩ := h
    simp only [encode, decode, List.append_assoc]
    rw [L.rtLen _ _ hl]; simp only
    rw [decN_encList _ _ vs r (fun w hw r' => ih w r' (hall w hw))]
  | enumNil => intro v r h; cases v <;> simp [wt] at h
  | enumCons i t rest iht ihr =>
    intro v r h
    obtain ⟨j, x, hv⟩ := wt_enum_variant h
    subst hv
    simp only [wt] at h
    by_cases hj : j = i
    · subst hj
      simp only [if_true, Bool.and_eq_true, decide_eq_true_eq] at h
      simp only [encode, if_true, List.cons_append, decode]
      have : (UInt8.ofNat j).toNat = j := toNat_ofNat_lt h.1
      simp only [this, if_true]
      rw [iht x r h.2]
    · simp only [hj, if_false] at h
      have ih := ihr (.variant j x) r h
      have ⟨hj256, tl, he⟩ := encode_variant_head C rest j x h
      simp only [encode, hj, if_false]
      rw [he] at ih ⊢
      simp only [List.cons_append, decode]
      have : (UInt8.ofNat j).toNat = j := toNat_ofNat_lt hj256
      simp only [this, hj, if_false]
      exact ih


/-! ### round trip relative to a leaf predicate, congruence of encoders -/

/-- every primitive leaf of the value satisfies `Q`, every sequence length `QL` -/
def leavesOk (Q : Prim → Val → Bool) (QL : Nat → Bool) : Ty → Val → Bool
  | .prim p, v => Q p v
  | .pair a b, .pair x y => leavesOk Q QL a x && leavesOk Q QL b y
  | .option t, .some v => leavesOk Q QL t v
  | .result a _, .ok v => leavesOk Q QL a v
  | .result _ b, .err v => leavesOk Q QL b v
  | .array _ t, .list vs => vs.all (leavesOk Q QL t)
  | .seq t, .list vs => QL vs.length && vs.all (leavesOk Q QL t)
  | .enumCons i t rest, .variant j v =>
      if j = i then leavesOk Q QL t v else leavesOk Q QL rest (.variant j v)
  | _, _ => true

/-- round trip for a codec whose primitives round-trip on the leaves satisfying `Q` / `QL` -/
theorem roundtripOn (C : Codec) (Q : Prim → Val → Bool) (QL : Nat → Bool)
    (hP : ∀ p v r, wtKind p.kind v = true → Q p v = true → C.decP p (C.encP p v ++ r) = some (v, r))
    (hL : ∀ n r, n < maxSeqLen → QL n = true → C.decLen (C.encLen n ++ r) = some (n, r)) :
    ∀ (t : Ty) (v : Val) (r : Bytes), wt t v = true → leavesOk Q QL t v = true →
      decode C t (encode C t v ++ r) = some (v, r) := by
  intro t
  induction t with
  | prim p => intro v r h hq; exact hP p v r (by simpa [wt] using h) (by simpa [leavesOk] using hq)
  | unit => intro v r h _; cases v <;> simp [wt] at h; simp [encode, decode]
  | pair a b iha ihb =>
    intro v r h hq
    cases v <;> simp [wt] at h
    rename_i x y
    simp only [leavesOk, Bool.and_eq_true] at hq
    simp only [encode, decode, List.append_assoc]
    rw [iha x _ h.1 hq.1]; simp only
    rw [ihb y _ h.2 hq.2]
  | option t ih =>
    intro v r h hq
    cases v <;> simp [wt] at h
    · simp [encode, decode]
    · rename_i x
      simp only [leavesOk] at hq
      simp only [encode, decode, List.cons_append]
      rw [ih x r h hq]; simp
  | result a b iha ihb =>
    intro v r h hq
    cases v <;> simp [wt] at h
    · rename_i x
      simp only [leavesOk] at hq
      simp only [encode, decode, List.cons_append]
      rw [iha x r h hq]; simp
    · rename_i x
      simp only [leavesOk] at hq
      simp only [encode, decode, List.cons_append]
      rw [ihb x r h hq]; simp
  | array n t ih =>
    intro v r h hq
    cases v <;> simp [wt] at h
    rename_i vs
    obtain ⟨hl, hall⟩ := h
    simp only [leavesOk, List.all_eq_true] at hq
    simp only [encode, decode]
    subst hl
    rw [decN_encList _ _ vs r (fun w hw r' => ih w r' (hall w hw) (hq w hw))]
  | seq t ih =>
    intro v r h hq
    cases v <;> simp [wt] at h
    rename_i vs
    obtain ⟨hl, hall⟩ := h
    simp only [leavesOk, Bool.and_eq_true, List.all_eq_true] at hq
    simp only [encode, decode, List.append_assoc]
    rw [hL _ _ hl hq.1]; simp only
    rw [decN_encList _ _ vs r (fun w hw r' => ih w r' (hall w hw) (hq.2 w hw))]
  | enumNil => intro v r h _; cases v <;> simp [wt] at h
  | enumCons i t rest iht ihr =>
    intro v r h hq
    obtain ⟨j, x, hv⟩ := wt_enum_variant h
    subst hv
    simp only [wt] at h
    simp only [leavesOk] at hq
    by_cases hj : j = i
    · subst hj
      simp only [if_true, Bool.and_eq_true, decide_eq_true_eq] at h hq
      simp only [encode, if_true, List.cons_append, decode]
      have : (UInt8.ofNat j).toNat = j := toNat_ofNat_lt h.1
      simp only [this, if_true]
      rw [iht x r h.2 hq]
    · simp only [hj, if_false] at h hq
      have ih := ihr (.variant j x) r h hq
      have ⟨hj256, tl, he⟩ := encode_variant_head C rest j x h
      simp only [encode, hj, if_false]
      rw [he] at ih ⊢
      simp only [List.cons_append, decode]
      have : (UInt8.ofNat j).toNat = j := toNat_ofNat_lt hj256
      simp only [this, hj, if_false]
      exact ih

theorem encList_congr (f g : Val → Bytes) (vs : List Val) (h : ∀ v ∈ vs, f v = g v) :
    encList f vs = encList g vs := by
  induction vs with
  | nil => rfl
  | cons v vs ih =>
    simp only [encList]
    rw [h v (by simp), ih (fun w hw => h w (by simp [hw]))]

/-- two codecs whose primitive encoders agree on well-typed leaves encode well-typed values alike -/
theorem encode_congr (C D : Codec)
    (hP : ∀ p v, wtKind p.kind v = true → C.encP p v = D.encP p v)
    (hL : ∀ n, n < maxSeqLen → C.encLen n = D.encLen n) :
    ∀ (t : Ty) (v : Val), wt t v = true → encode C t v = encode D t v := by
  intro t
  induction t with
  | prim p => intro v h; exact hP p v (by simpa [wt] using h)
  | unit => intro v _; simp [encode]
  | pair a b iha ihb =>
    intro v h
    cases v <;> simp [wt] at h
    rename_i x y
    simp only [encode, iha x h.1, ihb y h.2]
  | option t ih =>
    intro v h
    cases v <;> simp [wt] at h
    · simp [encode]
    · simp only [encode, ih _ h]
  | result a b iha ihb =>
    intro v h
    cases v <;> simp [wt] at h
    · simp only [encode, iha _ h]
    · simp only [encode, ihb _ h]
  | array n t ih =>
    intro v h
    cases v <;> simp [wt] at h
    rename_i vs
    simp only [encode]
    exact encList_congr _ _ vs (fun w hw => ih w (h.2 w hw))
  | seq t ih =>
    intro v h
    cases v <;> simp [wt] at h
    rename_i vs
    simp only [encode, hL _ h.1]
    rw [encList_congr _ _ vs (fun w hw => ih w (h.2 w hw))]
  | enumNil => intro v h; cases v <;> simp [wt] at h
  | enumCons i t rest iht ihr =>
    intro v h
    obtain ⟨j, x, hv⟩ := wt_enum_variant h
    subst hv
    simp only [wt] at h
    by_cases hj : j = i
    · subst hj
      simp only [if_true, Bool.and_eq_true, decide_eq_true_eq] at h
      simp only [encode, if_true, iht x h.2]
    · simp only [hj, if_false] at h
      simp only [encode, hj, if_false]
      exact ihr _ h

/-! ### soundness -/

theorem sound (C : Codec) (L : C.Snd) :
    ∀ (t : Ty), t.wf = true → ∀ (bs : Bytes) (v : Val) (r : Bytes),
      decode C t bs = some (v, r) → wt t v = true ∧ bs = encode C t v ++ r := by
  intro t
  induction t with
  | prim p =>
    intro _ bs v r h
    have := L.sndP p bs v r h
    exact ⟨by simpa [wt] using this.1, this.2⟩
  | unit =>
    intro _ bs v r h
    simp only [decode, Option.some.injEq, Prod.mk.injEq] at h
    obtain ⟨h1, h2⟩ := h; subst h1; subst h2
    simp [wt, encode]
  | pair a b iha ihb =>
    intro hwf bs v r h
    simp only [Ty.wf, Bool.and_eq_true] at hwf
    have iha := iha hwf.1
    have ihb := ihb hwf.2
    simp only [decode] at h
    cases ha : decode C a bs with
    | none => simp [ha] at h
    | some p =>
      obtain ⟨x, r1⟩ := p
      simp only [ha] at h
      cases hb : decode C b r1 with
      | none => simp [hb] at h
      | some q =>
        obtain ⟨y, r2⟩ := q
        simp only [hb, Option.some.injEq, Prod.mk.injEq] at h
        obtain ⟨h1, h2⟩ := h; subst h1; subst h2
        have ⟨w1, e1⟩ := iha bs x r1 ha
        have ⟨w2, e2⟩ := ihb r1 y r2 hb
        refine ⟨by simp [wt, w1, w2], ?_⟩
        rw [e1, e2]; simp [encode]
  | option t ih =>
    intro hwf bs v r h
    have ih := ih (by simpa [Ty.wf] using hwf)
    cases bs with
    | nil => simp [decode] at h
    | cons tag r0 =>
      simp only [decode] at h
      by_cases h0 : tag = 0
      · simp only [h0, if_true, Option.some.injEq, Prod.mk.injEq] at h
        obtain ⟨h1, h2⟩ := h; subst h1; subst h2; subst h0
        simp [wt, encode]
      · by_cases h1 : tag = 1
        · subst h1
          simp only [h0, if_false, if_true] at h
          cases hd : decode C t r0 with
          | none => simp [hd] at h
          | some p =>
            obtain ⟨x, r1⟩ := p
            simp only [hd, Option.some.injEq, Prod.mk.injEq] at h
            obtain ⟨e1, e2⟩ := h; subst e1; subst e2
            have ⟨w, e⟩ := ih r0 x r1 hd
            exact ⟨by simp [wt, w], by rw [e]; simp [encode]⟩
        · simp [h0, h1] at h
  | result a b iha ihb =>
    intro hwf bs v r h
    simp only [Ty.wf, Bool.and_eq_true] at hwf
    have iha := iha hwf.1
    have ihb := ihb hwf.2
    cases bs with
    | nil => simp [decode] at h
    | cons tag r0 =>
      simp only [decode] at h
      by_cases h0 : tag = 0
      · subst h0
        simp only [if_true] at h
        cases hd : decode C a r0 with
        | none => simp [hd] at h
        | some p =>
          obtain ⟨x, r1⟩ := p
          simp only [hd, Option.some.injEq, Prod.mk.injEq] at h
          obtain ⟨e1, e2⟩ := h; subst e1; subst e2
          have ⟨w, e⟩ := iha r0 x r1 hd
          exact ⟨by simp [wt, w], by rw [e]; simp [encode]⟩
      · by_cases h1 : tag = 1
        · subst h1
          simp only [h0, if_false, if_true] at h
          cases hd : decode C b r0 with
          | none => simp [hd] at h
          | some p =>
            obtain ⟨x, r1⟩ := p
            simp only [hd, Option.some.injEq, Prod.mk.injEq] at h
            obtain ⟨e1, e2⟩ := h; subst e1; subst e2
            have ⟨w, e⟩ := ihb r0 x r1 hd
            exact ⟨by simp [wt, w], by rw [e]; simp [encode]⟩
        · simp [h0, h1] at h
  | array n t ih =>
    intro hwf bs v r h
    have ih := ih (by simpa [Ty.wf] using hwf)
    simp only [decode] at h
    cases hd : decN (decode C t) n bs with
    | none => simp [hd] at h
    | some p =>
      obtain ⟨vs, r1⟩ := p
      simp only [hd, Option.some.injEq, Prod.mk.injEq] at h
      obtain ⟨e1, e2⟩ := h; subst e1; subst e2
      have ⟨hl, hall, hb⟩ := decN_sound (decode C t) (encode C t) (fun v => wt t v = true) n bs vs r1
        (fun bs v r h => ih bs v r h) hd
      refine ⟨?_, by rw [hb]; simp [encode]⟩
      simp only [wt, Bool.and_eq_true, beq_iff_eq, List.all_eq_true]
      exact ⟨hl, hall⟩
  | seq t ih =>
    intro hwf bs v r h
    have ih := ih (by simpa [Ty.wf] using hwf)
    simp only [decode] at h
    cases hl : C.decLen bs with
    | none => simp [hl] at h
    | some q =>
      obtain ⟨n, r0⟩ := q
      simp only [hl] at h
      cases hd : decN (decode C t) n r0 with
      | none => simp [hd] at h
      | some p =>
        obtain ⟨vs, r1⟩ := p
        simp only [hd, Option.some.injEq, Prod.mk.injEq] at h
        obtain ⟨e1, e2⟩ := h; subst e1; subst e2
        have ⟨hn, hbs⟩ := L.sndLen bs n r0 hl
        have ⟨hlen, hall, hb⟩ := decN_sound (decode C t) (encode C t) (fun v => wt t v = true) n r0 vs r1
          (fun bs v r h => ih bs v r h) hd
        refine ⟨?_, by rw [hbs, hb]; simp [encode, hlen]⟩
        simp only [wt, Bool.and_eq_true, decide_eq_true_eq, List.all_eq_true]
        exact ⟨by rw [hlen]; exact hn, hall⟩
  | enumNil => intro _ bs v r h; simp [decode] at h
  | enumCons i t rest iht ihr =>
    intro hwf bs v r h
    simp only [Ty.wf, Bool.and_eq_true] at hwf
    have iht := iht hwf.1.1
    have ihr := ihr hwf.2
    have hen := hwf.1.2
    cases bs with
    | nil => simp [decode] at h
    | cons tag r0 =>
      have htag := tag.toNat_lt
      simp only [decode] at h
      by_cases ht : tag.toNat = i
      · simp only [ht, if_true] at h
        cases hd : decode C t r0 with
        | none => simp [hd] at h
        | some p =>
          obtain ⟨x, r1⟩ := p
          simp only [hd, Option.some.injEq, Prod.mk.injEq] at h
          obtain ⟨e1, e2⟩ := h; subst e1; subst e2
          have ⟨w, e⟩ := iht r0 x r1 hd
          refine ⟨by simp [wt, w]; omega, ?_⟩
          rw [e]; simp only [encode, if_true, List.cons_append]
          congr 1
          apply UInt8.toNat_inj.mp; rw [toNat_ofNat_lt (by omega)]; exact ht
      · simp only [ht, if_false] at h
        have ⟨w, e⟩ := ihr (tag :: r0) v r h
        cases rest with
        | enumCons i2 t2 rest2 =>
          obtain ⟨j, x, hv⟩ := wt_enum_variant w
          subst hv
          have ⟨hj256, tl, he⟩ := encode_variant_head C _ j x w
          rw [he] at e
          simp only [List.cons_append, List.cons.injEq] at e
          have hj : tag.toNat = j := by rw [e.1]; exact toNat_ofNat_lt hj256
          have hji : ¬ j = i := by omega
          refine ⟨by rw [wt_enumCons_ne _ _ _ hji]; exact w, ?_⟩
          rw [encode_enumCons_ne C _ _ _ hji, he]; simp [e.1, e.2]
        | enumNil => simp [decode] at h
        | _ => simp [Ty.isEnum] at hen

/-! ### truncation -/

/-- no strict prefix of an encoding decodes -/
theorem truncated (C : Codec) (L : C.Lawful) (t : Ty) (hwf : t.wf = true) (v : Val) (p s : Bytes)
    (hw : wt t v = true) (he : encode C t v = p ++ s) (hs : s ≠ []) : decode C t p = none := by
  cases hd : decode C t p with
  | none => rfl
  | some q =>
    obtain ⟨v', r'⟩ := q
    exfalso
    have ⟨w', e'⟩ := sound C L.toSnd t hwf p v' r' hd
    have h1 := roundtrip C L.toRT t v' (r' ++ s) w'
    have h2 := roundtrip C L.toRT t v [] hw
    rw [List.append_nil, he, e', List.append_assoc] at h2
    rw [h1] at h2
    simp only [Option.some.injEq, Prod.mk.injEq, List.append_eq_nil_iff] at h2
    exact hs h2.2.2

/-- encodings are injective on well-typed values -/
theorem encode_inj (C : Codec) (L : C.RT) (t : Ty) (v w : Val)
    (hv : wt t v = true) (hw : wt t w = true) (h : encode C t v = encode C t w) : v = w := by
  have h1 := roundtrip C L t v [] hv
  have h2 := roundtrip C L t w [] hw
  rw [h, h2] at h1
  simp only [Option.some.injEq, Prod.mk.injEq, and_true] at h1
  exact h1.symm

end Gossamer.Scale
