/-
Shared SCALE development (C11, C12; reusable by C09/C14/C33).  Core Lean only.

* `Prim`, `Ty`, `Val`  : the type universe and its values.  `Ty` is deliberately NOT a nested
  inductive: a struct/tuple is a right-nested `pair … unit` chain, an enum (varying data type) is an
  `enumCons idx ty rest … enumNil` chain, so plain `induction t` works.
* `compactEnc`/`compactDec` : canonical SCALE compact integers (reject non-canonical forms).
* `Codec`               : the primitive layer (`encP/decP`, length prefix `encLen/decLen`).
* `encode C`/`decode C` : the structural layer, generic in the primitive codec.  Instantiated with
  `Spec.codec` it is the canonical SCALE codec; the Go model instantiates it with the Go primitives.
* generic theorems `roundtrip`, `sound`, `truncated` from the primitive laws `Codec.Lawful`.
-/
import Gossamer.Base.Bytes
namespace Gossamer.Scale
open Gossamer

/-! ## universe -/

inductive Prim
  | u8 | u16 | u32 | u64 | u128
  | i8 | i16 | i32 | i64
  | compact   -- Go `uint`        : Compact<u64>
  | big       -- Go `*big.Int`    : Compact<BigUint>, < 2^536
  | bool
  | bytes     -- Go `[]byte`
  | str       -- Go `string` (any bytes: Go does not validate UTF-8)
deriving DecidableEq, Repr, Inhabited

inductive Ty
  | prim (p : Prim)
  | unit                                   -- empty struct / Rust `()`
  | pair (a b : Ty)                        -- struct fields in SCALE order: a, then the rest
  | option (t : Ty)                        -- Go pointer
  | result (a b : Ty)                      -- scale.Result
  | array (n : Nat) (t : Ty)               -- Go [n]T
  | seq (t : Ty)                           -- Go []T
  | enumNil                                -- varying data type: no (more) variants
  | enumCons (idx : Nat) (t : Ty) (rest : Ty)
deriving Repr, Inhabited

inductive Val
  | nat (n : Nat)
  | int (i : Int)
  | bool (b : Bool)
  | bytes (b : Bytes)
  | unit
  | pair (a b : Val)
  | none
  | some (v : Val)
  | ok (v : Val)
  | err (v : Val)
  | list (vs : List Val)
  | variant (idx : Nat) (v : Val)
deriving Repr, Inhabited, BEq

/-- how a primitive is laid out -/
inductive PKind
  | uint (w : Nat)        -- `w` little-endian bytes, unsigned
  | sint (w : Nat)        -- `w` little-endian bytes, two's complement
  | compact (m : Nat)     -- compact integer whose big-integer payload has at most `m` bytes
  | bool
  | bytes                 -- compact length (< 2^32) then the bytes
deriving DecidableEq, Repr

def Prim.kind : Prim → PKind
  | .u8 => .uint 1 | .u16 => .uint 2 | .u32 => .uint 4 | .u64 => .uint 8 | .u128 => .uint 16
  | .i8 => .sint 1 | .i16 => .sint 2 | .i32 => .sint 4 | .i64 => .sint 8
  | .compact => .compact 8 | .big => .compact 67
  | .bool => .bool | .bytes => .bytes | .str => .bytes

/-- limit of a byte-string length (Go `decodeBytes`: `length > math.MaxUint32` is an error) -/
def maxBytesLen : Nat := 2 ^ 32
/-- limit of a sequence length (Go `decodeLength` yields a `uint`) -/
def maxSeqLen : Nat := 2 ^ 64

def wtKind : PKind → Val → Bool
  | .uint w, .nat n => n < 256 ^ w
  | .sint w, .int i => - (256 ^ w / 2 : Nat) ≤ i ∧ i < (256 ^ w / 2 : Nat)
  | .compact m, .nat n => n < 256 ^ m
  | .bool, .bool _ => true
  | .bytes, .bytes b => b.length < maxBytesLen
  | _, _ => false

/-- well-typed values: exactly the values a Go variable of the type can hold and SCALE can express -/
def wt : Ty → Val → Bool
  | .prim p, v => wtKind p.kind v
  | .unit, .unit => true
  | .pair a b, .pair x y => wt a x && wt b y
  | .option _, .none => true
  | .option t, .some v => wt t v
  | .result a _, .ok v => wt a v
  | .result _ b, .err v => wt b v
  | .array n t, .list vs => vs.length == n && vs.all (wt t)
  | .seq t, .list vs => decide (vs.length < maxSeqLen) && vs.all (wt t)
  | .enumCons i t rest, .variant j v =>
      if j = i then decide (i < 256) && wt t v else wt rest (.variant j v)
  | _, _ => false

/-! ## little-endian digit lemmas -/

theorem leMin_zero : leMin 0 = [] := by unfold leMin; simp

theorem leMin_pos {n : Nat} (h : n ≠ 0) : leMin n = UInt8.ofNat (n % 256) :: leMin (n / 256) := by
  rw [leMin]; simp [h]

theorem toNat_ofNat_mod (n : Nat) : (UInt8.ofNat (n % 256)).toNat = n % 256 := by
  simp [UInt8.toNat_ofNat']

theorem toNat_ofNat_lt {n : Nat} (h : n < 256) : (UInt8.ofNat n).toNat = n := by
  simp [UInt8.toNat_ofNat']; omega

theorem natOfLE_leMin (n : Nat) : natOfLE (leMin n) = n := by
  induction n using Nat.strongRecOn with
  | _ n ih =>
    by_cases h : n = 0
    · subst h; simp [leMin_zero, natOfLE]
    · rw [leMin_pos h, natOfLE, toNat_ofNat_mod, ih (n / 256) (by omega)]; omega

theorem natOfLE_lt (b : Bytes) : natOfLE b < 256 ^ b.length := by
  induction b with
  | nil => simp [natOfLE]
  | cons x xs ih =>
    simp only [natOfLE, List.length_cons, Nat.pow_succ]
    have := x.toNat_lt; omega

/-- `leMin n` has at most `k` digits iff `n < 256^k` -/
theorem length_leMin_le (n k : Nat) : (leMin n).length ≤ k ↔ n < 256 ^ k := by
  induction k generalizing n with
  | zero =>
    by_cases h : n = 0
    · subst h; simp [leMin_zero]
    · rw [leMin_pos h]; simp; omega
  | succ k ih =>
    by_cases h : n = 0
    · subst h; simp [leMin_zero]; exact Nat.pow_pos (by decide)
    · rw [leMin_pos h, List.length_cons, Nat.succ_le_succ_iff, ih, Nat.pow_succ]; omega

theorem length_leMin_lt (n k : Nat) : k < (leMin n).length ↔ 256 ^ k ≤ n := by
  have := length_leMin_le n k; omega

/-- the most significant digit of `leMin n` is non-zero -/
theorem getLast_leMin (n : Nat) (h : leMin n ≠ []) : (leMin n).getLast h ≠ 0 := by
  induction n using Nat.strongRecOn with
  | _ n ih =>
    by_cases h0 : n = 0
    · subst h0; simp [leMin_zero] at h
    · have e := leMin_pos h0
      by_cases hq : n / 256 = 0
      · have hlt : n < 256 := by omega
        have : leMin n = [UInt8.ofNat (n % 256)] := by rw [e, hq, leMin_zero]
        simp only [this, List.getLast_singleton]
        intro hz
        have := congrArg UInt8.toNat hz
        rw [toNat_ofNat_mod] at this; simp at this; omega
      · have hne : leMin (n / 256) ≠ [] := by rw [leMin_pos hq]; simp
        have := ih (n / 256) (by omega) hne
        simp only [e, List.getLast_cons hne]; exact this

/-- digits with a non-zero top digit are the minimal digits of their value -/
theorem leMin_natOfLE (b : Bytes) (h : ∀ hne : b ≠ [], b.getLast hne ≠ 0) : leMin (natOfLE b) = b := by
  induction b with
  | nil => simp [natOfLE, leMin_zero]
  | cons x xs ih =>
    have hx := x.toNat_lt
    have hne0 : natOfLE (x :: xs) ≠ 0 := by
      simp only [natOfLE]
      cases xs with
      | nil =>
        have := h (by simp); simp only [List.getLast_singleton] at this
        simp only [natOfLE]; intro hz
        apply this; apply UInt8.toNat_inj.mp; simp; omega
      | cons y ys =>
        have hl : (y :: ys) ≠ [] := by simp
        have hy := ih (fun hne => by have := h (by simp); rwa [List.getLast_cons hne] at this)
        intro hz
        have hz' : natOfLE (y :: ys) = 0 := by omega
        rw [hz', leMin_zero] at hy; simp at hy
    rw [leMin_pos hne0]
    simp only [natOfLE]
    have h1 : (x.toNat + 256 * natOfLE xs) % 256 = x.toNat := by omega
    have h2 : (x.toNat + 256 * natOfLE xs) / 256 = natOfLE xs := by omega
    rw [h1, h2]
    congr 1
    · apply UInt8.toNat_inj.mp; rw [toNat_ofNat_lt hx]
    · apply ih; intro hne
      have := h (by simp); rwa [List.getLast_cons hne] at this

theorem leBytes_natOfLE (b : Bytes) : leBytes b.length (natOfLE b) = b := by
  induction b with
  | nil => rfl
  | cons x xs ih =>
    have hx := x.toNat_lt
    simp only [List.length_cons, leBytes, natOfLE]
    have h1 : (x.toNat + 256 * natOfLE xs) % 256 = x.toNat := by omega
    have h2 : (x.toNat + 256 * natOfLE xs) / 256 = natOfLE xs := by omega
    rw [h1, h2, ih]; congr 1
    apply UInt8.toNat_inj.mp; rw [toNat_ofNat_lt hx]

theorem natOfLE_leBytes_lt {k n : Nat} (h : n < 256 ^ k) : natOfLE (leBytes k n) = n := by
  rw [natOfLE_leBytes, Nat.mod_eq_of_lt h]

end Gossamer.Scale
