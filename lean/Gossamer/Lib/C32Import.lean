/-
C32 — the importer on a list of blocks whose parents are known or precede them.
-/
import Gossamer.Lib.C32Frags
namespace Gossamer.C32

/-- the hash of the header of an executed block -/
def Ev.execId : Ev → Option Nat
  | .exec b _ => some b.id
  | _ => none

/-- `false` exactly for a block handed to the importer, or an execution attempted, while the parent
    was unknown -/
def Ev.flagOk : Ev → Bool
  | .exec _ pk => pk
  | .handed _ pk => pk
  | _ => true

def execIds (evs : List Ev) : List Nat := evs.filterMap Ev.execId

theorem execIds_append (a b : List Ev) : execIds (a ++ b) = execIds a ++ execIds b := by
  simp [execIds, List.filterMap_append]

/-- every block is good and its parent is in `K` or is a block before it in the list -/
def ReadyL : List Nat → List BD → Prop
  | _, [] => True
  | K, b :: rest => GoodBlock b ∧ b.parent ∈ K ∧ ReadyL (b.id :: K) rest

theorem readyL_mono : ∀ {l : List BD} {K K' : List Nat}, (∀ x ∈ K, x ∈ K') → ReadyL K l → ReadyL K' l
  | [], _, _, _, _ => trivial
  | b :: rest, K, K', hk, h => by
    obtain ⟨h1, h2, h3⟩ := h
    refine ⟨h1, hk _ h2, readyL_mono (K := b.id :: K) ?_ h3⟩
    intro x hx
    rcases List.mem_cons.mp hx with rfl | hx'
    · exact List.mem_cons_self
    · exact List.mem_cons_of_mem _ (hk x hx')

theorem readyL_append : ∀ {a b : List BD} {K : List Nat}, ReadyL K a → ReadyL K b → ReadyL K (a ++ b)
  | [], _, _, _, hb => hb
  | x :: a, b, K, ha, hb => by
    obtain ⟨h1, h2, h3⟩ := ha
    exact ⟨h1, h2, readyL_append h3 (readyL_mono (fun y hy => List.mem_cons_of_mem _ hy) hb)⟩

theorem readyL_of_chain : ∀ {f : List BD} {K : List Nat}, isChain f = true → (∀ b ∈ f, GoodBlock b) →
    (∀ h, f.head? = some h → h.parent ∈ K) → ReadyL K f
  | [], _, _, _, _ => trivial
  | [b], K, _, hg, hh => ⟨hg b List.mem_cons_self, hh b rfl, trivial⟩
  | b :: c :: rest, K, hc, hg, hh => by
    rw [isChain_cons_cons] at hc
    simp only [Bool.and_eq_true] at hc
    have hgb := hg b List.mem_cons_self
    refine ⟨hgb, hh b rfl, readyL_of_chain hc.2 (fun x hx => hg x (List.mem_cons_of_mem _ hx)) ?_⟩
    intro h hhd
    simp only [List.head?_cons, Option.some.injEq] at hhd
    subst hhd
    have hp := hc.1
    simp only [isParent, Bool.and_eq_true, beq_iff_eq] at hp
    rw [← hp.2, hgb.1]
    exact List.mem_cons_self

theorem readyL_of_frag {f : List BD} {K : List Nat} (hg : GoodFrag f)
    (hk : headParentKnown K f = true) : ReadyL K f := by
  refine readyL_of_chain hg.2.1 hg.2.2 ?_
  intro h hh
  simpa [headParentKnown, hh] using hk

theorem readyL_flatten {K : List Nat} : ∀ {l : List (List BD)},
    (∀ f ∈ l, GoodFrag f ∧ headParentKnown K f = true) → ReadyL K l.flatten
  | [], _ => trivial
  | f :: fs, h => by
    rw [List.flatten_cons]
    exact readyL_append (readyL_of_frag (h f List.mem_cons_self).1 (h f List.mem_cons_self).2)
      (readyL_flatten (fun g hg => h g (List.mem_cons_of_mem _ hg)))

/-- what a successful import of a list of blocks guarantees -/
structure ImpOk (st : St) (res : St × List Ev × Outcome) : Prop where
  ok : res.2.2 = .ok
  inc : res.1.incomplete = st.incomplete
  dj : res.1.disjoint = st.disjoint
  mono : ∀ x ∈ st.known, x ∈ res.1.known
  flags : ∀ e ∈ res.2.1, e.flagOk = true
  fresh : ∀ x ∈ execIds res.2.1, x ∉ st.known ∧ x ∈ res.1.known
  nodup : (execIds res.2.1).Nodup

theorem importBlock_ok {st : St} {b : BD} (hg : GoodBlock b) (hp : b.parent ∈ st.known) :
    ImpOk st (importBlock st b) ∧ b.id ∈ (importBlock st b).1.known := by
  obtain ⟨hs, hb⟩ := hg
  unfold importBlock
  by_cases hk : st.known.contains b.stated = true
  · simp only [hk, if_true]
    have : b.id ∈ st.known := by rw [← hs]; simpa using hk
    exact ⟨⟨rfl, rfl, rfl, fun x hx => hx, by simp [Ev.flagOk, hp], by simp [execIds, List.filterMap_cons, Ev.execId],
      by simp [execIds, List.filterMap_cons, Ev.execId]⟩, this⟩
  · have hnk : b.id ∉ st.known := by rw [← hs]; simpa using hk
    have hpk : st.known.contains b.parent = true := by simpa using hp
    simp only [hk, hb, hpk, Bool.false_eq_true, if_false, if_true, Bool.not_true, Bool.and_false]
    by_cases hj : b.just = true
    · simp only [hj, if_true, List.contains_cons, beq_self_eq_true, Bool.true_or]
      refine ⟨⟨rfl, rfl, rfl, fun x hx => List.mem_cons_of_mem _ hx, ?_, ?_, ?_⟩, List.mem_cons_self⟩
      · intro e he
        simp at he
        rcases he with rfl | rfl | rfl <;> rfl
      · intro x hx
        simp [execIds, Ev.execId] at hx
        subst hx
        exact ⟨hnk, List.mem_cons_self⟩
      · simp [execIds, List.filterMap_cons, Ev.execId]
    · simp only [hj, Bool.false_eq_true, if_false]
      refine ⟨⟨rfl, rfl, rfl, fun x hx => List.mem_cons_of_mem _ hx, ?_, ?_, ?_⟩, List.mem_cons_self⟩
      · intro e he
        simp at he
        rcases he with rfl | rfl <;> rfl
      · intro x hx
        simp [execIds, Ev.execId] at hx
        subst hx
        exact ⟨hnk, List.mem_cons_self⟩
      · simp [execIds, List.filterMap_cons, Ev.execId]

theorem importAll_ok : ∀ {l : List BD} {st : St} {K : List Nat}, ReadyL K l →
    (∀ x ∈ K, x ∈ st.known) → ImpOk st (importAll st l)
  | [], st, _, _, _ =>
    ⟨rfl, rfl, rfl, fun _ hx => hx, by simp [importAll], by simp [importAll, execIds],
      by simp [importAll, execIds]⟩
  | b :: rest, st, K, hr, hk => by
    obtain ⟨hg, hp, hrest⟩ := hr
    obtain ⟨h1, hid⟩ := importBlock_ok hg (hk _ hp)
    rcases hib : importBlock st b with ⟨st1, ev, o⟩
    rw [hib] at h1 hid
    have ho : o = .ok := h1.ok
    subst ho
    have hk1 : ∀ x ∈ b.id :: K, x ∈ st1.known := by
      intro x hx
      rcases List.mem_cons.mp hx with rfl | hx'
      · exact hid
      · exact h1.mono x (hk x hx')
    have h2 := importAll_ok (st := st1) hrest hk1
    unfold importAll
    rw [hib]
    simp only []
    rcases hia : importAll st1 rest with ⟨st2, ev2, o2⟩
    rw [hia] at h2
    simp only []
    refine ⟨h2.ok, h2.inc.trans h1.inc, h2.dj.trans h1.dj, fun x hx => h2.mono x (h1.mono x hx), ?_, ?_, ?_⟩
    · intro e he
      rcases List.mem_append.mp he with h | h
      · exact h1.flags e h
      · exact h2.flags e h
    · intro x hx
      simp only [execIds_append] at hx
      rcases List.mem_append.mp hx with h | h
      · exact ⟨(h1.fresh x h).1, h2.mono x (h1.fresh x h).2⟩
      · exact ⟨fun hc => (h2.fresh x h).1 (h1.mono x hc), (h2.fresh x h).2⟩
    · simp only [execIds_append]
      refine List.nodup_append.mpr ⟨h1.nodup, h2.nodup, ?_⟩
      intro x hx y hy hxy
      subst hxy
      exact (h2.fresh x hy).1 (h1.fresh x hx).2

/-! ### the second pass over the fragments whose parent was unknown -/

theorem second_spec {known : List Nat} {fin : Nat} : ∀ {disj : List (List BD)},
    (∀ f ∈ disj, GoodFrag f) →
    ReadyL known (second known fin disj).next ∧ ∀ f ∈ (second known fin disj).stored, GoodFrag f
  | [], _ => by simp [second, ReadyL]
  | frag :: rest, h => by
    obtain ⟨ih1, ih2⟩ := second_spec (known := known) (fin := fin)
      (fun g hg => h g (List.mem_cons_of_mem _ hg))
    unfold second
    simp only []
    split
    · exact ⟨ih1, ih2⟩
    · rename_i hd tl hv
      have hgood : GoodFrag (hd :: tl) := by
        obtain ⟨pre, hpre⟩ := validUnder_suffix fin frag
        have := h frag List.mem_cons_self
        rw [hpre, hv] at this
        exact goodFrag_suffix this (by simp)
      split
      · rename_i hk
        refine ⟨?_, ih2⟩
        simp only []
        refine readyL_append (readyL_of_frag hgood ?_) ih1
        simpa [headParentKnown] using hk
      · split
        · exact ⟨ih1, ih2⟩
        · refine ⟨ih1, ?_⟩
          intro f hf
          simp only [] at hf
          rcases List.mem_cons.mp hf with rfl | hf'
          · exact hgood
          · exact ih2 f hf'

end Gossamer.C32
