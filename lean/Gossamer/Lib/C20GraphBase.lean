/-
C20 layer (b), proofs: chain indexing / block numbers, `takeThrough`, the canonical ancestor edge of a block
with respect to a set of vote-nodes.
-/
import Gossamer.Lib.C20GraphRound
import Gossamer.Lib.C20Tree
namespace Gossamer.C20

variable {t : Tree}

/-! ### chains: tails, numbers, indexing -/

theorem Tree.chain_tail_pos (h : t.WF) {b : Nat} (hb : 0 < b) : (t.chain b).tail = t.chain (t.parent b) := by
  rw [Tree.chain_pos h hb]; rfl

theorem Tree.chain_ne_nil (t : Tree) (b : Nat) : t.chain b ≠ [] :=
  List.ne_nil_of_mem (t.mem_chain_self b)

theorem Tree.chain_length_pos (t : Tree) (b : Nat) : 0 < (t.chain b).length :=
  List.length_pos_iff.2 (t.chain_ne_nil b)

theorem Tree.num_zero (t : Tree) : t.num 0 = 0 := rfl

theorem Tree.num_pos (h : t.WF) {b : Nat} (hb : 0 < b) : t.num b = t.num (t.parent b) + 1 := by
  unfold Tree.num
  rw [Tree.chain_pos h hb]
  have := t.chain_length_pos (t.parent b)
  simp only [List.length_cons]
  omega

/-- the chain of the `i`-th element of a chain is the chain dropped by `i` -/
theorem Tree.chain_getElem (h : t.WF) : ∀ (b i : Nat) (x : Nat), (t.chain b)[i]? = some x →
    t.chain x = (t.chain b).drop i := by
  intro b
  induction b using Nat.strongRecOn with
  | _ b ih =>
    intro i x hx
    by_cases hb : b = 0
    · subst hb
      rw [Tree.chain_zero] at hx ⊢
      cases i with
      | zero => simp at hx; subst hx; rfl
      | succ i => simp at hx
    · have hb' : 0 < b := by omega
      rw [Tree.chain_pos h hb'] at hx ⊢
      cases i with
      | zero => simp at hx; subst hx; rw [Tree.chain_pos h hb']; rfl
      | succ i =>
        simp only [List.getElem?_cons_succ] at hx
        simp only [List.drop_succ_cons]
        exact ih _ (Tree.parent_lt h hb') i x hx

theorem Tree.num_getElem (h : t.WF) {b i x : Nat} (hx : (t.chain b)[i]? = some x) :
    t.num x + i = t.num b := by
  unfold Tree.num
  rw [Tree.chain_getElem h b i x hx, List.length_drop]
  have : i < (t.chain b).length := by
    rcases Nat.lt_or_ge i (t.chain b).length with h1 | h1
    · exact h1
    · rw [List.getElem?_eq_none h1] at hx; cases hx
  omega

/-- on a chain the number determines the block -/
theorem Tree.chain_num_inj (h : t.WF) {b x y : Nat} (hx : x ∈ t.chain b) (hy : y ∈ t.chain b)
    (hn : t.num x = t.num y) : x = y := by
  rcases Tree.comparable h hx hy with hxy | hyx
  · by_cases he : x = y
    · exact he
    · have := Tree.depth_lt h hxy he
      unfold Tree.num at hn
      have := t.chain_length_pos x
      omega
  · by_cases he : y = x
    · exact he.symm
    · have := Tree.depth_lt h hyx he
      unfold Tree.num at hn
      have := t.chain_length_pos y
      omega

theorem Tree.num_le_of_mem (h : t.WF) {a b : Nat} (ha : a ∈ t.chain b) : t.num a ≤ t.num b := by
  obtain ⟨i, hi⟩ := List.getElem?_of_mem ha
  have := Tree.num_getElem h hi
  omega

theorem Tree.num_lt_of_mem (h : t.WF) {a b : Nat} (ha : a ∈ t.chain b) (hne : a ≠ b) : t.num a < t.num b := by
  have := Tree.depth_lt h ha hne
  unfold Tree.num
  have := t.chain_length_pos a
  omega

/-! ### takeThrough -/

/-- elements up to and including the first one with `p` -/
def takeThrough (p : Nat → Bool) : List Nat → List Nat
  | [] => []
  | x :: xs => if p x then [x] else x :: takeThrough p xs

theorem takeThrough_prefix (p : Nat → Bool) : ∀ l, takeThrough p l <+: l := by
  intro l
  induction l with
  | nil => exact List.prefix_refl _
  | cons x xs ih =>
    simp only [takeThrough]
    split
    · exact ⟨xs, rfl⟩
    · exact (List.prefix_cons_inj x).2 ih

/-- `findIdx?` + `take (i+1)` of `append` is `takeThrough` -/
theorem take_findIdx_eq (p : Nat → Bool) : ∀ (l : List Nat) (i : Nat), l.findIdx? p = some i →
    l.take (i + 1) = takeThrough p l ∧ p (l.getD i 0) = true := by
  intro l
  induction l with
  | nil => intro i h; simp at h
  | cons x xs ih =>
    intro i h
    simp only [List.findIdx?_cons] at h
    by_cases hp : p x = true
    · simp only [hp, if_true] at h
      have : i = 0 := (Option.some.inj h).symm
      subst this
      simp [takeThrough, hp]
    · have hp' : p x = false := by simpa using hp
      simp only [hp', Bool.false_eq_true, if_false] at h
      cases hf : xs.findIdx? p with
      | none => rw [hf] at h; simp at h
      | some j =>
        rw [hf] at h
        have : i = j + 1 := by simpa using h.symm
        subst this
        obtain ⟨i1, i2⟩ := ih j hf
        simp only [takeThrough, hp', Bool.false_eq_true, if_false, List.take_succ_cons]
        exact ⟨by rw [i1], by simpa using i2⟩

theorem takeThrough_spec (p : Nat → Bool) : ∀ (l : List Nat), (∃ x, x ∈ l ∧ p x = true) →
    ∃ pre last, takeThrough p l = pre ++ [last] ∧ p last = true ∧ ∀ x, x ∈ pre → p x = false := by
  intro l
  induction l with
  | nil => rintro ⟨x, hx, _⟩; simp at hx
  | cons x xs ih =>
    intro hex
    simp only [takeThrough]
    by_cases hp : p x = true
    · simp only [hp, if_true]
      exact ⟨[], x, rfl, hp, by simp⟩
    · have hp' : p x = false := by simpa using hp
      simp only [hp', Bool.false_eq_true, if_false]
      obtain ⟨y, hy, hpy⟩ := hex
      have : ∃ z, z ∈ xs ∧ p z = true := by
        rcases List.mem_cons.1 hy with rfl | hy
        · rw [hp'] at hpy; cases hpy
        · exact ⟨y, hy, hpy⟩
      obtain ⟨pre, last, e, hl, hpre⟩ := ih this
      refine ⟨x :: pre, last, by rw [e]; rfl, hl, ?_⟩
      intro z hz
      rcases List.mem_cons.1 hz with rfl | hz
      · exact hp'
      · exact hpre z hz

end Gossamer.C20
