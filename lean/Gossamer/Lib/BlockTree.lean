/-
Shared block-tree development (C15, C16; reusable by C17, C23, C26, C31).  Core Lean only.

`Model` part  : the Go structure of lib/blocktree (node.go, blocktree.go, leaves.go) — a rose tree whose
                children are kept in insertion order (`addChild` appends) plus the leaf map; every Go
                traversal is transliterated over forests (`for _, child := range n.children` = recursion
                over the list of children).
`Spec` part   : a flat list of blocks `(hash, parent, number, arrival, primary)`; ancestry is the chain
                obtained by following parent links (`Spec.chain`), everything else is defined from that.

Go pointers.  A `*node` is identified with the node of the tree that carries its hash; `n.parent` walks are
walks along `pathF` (the list node, parent, …, root).  This is sound because block hashes are unique in the
tree (an invariant proved for every history: `Inv.nodup`, Lib/BlockTreeInv + `C15.reach`) and because the leaf map only ever holds pointers to
nodes that are linked in the tree (AddBlock stores the node it has just linked; Prune rebuilds the map from
`getLeaves`).
-/
namespace Gossamer.BlockTree

abbrev Hash := Nat

/-- the payload of a Go `node` (without the pointers) -/
structure Info where
  /-- a `Hash`; declared `Nat` so that `omega` sees comparisons of hashes -/
  hash : Nat
  number : Nat
  arrival : Nat
  primary : Bool
deriving DecidableEq, Repr, Inhabited

/-- Go `node`: payload + `children []*node` in slice order -/
inductive Node where
  | mk (info : Info) (children : List Node)
deriving Repr, Inhabited

abbrev Forest := List Node

def Node.info : Node → Info
  | .mk i _ => i

def Node.children : Node → List Node
  | .mk _ cs => cs

@[simp] theorem Node.info_mk (i : Info) (cs : List Node) : (Node.mk i cs).info = i := rfl
@[simp] theorem Node.children_mk (i : Info) (cs : List Node) : (Node.mk i cs).children = cs := rfl

/-- induction principle used for every proof about forests -/
theorem forest_ind {P : Forest → Prop} (nil : P [])
    (cons : ∀ i cs rest, P cs → P rest → P (.mk i cs :: rest)) : ∀ f, P f
  | [] => nil
  | .mk i cs :: rest => cons i cs rest (forest_ind nil cons cs) (forest_ind nil cons rest)

/-! ### node.go traversals -/

/-- `node.getNode` applied to every node of a children slice, first hit wins -/
def findF (h : Hash) : Forest → Option Node
  | [] => none
  | .mk i cs :: rest =>
    if i.hash = h then some (.mk i cs)
    else match findF h cs with
      | some n => some n
      | none => findF h rest

/-- `n.isDescendantOf(parent)` for `n.hash = h`, over the slice `parent.children` (or `[parent]`):
    a downward search for the hash -/
def occF (h : Hash) : Forest → Bool
  | [] => false
  | .mk i cs :: rest => if i.hash = h then true else if occF h cs then true else occF h rest

/-- `getAllDescendants`: pre-order hashes -/
def descF : Forest → List Hash
  | [] => []
  | .mk i cs :: rest => i.hash :: (descF cs ++ descF rest)

/-- pre-order payloads -/
def infosF : Forest → List Info
  | [] => []
  | .mk i cs :: rest => i :: (infosF cs ++ infosF rest)

/-- `getLeaves` -/
def leavesF : Forest → List Info
  | [] => []
  | .mk i cs :: rest => (if cs.isEmpty then [i] else []) ++ (leavesF cs ++ leavesF rest)

/-- `hashesAtNumber` -/
def hashesAtF (num : Nat) : Forest → List Hash
  | [] => []
  | .mk i cs :: rest =>
    (if num = i.number then [i.hash] else if num > i.number then hashesAtF num cs else [])
      ++ hashesAtF num rest

/-- the chain of parent pointers of the node with hash `h`: node, parent, …, top-level node -/
def pathF (h : Hash) : Forest → Option (List Info)
  | [] => none
  | .mk i cs :: rest =>
    if i.hash = h then some [i]
    else match pathF h cs with
      | some p => some (p ++ [i])
      | none => pathF h rest

/-- `parent.addChild(c)` on the first node (DFS order) with hash `ph` -/
def addChildF (ph : Hash) (c : Node) : Forest → Forest
  | [] => []
  | .mk i cs :: rest =>
    if i.hash = ph then .mk i (cs ++ [c]) :: rest
    else if occF ph cs then .mk i (addChildF ph c cs) :: rest
    else .mk i cs :: addChildF ph c rest

def Node.addChild (t : Node) (ph : Hash) (c : Node) : Node :=
  match t with
  | .mk i cs => if i.hash = ph then .mk i (cs ++ [c]) else .mk i (addChildF ph c cs)

/-- `node.prune(finalised, pruned)` run over a slice of nodes (the repaired code ranges over a copy of
    `n.children`, so every child is visited exactly once).  `deleteChild` only mutates nodes that become
    unreachable when `bt.root = finalised` is assigned afterwards, so it has no observable effect. -/
def pruneF (fin : Node) : Forest → List Hash
  | [] => []
  | .mk i cs :: rest =>
    (if occF i.hash [fin] then []
     else (if occF fin.info.hash [.mk i cs] then [] else [i.hash]) ++ pruneF fin cs)
      ++ pruneF fin rest

/-! ### leaves.go -/

/-- `smap.Delete(k)` -/
def leafDelete (k : Hash) (l : List Info) : List Info := l.filter (fun x => x.hash ≠ k)

/-- `smap.Store(v.hash, v)` -/
def leafStore (v : Info) (l : List Info) : List Info :=
  if l.any (fun x => x.hash = v.hash) then l.map (fun x => if x.hash = v.hash then v else x) else l ++ [v]

/-- `leafMap.replace` -/
def leafReplace (l : List Info) (old new : Info) : List Info := leafStore new (leafDelete old.hash l)

/-- `n.primaryAncestorCount(0)`: primary blocks on the chain of `h`, the root (`parent == nil`) excluded -/
def primaryCount (root : Node) (h : Hash) : Nat :=
  match pathF h [root] with
  | some p => (p.dropLast.filter (fun x => x.primary)).length
  | none => 0

/-- one callback of `highestLeaf`'s `Range`; `none` = nil-pointer dereference -/
def hlStep (st : Nat × Option Info) (node : Info) : Option (Nat × Option Info) :=
  if st.1 < node.number then some (node.number, some node)
  else if st.1 = node.number then
    match st.2 with
    | none => none
    | some d =>
      if node.arrival < d.arrival then some (st.1, some node)
      else if node.arrival = d.arrival then
        (if node.hash < d.hash then some (st.1, some node) else some st)
      else some st
  else some st

def hlFold : Nat × Option Info → List Info → Option (Nat × Option Info)
  | st, [] => some st
  | st, x :: xs => match hlStep st x with
    | none => none
    | some st' => hlFold st' xs

/-- `leafMap.highestLeaf` iterating in the order `it`; outer `none` = panic, inner `none` = nil -/
def highestLeaf (it : List Info) : Option (Option Info) :=
  (hlFold (0, none) it).map (·.2)

/-- the `highest` variable of `bestBlock` -/
def highestCount (root : Node) (it : List Info) : Nat :=
  it.foldl (fun hi x => if primaryCount root x.hash > hi then primaryCount root x.hash else hi) 0

/-- `leafMap.bestBlock`: `it` is the iteration order of the sync.Map, `σ` the iteration order of the
    second, temporary sync.Map.  outer `none` = panic, inner `none` = nil -/
def bestBlock (root : Node) (it : List Info) (σ : List Info → List Info) : Option (Option Info) :=
  let hi := highestCount root it
  let group := it.filter (fun x => primaryCount root x.hash = hi)
  match group with
  | [x] => some (some x)
  | g => highestLeaf (σ g)

/-! ### blocktree.go -/

structure BT where
  root : Node
  /-- the leaf map in some iteration order -/
  leaves : List Info
deriving Repr, Inhabited

/-- what AddBlock reads from the header; `kind` is the result of `types.IsPrimary` (`none` = error) -/
structure Header where
  hash : Hash
  parent : Hash
  number : Nat
  kind : Option Bool
deriving Repr, Inhabited

inductive AddErr where
  | parentNotFound | blockExists | unexpectedNumber | primary
deriving DecidableEq, Repr

/-- `bt.getNode`: root, then the leaf map, then DFS — all three find the node carrying the hash -/
def BT.getNode (bt : BT) (h : Hash) : Option Node := findF h [bt.root]

def NewBlockTreeFromRoot (hash number arrival : Nat) : BT :=
  let i : Info := ⟨hash, number, arrival, false⟩
  ⟨.mk i [], [i]⟩

def BT.addBlock (bt : BT) (hd : Header) (arrival : Nat) : Except AddErr BT :=
  match bt.getNode hd.parent with
  | none => .error .parentNotFound
  | some p =>
    if (bt.getNode hd.hash).isSome then .error .blockExists
    else if p.info.number + 1 ≠ hd.number then .error .unexpectedNumber
    else
      match (if hd.number ≠ 0 then hd.kind else some false) with
      | none => .error .primary
      | some prim =>
        let n : Info := ⟨hd.hash, p.info.number + 1, arrival, prim⟩
        .ok ⟨bt.root.addChild hd.parent (.mk n []), leafReplace bt.leaves p.info n⟩

/-- `Prune`: new tree and the returned hashes -/
def BT.prune (bt : BT) (fh : Hash) : BT × List Hash :=
  if fh = bt.root.info.hash then (bt, [])
  else match bt.getNode fh with
    | none => (bt, [])
    | some n => (⟨n, (leavesF [n]).foldl (fun m l => leafStore l m) []⟩, pruneF n [bt.root])

def BT.getAllBlocks (bt : BT) : List Hash := descF [bt.root]

def BT.getAllDescendants (bt : BT) (h : Hash) : Option (List Hash) :=
  (bt.getNode h).map (fun n => descF [n])

inductive DescRes where
  | ok (b : Bool) | startNotFound | endNotFound
deriving DecidableEq, Repr

def BT.isDescendantOf (bt : BT) (parent child : Hash) : DescRes :=
  if parent = child then .ok true
  else match bt.getNode parent with
    | none => .startNotFound
    | some pn => match bt.getNode child with
      | none => .endNotFound
      | some cn => .ok (occF cn.info.hash [pn])

def BT.leafHashes (bt : BT) : List Hash := bt.leaves.map (·.hash)

inductive RangeErr where
  | endNotFound | startNotFound | startGreater | nilBlock | notAncestor
deriving DecidableEq, Repr

/-- `accumulateHashesInDescedingOrder(endNode, startNode)`; `up` = endNode, endNode.parent, … -/
def accumulate (up : List Info) (en sn : Info) : Except RangeErr (List Hash) :=
  if sn.number > en.number then .error .startGreater
  else
    let k := en.number - sn.number
    match up[k]? with
    | none => .error .nilBlock
    | some x =>
      if x.hash ≠ sn.hash then .error .notAncestor
      else .ok (sn.hash :: ((up.take k).map (·.hash)).reverse)

def BT.up (bt : BT) (h : Hash) : List Info := (pathF h [bt.root]).getD []

def BT.range (bt : BT) (s e : Hash) : Except RangeErr (List Hash) :=
  match bt.getNode e with
  | none => .error .endNotFound
  | some en =>
    let sn := (bt.getNode s).getD bt.root
    accumulate (bt.up e) en.info sn.info

def BT.rangeInMemory (bt : BT) (s e : Hash) : Except RangeErr (List Hash) :=
  match bt.getNode e with
  | none => .error .endNotFound
  | some en =>
    match bt.getNode s with
    | none => .error .startNotFound
    | some sn =>
      if sn.info.number > en.info.number then .error .startGreater
      else accumulate (bt.up e) en.info sn.info

/-- second loop of `lowestCommonAncestor`; `none` = panic -/
def lcaWalk : List Info → List Info → Option Hash
  | x :: xs, y :: ys =>
    if x.hash = y.hash then some x.hash
    else if xs.isEmpty || ys.isEmpty then none
    else lcaWalk xs ys
  | _, _ => none

/-- first loop of `lowestCommonAncestor`: the higher node climbs `diff` parents (`none` = panic), then the
    lock-step walk -/
def lcaAligned (uh ul : List Info) (diff : Nat) : Option Hash :=
  if uh.length ≤ diff then none else lcaWalk (uh.drop diff) ul

/-- `lowestCommonAncestor(aNode, bNode)` on the parent chains; `none` = panic -/
def lcaNodes (ua ub : List Info) (a b : Info) : Option Hash :=
  if a.number > b.number then lcaAligned ua ub (a.number - b.number)
  else lcaAligned ub ua (b.number - a.number)

inductive LcaRes where
  | ok (h : Hash) | notFound | panic
deriving DecidableEq, Repr

def BT.lca (bt : BT) (a b : Hash) : LcaRes :=
  match bt.getNode a with
  | none => .notFound
  | some an => match bt.getNode b with
    | none => .notFound
    | some bn => match lcaNodes (bt.up a) (bt.up b) an.info bn.info with
      | some h => .ok h
      | none => .panic

/-- `GetHashesAtNumber` (upper bound = deepest leaf) -/
def BT.getHashesAtNumber (bt : BT) (num : Nat) : List Hash :=
  if num < bt.root.info.number then []
  else if num > bt.leaves.foldl (fun hi l => if l.number > hi then l.number else hi) 0 then []
  else hashesAtF num [bt.root]

/-- `bt.best()` with the map iterated in stored order -/
def BT.best (bt : BT) (σ : List Info → List Info := id) : Option (Option Info) :=
  bestBlock bt.root bt.leaves σ

inductive HashRes where
  | ok (h : Hash) | panic
deriving DecidableEq, Repr

def BT.bestBlockHash (bt : BT) (σ : List Info → List Info := id) : HashRes :=
  if bt.root.children.isEmpty then .ok bt.root.info.hash
  else match bt.best σ with
    | some (some b) => .ok b.hash
    | _ => .panic

inductive NumRes where
  | ok (h : Hash) | greaterThanHighest | lowerThanRoot | notFound | panic
deriving DecidableEq, Repr

def BT.getHashByNumber (bt : BT) (num : Nat) (σ : List Info → List Info := id) : NumRes :=
  match bt.best σ with
  | some (some best) =>
    if best.number < num then .greaterThanHighest
    else if best.number = num then .ok best.hash
    else if bt.root.info.number > num then .lowerThanRoot
    else if bt.root.info.number = num then .ok bt.root.info.hash
    else match ((bt.up best.hash).tail).find? (fun x => x.number = num) with
      | some x => .ok x.hash
      | none => .notFound
  | _ => .panic

def BT.getArrivalTime (bt : BT) (h : Hash) : Option Nat := (bt.getNode h).map (·.info.arrival)

/-! ### Spec: flat list of blocks, ancestry by following parent links -/

structure Block where
  hash : Hash
  parent : Hash
  number : Nat
  arrival : Nat
  primary : Bool
deriving DecidableEq, Repr, Inhabited

def Block.info (b : Block) : Info := ⟨b.hash, b.number, b.arrival, b.primary⟩

/-- the block made of a node payload and the hash of the node it hangs under -/
def Info.block (i : Info) (p : Hash) : Block := ⟨i.hash, p, i.number, i.arrival, i.primary⟩

/-- the last finalised block and the blocks added below it (any order) -/
structure Spec where
  root : Info
  blocks : List Block
deriving Repr, Inhabited

def lookup (bs : List Block) (h : Hash) : Option Block := bs.find? (fun b => b.hash = h)

/-- blocks met when following parent links upwards from `h`, at most `fuel` of them -/
def chainAux (bs : List Block) : Nat → Hash → List Block
  | 0, _ => []
  | fuel + 1, h => match lookup bs h with
    | none => []
    | some b => b :: chainAux bs fuel b.parent

namespace Spec

/-- `h` upwards until a hash that is not a (non-root) block: the blocks `h, parent h, …` strictly below the root.
    `blocks.length` steps suffice because a chain never repeats a block (`C15.spec_chain_fuel`). -/
def chain (s : Spec) (h : Hash) : List Block := chainAux s.blocks s.blocks.length h

def present (s : Spec) (h : Hash) : Prop := h = s.root.hash ∨ ∃ b ∈ s.blocks, b.hash = h

instance (s : Spec) (h : Hash) : Decidable (s.present h) := by unfold present; infer_instance

/-- `h`, its parent, …, up to and including the root (for a block of the tree) -/
def ancestors (s : Spec) (h : Hash) : List Hash := h :: (s.chain h).map (·.parent)

/-- `a` is `d` or an ancestor of `d` -/
def isAnc (s : Spec) (a d : Hash) : Prop := a ∈ s.ancestors d

instance (s : Spec) (a d : Hash) : Decidable (s.isAnc a d) := by unfold isAnc; infer_instance

/-- the chain of blocks from the ancestor `a` down to `d`, `a` first -/
def pathDown (s : Spec) (a d : Hash) : List Hash :=
  a :: ((s.ancestors d).takeWhile (fun x => decide (x ≠ a))).reverse

/-- payload of a held block -/
def infoOf (s : Spec) (h : Hash) : Option Info :=
  if h = s.root.hash then some s.root else (lookup s.blocks h).map (·.info)

def isLeaf (s : Spec) (h : Hash) : Prop := s.present h ∧ ∀ b ∈ s.blocks, b.parent ≠ h

instance (s : Spec) (h : Hash) : Decidable (s.isLeaf h) := by unfold isLeaf; infer_instance

/-- number of primary-slot blocks on the chain of `h` after the root -/
def primaries (s : Spec) (h : Hash) : Nat := ((s.chain h).filter (·.primary)).length

/-- fork-choice order: `x` beats `y` -/
def better (s : Spec) (x y : Info) : Prop :=
  s.primaries x.hash > s.primaries y.hash ∨
  (s.primaries x.hash = s.primaries y.hash ∧
    (x.number > y.number ∨ (x.number = y.number ∧
      (x.arrival < y.arrival ∨ (x.arrival = y.arrival ∧ x.hash < y.hash)))))

instance (s : Spec) (x y : Info) : Decidable (s.better x y) := by unfold better; infer_instance

/-- `b` is the best block: a leaf that beats every other leaf -/
def IsBest (s : Spec) (b : Info) : Prop :=
  s.isLeaf b.hash ∧ s.infoOf b.hash = some b ∧
    ∀ l, s.isLeaf l.hash → s.infoOf l.hash = some l → l.hash ≠ b.hash → s.better b l

/-- AddBlock accepted -/
def add (s : Spec) (b : Block) : Spec := { s with blocks := s.blocks ++ [b] }

/-- finalise a held block `f` (payload `fi`): keep its strict descendants -/
def prune (s : Spec) (fi : Info) : Spec :=
  ⟨fi, s.blocks.filter (fun b => decide (s.isAnc fi.hash b.hash ∧ b.hash ≠ fi.hash))⟩

end Spec

/-- the flat view of a forest whose top-level nodes have parent `p` (pre-order) -/
def blocksF (p : Hash) : Forest → List Block
  | [] => []
  | .mk i cs :: rest => i.block p :: (blocksF i.hash cs ++ blocksF p rest)

def specOfNode (n : Node) : Spec := ⟨n.info, blocksF n.info.hash n.children⟩

def BT.spec (bt : BT) : Spec := specOfNode bt.root

end Gossamer.BlockTree
