/-
C33: re-encoding lemmas — a message a decoder produced, encoded by the Go `Encode`, decodes to
itself.  SCALE parts, block request, block data.
-/
import Gossamer.Model.C33
import Gossamer.Lib.C33Scale
import Gossamer.Lib.C33WireLemmas
namespace Gossamer.C33
open Gossamer Gossamer.Scale Gossamer.Proto

/-! ## SCALE kinds -/

theorem unmarshalTop_ok {t : Ty} {bs : Bytes} {v : Val} (h : unmarshalTop t bs = .ok v) :
    ∃ r, C11.unmarshal t bs = some (v, r) := by
  unfold unmarshalTop at h
  cases hu : C11.unmarshal t bs with
  | none => simp [hu] at h
  | some p =>
    obtain ⟨w, r⟩ := p
    simp only [hu, Out.ok.injEq] at h
    exact ⟨r, by rw [h]⟩

theorem scale_reencode (t : Ty) (hwf : t.wf = true) (bs : Bytes) (v : Val)
    (h : unmarshalTop t bs = .ok v) : unmarshalTop t (C11.marshal t v) = .ok v := by
  obtain ⟨r, hu⟩ := unmarshalTop_ok h
  simp [unmarshalTop, unmarshal_reencode t hwf bs v r hu]

theorem scaleMsg_ok {o : Out Val} {m : Msg} (h : scaleMsg o = .ok m) : ∃ v, o = .ok v ∧ m = .scale v := by
  cases o <;> simp [scaleMsg] at h
  exact ⟨_, rfl, h.symm⟩

theorem grandpaGlue_ok {v : Val} {m : Msg} (h : grandpaGlue v = .ok m) : m = .scale v := by
  unfold grandpaGlue at h
  split at h
  · split at h <;> simp at h; exact h.symm
  all_goals (simp at h; try exact h.symm)

theorem wf_blockAnnounce : blockAnnounceTy.wf = true := by decide
theorem wf_baHandshake : baHandshakeTy.wf = true := by decide
theorem wf_transactions : transactionsTy.wf = true := by decide
theorem wf_lightRequest : lightRequestTy.wf = true := by decide
theorem wf_lightResponse : lightResponseTy.wf = true := by decide
theorem wf_warp : warpTy.wf = true := by decide
theorem wf_grandpaHandshake : grandpaHandshakeTy.wf = true := by decide
theorem wf_grandpaMessage : grandpaMessageTy.wf = true := by decide
theorem wf_body : bodyTy.wf = true := by decide
theorem wf_header : headerTy.wf = true := by decide

/-! ## block body -/

theorem unmarshal_seq_nil (t : Ty) : C11.unmarshal (.seq t) [] = none := by
  simp [C11.unmarshal, Scale.decode, C11.codec, C11.decLen, C11.decodeUintV]

/-- the encoding of a decoded sequence is never empty -/
theorem marshal_ne_nil_of_reencode {t : Ty} {v : Val} (h : C11.unmarshal (.seq t) (C11.marshal (.seq t) v) = some (v, [])) :
    C11.marshal (.seq t) v ≠ [] := by
  intro he; rw [he, unmarshal_seq_nil] at h; cases h

theorem newBodyFromBytes_reencode (bs : Bytes) (v : Val) (h : newBodyFromBytes bs = some v) :
    newBodyFromBytes (C11.marshal bodyTy v) = some v := by
  unfold newBodyFromBytes at h
  by_cases hb : bs = []
  · simp only [hb, if_true, Option.some.injEq] at h
    subst h; rfl
  · simp only [hb, if_false] at h
    cases hu : C11.unmarshal bodyTy bs with
    | none => simp [hu] at h
    | some p =>
      obtain ⟨w, r⟩ := p
      simp only [hu, Option.some.injEq] at h
      subst h
      have hre := unmarshal_reencode bodyTy wf_body bs w r hu
      have hne : C11.marshal bodyTy w ≠ [] := marshal_ne_nil_of_reencode (t := bytesT) hre
      unfold newBodyFromBytes
      rw [if_neg hne]
      have hre' : C11.unmarshal bodyTy (C11.marshal bodyTy w) = some (w, []) := hre
      rw [hre']

/-- the first byte of `scale.Marshal(big.NewInt(k))` is non-zero for `k ≥ 1` -/
theorem encodeBigInt_head (k : Nat) (hk : 1 ≤ k) : ∃ b tl, C11.encodeBigInt k = b :: tl ∧ b ≠ 0 := by
  unfold C11.encodeBigInt
  have ne0 : ∀ x : Nat, x % 256 ≠ 0 → UInt8.ofNat x ≠ 0 := by
    intro x hx he
    have := congrArg UInt8.toNat he
    simp [UInt8.toNat_ofNat'] at this; omega
  by_cases h1 : k < 64
  · simp only [h1, if_true]
    exact ⟨_, [], rfl, ne0 _ (by omega)⟩
  · by_cases h2 : k < 16384
    · simp only [h1, h2, if_true, if_false, leBytes_succ]
      exact ⟨_, _, rfl, ne0 _ (by omega)⟩
    · by_cases h3 : k < 1073741824
      · simp only [h1, h2, h3, if_true, if_false, leBytes_succ]
        exact ⟨_, _, rfl, ne0 _ (by omega)⟩
      · simp only [h1, h2, h3, if_false]
        refine ⟨_, _, rfl, ?_⟩
        unfold C11.lengthByte
        exact ne0 _ (by omega)

/-- a compact integer that decodes to zero starts with the byte zero -/
theorem decodeUintV_zero (b : UInt8) (rest r : Bytes) (h : C11.decodeUintV (b :: rest) = some (0, r)) :
    b = 0 := by
  rw [C11.decodeUint_spec] at h
  have hc := C12.filt_some _ _ h
  have hs := (compactDec_sound hc).2
  have : compactEnc 0 = [0] := by decide
  rw [this] at hs
  simp only [List.cons_append, List.nil_append, List.cons.injEq] at hs
  exact hs.1

theorem flatten_map_encList (f : Val → Bytes) (vs : List Val) : (vs.map f).flatten = encList f vs := by
  induction vs with
  | nil => rfl
  | cons v vs ih => simp [encList, ih]

theorem pow256_8' : (256 : Nat) ^ 8 = 18446744073709551616 := by decide

theorem lt_pow67_of_lt_2_64 {n : Nat} (h : n < 18446744073709551616) : n < 256 ^ 67 := by
  have : (256:Nat) ^ 8 ≤ 256 ^ 67 := pow256_mono (by decide)
  rw [pow256_8'] at this; omega

/-- `NewBodyFromEncodedBytes` of the re-encoded entries is `Unmarshal` of the marshalled body -/
theorem entries_stream (vs : List Val) (hl : vs.length < maxSeqLen) :
    C11.encodeBigInt (entriesOf (.list vs)).length ++ (entriesOf (.list vs)).flatten
      = C11.marshal bodyTy (.list vs) := by
  have hl' : vs.length < 18446744073709551616 := by
    rw [C11.maxSeqLen_eq, C11.pow2_64] at hl; exact hl
  simp only [entriesOf, List.length_map, C11.marshal, bodyTy, Scale.encode, flatten_map_encList]
  show C11.encodeBigInt vs.length ++ _ = C11.encodeUint vs.length ++ _
  rw [C11.C11_encodeBigInt_canonical _ (lt_pow67_of_lt_2_64 hl'),
    C11.C11_encodeUint_canonical _ (by rw [C11.pow2_64]; exact hl')]
  rfl

/-- a sequence that decodes to the empty list had the length prefix zero -/
theorem seq_nil_len (C : Codec) (t : Ty) (bs r : Bytes)
    (h : Scale.decode C (.seq t) bs = some (.list [], r)) : ∃ r0, C.decLen bs = some (0, r0) := by
  simp only [Scale.decode] at h
  cases hl : C.decLen bs with
  | none => simp [hl] at h
  | some q =>
    obtain ⟨n, r0⟩ := q
    simp only [hl] at h
    cases hd : decN (Scale.decode C t) n r0 with
    | none => simp [hd] at h
    | some p =>
      obtain ⟨vs, r1⟩ := p
      simp only [hd, Option.some.injEq, Prod.mk.injEq, Val.list.injEq] at h
      have := (decN_all (Scale.decode C t) (fun _ => True) (fun _ _ _ _ => trivial) n r0 vs r1 hd).1
      rw [h.1] at this
      exact ⟨r0, by rw [← this]; rfl⟩

theorem bodyOf_reencode (exts : List Bytes) (b : Option Val) (h : bodyOf exts = .ok b) :
    bodyOf (bodyEntries b) = .ok b := by
  unfold bodyOf at h
  by_cases he : exts = []
  · simp only [he, if_true, Out.ok.injEq] at h
    subst h; simp [bodyOf, bodyEntries]
  · simp only [he, if_false] at h
    cases hn : newBodyFromEncodedBytes exts with
    | none => simp [hn] at h
    | some v =>
      simp only [hn, Out.ok.injEq] at h
      subst h
      -- the first decode
      have hk : 1 ≤ exts.length := by
        cases exts with
        | nil => exact absurd rfl he
        | cons _ _ => simp
      obtain ⟨b0, tl, hb0, hne0⟩ := encodeBigInt_head exts.length hk
      unfold newBodyFromEncodedBytes newBodyFromBytes at hn
      have hs : ¬ (C11.encodeBigInt exts.length ++ exts.flatten = []) := by rw [hb0]; simp
      simp only [hs, if_false] at hn
      cases hu : C11.unmarshal bodyTy (C11.encodeBigInt exts.length ++ exts.flatten) with
      | none => simp [hu] at hn
      | some p =>
        obtain ⟨w, r⟩ := p
        simp only [hu, Option.some.injEq] at hn
        subst hn
        have ⟨hwt, _⟩ := unmarshal_good bodyTy wf_body _ w r hu
        -- `w` is a non-empty list
        cases w with
        | list vs =>
          have hlen : vs.length < maxSeqLen := by
            simp only [bodyTy, wt, Bool.and_eq_true, decide_eq_true_eq] at hwt; exact hwt.1
          have hvs : vs ≠ [] := by
            intro hnil
            subst hnil
            -- the decoded length would be zero although the count byte is not
            obtain ⟨r0, hd⟩ := seq_nil_len C11.codec bytesT _ r hu
            have hd' : C11.decodeUintV (C11.encodeBigInt exts.length ++ exts.flatten) = some (0, r0) := hd
            rw [hb0, List.cons_append] at hd'
            exact hne0 (decodeUintV_zero b0 _ r0 hd')
          have hent : entriesOf (.list vs) ≠ [] := by
            simp only [entriesOf]
            intro hm
            exact hvs (List.map_eq_nil_iff.mp hm)
          have hre := unmarshal_reencode bodyTy wf_body _ (.list vs) r hu
          have hne : C11.marshal bodyTy (.list vs) ≠ [] := marshal_ne_nil_of_reencode (t := bytesT) hre
          show bodyOf (entriesOf (.list vs)) = _
          unfold bodyOf
          rw [if_neg hent]
          unfold newBodyFromEncodedBytes newBodyFromBytes
          rw [entries_stream vs hlen, if_neg hne]
          have hre' : C11.unmarshal bodyTy (C11.marshal bodyTy (.list vs)) = some (.list vs, []) := hre
          rw [hre']
        | _ => simp [bodyTy, wt] at hwt

/-! ## block data -/

theorem unmarshal_header_nil : C11.unmarshal headerTy [] = none := by
  simp [C11.unmarshal, headerTy, struct, hashT, bytesN, Scale.decode, decN, C11.codec, C11.decPA, u8,
    C11.decFixed, C11.readFull, C11.PRes.fail]

theorem headerOf_reencode (b : Bytes) (h : Option Val) (hh : headerOf b = .ok h) :
    headerOf (headerBytes h) = .ok h := by
  unfold headerOf at hh
  by_cases hb : b = []
  · simp only [hb, if_true, Out.ok.injEq] at hh
    subst hh; simp [headerOf, headerBytes]
  · simp only [hb, if_false] at hh
    cases hu : C11.unmarshal headerTy b with
    | none => simp [hu] at hh
    | some p =>
      obtain ⟨v, r⟩ := p
      simp only [hu, Out.ok.injEq] at hh
      subst hh
      have hre := unmarshal_reencode headerTy wf_header b v r hu
      have hne : C11.marshal headerTy v ≠ [] := by
        intro he; rw [he, unmarshal_header_nil] at hre; cases hre
      show headerOf (C11.marshal headerTy v) = _
      unfold headerOf
      rw [if_neg hne, hre]

theorem length_bytesToHash (b : Bytes) : (bytesToHash b).length = 32 := by
  unfold bytesToHash
  by_cases h : b.length > 32
  · simp only [h, if_true, List.length_append, List.length_replicate, List.length_drop]; omega
  · simp only [h, if_false, List.length_append, List.length_replicate]; omega

theorem bytesToHash_of_32 (b : Bytes) (h : b.length = 32) : bytesToHash b = b := by
  unfold bytesToHash
  have : ¬ (b.length > 32) := by omega
  simp [this, h]

theorem optBytes_reencode (b : Bytes) : optBytesOf (optToBytes (optBytesOf b)) = optBytesOf b := by
  unfold optBytesOf optToBytes
  by_cases h : b = [] <;> simp [h]

theorem just_reencode (o : Option Bytes) : justOf (optToBytes o) (o == some []) = o := by
  cases o with
  | none => simp [justOf, optToBytes]
  | some b =>
    by_cases h : b = []
    · subst h; simp [justOf, optToBytes]
    · simp [justOf, optToBytes, h]

/-- **one block**: `protobufToBlockData (blockDataToProtobuf m) = m` for every decoded `m` -/
theorem block_reencode (d : Proto.BlockData) (m : BlockDataMsg) (h : protobufToBlockData d = .ok m) :
    protobufToBlockData (blockDataToProto m) = .ok m := by
  unfold protobufToBlockData at h
  cases hh : headerOf d.header with
  | err => simp [hh] at h
  | panic => simp [hh] at h
  | ok hd =>
    simp only [hh] at h
    cases hb : bodyOf d.body with
    | err => simp [hb] at h
    | panic => simp [hb] at h
    | ok bd =>
      simp only [hb, Out.ok.injEq] at h
      subst h
      unfold protobufToBlockData blockDataToProto
      simp only [headerOf_reencode _ _ hh, bodyOf_reencode _ _ hb, optBytes_reencode, just_reencode,
        bytesToHash_of_32 _ (length_bytesToHash d.hash)]

theorem blockDatas_reencode (ds : List Proto.BlockData) : ∀ (ms : List BlockDataMsg),
    blockDatas ds = .ok ms → blockDatas (ms.map blockDataToProto) = .ok ms := by
  induction ds with
  | nil => intro ms h; simp only [blockDatas, Out.ok.injEq] at h; subst h; rfl
  | cons d ds ih =>
    intro ms h
    simp only [blockDatas] at h
    cases hd : protobufToBlockData d with
    | err => simp [hd] at h
    | panic => simp [hd] at h
    | ok m =>
      simp only [hd] at h
      cases hr : blockDatas ds with
      | err => simp [hr] at h
      | panic => simp [hr] at h
      | ok ms' =>
        simp only [hr, Out.ok.injEq] at h
        subst h
        simp only [List.map_cons, blockDatas, block_reencode _ _ hd, ih ms' hr]

end Gossamer.C33

namespace Gossamer.C33
open Gossamer Gossamer.Scale Gossamer.Proto

/-! ## block request -/

theorem step_bounds (m : Proto.BlockRequest) (f : WField)
    (h : m.fields < 4294967296 ∧ m.maxBlocks < 4294967296) :
    (BlockRequest.step m f).fields < 4294967296 ∧ (BlockRequest.step m f).maxBlocks < 4294967296 := by
  unfold BlockRequest.step
  split
  all_goals first
    | exact h
    | exact ⟨Nat.mod_lt _ (by decide), h.2⟩
    | exact ⟨h.1, Nat.mod_lt _ (by decide)⟩

theorem foldl_bounds (fs : List WField) : ∀ (m : Proto.BlockRequest),
    m.fields < 4294967296 ∧ m.maxBlocks < 4294967296 →
    (fs.foldl BlockRequest.step m).fields < 4294967296 ∧ (fs.foldl BlockRequest.step m).maxBlocks < 4294967296 := by
  induction fs with
  | nil => intro m h; exact h
  | cons f fs ih => intro m h; exact ih _ (step_bounds m f h)

theorem ofFields_bounds (fs : List WField) :
    (BlockRequest.ofFields fs).fields < 4294967296 ∧ (BlockRequest.ofFields fs).maxBlocks < 4294967296 :=
  foldl_bounds fs _ (by simp [BlockRequest.zero])

theorem le32_leBytes (n : Nat) (h : n < 4294967296) : le32? (leBytes 4 n) = some n := by
  unfold le32?
  have hl : (leBytes 4 n).length = 4 := length_leBytes 4 n
  have : ¬ ((leBytes 4 n).length < 4) := by omega
  rw [if_neg this, List.take_of_length_le (by omega), natOfLE_leBytes, pow256_4, Nat.mod_eq_of_lt h]

theorem le32_lt (b : Bytes) (n : Nat) (h : le32? b = some n) : n < 4294967296 := by
  unfold le32? at h
  split at h
  · cases h
  · simp only [Option.some.injEq] at h
    have := natOfLE_lt (b.take 4)
    have hl : (b.take 4).length ≤ 4 := by simp; omega
    have : 256 ^ (b.take 4).length ≤ 256 ^ 4 := pow256_mono hl
    rw [pow256_4] at this
    omega

theorem maxOpt_reencode (mb : Nat) :
    (if ((if mb ≠ 0 then some mb else none : Option Nat).getD 0) ≠ 0
      then some ((if mb ≠ 0 then some mb else none : Option Nat).getD 0) else none)
      = (if mb ≠ 0 then some mb else none) := by
  by_cases h : mb = 0 <;> simp [h]

/-- `scalar`/`oneof` fields of a request whose numbers are 32-bit are marshallable -/
theorem fieldOk_scalar (k n : Nat) (hk1 : 1 ≤ k) (hk2 : k ≤ 7) (hn : n < 18446744073709551616) :
    ∀ f ∈ scalar k n, FieldOk f := by
  intro f hf
  unfold scalar at hf
  split at hf
  · simp at hf
  · simp only [List.mem_singleton] at hf
    subst hf
    refine ⟨?_, ?_, ?_⟩ <;> simp only [maxValidNumber] <;> omega

theorem fieldOk_toFieldsGo (p : Proto.BlockRequest) (h1 : p.fields < 4294967296)
    (h2 : p.direction < 256) (h3 : p.maxBlocks < 4294967296)
    (h4 : ∀ b, p.fromBlock = .hash b ∨ p.fromBlock = .number b → b.length ≤ 32) :
    ∀ f ∈ p.toFieldsGo, FieldOk f := by
  intro f hf
  simp only [BlockRequest.toFieldsGo, List.mem_append] at hf
  rcases hf with h | h | h | h
  · exact fieldOk_scalar 1 _ (by decide) (by decide) (by omega) f h
  · exact fieldOk_scalar 5 _ (by decide) (by decide) (by omega) f h
  · exact fieldOk_scalar 6 _ (by decide) (by decide) (by omega) f h
  · cases hfb : p.fromBlock with
    | unset => simp [hfb, FromBlock.toFields] at h
    | hash b =>
      simp only [hfb, FromBlock.toFields, List.mem_singleton] at h
      subst h
      have := h4 b (Or.inl hfb)
      refine ⟨?_, ?_, ?_⟩ <;> simp only [maxValidNumber] <;> omega
    | number b =>
      simp only [hfb, FromBlock.toFields, List.mem_singleton] at h
      subst h
      have := h4 b (Or.inr hfb)
      refine ⟨?_, ?_, ?_⟩ <;> simp only [maxValidNumber] <;> omega

/-- **block request**: the decoded request, sent through `Encode` (protobuf-go field order) and
    protobuf-go's parser, decodes to itself -/
theorem blockRequest_reencode (msg : Proto.BlockRequest) (m : Msg)
    (hf : msg.fields < 4294967296) (hm : msg.maxBlocks < 4294967296)
    (h : blockRequestGlue msg = .ok m) :
    ∃ r, m = .blockReq r ∧ decodeBlockRequest (blockReqToProto r).encodeGo = .ok (.blockReq r) := by
  unfold blockRequestGlue at h
  cases hfb : msg.fromBlock with
  | unset => simp [hfb] at h
  | hash b =>
    simp only [hfb, Bool.false_eq_true, if_false, Out.ok.injEq] at h
    refine ⟨_, h.symm, ?_⟩
    have hlen := length_bytesToHash b
    have hok : ∀ f ∈ (blockReqToProto ⟨msg.fields / 16777216 % 256, .hash (bytesToHash b), msg.direction % 256,
        if msg.maxBlocks ≠ 0 then some msg.maxBlocks else none⟩).toFieldsGo, FieldOk f := by
      apply fieldOk_toFieldsGo
      · simp only [blockReqToProto]; omega
      · simp only [blockReqToProto]; omega
      · simp only [blockReqToProto]; split <;> simp <;> omega
      · intro b' hb'
        simp only [blockReqToProto] at hb'
        rcases hb' with e | e
        · injection e with e; subst e; omega
        · cases e
    have hwf : (blockReqToProto ⟨msg.fields / 16777216 % 256, .hash (bytesToHash b), msg.direction % 256,
        if msg.maxBlocks ≠ 0 then some msg.maxBlocks else none⟩).wf := by
      constructor
      · simp only [blockReqToProto]; omega
      · simp only [blockReqToProto]; split <;> simp <;> omega
    unfold decodeBlockRequest BlockRequest.encodeGo
    rw [goParse_encFields _ hok]
    simp only
    rw [BlockRequest.ofFields_toFieldsGo _ hwf]
    unfold blockRequestGlue
    simp only [blockReqToProto, Bool.false_eq_true, if_false, bytesToHash_of_32 _ hlen, maxOpt_reencode]
    congr 3
    · omega
    · omega
    · by_cases hz : msg.maxBlocks = 0 <;> simp [hz]
  | number b =>
    simp only [hfb] at h
    by_cases hl : b.length = 4
    · have hl' : ¬ (b.length ≠ 4) := by simp [hl]
      simp only [hl', if_false] at h
      cases hle : le32? b with
      | none => simp [hle] at h
      | some n =>
        have hn := le32_lt b n hle
        simp only [hle, Bool.false_eq_true, if_false, Out.ok.injEq] at h
        refine ⟨_, h.symm, ?_⟩
        have hgt : ¬ (n > 4294967295) := by omega
        have hok : ∀ f ∈ (blockReqToProto ⟨msg.fields / 16777216 % 256, .number n, msg.direction % 256,
            if msg.maxBlocks ≠ 0 then some msg.maxBlocks else none⟩).toFieldsGo, FieldOk f := by
          apply fieldOk_toFieldsGo
          · simp only [blockReqToProto]; omega
          · simp only [blockReqToProto]; omega
          · simp only [blockReqToProto]; split <;> simp <;> omega
          · intro b' hb'
            simp only [blockReqToProto] at hb'
            rcases hb' with e | e
            · cases e
            · injection e with e; subst e; simp [length_leBytes]
        have hwf : (blockReqToProto ⟨msg.fields / 16777216 % 256, .number n, msg.direction % 256,
            if msg.maxBlocks ≠ 0 then some msg.maxBlocks else none⟩).wf := by
          constructor
          · simp only [blockReqToProto]; omega
          · simp only [blockReqToProto]; split <;> simp <;> omega
        unfold decodeBlockRequest BlockRequest.encodeGo
        rw [goParse_encFields _ hok]
        simp only
        rw [BlockRequest.ofFields_toFieldsGo _ hwf]
        unfold blockRequestGlue
        have hl4 : ¬ ((leBytes 4 n).length ≠ 4) := by simp [length_leBytes]
        simp only [blockReqToProto, hgt, if_false, hl4, le32_leBytes n hn, Bool.false_eq_true,
          maxOpt_reencode]
        congr 3
        · omega
        · omega
    · simp [hl] at h

end Gossamer.C33

namespace Gossamer.C33
open Gossamer Gossamer.Scale Gossamer.Proto

/-! ## state request -/

theorem foldl_start (m : StateReqP) (bs : List Bytes) :
    (bs.map (fun b => (⟨2, .len b⟩ : WField))).foldl StateReqP.step m = { m with start := m.start ++ bs } := by
  induction bs generalizing m with
  | nil => simp
  | cons b bs ih =>
    have := ih (StateReqP.step m ⟨2, .len b⟩)
    simp only [List.map_cons, List.foldl_cons] at this ⊢
    rw [this]; simp [StateReqP.step]

theorem StateReqP.ofFields_toFields (m : StateReqP) : StateReqP.ofFields m.toFields = m := by
  obtain ⟨b, st, np⟩ := m
  simp only [StateReqP.ofFields, StateReqP.toFields, List.foldl_append, foldl_start]
  by_cases hb : b = [] <;> cases np <;> simp [optBytes, flag, StateReqP.step, hb]

theorem stateReq_shape (m : StateReqP) :
    ∀ f ∈ m.toFields, (1 ≤ f.num ∧ f.num ≤ 7) ∧ ∀ n, f.val = .varint n → n < 18446744073709551616 := by
  intro f hf
  simp only [StateReqP.toFields, List.mem_append] at hf
  rcases hf with h | h | h
  · unfold optBytes at h
    split at h
    · simp at h
    · simp only [List.mem_singleton] at h; subst h
      exact ⟨⟨by simp, by simp⟩, by intro n hn; cases hn⟩
  · simp only [List.mem_map] at h
    obtain ⟨b, _, rfl⟩ := h
    exact ⟨⟨by simp, by simp⟩, by intro n hn; cases hn⟩
  · cases hb : m.noProof <;> simp [flag, hb] at h
    subst h
    exact ⟨⟨by simp, by simp⟩, by intro n hn; injection hn with hn; omega⟩

end Gossamer.C33
