/-
C08: DeleteChild, ClearPrefix and ClearPrefixInChild inside a transaction on the logical content of
the level (model over the ideal backend).
-/
import Gossamer.Lib.C08Writes
set_option linter.unusedSectionVars false
set_option linter.unusedSimpArgs false
namespace Gossamer.C08
open Gossamer

section lemmas
variable {CK : Bytes → Bool} {b : Logical} {d : Diff}

theorem kidOf_delKid (l : Logical) (ck ck' : Bytes) :
    kidOf { l with kids := KMap.del ck l.kids } ck' = if ck' = ck then [] else kidOf l ck' := by
  unfold kidOf
  simp only [KMap.find_del]
  by_cases h : ck' = ck <;> simp [h]

theorem wf_delKid {l : Logical} (h : l.WF) (ck : Bytes) :
    ({ l with kids := KMap.del ck l.kids } : Logical).WF := by
  refine ⟨h.main, h.noChild, KMap.sorted_del _ h.kids, ?_⟩
  intro ck' es hf
  simp only [KMap.find_del] at hf
  by_cases hck : ck' = ck
  · simp [hck] at hf
  · simp only [hck, if_false] at hf
    exact h.kid ck' es hf

theorem baseInv_delKid (hb : BaseInv CK b) (ck : Bytes) :
    BaseInv CK { b with kids := KMap.del ck b.kids } := by
  refine ⟨wf_delKid hb.wf ck, hb.mainCK, ?_⟩
  intro ck' h'
  rw [kidOf_delKid]
  by_cases h : ck' = ck <;> simp [h, hb.kidsCK ck' h']

/-! #### DeleteChild -/

theorem inv_kill (hd : DiffInv CK d) (ck : Bytes) (hck : CK ck = true)
    (hnc : Logical.isChildKey ck = false) : DiffInv CK (d.delete ck) := by
  refine ⟨Diff.sorted_delete hd.sorted ck, ?_, ?_, ?_, ?_, ?_, CDiff.sk_delete hd.sk ck, ?_⟩
  · intro k' h'
    simp only [Diff.delete, CDiff.delete, KMap.find_del]
    simp [hd.upsCK k' h']
  · intro k' h'
    simp only [Diff.delete, CDiff.delete] at h' ⊢
    rw [KSet.mem_ins] at h'
    simp only [KMap.find_del]
    rcases h' with h' | h'
    · simp [h']
    · simp [hd.upsDel k' h']
  · intro k' h'
    simp only [Diff.delete, CDiff.delete] at h'
    rw [KSet.mem_ins] at h'
    rcases h' with h' | h'
    · rw [h']; exact hnc
    · exact hd.delsNoChild k' h'
  · intro ck' hck'
    simp only [Diff.delete, KMap.find_del]
    simp [hd.kidsCK ck' hck']
  · intro ck' c hf
    simp only [Diff.delete, KMap.find_del] at hf
    by_cases h : ck' = ck
    · simp [h] at hf
    · simp only [h, if_false] at hf
      exact hd.kidDisj ck' c hf
  · intro ck' c hf
    simp only [Diff.delete, KMap.find_del] at hf
    by_cases h : ck' = ck
    · simp [h] at hf
    · simp only [h, if_false] at hf
      exact hd.kidSk ck' c hf

theorem eff_kill (hb : BaseInv CK b) (hd : DiffInv CK d) (ck : Bytes) (hck : CK ck = true)
    (hnc : Logical.isChildKey ck = false) :
    effL b (d.delete ck) = { effL b d with kids := KMap.del ck (effL b d).kids } := by
  have hd' := inv_kill hd ck hck hnc
  have hw := effL_wf (d := d) hb.wf
  apply Logical.ext (effL_wf hb.wf) (wf_delKid hw ck)
  · intro k'
    show _ = OMap.get k' (effL b d).main
    rw [eff_main hb hd', eff_main hb hd]
    simp only [Diff.delete, CDiff.delete, KMap.find_del, KSet.mem_ins]
    by_cases h : k' = ck
    · subst h
      simp [hd.upsCK k' (Or.inl hck), hb.mainCK k' hck]
    · simp [h]
  · intro ck' k'
    rw [kidOf_delKid, eff_kid hb hd']
    simp only [Diff.delete, CDiff.delete, KMap.find_del, KSet.mem_ins]
    by_cases h : ck' = ck
    · simp [h, OMap.get]
    · simp only [h, false_or, if_false]
      rw [eff_kid hb hd]

/-! #### ClearPrefix -/

theorem inv_deleteAll (hd : DiffInv CK d) (K : List Bytes)
    (hK : ∀ x ∈ K, Logical.isChildKey x = false ∧ CK x = false) :
    DiffInv CK (K.foldl Diff.delete d) := by
  induction K generalizing d with
  | nil => exact hd
  | cons k r ih =>
    exact ih (inv_delete hd k (hK k (by simp))) (fun x hx => hK x (by simp [hx]))

/-- deleting the keys `K` (none of them a child-trie key) = clearing them from the level -/
theorem eff_deleteAll (hb : BaseInv CK b) (hd : DiffInv CK d) (K : List Bytes)
    (hK : ∀ x ∈ K, Logical.isChildKey x = false ∧ CK x = false) (sel : Bytes → Bool)
    (hsel : ∀ x, x ∈ K → sel x = true)
    (hall : ∀ x, sel x = true → x ∉ K → KMap.find x d.c.upserts = none ∧ OMap.get x b.main = none) :
    effL b (K.foldl Diff.delete d) =
      { effL b d with main := (effL b d).main.filter (fun e => !(sel e.1)) } := by
  have hd' := inv_deleteAll hd K hK
  have hw := effL_wf (d := d) hb.wf
  have hget : ∀ x, OMap.get x ((effL b d).main.filter (fun e => !(sel e.1))) =
      if sel x then none else OMap.get x (effL b d).main := by
    intro x
    have := OMap.get_filter_key (fun y => !(sel y)) (effL b d).main x
    rw [this]
    cases sel x <;> simp
  apply Logical.ext (effL_wf hb.wf)
  · refine ⟨OMap.sorted_filter _ hw.main, ?_, hw.kids, hw.kid⟩
    intro k' hk'
    show OMap.get k' ((effL b d).main.filter _) = none
    rw [hget]
    simp [hw.noChild k' hk']
  · intro x
    show _ = OMap.get x ((effL b d).main.filter _)
    rw [hget, eff_main hb hd', eff_main hb hd, fold_delete_c]
    simp only [mem_fold_dels, find_fold_ups]
    by_cases hx : x ∈ K
    · simp [hx, hsel x hx]
    · by_cases hs : sel x = true
      · obtain ⟨h1, h2⟩ := hall x hs hx
        simp [hx, hs, h1, h2]
      · have hs' : sel x = false := by simpa using hs
        simp [hx, hs']
  · intro ck k'
    show _ = OMap.get k' (kidOf (effL b d) ck)
    rw [eff_kid hb hd', eff_kid hb hd, fold_delete_c]
    simp only [mem_fold_dels, fold_delete_kids]
    by_cases hx : ck ∈ K
    · have hck := (hK ck hx).2
      simp [hx, hd.kidsCK ck hck, hb.kidsCK ck hck, OMap.get]
    · simp [hx]

end lemmas

section clr
variable (Hc Hm : Entries → Bytes) {CK : Bytes → Bool} {b : Logical} {d : Diff}

theorem clearPrefix_eq_filter (p : Bytes) (es : Entries) :
    OMap.clearPrefix p es = es.filter (fun e => !(p.isPrefixOf e.1)) := rfl

/-- `ClearPrefix` inside a transaction, prefix away from the child-root keys -/
theorem eff_clearPrefix (hb : BaseInv CK b) (hd : DiffInv CK d) (p : Bytes)
    (hp : overlapsRegion p = false) :
    let ks := keysWithPrefixOn ((idealBackend Hc Hm).get b) ((idealBackend Hc Hm).keysAfter b) p
    effL b (d.clearPrefix p ks none).1 =
        { effL b d with main := OMap.clearPrefix p (effL b d).main } ∧
      DiffInv CK (d.clearPrefix p ks none).1 := by
  intro ks
  have hks : ∀ x, x ∈ ks ↔ (OMap.get x (Logical.view Hc b) ≠ none ∧ p.isPrefixOf x = true) :=
    fun x => mem_keysWithPrefixOn (Logical.view Hc b) (view_sorted Hc hb.wf.main) p x
  have hstep : (d.clearPrefix p ks none).1 = (clearKeys d.c.upserts p ks).foldl Diff.delete d :=
    clearPrefixG_none _ _ _ _ _
  have hK : ∀ x ∈ clearKeys d.c.upserts p ks, Logical.isChildKey x = false ∧ CK x = false := by
    intro x hx
    obtain ⟨hpx, hor⟩ := (mem_clearKeys _ _ _ _).mp hx
    have hnc : Logical.isChildKey x = false := by
      cases hc : Logical.isChildKey x with
      | false => rfl
      | true => rw [no_child_with_prefix hp x hc] at hpx; cases hpx
    refine ⟨hnc, ?_⟩
    cases hck : CK x with
    | false => rfl
    | true =>
      rcases hor with h | h
      · exact absurd (hd.upsCK x (Or.inl hck)) ((mem_keys_iff _ _).mp h)
      · have := ((hks x).mp h).1
        rw [view_get Hc b x hnc, hb.mainCK x hck] at this
        exact absurd rfl this
  rw [hstep, clearPrefix_eq_filter]
  refine ⟨eff_deleteAll hb hd _ hK (fun x => p.isPrefixOf x) ?_ ?_, inv_deleteAll hd _ hK⟩
  · intro x hx; exact ((mem_clearKeys _ _ _ _).mp hx).1
  · intro x hpx hnot
    have hnc : Logical.isChildKey x = false := by
      cases hc : Logical.isChildKey x with
      | false => rfl
      | true => rw [no_child_with_prefix hp x hc] at hpx; cases hpx
    have h1 : x ∉ KMap.keys d.c.upserts := fun h => hnot ((mem_clearKeys _ _ _ _).mpr ⟨hpx, Or.inl h⟩)
    have h2 : x ∉ ks := fun h => hnot ((mem_clearKeys _ _ _ _).mpr ⟨hpx, Or.inr h⟩)
    constructor
    · cases hf : KMap.find x d.c.upserts with
      | none => rfl
      | some v => exact absurd ((mem_keys_iff _ _).mpr (by rw [hf]; simp)) h1
    · cases hg : OMap.get x b.main with
      | none => rfl
      | some v =>
        exfalso
        apply h2
        rw [hks]
        refine ⟨?_, hpx⟩
        rw [view_get Hc b x hnc, hg]
        simp

end clr

end Gossamer.C08
