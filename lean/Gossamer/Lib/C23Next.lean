/-
C23: `NextGrandpaAuthorityChange`.  Along histories in scope the nodes of every level of the scheduled-change
tree are announced by pairwise unrelated blocks (`PairF`), so at most one root and at most one forced change
lie on the chain of a block; the model's "first match" answers are the specification's minimum.
Core Lean only.
-/
import Gossamer.Lib.C23Refine
namespace Gossamer.C23

def UnrelB (t : Tree) (a b : Nat) : Prop := anc t a b = false ∧ anc t b a = false

/-- on every level of the forest the announcing blocks are pairwise unrelated -/
def PairF (t : Tree) : List Node → Prop
  | [] => True
  | .mk c kids :: rest => (∀ r ∈ rest, UnrelB t c.blk r.ann.blk) ∧ PairF t kids ∧ PairF t rest

theorem pairF_nil (t : Tree) : PairF t [] := by rw [PairF]; trivial

theorem pairF_cons (t : Tree) (c : Ann) (kids rest : List Node) :
    PairF t (.mk c kids :: rest) ↔ (∀ r ∈ rest, UnrelB t c.blk r.ann.blk) ∧ PairF t kids ∧ PairF t rest := by
  rw [PairF]

theorem pairF_append_single (t : Tree) (pc : Ann) : ∀ (l : List Node), PairF t l →
    (∀ r ∈ l, UnrelB t r.ann.blk pc.blk) → PairF t (l ++ [.mk pc []])
  | [], _, _ => by
    rw [List.nil_append, pairF_cons]
    exact ⟨fun r hr => by simp at hr, pairF_nil t, pairF_nil t⟩
  | .mk c kids :: rest, h, hu => by
    rw [pairF_cons] at h
    rw [List.cons_append, pairF_cons]
    refine ⟨?_, h.2.1, pairF_append_single t pc rest h.2.2 (fun r hr => hu r (by simp [hr]))⟩
    intro r hr
    simp only [List.mem_append, List.mem_singleton] at hr
    rcases hr with hr | rfl
    · exact h.1 r hr
    · exact hu (.mk c kids) (by simp)

theorem pairF_kids (t : Tree) : ∀ (l : List Node), PairF t l → ∀ r ∈ l, PairF t r.kids
  | [], _, r, hr => by simp at hr
  | .mk c kids :: rest, h, r, hr => by
    rw [pairF_cons] at h
    simp only [List.mem_cons] at hr
    rcases hr with rfl | hr
    · exact h.2.1
    · exact pairF_kids t rest h.2.2 r hr

theorem pairF_filter (t : Tree) (keep : Node → Bool) : ∀ (l : List Node), PairF t l → PairF t (l.filter keep)
  | [], h => by simpa using h
  | .mk c kids :: rest, h => by
    rw [pairF_cons] at h
    have ih := pairF_filter t keep rest h.2.2
    simp only [List.filter]
    split
    · rw [pairF_cons]
      exact ⟨fun r hr => h.1 r (List.mem_filter.1 hr).1, h.2.1, ih⟩
    · exact ih

/-- at most one top-level node is related to each other one: the top level is pairwise unrelated -/
theorem pairF_top (t : Tree) : ∀ (l : List Node), PairF t l →
    l.Pairwise (fun a b => UnrelB t a.ann.blk b.ann.blk)
  | [], _ => List.Pairwise.nil
  | .mk c kids :: rest, h => by
    rw [pairF_cons] at h
    exact List.Pairwise.cons h.1 (pairF_top t rest h.2.2)

/-! ### the import keeps `PairF` -/

theorem specImportKids_none (t : Tree) (pc : Ann) : ∀ (l : List Node), specImportKids t pc l = none →
    ∀ r ∈ l, r.ann.blk = pc.blk ∨ anc t r.ann.blk pc.blk = false
  | [], _, r, hr => by simp at hr
  | .mk c kids :: rest, h, r, hr => by
    rw [specImportKids_mk] at h
    split at h
    · cases hk : specImportKids t pc kids <;> simp [hk] at h
    · rename_i hc
      cases hr' : specImportKids t pc rest with
      | some x => simp [hr'] at h
      | none =>
        simp only [List.mem_cons] at hr
        rcases hr with rfl | hr
        · simp only [Node.ann]
          by_cases e : c.blk = pc.blk
          · exact Or.inl e
          · right
            cases ha : anc t c.blk pc.blk with
            | false => rfl
            | true => exact absurd ⟨e, ha⟩ hc
        · exact specImportKids_none t pc rest hr' r hr

theorem specImportKids_top (t : Tree) (pc : Ann) : ∀ (l l' : List Node), specImportKids t pc l = some l' →
    l'.map (·.ann.blk) = l.map (·.ann.blk)
  | [], _, h => by simp [specImportKids_nil] at h
  | .mk c kids :: rest, l', h => by
    rw [specImportKids_mk] at h
    split at h
    · cases hk : specImportKids t pc kids with
      | some k' => simp only [hk, Option.some.injEq] at h; subst h; rfl
      | none => simp only [hk, Option.some.injEq] at h; subst h; rfl
    · cases hr : specImportKids t pc rest with
      | some r' =>
        simp only [hr, Option.some.injEq] at h; subst h
        simp only [List.map_cons, specImportKids_top t pc rest r' hr]
      | none => simp [hr] at h

theorem pairF_specImportKids (t : Tree) (pc : Ann) : ∀ (l l' : List Node), PairF t l →
    (∀ x ∈ blocksF l, anc t pc.blk x = false ∧ x ≠ pc.blk) → specImportKids t pc l = some l' → PairF t l'
  | [], _, _, _, h => by simp [specImportKids_nil] at h
  | .mk c kids :: rest, l', hp, htip, h => by
    rw [pairF_cons] at hp
    have htk : ∀ x ∈ blocksF kids, anc t pc.blk x = false ∧ x ≠ pc.blk :=
      fun x hx => htip x (by simp [blocksF_cons, hx])
    have htr : ∀ x ∈ blocksF rest, anc t pc.blk x = false ∧ x ≠ pc.blk :=
      fun x hx => htip x (by simp [blocksF_cons, hx])
    rw [specImportKids_mk] at h
    split at h
    · cases hk : specImportKids t pc kids with
      | some k' =>
        simp only [hk, Option.some.injEq] at h; subst h
        rw [pairF_cons]
        exact ⟨hp.1, pairF_specImportKids t pc kids k' hp.2.1 htk hk, hp.2.2⟩
      | none =>
        simp only [hk, Option.some.injEq] at h; subst h
        rw [pairF_cons]
        refine ⟨hp.1, pairF_append_single t pc kids hp.2.1 ?_, hp.2.2⟩
        intro r hr
        have hb := htk _ (mem_blocksF_of_mem hr)
        rcases specImportKids_none t pc kids hk r hr with e | e
        · exact absurd e hb.2
        · exact ⟨e, hb.1⟩
    · cases hr : specImportKids t pc rest with
      | some r' =>
        simp only [hr, Option.some.injEq] at h; subst h
        rw [pairF_cons]
        refine ⟨?_, hp.2.1, pairF_specImportKids t pc rest r' hp.2.2 htr hr⟩
        intro r hrm
        have htop := specImportKids_top t pc rest r' hr
        have : r.ann.blk ∈ rest.map (·.ann.blk) := by
          rw [← htop]; exact List.mem_map_of_mem hrm
        obtain ⟨r0, hr0, e⟩ := List.mem_map.1 this
        rw [← e]; exact hp.1 r0 hr0
      | none => simp [hr] at h

theorem pairF_specImportStd (t : Tree) (pc : Ann) (l : List Node) (hp : PairF t l)
    (htip : ∀ x ∈ blocksF l, anc t pc.blk x = false ∧ x ≠ pc.blk) : PairF t (specImportStd t pc l) := by
  unfold specImportStd
  cases h : specImportKids t pc l with
  | some l' => exact pairF_specImportKids t pc l l' hp htip h
  | none =>
    apply pairF_append_single t pc l hp
    intro r hr
    have hb := htip _ (mem_blocksF_of_mem hr)
    rcases specImportKids_none t pc l h r hr with e | e
    · exact absurd e hb.2
    · exact ⟨e, hb.1⟩

/-! ### the invariant along histories in scope -/

/-- the change tree is pairwise unrelated on every level and never names the genesis block -/
def NInv (t : Tree) (s : St) : Prop := PairF t s.roots ∧ (∀ x ∈ blocksF s.roots, x ≠ 0) ∧ (∀ c ∈ s.forced, c.blk ≠ 0)

theorem nInv_init (t : Tree) : NInv t St.init :=
  ⟨pairF_nil t, fun x hx => by simp [St.init, blocksF_nil] at hx, fun c hc => by simp [St.init] at hc⟩

theorem applyScheduled_roots (t : Tree) (s s' : St) (b : Nat) (h : applyScheduled t s b = .ok s') :
    s'.roots = s.roots ∨ (∃ r ∈ s.roots, s'.roots = r.kids) ∨ (∃ keep, s'.roots = s.roots.filter keep) := by
  unfold applyScheduled at h
  rw [forcedPrune_eq _ _ (isDesc_ne_none t s)] at h
  dsimp only at h
  split at h
  · simp only [Except.ok.injEq] at h; subst h; exact Or.inl rfl
  · unfold schedFindApplicable at h
    split at h
    · exact absurd h (by simp)
    · rename_i roots' hsf
      simp only [Except.ok.injEq] at h; subst h
      split at hsf
      · exact absurd hsf (by simp)
      · simp at hsf
      · rw [schedPrune_eq _ _ (isDesc_ne_none t _)] at hsf
        simp only [Except.ok.injEq, Prod.mk.injEq, true_and] at hsf
        exact Or.inr (Or.inr ⟨_, hsf.symm⟩)
    · rename_i r roots' hsf
      simp only [Except.ok.injEq] at h; subst h
      split at hsf
      · exact absurd hsf (by simp)
      · rename_i r' hr'
        simp only [Except.ok.injEq, Prod.mk.injEq, Option.some.injEq] at hsf
        refine Or.inr (Or.inl ⟨r', lookupRoots_mem _ _ _ hr', ?_⟩)
        simp [startNext, hsf.2]
      · rw [schedPrune_eq _ _ (isDesc_ne_none t _)] at hsf
        simp at hsf

theorem pairF_of_roots (t : Tree) {l l' : List Node} (hp : PairF t l)
    (h : l' = l ∨ (∃ r ∈ l, l' = r.kids) ∨ (∃ keep, l' = l.filter keep)) : PairF t l' := by
  rcases h with rfl | ⟨r, hr, rfl⟩ | ⟨keep, rfl⟩
  · exact hp
  · exact pairF_kids t l hp r hr
  · exact pairF_filter t keep l hp

theorem blocks_of_roots {l l' : List Node}
    (h : l' = l ∨ (∃ r ∈ l, l' = r.kids) ∨ (∃ keep, l' = l.filter keep)) : ∀ x ∈ blocksF l', x ∈ blocksF l := by
  rcases h with rfl | ⟨r, hr, rfl⟩ | ⟨keep, rfl⟩
  · exact fun x hx => hx
  · exact fun x hx => mem_blocksF_kids hr hx
  · exact fun x hx => blocksF_filter_sub _ _ hx

theorem nInv_step {t : Tree} (wf : t.WF) {s : St} {p : Spec} (hs : Sim t s p) (hi : Inv t s) (hn : NInv t s)
    (op : Op) (hsc : InScope t s op) : NInv t (step t s op).1 := by
  cases op with
  | imp b =>
    simp only [step, importBlock]
    split
    · exact hn
    · rename_i hpar
      simp only [Bool.not_eq_true', Bool.not_eq_false] at hpar
      have hb : inBt t s b = false := hsc.1
      have hfr : FreshImp t s b := ⟨hpar, hb⟩
      have hpos := freshImp_pos wf hfr
      have hp := (inBt_iff t s _).1 hpar
      have hnl := freshImp_not_live wf hi.live hfr
      have hrb : anc t s.root b = true := anc_trans wf _ _ _ hp.2 (anc_par wf hpos)
      simp only [hb, Bool.false_eq_true, if_false]
      rw [digests_of_header t b hsc.2]
      -- no tracked block descends from `b` or is `b`
      have htip : ∀ x ∈ blocksF s.roots, anc t b x = false ∧ x ≠ b := by
        intro x hx
        rcases hi.roots x hx with h | h
        · exact ⟨freshImp_tip wf hi.live hfr x h, fun e => hnl (e ▸ h)⟩
        · constructor
          · cases ha : anc t b x with
            | false => rfl
            | true =>
              have : cmp t s.root x = true := by simp [cmp, anc_trans wf _ _ _ hrb ha]
              rw [h] at this; exact absurd this (by simp)
          · intro e; subst e
            have : cmp t s.root x = true := by simp [cmp, hrb]
            rw [h] at this; exact absurd this (by simp)
      have hl0 := liveInv_add wf hi.live hfr
      have hb0 : inBt t { s with live := s.live ++ [b] } b = true := by
        rw [inBt_iff]; exact ⟨by simp, hrb⟩
      -- the state after the digests
      have key : ∀ (s1 : St), handleDigests t { s with live := s.live ++ [b] } (signalled t b).toList = .ok s1 →
          NInv t s1 := by
        intro s1 hd
        cases hsig : signalled t b with
        | none =>
          rw [hsig] at hd
          simp only [Option.toList, handleDigests, Except.ok.injEq] at hd; subst hd
          exact hn
        | some d =>
          have hdb := signalled_blk t b d hsig
          rw [hsig] at hd
          simp only [Option.toList, handleDigests] at hd
          split at hd
          · split at hd
            · exact absurd hd (by simp)
            · rename_i f hfi
              simp only [handleDigests, Except.ok.injEq] at hd; subst hd
              obtain ⟨⟨i, rfl⟩, _⟩ := forcedImport_ok t _ d s.forced f hfi
              refine ⟨hn.1, hn.2.1, ?_⟩
              intro c hc
              rcases (mem_insertAt s.forced i d c).1 hc with rfl | hc
              · rw [hdb]; omega
              · exact hn.2.2 c hc
          · rename_i hdf
            have hd' : inBt t { s with live := s.live ++ [b] } d.blk = true := by rw [hdb]; exact hb0
            have hblk : ∀ x ∈ blocksF s.roots, (x ∈ s.live ++ [b] ∨ cmp t s.root x = false) ∧ x ≠ d.blk := by
              intro x hx
              rw [hdb]
              refine ⟨?_, (htip x hx).2⟩
              rcases hi.roots x hx with h | h
              · exact Or.inl (by simp [h])
              · exact Or.inr h
            rw [schedImport_eq wf hl0 d hd' s.roots hblk] at hd
            simp only [handleDigests, Except.ok.injEq] at hd; subst hd
            refine ⟨pairF_specImportStd t d s.roots hn.1 (fun x hx => by rw [hdb]; exact htip x hx), ?_, hn.2.2⟩
            intro x hx
            rcases (blocksF_specImportStd t d s.roots x).1 hx with rfl | hx
            · rw [hdb]; omega
            · exact hn.2.1 x hx
      split
      · -- a refused digest leaves the pending changes as they were (one digest at most)
        rename_i e hd
        cases hsig : signalled t b with
        | none => simp [hsig, Option.toList, handleDigests] at hd
        | some d =>
          simp only [Option.toList, handleDigestsPartial]
          simp only [hsig, Option.toList, handleDigests] at hd
          split
          · rename_i hdf
            split
            · exact hn
            · rename_i f hfi
              simp [hdf, hfi, handleDigests] at hd
          · rename_i hdf
            split
            · exact hn
            · rename_i r hri
              simp [hdf, hri, handleDigests] at hd
      · rename_i s1 hd
        have h1 := key s1 hd
        split
        · exact h1
        · rename_i s2 hfo
          have hfr2 := applyForced_frame t s1 s2 b hfo
          rcases hfr2.2.2 with ⟨e1, e2⟩ | ⟨e1, e2⟩
          · exact ⟨by rw [e2]; exact h1.1, by rw [e2]; exact h1.2.1, by rw [e1]; exact h1.2.2⟩
          · refine ⟨by rw [e2]; exact pairF_nil t, ?_, ?_⟩
            · intro x hx; rw [e2, blocksF_nil] at hx; simp at hx
            · intro c hc; rw [e1] at hc; simp at hc
  | fin b =>
    simp only [step, finalise]
    split
    · exact hn
    · rename_i s1 hs1
      unfold setFinalised at hs1
      split at hs1
      · simp only [Option.some.injEq] at hs1
        have hn1 : NInv t s1 := by rw [← hs1]; exact hn
        split
        · have hfr := applyScheduledPartial_frame t s1 b
          refine ⟨by rw [hfr.2.2.2]; exact hn1.1, by rw [hfr.2.2.2]; exact hn1.2.1, ?_⟩
          intro c hc; rw [hfr.2.2.1] at hc; exact hn1.2.2 c (List.mem_filter.1 hc).1
        · rename_i s2 ha
          have hro := applyScheduled_roots t s1 s2 b ha
          have hfr := applyScheduled_frame t s1 s2 b ha
          refine ⟨pairF_of_roots t hn1.1 hro, fun x hx => hn1.2.1 x (blocks_of_roots hro x hx), ?_⟩
          intro c hc; rw [hfr.2.2] at hc; exact hn1.2.2 c (List.mem_filter.1 hc).1
      · exact absurd hs1 (by simp)

/-! ### `NextGrandpaAuthorityChange` -/

theorem filter_eq_find_toList {α : Type} (P : α → Bool) {R : α → α → Prop}
    (hR : ∀ a b, R a b → P a = true → P b = true → False) : ∀ (l : List α), l.Pairwise R →
    l.filter P = (l.find? P).toList := by
  intro l h
  induction h with
  | nil => rfl
  | @cons a l hx _ ih =>
    by_cases hp : P a = true
    · have hnone : l.filter P = [] := by
        rw [List.filter_eq_nil_iff]
        intro b hb hpb
        exact hR a b (hx b hb) hp hpb
      simp [List.filter, hp, List.find?, hnone]
    · have hp' : P a = false := by simpa using hp
      simp only [List.filter, hp', List.find?]
      exact ih

theorem num_pos {t : Tree} (wf : t.WF) {x : Nat} (hx : x ≠ 0) : 1 ≤ num t x := by
  rw [num_succ wf (Nat.pos_of_ne_zero hx)]; omega

theorem nextChange_eq {t : Tree} (wf : t.WF) {s : St} {p : Spec} (hs : Sim t s p) (hi : Inv t s) (hn : NInv t s)
    (x : Nat) (hx : inBt t s x = true) : nextChange t s x = some (p.nextChange t x) := by
  have hx' := (inBt_iff t s x).1 hx
  -- the two lookups of the model
  have hF : lookupForced (nextForcedCond t s x (num t x)) s.forced =
      .ok (s.forced.find? (fun c => anc t c.blk x && decide (eff t c ≤ num t x))) := by
    rw [← lookupForced_pure]
    apply lookupForced_congr
    intro c hc
    unfold nextForcedCond
    rw [isDesc_eq_anc wf hi.live (Or.inl ((inBt_iff t s _).1 (hi.forced.1 c hc)).1) hx]
  have hR : lookupRoots (nextRootCond t s x (num t x)) s.roots =
      .ok (s.roots.find? (fun r => anc t r.ann.blk x && decide (eff t r.ann ≤ num t x))) := by
    rw [← lookupRoots_pure]
    apply lookupRoots_congr
    intro r hr
    unfold nextRootCond
    rw [isDesc_eq_anc wf hi.live (hi.roots _ (mem_blocksF_of_mem hr)) hx]
  -- two ancestors of `x` are related
  have hrel : ∀ a b : Nat, UnrelB t a b → anc t a x = true → anc t b x = true → False := by
    intro a b hu ha hb
    rcases anc_linear wf x a b ha hb with h | h
    · rw [hu.1] at h; exact absurd h (by simp)
    · rw [hu.2] at h; exact absurd h (by simp)
  -- the specification's candidates
  have hpf : p.forced.Pairwise (Unrel t) :=
    (hs.forced.pairwise_iff (fun {a b} (h : Unrel t a b) => Unrel.symm h)).1 hi.forced.2
  have hcf : p.forced.filter (fun f => anc t f.blk x && decide (eff t f ≤ num t x)) =
      (s.forced.find? (fun c => anc t c.blk x && decide (eff t c ≤ num t x))).toList := by
    rw [filter_eq_find_toList _ (R := Unrel t) ?_ _ hpf]
    · congr 1
      symm
      apply find?_perm_unique _ hs.forced
      intro a ha b hb h1 h2
      simp only [Bool.and_eq_true] at h1 h2
      rcases pairwise_mem hi.forced.2 ha hb with e | h | h
      · exact e
      · exact absurd (hrel _ _ h h1.1 h2.1) id
      · exact absurd (hrel _ _ h h2.1 h1.1) id
    · intro a b h h1 h2
      simp only [Bool.and_eq_true] at h1 h2
      exact hrel _ _ h h1.1 h2.1
  have hcr : (p.std.map Node.ann).filter (fun c => anc t c.blk x && decide (eff t c ≤ num t x)) =
      ((s.roots.find? (fun r => anc t r.ann.blk x && decide (eff t r.ann ≤ num t x))).toList).map Node.ann := by
    rw [hs.std, List.filter_map]
    congr 1
    rw [List.filter_filter]
    have : s.roots.filter (fun r => (fun c : Ann => anc t c.blk x && decide (eff t c ≤ num t x)) ∘ Node.ann $ r) =
        s.roots.filter (fun r => anc t r.ann.blk x && decide (eff t r.ann ≤ num t x)) := rfl
    rw [← filter_eq_find_toList (fun r : Node => anc t r.ann.blk x && decide (eff t r.ann ≤ num t x))
      (R := fun a b => UnrelB t a.ann.blk b.ann.blk) ?_ _ (pairF_top t _ hn.1)]
    · apply List.filter_congr
      intro r hr
      simp only [Function.comp]
      cases ha : anc t r.ann.blk x with
      | false => simp
      | true =>
        rcases hi.roots _ (mem_blocksF_of_mem hr) with h | h
        · simp [h]
        · rw [dead_anc_false wf h hx'.2] at ha; exact absurd ha (by simp)
    · intro a b h h1 h2
      simp only [Bool.and_eq_true] at h1 h2
      exact hrel _ _ h h1.1 h2.1
  unfold nextChange Spec.nextChange
  dsimp only
  rw [hF, hR, hcf, hcr]
  cases hfo : s.forced.find? (fun c => anc t c.blk x && decide (eff t c ≤ num t x)) with
  | none =>
    cases hro : s.roots.find? (fun r => anc t r.ann.blk x && decide (eff t r.ann ≤ num t x)) with
    | none => rfl
    | some r => rfl
  | some f =>
    cases hro : s.roots.find? (fun r => anc t r.ann.blk x && decide (eff t r.ann ≤ num t x)) with
    | none => simp [Option.toList]
    | some r =>
      have hr0 : r.ann.blk ≠ 0 := hn.2.1 _ (mem_blocksF_of_mem (List.mem_of_find?_eq_some hro))
      have hpos : 1 ≤ eff t r.ann := by
        have := num_pos wf hr0
        unfold eff; omega
      simp only [Option.toList, List.map_cons, List.map_nil, List.cons_append, List.nil_append, List.foldl_cons,
        List.foldl_nil]
      by_cases hlt : eff t f < eff t r.ann
      · simp [hlt, Nat.min_def]; omega
      · have h0 : ¬ eff t r.ann = 0 := by omega
        simp [hlt, h0, Nat.min_def]; omega

/-- `Sim` and the invariants, with `NInv`, along a history in scope -/
theorem sim_run_next {t : Tree} (wf : t.WF) : ∀ (ops : List Op) (s : St) (p : Spec), Sim t s p → Inv t s → NInv t s →
    Scoped t s ops →
    Sim t (run t s ops) (Spec.run t p ops) ∧ Inv t (run t s ops) ∧ NInv t (run t s ops)
  | [], _, _, hs, hi, hn, _ => ⟨hs, hi, hn⟩
  | op :: ops, s, p, hs, hi, hn, hsc => by
    have h1 := sim_step wf hs hi op hsc.1 hsc.2.1
    exact sim_run_next wf ops _ _ h1.2 (inv_step wf hi op (inScope_fresh hsc.1)) (nInv_step wf hs hi hn op hsc.1)
      hsc.2.2

end Gossamer.C23
