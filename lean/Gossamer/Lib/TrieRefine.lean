/-
Refinement: the Go trie operations (model `TrieMem`) against the ordered map `OMap`, first on
nibble keys (`entriesN`), then on byte keys through the representation relation `Rep`.
-/
import Gossamer.Lib.TrieBytes
set_option linter.unusedSectionVars false
set_option linter.unusedSimpArgs false
namespace Gossamer
open Rank OMap
namespace Trie

/-! ### nibble level -/

theorem entriesN_insert (t : Trie) (key : Nibs) (value : Bytes) :
    entriesN (insert t key value) = OMap.upsert key value (entriesN t) := by
  apply OMap.sorted_ext (sorted_entriesN _) (OMap.sorted_upsert _ _ (sorted_entriesN t))
  intro k
  rw [get_entriesN, lookup_insert, OMap.get_upsert, get_entriesN]

theorem entriesN_delete (t : Trie) (key : Nibs) (h : emptyKeyHit t key = false) :
    entriesN (deleteAtNode t key).1 = OMap.erase key (entriesN t) := by
  apply OMap.sorted_ext (sorted_entriesN _) (OMap.sorted_erase _ (sorted_entriesN t))
  intro k
  rw [get_entriesN, (lookup_deleteAtNode t key h).1, OMap.get_erase, get_entriesN]

/-- a key whose remaining nibbles run out at a node with a non-empty partial key is absent -/
theorem lookup_of_emptyKeyHit (t : Trie) (key : Nibs) (h : emptyKeyHit t key = true) :
    lookup t key = none := by
  induction t generalizing key with
  | nil => rfl
  | leaf pk v =>
    simp only [emptyKeyHit, Bool.and_eq_true, List.isEmpty_iff, Bool.not_eq_true',
      List.isEmpty_eq_false_iff] at h
    obtain ⟨rfl, h2⟩ := h
    simp [eq_comm, h2]
  | branch pk v cs ih =>
    cases key with
    | nil =>
      simp only [emptyKeyHit, List.isEmpty_nil, if_true, Bool.not_eq_true',
        List.isEmpty_eq_false_iff] at h
      cases pk with
      | nil => exact absurd rfl h
      | cons a as => exact lookup_branch_off _ _ _ _ (by simp)
    | cons a as =>
      rcases key_cases pk (a :: as) with hk | ⟨i, rest, hk⟩ | hoff
      · rw [hk] at h; simp [emptyKeyHit] at h
      · rw [hk] at h ⊢
        have hne2 : (pk == pk ++ i :: rest) = false := by simp [self_ne_append_cons]
        have hne3 : (pk ++ i :: rest).isEmpty = false := by simp
        simp only [emptyKeyHit, hne3, hne2, isPrefixOf_append_self, drop_length_append] at h
        rw [lookup_branch_child]
        exact ih i rest (by simpa using h)
      · exact lookup_branch_off _ _ _ _ hoff

theorem emptyKeyHit_of_lookup {t : Trie} {key : Nibs} {v : Bytes} (h : lookup t key = some v) :
    emptyKeyHit t key = false := by
  cases he : emptyKeyHit t key with
  | false => rfl
  | true => rw [lookup_of_emptyKeyHit t key he] at h; cases h


/-! ### GetKeysWithPrefix -/

theorem addAllKeys_eq (t : Trie) (pre : Nibs) :
    addAllKeys t pre = (entriesN t).map (fun e => pre ++ e.1) := by
  induction t generalizing pre with
  | nil => rfl
  | leaf pk v => rfl
  | branch pk v cs ih =>
    simp only [addAllKeys, entriesN, List.map_append, List.map_flatMap, List.map_map, ih]
    congr 1
    · cases v <;> rfl
    · congr 1
      funext i
      simp [Function.comp_def]

/-- every key below a branch extends the partial key -/
theorem entriesN_branch_prefix {pk : Nibs} {v : Option Bytes} {cs : Nib → Trie} {e : Nibs × Bytes}
    (h : e ∈ entriesN (branch pk v cs)) : pk.isPrefixOf e.1 = true := by
  have := OMap.get_of_mem_sorted (sorted_entriesN _) (show (e.1, e.2) ∈ _ from h)
  rw [get_entriesN] at this
  exact branch_key_prefix this

theorem isPrefixOf_total {a b k : Nibs} (ha : a.isPrefixOf k = true) (hb : b.isPrefixOf k = true) :
    a.isPrefixOf b = true ∨ b.isPrefixOf a = true := by
  simp only [List.isPrefixOf_iff_prefix] at *
  rcases Nat.le_total a.length b.length with h | h
  · exact Or.inl (List.prefix_of_prefix_length_le ha hb h)
  · exact Or.inr (List.prefix_of_prefix_length_le hb ha h)

theorem filter_map_prefix (p : Nibs) (key : Nibs) (es : List (Nibs × Bytes)) :
    (es.map (fun e => (p ++ e.1, e.2))).filter (fun e => (p ++ key).isPrefixOf e.1) =
      (es.filter (fun e => key.isPrefixOf e.1)).map (fun e => (p ++ e.1, e.2)) := by
  rw [List.filter_map]
  congr 1
  apply List.filter_congr
  intro e _
  simp [Function.comp, isPrefixOf_append_left]

theorem filter_childEntries (E : Nib → List (Nibs × Bytes)) (l : List Nib) (i : Nib) (rest : Nibs)
    (hl : l.Nodup) :
    (childEntries E l).filter (fun e => (i :: rest).isPrefixOf e.1) =
      if i ∈ l then ((E i).filter (fun e => rest.isPrefixOf e.1)).map (fun e => (i :: e.1, e.2))
      else [] := by
  induction l with
  | nil => rfl
  | cons j l ih =>
    have hnd := List.nodup_cons.mp hl
    simp only [childEntries, List.flatMap_cons, List.filter_append] at ih ⊢
    rw [ih hnd.2]
    by_cases hji : j = i
    · subst hji
      have : j ∉ l := hnd.1
      simp only [this, if_false, List.append_nil, List.mem_cons, true_or, if_true]
      have := filter_map_prefix [j] rest (E j)
      simpa using this
    · have hij : i ≠ j := fun h => hji h.symm
      have h1 : ((E j).map (fun e => (j :: e.1, e.2))).filter (fun e => (i :: rest).isPrefixOf e.1) = [] := by
        rw [List.filter_eq_nil_iff]
        intro e he
        obtain ⟨x, _, rfl⟩ := List.mem_map.mp he
        simp [hij]
      rw [h1]
      simp [hij]

theorem getKeysWithPrefix_eq (t : Trie) (pre key : Nibs) :
    getKeysWithPrefix t pre key =
      ((entriesN t).filter (fun e => key.isPrefixOf e.1)).map (fun e => pre ++ e.1) := by
  induction t generalizing pre key with
  | nil => rfl
  | leaf pk v =>
    have : (key.length = 0 || key.isPrefixOf pk) = key.isPrefixOf pk := by
      cases key with
      | nil => simp
      | cons a as => simp
    simp only [getKeysWithPrefix, this, entriesN, List.filter_cons]
    split <;> rfl
  | branch pk v cs ih =>
    have h0 : (key.length = 0 || key.isPrefixOf pk) = key.isPrefixOf pk := by
      cases key with
      | nil => simp
      | cons a as => simp
    simp only [getKeysWithPrefix, h0]
    cases h1 : key.isPrefixOf pk with
    | true =>
      -- every key below the branch has the prefix
      simp only [if_true, addAllKeys_eq]
      congr 1
      symm
      rw [List.filter_eq_self]
      intro e he
      exact isPrefixOf_trans h1 (entriesN_branch_prefix he)
    | false =>
      simp only [Bool.false_eq_true, if_false]
      cases h2 : pk.isPrefixOf key with
      | true =>
        obtain ⟨r, hr⟩ := isPrefixOf_iff.mp h2
        cases r with
        | nil => simp at hr; subst hr; simp [isPrefixOf_self] at h1
        | cons i rest =>
          subst hr
          simp only [Bool.not_true, Bool.false_eq_true, if_false, drop_length_append, ih]
          rw [entriesN_branch, List.filter_append]
          have hv : ∀ x : Bytes, ([(pk, x)] : List (Nibs × Bytes)).filter
              (fun e => (pk ++ i :: rest).isPrefixOf e.1) = [] := by
            intro x
            simp only [List.filter_cons, List.filter_nil]
            rw [if_neg]
            intro h
            obtain ⟨s, hs⟩ := isPrefixOf_iff.mp h
            have := congrArg List.length hs
            simp at this
          have hfin : List.map (fun e => pre ++ pk ++ [i] ++ e.fst)
                (List.filter (fun e => rest.isPrefixOf e.fst) (cs i).entriesN) =
              List.map (fun e => pre ++ e.fst)
                (List.filter (fun e => List.isPrefixOf (pk ++ i :: rest) e.fst)
                  (List.map (fun e => (pk ++ e.fst, e.snd))
                    (childEntries (fun i => (cs i).entriesN) (List.finRange 16)))) := by
            rw [filter_map_prefix, filter_childEntries _ _ _ _ (List.nodup_finRange 16)]
            simp [List.mem_finRange, List.map_map, Function.comp_def]
          cases v with
          | none => simp only [List.filter_nil, List.nil_append]; exact hfin
          | some x => simp only [hv x, List.nil_append]; exact hfin
      | false =>
        -- the prefix leaves the partial key: nothing matches
        simp only [Bool.not_false, if_true]
        symm
        rw [List.map_eq_nil_iff, List.filter_eq_nil_iff]
        intro e he hk
        rcases isPrefixOf_total hk (entriesN_branch_prefix he) with h | h
        · rw [h1] at h; cases h
        · rw [h2] at h; cases h


/-! ### NextKey -/

theorem findSome?_filter_of_none {α β : Type} (p : α → Bool) (g : α → Option β) (l : List α)
    (h : ∀ x ∈ l, p x = false → g x = none) : (l.filter p).findSome? g = l.findSome? g := by
  induction l with
  | nil => rfl
  | cons a r ih =>
    have ih' := ih (fun x hx => h x (by simp [hx]))
    simp only [List.filter_cons]
    cases hp : p a with
    | true => simp only [if_true, List.findSome?_cons]; rw [ih']
    | false =>
      simp only [Bool.false_eq_true, if_false, List.findSome?_cons, h a (by simp) hp]
      exact ih'

theorem findSome?_eq_none_of {α β : Type} (g : α → Option β) (l : List α)
    (h : ∀ x ∈ l, g x = none) : l.findSome? g = none := by
  induction l with
  | nil => rfl
  | cons a r ih =>
    simp only [List.findSome?_cons, h a (by simp)]
    exact ih (fun x hx => h x (by simp [hx]))

/-- `full < search`, `search` not longer than `full`: `search` is above every extension of `full` -/
theorem klt_ext_false_short {full search : Nibs} (h1 : klt full search = true)
    (h2 : search.length ≤ full.length) (ext : Nibs) : klt search (full ++ ext) = false := by
  obtain ⟨c, fa, sa, rfl, rfl, _, h4⟩ := lcp_split full search
  rw [klt_append_left] at h1
  rw [List.append_assoc, klt_append_left]
  cases fa with
  | nil =>
    cases sa with
    | nil => simp [klt] at h1
    | cons y ys =>
      exfalso
      simp only [List.length_append, List.length_cons, List.length_nil] at h2
      omega
  | cons x xs =>
    cases sa with
    | nil => simp [klt] at h1
    | cons y ys =>
      have hxy := h4 x xs y ys rfl rfl
      simp only [klt, Bool.or_eq_true, decide_eq_true_eq, Bool.and_eq_true, beq_iff_eq] at h1
      have hlt : rank x < rank y := by
        rcases h1 with h | ⟨h, _⟩
        · exact h
        · exact absurd (rank_inj h) hxy
      simp only [List.cons_append, klt, Bool.or_eq_false_iff, decide_eq_false_iff_not,
        Bool.and_eq_false_imp, beq_iff_eq]
      exact ⟨by omega, fun h => by omega⟩

/-- `full < search`, next nibble of `search` after `full` is `i`: children `j < i` are below `search` -/
theorem klt_ext_false_child {full search : Nibs} {i : Nib} {s : Nibs} (h1 : klt full search = true)
    (h2 : search.drop full.length = i :: s) (j : Nib) (hj : j.val < i.val) (ext : Nibs) :
    klt search (full ++ j :: ext) = false := by
  obtain ⟨c, fa, sa, rfl, rfl, _, h4⟩ := lcp_split full search
  rw [klt_append_left] at h1
  rw [List.append_assoc, klt_append_left]
  cases fa with
  | nil =>
    simp only [List.append_nil, drop_length_append] at h2
    subst h2
    simp only [List.nil_append, klt, Bool.or_eq_false_iff, decide_eq_false_iff_not,
      Bool.and_eq_false_imp, beq_iff_eq, Rank.rank]
    exact ⟨by omega, fun h => by omega⟩
  | cons x xs =>
    cases sa with
    | nil => simp [klt] at h1
    | cons y ys =>
      have hxy := h4 x xs y ys rfl rfl
      simp only [klt, Bool.or_eq_true, decide_eq_true_eq, Bool.and_eq_true, beq_iff_eq] at h1
      have hlt : rank x < rank y := by
        rcases h1 with h | ⟨h, _⟩
        · exact h
        · exact absurd (rank_inj h) hxy
      simp only [List.cons_append, klt, Bool.or_eq_false_iff, decide_eq_false_iff_not,
        Bool.and_eq_false_imp, beq_iff_eq]
      exact ⟨by omega, fun h => by omega⟩

theorem findNextNode_eq (t : Trie) (pre search : Nibs) :
    findNextNode t pre search =
      ((entriesN t).find? (fun e => klt search (pre ++ e.1))).map (fun e => pre ++ e.1) := by
  induction t generalizing pre with
  | nil => rfl
  | leaf pk v =>
    simp only [findNextNode, entriesN, List.find?_cons]
    split <;> simp_all
  | branch pk v cs ih =>
    -- result over all children
    have hall : ((List.finRange 16).findSome? (fun i => findNextNode (cs i) (pre ++ pk ++ [i]) search)) =
        (((List.finRange 16).flatMap (fun i => (entriesN (cs i)).map
            (fun e => (pk ++ i :: e.1, e.2)))).find? (fun e => klt search (pre ++ e.1))).map
          (fun e => pre ++ e.1) := by
      rw [List.find?_flatMap, List.map_findSome?]
      congr 1
      funext i
      simp only [Function.comp]
      rw [ih, List.find?_map]
      simp [Function.comp_def, Option.map_map]
    have hfilt0 : ((List.finRange 16).filter (fun i => decide (0 ≤ i.val))) = List.finRange 16 := by
      simp
    -- the part of the Go code after `cmp != -1`
    have tail : ∀ vpart : List (Nibs × Bytes), (∀ e ∈ vpart, e.1 = pk) →
        klt search (pre ++ pk) = false →
        (if search = pre ++ pk then
            List.findSome? (fun i => (cs i).findNextNode (pre ++ pk ++ [i]) search)
              (List.filter (fun i => decide (0 ≤ i.val)) (List.finRange 16))
          else
            if List.length search ≤ List.length (pre ++ pk) then none
            else
              match List.drop (List.length (pre ++ pk)) search with
              | i :: _ =>
                List.findSome? (fun i => (cs i).findNextNode (pre ++ pk ++ [i]) search)
                  (List.filter (fun i_1 => decide (i.val ≤ i_1.val)) (List.finRange 16))
              | [] => none) =
          Option.map (fun e => pre ++ e.fst)
            ((List.find? (fun e => klt search (pre ++ e.fst)) vpart).or
              (List.find? (fun e => klt search (pre ++ e.fst))
                (List.flatMap (fun i => List.map (fun e => (pk ++ i :: e.fst, e.snd)) (cs i).entriesN)
                  (List.finRange 16)))) := by
      intro vpart hvp h1'
      have hv : List.find? (fun e : Nibs × Bytes => klt search (pre ++ e.1)) vpart = none := by
        rw [List.find?_eq_none]
        intro e he
        rw [hvp e he, h1']; simp
      rw [hv, Option.none_or, ← hall]
      by_cases h2 : search = pre ++ pk
      · simp only [h2, if_true, hfilt0]
      · simp only [h2, if_false]
        have h3 : klt (pre ++ pk) search = true := by
          rcases klt_trichotomy (pre ++ pk) search with h | h | h
          · exact h
          · exact absurd h.symm h2
          · rw [h] at h1'; cases h1'
        split
        · rename_i hlen
          symm
          apply findSome?_eq_none_of
          intro i _
          rw [ih]
          have : List.find? (fun e : Nibs × Bytes => klt search (pre ++ pk ++ [i] ++ e.1)) (entriesN (cs i)) = none := by
            rw [List.find?_eq_none]
            intro e _
            have := klt_ext_false_short h3 hlen ([i] ++ e.1)
            simp only [List.append_assoc, List.singleton_append] at this ⊢
            simp [this]
          rw [this]; rfl
        · split
          · rename_i i s hdrop
            apply findSome?_filter_of_none
            intro j _ hj
            rw [ih]
            have hj' : j.val < i.val := by simpa using hj
            have : List.find? (fun e : Nibs × Bytes => klt search (pre ++ pk ++ [j] ++ e.1)) (entriesN (cs j)) = none := by
              rw [List.find?_eq_none]
              intro e _
              have := klt_ext_false_child h3 hdrop j hj' e.1
              simp only [List.append_assoc, List.singleton_append] at this ⊢
              simp [this]
            rw [this]; rfl
          · rename_i hlen hdrop
            exfalso
            have : (List.drop (pre ++ pk).length search).length = search.length - (pre ++ pk).length :=
              List.length_drop
            rw [hdrop] at this
            have h0 : ([] : Nibs).length = 0 := rfl
            omega
    cases v with
    | none =>
      simp only [findNextNode, entriesN, List.find?_append, Option.isSome_none, Bool.false_eq_true,
        if_false]
      by_cases h1 : klt search (pre ++ pk) = true
      · simp only [h1, if_true, hfilt0, hall]; simp
      · have h1' := Bool.eq_false_iff.mpr h1
        simp only [h1', Bool.false_eq_true, if_false]
        exact tail [] (by simp) h1'
    | some x =>
      simp only [findNextNode, entriesN, List.find?_append, Option.isSome_some, if_true]
      by_cases h1 : klt search (pre ++ pk) = true
      · simp [h1]
      · have h1' := Bool.eq_false_iff.mpr h1
        simp only [h1', Bool.false_eq_true, if_false]
        exact tail [(pk, x)] (by simp) h1'


/-! ### ClearPrefix -/

/-- `len(prefix) == len(pk)+1 && HasPrefix(pk, prefix[:len(prefix)-1])` says `prefix = pk ++ [i]` -/
theorem child_slot_prefix {pre pk : Nibs}
    (h : (decide (pre.length = pk.length + 1) && pre.dropLast == pk) = true) :
    ∃ i, pre = pk ++ [i] := by
  simp only [Bool.and_eq_true, decide_eq_true_eq, beq_iff_eq] at h
  obtain ⟨h1, h2⟩ := h
  have hne : pre ≠ [] := by intro e; subst e; simp at h1
  refine ⟨pre.getLast hne, ?_⟩
  rw [← h2, List.dropLast_concat_getLast]

theorem child_slot_prefix_self (pk : Nibs) (i : Nib) :
    (decide ((pk ++ [i]).length = pk.length + 1) && (pk ++ [i]).dropLast == pk) = true := by
  simp

/-- the remaining case of `clearPrefixAtNode` on a branch: the partial key is a proper prefix -/
theorem proper_prefix_of_not {pre pk : Nibs}
    (h : (decide (pre.length ≤ pk.length) || decide (lcpLen pk pre < pk.length)) = false) :
    ∃ i rest, pre = pk ++ i :: rest := by
  simp only [Bool.or_eq_false_iff, decide_eq_false_iff_not, Nat.not_le, Nat.not_lt] at h
  obtain ⟨h1, h2⟩ := h
  obtain ⟨c, pa, ra, rfl, rfl, h3, _⟩ := lcp_split pk pre
  rw [h3] at h2
  cases pa with
  | nil =>
    cases ra with
    | nil => simp at h1
    | cons i rest => exact ⟨i, rest, by simp⟩
  | cons x xs =>
    exfalso
    simp only [List.length_append, List.length_cons] at h2
    omega

theorem not_proper_of_prefix (pk : Nibs) (i : Nib) (rest : Nibs) :
    (decide ((pk ++ i :: rest).length ≤ pk.length) || decide (lcpLen pk (pk ++ i :: rest) < pk.length)) = false := by
  simp [lcpLen_prefix]

/-- no key of the branch has the prefix when the prefix leaves the partial key -/
theorem no_key_with_prefix {pk : Nibs} {v : Option Bytes} {cs : Nib → Trie} {pre : Nibs}
    (hA : pre.isPrefixOf pk = false)
    (hC : (decide (pre.length ≤ pk.length) || decide (lcpLen pk pre < pk.length)) = true)
    (k' : Nibs) (hk : pre.isPrefixOf k' = true) : lookup (branch pk v cs) k' = none := by
  cases hl : lookup (branch pk v cs) k' with
  | none => rfl
  | some x =>
    exfalso
    have hpk := branch_key_prefix hl
    rcases isPrefixOf_total hk hpk with h | h
    · rw [hA] at h; cases h
    · obtain ⟨r, rfl⟩ := isPrefixOf_iff.mp h
      simp only [Bool.or_eq_true, decide_eq_true_eq, lcpLen_prefix, List.length_append] at hC
      rcases hC with hC | hC
      · have : r = [] := by cases r with
          | nil => rfl
          | cons a as => simp at hC; omega
        subst this
        simp [isPrefixOf_self] at hA
      · omega

theorem lookup_clearPrefixAtNode (t : Trie) (pre : Nibs) :
    (∀ k', lookup (clearPrefixAtNode t pre).1 k' =
        if pre.isPrefixOf k' then none else lookup t k') ∧
    ((clearPrefixAtNode t pre).2 = false → ∀ k', pre.isPrefixOf k' = true → lookup t k' = none) := by
  induction t generalizing pre with
  | nil => simp [clearPrefixAtNode]
  | leaf pk v =>
    simp only [clearPrefixAtNode]
    cases h : pre.isPrefixOf pk with
    | true =>
      simp only [if_true]
      refine ⟨fun k' => ?_, by simp⟩
      by_cases hk : k' = pk
      · subst hk; simp [h]
      · simp [hk]
    | false =>
      simp only [Bool.false_eq_true, if_false]
      refine ⟨fun k' => ?_, fun _ k' hk' => ?_⟩
      · by_cases hk : k' = pk
        · subst hk; simp [h]
        · simp [hk]
      · have : k' ≠ pk := by intro e; subst e; rw [h] at hk'; cases hk'
        simp [this]
  | branch pk v cs ih =>
    simp only [clearPrefixAtNode]
    cases hA : pre.isPrefixOf pk with
    | true =>
      simp only [if_true]
      refine ⟨fun k' => ?_, by simp⟩
      cases hk : pre.isPrefixOf k' with
      | true => simp
      | false =>
        simp only [lookup_nil, Bool.false_eq_true, if_false]
        cases hl : lookup (branch pk v cs) k' with
        | none => rfl
        | some x =>
          have := isPrefixOf_trans hA (branch_key_prefix hl)
          rw [hk] at this; cases this
    | false =>
      simp only [Bool.false_eq_true, if_false]
      cases hB : (decide (pre.length = pk.length + 1) && pre.dropLast == pk) with
      | true =>
        obtain ⟨i, rfl⟩ := child_slot_prefix hB
        simp only [if_true, drop_length_append]
        have hpre : ∀ k', (pk ++ [i]).isPrefixOf k' = true ↔ ∃ r, k' = pk ++ i :: r := by
          intro k'
          rw [isPrefixOf_iff]
          constructor
          · rintro ⟨r, hr⟩; exact ⟨r, by simpa using hr⟩
          · rintro ⟨r, hr⟩; exact ⟨r, by simpa using hr⟩
        cases hnil : (cs i).isNil with
        | true =>
          have hci := (isNil_iff _).mp hnil
          simp only [if_true]
          refine ⟨fun k' => ?_, fun _ k' hk' => ?_⟩
          · cases hk : (pk ++ [i]).isPrefixOf k' with
            | false => simp
            | true =>
              obtain ⟨r, rfl⟩ := (hpre k').mp hk
              simp [lookup_branch_child, hci]
          · obtain ⟨r, rfl⟩ := (hpre k').mp hk'
            simp [lookup_branch_child, hci]
        | false =>
          simp only [Bool.false_eq_true, if_false]
          refine ⟨fun k' => ?_, by simp⟩
          rw [lookup_handleDeletion _ _ _ _ (fun _ => isPrefixOf_append_self pk [i])]
          rcases key_cases pk k' with rfl | ⟨j, q, rfl⟩ | hoff
          · have : (k' ++ [i]).isPrefixOf k' = false := by
              cases h : (k' ++ [i]).isPrefixOf k' with
              | false => rfl
              | true =>
                obtain ⟨r, hr⟩ := isPrefixOf_iff.mp h
                have := congrArg List.length hr
                simp at this
            simp [lookup_branch_self, this]
          · rw [lookup_branch_child, lookup_branch_child]
            by_cases hj : j = i
            · subst hj
              have : (pk ++ [j]).isPrefixOf (pk ++ j :: q) = true := (hpre _).mpr ⟨q, rfl⟩
              simp [this]
            · have : (pk ++ [i]).isPrefixOf (pk ++ j :: q) = false := by
                cases h : (pk ++ [i]).isPrefixOf (pk ++ j :: q) with
                | false => rfl
                | true =>
                  obtain ⟨r, hr⟩ := (hpre _).mp h
                  have := List.append_cancel_left hr
                  simp at this
                  exact absurd this.1 hj
              simp [setChild_other _ _ _ _ hj, this]
          · have : (pk ++ [i]).isPrefixOf k' = false := by
              cases h : (pk ++ [i]).isPrefixOf k' with
              | false => rfl
              | true =>
                obtain ⟨r, hr⟩ := (hpre _).mp h
                rw [hr, isPrefixOf_append_self] at hoff; cases hoff
            simp [lookup_branch_off _ _ _ _ hoff, this]
      | false =>
        simp only [Bool.false_eq_true, if_false]
        cases hC : (decide (pre.length ≤ pk.length) || decide (lcpLen pk pre < pk.length)) with
        | true =>
          simp only [if_true]
          refine ⟨fun k' => ?_, fun _ k' hk' => no_key_with_prefix hA hC k' hk'⟩
          cases hk : pre.isPrefixOf k' with
          | false => simp
          | true => simp [no_key_with_prefix hA hC k' hk]
        | false =>
          obtain ⟨i, rest, rfl⟩ := proper_prefix_of_not hC
          simp only [Bool.false_eq_true, if_false, drop_length_append]
          have hpre : ∀ k', (pk ++ i :: rest).isPrefixOf k' = true ↔
              ∃ r, k' = pk ++ i :: r ∧ rest.isPrefixOf r = true := by
            intro k'
            constructor
            · intro h
              obtain ⟨r, hr⟩ := isPrefixOf_iff.mp h
              exact ⟨rest ++ r, by simpa using hr, isPrefixOf_append_self _ _⟩
            · rintro ⟨r, hr, h2⟩
              obtain ⟨s, hs⟩ := isPrefixOf_iff.mp h2
              exact isPrefixOf_iff.mpr ⟨s, by rw [hr, hs]; simp⟩
          have hIH := ih i rest
          cases hflag : (clearPrefixAtNode (cs i) rest).2 with
          | false =>
            simp only [Bool.not_false, if_true]
            have hnone := hIH.2 hflag
            refine ⟨fun k' => ?_, fun _ k' hk' => ?_⟩
            · cases hk : (pk ++ i :: rest).isPrefixOf k' with
              | false => simp
              | true =>
                obtain ⟨r, rfl, hr⟩ := (hpre k').mp hk
                simp [lookup_branch_child, hnone r hr]
            · obtain ⟨r, rfl, hr⟩ := (hpre k').mp hk'
              rw [lookup_branch_child]; exact hnone r hr
          | true =>
            simp only [Bool.not_true, Bool.false_eq_true, if_false]
            refine ⟨fun k' => ?_, by simp⟩
            rw [lookup_handleDeletion _ _ _ _ (fun _ => isPrefixOf_append_self pk (i :: rest))]
            rcases key_cases pk k' with rfl | ⟨j, q, rfl⟩ | hoff
            · have : (k' ++ i :: rest).isPrefixOf k' = false := by
                cases h : (k' ++ i :: rest).isPrefixOf k' with
                | false => rfl
                | true =>
                  obtain ⟨r, hr⟩ := isPrefixOf_iff.mp h
                  have := congrArg List.length hr
                  simp at this
              simp [lookup_branch_self, this]
            · rw [lookup_branch_child, lookup_branch_child]
              by_cases hj : j = i
              · subst hj
                have : (pk ++ j :: rest).isPrefixOf (pk ++ j :: q) = rest.isPrefixOf q := by
                  rw [isPrefixOf_append_left]; simp
                simp [this, hIH.1]
              · have : (pk ++ i :: rest).isPrefixOf (pk ++ j :: q) = false := by
                  rw [isPrefixOf_append_left]
                  simp only [List.isPrefixOf_cons_cons, Bool.and_eq_false_imp, beq_iff_eq]
                  intro h; exact absurd h.symm hj
                simp [setChild_other _ _ _ _ hj, this]
            · have : (pk ++ i :: rest).isPrefixOf k' = false := by
                cases h : (pk ++ i :: rest).isPrefixOf k' with
                | false => rfl
                | true =>
                  obtain ⟨r, hr, _⟩ := (hpre _).mp h
                  rw [hr, isPrefixOf_append_self] at hoff; cases hoff
              simp [lookup_branch_off _ _ _ _ hoff, this]


/-- a branch keeps a value or a child when one child slot of a canonical branch is replaced -/
theorem canon_branch_after_set {pk : Nibs} {v : Option Bytes} {cs : Nib → Trie}
    (h : Canon (branch pk v cs)) (i : Nib) (c : Trie) :
    v.isSome = true ∨ ∃ j, setChild cs i c j ≠ nil := by
  rw [canon_branch_iff] at h
  rcases h.2 with ⟨a, b, hab, ha, hb⟩ | ⟨hv, _⟩
  · right
    by_cases hai : a = i
    · refine ⟨b, ?_⟩
      rw [setChild_other _ _ _ _ (fun e => hab (hai.trans e.symm))]; exact hb
    · exact ⟨a, by rw [setChild_other _ _ _ _ hai]; exact ha⟩
  · exact Or.inl hv

theorem canon_setChild {cs : Nib → Trie} (hcs : ∀ j, Canon (cs j)) (i : Nib) {c : Trie}
    (hc : Canon c) (x : Nib) : Canon (setChild cs i c x) := by
  by_cases hx : x = i
  · subst hx; simpa using hc
  · rw [setChild_other _ _ _ _ hx]; exact hcs x

theorem canon_clearPrefixAtNode (t : Trie) (pre : Nibs) (h : Canon t) :
    Canon (clearPrefixAtNode t pre).1 := by
  induction t generalizing pre with
  | nil => simp [clearPrefixAtNode]
  | leaf pk v => simp only [clearPrefixAtNode]; split <;> simp
  | branch pk v cs ih =>
    have hcs := ((canon_branch_iff _ _ _).mp h).1
    simp only [clearPrefixAtNode]
    split
    · simp
    · split
      · split
        · split
          · exact h
          · exact (canon_handleDeletion pk v _ pre (canon_setChild hcs _ canon_nil)
              (canon_branch_after_set h _ _)).2
        · exact h
      · split
        · exact h
        · split
          · rename_i i rest _
            split
            · exact h
            · exact (canon_handleDeletion pk v _ pre (canon_setChild hcs _ (ih i rest (hcs i)))
                (canon_branch_after_set h _ _)).2
          · exact h

theorem entriesN_clearPrefixAtNode (t : Trie) (pre : Nibs) :
    entriesN (clearPrefixAtNode t pre).1 = OMap.clearPrefix pre (entriesN t) := by
  apply OMap.sorted_ext (sorted_entriesN _) (OMap.sorted_clearPrefix _ (sorted_entriesN t))
  intro k
  rw [get_entriesN, (lookup_clearPrefixAtNode t pre).1, OMap.get_clearPrefix, get_entriesN]

end Trie

/-! ### byte level -/

/-- the trie `t` represents the byte-keyed ordered map `es` -/
structure Rep (t : Trie) (es : Entries) : Prop where
  sorted : OMap.Sorted es
  canon : Trie.Canon t
  entries : Trie.entriesN t = OMap.mapK toNibs es

namespace Rep
open Trie

theorem empty : Rep Trie.nil [] := ⟨trivial, trivial, rfl⟩

theorem lookup_eq {t : Trie} {es : Entries} (h : Rep t es) (k : Bytes) :
    lookup t (toNibs k) = OMap.get k es := by
  rw [← get_entriesN, h.entries, OMap.get_mapK toNibs_keyEmb]

/-- a canonical trie is determined by the map it represents: it is `build` of that map -/
theorem eq_build {t : Trie} {es : Entries} (h : Rep t es) : t = build es := by
  have := eq_buildN_of_canon h.canon
  rw [h.entries] at this
  exact this

theorem put {t : Trie} {es : Entries} (h : Rep t es) (k v : Bytes) :
    Rep (Trie.put t k v) (OMap.upsert k v es) := by
  refine ⟨OMap.sorted_upsert _ _ h.sorted, ?_, ?_⟩
  · exact canon_insert h.canon _ _
  · rw [Trie.put, keyLEToNibbles_eq, entriesN_insert, h.entries, OMap.upsert_mapK toNibs_keyEmb]

theorem get {t : Trie} {es : Entries} (h : Rep t es) (k : Bytes)
    (hk : emptyKeyHit t (toNibs k) = false) : Trie.get t k = OMap.get k es := by
  rw [Trie.get, keyLEToNibbles_eq, retrieve_eq_lookup _ _ hk, h.lookup_eq]

theorem delete {t : Trie} {es : Entries} (h : Rep t es) (k : Bytes)
    (hk : emptyKeyHit t (toNibs k) = false) : Rep (Trie.delete t k) (OMap.erase k es) := by
  refine ⟨OMap.sorted_erase _ h.sorted, ?_, ?_⟩
  · exact canon_deleteAtNode _ _ h.canon
  · rw [Trie.delete, keyLEToNibbles_eq, entriesN_delete _ _ hk, h.entries,
      OMap.erase_mapK toNibs_keyEmb]

/-- keys that are present never hit the `len(key) == 0` short cut -/
theorem safe_of_present {t : Trie} {es : Entries} (h : Rep t es) {k v : Bytes}
    (hk : OMap.get k es = some v) : emptyKeyHit t (toNibs k) = false :=
  emptyKeyHit_of_lookup (by rw [h.lookup_eq]; exact hk)

end Rep
open Trie

/-! ### the trimmed prefix -/

theorem trimZero_isPrefix (q : Nibs) : (trimZero q).isPrefixOf q = true := by
  unfold trimZero
  split
  · rw [List.isPrefixOf_iff_prefix]; exact List.dropLast_prefix q
  · exact isPrefixOf_self q

theorem getLast?_toNibs (p : Bytes) : (toNibs p).getLast? = p.getLast?.map loNib := by
  induction p with
  | nil => rfl
  | cons b r ih =>
    cases r with
    | nil => simp [toNibs]
    | cons c r' =>
      simp only [toNibs] at ih ⊢
      simp only [List.getLast?_cons_cons] at ih ⊢
      exact ih

theorem trimZero_toNibs {p : Bytes} (h : lowNibbleZero p = false) : trimZero (toNibs p) = toNibs p := by
  unfold trimZero
  rw [getLast?_toNibs]
  unfold lowNibbleZero at h
  cases hl : p.getLast? with
  | none => simp
  | some b =>
    rw [hl] at h
    simp only [Option.map_some, Option.some.injEq]
    rw [if_neg]
    intro e
    have := congrArg Fin.val e
    rw [loNib_val] at this
    simp at h
    simp at this
    omega

/-- outside the region of the trimmed-prefix finding the trimmed nibble prefix selects exactly
    the keys with the byte prefix -/
theorem trim_agree {p : Bytes} {es : Entries} (h : trimRegion p es = false) :
    ∀ e ∈ es, (trimZero (toNibs p)).isPrefixOf (toNibs e.1) = p.isPrefixOf e.1 := by
  intro e he
  cases hz : lowNibbleZero p with
  | false => rw [trimZero_toNibs hz, isPrefixOf_toNibs]
  | true =>
    simp only [trimRegion, hz, Bool.true_and, List.any_eq_false, Bool.and_eq_true,
      Bool.not_eq_true', not_and, Bool.not_eq_false] at h
    cases hp : p.isPrefixOf e.1 with
    | true =>
      rw [← isPrefixOf_toNibs] at hp
      exact isPrefixOf_trans (trimZero_isPrefix _) hp
    | false =>
      cases ht : (trimZero (toNibs p)).isPrefixOf (toNibs e.1) with
      | false => rfl
      | true => have := h e he ht; rw [hp] at this; cases this

namespace Rep

theorem keysWithPrefix {t : Trie} {es : Entries} (h : Rep t es) (p : Bytes)
    (hp : trimRegion p es = false) : Trie.keysWithPrefix t p = OMap.keysWithPrefix p es := by
  have hkey : (if p.length > 0 then trimZero (keyLEToNibbles p) else []) = trimZero (toNibs p) := by
    cases p with
    | nil => rfl
    | cons b r => simp [keyLEToNibbles_eq]
  simp only [Trie.keysWithPrefix, hkey, getKeysWithPrefix_eq, h.entries, OMap.mapK,
    List.filter_map, List.map_map, OMap.keysWithPrefix]
  rw [List.filter_congr (q := fun e => p.isPrefixOf e.1) (fun e he => by simpa using trim_agree hp e he)]
  apply List.map_congr_left
  intro e _
  simp [nibblesToKeyLE_toNibs]

theorem nextKey {t : Trie} {es : Entries} (h : Rep t es) (k : Bytes) :
    Trie.nextKey t k = OMap.nextKey k es := by
  simp only [Trie.nextKey, keyLEToNibbles_eq, findNextNode_eq, h.entries, OMap.mapK,
    List.find?_map, OMap.nextKey, Option.map_map, List.nil_append]
  have : ((fun e : Nibs × Bytes => klt (toNibs k) e.1) ∘ fun e : Bytes × Bytes => (toNibs e.1, e.2))
      = fun e => klt k e.1 := by
    funext e; simp [klt_toNibs]
  rw [this]
  cases es.find? (fun e => klt k e.1) with
  | none => rfl
  | some e => simp [nibblesToKeyLE_toNibs]

theorem clearPrefix {t : Trie} {es : Entries} (h : Rep t es) (p : Bytes)
    (hp : trimRegion p es = false) : Rep (Trie.clearPrefix t p) (OMap.clearPrefix p es) := by
  unfold Trie.clearPrefix
  split
  · rename_i h0
    have : p = [] := List.eq_nil_of_length_eq_zero h0
    subst this
    have : OMap.clearPrefix ([] : Bytes) es = [] := by simp [OMap.clearPrefix]
    rw [this]; exact Rep.empty
  · refine ⟨OMap.sorted_clearPrefix _ h.sorted, canon_clearPrefixAtNode _ _ h.canon, ?_⟩
    rw [keyLEToNibbles_eq, entriesN_clearPrefixAtNode, h.entries]
    simp only [OMap.clearPrefix, OMap.mapK, List.filter_map]
    congr 1
    apply List.filter_congr
    intro e he
    simp [trim_agree hp e he]

/-- `Entries()`: exactly the map, every value found by `Get` -/
theorem entries_eq {t : Trie} {es : Entries} (h : Rep t es) :
    Trie.entries t = es.map (fun e => (e.1, some e.2)) := by
  simp only [Trie.entries, h.entries, OMap.mapK, List.map_map]
  apply List.map_congr_left
  intro e he
  have hg : OMap.get e.1 es = some e.2 := OMap.get_of_mem_sorted h.sorted he
  simp only [Function.comp, nibblesToKeyLE_toNibs]
  rw [h.get e.1 (h.safe_of_present hg), hg]

end Rep
end Gossamer
