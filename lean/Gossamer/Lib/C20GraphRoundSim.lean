/-
C20 layer (b), proofs: the round on the compressed graph computes the same prevote GHOST, finalized block and
estimate as the round of the model (blocks paired with their numbers).
-/
import Gossamer.Lib.C20GraphGhostFinal
namespace Gossamer.C20

variable {t : Tree} {ws : List Nat}

/-- a block with its number, like `HashNumber` -/
def pr (t : Tree) (o : Option Nat) : Option (Nat × Nat) := o.map (fun B => (B, t.num B))

theorem supermCond_mono (ws : List Nat) (eqv : Mask) (ph : Bool) : MonoCond (supermCond ws eqv ph) := by
  intro m m' hm
  unfold supermCond nodeWeight maskWeight at *
  simp only [decide_eq_true_eq] at *
  have : wsum ws (fun v => (m ||| eqv).testBit (bitPos v (phN ph))) ≤
      wsum ws (fun v => (m ||| m' ||| eqv).testBit (bitPos v (phN ph))) := by
    apply wsum_mono
    intro v _ hv
    simp only [Nat.testBit_or, Bool.or_eq_true] at hv ⊢
    rcases hv with hv | hv
    · exact Or.inl (Or.inl hv)
    · exact Or.inr hv
  omega

/-- on a tolerant vote set at most one child of a block has a supermajority -/
theorem superm_uniqChild (h : t.WF) (h0 : 0 < total ws) (ops : List Op) (ph : Bool)
    (htol : tolerant ws ops ph = true) :
    UniqChild t (run t ws ops).cum (supermCond ws (run t ws ops).eqv ph) := by
  intro B x y hx hy gx gy
  simp only [good, Bool.and_eq_true] at gx gy
  have sx : superm t ws ops ph x = true := by rw [← supermCond_run]; exact gx.2
  have sy : superm t ws ops ph y = true := by rw [← supermCond_run]; exact gy.2
  obtain ⟨_, hx0, hxp⟩ := Tree.mem_children.1 hx
  obtain ⟨_, hy0, hyp⟩ := Tree.mem_children.1 hy
  have hxpos : 0 < x := by omega
  have hypos : 0 < y := by omega
  have key : ∀ a b, 0 < a → 0 < b → t.parent a = B → t.parent b = B → a ∈ t.chain b → a = b := by
    intro a b ha hb hpa hpb hab
    by_cases he : a = b
    · exact he
    · exfalso
      rw [Tree.chain_pos h hb] at hab
      rcases List.mem_cons.1 hab with e | hab
      · exact he e
      · rw [hpb] at hab
        have h1 : B ∈ t.chain a := hpa ▸ Tree.parent_mem_chain h ha
        have := Tree.le_antisymm h hab h1
        have := Tree.parent_lt h ha
        omega
  rcases superm_comparable h h0 htol sx sy with hc | hc
  · exact key x y hxpos hypos hxp hyp hc
  · exact (key y x hypos hxpos hyp hxp hc).symm

/-- prevote GHOST, finalized block and estimate of the two rounds correspond -/
structure StateSim (t : Tree) (r : Round) (rc : RoundC) : Prop where
  ghost : rc.ghost = pr t r.ghost
  fin : rc.fin = pr t r.fin
  est : rc.est = pr t r.est

/-- `update` and `updateC` keep the correspondence (finalized and estimate through `FindAncestor`) -/
theorem sim_update (h : t.WF) (key : Nat → Nat) {ins : Ins} {r : Round} {rc : RoundC}
    (inv : GInv t ins rc.graph) (hcum : r.cum = cumOf t ins) (hcur : rc.cur = r.cur) (heqv : rc.eqv = r.eqv)
    (hs : StateSim t r rc) (hg : ∀ b, r.ghost = some b → b < t.size) :
    StateSim t (update t ws r) (updateC key t ws rc) := by
  unfold update updateC
  simp only [hcur, heqv]
  by_cases h1 : r.cur false < threshold (total ws)
  · simp only [h1, if_true]; exact hs
  · simp only [h1, if_false]
    cases hgh : r.ghost with
    | none =>
      have : rc.ghost = none := by rw [hs.ghost, hgh]; rfl
      simp only [this]; exact hs
    | some b =>
      have hrc : rc.ghost = some (b, t.num b) := by rw [hs.ghost, hgh]; rfl
      have hb := hg b hgh
      simp only [hrc]
      have hfa : ∀ cond, rc.graph.findAncestor key (t.size + 1) cond (t.size + 1) b (t.num b) =
          pr t (findAncestor t r.cum b cond) := by
        intro cond; rw [hcum]; exact findAncestor_refines h inv key cond b hb
      by_cases h2 : r.cur true ≥ threshold (total ws)
      · simp only [h2, if_true]
        refine ⟨?_, ?_, ?_⟩
        · rfl
        · simp only; exact hfa _
        · simp only; exact hfa _
      · simp only [h2, if_false]
        refine ⟨?_, ?_, ?_⟩
        · rfl
        · simp only; exact hs.fin
        · simp only; rfl

end Gossamer.C20

namespace Gossamer.C20

variable {t : Tree} {ws : List Nat}

/-- "update prevote-GHOST" keeps the correspondence (through `FindGHOST`) -/
theorem sim_ghostStep (h : t.WF) (key : Nat → Nat) (ph : Bool) {ins : Ins} {r : Round} {rc : RoundC}
    (inv : GInv t ins rc.graph) (hcum : r.cum = cumOf t ins) (hcur : rc.cur = r.cur) (heqv : rc.eqv = r.eqv)
    (hs : StateSim t r rc) (hu : UniqChild t r.cum (supermCond ws r.eqv false))
    (hmemo : ∀ b, r.ghost = some b → b < t.size ∧ supermCond ws r.eqv false (r.cum b) = true) :
    StateSim t (ghostStep t ws ph r) (ghostStepC key t ws ph rc) := by
  unfold ghostStep ghostStepC
  simp only [hcur]
  by_cases hc : ph = false ∧ r.cur false ≥ threshold (total ws)
  · simp only [hc, and_self, if_true]
    refine ⟨?_, hs.fin, hs.est⟩
    simp only
    rw [hs.ghost, heqv]
    have := findGhost_refines h inv key (supermCond_mono ws r.eqv false) (hcum ▸ hu) r.ghost
      (fun b hb => ⟨(hmemo b hb).1, fun _ => hcum ▸ (hmemo b hb).2⟩)
    rw [hcum]
    exact this
  · simp only [hc, if_false]; exact hs

/-- one effective import keeps the correspondence -/
theorem sim_step_core (h : t.WF) (h0 : 0 < total ws) (key : Nat → Nat) (ops : List Op) (o : Op)
    (hv' : ValidOps t (ops ++ [o])) (htol' : tolerant ws (ops ++ [o]) false = true)
    (r2 : Round) (rc2 : RoundC) (ins2 : Ins)
    (hr : run t ws (ops ++ [o]) = update t ws (ghostStep t ws o.ph r2))
    (hrc : runC key t ws (ops ++ [o]) = updateC key t ws (ghostStepC key t ws o.ph rc2))
    (inv : GInv t ins2 rc2.graph) (hcum : r2.cum = cumOf t ins2) (hcur : rc2.cur = r2.cur)
    (heqv : rc2.eqv = r2.eqv) (hs : StateSim t r2 rc2) (hgh : r2.ghost = (run t ws ops).ghost) :
    StateSim t (run t ws (ops ++ [o])) (runC key t ws (ops ++ [o])) := by
  obtain ⟨hv, _⟩ := validOps_append hv'
  have htol := tolerant_prefix ws ops o false htol'
  -- the bookkeeping of `r2` is the one of the new state
  obtain ⟨_, u2, u3, u4, u5, _⟩ := update_book t ws (ghostStep t ws o.ph r2)
  obtain ⟨_, g2, g3, g4⟩ := ghostStep_book t ws o.ph r2
  have hcum' : r2.cum = (run t ws (ops ++ [o])).cum := by rw [hr, u4, g4]
  have heqv' : r2.eqv = (run t ws (ops ++ [o])).eqv := by rw [hr, u3, g3]
  have hu : UniqChild t r2.cum (supermCond ws r2.eqv false) := by
    rw [hcum', heqv']; exact superm_uniqChild h h0 _ false htol'
  have hmemo : ∀ b, r2.ghost = some b → b < t.size ∧ supermCond ws r2.eqv false (r2.cum b) = true := by
    intro b hb
    rw [hgh] at hb
    have hg0 := ghost_run h h0 ops hv htol
    rw [hb] at hg0
    refine ⟨superm_lt_size h h0 htol hg0.1, ?_⟩
    rw [hcum', heqv', supermCond_run]
    exact superm_mono t ws ops o false b hg0.1
  have s1 := sim_ghostStep (ws := ws) h key o.ph inv hcum hcur heqv hs hu hmemo
  obtain ⟨_, c2, c3, c4⟩ := ghostStepC_book key t ws o.ph rc2
  have hg : ∀ b, (ghostStep t ws o.ph r2).ghost = some b → b < t.size := by
    intro b hb
    have hg1 := ghost_run h h0 (ops ++ [o]) hv' htol'
    rw [hr, u5, hb] at hg1
    exact superm_lt_size h h0 htol' hg1.1
  have s2 := sim_update (ws := ws) h key (ins := ins2) (r := ghostStep t ws o.ph r2)
    (rc := ghostStepC key t ws o.ph rc2) (by rw [c4]; exact inv) (by rw [g4]; exact hcum)
    (by rw [c2, g2]; exact hcur) (by rw [c3, g3]; exact heqv) s1 hg
  rw [hr, hrc]; exact s2

end Gossamer.C20

namespace Gossamer.C20

variable {t : Tree} {ws : List Nat}

/-- **the round on the compressed graph and the round of the model report the same prevote GHOST, finalized
block and estimate** after every valid, prevote-tolerant import history -/
theorem stateSim_run (h : t.WF) (h0 : 0 < total ws) (key : Nat → Nat) : ∀ ops, ValidOps t ops →
    tolerant ws ops false = true → StateSim t (run t ws ops) (runC key t ws ops) := by
  apply run_induction (fun ops r => ValidOps t ops → tolerant ws ops false = true →
    StateSim t r (runC key t ws ops))
  · intro _ _; exact ⟨rfl, rfl, rfl⟩
  · intro ops o ih hv' htol'
    obtain ⟨hv, hb⟩ := validOps_append hv'
    have s0 := ih hv (tolerant_prefix ws ops o false htol')
    have bs := bookSim_run key t ws ops
    have hinv0 : GInv t (insOf t ws ops) (runC key t ws ops).graph := by
      rw [bs.graph]; exact graphOf_inv h key _ bs.valid
    rw [← run_append]
    by_cases hvl : o.v < ws.length
    · have hvl' : ¬ o.v ≥ ws.length := by omega
      have hb' : ¬ o.sv.blk ≥ t.size := by omega
      have htrk : (runC key t ws ops).trk o.ph o.v = (run t ws ops).trk o.ph o.v := by rw [bs.trk]
      match hslot : (run t ws ops).trk o.ph o.v with
      | none =>
        apply sim_step_core h h0 key ops o hv' htol'
          { run t ws ops with
            trk := fun p u => if p = o.ph ∧ u = o.v then some (.single o.sv) else (run t ws ops).trk p u,
            cur := fun p => if p = o.ph then (run t ws ops).cur p + ws.getD o.v 0 else (run t ws ops).cur p,
            cum := insert t (run t ws ops).cum o.sv.blk (bitPos o.v (phN o.ph)) }
          { runC key t ws ops with
            trk := fun p u => if p = o.ph ∧ u = o.v then some (.single o.sv) else (runC key t ws ops).trk p u,
            cur := fun p => if p = o.ph then (runC key t ws ops).cur p + ws.getD o.v 0
                            else (runC key t ws ops).cur p,
            graph := (runC key t ws ops).graph.insert key t o.sv.blk (bitPos o.v (phN o.ph)) }
          (insOf t ws ops ++ [(o.sv.blk, bitPos o.v (phN o.ph))])
        · rw [run_append]; simp [step, importVote, hvl', hslot, addVote, hb']
        · rw [runC_append]; simp [stepC, importVoteC, hvl', htrk, hslot, addVote, hb']
        · exact insert_inv h hinv0 key _ _ hb
        · simp only; rw [cumOf_append, bs.cum]
        · simp only; rw [bs.cur]
        · exact bs.eqv
        · exact ⟨s0.ghost, s0.fin, s0.est⟩
        · rfl
      | some (.single a) =>
        by_cases heq : a = o.sv
        · have e1 : run t ws (ops ++ [o]) = run t ws ops := by
            rw [run_append]; simp [step, importVote, hvl', hslot, addVote, heq]
          have e2 : runC key t ws (ops ++ [o]) = runC key t ws ops := by
            rw [runC_append]; simp [stepC, importVoteC, hvl', htrk, hslot, addVote, heq]
          rw [e1, e2]; exact s0
        · apply sim_step_core h h0 key ops o hv' htol'
            { run t ws ops with
              trk := fun p u => if p = o.ph ∧ u = o.v then some (.equiv a o.sv) else (run t ws ops).trk p u,
              eqv := setBit (run t ws ops).eqv (bitPos o.v (phN o.ph)) }
            { runC key t ws ops with
              trk := fun p u => if p = o.ph ∧ u = o.v then some (.equiv a o.sv)
                                else (runC key t ws ops).trk p u,
              eqv := setBit (runC key t ws ops).eqv (bitPos o.v (phN o.ph)) }
            (insOf t ws ops)
          · rw [run_append]; simp [step, importVote, hvl', hslot, addVote, heq]
          · rw [runC_append]; simp [stepC, importVoteC, hvl', htrk, hslot, addVote, heq]
          · exact hinv0
          · exact bs.cum
          · exact bs.cur
          · simp only; rw [bs.eqv]
          · exact ⟨s0.ghost, s0.fin, s0.est⟩
          · rfl
      | some (.equiv a b) =>
        have e1 : run t ws (ops ++ [o]) = run t ws ops := by
          rw [run_append]
          by_cases heq : a = o.sv ∨ b = o.sv
          · simp [step, importVote, hvl', hslot, addVote, heq]
          · simp [step, importVote, hvl', hslot, addVote, heq]
        have e2 : runC key t ws (ops ++ [o]) = runC key t ws ops := by
          rw [runC_append]
          by_cases heq : a = o.sv ∨ b = o.sv
          · simp [stepC, importVoteC, hvl', htrk, hslot, addVote, heq]
          · simp [stepC, importVoteC, hvl', htrk, hslot, addVote, heq]
        rw [e1, e2]; exact s0
    · have e1 : run t ws (ops ++ [o]) = run t ws ops := by
        rw [run_append]; unfold step; exact importVote_notVoter t ws _ o.ph o.v o.sv hvl
      have e2 : runC key t ws (ops ++ [o]) = runC key t ws ops := by
        rw [runC_append]; unfold stepC; exact importVoteC_notVoter key t ws _ o.ph o.v o.sv hvl
      rw [e1, e2]; exact s0

end Gossamer.C20
