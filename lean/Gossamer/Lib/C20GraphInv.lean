/-
C20 layer (b), proofs: the abstract content of a compressed vote graph (the list of inserted votes) and the
representation invariant that ties the entry map to it.
-/
import Gossamer.Lib.C20GraphEdge
namespace Gossamer.C20

variable {t : Tree}

/-- the history of inserts: (target block, bit position) -/
abbrev Ins := List (Nat × Nat)

/-- the blocks that have a vote-node: the base and every vote target -/
def isNode (ins : Ins) (b : Nat) : Bool := b == 0 || ins.any (fun p => p.1 == b)

/-- the cumulative vote masks of the UNCOMPRESSED graph after the same inserts (`Model.insert`) -/
def cumOf (t : Tree) (ins : Ins) : Nat → Mask := ins.foldl (fun c p => insert t c p.1 p.2) (fun _ => 0)

theorem isNode_zero (ins : Ins) : isNode ins 0 = true := by simp [isNode]

theorem isNode_append (ins : Ins) (p : Nat × Nat) (b : Nat) :
    isNode (ins ++ [p]) b = (isNode ins b || p.1 == b) := by
  simp [isNode, List.any_append, Bool.or_assoc]

theorem cumOf_append (t : Tree) (ins : Ins) (p : Nat × Nat) :
    cumOf t (ins ++ [p]) = insert t (cumOf t ins) p.1 p.2 := by
  simp [cumOf, List.foldl_append]

/-- **representation invariant** of the compressed vote graph w.r.t. the insert history -/
structure GInv (t : Tree) (ins : Ins) (g : Graph) : Prop where
  /-- there is an entry exactly for the base and the vote targets -/
  nodes : ∀ b, (g.entries b).isSome = isNode ins b
  /-- the stored number is the block number -/
  number : ∀ b e, g.entries b = some e → e.number = t.num b
  /-- the ancestor array is the chain from the parent up to and including the nearest vote-node above -/
  anc : ∀ b e, g.entries b = some e → e.ancestors = edge t (isNode ins) b
  /-- the cumulative vote is the uncompressed cumulative vote of the block -/
  cum : ∀ b e, g.entries b = some e → e.cum = cumOf t ins b
  descNodup : ∀ b e, g.entries b = some e → e.descendants.Nodup
  /-- the descendants are the vote-nodes whose nearest vote-node above is this one -/
  desc : ∀ b e, g.entries b = some e → ∀ d, d ∈ e.descendants ↔
    (isNode ins d = true ∧ ancNode t (isNode ins) d = some b)
  /-- the heads are the vote-nodes without descendants -/
  heads : ∀ x, x ∈ g.heads ↔
    (isNode ins x = true ∧ ∀ d, isNode ins d = true → ancNode t (isNode ins) d ≠ some x)
  valid : ∀ p, p ∈ ins → p.1 < t.size

theorem GInv.node_lt (h : t.WF) {ins : Ins} {g : Graph} (inv : GInv t ins g) {b : Nat}
    (hb : isNode ins b = true) : b < t.size := by
  unfold isNode at hb
  rcases Bool.or_eq_true_iff.1 hb with h0 | h1
  · have : b = 0 := by simpa using h0
    subst this; exact h.1
  · obtain ⟨p, hp, hpb⟩ := List.any_eq_true.1 h1
    have : p.1 = b := by simpa using hpb
    rw [← this]; exact inv.valid p hp

theorem GInv.entry_of_node {ins : Ins} {g : Graph} (inv : GInv t ins g) {b : Nat}
    (hb : isNode ins b = true) : ∃ e, g.entries b = some e := by
  have := inv.nodes b
  rw [hb] at this
  exact Option.isSome_iff_exists.1 this

theorem GInv.node_of_entry {ins : Ins} {g : Graph} (inv : GInv t ins g) {b : Nat} {e : Entry}
    (hb : g.entries b = some e) : isNode ins b = true := by
  have := inv.nodes b
  rw [hb] at this
  exact this.symm

/-- `ancestorNode()` of a canonical entry is the nearest vote-node above -/
theorem GInv.ancestorNode_eq {ins : Ins} {g : Graph} (inv : GInv t ins g) {b : Nat} {e : Entry}
    (hb : g.entries b = some e) : e.ancestorNode = ancNode t (isNode ins) b := by
  unfold Entry.ancestorNode ancNode
  rw [inv.anc b e hb]

/-- a vote-node strictly above `b` on its chain is at or above the nearest vote-node above `b` -/
theorem node_above (h : t.WF) {N : Nat → Bool} (h0 : N 0 = true) {b a x : Nat} (ha : ancNode t N b = some a)
    (hx : x ∈ t.chain b) (hN : N x = true) (hne : x ≠ b) : x ∈ t.chain a := by
  have hb : 0 < b := by
    rcases Nat.eq_zero_or_pos b with hz | hz
    · subst hz; simp [ancNode, edge_zero] at ha
    · exact hz
  obtain ⟨pre, l, e, _, hpre⟩ := edge_shape h h0 hb
  have hae : a ∈ edge t N b := by
    unfold ancNode at ha
    exact List.mem_of_getLast? ha
  have hac : a ∈ t.chain b := edge_mem_chain h hae
  rcases Tree.comparable h hx hac with hxa | hax
  · exact hxa
  · by_cases hxa : x = a
    · subst hxa; exact t.mem_chain_self x
    · exfalso
      -- x lies strictly between b and a, hence inside the edge before its last element
      have hlen := edge_length h ha
      have n1 := Tree.num_lt_of_mem h hx hne
      have n2 := Tree.num_lt_of_mem h hax (fun e => hxa e.symm)
      obtain ⟨j, hj⟩ := List.getElem?_of_mem hx
      have nj := Tree.num_getElem h hj
      have hjl' : j - 1 < (edge t N b).length := by omega
      have hel : (edge t N b)[j - 1]? = some ((edge t N b)[j - 1]) := List.getElem?_eq_getElem hjl'
      have hc := edge_getElem h hel
      have hjj : j - 1 + 1 = j := by omega
      rw [hjj, hj] at hc
      have hxe : (edge t N b)[j - 1]? = some x := by rw [hel, ← hc]
      have hpl : pre.length + 1 = (edge t N b).length := by rw [e]; simp
      have : x ∈ pre := by
        rw [e, List.getElem?_append_left (by omega)] at hxe
        exact List.mem_of_getElem? hxe
      rw [hpre x this] at hN; cases hN

end Gossamer.C20
