/-
C33: the step counter of the SCALE walk is linear in the bytes the walk consumes.

`minSize t`  : every successful decode at `t` consumes at least this many bytes;
`seqOk t`    : every sequence element type inside `t` has `minSize ≥ 1` (a sequence of zero-size
               elements would loop for its declared count without consuming anything);
`sA t, sB t` : the bound  steps ≤ sA t * consumed + sB t  (success)  /  sA t * |input| + sB t (failure).
-/
import Gossamer.Model.C33
import Gossamer.Lib.C33Scale
namespace Gossamer.C33
open Gossamer Gossamer.Scale

def minSizeK : PKind → Nat
  | .uint w => w
  | .sint w => w
  | .compact _ => 1
  | .bool => 1
  | .bytes => 1

def minSize : Ty → Nat
  | .prim p => minSizeK p.kind
  | .unit => 0
  | .pair a b => minSize a + minSize b
  | .option _ => 1
  | .result _ _ => 1
  | .array n t => n * minSize t
  | .seq _ => 1
  | .enumNil => 1
  | .enumCons _ _ _ => 1

def seqOk : Ty → Bool
  | .prim _ => true
  | .unit => true
  | .pair a b => seqOk a && seqOk b
  | .option t => seqOk t
  | .result a b => seqOk a && seqOk b
  | .array _ t => seqOk t
  | .seq t => decide (1 ≤ minSize t) && seqOk t
  | .enumNil => true
  | .enumCons _ t rest => seqOk t && seqOk rest

def sB : Ty → Nat
  | .prim _ => 1
  | .unit => 1
  | .pair a b => 1 + sB a + sB b
  | .option t => 1 + sB t
  | .result a b => 1 + max (sB a) (sB b)
  | .array n t => 1 + n * sB t
  | .seq t => 1 + sB t
  | .enumNil => 1
  | .enumCons _ t rest => max (1 + sB t) (sB rest)

def sA : Ty → Nat
  | .prim _ => 0
  | .unit => 0
  | .pair a b => max (sA a) (sA b)
  | .option t => sA t
  | .result a b => max (sA a) (sA b)
  | .array _ t => sA t
  | .seq t => sA t + sB t
  | .enumNil => 0
  | .enumCons _ t rest => max (sA t) (sA rest)

/-! ## consumption of the primitives -/

theorem readFull_consume (k : Nat) (bs buf r : Bytes) (h : C11.readFull k bs = some (buf, r)) :
    bs.length = k + r.length := by
  unfold C11.readFull at h
  split at h
  · cases h
  · simp only [Option.some.injEq, Prod.mk.injEq] at h
    rw [← h.2, List.length_drop]; omega

theorem decFixed_consume (w : Nat) (s : Bool) (bs : Bytes) (v : Val) (r : Bytes)
    (h : (C11.decFixed w s bs).res = some (v, r)) : bs.length = w + r.length := by
  unfold C11.decFixed at h
  cases hr : C11.readFull w bs with
  | none => simp [hr, C11.PRes.fail] at h
  | some p =>
    obtain ⟨buf, r'⟩ := p
    simp only [hr, C11.PRes.ok, Option.some.injEq, Prod.mk.injEq] at h
    rw [← h.2]; exact readFull_consume w bs buf r' hr

theorem decBig_consume (bs : Bytes) (n : Nat) (r : Bytes) (h : C11.decBigV bs = some (n, r)) :
    r.length < bs.length := by
  rw [C11.decBigV_spec] at h
  have hs := (compactDec_sound h).2
  have hne := compactEnc_ne_nil n
  rw [hs, List.length_append]
  have : 0 < (compactEnc n).length := List.length_pos_iff.2 hne
  omega

theorem decBytes_consume (bs : Bytes) (v : Val) (r : Bytes) (h : (C11.decBytes bs).res = some (v, r)) :
    r.length < bs.length := by
  unfold C11.decBytes at h
  simp only at h
  cases hd : C11.decodeUintV bs with
  | none => simp [hd, C11.PRes.fail] at h
  | some q =>
    obtain ⟨len, r0⟩ := q
    have hlt := C12.decodeUintV_suffix bs len r0 hd
    simp only [hd] at h
    split at h
    · simp [C11.PRes.fail] at h
    · split at h
      · simp only [C11.PRes.ok, Option.some.injEq, Prod.mk.injEq] at h
        rw [← h.2]; exact hlt
      · split at h
        · simp [C11.PRes.fail] at h
        · simp only [C11.PRes.ok, Option.some.injEq, Prod.mk.injEq] at h
          rw [← h.2, List.length_drop]; omega

/-- a successful primitive decode consumed at least `minSize` bytes -/
theorem prim_consume (p : Prim) (bs : Bytes) (v : Val) (r : Bytes)
    (h : (C11.decPA p bs).res = some (v, r)) : r.length + minSizeK p.kind ≤ bs.length := by
  cases p <;> simp only [C11.decPA] at h <;> simp only [Prim.kind, minSizeK]
  case u8 => have := decFixed_consume _ _ _ _ _ h; omega
  case u16 => have := decFixed_consume _ _ _ _ _ h; omega
  case u32 => have := decFixed_consume _ _ _ _ _ h; omega
  case u64 => have := decFixed_consume _ _ _ _ _ h; omega
  case u128 => have := decFixed_consume _ _ _ _ _ h; omega
  case i8 => have := decFixed_consume _ _ _ _ _ h; omega
  case i16 => have := decFixed_consume _ _ _ _ _ h; omega
  case i32 => have := decFixed_consume _ _ _ _ _ h; omega
  case i64 => have := decFixed_consume _ _ _ _ _ h; omega
  case compact =>
    unfold C11.decCompact at h
    cases hd : C11.decodeUintV bs with
    | none => simp [hd, C11.PRes.fail] at h
    | some q =>
      obtain ⟨n, r0⟩ := q
      simp only [hd, C11.PRes.ok, Option.some.injEq, Prod.mk.injEq] at h
      have := C12.decodeUintV_suffix bs n r0 hd
      rw [← h.2]; omega
  case big =>
    unfold C11.decBig at h
    cases hd : C11.decBigV bs with
    | none => simp [hd, C11.PRes.fail] at h
    | some q =>
      obtain ⟨n, r0⟩ := q
      simp only [hd, C11.PRes.ok, Option.some.injEq, Prod.mk.injEq] at h
      have := decBig_consume bs n r0 hd
      rw [← h.2]; omega
  case bool =>
    unfold C11.decBool at h
    cases bs with
    | nil => simp [C11.PRes.fail] at h
    | cons b r0 =>
      simp only at h
      split at h
      · simp only [C11.PRes.ok, Option.some.injEq, Prod.mk.injEq] at h; rw [← h.2]; simp
      · split at h
        · simp only [C11.PRes.ok, Option.some.injEq, Prod.mk.injEq] at h; rw [← h.2]; simp
        · simp [C11.PRes.fail] at h
  case bytes => have := decBytes_consume bs v r h; omega
  case str => have := decBytes_consume bs v r h; omega

/-! ## runs of items -/

/-- element facts: success consumes `c ≥ m` bytes within `A*c + B` steps, failure costs at most
    `A*|input| + B` -/
structure ElemOk (d : Bytes → Option (Val × Bytes)) (cst : Bytes → Cost) (m A B : Nat) : Prop where
  succ : ∀ bs v r, d bs = some (v, r) →
    ∃ c, bs.length = c + r.length ∧ m ≤ c ∧ (cst bs).steps ≤ A * c + B
  fail : ∀ bs, d bs = none → (cst bs).steps ≤ A * bs.length + B

/-- an array: `n` is a constant of the type -/
theorem costN_array {d : Bytes → Option (Val × Bytes)} {cst : Bytes → Cost} {m A B : Nat}
    (E : ElemOk d cst m A B) : ∀ (n : Nat) (bs : Bytes),
    (∀ vs r, decN d n bs = some (vs, r) →
      ∃ c, bs.length = c + r.length ∧ n * m ≤ c ∧ (costN d cst n bs).steps ≤ A * c + n * B) ∧
    (decN d n bs = none → (costN d cst n bs).steps ≤ A * bs.length + n * B) := by
  intro n
  induction n with
  | zero =>
    intro bs
    refine ⟨?_, by simp [decN]⟩
    intro vs r h
    simp only [decN, Option.some.injEq, Prod.mk.injEq] at h
    exact ⟨0, by rw [h.2]; simp, by simp, by simp [costN]⟩
  | succ n ih =>
    intro bs
    cases hd : d bs with
    | none =>
      refine ⟨by intro vs r h; simp [decN, hd] at h, ?_⟩
      intro _
      have := E.fail bs hd
      simp only [costN, hd]
      have e : (n + 1) * B = n * B + B := Nat.succ_mul n B
      omega
    | some p =>
      obtain ⟨v, r1⟩ := p
      obtain ⟨c1, hc1, hm1, hs1⟩ := E.succ bs v r1 hd
      have ⟨ihS, ihF⟩ := ih r1
      have e : (n + 1) * B = n * B + B := Nat.succ_mul n B
      simp only [costN, hd, Cost.add]
      constructor
      · intro vs r h
        simp only [decN, hd] at h
        cases hn : decN d n r1 with
        | none => simp [hn] at h
        | some q =>
          obtain ⟨ws, r2⟩ := q
          simp only [hn, Option.some.injEq, Prod.mk.injEq] at h
          obtain ⟨c2, hc2, hm2, hs2⟩ := ihS ws r2 hn
          refine ⟨c1 + c2, by rw [← h.2]; omega, ?_, ?_⟩
          · have : (n + 1) * m = n * m + m := Nat.succ_mul n m
            omega
          · have : A * (c1 + c2) = A * c1 + A * c2 := Nat.mul_add A c1 c2
            omega
      · intro h
        simp only [decN, hd] at h
        have hn : decN d n r1 = none := by
          cases hn : decN d n r1 with
          | none => rfl
          | some q => simp [hn] at h
        have := ihF hn
        have : A * bs.length = A * c1 + A * r1.length := by rw [hc1, Nat.mul_add]
        omega

/-- a sequence whose elements consume at least one byte -/
theorem costN_seq {d : Bytes → Option (Val × Bytes)} {cst : Bytes → Cost} {m A B : Nat}
    (E : ElemOk d cst m A B) (hm : 1 ≤ m) : ∀ (n : Nat) (bs : Bytes),
    (∀ vs r, decN d n bs = some (vs, r) →
      ∃ c, bs.length = c + r.length ∧ (costN d cst n bs).steps ≤ (A + B) * c) ∧
    (decN d n bs = none → (costN d cst n bs).steps ≤ (A + B) * bs.length + B) := by
  intro n
  induction n with
  | zero =>
    intro bs
    refine ⟨?_, by simp [decN]⟩
    intro vs r h
    simp only [decN, Option.some.injEq, Prod.mk.injEq] at h
    exact ⟨0, by rw [h.2]; simp, by simp [costN]⟩
  | succ n ih =>
    intro bs
    cases hd : d bs with
    | none =>
      refine ⟨by intro vs r h; simp [decN, hd] at h, ?_⟩
      intro _
      have := E.fail bs hd
      simp only [costN, hd]
      have : (A + B) * bs.length = A * bs.length + B * bs.length := Nat.add_mul A B _
      omega
    | some p =>
      obtain ⟨v, r1⟩ := p
      obtain ⟨c1, hc1, hm1, hs1⟩ := E.succ bs v r1 hd
      have ⟨ihS, ihF⟩ := ih r1
      have hB : B ≤ B * c1 := Nat.le_mul_of_pos_right B (by omega)
      have e1 : (A + B) * c1 = A * c1 + B * c1 := Nat.add_mul A B c1
      simp only [costN, hd, Cost.add]
      constructor
      · intro vs r h
        simp only [decN, hd] at h
        cases hn : decN d n r1 with
        | none => simp [hn] at h
        | some q =>
          obtain ⟨ws, r2⟩ := q
          simp only [hn, Option.some.injEq, Prod.mk.injEq] at h
          obtain ⟨c2, hc2, hs2⟩ := ihS ws r2 hn
          refine ⟨c1 + c2, by rw [← h.2]; omega, ?_⟩
          have : (A + B) * (c1 + c2) = (A + B) * c1 + (A + B) * c2 := Nat.mul_add _ c1 c2
          omega
      · intro h
        simp only [decN, hd] at h
        have hn : decN d n r1 = none := by
          cases hn : decN d n r1 with
          | none => rfl
          | some q => simp [hn] at h
        have := ihF hn
        have : (A + B) * bs.length = (A + B) * c1 + (A + B) * r1.length := by rw [hc1, Nat.mul_add]
        omega

/-! ## the walk -/

theorem sB_pos (t : Ty) : 1 ≤ sB t := by
  cases t <;> simp only [sB] <;> omega

theorem minSize_enum {t : Ty} (h : t.isEnum = true) : minSize t = 1 := by
  cases t <;> simp [Ty.isEnum] at h <;> rfl

theorem mul_le_max_left (a b c : Nat) : a * c ≤ max a b * c := Nat.mul_le_mul_right c (Nat.le_max_left a b)
theorem mul_le_max_right (a b c : Nat) : b * c ≤ max a b * c := Nat.mul_le_mul_right c (Nat.le_max_right a b)

/-- **steps are linear in the consumed bytes**, for every type whose sequences have elements of
    at least one byte -/
theorem steps_ok (t : Ty) : t.wf = true → seqOk t = true →
    ElemOk (Scale.decode C11.codec t) (cost t) (minSize t) (sA t) (sB t) := by
  induction t with
  | prim p =>
    intro _ _
    constructor
    · intro bs v r h
      have hc := prim_consume p bs v r h
      exact ⟨bs.length - r.length, by omega, by simp only [minSize]; omega, by simp [cost, sA, sB]⟩
    · intro bs _; simp [cost, sA, sB]
  | unit =>
    intro _ _
    constructor
    · intro bs v r h
      simp only [Scale.decode, Option.some.injEq, Prod.mk.injEq] at h
      exact ⟨0, by rw [h.2]; simp, by simp [minSize], by simp [cost, sA, sB]⟩
    · intro bs h; simp [Scale.decode] at h
  | pair a b iha ihb =>
    intro hwf hs
    simp only [Ty.wf, Bool.and_eq_true] at hwf
    simp only [seqOk, Bool.and_eq_true] at hs
    have Ea := iha hwf.1 hs.1
    have Eb := ihb hwf.2 hs.2
    constructor
    · intro bs v r h
      simp only [Scale.decode] at h
      cases ha : Scale.decode C11.codec a bs with
      | none => simp [ha] at h
      | some p =>
        obtain ⟨x, r1⟩ := p
        simp only [ha] at h
        cases hb : Scale.decode C11.codec b r1 with
        | none => simp [hb] at h
        | some q =>
          obtain ⟨y, r2⟩ := q
          simp only [hb, Option.some.injEq, Prod.mk.injEq] at h
          obtain ⟨c1, hc1, hm1, hs1⟩ := Ea.succ bs x r1 ha
          obtain ⟨c2, hc2, hm2, hs2⟩ := Eb.succ r1 y r2 hb
          refine ⟨c1 + c2, by rw [← h.2]; omega, by simp only [minSize]; omega, ?_⟩
          simp only [cost, ha, Cost.add, sA, sB]
          have e := Nat.mul_add (max (sA a) (sA b)) c1 c2
          have l1 := mul_le_max_left (sA a) (sA b) c1
          have l2 := mul_le_max_right (sA a) (sA b) c2
          omega
    · intro bs h
      simp only [Scale.decode] at h
      cases ha : Scale.decode C11.codec a bs with
      | none =>
        have := Ea.fail bs ha
        simp only [cost, ha, Cost.add, sA, sB]
        have l1 := mul_le_max_left (sA a) (sA b) bs.length
        omega
      | some p =>
        obtain ⟨x, r1⟩ := p
        simp only [ha] at h
        have hb : Scale.decode C11.codec b r1 = none := by
          cases hb : Scale.decode C11.codec b r1 with
          | none => rfl
          | some q => simp [hb] at h
        obtain ⟨c1, hc1, hm1, hs1⟩ := Ea.succ bs x r1 ha
        have := Eb.fail r1 hb
        simp only [cost, ha, Cost.add, sA, sB]
        have e : max (sA a) (sA b) * bs.length = max (sA a) (sA b) * c1 + max (sA a) (sA b) * r1.length := by
          rw [hc1, Nat.mul_add]
        have l1 := mul_le_max_left (sA a) (sA b) c1
        have l2 := mul_le_max_right (sA a) (sA b) r1.length
        omega
  | option t ih =>
    intro hwf hs
    have E := ih (by simpa [Ty.wf] using hwf) (by simpa [seqOk] using hs)
    constructor
    · intro bs v r h
      cases bs with
      | nil => simp [Scale.decode] at h
      | cons tag r0 =>
        simp only [Scale.decode] at h
        by_cases h0 : tag = 0
        · simp only [h0, if_true, Option.some.injEq, Prod.mk.injEq] at h
          refine ⟨1, by rw [← h.2]; simp; omega, by simp [minSize], ?_⟩
          subst h0
          simp only [cost, sA, sB]
          have : (0 : UInt8) ≠ 1 := by decide
          simp only [this, if_false]; omega
        · by_cases h1 : tag = 1
          · subst h1
            simp only [h0, if_false, if_true] at h
            cases hd : Scale.decode C11.codec t r0 with
            | none => simp [hd] at h
            | some p =>
              obtain ⟨x, r1⟩ := p
              simp only [hd, Option.some.injEq, Prod.mk.injEq] at h
              obtain ⟨c, hc, _, hst⟩ := E.succ r0 x r1 hd
              refine ⟨1 + c, by rw [← h.2]; simp; omega, by simp only [minSize]; omega, ?_⟩
              simp only [cost, if_true, Cost.add, sA, sB]
              have e : sA t * (1 + c) = sA t + sA t * c := by rw [Nat.mul_add, Nat.mul_one]
              omega
          · simp [h0, h1] at h
    · intro bs h
      cases bs with
      | nil => simp [cost, sA, sB]
      | cons tag r0 =>
        simp only [Scale.decode] at h
        by_cases h1 : tag = 1
        · subst h1
          have h0 : ¬ ((1 : UInt8) = 0) := by decide
          simp only [h0, if_false, if_true] at h
          have hd : Scale.decode C11.codec t r0 = none := by
            cases hd : Scale.decode C11.codec t r0 with
            | none => rfl
            | some p => simp [hd] at h
          have := E.fail r0 hd
          simp only [cost, if_true, Cost.add, sA, sB, List.length_cons]
          have e : sA t * (r0.length + 1) = sA t * r0.length + sA t := by rw [Nat.mul_add, Nat.mul_one]
          omega
        · simp only [cost, h1, if_false, sA, sB]; omega
  | result a b iha ihb =>
    intro hwf hs
    simp only [Ty.wf, Bool.and_eq_true] at hwf
    simp only [seqOk, Bool.and_eq_true] at hs
    have Ea := iha hwf.1 hs.1
    have Eb := ihb hwf.2 hs.2
    constructor
    · intro bs v r h
      cases bs with
      | nil => simp [Scale.decode] at h
      | cons tag r0 =>
        simp only [Scale.decode] at h
        by_cases h0 : tag = 0
        · subst h0
          simp only [if_true] at h
          cases hd : Scale.decode C11.codec a r0 with
          | none => simp [hd] at h
          | some p =>
            obtain ⟨x, r1⟩ := p
            simp only [hd, Option.some.injEq, Prod.mk.injEq] at h
            obtain ⟨c, hc, _, hst⟩ := Ea.succ r0 x r1 hd
            refine ⟨1 + c, by rw [← h.2]; simp; omega, by simp only [minSize]; omega, ?_⟩
            simp only [cost, if_true, Cost.add, sA, sB]
            have e : max (sA a) (sA b) * (1 + c) = max (sA a) (sA b) + max (sA a) (sA b) * c := by
              rw [Nat.mul_add, Nat.mul_one]
            have l1 := mul_le_max_left (sA a) (sA b) c
            have := Nat.le_max_left (sB a) (sB b)
            omega
        · by_cases h1 : tag = 1
          · subst h1
            simp only [h0, if_false, if_true] at h
            cases hd : Scale.decode C11.codec b r0 with
            | none => simp [hd] at h
            | some p =>
              obtain ⟨x, r1⟩ := p
              simp only [hd, Option.some.injEq, Prod.mk.injEq] at h
              obtain ⟨c, hc, _, hst⟩ := Eb.succ r0 x r1 hd
              refine ⟨1 + c, by rw [← h.2]; simp; omega, by simp only [minSize]; omega, ?_⟩
              simp only [cost, h0, if_false, if_true, Cost.add, sA, sB]
              have e : max (sA a) (sA b) * (1 + c) = max (sA a) (sA b) + max (sA a) (sA b) * c := by
                rw [Nat.mul_add, Nat.mul_one]
              have l1 := mul_le_max_right (sA a) (sA b) c
              have := Nat.le_max_right (sB a) (sB b)
              omega
          · simp [h0, h1] at h
    · intro bs h
      cases bs with
      | nil => simp only [cost, sA, sB]; omega
      | cons tag r0 =>
        simp only [Scale.decode] at h
        have e : max (sA a) (sA b) * (r0.length + 1) = max (sA a) (sA b) * r0.length + max (sA a) (sA b) := by
          rw [Nat.mul_add, Nat.mul_one]
        by_cases h0 : tag = 0
        · subst h0
          simp only [if_true] at h
          have hd : Scale.decode C11.codec a r0 = none := by
            cases hd : Scale.decode C11.codec a r0 with
            | none => rfl
            | some p => simp [hd] at h
          have := Ea.fail r0 hd
          simp only [cost, if_true, Cost.add, sA, sB, List.length_cons]
          have l1 := mul_le_max_left (sA a) (sA b) r0.length
          have := Nat.le_max_left (sB a) (sB b)
          omega
        · by_cases h1 : tag = 1
          · subst h1
            simp only [h0, if_false, if_true] at h
            have hd : Scale.decode C11.codec b r0 = none := by
              cases hd : Scale.decode C11.codec b r0 with
              | none => rfl
              | some p => simp [hd] at h
            have := Eb.fail r0 hd
            simp only [cost, h0, if_false, if_true, Cost.add, sA, sB, List.length_cons]
            have l1 := mul_le_max_right (sA a) (sA b) r0.length
            have := Nat.le_max_right (sB a) (sB b)
            omega
          · simp only [cost, h0, h1, if_false, sA, sB]; omega
  | array n t ih =>
    intro hwf hs
    have E := ih (by simpa [Ty.wf] using hwf) (by simpa [seqOk] using hs)
    constructor
    · intro bs v r h
      simp only [Scale.decode] at h
      cases hd : decN (Scale.decode C11.codec t) n bs with
      | none => simp [hd] at h
      | some p =>
        obtain ⟨vs, r1⟩ := p
        simp only [hd, Option.some.injEq, Prod.mk.injEq] at h
        obtain ⟨c, hc, hm, hst⟩ := (costN_array E n bs).1 vs r1 hd
        refine ⟨c, by rw [← h.2]; exact hc, by simp only [minSize]; exact hm, ?_⟩
        simp only [cost, Cost.add, sA, sB]; omega
    · intro bs h
      simp only [Scale.decode] at h
      have hd : decN (Scale.decode C11.codec t) n bs = none := by
        cases hd : decN (Scale.decode C11.codec t) n bs with
        | none => rfl
        | some p => simp [hd] at h
      have := (costN_array E n bs).2 hd
      simp only [cost, Cost.add, sA, sB]; omega
  | seq t ih =>
    intro hwf hs
    simp only [seqOk, Bool.and_eq_true, decide_eq_true_eq] at hs
    have E := ih (by simpa [Ty.wf] using hwf) hs.2
    have hdl : ∀ bs, C11.codec.decLen bs = C11.decodeUintV bs := fun _ => rfl
    constructor
    · intro bs v r h
      simp only [Scale.decode, hdl] at h
      cases hl : C11.decodeUintV bs with
      | none => simp [hl] at h
      | some q =>
        obtain ⟨n, r0⟩ := q
        have hlt := C12.decodeUintV_suffix bs n r0 hl
        simp only [hl] at h
        cases hd : decN (Scale.decode C11.codec t) n r0 with
        | none => simp [hd] at h
        | some p =>
          obtain ⟨vs, r1⟩ := p
          simp only [hd, Option.some.injEq, Prod.mk.injEq] at h
          obtain ⟨c, hc, hst⟩ := (costN_seq E hs.1 n r0).1 vs r1 hd
          refine ⟨bs.length - r1.length, by rw [← h.2]; omega, by simp only [minSize]; omega, ?_⟩
          simp only [cost, hl, Cost.add, sA, sB]
          have hle : c ≤ bs.length - r1.length := by omega
          have := Nat.mul_le_mul_left (sA t + sB t) hle
          omega
    · intro bs h
      simp only [Scale.decode, hdl] at h
      cases hl : C11.decodeUintV bs with
      | none => simp only [cost, hl, sA, sB]; omega
      | some q =>
        obtain ⟨n, r0⟩ := q
        have hlt := C12.decodeUintV_suffix bs n r0 hl
        simp only [hl] at h
        have hd : decN (Scale.decode C11.codec t) n r0 = none := by
          cases hd : decN (Scale.decode C11.codec t) n r0 with
          | none => rfl
          | some p => simp [hd] at h
        have := (costN_seq E hs.1 n r0).2 hd
        simp only [cost, hl, Cost.add, sA, sB]
        have hle : r0.length ≤ bs.length := by omega
        have := Nat.mul_le_mul_left (sA t + sB t) hle
        omega
  | enumNil =>
    intro _ _
    constructor
    · intro bs v r h; simp [Scale.decode] at h
    · intro bs _; simp [cost, sA, sB]
  | enumCons i t rest iht ihr =>
    intro hwf hs
    simp only [Ty.wf, Bool.and_eq_true] at hwf
    simp only [seqOk, Bool.and_eq_true] at hs
    have Et := iht hwf.1.1 hs.1
    have Er := ihr hwf.2 hs.2
    have hmr := minSize_enum hwf.1.2
    constructor
    · intro bs v r h
      cases bs with
      | nil => simp [Scale.decode] at h
      | cons tag r0 =>
        simp only [Scale.decode] at h
        by_cases ht : tag.toNat = i
        · simp only [ht, if_true] at h
          cases hd : Scale.decode C11.codec t r0 with
          | none => simp [hd] at h
          | some p =>
            obtain ⟨x, r1⟩ := p
            simp only [hd, Option.some.injEq, Prod.mk.injEq] at h
            obtain ⟨c, hc, _, hst⟩ := Et.succ r0 x r1 hd
            refine ⟨1 + c, by rw [← h.2]; simp; omega, by simp only [minSize]; omega, ?_⟩
            simp only [cost, ht, if_true, Cost.add, sA, sB]
            have e : max (sA t) (sA rest) * (1 + c) = max (sA t) (sA rest) + max (sA t) (sA rest) * c := by
              rw [Nat.mul_add, Nat.mul_one]
            have l1 := mul_le_max_left (sA t) (sA rest) c
            have := Nat.le_max_left (1 + sB t) (sB rest)
            omega
        · simp only [ht, if_false] at h
          obtain ⟨c, hc, hm, hst⟩ := Er.succ (tag :: r0) v r h
          refine ⟨c, hc, by simp only [minSize]; omega, ?_⟩
          simp only [cost, ht, if_false, sA, sB]
          have l1 := mul_le_max_right (sA t) (sA rest) c
          have := Nat.le_max_right (1 + sB t) (sB rest)
          omega
    · intro bs h
      cases bs with
      | nil =>
        simp only [cost, sA, sB]
        have := Nat.le_max_left (1 + sB t) (sB rest)
        omega
      | cons tag r0 =>
        simp only [Scale.decode] at h
        by_cases ht : tag.toNat = i
        · simp only [ht, if_true] at h
          have hd : Scale.decode C11.codec t r0 = none := by
            cases hd : Scale.decode C11.codec t r0 with
            | none => rfl
            | some p => simp [hd] at h
          have := Et.fail r0 hd
          simp only [cost, ht, if_true, Cost.add, sA, sB, List.length_cons]
          have e : max (sA t) (sA rest) * (r0.length + 1) = max (sA t) (sA rest) * r0.length + max (sA t) (sA rest) := by
            rw [Nat.mul_add, Nat.mul_one]
          have l1 := mul_le_max_left (sA t) (sA rest) r0.length
          have := Nat.le_max_left (1 + sB t) (sB rest)
          omega
        · simp only [ht, if_false] at h
          have := Er.fail (tag :: r0) h
          simp only [cost, ht, if_false, sA, sB]
          have l1 := mul_le_max_right (sA t) (sA rest) (tag :: r0).length
          have := Nat.le_max_right (1 + sB t) (sB rest)
          omega

/-! ## allocation of types without byte strings -/

theorem costN_alloc {d : Bytes → Option (Val × Bytes)} {cst : Bytes → Cost}
    (h : ∀ bs, (cst bs).alloc ≤ 67 * (cst bs).steps) :
    ∀ (n : Nat) (bs : Bytes), (costN d cst n bs).alloc ≤ 67 * (costN d cst n bs).steps := by
  intro n
  induction n with
  | zero => intro bs; simp [costN]
  | succ n ih =>
    intro bs
    simp only [costN]
    cases hd : d bs with
    | none => exact h bs
    | some p =>
      obtain ⟨v, r⟩ := p
      simp only [Cost.add]
      have := h bs
      have := ih r
      omega

/-- without byte strings every buffer is at most 67 bytes (the big-integer payload), so the
    allocation counter is at most 67 per step -/
theorem alloc_le_steps (t : Ty) : C12.noBytes t = true →
    ∀ bs, (cost t bs).alloc ≤ 67 * (cost t bs).steps := by
  induction t with
  | prim p =>
    intro h bs
    have := C12.prim_req_le p bs h
    simp only [cost]; omega
  | unit => intro _ bs; simp [cost]
  | pair a b iha ihb =>
    intro h bs
    simp only [C12.noBytes, Bool.and_eq_true] at h
    simp only [cost]
    cases hd : Scale.decode C11.codec a bs with
    | none => have := iha h.1 bs; simp only [Cost.add]; omega
    | some p =>
      obtain ⟨x, r⟩ := p
      have := iha h.1 bs
      have := ihb h.2 r
      simp only [Cost.add]; omega
  | option t ih =>
    intro h bs
    have ih := ih (by simpa [C12.noBytes] using h)
    cases bs with
    | nil => simp [cost]
    | cons tag r =>
      simp only [cost]
      split
      · have := ih r; simp only [Cost.add]; omega
      · simp
  | result a b iha ihb =>
    intro h bs
    simp only [C12.noBytes, Bool.and_eq_true] at h
    cases bs with
    | nil => simp [cost]
    | cons tag r =>
      simp only [cost]
      split
      · have := iha h.1 r; simp only [Cost.add]; omega
      · split
        · have := ihb h.2 r; simp only [Cost.add]; omega
        · simp
  | array n t ih =>
    intro h bs
    have := costN_alloc (d := Scale.decode C11.codec t) (ih (by simpa [C12.noBytes] using h)) n bs
    simp only [cost, Cost.add]; omega
  | seq t ih =>
    intro h bs
    have hq := C12.decodeUintReq_le bs
    simp only [cost]
    cases hl : C11.decodeUintV bs with
    | none => simp only; omega
    | some q =>
      obtain ⟨n, r⟩ := q
      have := costN_alloc (d := Scale.decode C11.codec t) (ih (by simpa [C12.noBytes] using h)) n r
      simp only [Cost.add]; omega
  | enumNil => intro _ bs; simp [cost]
  | enumCons i t rest iht ihr =>
    intro h bs
    simp only [C12.noBytes, Bool.and_eq_true] at h
    cases bs with
    | nil => simp [cost]
    | cons tag r =>
      simp only [cost]
      split
      · have := iht h.1 r; simp only [Cost.add]; omega
      · exact ihr h.2 (tag :: r)

/-- steps against the WHOLE input, success or failure -/
theorem steps_le_input (t : Ty) (hwf : t.wf = true) (hs : seqOk t = true) (bs : Bytes) :
    (cost t bs).steps ≤ sA t * bs.length + sB t := by
  have E := steps_ok t hwf hs
  cases hd : Scale.decode C11.codec t bs with
  | none => exact E.fail bs hd
  | some p =>
    obtain ⟨v, r⟩ := p
    obtain ⟨c, hc, _, hst⟩ := E.succ bs v r hd
    have : sA t * c ≤ sA t * bs.length := Nat.mul_le_mul_left _ (by omega)
    omega

end Gossamer.C33
