/-
C08: the logical content of a transaction level, `effL base d` = the committed trie with the diff
applied (`applyToTrie` over the ideal backend), as pointwise lookups in terms of the diff.
-/
import Gossamer.Lib.C08Order
set_option linter.unusedSectionVars false
set_option linter.unusedSimpArgs false
namespace Gossamer.C08
open Gossamer

/-- logical content of a transaction level -/
def effL (b : Logical) (d : Diff) : Logical := applyIdeal b d.sortedOrder

theorem find_sortedKids (ck : Bytes) (ks : KMap CDiff) :
    KMap.find ck (ks.map (fun e => (e.1, e.2.upserts, e.2.deletes))) =
      (KMap.find ck ks).map (fun c => (c.upserts, c.deletes)) := by
  induction ks with
  | nil => rfl
  | cons e r ih =>
    simp only [List.map_cons, KMap.find]
    by_cases h : e.1 = ck <;> simp [h, ih]

theorem nodupKeys_sortedKids {ks : KMap CDiff} (h : NodupKeys ks) :
    NodupKeys (ks.map (fun e => (e.1, e.2.upserts, e.2.deletes))) := by
  unfold NodupKeys at *
  have e : (ks.map (fun e => (e.1, e.2.upserts, e.2.deletes))).map (fun x => x.1) =
      ks.map (fun x => x.1) := by
    rw [List.map_map]; rfl
  rw [e]; exact h

/-- a child that no change set mentions is left alone by phase 2 -/
theorem phase2_kid_notin (ks : List (Bytes × List (Bytes × Bytes) × List Bytes)) (l : Logical)
    (ck : Bytes) (h : KMap.find ck ks = none) : kidOf (ks.foldl applyKidI l) ck = kidOf l ck := by
  induction ks generalizing l with
  | nil => rfl
  | cons e r ih =>
    simp only [KMap.find] at h
    by_cases he : e.1 = ck
    · simp [he] at h
    · simp only [he, if_false] at h
      simp only [List.foldl_cons]
      have : ¬ ck = e.1 := fun x => he x.symm
      rw [ih _ h, applyKidI_eq, kid_foldl_clear]
      simp only [this, if_false]
      rw [kid_foldl_put]
      simp [this]

section eff
variable {b : Logical} {d : Diff}

theorem effL_wf (hb : b.WF) : (effL b d).WF :=
  phase3_wf _ (phase2_wf _ (phase1_wf _ hb))

/-- main map of a level; every deleted string either names no child trie (in the diff or
    committed) or is not a main key at all -/
theorem effL_main (hb : b.WF) (hd : DiffWF d)
    (hdel : ∀ k ∈ d.c.deletes, (KMap.find k d.kids = none ∧ kidOf b k = []) ∨
      (KMap.find k d.c.upserts = none ∧ OMap.get k b.main = none)) (k : Bytes) :
    OMap.get k (effL b d).main =
      if k ∈ d.c.deletes ∧ Logical.isChildKey k = false then none
      else if Logical.isChildKey k then OMap.get k b.main
      else ov (KMap.find k d.c.upserts) (OMap.get k b.main) := by
  unfold effL applyIdeal
  simp only [Diff.sortedOrder]
  rw [phase3_main _ hd.dels (phase2_wf _ (phase1_wf _ hb)), phase2_main]
  rw [phase1_get _ hd.ups]
  by_cases hk : k ∈ d.c.deletes
  · rcases hdel k hk with ⟨h1, h2⟩ | ⟨h1, h2⟩
    · have : kidOf (List.foldl applyKidI (List.foldl putMain b d.c.upserts)
          (d.kids.map (fun e => (e.1, e.2.upserts, e.2.deletes)))) k = [] := by
        rw [phase2_kid_notin _ _ _ (by rw [find_sortedKids, h1]; rfl)]
        unfold kidOf
        rw [phase1_kids]
        exact h2
      simp [hk, this]
    · by_cases hc : Logical.isChildKey k = true
      · simp [hk, hc]
      · have hc' : Logical.isChildKey k = false := by simpa using hc
        simp [hk, hc', h1, h2]
  · simp [hk]

/-- child maps of a level -/
theorem effL_kid (hb : b.WF) (hd : DiffWF d) (ck k : Bytes) :
    OMap.get k (kidOf (effL b d) ck) =
      if ck ∈ d.c.deletes then none
      else match KMap.find ck d.kids with
        | some c => if k ∈ c.deletes then none
                    else ov (KMap.find k c.upserts) (OMap.get k (kidOf b ck))
        | none => OMap.get k (kidOf b ck) := by
  unfold effL applyIdeal
  simp only [Diff.sortedOrder]
  rw [phase3_kid _ (phase2_wf _ (phase1_wf _ hb))]
  by_cases hk : ck ∈ d.c.deletes
  · simp [hk, OMap.get]
  · simp only [hk, if_false]
    rw [phase2_get _ (nodupKeys_sortedKids hd.kids)]
    · rw [find_sortedKids]
      have hk1 : kidOf (List.foldl putMain b d.c.upserts) ck = kidOf b ck := by
        unfold kidOf; rw [phase1_kids]
      cases hf : KMap.find ck d.kids with
      | none => simp [hk1]
      | some c => simp [hk1]
    · intro e he
      simp only [List.mem_map] at he
      obtain ⟨x, hx, rfl⟩ := he
      exact hd.kidUps x hx

theorem effL_empty : effL b Diff.empty = b := by
  rfl

end eff

/-! ### sortedness of diffs (gives `DiffWF`) -/

theorem nodupKeys_of_sorted {α : Type} {m : KMap α} (h : KMap.Sorted m) : NodupKeys m := by
  unfold NodupKeys
  induction m with
  | nil => simp
  | cons e r ih =>
    simp only [List.map_cons, List.nodup_cons]
    refine ⟨?_, ih h.2⟩
    intro hm
    obtain ⟨x, hx, he⟩ := List.mem_map.mp hm
    have := h.1 x hx
    rw [he] at this
    simp [klt_irrefl] at this

theorem nodup_of_sorted {s : KSet} (h : KSet.Sorted s) : s.Nodup := by
  induction s with
  | nil => simp
  | cons e r ih =>
    simp only [List.nodup_cons]
    refine ⟨?_, ih h.2⟩
    intro hm
    have := h.1 e hm
    simp [klt_irrefl] at this

theorem KSet.sorted_ins (k : Bytes) {s : KSet} (hs : KSet.Sorted s) : KSet.Sorted (KSet.ins k s) := by
  induction s with
  | nil => simp [KSet.ins, KSet.Sorted]
  | cons e r ih =>
    simp only [KSet.ins]
    split
    · exact hs
    · rename_i he
      split
      · rename_i hlt
        refine ⟨?_, hs⟩
        intro x hx
        rcases List.mem_cons.mp hx with hx | hx
        · subst hx; exact hlt
        · exact klt_trans hlt (hs.1 x hx)
      · rename_i hlt
        refine ⟨?_, ih hs.2⟩
        intro x hx
        rcases (KSet.mem_ins k r x).mp hx with hx | hx
        · subst hx
          rcases klt_trichotomy x e with h | h | h
          · simp [h] at hlt
          · exact absurd h.symm he
          · exact h
        · exact hs.1 x hx

theorem KSet.sorted_del (k : Bytes) {s : KSet} (hs : KSet.Sorted s) : KSet.Sorted (KSet.del k s) := by
  induction s with
  | nil => simp [KSet.del, KSet.Sorted]
  | cons e r ih =>
    simp only [KSet.del, List.filter_cons]
    split
    · exact ⟨fun x hx => hs.1 x (List.mem_filter.mp hx).1, ih hs.2⟩
    · exact ih hs.2

structure CDiff.SortedC (c : CDiff) : Prop where
  ups : KMap.Sorted c.upserts
  dels : KSet.Sorted c.deletes

structure Diff.SortedD (d : Diff) : Prop where
  c : d.c.SortedC
  kids : KMap.Sorted d.kids
  kid : ∀ e ∈ d.kids, e.2.SortedC

theorem Diff.SortedD.wf {d : Diff} (h : d.SortedD) : DiffWF d :=
  ⟨nodupKeys_of_sorted h.c.ups, nodup_of_sorted h.c.dels, nodupKeys_of_sorted h.kids,
    fun e he => nodupKeys_of_sorted (h.kid e he).ups⟩

theorem CDiff.sorted_empty : CDiff.empty.SortedC := ⟨trivial, trivial⟩

theorem CDiff.sorted_upsert {c : CDiff} (h : c.SortedC) (k v : Bytes) : (c.upsert k v).SortedC :=
  ⟨KMap.sorted_ins _ _ h.ups, KSet.sorted_del _ h.dels⟩

theorem CDiff.sorted_delete {c : CDiff} (h : c.SortedC) (k : Bytes) : (c.delete k).SortedC :=
  ⟨KMap.sorted_del _ h.ups, KSet.sorted_ins _ h.dels⟩

theorem Diff.sorted_empty : Diff.empty.SortedD :=
  ⟨CDiff.sorted_empty, trivial, fun _ h => by simp [Diff.empty] at h⟩

theorem Diff.sorted_kid {d : Diff} (h : d.SortedD) (ck : Bytes) : (d.kid ck).SortedC := by
  unfold Diff.kid
  cases hf : KMap.find ck d.kids with
  | none => exact CDiff.sorted_empty
  | some c => exact h.kid (ck, c) (KMap.find_some_mem hf)

theorem Diff.sorted_setKid {d : Diff} (h : d.SortedD) (ck : Bytes) {c : CDiff} (hc : c.SortedC) :
    ({ d with kids := KMap.ins ck c d.kids } : Diff).SortedD := by
  refine ⟨h.c, KMap.sorted_ins _ _ h.kids, ?_⟩
  intro e he
  rcases KMap.mem_ins he with he | he
  · subst he; exact hc
  · exact h.kid e he

theorem Diff.sorted_upsert {d : Diff} (h : d.SortedD) (k v : Bytes) : (d.upsert k v).SortedD :=
  ⟨CDiff.sorted_upsert h.c k v, h.kids, h.kid⟩

theorem Diff.sorted_delete {d : Diff} (h : d.SortedD) (k : Bytes) : (d.delete k).SortedD :=
  ⟨CDiff.sorted_delete h.c k, KMap.sorted_del _ h.kids,
    fun e he => h.kid e (List.mem_filter.mp he).1⟩

end Gossamer.C08
