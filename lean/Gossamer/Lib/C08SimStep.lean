/-
C08: the simulation relation between the model over the ideal backend and the specification, one
step and whole runs.
-/
import Gossamer.Lib.C08Sim
set_option linter.unusedSectionVars false
set_option linter.unusedSimpArgs false
namespace Gossamer.C08
open Gossamer

/-- the specification state is the logical content of every level of the model state -/
structure Sim (CK : Bytes → Bool) (t : TS Logical) (s : SS) : Prop where
  back : s.back = t.base
  stack : s.stack = t.txs.map (effL t.base)
  base : BaseInv CK t.base
  diffs : ∀ d ∈ t.txs, DiffInv CK d

theorem sim_init (CK : Bytes → Bool) :
    Sim CK { base := Logical.empty, txs := [] } { back := Logical.empty, stack := [] } :=
  ⟨rfl, rfl, ⟨Logical.wf_empty, fun _ _ => rfl, fun _ _ => rfl⟩, fun _ h => by simp at h⟩

section base
variable {CK : Bytes → Bool} {b : Logical}

theorem baseInv_put (hb : BaseInv CK b) (k v : Bytes)
    (hk : Logical.isChildKey k = false ∧ CK k = false) :
    BaseInv CK { b with main := OMap.upsert k v b.main } := by
  refine ⟨⟨OMap.sorted_upsert _ _ hb.wf.main, ?_, hb.wf.kids, hb.wf.kid⟩, ?_, hb.kidsCK⟩
  · intro k' hk'
    rw [OMap.get_upsert]
    have : k' ≠ k := by rintro rfl; rw [hk.1] at hk'; cases hk'
    simp [this, hb.wf.noChild k' hk']
  · intro k' hk'
    simp only [OMap.get_upsert]
    have : k' ≠ k := by rintro rfl; rw [hk.2] at hk'; cases hk'
    simp [this, hb.mainCK k' hk']

theorem baseInv_del (hb : BaseInv CK b) (k : Bytes) :
    BaseInv CK { b with main := OMap.erase k b.main } := by
  refine ⟨⟨OMap.sorted_erase _ hb.wf.main, ?_, hb.wf.kids, hb.wf.kid⟩, ?_, hb.kidsCK⟩
  · intro k' hk'
    rw [OMap.get_erase]
    simp [hb.wf.noChild k' hk']
  · intro k' hk'
    simp only [OMap.get_erase]
    simp [hb.mainCK k' hk']

theorem baseInv_putIntoChild (hb : BaseInv CK b) (ck k : Bytes) (v : Option Bytes)
    (hck : CK ck = true) : BaseInv CK (Logical.putIntoChild b ck k v) := by
  refine ⟨wf_putIntoChild hb.wf _ _ _, hb.mainCK, ?_⟩
  intro ck' h'
  rw [kidOf_putIntoChild]
  have : ck' ≠ ck := by rintro rfl; rw [hck] at h'; cases h'
  simp [this, hb.kidsCK ck' h']

theorem baseInv_setKid (hb : BaseInv CK b) (ck : Bytes) (es : Entries) (hs : OMap.Sorted es)
    (hck : CK ck = true) : BaseInv CK (Logical.setKid b ck es) := by
  refine ⟨wf_setKid hb.wf _ _ hs, ?_, ?_⟩
  · intro k hk; rw [main_setKid]; exact hb.mainCK k hk
  · intro ck' h'
    rw [kidOf_setKid]
    have : ck' ≠ ck := by rintro rfl; rw [hck] at h'; cases h'
    simp [this, hb.kidsCK ck' h']

theorem clearKid_eq_setKid (hw : b.WF) (ck k : Bytes) :
    clearKid b ck k = Logical.setKid b ck (OMap.erase k (kidOf b ck)) := by
  apply Logical.ext (wf_clearKid hw _ _)
    (wf_setKid hw _ _ (OMap.sorted_erase _ (kidOf_sorted hw ck)))
  · intro k'; rw [main_clearKid, main_setKid]
  · intro ck' k'; rw [kidOf_clearKid, kidOf_setKid]

end base

section step
variable (Hc Hm : Entries → Bytes) (D : Dumper Logical) {CK : Bytes → Bool}

theorem mainView_get (s : SS) (k : Bytes) (hk : Logical.isChildKey k = false) :
    OMap.get k (s.mainView Hc) = OMap.get k s.top.main := by
  unfold SS.mainView
  rw [view_get Hc _ k hk]

/-- one operation of the fragment keeps the relation and gives the same observable -/
theorem sim_step {t : TS Logical} {s : SS} (h : Sim CK t s) (op : Op) (hop : OpOK CK op) :
    Sim CK (stepTS (idealBackend Hc Hm) D Diff.sortedOrder t op).1 (specStep Hc Hm s op).1 ∧
      (stepTS (idealBackend Hc Hm) D Diff.sortedOrder t op).2 = (specStep Hc Hm s op).2 := by
  obtain ⟨b, txs⟩ := t
  obtain ⟨sb, ss⟩ := s
  obtain ⟨hback, hstack, hbase, hdiffs⟩ := h
  simp only at hback hstack hbase hdiffs
  subst hback
  cases txs with
  | nil =>
    simp only [List.map_nil] at hstack
    subst hstack
    cases op <;> simp only [OpOK] at hop <;> try (exact absurd hop id)
    · -- put
      rename_i k v
      simp only [stepTS, putTS, specStep, hop.1, Bool.false_eq_true, if_false, idealBackend,
        SS.setTop, SS.top, List.head?_nil, Option.getD_none]
      exact ⟨⟨rfl, rfl, baseInv_put hbase k _ hop, fun _ h => by simp at h⟩, by first | trivial | rfl⟩
    · -- get
      rename_i k
      simp only [stepTS, readOp, getTS, specStep, specRead, idealBackend]
      refine ⟨⟨rfl, rfl, hbase, fun _ h => by simp at h⟩, ?_⟩
      rw [view_get Hc _ k hop.1, mainView_get Hc _ k hop.1]
      rfl
    · -- del
      rename_i k
      simp only [stepTS, deleteTS, specStep, hop.1, Bool.false_eq_true, if_false, idealBackend,
        SS.setTop, SS.top, List.head?_nil, Option.getD_none]
      exact ⟨⟨rfl, rfl, baseInv_del hbase k, fun _ h => by simp at h⟩, by first | trivial | rfl⟩
    · -- cput
      rename_i c k v
      simp only [stepTS, setChildStorageTS, specStep, idealBackend, SS.setTop, SS.top,
        List.head?_nil, Option.getD_none]
      exact ⟨⟨rfl, rfl, baseInv_putIntoChild hbase c k v hop, fun _ h => by simp at h⟩, by first | trivial | rfl⟩
    · -- cget
      rename_i c k
      simp only [stepTS, readOp, getChildStorageTS, specStep, specRead, getFromChildB_ideal]
      exact ⟨⟨rfl, rfl, hbase, fun _ h => by simp at h⟩, by first | trivial | rfl⟩
    · -- cdel
      rename_i c k
      simp only [stepTS, clearChildStorageTS, specStep, idealBackend, SS.setTop, SS.top,
        List.head?_nil, Option.getD_none]
      have e : (Logical.clearFromChild sb c k).getD sb =
          Logical.setKid sb c (OMap.erase k (kidOf sb c)) := clearKid_eq_setKid hbase.wf c k
      rw [e]
      exact ⟨⟨rfl, rfl, baseInv_setKid hbase c _
        (OMap.sorted_erase _ (kidOf_sorted hbase.wf c)) hop, fun _ h => by simp at h⟩, by first | trivial | rfl⟩
    · -- start
      simp only [stepTS, startTS, specStep, List.head?_nil, Option.getD_none, SS.top]
      refine ⟨⟨rfl, rfl, hbase, ?_⟩, by first | trivial | rfl⟩
      intro d hd
      simp only [List.mem_singleton] at hd
      subst hd
      exact DiffInv.empty CK
    · -- commit
      simp only [stepTS, commitTS, specStep]
      exact ⟨⟨rfl, rfl, hbase, fun _ h => by simp at h⟩, by first | trivial | rfl⟩
    · -- rollback
      simp only [stepTS, rollbackTS, specStep]
      exact ⟨⟨rfl, rfl, hbase, fun _ h => by simp at h⟩, by first | trivial | rfl⟩
  | cons d r =>
    simp only [List.map_cons] at hstack
    subst hstack
    have hd : DiffInv CK d := hdiffs d (by simp)
    have hr : ∀ x ∈ r, DiffInv CK x := fun x hx => hdiffs x (by simp [hx])
    have hcons : ∀ d', DiffInv CK d' → ∀ x ∈ d' :: r, DiffInv CK x := by
      intro d' hd' x hx
      rcases List.mem_cons.mp hx with hx | hx
      · subst hx; exact hd'
      · exact hr x hx
    cases op <;> simp only [OpOK] at hop <;> try (exact absurd hop id)
    · -- put
      rename_i k v
      simp only [stepTS, putTS, specStep, hop.1, Bool.false_eq_true, if_false, SS.setTop, SS.top,
        List.head?_cons, Option.getD_some]
      refine ⟨⟨rfl, ?_, hbase, hcons _ (inv_upsert hd k _ hop)⟩, by first | trivial | rfl⟩
      simp only [List.map_cons]
      rw [eff_upsert hbase hd k _ hop]
    · -- get
      rename_i k
      simp only [stepTS, readOp, specStep, specRead]
      refine ⟨⟨rfl, rfl, hbase, hdiffs⟩, ?_⟩
      rw [get_sim Hc Hm hbase hd r k hop.1, mainView_get Hc _ k hop.1]
      rfl
    · -- del
      rename_i k
      simp only [stepTS, deleteTS, specStep, hop.1, Bool.false_eq_true, if_false, SS.setTop, SS.top,
        List.head?_cons, Option.getD_some]
      refine ⟨⟨rfl, ?_, hbase, hcons _ (inv_delete hd k hop)⟩, by first | trivial | rfl⟩
      simp only [List.map_cons]
      rw [eff_delete hbase hd k hop]
    · -- cput
      rename_i c k v
      simp only [stepTS, setChildStorageTS, specStep, SS.setTop, SS.top, List.head?_cons,
        Option.getD_some]
      refine ⟨⟨rfl, ?_, hbase, hcons _ (inv_upsertChild hd c k _ hop)⟩, by first | trivial | rfl⟩
      simp only [List.map_cons]
      rw [eff_upsertChild hbase hd c k _ hop]
      rfl
    · -- cget
      rename_i c k
      simp only [stepTS, readOp, specStep, specRead]
      refine ⟨⟨rfl, rfl, hbase, hdiffs⟩, ?_⟩
      rw [cget_sim Hc Hm hbase hd r c k hop]
      rfl
    · -- cdel
      rename_i c k
      simp only [stepTS, clearChildStorageTS, specStep, SS.setTop, SS.top, List.head?_cons,
        Option.getD_some]
      refine ⟨⟨rfl, ?_, hbase, hcons _ (inv_deleteFromChild hd c k hop)⟩, by first | trivial | rfl⟩
      simp only [List.map_cons]
      rw [eff_deleteFromChild hbase hd c k hop]
    · -- start
      simp only [stepTS, startTS, specStep, List.head?_cons, Option.getD_some, SS.top]
      refine ⟨⟨rfl, rfl, hbase, ?_⟩, by first | trivial | rfl⟩
      intro x hx
      rcases List.mem_cons.mp hx with hx | hx
      · subst hx; exact hd
      · exact hcons d hd x hx
    · -- commit
      cases r with
      | nil =>
        simp only [stepTS, commitTS, specStep, applyToTrie_ideal, List.map_nil]
        exact ⟨⟨rfl, rfl, eff_baseInv hbase hd, fun _ h => by simp at h⟩, by first | trivial | rfl⟩
      | cons u r' =>
        simp only [stepTS, commitTS, specStep, List.map_cons]
        refine ⟨⟨rfl, rfl, hbase, ?_⟩, by first | trivial | rfl⟩
        intro x hx
        rcases List.mem_cons.mp hx with hx | hx
        · subst hx; exact hd
        · exact hr x (by simp [hx])
    · -- rollback
      simp only [stepTS, rollbackTS, specStep]
      exact ⟨⟨rfl, rfl, hbase, hr⟩, by first | trivial | rfl⟩

/-- whole runs: same observables, and the relation holds at the end -/
theorem sim_run {t : TS Logical} {s : SS} (h : Sim CK t s) (ops : List Op)
    (hops : ∀ op ∈ ops, OpOK CK op) :
    Sim CK (runTS (idealBackend Hc Hm) D Diff.sortedOrder t ops).1 (specRun Hc Hm s ops).1 ∧
      (runTS (idealBackend Hc Hm) D Diff.sortedOrder t ops).2 = (specRun Hc Hm s ops).2 := by
  induction ops generalizing t s with
  | nil => exact ⟨h, rfl⟩
  | cons op r ih =>
    obtain ⟨h1, h2⟩ := sim_step Hc Hm D h op (hops op (by simp))
    obtain ⟨h3, h4⟩ := ih h1 (fun x hx => hops x (by simp [hx]))
    simp only [runTS, specRun]
    exact ⟨h3, by rw [h2, h4]⟩

end step

end Gossamer.C08
