/-
C08: the simulation relation between the model over the ideal backend and the specification, one
step and whole runs.
-/
import Gossamer.Lib.C08Limit6
set_option linter.unusedSectionVars false
set_option linter.unusedSimpArgs false
namespace Gossamer.C08
open Gossamer

/-- Operations of the proved fragment; `CK` = the strings used as child-trie keys.
    Excluded regions (= known findings): a string used both as main key and as child-trie key
    (`deletes-shared-by-main-and-child`), main keys / prefixes at or below `:child_storage:default:`
    (`child-root-key-unprotected`), `croot` (`child-root-ignores-overlay`), the limit variants. -/
def OpOK (CK : Bytes → Bool) : Op → Prop
  | .put k _ => Logical.isChildKey k = false ∧ CK k = false
  | .del k => Logical.isChildKey k = false ∧ CK k = false
  | .get k => Logical.isChildKey k = false ∧ CK k = false
  | .next _ => True
  | .ents => True
  | .clr p => overlapsRegion p = false
  | .clrl p _ => overlapsRegion p = false
  | .cput c _ _ => CK c = true
  | .cdel c _ => CK c = true
  | .cget c _ => CK c = true
  | .cclr c _ => CK c = true
  | .cclrl c _ _ => CK c = true
  | .cnext c _ => CK c = true
  | .ckeys c _ => CK c = true
  | .kill c => CK c = true ∧ Logical.isChildKey c = false
  | .killl c _ => CK c = true ∧ Logical.isChildKey c = false
  | .start => True
  | .commit => True
  | .rollback => True
  | _ => False

/-- `OpOK` and, for a child write, the child trie was not deleted earlier in the same transaction
    (finding `child-recreated-after-kill`; the driver's test: the key is in `deletes` of the top diff);
    for `clrl` inside a transaction every key written in the transaction has the prefix (finding
    `alldeleted-counts-nonmatching`), outside a transaction not (limit 0 and no key with the prefix)
    (finding `limit0-reports-remaining`); `cclrl` likewise, and outside a transaction the child must
    exist (finding `nochild-reports-remaining`); `killl` inside a transaction not on a child that
    exists only as an emptied change set (same finding).  `cclrl` / `killl` on a child deleted
    earlier in the same transaction are left out of the proof (not a finding). -/
def StepOK (CK : Bytes → Bool) (t : TS Logical) (op : Op) : Prop :=
  OpOK CK op ∧
    (match op, t.txs with
      | .cput c _ _, d :: _ => c ∉ d.c.deletes
      | .clrl p _, d :: _ => ∀ k ∈ KMap.keys d.c.upserts, p.isPrefixOf k = true
      | .clrl p n, [] => n ≠ 0 ∨ OMap.keysWithPrefix p t.base.main ≠ []
      | .cclrl c p _, d :: _ =>
        c ∉ d.c.deletes ∧ ∀ k ∈ KMap.keys (d.kid c).upserts, p.isPrefixOf k = true
      | .cclrl c p n, [] =>
        (KMap.find c t.base.kids).isSome = true ∧
          (n ≠ 0 ∨ OMap.keysWithPrefix p (kidOf t.base c) ≠ [])
      | .killl c _, d :: _ =>
        c ∉ d.c.deletes ∧
          ((KMap.find c t.base.kids).isNone = true → (KMap.find c d.kids).isSome = true →
            (d.kid c).upserts ≠ [])
      | _, _ => True)

/-- the specification state is the logical content of every level of the model state -/
structure Sim (CK : Bytes → Bool) (t : TS Logical) (s : SS) : Prop where
  back : s.back = t.base
  stack : s.stack = t.txs.map (effL t.base)
  base : BaseInv CK t.base
  diffs : ∀ d ∈ t.txs, DiffInv CK d

theorem sim_init (CK : Bytes → Bool) :
    Sim CK { base := Logical.empty, txs := [] } { back := Logical.empty, stack := [] } :=
  ⟨rfl, rfl, ⟨Logical.wf_empty, fun _ _ => rfl, fun _ _ => rfl⟩, fun _ h => by simp at h⟩

section base
variable {CK : Bytes → Bool} {b : Logical}

theorem baseInv_put (hb : BaseInv CK b) (k v : Bytes)
    (hk : Logical.isChildKey k = false ∧ CK k = false) :
    BaseInv CK { b with main := OMap.upsert k v b.main } := by
  refine ⟨⟨OMap.sorted_upsert _ _ hb.wf.main, ?_, hb.wf.kids, hb.wf.kid⟩, ?_, hb.kidsCK⟩
  · intro k' hk'
    rw [OMap.get_upsert]
    have : k' ≠ k := by rintro rfl; rw [hk.1] at hk'; cases hk'
    simp [this, hb.wf.noChild k' hk']
  · intro k' hk'
    simp only [OMap.get_upsert]
    have : k' ≠ k := by rintro rfl; rw [hk.2] at hk'; cases hk'
    simp [this, hb.mainCK k' hk']

theorem baseInv_del (hb : BaseInv CK b) (k : Bytes) :
    BaseInv CK { b with main := OMap.erase k b.main } := by
  refine ⟨⟨OMap.sorted_erase _ hb.wf.main, ?_, hb.wf.kids, hb.wf.kid⟩, ?_, hb.kidsCK⟩
  · intro k' hk'
    rw [OMap.get_erase]
    simp [hb.wf.noChild k' hk']
  · intro k' hk'
    simp only [OMap.get_erase]
    simp [hb.mainCK k' hk']

theorem baseInv_putIntoChild (hb : BaseInv CK b) (ck k : Bytes) (v : Option Bytes)
    (hck : CK ck = true) : BaseInv CK (Logical.putIntoChild b ck k v) := by
  refine ⟨wf_putIntoChild hb.wf _ _ _, hb.mainCK, ?_⟩
  intro ck' h'
  rw [kidOf_putIntoChild]
  have : ck' ≠ ck := by rintro rfl; rw [hck] at h'; cases h'
  simp [this, hb.kidsCK ck' h']

theorem baseInv_setKid (hb : BaseInv CK b) (ck : Bytes) (es : Entries) (hs : OMap.Sorted es)
    (hck : CK ck = true) : BaseInv CK (Logical.setKid b ck es) := by
  refine ⟨wf_setKid hb.wf _ _ hs, ?_, ?_⟩
  · intro k hk; rw [main_setKid]; exact hb.mainCK k hk
  · intro ck' h'
    rw [kidOf_setKid]
    have : ck' ≠ ck := by rintro rfl; rw [hck] at h'; cases h'
    simp [this, hb.kidsCK ck' h']

theorem clearKid_eq_setKid (hw : b.WF) (ck k : Bytes) :
    clearKid b ck k = Logical.setKid b ck (OMap.erase k (kidOf b ck)) := by
  apply Logical.ext (wf_clearKid hw _ _)
    (wf_setKid hw _ _ (OMap.sorted_erase _ (kidOf_sorted hw ck)))
  · intro k'; rw [main_clearKid, main_setKid]
  · intro ck' k'; rw [kidOf_clearKid, kidOf_setKid]

theorem baseInv_clr (hb : BaseInv CK b) (p : Bytes) :
    BaseInv CK { b with main := OMap.clearPrefix p b.main } := by
  refine ⟨⟨OMap.sorted_clearPrefix _ hb.wf.main, ?_, hb.wf.kids, hb.wf.kid⟩, ?_, hb.kidsCK⟩
  · intro k' hk'
    rw [OMap.get_clearPrefix]
    simp [hb.wf.noChild k' hk']
  · intro k' hk'
    simp only [OMap.get_clearPrefix]
    simp [hb.mainCK k' hk']

theorem specLoop_get (back : Entries) (ks : List Bytes) :
    ∀ (limit : Option Nat) (t : Entries) (n : Nat), OMap.Sorted t →
      OMap.Sorted (specLoop back ks limit t n).1 ∧
      ∀ k, OMap.get k (specLoop back ks limit t n).1 = none ∨
        OMap.get k (specLoop back ks limit t n).1 = OMap.get k t := by
  induction ks with
  | nil => intro limit t n hs; exact ⟨hs, fun k => Or.inr rfl⟩
  | cons x r ih =>
    intro limit t n hs
    simp only [specLoop]
    split
    · exact ⟨hs, fun k => Or.inr rfl⟩
    · obtain ⟨h1, h2⟩ := ih (if (OMap.get x back).isSome = true then Option.map (· - 1) limit else limit)
        (OMap.erase x t) (n + 1) (OMap.sorted_erase _ hs)
      refine ⟨h1, ?_⟩
      intro k
      rcases h2 k with h | h
      · exact Or.inl h
      · rw [h, OMap.get_erase]
        by_cases hk : k = x
        · simp [hk]
        · simp [hk]

theorem baseInv_specLimit (hb : BaseInv CK b) (back : Entries) (sel : Bytes → Bool)
    (limit : Option Nat) :
    BaseInv CK { b with main := (specLimit b.main back sel limit).1 } := by
  unfold specLimit
  simp only []
  obtain ⟨h1, h2⟩ := specLoop_get back
    (unionKeys ((b.main.map (·.1)).filter sel) ((back.map (·.1)).filter sel)) limit b.main 0 hb.wf.main
  refine ⟨⟨h1, ?_, hb.wf.kids, hb.wf.kid⟩, ?_, hb.kidsCK⟩
  · intro k hk
    rcases h2 k with h | h
    · exact h
    · rw [h]; exact hb.wf.noChild k hk
  · intro k hk
    rcases h2 k with h | h
    · exact h
    · show OMap.get k _ = none
      rw [h]; exact hb.mainCK k hk

theorem setKid_clear_missing (hw : b.WF) (ck p : Bytes) (h : KMap.find ck b.kids = none) :
    Logical.setKid b ck (OMap.clearPrefix p (kidOf b ck)) = b := by
  have e : OMap.clearPrefix p (kidOf b ck) = [] := by rw [kidOf_none h]; rfl
  rw [e]
  have hnil : OMap.Sorted ([] : Entries) := trivial
  apply Logical.ext (wf_setKid hw _ _ hnil) hw
  · intro k; rw [main_setKid]
  · intro ck' k
    rw [kidOf_setKid]
    by_cases hc : ck' = ck
    · subst hc; simp [kidOf_none h]
    · simp [hc]

end base

section step
variable (Hc Hm : Entries → Bytes) (D : Dumper Logical) {CK : Bytes → Bool}

theorem mainView_get (s : SS) (k : Bytes) (hk : Logical.isChildKey k = false) :
    OMap.get k (s.mainView Hc) = OMap.get k s.top.main := by
  unfold SS.mainView
  rw [view_get Hc _ k hk]

/-- reads of a child on the committed state (no transaction open) -/
theorem cnext0 (b : Logical) (ck k : Bytes) :
    getChildNextKeyTS (idealBackend Hc Hm) { base := b, txs := [] } ck k =
      .val (OMap.nextKey k (kidOf b ck)) := by
  simp only [getChildNextKeyTS]
  rw [getChild_ideal]
  cases hfb : KMap.find ck b.kids with
  | none => simp [kidOf_none hfb, OMap.nextKey]
  | some es => simp [kidOf_some hfb, idealBackend, omapOps]

theorem ckeys0 (b : Logical) (hw : b.WF) (ck p : Bytes) :
    getKeysWithPrefixFromChildTS (idealBackend Hc Hm) { base := b, txs := [] } ck p =
      .keys (OMap.keysWithPrefix p (kidOf b ck)) := by
  simp only [getKeysWithPrefixFromChildTS]
  rw [getChild_ideal]
  cases hfb : KMap.find ck b.kids with
  | none => simp [kidOf_none hfb, OMap.keysWithPrefix]
  | some es =>
    have hs : OMap.Sorted es := (hw.kid ck es hfb).1
    simp only [kidOf_some hfb, idealBackend, omapOps]
    rw [sortKeys_sorted (keysWithPrefix_sorted hs p)]

theorem cclr0 (b : Logical) (hw : b.WF) (ck p : Bytes) :
    (clearPrefixInChildTS (idealBackend Hc Hm) { base := b, txs := [] } ck p).1 =
      { base := Logical.setKid b ck (OMap.clearPrefix p (kidOf b ck)), txs := [] } ∧
    (clearPrefixInChildTS (idealBackend Hc Hm) { base := b, txs := [] } ck p).2 = .ok := by
  simp only [clearPrefixInChildTS]
  rw [getChild_ideal]
  cases hfb : KMap.find ck b.kids with
  | none =>
    simp only []
    rw [setKid_clear_missing hw ck p hfb]
    exact ⟨by first | trivial | rfl, by first | trivial | rfl⟩
  | some es =>
    simp only [kidOf_some hfb]
    exact ⟨by first | trivial | rfl, by first | trivial | rfl⟩

theorem sorted_specLimit {t : Entries} (ht : OMap.Sorted t) (back : Entries) (sel : Bytes → Bool)
    (limit : Option Nat) : OMap.Sorted (specLimit t back sel limit).1 := by
  unfold specLimit
  exact (specLoop_get back _ limit t 0 ht).1

theorem killl_test {b : Logical} {d : Diff} (hb : BaseInv CK b) (hd : DiffInv CK d) (c : Bytes)
    (hnd : c ∉ d.c.deletes)
    (hreg : (KMap.find c b.kids).isNone = true → (KMap.find c d.kids).isSome = true →
      (d.kid c).upserts ≠ []) :
    ((KMap.find c (effL b d).kids).isNone && (KMap.find c b.kids).isNone) =
      ((KMap.find c b.kids).isNone && (KMap.find c d.kids).isNone) := by
  have hw := effL_wf (d := d) hb.wf
  cases hfb : KMap.find c b.kids with
  | some es => simp
  | none =>
    simp only [Option.isNone_none, Bool.and_true, Bool.true_and]
    cases hfd : KMap.find c d.kids with
    | none =>
      have : kidOf (effL b d) c = [] := by rw [kid_same hb hd hnd hfd, kidOf_none hfb]
      rw [(kidOf_nil_iff hw c).mp this]
      rfl
    | some ch =>
      have hne := hreg (by rw [hfb]; rfl) (by rw [hfd]; rfl)
      have hkid : d.kid c = ch := by unfold Diff.kid; rw [hfd]; rfl
      rw [hkid] at hne
      cases hu : ch.upserts with
      | nil => exact absurd hu hne
      | cons e r =>
        have hf : KMap.find e.1 ch.upserts = some e.2 := by rw [hu]; simp [KMap.find]
        have hdl : e.1 ∉ ch.deletes := fun hm => by
          rw [hd.kidDisj c ch hfd e.1 hm] at hf; cases hf
        have hg : OMap.get e.1 (kidOf (effL b d) c) ≠ none := by
          rw [eff_kid hb hd]
          simp [hnd, hfd, hdl, hf]
        have hnn : kidOf (effL b d) c ≠ [] := fun h => by rw [h] at hg; exact hg rfl
        cases hfl : KMap.find c (effL b d).kids with
        | none => exact absurd ((kidOf_nil_iff hw c).mpr hfl) hnn
        | some x => rfl

/-- one operation of the fragment keeps the relation and gives the same observable -/
theorem sim_step {t : TS Logical} {s : SS} (h : Sim CK t s) (op : Op) (hstep : StepOK CK t op) :
    Sim CK (stepTS (idealBackend Hc Hm) D Diff.sortedOrder t op).1 (specStep Hc Hm s op).1 ∧
      (stepTS (idealBackend Hc Hm) D Diff.sortedOrder t op).2 = (specStep Hc Hm s op).2 := by
  obtain ⟨b, txs⟩ := t
  obtain ⟨sb, ss⟩ := s
  obtain ⟨hback, hstack, hbase, hdiffs⟩ := h
  obtain ⟨hop, hkill⟩ := hstep
  simp only at hback hstack hbase hdiffs hkill
  subst hback
  cases txs with
  | nil =>
    simp only [List.map_nil] at hstack
    subst hstack
    have hnil : ∀ d ∈ ([] : List Diff), DiffInv CK d := fun _ h => by simp at h
    cases op <;> simp only [OpOK] at hop <;> try (exact absurd hop id)
    · -- put
      rename_i k v
      simp only [stepTS, putTS, specStep, hop.1, Bool.false_eq_true, if_false, idealBackend,
        SS.setTop, SS.top, List.head?_nil, Option.getD_none]
      exact ⟨⟨rfl, rfl, baseInv_put hbase k _ hop, hnil⟩, by first | trivial | rfl⟩
    · -- get
      rename_i k
      simp only [stepTS, readOp, getTS, specStep, specRead, idealBackend]
      refine ⟨⟨rfl, rfl, hbase, hnil⟩, ?_⟩
      rw [view_get Hc _ k hop.1, mainView_get Hc _ k hop.1]
      rfl
    · -- del
      rename_i k
      simp only [stepTS, deleteTS, specStep, hop.1, Bool.false_eq_true, if_false, idealBackend,
        SS.setTop, SS.top, List.head?_nil, Option.getD_none]
      exact ⟨⟨rfl, rfl, baseInv_del hbase k, hnil⟩, by first | trivial | rfl⟩
    · -- clr
      rename_i p
      simp only [stepTS, clearPrefixTS, specStep, idealBackend, SS.setTop, SS.top,
        List.head?_nil, Option.getD_none]
      exact ⟨⟨rfl, rfl, baseInv_clr hbase p, hnil⟩, by first | trivial | rfl⟩
    · -- clrl
      rename_i p n
      have e := clearPrefixLimit_spec p n hbase.wf.main hkill
      simp only [stepTS, clearPrefixLimitTS, specStep, idealBackend, SS.setTop, SS.top,
        List.head?_nil, Option.getD_none]
      rw [e]
      exact ⟨⟨rfl, rfl, baseInv_specLimit hbase _ _ _, hnil⟩, rfl⟩
    · -- next
      rename_i k
      simp only [stepTS, readOp, nextKeyTS, specStep, specRead, idealBackend]
      exact ⟨⟨rfl, rfl, hbase, hnil⟩, rfl⟩
    · -- ents
      simp only [stepTS, readOp, trieEntriesTS, specStep, specRead, idealBackend]
      exact ⟨⟨rfl, rfl, hbase, hnil⟩, rfl⟩
    · -- cput
      rename_i c k v
      simp only [stepTS, setChildStorageTS, specStep, idealBackend, SS.setTop, SS.top,
        List.head?_nil, Option.getD_none]
      exact ⟨⟨rfl, rfl, baseInv_putIntoChild hbase c k v hop, hnil⟩, by first | trivial | rfl⟩
    · -- cget
      rename_i c k
      simp only [stepTS, readOp, getChildStorageTS, specStep, specRead, getFromChildB_ideal]
      exact ⟨⟨rfl, rfl, hbase, hnil⟩, by first | trivial | rfl⟩
    · -- cdel
      rename_i c k
      simp only [stepTS, clearChildStorageTS, specStep, idealBackend, SS.setTop, SS.top,
        List.head?_nil, Option.getD_none]
      have e : (Logical.clearFromChild sb c k).getD sb =
          Logical.setKid sb c (OMap.erase k (kidOf sb c)) := clearKid_eq_setKid hbase.wf c k
      rw [e]
      exact ⟨⟨rfl, rfl, baseInv_setKid hbase c _
        (OMap.sorted_erase _ (kidOf_sorted hbase.wf c)) hop, hnil⟩, by first | trivial | rfl⟩
    · -- cclr
      rename_i c p
      obtain ⟨e1, e2⟩ := cclr0 Hc Hm sb hbase.wf c p
      simp only [stepTS, specStep, SS.setTop, SS.top, List.head?_nil, Option.getD_none]
      rw [e1, e2]
      exact ⟨⟨rfl, rfl, baseInv_setKid hbase c _
        (OMap.sorted_clearPrefix _ (kidOf_sorted hbase.wf c)) hop, hnil⟩, rfl⟩
    · -- cclrl
      rename_i c p n
      simp only [stepTS, specStep, SS.setTop, SS.top, List.head?_nil, Option.getD_none]
      rw [cclrl0 Hc Hm hbase.wf c p n hkill.1 hkill.2]
      exact ⟨⟨rfl, rfl, baseInv_setKid hbase c _
        (sorted_specLimit (kidOf_sorted hbase.wf c) _ _ _) hop, hnil⟩, rfl⟩
    · -- cnext
      rename_i c k
      simp only [stepTS, readOp, specStep, specRead, cnext0]
      exact ⟨⟨rfl, rfl, hbase, hnil⟩, by first | trivial | rfl⟩
    · -- ckeys
      rename_i c p
      simp only [stepTS, readOp, specStep, specRead, ckeys0 Hc Hm sb hbase.wf]
      exact ⟨⟨rfl, rfl, hbase, hnil⟩, by first | trivial | rfl⟩
    · -- kill
      rename_i c
      simp only [stepTS, deleteChildTS, specStep, idealBackend, SS.setTop, SS.top,
        List.head?_nil, Option.getD_none]
      exact ⟨⟨rfl, rfl, baseInv_delKid hbase c, hnil⟩, by first | trivial | rfl⟩
    · -- killl
      rename_i c lim
      simp only [stepTS, specStep, SS.setTop, SS.top, List.head?_nil, Option.getD_none]
      rw [killl0 Hc Hm hbase.wf c lim]
      simp only [Bool.and_self]
      by_cases hf : (KMap.find c sb.kids).isNone = true
      · simp only [hf, if_true]
        exact ⟨⟨rfl, rfl, hbase, hnil⟩, by first | trivial | rfl⟩
      · simp only [hf, Bool.false_eq_true, if_false]
        exact ⟨⟨rfl, rfl, baseInv_setKid hbase c _
          (sorted_specLimit (kidOf_sorted hbase.wf c) _ _ _) hop.1, hnil⟩, by first | trivial | rfl⟩
    · -- start
      simp only [stepTS, startTS, specStep, List.head?_nil, Option.getD_none, SS.top]
      refine ⟨⟨rfl, rfl, hbase, ?_⟩, by first | trivial | rfl⟩
      intro d hd
      simp only [List.mem_singleton] at hd
      subst hd
      exact DiffInv.empty CK
    · -- commit
      simp only [stepTS, commitTS, specStep]
      exact ⟨⟨rfl, rfl, hbase, hnil⟩, by first | trivial | rfl⟩
    · -- rollback
      simp only [stepTS, rollbackTS, specStep]
      exact ⟨⟨rfl, rfl, hbase, hnil⟩, by first | trivial | rfl⟩
  | cons d r =>
    simp only [List.map_cons] at hstack
    subst hstack
    have hd : DiffInv CK d := hdiffs d (by simp)
    have hr : ∀ x ∈ r, DiffInv CK x := fun x hx => hdiffs x (by simp [hx])
    have hcons : ∀ d', DiffInv CK d' → ∀ x ∈ d' :: r, DiffInv CK x := by
      intro d' hd' x hx
      rcases List.mem_cons.mp hx with hx | hx
      · subst hx; exact hd'
      · exact hr x hx
    cases op <;> simp only [OpOK] at hop <;> try (exact absurd hop id)
    · -- put
      rename_i k v
      simp only [stepTS, putTS, specStep, hop.1, Bool.false_eq_true, if_false, SS.setTop, SS.top,
        List.head?_cons, Option.getD_some]
      refine ⟨⟨rfl, ?_, hbase, hcons _ (inv_upsert hd k _ hop)⟩, by first | trivial | rfl⟩
      simp only [List.map_cons]
      rw [eff_upsert hbase hd k _ hop]
    · -- get
      rename_i k
      simp only [stepTS, readOp, specStep, specRead]
      refine ⟨⟨rfl, rfl, hbase, hdiffs⟩, ?_⟩
      rw [get_sim Hc Hm hbase hd r k hop.1, mainView_get Hc _ k hop.1]
      rfl
    · -- del
      rename_i k
      simp only [stepTS, deleteTS, specStep, hop.1, Bool.false_eq_true, if_false, SS.setTop, SS.top,
        List.head?_cons, Option.getD_some]
      refine ⟨⟨rfl, ?_, hbase, hcons _ (inv_delete hd k hop)⟩, by first | trivial | rfl⟩
      simp only [List.map_cons]
      rw [eff_delete hbase hd k hop]
    · -- clr
      rename_i p
      obtain ⟨e1, e2⟩ := eff_clearPrefix Hc Hm hbase hd p hop
      simp only [stepTS, clearPrefixTS, specStep, SS.setTop, SS.top, List.head?_cons,
        Option.getD_some]
      refine ⟨⟨rfl, ?_, hbase, hcons _ e2⟩, by first | trivial | rfl⟩
      simp only [List.map_cons]
      rw [e1]
    · -- clrl
      rename_i p n
      have hK2 : ∀ k ∈ KMap.keys d.c.upserts,
          k ∉ keysWithPrefixOn ((idealBackend Hc Hm).get sb) ((idealBackend Hc Hm).keysAfter sb) p →
            p.isPrefixOf k = true := fun k hk _ => hkill k hk
      obtain ⟨e1, e2, e3, e4⟩ := eff_clearPrefixLimit Hc Hm hbase hd p n hop hK2
      simp only [stepTS, clearPrefixLimitTS, specStep, SS.setTop, SS.top, List.head?_cons,
        Option.getD_some]
      refine ⟨⟨rfl, ?_, hbase, hcons _ e2⟩, ?_⟩
      · simp only [List.map_cons]
        rw [e1]
      · rw [e3, e4]
    · -- next
      rename_i k
      simp only [stepTS, readOp, specStep, specRead]
      refine ⟨⟨rfl, rfl, hbase, hdiffs⟩, ?_⟩
      rw [next_sim Hc Hm hbase hd r k]
      rfl
    · -- ents
      simp only [stepTS, readOp, specStep, specRead]
      refine ⟨⟨rfl, rfl, hbase, hdiffs⟩, ?_⟩
      rw [ents_sim Hc Hm hbase hd r]
      rfl
    · -- cput
      rename_i c k v
      simp only [stepTS, setChildStorageTS, specStep, SS.setTop, SS.top, List.head?_cons,
        Option.getD_some]
      refine ⟨⟨rfl, ?_, hbase, hcons _ (inv_upsertChild hd c k _ hop)⟩, by first | trivial | rfl⟩
      simp only [List.map_cons]
      rw [eff_upsertChild hbase hd c k _ hop hkill]
      rfl
    · -- cget
      rename_i c k
      simp only [stepTS, readOp, specStep, specRead]
      refine ⟨⟨rfl, rfl, hbase, hdiffs⟩, ?_⟩
      rw [cget_sim Hc Hm hbase hd r c k]
      rfl
    · -- cdel
      rename_i c k
      simp only [stepTS, clearChildStorageTS, specStep, SS.setTop, SS.top, List.head?_cons,
        Option.getD_some]
      refine ⟨⟨rfl, ?_, hbase, hcons _ (inv_deleteFromChild hd c k hop)⟩, by first | trivial | rfl⟩
      simp only [List.map_cons]
      rw [eff_deleteFromChild hbase hd c k hop]
    · -- cclr
      rename_i c p
      obtain ⟨e1, e2⟩ := eff_clearChild hbase hd c p hop
      simp only [stepTS, specStep, SS.setTop, SS.top, List.head?_cons, Option.getD_some]
      rw [clearPrefixInChildTS_tx Hc Hm d r c p]
      refine ⟨⟨rfl, ?_, hbase, hcons _ e2⟩, rfl⟩
      simp only [List.map_cons]
      rw [e1]
    · -- cclrl
      rename_i c p n
      obtain ⟨e1, e2, e3, e4⟩ := eff_clearChildLimit hbase hd c p n hop hkill.1 hkill.2
      simp only [stepTS, specStep, SS.setTop, SS.top, List.head?_cons, Option.getD_some]
      rw [clearPrefixInChildLimitTS_tx Hc Hm d r c p n]
      refine ⟨⟨rfl, ?_, hbase, hcons _ e2⟩, ?_⟩
      · simp only [List.map_cons]
        rw [e1]
      · rw [e3, e4]
    · -- cnext
      rename_i c k
      simp only [stepTS, readOp, specStep, specRead]
      refine ⟨⟨rfl, rfl, hbase, hdiffs⟩, ?_⟩
      rw [cnext_sim Hc Hm hbase hd r c k]
      rfl
    · -- ckeys
      rename_i c p
      simp only [stepTS, readOp, specStep, specRead]
      refine ⟨⟨rfl, rfl, hbase, hdiffs⟩, ?_⟩
      rw [ckeys_sim Hc Hm hbase hd r c p]
      rfl
    · -- kill
      rename_i c
      simp only [stepTS, deleteChildTS, specStep, SS.setTop, SS.top, List.head?_cons,
        Option.getD_some]
      refine ⟨⟨rfl, ?_, hbase, hcons _ (inv_kill hd c hop.1 hop.2)⟩, by first | trivial | rfl⟩
      simp only [List.map_cons]
      rw [eff_kill hbase hd c hop.1 hop.2]
    · -- killl
      rename_i c lim
      obtain ⟨e1, e2, e3, e4⟩ := eff_killLimit hbase hd c lim hop.1 hop.2 hkill.1
      have ht := killl_test hbase hd c hkill.1 hkill.2
      simp only [stepTS, specStep, SS.setTop, SS.top, List.head?_cons, Option.getD_some]
      rw [deleteChildLimitTS_tx Hc Hm d r c lim]
      simp only [ht]
      by_cases hc : ((KMap.find c sb.kids).isNone && (KMap.find c d.kids).isNone) = true
      · simp only [hc, if_true]
        exact ⟨⟨rfl, rfl, hbase, hdiffs⟩, by first | trivial | rfl⟩
      · simp only [hc, Bool.false_eq_true, if_false]
        refine ⟨⟨rfl, ?_, hbase, hcons _ e2⟩, ?_⟩
        · simp only [List.map_cons]
          rw [e1]
        · rw [e3, e4]
    · -- start
      simp only [stepTS, startTS, specStep, List.head?_cons, Option.getD_some, SS.top]
      refine ⟨⟨rfl, rfl, hbase, ?_⟩, by first | trivial | rfl⟩
      intro x hx
      rcases List.mem_cons.mp hx with hx | hx
      · subst hx; exact hd
      · exact hcons d hd x hx
    · -- commit
      cases r with
      | nil =>
        simp only [stepTS, commitTS, specStep, applyToTrie_ideal, List.map_nil]
        exact ⟨⟨rfl, rfl, eff_baseInv hbase hd, fun _ h => by simp at h⟩, by first | trivial | rfl⟩
      | cons u r' =>
        simp only [stepTS, commitTS, specStep, List.map_cons]
        refine ⟨⟨rfl, rfl, hbase, ?_⟩, by first | trivial | rfl⟩
        intro x hx
        rcases List.mem_cons.mp hx with hx | hx
        · subst hx; exact hd
        · exact hr x (by simp [hx])
    · -- rollback
      simp only [stepTS, rollbackTS, specStep]
      exact ⟨⟨rfl, rfl, hbase, hr⟩, by first | trivial | rfl⟩

/-- every step of the run is in the fragment (`StepOK` at the state the model has reached) -/
def SafeRun (CK : Bytes → Bool) : TS Logical → List Op → Prop
  | _, [] => True
  | t, op :: r =>
    StepOK CK t op ∧ SafeRun CK (stepTS (idealBackend Hc Hm) D Diff.sortedOrder t op).1 r

/-- whole runs: same observables, and the relation holds at the end -/
theorem sim_run {t : TS Logical} {s : SS} (h : Sim CK t s) (ops : List Op)
    (hops : SafeRun Hc Hm D CK t ops) :
    Sim CK (runTS (idealBackend Hc Hm) D Diff.sortedOrder t ops).1 (specRun Hc Hm s ops).1 ∧
      (runTS (idealBackend Hc Hm) D Diff.sortedOrder t ops).2 = (specRun Hc Hm s ops).2 := by
  induction ops generalizing t s with
  | nil => exact ⟨h, rfl⟩
  | cons op r ih =>
    obtain ⟨h1, h2⟩ := sim_step Hc Hm D h op hops.1
    obtain ⟨h3, h4⟩ := ih h1 hops.2
    simp only [runTS, specRun]
    exact ⟨h3, by rw [h2, h4]⟩

end step

end Gossamer.C08
