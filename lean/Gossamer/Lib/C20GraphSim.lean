/-
C20 layer (b), proofs: the round on the compressed graph (`RoundC`) and the round of the model (`Round`) keep
the same bookkeeping; the graph of `RoundC` is `graphOf` of the inserted votes and the `cum` of `Round` is
their uncompressed cumulative vote.
-/
import Gossamer.Lib.C20GraphAncestor
import Gossamer.Lib.C20Derived
namespace Gossamer.C20

variable {t : Tree}

theorem updateC_book (key : Nat → Nat) (t : Tree) (ws : List Nat) (r : RoundC) :
    (updateC key t ws r).trk = r.trk ∧ (updateC key t ws r).cur = r.cur ∧ (updateC key t ws r).eqv = r.eqv ∧
    (updateC key t ws r).graph = r.graph ∧ (updateC key t ws r).ghost = r.ghost ∧
    (updateC key t ws r).pcGhost = r.pcGhost := by
  unfold updateC
  simp only
  split
  · simp
  · split
    · simp
    · split <;> simp

theorem ghostStepC_book (key : Nat → Nat) (t : Tree) (ws : List Nat) (ph : Bool) (r : RoundC) :
    (ghostStepC key t ws ph r).trk = r.trk ∧ (ghostStepC key t ws ph r).cur = r.cur ∧
    (ghostStepC key t ws ph r).eqv = r.eqv ∧ (ghostStepC key t ws ph r).graph = r.graph := by
  unfold ghostStepC
  split <;> simp

theorem importVoteC_book (key : Nat → Nat) (t : Tree) (ws : List Nat) (r : RoundC) (ph : Bool) (v : Nat)
    (sv : SV) (hv : v < ws.length) :
    let r' := (importVoteC key t ws r ph v sv).2
    r'.trk = (fun p u => if p = ph ∧ u = v then (addVote (r.trk ph v) sv).2 else r.trk p u) ∧
    r'.cur = (fun p => if p = ph ∧ r.trk ph v = none then r.cur p + ws.getD v 0 else r.cur p) ∧
    r'.eqv = (if firstEquivocation (r.trk ph v) sv then setBit r.eqv (bitPos v (phN ph)) else r.eqv) ∧
    r'.graph = (if r.trk ph v = none ∧ sv.blk < t.size
      then r.graph.insert key t sv.blk (bitPos v (phN ph)) else r.graph) := by
  have hv' : ¬ v ≥ ws.length := by omega
  simp only [importVoteC, hv', if_false]
  match hs : r.trk ph v with
  | none =>
    simp only [addVote, firstEquivocation]
    by_cases hb : sv.blk ≥ t.size
    · have hb' : ¬ sv.blk < t.size := by omega
      simp [hb, hb']
    · have hb' : sv.blk < t.size := by omega
      simp only [hb, if_false]
      obtain ⟨h1, h2, h3, h4, _, _⟩ := updateC_book key t ws (ghostStepC key t ws ph
        { r with trk := fun p u => if p = ph ∧ u = v then some (.single sv) else r.trk p u,
                 cur := fun p => if p = ph then r.cur p + ws.getD v 0 else r.cur p,
                 graph := r.graph.insert key t sv.blk (bitPos v (phN ph)) })
      obtain ⟨g1, g2, g3, g4⟩ := ghostStepC_book key t ws ph
        { r with trk := fun p u => if p = ph ∧ u = v then some (.single sv) else r.trk p u,
                 cur := fun p => if p = ph then r.cur p + ws.getD v 0 else r.cur p,
                 graph := r.graph.insert key t sv.blk (bitPos v (phN ph)) }
      rw [h1, h2, h3, h4, g1, g2, g3, g4]
      simp [hb']
  | some (.single a) =>
    simp only [addVote, firstEquivocation]
    by_cases heq : a = sv
    · subst heq
      simp only [if_true]
      refine ⟨?_, by simp, by simp, by simp⟩
      funext p u
      by_cases hpu : p = ph ∧ u = v
      · obtain ⟨rfl, rfl⟩ := hpu; simp [hs]
      · simp [hpu]
    · simp only [heq, if_false]
      obtain ⟨h1, h2, h3, h4, _, _⟩ := updateC_book key t ws (ghostStepC key t ws ph
        { r with trk := fun p u => if p = ph ∧ u = v then some (.equiv a sv) else r.trk p u,
                 eqv := setBit r.eqv (bitPos v (phN ph)) })
      obtain ⟨g1, g2, g3, g4⟩ := ghostStepC_book key t ws ph
        { r with trk := fun p u => if p = ph ∧ u = v then some (.equiv a sv) else r.trk p u,
                 eqv := setBit r.eqv (bitPos v (phN ph)) }
      rw [h1, h2, h3, h4, g1, g2, g3, g4]
      simp [heq]
  | some (.equiv a b) =>
    simp only [addVote, firstEquivocation]
    by_cases heq : a = sv ∨ b = sv
    · simp only [heq, if_true]
      refine ⟨?_, by simp, by simp, by simp⟩
      funext p u
      by_cases hpu : p = ph ∧ u = v
      · obtain ⟨rfl, rfl⟩ := hpu; simp [hs]
      · simp [hpu]
    · simp only [heq, if_false]
      refine ⟨?_, by simp, by simp, by simp⟩
      funext p u
      by_cases hpu : p = ph ∧ u = v
      · obtain ⟨rfl, rfl⟩ := hpu; simp [hs]
      · simp [hpu]

theorem importVoteC_notVoter (key : Nat → Nat) (t : Tree) (ws : List Nat) (r : RoundC) (ph : Bool) (v : Nat)
    (sv : SV) (hv : ¬ v < ws.length) : (importVoteC key t ws r ph v sv).2 = r := by
  have : v ≥ ws.length := by omega
  simp [importVoteC, this]

/-- the votes that were inserted into the vote graph while importing `ops`: the first vote of every voter of
the set in each phase, when its target is a block of the tree -/
def insOf (t : Tree) (ws : List Nat) (ops : List Op) : Ins :=
  (ops.foldl (fun (acc : Round × Ins) o =>
    (step t ws acc.1 o,
     if o.v < ws.length ∧ acc.1.trk o.ph o.v = none ∧ o.sv.blk < t.size
     then acc.2 ++ [(o.sv.blk, bitPos o.v (phN o.ph))] else acc.2)) (Round.init, [])).2

theorem insOf_fst (t : Tree) (ws : List Nat) : ∀ (ops : List Op) (acc : Round × Ins),
    (ops.foldl (fun (acc : Round × Ins) o =>
      (step t ws acc.1 o,
       if o.v < ws.length ∧ acc.1.trk o.ph o.v = none ∧ o.sv.blk < t.size
       then acc.2 ++ [(o.sv.blk, bitPos o.v (phN o.ph))] else acc.2)) acc).1 = ops.foldl (step t ws) acc.1 := by
  intro ops
  induction ops with
  | nil => intro acc; rfl
  | cons o ops ih => intro acc; simp only [List.foldl_cons]; rw [ih]

theorem insOf_append (t : Tree) (ws : List Nat) (ops : List Op) (o : Op) :
    insOf t ws (ops ++ [o]) =
      if o.v < ws.length ∧ (run t ws ops).trk o.ph o.v = none ∧ o.sv.blk < t.size
      then insOf t ws ops ++ [(o.sv.blk, bitPos o.v (phN o.ph))] else insOf t ws ops := by
  unfold insOf
  rw [List.foldl_append]
  simp only [List.foldl_cons, List.foldl_nil]
  rw [insOf_fst]
  rfl

/-- bookkeeping simulation between the two rounds -/
structure BookSim (key : Nat → Nat) (t : Tree) (ws : List Nat) (ops : List Op) (r : Round) (rc : RoundC) :
    Prop where
  trk : rc.trk = r.trk
  cur : rc.cur = r.cur
  eqv : rc.eqv = r.eqv
  cum : r.cum = cumOf t (insOf t ws ops)
  graph : rc.graph = graphOf key t (insOf t ws ops)
  valid : ∀ p, p ∈ insOf t ws ops → p.1 < t.size

theorem runC_append (key : Nat → Nat) (t : Tree) (ws : List Nat) (ops : List Op) (o : Op) :
    runC key t ws (ops ++ [o]) = stepC key t ws (runC key t ws ops) o := by
  simp [runC, List.foldl_append]

theorem bookSim_run (key : Nat → Nat) (t : Tree) (ws : List Nat) : ∀ ops,
    BookSim key t ws ops (run t ws ops) (runC key t ws ops) := by
  have keyl : ∀ (rest pre : List Op), BookSim key t ws pre (run t ws pre) (runC key t ws pre) →
      BookSim key t ws (pre ++ rest) (run t ws (pre ++ rest)) (runC key t ws (pre ++ rest)) := by
    intro rest
    induction rest with
    | nil => intro pre hs; simpa using hs
    | cons o rest ih =>
      intro pre hs
      have h1 : BookSim key t ws (pre ++ [o]) (run t ws (pre ++ [o])) (runC key t ws (pre ++ [o])) := by
        rw [run_append, runC_append]
        unfold step stepC
        by_cases hv : o.v < ws.length
        · obtain ⟨a1, a2, a3, a4⟩ := importVote_book t ws (run t ws pre) o.ph o.v o.sv hv
          obtain ⟨b1, b2, b3, b4⟩ := importVoteC_book key t ws (runC key t ws pre) o.ph o.v o.sv hv
          have htrk : (runC key t ws pre).trk o.ph o.v = (run t ws pre).trk o.ph o.v := by rw [hs.trk]
          refine ⟨?_, ?_, ?_, ?_, ?_, ?_⟩
          · rw [a1, b1, hs.trk]
          · rw [a2, b2, hs.trk, hs.cur]
          · rw [a3, b3, hs.trk, hs.eqv]
          · rw [a4, insOf_append]
            by_cases hc : (run t ws pre).trk o.ph o.v = none ∧ o.sv.blk < t.size
            · have hc' : o.v < ws.length ∧ (run t ws pre).trk o.ph o.v = none ∧ o.sv.blk < t.size :=
                ⟨hv, hc.1, hc.2⟩
              simp only [hc, hc', and_self, if_true]
              rw [cumOf_append, hs.cum]
            · have hc' : ¬ (o.v < ws.length ∧ (run t ws pre).trk o.ph o.v = none ∧ o.sv.blk < t.size) :=
                fun hh => hc ⟨hh.2.1, hh.2.2⟩
              rw [if_neg hc, if_neg hc']; exact hs.cum
          · rw [b4, htrk, insOf_append]
            by_cases hc : (run t ws pre).trk o.ph o.v = none ∧ o.sv.blk < t.size
            · have hc' : o.v < ws.length ∧ (run t ws pre).trk o.ph o.v = none ∧ o.sv.blk < t.size :=
                ⟨hv, hc.1, hc.2⟩
              simp only [hc, hc', and_self, if_true]
              rw [graphOf_append, hs.graph]
            · have hc' : ¬ (o.v < ws.length ∧ (run t ws pre).trk o.ph o.v = none ∧ o.sv.blk < t.size) :=
                fun hh => hc ⟨hh.2.1, hh.2.2⟩
              rw [if_neg hc, if_neg hc']; exact hs.graph
          · intro p hp
            rw [insOf_append] at hp
            by_cases hc' : o.v < ws.length ∧ (run t ws pre).trk o.ph o.v = none ∧ o.sv.blk < t.size
            · simp only [hc', and_self, if_true] at hp
              rcases List.mem_append.1 hp with hp | hp
              · exact hs.valid p hp
              · have : p = (o.sv.blk, bitPos o.v (phN o.ph)) := by simpa using hp
                subst this; exact hc'.2.2
            · simp only [hc', if_false] at hp; exact hs.valid p hp
        · rw [importVote_notVoter t ws _ o.ph o.v o.sv hv, importVoteC_notVoter key t ws _ o.ph o.v o.sv hv]
          have hc' : ¬ (o.v < ws.length ∧ (run t ws pre).trk o.ph o.v = none ∧ o.sv.blk < t.size) :=
            fun hh => hv hh.1
          have hins : insOf t ws (pre ++ [o]) = insOf t ws pre := by rw [insOf_append]; simp only [hc', if_false]
          exact ⟨hs.trk, hs.cur, hs.eqv, by rw [hins]; exact hs.cum, by rw [hins]; exact hs.graph,
            by rw [hins]; exact hs.valid⟩
      have := ih (pre ++ [o]) h1
      simpa [List.append_assoc] using this
  intro ops
  have := keyl ops [] ⟨rfl, rfl, rfl, rfl, rfl, by intro p hp; simp [insOf] at hp⟩
  simpa using this

end Gossamer.C20
