/-
C20: facts about the block tree (`chain`, `le`, `children`) under `Tree.WF`.
-/
import Gossamer.Model.C20
namespace Gossamer.C20

theorem Tree.parent_lt {t : Tree} (h : t.WF) {b : Nat} (hb : 0 < b) : t.parent b < b := by
  by_cases hs : b < t.size
  · exact h.2 b hb hs
  · have : t.parent b = 0 := by
      unfold Tree.parent Tree.size at *
      simp [List.getD, List.getElem?_eq_none (Nat.le_of_not_lt hs)]
    omega

theorem chainUp_fuel {t : Tree} (h : t.WF) : ∀ (f b : Nat), b ≤ f → chainUp t f b = chainUp t b b := by
  intro f
  induction f using Nat.strongRecOn with
  | _ f ih =>
    intro b hb
    cases f with
    | zero => have : b = 0 := by omega
              subst this; rfl
    | succ f =>
      by_cases hb0 : b = 0
      · subst hb0; simp [chainUp]
      · obtain ⟨b', rfl⟩ : ∃ b', b = b' + 1 := ⟨b - 1, by omega⟩
        have hp := Tree.parent_lt h (b := b' + 1) (by omega)
        simp only [chainUp, hb0, if_false]
        rw [ih f (by omega) _ (by omega), ih b' (by omega) _ (by omega)]

theorem Tree.chain_zero (t : Tree) : t.chain 0 = [0] := rfl

theorem Tree.chain_pos {t : Tree} (h : t.WF) {b : Nat} (hb : 0 < b) :
    t.chain b = b :: t.chain (t.parent b) := by
  obtain ⟨b', rfl⟩ : ∃ b', b = b' + 1 := ⟨b - 1, by omega⟩
  have hp := Tree.parent_lt h (b := b' + 1) (by omega)
  unfold Tree.chain
  simp only [chainUp, Nat.succ_ne_zero, if_false]
  rw [chainUp_fuel h _ _ (by omega)]

theorem Tree.mem_chain_self (t : Tree) (b : Nat) : b ∈ t.chain b := by
  unfold Tree.chain
  cases b with
  | zero => simp [chainUp]
  | succ b => simp [chainUp]

/-- every element of the chain of `b` is numerically ≤ `b` -/
theorem Tree.mem_chain_le {t : Tree} (h : t.WF) : ∀ (b a : Nat), a ∈ t.chain b → a ≤ b := by
  intro b
  induction b using Nat.strongRecOn with
  | _ b ih =>
    intro a ha
    by_cases hb : b = 0
    · subst hb; simp [Tree.chain_zero] at ha; omega
    · rw [Tree.chain_pos h (by omega)] at ha
      have hp := Tree.parent_lt h (b := b) (by omega)
      rcases List.mem_cons.1 ha with rfl | ha
      · exact Nat.le_refl _
      · have := ih _ hp a ha; omega

theorem Tree.zero_mem_chain {t : Tree} (h : t.WF) : ∀ b, 0 ∈ t.chain b := by
  intro b
  induction b using Nat.strongRecOn with
  | _ b ih =>
    by_cases hb : b = 0
    · subst hb; simp [Tree.chain_zero]
    · rw [Tree.chain_pos h (by omega)]
      exact List.mem_cons_of_mem _ (ih _ (Tree.parent_lt h (by omega)))

/-- the chain of an element of a chain is a suffix of that chain -/
theorem Tree.chain_suffix {t : Tree} (h : t.WF) : ∀ (b a : Nat), a ∈ t.chain b → t.chain a <:+ t.chain b := by
  intro b
  induction b using Nat.strongRecOn with
  | _ b ih =>
    intro a ha
    by_cases hb : b = 0
    · subst hb; simp [Tree.chain_zero] at ha; subst ha; exact List.suffix_refl _
    · have hb' : 0 < b := by omega
      rw [Tree.chain_pos h hb'] at ha
      rcases List.mem_cons.1 ha with rfl | ha
      · exact List.suffix_refl _
      · rw [Tree.chain_pos h hb']
        exact (ih _ (Tree.parent_lt h hb') a ha).trans (List.suffix_cons _ _)

theorem Tree.le_iff {t : Tree} {a b : Nat} : t.le a b = true ↔ a ∈ t.chain b := by
  simp [Tree.le]

theorem Tree.le_refl (t : Tree) (b : Nat) : t.le b b = true := Tree.le_iff.2 (t.mem_chain_self b)

theorem Tree.le_trans {t : Tree} (h : t.WF) {a b c : Nat} (hab : a ∈ t.chain b) (hbc : b ∈ t.chain c) :
    a ∈ t.chain c := (Tree.chain_suffix h c b hbc).subset hab

theorem Tree.le_antisymm {t : Tree} (h : t.WF) {a b : Nat} (hab : a ∈ t.chain b) (hba : b ∈ t.chain a) :
    a = b := by
  have := Tree.mem_chain_le h _ _ hab
  have := Tree.mem_chain_le h _ _ hba
  omega

/-- two ancestors of the same block are comparable -/
theorem Tree.comparable {t : Tree} (h : t.WF) {a b c : Nat} (ha : a ∈ t.chain c) (hb : b ∈ t.chain c) :
    a ∈ t.chain b ∨ b ∈ t.chain a := by
  have sa := Tree.chain_suffix h c a ha
  have sb := Tree.chain_suffix h c b hb
  rcases Nat.le_total (t.chain a).length (t.chain b).length with hl | hl
  · exact Or.inl ((List.suffix_of_suffix_length_le sa sb hl).subset (t.mem_chain_self a))
  · exact Or.inr ((List.suffix_of_suffix_length_le sb sa hl).subset (t.mem_chain_self b))

theorem Tree.parent_mem_chain {t : Tree} (h : t.WF) {b : Nat} (hb : 0 < b) : t.parent b ∈ t.chain b := by
  rw [Tree.chain_pos h hb]
  exact List.mem_cons_of_mem _ (t.mem_chain_self _)

theorem Tree.mem_children {t : Tree} {B c : Nat} :
    c ∈ t.children B ↔ c < t.size ∧ c ≠ 0 ∧ t.parent c = B := by
  simp [Tree.children, List.mem_filter, List.mem_range]

/-- below a strict ancestor `B` of `b` there is a child of `B` on the chain of `b` -/
theorem Tree.child_towards {t : Tree} (h : t.WF) : ∀ (b B : Nat), B ∈ t.chain b → B ≠ b →
    ∃ c, c ∈ t.chain b ∧ c ≠ 0 ∧ t.parent c = B := by
  intro b
  induction b using Nat.strongRecOn with
  | _ b ih =>
    intro B hB hne
    by_cases hb : b = 0
    · subst hb; simp [Tree.chain_zero] at hB; omega
    · have hB' := hB
      rw [Tree.chain_pos h (by omega)] at hB'
      rcases List.mem_cons.1 hB' with rfl | hB'
      · exact absurd rfl hne
      · by_cases hp : B = t.parent b
        · exact ⟨b, t.mem_chain_self b, hb, hp.symm⟩
        · obtain ⟨c, hc, hc0, hcp⟩ := ih _ (Tree.parent_lt h (by omega)) B hB' hp
          exact ⟨c, Tree.le_trans h hc (Tree.parent_mem_chain h (by omega)), hc0, hcp⟩

/-- `depth` is strictly monotone along chains -/
theorem Tree.depth_lt {t : Tree} (h : t.WF) {a b : Nat} (hab : a ∈ t.chain b) (hne : a ≠ b) :
    (t.chain a).length < (t.chain b).length := by
  have s := Tree.chain_suffix h b a hab
  rcases Nat.lt_or_ge (t.chain a).length (t.chain b).length with hl | hl
  · exact hl
  · exfalso
    have := List.IsSuffix.eq_of_length_le s hl
    have h1 : b ∈ t.chain a := by rw [this]; exact t.mem_chain_self b
    exact hne (Tree.le_antisymm h hab h1)

end Gossamer.C20
