/- Shared SCALE development: universe, canonical compact integers, generic structural codec,
   canonical (Spec) codec and its theorems.  See the sub-modules. -/
import Gossamer.Lib.Scale.Basic
import Gossamer.Lib.Scale.Compact
import Gossamer.Lib.Scale.Codec
import Gossamer.Lib.Scale.Spec
