/-
Shared SCALE development (built for C11 / C12; meant to be reused by C09 / C14 / C33).

  Scale/Basic.lean    `Prim`, `Ty`, `Val`, `wt` (well-typed values), little-endian digit lemmas.
                      `Ty` is NOT nested: a struct/tuple is a `pair … unit` chain (fields in encoding
                      order), a varying data type is an `enumCons idx ty rest … enumNil` chain, so
                      plain `induction t` works.  Sequences/arrays are `Val.list`.
  Scale/Compact.lean  `compactEnc` / `compactDec`: canonical compact integers (< 2^536) with
                      `compactDec_enc` (round trip) and `compactDec_sound` (only canonical forms decode).
  Scale/Codec.lean    `Codec` (primitive layer), `encode C` / `decode C` (structural layer, generic),
                      `Codec.RT` / `Codec.Snd` laws, theorems `roundtrip`, `roundtripOn` (relative to
                      a leaf predicate), `sound` (needs `Ty.wf`), `truncated`, `encode_inj`, `encode_congr`.
  Scale/Spec.lean     `Spec.codec`: the canonical SCALE codec (this is the independent reference
                      encoder/decoder), `Spec.rt`, `Spec.snd`, `Spec.roundtrip/sound/truncated`.

The Go implementation (pkg/scale) is modelled in `Gossamer/Model/C11.lean` (`C11.codec`,
`C11.marshal`, `C11.unmarshal`, `C11.marshalGo`, `C11.fieldOrder`) and `Gossamer/Model/C12.lean`
(`C12.decodeA`: result + largest read buffer + zero-fill flag).  `Gossamer/Props/C11.lean` relates every
Go primitive to the canonical one (`encP_canonical`, `decPA_spec`); `Gossamer/Props/C12.lean` proves
`C12_refines` (Go decoder vs canonical decoder).  `Gossamer/Lib/ScaleText.lean` parses the harness's
type/value syntax (drivers only); `Gossamer/Lib/ScaleMap.lean` models Go maps (drivers only).
-/
import Gossamer.Lib.Scale.Basic
import Gossamer.Lib.Scale.Compact
import Gossamer.Lib.Scale.Codec
import Gossamer.Lib.Scale.Spec
