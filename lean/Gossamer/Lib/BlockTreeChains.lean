/-
Chains of parent pointers from a node to the root: numbers, uniqueness, suffixes.  Used for Range and
LowestCommonAncestor.
-/
import Gossamer.Lib.BlockTreeBest

namespace Gossamer.BlockTree

theorem takeWhile_eq_take {α : Type} [DecidableEq α] : ∀ (l : List α) (k : Nat) (a : α), l.Nodup →
    (hk : k < l.length) → l[k] = a → l.takeWhile (fun x => decide (x ≠ a)) = l.take k := by
  intro l
  induction l with
  | nil => intro k a _ hk; simp at hk
  | cons x xs ih =>
    intro k a hn hk he
    cases k with
    | zero =>
      simp only [List.getElem_cons_zero] at he
      simp [List.takeWhile, he]
    | succ k =>
      simp only [List.getElem_cons_succ] at he
      simp only [List.length_cons] at hk
      have hxa : x ≠ a := by
        intro h
        rw [List.nodup_cons] at hn
        exact hn.1 (h ▸ he ▸ List.getElem_mem _)
      simp only [List.takeWhile, hxa, ne_eq, not_false_eq_true, decide_true, List.take_succ_cons]
      rw [ih k a (List.nodup_cons.1 hn).2 (by omega) he]

/-- the chain of a node of the forest, read from one of its elements on, is the chain of that element -/
theorem pathF_suffix {h : Hash} : ∀ f q, (descF f).Nodup → pathF h f = some q →
    ∀ j (hj : j < q.length), pathF q[j].hash f = some (q.drop j) := by
  intro f
  induction f using forest_ind with
  | nil => simp [pathF]
  | cons i cs rest ih1 ih2 =>
    intro q hd hq j hj
    simp only [descF, List.nodup_cons, List.mem_append, List.nodup_append, not_or] at hd
    obtain ⟨hi, hcs, hrest, hdis⟩ := hd
    simp only [pathF] at hq
    split at hq
    · cases hq
      simp only [List.length_cons, List.length_nil] at hj
      have : j = 0 := by omega
      subst this
      simp [pathF]
    · next hih =>
      split at hq
      · next q' hq' =>
        cases hq
        simp only [List.length_append, List.length_cons, List.length_nil] at hj
        by_cases hjq : j < q'.length
        · have := ih1 q' hcs hq' j hjq
          have hmem : q'[j].hash ∈ descF cs := pathF_mem this
          have hne : ¬ i.hash = q'[j].hash := fun e => hi.1 (e ▸ hmem)
          rw [List.getElem_append_left hjq]
          simp only [pathF, hne, if_false, this]
          rw [List.drop_append_of_le_length (by omega)]
        · have : j = q'.length := by omega
          subst this
          simp [pathF]
      · next hq' =>
        have := ih2 q hrest hq j hj
        have hmem : q[j].hash ∈ descF rest := pathF_mem this
        have hne : ¬ i.hash = q[j].hash := fun e => hi.2 (e ▸ hmem)
        have hnc : pathF q[j].hash cs = none :=
          (pathF_none cs).2 (fun hc => hdis _ hc _ hmem rfl)
        simp only [pathF, hne, if_false, hnc, this]

/-- facts about `BT.up h` for a held block of a reachable tree -/
structure UpFacts (bt : BT) (h : Hash) (up : List Info) : Prop where
  ne : up ≠ []
  head : up[0]?.map (·.hash) = some h
  last : up.getLast? = some bt.root.info
  nums : ∀ j (hj : j < up.length), up[j].number + j = bt.root.info.number + (up.length - 1)
  mem : ∀ x ∈ up, x ∈ infosF [bt.root]
  suffix : ∀ j (hj : j < up.length), bt.up up[j].hash = up.drop j

theorem up_facts {bt : BT} (hi : Inv bt) {h : Hash} (hh : h ∈ descF [bt.root]) : UpFacts bt h (bt.up h) := by
  have hnums := hi.nums
  have hnd := hi.nodup
  unfold BT.up
  cases hq : pathF h [bt.root] with
  | none => exact absurd hh ((pathF_none _).1 hq)
  | some q =>
    simp only [Option.getD_some]
    obtain ⟨⟨i', r, hqe, hi'⟩, _, hm⟩ := pathF_shape _ q hq
    have hsuf := pathF_suffix [bt.root] _ hnd hq
    refine ⟨by rw [hqe]; simp, by rw [hqe]; simp [hi'], ?_, ?_, hm, ?_⟩
    · cases hr : bt.root with
      | mk ri cs =>
        rw [hr, pathF_root] at hq
        split at hq
        · cases hq; rfl
        · cases hp : pathF h cs with
          | none => simp [hp] at hq
          | some p =>
            simp only [hp, Option.map_some, Option.some.injEq] at hq
            rw [← hq]; simp
    · cases hr : bt.root with
      | mk ri cs =>
        rw [hr] at hnums
        simp only [Node.info_mk, Node.children_mk] at hnums
        rw [hr, pathF_root] at hq
        split at hq
        · cases hq
          intro j hj
          simp only [List.length_cons, List.length_nil] at hj
          have : j = 0 := by omega
          subst this; simp
        · cases hp : pathF h cs with
          | none => simp [hp] at hq
          | some p =>
            simp only [hp, Option.map_some, Option.some.injEq] at hq
            have hpn := pathF_numbers cs _ p hnums hp
            subst hq
            intro j hj
            simp only [List.length_append, List.length_cons, List.length_nil] at hj ⊢
            simp only [Node.info_mk]
            by_cases hjp : j < p.length
            · have := hpn j hjp
              rw [List.getElem_append_left hjp]; omega
            · have hje : j = p.length := by omega
              subst hje
              simp
    · intro j hj
      show (pathF q[j].hash [bt.root]).getD [] = q.drop j
      rw [hsuf j hj]; rfl

/-- two elements of a chain with the same hash sit at the same place -/
theorem up_index_inj {bt : BT} (hi : Inv bt) {h : Hash} {up : List Info} (hu : UpFacts bt h up)
    {j k : Nat} (hj : j < up.length) (hk : k < up.length) (he : up[j].hash = up[k].hash) : j = k := by
  have hx := hu.mem _ (List.getElem_mem hj)
  have hy := hu.mem _ (List.getElem_mem hk)
  have : up[j] = up[k] := inj_of_nodup_map (·.hash) (infosF [bt.root])
    (by rw [← descF_eq_map_infos]; exact hi.nodup) _ _ hx hy he
  have h1 := hu.nums j hj
  have h2 := hu.nums k hk
  rw [this] at h1
  omega

theorem up_hashes_nodup {bt : BT} (hi : Inv bt) {h : Hash} {up : List Info} (hu : UpFacts bt h up) :
    (up.map (·.hash)).Nodup := by
  rw [List.nodup_iff_pairwise_ne, List.pairwise_iff_getElem]
  intro j k hj hk hlt he
  simp only [List.length_map] at hj hk
  simp only [List.getElem_map] at he
  have := up_index_inj hi hu hj hk he
  omega

end Gossamer.BlockTree
