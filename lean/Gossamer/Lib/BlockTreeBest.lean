/-
Fork choice: `highestLeaf` and `bestBlock` compute the maximum of a total order, whatever the iteration order.
-/
import Gossamer.Lib.BlockTreeNumbers

namespace Gossamer.BlockTree

/-- the order `highestLeaf` maximises: higher number, then earlier arrival, then lower hash -/
def hlBetter (x y : Info) : Prop :=
  x.number > y.number ∨ (x.number = y.number ∧
    (x.arrival < y.arrival ∨ (x.arrival = y.arrival ∧ x.hash < y.hash)))

instance (x y : Info) : Decidable (hlBetter x y) := by unfold hlBetter; infer_instance

theorem hlBetter_trans {x y z : Info} (h1 : hlBetter x y) (h2 : hlBetter y z) : hlBetter x z := by
  unfold hlBetter at *; omega

/-- negative transitivity (the order is a strict weak order) -/
theorem hlBetter_negtrans {x y z : Info} (h1 : ¬ hlBetter x y) (h2 : ¬ hlBetter y z) : ¬ hlBetter x z := by
  unfold hlBetter at *; omega

theorem hlBetter_total {x y : Info} (h : x.hash ≠ y.hash) : hlBetter x y ∨ hlBetter y x := by
  unfold hlBetter; omega

theorem hlBetter_irrefl (x : Info) : ¬ hlBetter x x := by unfold hlBetter; omega

/-- one step keeps the better of the two -/
theorem hlStep_some {m : Nat} {d x : Info} (hm : d.number = m) :
    ∃ d', hlStep (m, some d) x = some (d'.number, some d') ∧ (d' = d ∨ d' = x) ∧
      ¬ hlBetter d d' ∧ ¬ hlBetter x d' := by
  subst hm
  unfold hlStep
  simp only
  by_cases h1 : d.number < x.number
  · exact ⟨x, by simp [h1], Or.inr rfl, by unfold hlBetter; omega, hlBetter_irrefl x⟩
  · by_cases h2 : d.number = x.number
    · by_cases h3 : x.arrival < d.arrival
      · exact ⟨x, by simp [h2, h3], Or.inr rfl, by unfold hlBetter; omega, hlBetter_irrefl x⟩
      · by_cases h4 : x.arrival = d.arrival
        · by_cases h5 : x.hash < d.hash
          · exact ⟨x, by simp [h2, h4, h5], Or.inr rfl, by unfold hlBetter; omega, hlBetter_irrefl x⟩
          · exact ⟨d, by simp [h2, h4, h5], Or.inl rfl, hlBetter_irrefl d, by unfold hlBetter; omega⟩
        · exact ⟨d, by simp [h2, h3, h4], Or.inl rfl, hlBetter_irrefl d, by unfold hlBetter; omega⟩
    · exact ⟨d, by simp [h1, h2], Or.inl rfl, hlBetter_irrefl d, by unfold hlBetter; omega⟩

theorem hlFold_some : ∀ (g : List Info) (m : Nat) (d : Info), d.number = m →
    ∃ d', hlFold (m, some d) g = some (d'.number, some d') ∧ d' ∈ d :: g ∧ ∀ x ∈ d :: g, ¬ hlBetter x d' := by
  intro g
  induction g with
  | nil =>
    intro m d hm
    exact ⟨d, by simp [hlFold, hm], by simp, by simp [hlBetter_irrefl]⟩
  | cons x xs ih =>
    intro m d hm
    obtain ⟨d1, hs, hor, hb1, hb2⟩ := hlStep_some (x := x) hm
    obtain ⟨d', hf, hmem, hall⟩ := ih d1.number d1 rfl
    refine ⟨d', by simp only [hlFold, hs, hf], ?_, ?_⟩
    · simp only [List.mem_cons] at hmem ⊢
      rcases hmem with h | h
      · rcases hor with h' | h' <;> simp [h, h']
      · exact Or.inr (Or.inr h)
    · intro y hy
      have hd1 : ¬ hlBetter d1 d' := hall d1 (by simp)
      simp only [List.mem_cons] at hy
      rcases hy with rfl | rfl | hy
      · exact hlBetter_negtrans hb1 hd1
      · exact hlBetter_negtrans hb2 hd1
      · exact hall y (by simp [hy])

/-- `highestLeaf` over a non-empty list of nodes with positive numbers returns a maximal element -/
theorem highestLeaf_some {g : List Info} (hne : g ≠ []) (hpos : ∀ x ∈ g, 0 < x.number) :
    ∃ d', highestLeaf g = some (some d') ∧ d' ∈ g ∧ ∀ x ∈ g, ¬ hlBetter x d' := by
  cases g with
  | nil => exact absurd rfl hne
  | cons x xs =>
    have hx := hpos x (by simp)
    obtain ⟨d', hf, hmem, hall⟩ := hlFold_some xs x.number x rfl
    refine ⟨d', ?_, hmem, hall⟩
    simp only [highestLeaf, hlFold, hlStep, hx, if_true, hf, Option.map_some]

/-! ### the maximum of the primary counts -/

theorem foldl_max_fn {α : Type} (f : α → Nat) : ∀ (l : List α) (acc : Nat),
    let r := l.foldl (fun hi x => if f x > hi then f x else hi) acc
    acc ≤ r ∧ (∀ x ∈ l, f x ≤ r) ∧ (r = acc ∨ ∃ x ∈ l, f x = r) := by
  intro l
  induction l with
  | nil => intro acc; simp
  | cons a as ih =>
    intro acc
    simp only [List.foldl_cons, List.mem_cons]
    have := ih (if f a > acc then f a else acc)
    by_cases ha : f a > acc
    · simp only [ha, if_true] at this ⊢
      obtain ⟨h1, h2, h3⟩ := this
      refine ⟨by omega, ?_, ?_⟩
      · rintro x (rfl | hx)
        · exact h1
        · exact h2 x hx
      · rcases h3 with h3 | ⟨x, hx, he⟩
        · exact Or.inr ⟨a, Or.inl rfl, h3.symm⟩
        · exact Or.inr ⟨x, Or.inr hx, he⟩
    · simp only [ha, if_false] at this ⊢
      obtain ⟨h1, h2, h3⟩ := this
      refine ⟨h1, ?_, ?_⟩
      · rintro x (rfl | hx)
        · omega
        · exact h2 x hx
      · rcases h3 with h3 | ⟨x, hx, he⟩
        · exact Or.inl h3
        · exact Or.inr ⟨x, Or.inr hx, he⟩

theorem highestCount_spec (root : Node) (it : List Info) :
    (∀ x ∈ it, primaryCount root x.hash ≤ highestCount root it) ∧
    (it ≠ [] → ∃ x ∈ it, primaryCount root x.hash = highestCount root it) := by
  have := foldl_max_fn (fun x : Info => primaryCount root x.hash) it 0
  simp only at this
  obtain ⟨_, h2, h3⟩ := this
  refine ⟨h2, ?_⟩
  intro hne
  rcases h3 with h3 | h3
  · cases it with
    | nil => exact absurd rfl hne
    | cons a as =>
      refine ⟨a, by simp, ?_⟩
      have := h2 a (by simp)
      unfold highestCount
      omega
  · exact h3

/-! ### primary counts: tree = flat view -/

theorem linkUp_primary (q : List Info) (p : Hash) :
    ((linkUp q p).filter (·.primary)).length = (q.filter (·.primary)).length := by
  induction q with
  | nil => rfl
  | cons x r ih =>
    by_cases hx : x.primary <;> simp [linkUp, List.filter_cons, hx, ih]

theorem primaries_eq {t : Node} (hd : (descF [t]).Nodup) {h : Hash} (hh : h ∈ descF [t]) :
    (specOfNode t).primaries h = primaryCount t h := by
  cases t with
  | mk i cs =>
    unfold Spec.primaries primaryCount
    rw [pathF_root]
    by_cases hi : i.hash = h
    · subst hi; simp [chain_root hd]
    · simp only [hi, if_false]
      simp only [descF, List.append_nil, List.mem_cons] at hh
      have hcs : h ∈ descF cs := by rcases hh with h1 | h1; exact absurd h1.symm hi; exact h1
      cases hq : pathF h cs with
      | none => exact absurd hcs ((pathF_none cs).1 hq)
      | some q =>
        rw [chain_eq_linkUp hd hq, linkUp_primary]
        simp

end Gossamer.BlockTree
