/-
C20: `weight(bits.Iter1sEven/Odd(), voters)` and the merged variants of context.go over the bitfield model
equal the mask weights of the round model: Σ of the weights of the voters whose bit (2·voter + phase) is set.
-/
import Gossamer.Lib.C20BitfieldLemmas
import Gossamer.Lib.C20Sum
namespace Gossamer.C20.BF

/-- Σ_{j<n} f j -/
def sumTo (f : Nat → Nat) : Nat → Nat
  | 0 => 0
  | n + 1 => sumTo f n + f n

theorem sumTo_congr {f g : Nat → Nat} : ∀ n, (∀ j, j < n → f j = g j) → sumTo f n = sumTo g n := by
  intro n
  induction n with
  | zero => intro _; rfl
  | succ n ih => intro h; simp only [sumTo]; rw [ih (fun j hj => h j (by omega)), h n (by omega)]

theorem sumTo_add (f : Nat → Nat) (a : Nat) : ∀ b, sumTo f (a + b) = sumTo f a + sumTo (fun j => f (a + j)) b := by
  intro b
  induction b with
  | zero => rfl
  | succ b ih => rw [← Nat.add_assoc]; simp only [sumTo]; rw [ih]; omega

theorem sumTo_zero (f : Nat → Nat) : ∀ n, (∀ j, j < n → f j = 0) → sumTo f n = 0 := by
  intro n
  induction n with
  | zero => intro _; rfl
  | succ n ih => intro h; simp only [sumTo]; rw [ih (fun j hj => h j (by omega)), h n (by omega)]

/-- extending the range over terms that vanish -/
theorem sumTo_extend (f : Nat → Nat) (n N : Nat) (hN : n ≤ N) (hz : ∀ j, n ≤ j → f j = 0) :
    sumTo f N = sumTo f n := by
  obtain ⟨d, rfl⟩ : ∃ d, N = n + d := ⟨N - n, by omega⟩
  rw [sumTo_add, sumTo_zero _ d (fun j _ => hz (n + j) (by omega))]
  rfl

theorem sumTo_front (f : Nat → Nat) (n : Nat) : sumTo f (n + 1) = f 0 + sumTo (fun k => f (k + 1)) n := by
  have := sumTo_add f 1 n
  rw [Nat.add_comm 1 n] at this
  rw [this]
  simp only [sumTo, Nat.zero_add]
  congr 1
  exact sumTo_congr n (fun j _ => by rw [Nat.add_comm])

theorem wsumFrom_eq_sumTo (p : Nat → Bool) : ∀ (ws : List Nat) (i : Nat),
    wsumFrom p i ws = sumTo (fun k => if p (i + k) then ws.getD k 0 else 0) ws.length := by
  intro ws
  induction ws with
  | nil => intro i; rfl
  | cons w ws ih =>
    intro i
    simp only [wsumFrom, List.length_cons]
    rw [sumTo_front, ih (i + 1)]
    simp only [Nat.add_zero, List.getD_cons_zero]
    congr 1
    apply sumTo_congr
    intro j _
    have : i + 1 + j = i + (j + 1) := by omega
    rw [this]
    simp [List.getD_cons_succ]

/-- weight of voter `v` as `weight` of context.go sees it (`Nth` returns nil beyond the set) -/
def wt (ws : List Nat) (v : Nat) : Nat := if v < ws.length then ws.getD v 0 else 0

theorem wsum_eq_sumTo (ws : List Nat) (p : Nat → Bool) (N : Nat) (hN : ws.length ≤ N) :
    wsum ws p = sumTo (fun v => if p v then wt ws v else 0) N := by
  unfold wsum
  rw [wsumFrom_eq_sumTo, sumTo_extend _ ws.length N hN]
  · apply sumTo_congr
    intro j hj
    simp [wt, hj]
  · intro j hj
    have : ¬ j < ws.length := by omega
    simp [wt, this]

/-! ### the Go `weight` loop -/

theorem weight_acc (ws : List Nat) : ∀ (bits : List Nat) (acc : Nat),
    bits.foldl (fun tot pos => if pos / 2 < ws.length then tot + ws.getD (pos / 2) 0 else tot) acc
      = acc + weight ws bits := by
  intro bits
  induction bits with
  | nil => intro acc; simp [weight]
  | cons x xs ih =>
    intro acc
    unfold weight
    simp only [List.foldl_cons]
    rw [ih, ih (if x / 2 < ws.length then 0 + ws.getD (x / 2) 0 else 0)]
    split <;> omega

theorem weight_nil (ws : List Nat) : weight ws [] = 0 := rfl

theorem weight_append (ws : List Nat) (a b : List Nat) : weight ws (a ++ b) = weight ws a + weight ws b := by
  unfold weight
  rw [List.foldl_append, weight_acc]
  rfl

theorem weight_single (ws : List Nat) (x : Nat) : weight ws [x] = wt ws (x / 2) := by
  unfold weight wt
  simp only [List.foldl_cons, List.foldl_nil]
  split <;> simp

/-- the positions `iterWord` lists for the first `n` steps -/
def iterWordN (word i ph n : Nat) : List Nat :=
  (List.range n).filterMap (fun j =>
    if word.testBit (63 - (ph + 2 * j)) then some (i * 64 + (ph + 2 * j)) else none)

theorem iterWord_eq (word i ph : Nat) (hph : ph < 2) : iterWord word i ph 1 = iterWordN word i ph 32 := by
  unfold iterWord iterWordN
  have h1 : (64 >>> 1) - (ph >>> 1) = 32 := by
    have : ph >>> 1 = 0 := by
      rw [Nat.shiftRight_eq_div_pow]; omega
    rw [this]; decide
  rw [h1]
  congr 1
  funext j
  simp only [testBitGo_eq, Nat.shiftLeft_eq]
  have : j * 2 ^ 1 = 2 * j := by omega
  rw [this]

theorem weight_iterWordN (ws : List Nat) (word i ph : Nat) (hph : ph < 2) : ∀ n,
    weight ws (iterWordN word i ph n) =
      sumTo (fun j => if word.testBit (63 - (ph + 2 * j)) then wt ws (32 * i + j) else 0) n := by
  intro n
  induction n with
  | zero => rfl
  | succ n ih =>
    unfold iterWordN at ih ⊢
    rw [List.range_succ, List.filterMap_append, weight_append, ih]
    simp only [sumTo]
    congr 1
    by_cases htb : word.testBit (63 - (ph + 2 * n)) = true
    · simp only [List.filterMap_cons, List.filterMap_nil, htb, if_true]
      rw [weight_single]
      have : (i * 64 + (ph + 2 * n)) / 2 = 32 * i + n := by omega
      rw [this]
    · simp only [List.filterMap_cons, List.filterMap_nil, htb, if_false]
      rfl

/-- `weight(iter1s(words, ph, 1))` over the words `rest` that follow `pre` in the bitfield -/
theorem weight_iterFrom (ws : List Nat) (ph : Nat) (hph : ph < 2) : ∀ (rest pre : Words),
    weight ws (iterFrom ph 1 pre.length rest) =
      sumTo (fun j => if get (pre ++ rest) (2 * (32 * pre.length + j) + ph) then wt ws (32 * pre.length + j) else 0)
        (32 * rest.length) := by
  intro rest
  induction rest with
  | nil => intro pre; rfl
  | cons w rest ih =>
    intro pre
    simp only [iterFrom, weight_append, List.length_cons]
    have hsplit : 32 * (rest.length + 1) = 32 + 32 * rest.length := by omega
    rw [hsplit, sumTo_add]
    congr 1
    · -- the word itself
      have hword : ∀ j, j < 32 →
          get (pre ++ w :: rest) (2 * (32 * pre.length + j) + ph) = w.testBit (63 - (ph + 2 * j)) := by
        intro j hj
        unfold get
        have h1 : (2 * (32 * pre.length + j) + ph) / 64 = pre.length := by omega
        have h2 : (2 * (32 * pre.length + j) + ph) % 64 = ph + 2 * j := by omega
        rw [h1, h2]
        simp [List.getD_eq_getElem?_getD]
      by_cases hw : w = 0
      · subst hw
        simp only [if_true, weight_nil]
        symm
        apply sumTo_zero
        intro j hj
        rw [hword j hj]; simp
      · simp only [hw, if_false]
        rw [iterWord_eq w pre.length ph hph, weight_iterWordN ws w pre.length ph hph]
        apply sumTo_congr
        intro j hj
        rw [hword j hj]
    · have := ih (pre ++ [w])
      simp only [List.length_append, List.length_cons, List.length_nil, List.append_assoc,
        List.singleton_append] at this
      rw [this]
      apply sumTo_congr
      intro j _
      have e1 : 32 * (pre.length + 0 + 1) + j = 32 * pre.length + (32 + j) := by omega
      simp only [Nat.add_zero] at e1 ⊢
      rw [e1]

/-- positions beyond the words are not set -/
theorem get_beyond (b : Words) (q : Nat) (h : b.length ≤ q / 64) : get b q = false := by
  unfold get
  simp [List.getD_eq_getElem?_getD, List.getElem?_eq_none h]

/-- **weight(bits.Iter1sEven()/Iter1sOdd(), voters)** = Σ weights of the voters whose bit of that phase is set -/
theorem weight_iter1s (ws : List Nat) (b : Words) (ph : Nat) (hph : ph < 2) :
    weight ws (iter1s b ph 1) = wsum ws (fun v => get b (bitPos v ph)) := by
  have h1 := weight_iterFrom ws ph hph b []
  simp only [List.length_nil, Nat.mul_zero, Nat.zero_add, List.nil_append] at h1
  unfold iter1s
  rw [h1]
  let N := max ws.length (32 * b.length)
  rw [wsum_eq_sumTo ws _ N (by omega)]
  rw [← sumTo_extend _ (32 * b.length) N (by omega)]
  · apply sumTo_congr
    intro j _
    rfl
  · intro j hj
    have : get b (2 * j + ph) = false := get_beyond b _ (by omega)
    simp [this]

theorem getD_zipOr : ∀ (a b : Words) (i : Nat), (zipOr a b).getD i 0 = (a.getD i 0 ||| b.getD i 0) := by
  intro a
  induction a with
  | nil => intro b i; simp [zipOr]
  | cons x xs ih =>
    intro b i
    cases b with
    | nil => simp [zipOr]
    | cons y ys =>
      cases i with
      | zero => simp [zipOr]
      | succ i => simpa [zipOr] using ih ys i

theorem get_zipOr (a b : Words) (q : Nat) : get (zipOr a b) q = (get a q || get b q) := by
  unfold get; rw [getD_zipOr, Nat.testBit_or]

/-- **weight(bits.Iter1sMergedEven/Odd(other), voters)** = Σ weights of the voters whose bit is set in either -/
theorem weight_iter1sMerged (ws : List Nat) (a b : Words) (ph : Nat) (hph : ph < 2) :
    weight ws (iter1sMerged a b ph 1) = wsum ws (fun v => get a (bitPos v ph) || get b (bitPos v ph)) := by
  unfold iter1sMerged
  rw [weight_iter1s ws _ ph hph]
  exact wsum_congr (fun v _ => get_zipOr a b _)

/-- `roundContext.Weight(node, phase)` of context.go, with its `IsBlank` fast path -/
def contextWeight (ws : List Nat) (equivocations node : Words) (ph : Nat) : Nat :=
  if isBlank equivocations then weight ws (iter1s node ph 1)
  else weight ws (iter1sMerged node equivocations ph 1)

/-- context.Weight on bitfields that represent the model's masks is the model's `nodeWeight` -/
theorem contextWeight_eq (ws : List Nat) {eb nb : Words} {e n : Nat} (he : Rep eb e) (hn : Rep nb n) (ph : Bool) :
    contextWeight ws eb nb (phN ph) = nodeWeight ws e n ph := by
  have hph : phN ph < 2 := by unfold phN; split <;> omega
  unfold contextWeight nodeWeight maskWeight
  split
  · rename_i hb
    rw [weight_iter1s ws nb _ hph]
    apply wsum_congr
    intro v _
    rw [Nat.testBit_or, ← hn, ← he, isBlank_get hb]; simp
  · rw [weight_iter1sMerged ws nb eb _ hph]
    apply wsum_congr
    intro v _
    rw [Nat.testBit_or, ← hn, ← he]

end Gossamer.C20.BF
