/-
C20 layer (b): executable model of the COMPRESSED vote graph of pkg/finality-grandpa/vote_graph.go.
Vote-nodes only exist for blocks that received a vote (plus the base); every entry keeps the hashes of the
blocks between it and its ancestor vote-node (`ancestors`, parent first, ancestor vote-node last), the
vote-nodes directly below it (`descendants`, in insertion order) and the cumulative vote of its subtree.

Mirrors: `voteGraphEntry.inDirectAncestry / ancestorBlock / ancestorNode`, `NewVoteGraph`, `append`,
`introduceBranch`, `Insert`, `findContainingNodes`, `ghostFindMergePoint`, `FindGHOST`, `FindAncestor`.
Blocks are tree indices (the hash), `key b` is the rank of the real hash (btree / `heads.Keys()` order),
numbers are relative to the base (base = block 0 = number 0).  `AdjustBase` is not used by `Round`.
Core Lean only (the driver runs it).
-/
import Gossamer.Model.C20
namespace Gossamer.C20

structure Entry where
  number : Nat
  ancestors : List Nat
  descendants : List Nat
  cum : Mask
  deriving Repr, DecidableEq

/-- `ancestorBlock(num)` -/
def Entry.ancestorBlock (e : Entry) (num : Nat) : Option Nat :=
  if num ≥ e.number then none else e.ancestors[e.number - num - 1]?

/-- `inDirectAncestry(hash, num)`: `none` = the graph must be traversed further back -/
def Entry.inDirectAncestry (e : Entry) (hash num : Nat) : Option Bool :=
  (e.ancestorBlock num).map (fun h => h == hash)

/-- `ancestorNode()` -/
def Entry.ancestorNode (e : Entry) : Option Nat := e.ancestors.getLast?

structure Graph where
  entries : Nat → Option Entry
  heads : List Nat

def Graph.set (g : Graph) (h : Nat) (e : Entry) : Graph :=
  { g with entries := fun x => if x = h then some e else g.entries x }

/-- `NewVoteGraph(base, baseNumber, node, …)` -/
def Graph.init : Graph :=
  { entries := fun x => if x = 0 then some ⟨0, [], [], 0⟩ else none, heads := [0] }

/-- block number relative to the base -/
def Tree.num (t : Tree) (b : Nat) : Nat := (t.chain b).length - 1

/-- `heads.Keys()`: the heads in hash order -/
def Graph.sortedHeads (key : Nat → Nat) (g : Graph) : List Nat :=
  g.heads.mergeSort (fun a b => key a ≤ key b)

/-- the inner loop of `findContainingNodes` for one head: walk towards the base until the block is found in
an ancestor edge (`some node`), excluded, or a visited node is met -/
def walkHead (g : Graph) (hash num : Nat) : Nat → Nat → List Nat → Option Nat × List Nat
  | 0, _, vis => (none, vis)
  | f + 1, head, vis =>
    match g.entries head with
    | none => (none, vis)
    | some e =>
      if vis.contains head then (none, vis) else
      match e.inDirectAncestry hash num with
      | none =>
        match e.ancestorNode with
        | some prev => walkHead g hash num f prev (head :: vis)
        | none => (none, head :: vis)
      | some true => (some head, head :: vis)
      | some false => (none, head :: vis)

/-- `findContainingNodes`: `none` = there is a vote-node for the block already -/
def Graph.findContaining (key : Nat → Nat) (fuel : Nat) (g : Graph) (hash num : Nat) : Option (List Nat) :=
  if (g.entries hash).isSome then none else
  some ((g.sortedHeads key).foldl (fun (st : List Nat × List Nat) head =>
    match walkHead g hash num fuel head st.2 with
    | (some h, vis) => (st.1 ++ [h], vis)
    | (none, vis) => (st.1, vis)) ([], [])).1

/-- `append`: a new vote-node below the first ancestor that is a vote-node -/
def Graph.append (t : Tree) (g : Graph) (hash num : Nat) : Graph :=
  let ancestry := (t.chain hash).tail        -- parent, …, base
  match ancestry.findIdx? (fun a => (g.entries a).isSome) with
  | none => g
  | some i =>
    let a := ancestry.getD i 0
    match g.entries a with
    | none => g
    | some ea =>
      let g1 := g.set a { ea with descendants := ea.descendants ++ [hash] }
      let g2 := g1.set hash ⟨num, ancestry.take (i + 1), [], 0⟩
      { g2 with heads := (g2.heads.filter (· != a)) ++ (if g2.heads.contains hash then [] else [hash]) }

structure BranchAcc where
  entries : Nat → Option Entry
  maybe : Option (Entry × Option Nat)

/-- `introduceBranch`: a new vote-node inside the ancestor edges of `descendants` -/
def Graph.introduceBranch (g : Graph) (descendants : List Nat) (ancHash ancNum : Nat) : Graph :=
  let acc := descendants.foldl (fun (acc : BranchAcc) d =>
    match acc.entries d with
    | none => acc
    | some e =>
      let prevAnc := e.ancestorNode
      let offset := e.number - ancNum
      let newAnc := e.ancestors.drop offset
      let e' := { e with ancestors := e.ancestors.take offset }
      let ents := fun x => if x = d then some e' else acc.entries x
      let m : Entry × Option Nat := match acc.maybe with
        | none => (⟨ancNum, newAnc, [], 0⟩, prevAnc)
        | some m => m
      { entries := ents,
        maybe := some ({ m.1 with descendants := m.1.descendants ++ [d], cum := m.1.cum ||| e.cum }, m.2) })
    ⟨g.entries, none⟩
  match acc.maybe with
  | none => { g with entries := acc.entries }
  | some (ne, prev) =>
    let ents1 : Nat → Option Entry := match prev with
      | none => acc.entries
      | some p =>
        match acc.entries p with
        | none => acc.entries
        | some pe =>
          let ds := pe.descendants.filter (fun d => !ne.descendants.contains d) ++ [ancHash]
          fun x => if x = p then some { pe with descendants := ds } else acc.entries x
    { g with entries := fun x => if x = ancHash then some ne else ents1 x }

/-- the loop "update cumulative vote data" of `Insert` -/
def Graph.addUp (pos : Nat) : Nat → Graph → Nat → Graph
  | 0, g, _ => g
  | f + 1, g, h =>
    match g.entries h with
    | none => g
    | some e =>
      let g' := g.set h { e with cum := setBit e.cum pos }
      match e.ancestorNode with
      | some p => Graph.addUp pos f g' p
      | none => g'

/-- `Insert(hash, num, vote, chain)` for a block of the tree -/
def Graph.insert (key : Nat → Nat) (t : Tree) (g : Graph) (hash pos : Nat) : Graph :=
  let num := t.num hash
  let g1 := match g.findContaining key (t.size + 1) hash num with
    | none => g
    | some [] => g.append t hash num
    | some ds => g.introduceBranch ds hash num
  Graph.addUp pos (t.size + 1) g1 hash

end Gossamer.C20
