/-
C03, second run: snapshot isolation of the trie states handed out by dot/state
`InmemoryStorageState` (`TrieState(root)` on a cache hit and on a cache miss, `StoreTrie`, `Tries`).
The MODEL is the one of C04's second run (`C04.stepModel`: one heap shared by all tries, the cache of
tries holding trie OBJECTS, `LoadFromDB`, `Snapshot`) plus `fresh` (a new storage state with an empty
cache over the same database).  The SPECIFICATION is a forest of independent maps: one pure `Trie`
value per handle; `tstate h` copies the value of `h`; a write changes the value of its handle only.
Observable of an op: result token and the entries of EVERY handle.
-/
import Gossamer.Model.C04
namespace Gossamer.C03S
open Gossamer Gossamer.Trie Gossamer.TrieHeap

inductive SOp where
  | base (op : C04.Op)
  | fresh
  | start

structure SSt where
  /-- model: heap, database, handles, cache of tries -/
  m : C04.St
  /-- specification: the map of every handle -/
  spec : List Trie
  /-- ghost: handles that were given to `StoreTrie` (their trie object is shared with the cache and
      with the snapshots taken from it; callers stop writing to them) -/
  frozen : List Nat := []
  /-- ghost: some write went through a frozen handle (region of `parent-write-after-snapshot`) -/
  kf : Bool := false

def SSt.init : SSt := { m := C04.St.init, spec := [Trie.nil] }

def modelViews (s : C04.St) : String :=
  let rec go (i : Nat) : List MTrie → List String
    | [] => []
    | x :: r => ("h" ++ toString i ++ ":" ++ C03.showEntries s.hp x.t) :: go (i + 1) r
  C02.joinWith " " (go 0 s.ts)

def specViews (ts : List Trie) : String :=
  let rec go (i : Nat) : List Trie → List String
    | [] => []
    | x :: r => ("h" ++ toString i ++ ":" ++ C02.modelEntries x) :: go (i + 1) r
  C02.joinWith " " (go 0 ts)

/-- the root of handle `h` was persisted by a `store` (ghost of the C04 model) -/
def persisted (H : Bytes → Bytes) (s : C04.St) (h : Nat) : Bool :=
  match s.ts[h]? with
  | none => false
  | some m => s.persisted.contains ((hash H s.hp m.t).2.getD [])

/-- the specification's forest after `op`, and the result token it demands (`none`: no demand) -/
def specStep (H : Bytes → Bytes) (s : SSt) (grew : Bool) : C04.Op → List Trie × Option String
  | .put h k v =>
    match s.spec[h]? with
    | some t => (C03.setAt s.spec h (Trie.put t k v), some "ok")
    | none => (s.spec, none)
  | .del h k =>
    match s.spec[h]? with
    | some t => (C03.setAt s.spec h (Trie.delete t k), some "ok")
    | none => (s.spec, none)
  | .clr h p =>
    match s.spec[h]? with
    | some t => (C03.setAt s.spec h (Trie.clearPrefix t p), some "ok")
    | none => (s.spec, none)
  | .tstate h =>
    match s.spec[h]? with
    | some t =>
      if persisted H s.m h then (s.spec ++ [t], some ("h" ++ toString s.spec.length))
      else if grew then (s.spec ++ [t], none) else (s.spec, none)
    | none => (s.spec, none)
  | .gs h k =>
    match s.spec[h]? with
    | some t => (s.spec, if persisted H s.m h then some (C02.showOpt (Trie.get t k)) else none)
    | none => (s.spec, none)
  | .ents h =>
    match s.spec[h]? with
    | some t => (s.spec, if persisted H s.m h then some (C02.modelEntries t) else none)
    | none => (s.spec, none)
  | _ => (s.spec, none)

/-- one op: new state, model observable, specification observable, Go panic -/
def stepS (H : Bytes → Bytes) (s : SSt) : SOp → SSt × String × String × Bool
  | .start => (s, "ok " ++ modelViews s.m, "ok " ++ specViews s.spec, false)
  | .fresh =>
    let m' := { s.m with cache := [] }
    ({ s with m := m' }, "ok " ++ modelViews m', "ok " ++ specViews s.spec, false)
  | .base op =>
    let x := C04.stepModel H s.m op
    if x.2.1 == "bad-op" then (s, "bad-op", "bad-op", false)
    else
      let grew := x.1.ts.length > s.m.ts.length
      let sp := specStep H s grew op
      let frozen := match op with
        | .store h => h :: s.frozen
        | _ => s.frozen
      let kf := s.kf || (match op.writes with
        | some h => s.frozen.contains h
        | none => false)
      let s' : SSt := { m := x.1, spec := sp.1, frozen := frozen, kf := kf }
      if x.2.2 then (s', x.2.1, (sp.2.getD x.2.1) ++ " " ++ specViews sp.1, true)
      else (s', x.2.1 ++ " " ++ modelViews x.1, (sp.2.getD x.2.1) ++ " " ++ specViews sp.1, false)

def runFrom (H : Bytes → Bytes) (s : SSt) : List SOp → List (String × String) × Bool
  | [] => ([], s.kf)
  | op :: r =>
    let x := stepS H s op
    if x.2.2.2 then ([(x.2.1, x.2.2.1)], x.1.kf)
    else
      let rest := runFrom H x.1 r
      ((x.2.1, x.2.2.1) :: rest.1, rest.2)

def parseOp (s : String) : SOp :=
  match words s with
  | ["state"] => .start
  | ["fresh"] => .fresh
  | _ =>
    match C04.parseOp s with
    | .put h k v => .base (.put h k v)
    | .del h k => .base (.del h k)
    | .clr h p => .base (.clr h p)
    | .ver h v => .base (.ver h v)
    | .hash h => .base (.hash h)
    | .store h => .base (.store h)
    | .evict h => .base (.evict h)
    | .tstate h => .base (.tstate h)
    | .gs h k => .base (.gs h k)
    | .ents h => .base (.ents h)
    | _ => .base .bad

/-- is this a line of the second run?  (Some op belongs to the vocabulary of the second run only; on
    lines made of the common ops `put del clr ver hash` alone the two runs agree, which keeps shrunk
    lines meaningful.) -/
def isStateLine (line : String) : Bool :=
  (line.splitOn ";").any (fun op =>
    match words op with
    | w :: _ => ["state", "fresh", "store", "evict", "tstate", "gs", "ents"].contains w
    | [] => false)

/-- output of the driver for a line of the second run -/
def step (H : Bytes → Bytes) (line : String) : String :=
  let ops := (line.splitOn ";").map parseOp
  let r := runFrom H SSt.init ops
  let m := C02.joinWith ";" (r.1.map (·.1))
  let s := C02.joinWith ";" (r.1.map (·.2))
  if m == s then m
  else m ++ "\tspec=" ++ s ++ (if r.2 then "\tkf=parent-write-after-snapshot" else "")

end Gossamer.C03S
