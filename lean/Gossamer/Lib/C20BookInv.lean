/-
C20: the bookkeeping invariant – after importing ANY list of votes the trackers, current weights,
equivocation bits and cumulative vote bits are exactly what membership facts about the list say.
-/
import Gossamer.Lib.C20Book
namespace Gossamer.C20

theorem votesOf_append_ne (ops : List Op) (o : Op) (ph : Bool) (v : Nat) (h : ¬ (o.ph = ph ∧ o.v = v)) :
    votesOf (ops ++ [o]) ph v = votesOf ops ph v := by
  rw [votesOf_append]; simp [h]

theorem votesOf_append_eq (ops : List Op) (o : Op) :
    votesOf (ops ++ [o]) o.ph o.v = votesOf ops o.ph o.v ++ [o.sv] := by
  rw [votesOf_append]; simp

/-- list-level equivocation test (`isEquiv ops ph v = isEquivL (votesOf ops ph v)` by definition) -/
def isEquivL (l : List SV) : Bool := l.any (fun a => l.any (fun b => a != b))

theorem isEquivL_iff (l : List SV) : isEquivL l = true ↔ distinct2 l := by
  simp [isEquivL, distinct2, List.any_eq_true]

theorem isEquiv_eq (ops : List Op) (ph : Bool) (v : Nat) : isEquiv ops ph v = isEquivL (votesOf ops ph v) := rfl

theorem firstEquivocation_iff (l : List SV) (sv : SV) :
    firstEquivocation (trkOf l) sv = true ↔ (¬ distinct2 l ∧ ∃ a, a ∈ l ∧ a ≠ sv) := by
  have hs := trkOf_spec l
  match hl : trkOf l, hs with
  | none, hs =>
    simp only [TrkSpec] at hs; subst hs
    simp [firstEquivocation]
  | some (.single a), hs =>
    obtain ⟨hh, hall⟩ := hs
    have ha : a ∈ l := by
      cases l with
      | nil => simp at hh
      | cons x xs => simp at hh; subst hh; simp
    simp only [firstEquivocation, decide_eq_true_eq]
    constructor
    · intro hne
      refine ⟨?_, a, ha, hne⟩
      rintro ⟨x, hx, y, hy, hxy⟩
      exact hxy ((hall x hx).trans (hall y hy).symm)
    · rintro ⟨_, x, hx, hxs⟩
      rw [hall x hx] at hxs; exact hxs
  | some (.equiv a b), hs =>
    have : distinct2 l := (trkOf_equiv_iff l).1 ⟨a, b, hl⟩
    simp [firstEquivocation, this]

theorem isEquivL_append (l : List SV) (sv : SV) :
    isEquivL (l ++ [sv]) = (isEquivL l || firstEquivocation (trkOf l) sv) := by
  apply Bool.eq_iff_iff.2
  rw [Bool.or_eq_true, isEquivL_iff, isEquivL_iff, firstEquivocation_iff]
  constructor
  · rintro ⟨a, ha, b, hb, hab⟩
    by_cases hd : distinct2 l
    · exact Or.inl hd
    · right
      refine ⟨hd, ?_⟩
      rcases List.mem_append.1 ha with ha1 | ha1 <;> rcases List.mem_append.1 hb with hb1 | hb1
      · exact absurd ⟨a, ha1, b, hb1, hab⟩ hd
      · have : b = sv := by simpa using hb1
        exact ⟨a, ha1, this ▸ hab⟩
      · have : a = sv := by simpa using ha1
        exact ⟨b, hb1, this ▸ (fun h => hab h.symm)⟩
      · have h1 : a = sv := by simpa using ha1
        have h2 : b = sv := by simpa using hb1
        exact absurd (h1.trans h2.symm) hab
  · rintro (⟨a, ha, b, hb, hab⟩ | ⟨_, a, ha, hne⟩)
    · exact ⟨a, List.mem_append_left _ ha, b, List.mem_append_left _ hb, hab⟩
    · exact ⟨a, List.mem_append_left _ ha, sv, by simp, hne⟩

structure BookInv (t : Tree) (ws : List Nat) (ops : List Op) (r : Round) : Prop where
  trk : ∀ ph v, r.trk ph v = if v < ws.length then trkOf (votesOf ops ph v) else none
  cur : ∀ ph, r.cur ph = voteWeight ws ops ph
  eqv : ∀ ph v, r.eqv.testBit (bitPos v (phN ph)) = (decide (v < ws.length) && isEquiv ops ph v)
  cum : ∀ B ph v, (r.cum B).testBit (bitPos v (phN ph)) = (decide (v < ws.length) && firstGE t ops ph v B)

theorem wsumFrom_false : ∀ (ws : List Nat) (i : Nat), wsumFrom (fun _ => false) i ws = 0 := by
  intro ws
  induction ws with
  | nil => intro i; rfl
  | cons w ws ih => intro i; simp [wsumFrom, ih]

theorem bookInv_init (t : Tree) (ws : List Nat) : BookInv t ws [] Round.init := by
  refine ⟨?_, ?_, ?_, ?_⟩
  · intro ph v; simp [Round.init, votesOf, trkOf]
  · intro ph
    simp only [Round.init, voteWeight, hasVote, votesOf]
    have : wsum ws (fun _ => false) = 0 := wsumFrom_false ws 0
    simpa using this.symm
  · intro ph v; simp [Round.init, isEquiv, votesOf]
  · intro B ph v; simp [Round.init, firstGE, votesOf]

theorem bookInv_step {t : Tree} {ws : List Nat} {ops : List Op} {r : Round} (inv : BookInv t ws ops r)
    (o : Op) : BookInv t ws (ops ++ [o]) (step t ws r o) := by
  unfold step
  by_cases hv : o.v < ws.length
  · -- a voter of the set
    obtain ⟨hT, hC, hE, hG⟩ := importVote_book t ws r o.ph o.v o.sv hv
    have hslot : r.trk o.ph o.v = trkOf (votesOf ops o.ph o.v) := by rw [inv.trk]; simp [hv]
    refine ⟨?_, ?_, ?_, ?_⟩
    · intro ph v
      rw [hT]
      by_cases hpv : ph = o.ph ∧ v = o.v
      · obtain ⟨rfl, rfl⟩ := hpv
        simp only [and_self, if_true, hv]
        rw [votesOf_append_eq, trkOf_append, hslot]
      · have hpv' : ¬ (o.ph = ph ∧ o.v = v) := fun h => hpv ⟨h.1.symm, h.2.symm⟩
        simp only [hpv, if_false]
        rw [votesOf_append_ne _ _ _ _ hpv', inv.trk]
    · intro ph
      rw [hC]
      simp only [voteWeight]
      by_cases hp : ph = o.ph
      · subst hp
        by_cases hn : r.trk o.ph o.v = none
        · simp only [hn, and_self, if_true]
          rw [inv.cur, voteWeight]
          have hl : votesOf ops o.ph o.v = [] := trkOf_none.1 (hslot ▸ hn)
          refine (wsum_set o.v hv ?_ ?_ ?_).symm
          · intro j hj
            simp only [hasVote]
            rw [votesOf_append_ne _ _ _ _ (fun h => hj h.2.symm)]
          · simp [hasVote, hl]
          · simp [hasVote, votesOf_append_eq]
        · simp only [hn, and_false, if_false]
          rw [inv.cur, voteWeight]
          have hl : votesOf ops o.ph o.v ≠ [] := fun h => hn (hslot ▸ trkOf_none.2 h)
          apply wsum_congr
          intro v _
          simp only [hasVote]
          by_cases hvv : v = o.v
          · subst hvv
            rw [votesOf_append_eq]
            cases hl' : votesOf ops o.ph o.v with
            | nil => exact absurd hl' hl
            | cons a l => simp
          · rw [votesOf_append_ne _ _ _ _ (fun h => hvv h.2.symm)]
      · have : ¬ (ph = o.ph ∧ r.trk o.ph o.v = none) := fun h => hp h.1
        simp only [this, if_false]
        rw [inv.cur, voteWeight]
        apply wsum_congr
        intro v _
        simp only [hasVote]
        rw [votesOf_append_ne _ _ _ _ (fun h => hp h.1.symm)]
    · intro ph v
      rw [hE]
      by_cases hpv : ph = o.ph ∧ v = o.v
      · obtain ⟨rfl, rfl⟩ := hpv
        rw [isEquiv_eq, votesOf_append_eq, isEquivL_append, ← isEquiv_eq, ← hslot]
        cases hf : firstEquivocation (r.trk o.ph o.v) o.sv
        · simp [inv.eqv]
        · simp [testBit_setBit, inv.eqv, hv]
      · have hpv' : ¬ (o.ph = ph ∧ o.v = v) := fun h => hpv ⟨h.1.symm, h.2.symm⟩
        have hne : ¬ bitPos o.v (phN o.ph) = bitPos v (phN ph) := by
          rw [bitPos_inj]; exact fun h => hpv ⟨h.2.symm, h.1.symm⟩
        rw [isEquiv_eq, votesOf_append_ne _ _ _ _ hpv', ← isEquiv_eq]
        cases hf : firstEquivocation (r.trk o.ph o.v) o.sv
        · simp [inv.eqv]
        · simp [testBit_setBit, inv.eqv, hne]
    · intro B ph v
      rw [hG]
      by_cases hpv : ph = o.ph ∧ v = o.v
      · obtain ⟨rfl, rfl⟩ := hpv
        by_cases hn : r.trk o.ph o.v = none
        · have hl : votesOf ops o.ph o.v = [] := trkOf_none.1 (hslot ▸ hn)
          have hold : (r.cum B).testBit (bitPos o.v (phN o.ph)) = false := by
            rw [inv.cum]; simp [firstGE, hl]
          by_cases hb : o.sv.blk < t.size
          · simp only [hn, hb, and_self, if_true, insert]
            simp only [firstGE, votesOf_append_eq, hl, List.nil_append, List.head?_cons, hb, decide_true,
              Bool.true_and, hv]
            by_cases hm : B ∈ t.chain o.sv.blk
            · simp [hm, testBit_setBit, Tree.le]
            · simp [hm, hold, Tree.le]
          · simp only [hn, hb, and_false, if_false, hold]
            simp [firstGE, votesOf_append_eq, hl, hb]
        · have hl : votesOf ops o.ph o.v ≠ [] := fun h => hn (hslot ▸ trkOf_none.2 h)
          simp only [hn, false_and, if_false]
          rw [inv.cum]
          simp only [firstGE, votesOf_append_eq]
          cases hl' : votesOf ops o.ph o.v with
          | nil => exact absurd hl' hl
          | cons a l => simp
      · have hpv' : ¬ (o.ph = ph ∧ o.v = v) := fun h => hpv ⟨h.1.symm, h.2.symm⟩
        have hne : ¬ bitPos o.v (phN o.ph) = bitPos v (phN ph) := by
          rw [bitPos_inj]; exact fun h => hpv ⟨h.2.symm, h.1.symm⟩
        have hfg : firstGE t (ops ++ [o]) ph v B = firstGE t ops ph v B := by
          simp only [firstGE]; rw [votesOf_append_ne _ _ _ _ hpv']
        rw [hfg]
        by_cases hc : r.trk o.ph o.v = none ∧ o.sv.blk < t.size
        · simp only [hc, and_self, if_true, insert]
          by_cases hm : B ∈ t.chain o.sv.blk
          · simp [hm, testBit_setBit, hne, inv.cum]
          · simp [hm, inv.cum]
        · simp only [hc, if_false, inv.cum]
  · -- not a voter: nothing changes, and the spec side only looks at voters of the set
    rw [importVote_notVoter t ws r o.ph o.v o.sv hv]
    have hne : ∀ ph v, v < ws.length → votesOf (ops ++ [o]) ph v = votesOf ops ph v := by
      intro ph v hlt
      exact votesOf_append_ne _ _ _ _ (fun h => hv (h.2 ▸ hlt))
    refine ⟨?_, ?_, ?_, ?_⟩
    · intro ph v
      by_cases hlt : v < ws.length
      · rw [inv.trk, hne ph v hlt]
      · rw [inv.trk]; simp [hlt]
    · intro ph
      rw [inv.cur]
      apply wsum_congr
      intro v hlt
      simp only [hasVote, hne ph v hlt]
    · intro ph v
      rw [inv.eqv]
      by_cases hlt : v < ws.length
      · simp only [isEquiv_eq, hne ph v hlt]
      · simp [hlt]
    · intro B ph v
      rw [inv.cum]
      by_cases hlt : v < ws.length
      · simp only [firstGE, hne ph v hlt]
      · simp [hlt]

theorem run_append (t : Tree) (ws : List Nat) (ops : List Op) (o : Op) :
    run t ws (ops ++ [o]) = step t ws (run t ws ops) o := by
  simp [run, List.foldl_append]

/-- induction over import histories, adding one vote at the end -/
theorem run_induction {t : Tree} {ws : List Nat} (P : List Op → Round → Prop)
    (h0 : P [] Round.init)
    (hstep : ∀ ops o, P ops (run t ws ops) → P (ops ++ [o]) (step t ws (run t ws ops) o)) :
    ∀ ops, P ops (run t ws ops) := by
  have key : ∀ (rest pre : List Op), P pre (run t ws pre) → P (pre ++ rest) (run t ws (pre ++ rest)) := by
    intro rest
    induction rest with
    | nil => intro pre h; simpa using h
    | cons x rest ih =>
      intro pre h
      have h1 := hstep pre x h
      rw [← run_append] at h1
      have := ih (pre ++ [x]) h1
      simpa [List.append_assoc] using this
  intro ops
  simpa using key ops [] h0

theorem bookInv_run (t : Tree) (ws : List Nat) (ops : List Op) : BookInv t ws ops (run t ws ops) :=
  run_induction (fun ops r => BookInv t ws ops r) (bookInv_init t ws)
    (fun _ o h => bookInv_step h o) ops

end Gossamer.C20
