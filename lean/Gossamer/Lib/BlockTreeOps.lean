/-
Effect of `addChild` and `prune` on the forest traversals.
-/
import Gossamer.Lib.BlockTreeSpecLemmas

namespace Gossamer.BlockTree

/-! ### addChild -/

theorem mem_desc_add {ph : Hash} {c : Node} {x : Hash} : ∀ f,
    (x ∈ descF (addChildF ph c f) ↔ x ∈ descF f ∨ (ph ∈ descF f ∧ x ∈ descF [c])) := by
  intro f
  induction f using forest_ind with
  | nil => simp [addChildF, descF]
  | cons i cs rest ih1 ih2 =>
    simp only [addChildF]
    split
    · simp only [descF, descF_append, List.mem_cons, List.mem_append]; grind
    · split
      · next h => rw [occF_iff] at h; simp only [descF, List.mem_cons, List.mem_append, ih1]; grind
      · next h => rw [occF_iff] at h; simp only [descF, List.mem_cons, List.mem_append, ih2]; grind

theorem nodup_add {ph : Hash} {c : Node} : ∀ f, (descF f).Nodup → (descF [c]).Nodup →
    (∀ x ∈ descF [c], x ∉ descF f) → (descF (addChildF ph c f)).Nodup := by
  intro f
  induction f using forest_ind with
  | nil => simp [addChildF, descF]
  | cons i cs rest ih1 ih2 =>
    intro hd hc hdis
    simp only [descF, List.nodup_cons, List.mem_append, List.nodup_append, List.mem_cons] at hd hdis
    obtain ⟨hi, hcs, hrest, hcr⟩ := hd
    simp only [addChildF]
    split
    · simp only [descF, descF_append, List.nodup_cons, List.mem_append, List.nodup_append]
      refine ⟨?_, ⟨hcs, hc, ?_⟩, hrest, ?_⟩
      · grind
      · intro a ha b hb hab; subst hab; exact (hdis a hb) (Or.inr (Or.inl ha))
      · intro a ha b hb hab; subst hab
        rcases ha with ha | ha
        · exact hcr a ha a hb rfl
        · exact (hdis a ha) (Or.inr (Or.inr hb))
    · split
      · next h =>
        rw [occF_iff] at h
        have := ih1 hcs hc (fun x hx hm => hdis x hx (Or.inr (Or.inl hm)))
        simp only [descF, List.nodup_cons, List.mem_append, List.nodup_append, mem_desc_add]
        refine ⟨?_, this, hrest, ?_⟩
        · grind
        · intro a ha b hb hab; subst hab
          rcases ha with ha | ⟨_, ha⟩
          · exact hcr a ha a hb rfl
          · exact (hdis a ha) (Or.inr (Or.inr hb))
      · next h =>
        rw [occF_iff] at h
        have := ih2 hrest hc (fun x hx hm => hdis x hx (Or.inr (Or.inr hm)))
        simp only [descF, List.nodup_cons, List.mem_append, List.nodup_append, mem_desc_add]
        refine ⟨?_, hcs, this, ?_⟩
        · grind
        · intro a ha b hb hab; subst hab
          rcases hb with hb | ⟨_, hb⟩
          · exact hcr a ha a hb rfl
          · exact (hdis a hb) (Or.inr (Or.inl ha))

theorem blocksF_append (p : Hash) (f g : Forest) : blocksF p (f ++ g) = blocksF p f ++ blocksF p g := by
  induction f using forest_ind with
  | nil => simp [blocksF]
  | cons i cs rest ih1 ih2 => simp [blocksF, ih2]

theorem mem_blocks_add {ph : Hash} {c : Node} {b : Block} : ∀ f p,
    (b ∈ blocksF p (addChildF ph c f) ↔ b ∈ blocksF p f ∨ (ph ∈ descF f ∧ b ∈ blocksF ph [c])) := by
  intro f
  induction f using forest_ind with
  | nil => simp [addChildF, blocksF, descF]
  | cons i cs rest ih1 ih2 =>
    intro p
    simp only [addChildF]
    split
    · next h => simp only [blocksF, blocksF_append, descF, List.mem_cons, List.mem_append, h]; grind
    · split
      · next h => rw [occF_iff] at h; simp only [blocksF, descF, List.mem_cons, List.mem_append, ih1]; grind
      · next h => rw [occF_iff] at h; simp only [blocksF, descF, List.mem_cons, List.mem_append, ih2]; grind

theorem leavesF_append (f g : Forest) : leavesF (f ++ g) = leavesF f ++ leavesF g := by
  induction f using forest_ind with
  | nil => simp [leavesF]
  | cons i cs rest ih1 ih2 => simp [leavesF, ih2]

theorem leavesF_sub_infos : ∀ f x, x ∈ leavesF f → x ∈ infosF f := by
  intro f
  induction f using forest_ind with
  | nil => simp [leavesF]
  | cons i cs rest ih1 ih2 =>
    intro x hx
    simp only [leavesF, List.mem_append, infosF, List.mem_cons] at hx ⊢
    rcases hx with hx | hx | hx
    · split at hx <;> simp_all
    · exact Or.inr (Or.inl (ih1 x hx))
    · exact Or.inr (Or.inr (ih2 x hx))

theorem leaf_hash_mem {f : Forest} {x : Info} (hx : x ∈ leavesF f) : x.hash ∈ descF f := by
  rw [descF_eq_map_infos]; exact List.mem_map.2 ⟨x, leavesF_sub_infos f x hx, rfl⟩

theorem mem_leaves_add {ph : Hash} {n x : Info} : ∀ f, (descF f).Nodup → ph ∈ descF f →
    (x ∈ leavesF (addChildF ph (.mk n []) f) ↔ (x ∈ leavesF f ∧ x.hash ≠ ph) ∨ x = n) := by
  intro f
  induction f using forest_ind with
  | nil => simp [descF]
  | cons i cs rest ih1 ih2 =>
    intro hd hph
    simp only [descF, List.nodup_cons, List.mem_append, List.nodup_append, List.mem_cons] at hd hph
    obtain ⟨hi, hcs, hrest, hcr⟩ := hd
    have lc : ∀ y, y ∈ leavesF cs → y.hash ∈ descF cs := fun y hy => leaf_hash_mem hy
    have lr : ∀ y, y ∈ leavesF rest → y.hash ∈ descF rest := fun y hy => leaf_hash_mem hy
    simp only [addChildF]
    split
    · next h =>
      subst h
      have he : (cs ++ [Node.mk n []]).isEmpty = false := by cases cs <;> rfl
      simp only [leavesF, leavesF_append, List.mem_append, he, Bool.false_eq_true, if_false,
        List.not_mem_nil, false_or, List.isEmpty_nil, if_true, List.mem_singleton, List.append_nil]
      have := lc x; have := lr x
      by_cases hce : cs.isEmpty <;> simp only [hce] <;> grind
    · next hne =>
      split
      · next h =>
        rw [occF_iff] at h
        have := ih1 hcs h
        have hne' : (addChildF ph (.mk n []) cs).isEmpty = cs.isEmpty := by
          cases cs with
          | nil => simp [descF] at h
          | cons c cs' =>
            cases c
            simp only [addChildF]
            split
            · rfl
            · split <;> rfl
        simp only [leavesF, List.mem_append, hne', this]
        have := lr x
        by_cases hce : cs.isEmpty <;> simp only [hce] <;> grind
      · next h =>
        rw [occF_iff] at h
        have hpr : ph ∈ descF rest := by grind
        have := ih2 hrest hpr
        simp only [leavesF, List.mem_append, this]
        have := lc x
        by_cases hce : cs.isEmpty <;> simp only [hce] <;> grind

theorem numOK_add {ph : Hash} {n : Info} : ∀ f pn, numOKF pn f →
    (∀ pnode, findF ph f = some pnode → n.number = pnode.info.number + 1) →
    numOKF pn (addChildF ph (.mk n []) f) := by
  intro f
  induction f using forest_ind with
  | nil => intro pn _ _; simp [addChildF, numOKF]
  | cons i cs rest ih1 ih2 =>
    intro pn hn hp
    simp only [numOKF] at hn
    simp only [findF] at hp
    simp only [addChildF]
    split
    · next h =>
      simp only [h, if_true] at hp
      have := hp _ rfl
      simp only [Node.info_mk] at this
      simp only [numOKF]
      refine ⟨hn.1, ?_, hn.2.2⟩
      have : ∀ (g : Forest), numOKF i.number g → numOKF i.number (g ++ [.mk n []]) := by
        intro g
        induction g with
        | nil => intro _; simp [numOKF, this]
        | cons c g ih => intro hg; cases c; simp only [List.cons_append, numOKF] at hg ⊢; exact ⟨hg.1, hg.2.1, ih hg.2.2⟩
      exact this cs hn.2.1
    · next hne =>
      simp only [hne, if_false] at hp
      split
      · next h =>
        rw [occF_iff] at h
        simp only [numOKF]
        refine ⟨hn.1, ih1 i.number hn.2.1 ?_, hn.2.2⟩
        intro pnode hf; apply hp; simp [hf]
      · next h =>
        rw [occF_iff] at h
        simp only [numOKF]
        refine ⟨hn.1, hn.2.1, ih2 pn hn.2.2 ?_⟩
        intro pnode hf; apply hp
        have : findF ph cs = none := (findF_none cs).2 h
        simp [this, hf]

end Gossamer.BlockTree
