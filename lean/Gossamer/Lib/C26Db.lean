/-
C26 — a second invariant of the block state of Model/C17, about the header table: it holds the finalised
chain only (numbers at most the root's, parents present with number − 1, no hash shared with a non-root tree
node), every stored record is the universe's header of its hash, and no known header hashes to the zero hash.
Used to show that `GetHeader` parent links strictly decrease the number (termination of `findAncestor` across
finalisation).  Core Lean only.
-/
import Gossamer.Lib.C17Step
namespace Gossamer.C26
open Gossamer.C17

structure DbInv (blk : Nat → Blk) (g : Blk) (bs : C17.St) : Prop where
  treeU : ∀ b ∈ bs.tree, b = blk b.hash
  dbU : ∀ h x, findB bs.dbHdr h = some x → x = blk h
  treeNum : ∀ rb, findB bs.tree bs.root = some rb → ∀ b ∈ bs.tree, b.hash ≠ bs.root → rb.number < b.number
  dbTree : ∀ h x, findB bs.dbHdr h = some x → h ≠ bs.root → findB bs.tree h = none
  dbNum : ∀ rb, findB bs.tree bs.root = some rb → ∀ h x, findB bs.dbHdr h = some x → x.number ≤ rb.number
  dbParent : ∀ h x, findB bs.dbHdr h = some x → h ≠ g.hash →
    ∃ p, findB bs.dbHdr x.parent = some p ∧ p.number + 1 = x.number
  nozeroT : findB bs.tree 0 = none
  nozeroD : findB bs.dbHdr 0 = none

theorem DbInv_init (blk : Nat → Blk) (g : Blk) (hg : blk g.hash = g) (h0 : g.hash ≠ 0) :
    DbInv blk g (C17.St.init g) where
  treeU := by intro b hb; simp [C17.St.init] at hb; subst hb; exact hg.symm
  dbU := by
    intro h x hx
    simp only [C17.St.init, findB_cons, findB_nil] at hx
    by_cases hh : g.hash = h
    · simp only [hh, if_true, Option.some.injEq] at hx; rw [← hx, ← hh, hg]
    · simp [hh] at hx
  treeNum := by
    intro rb _ b hb hr
    simp [C17.St.init] at hb; subst hb; exact absurd rfl hr
  dbTree := by
    intro h x hx hr
    simp only [C17.St.init, findB_cons, findB_nil] at hx
    by_cases hh : g.hash = h
    · exact absurd hh.symm hr
    · simp [hh] at hx
  dbNum := by
    intro rb hrb h x hx
    simp only [C17.St.init, findB_cons, findB_nil] at hx hrb
    simp only [if_true, Option.some.injEq] at hrb
    by_cases hh : g.hash = h
    · simp only [hh, if_true, Option.some.injEq] at hx; rw [← hx, ← hrb]; exact Nat.le_refl _
    · simp [hh] at hx
  dbParent := by
    intro h x hx hr
    simp only [C17.St.init, findB_cons, findB_nil] at hx
    by_cases hh : g.hash = h
    · exact absurd hh.symm hr
    · simp [hh] at hx
  nozeroT := by simp [C17.St.init, findB_cons, findB_nil, h0]
  nozeroD := by simp [C17.St.init, findB_cons, findB_nil, h0]

/-- the invariant does not look at maps, tries or round keys -/
theorem DbInv_congr {blk : Nat → Blk} {g : Blk} {bs bs' : C17.St} (d : DbInv blk g bs) (h1 : bs'.root = bs.root)
    (h2 : bs'.tree = bs.tree) (h3 : bs'.dbHdr = bs.dbHdr) : DbInv blk g bs' where
  treeU := by rw [h2]; exact d.treeU
  dbU := by rw [h3]; exact d.dbU
  treeNum := by rw [h1, h2]; exact d.treeNum
  dbTree := by rw [h1, h2, h3]; exact d.dbTree
  dbNum := by rw [h1, h2, h3]; exact d.dbNum
  dbParent := by rw [h3]; exact d.dbParent
  nozeroT := by rw [h2]; exact d.nozeroT
  nozeroD := by rw [h3]; exact d.nozeroD

theorem DbInv_add {blk : Nat → Blk} {g : Blk} {bs : C17.St} (inv : Inv g bs) (d : DbInv blk g bs) (h : Nat)
    (hh : (blk h).hash = h) (h0 : h ≠ 0) : DbInv blk g (addBlock bs (blk h)).1 := by
  rcases addBlock_cases bs (blk h) with he | ⟨p, hp, hnone, hn, heq⟩
  · rw [he]; exact d
  · rw [heq]
    have hrootSome := inv.tree.rootIn
    have hfind : ∀ x, (findB bs.tree x).isSome → findB (bs.tree ++ [blk h]) x = findB bs.tree x := by
      intro x hx
      rw [findB_append]
      cases hf : findB bs.tree x with
      | some y => rfl
      | none => rw [hf] at hx; cases hx
    have hpt := (findB_some hp).1
    have hbnum : ∀ rb, findB bs.tree bs.root = some rb → rb.number < (blk h).number := by
      intro rb hrb
      by_cases hpr : p.hash = bs.root
      · have : p = rb := inv.tree.uniq.eq_of_hash hpt (findB_some hrb).1 (hpr.trans (findB_some hrb).2.symm)
        subst this; omega
      · have := d.treeNum rb hrb p hpt hpr; omega
    refine ⟨?_, d.dbU, ?_, ?_, ?_, d.dbParent, ?_, d.nozeroD⟩
    · intro b hb
      rcases List.mem_append.mp hb with hb | hb
      · exact d.treeU b hb
      · simp only [List.mem_singleton] at hb; subst hb; rw [hh]
    · intro rb hrb b hb hr
      have hrb' : findB bs.tree bs.root = some rb := by
        have := hfind bs.root hrootSome
        exact this ▸ hrb
      rcases List.mem_append.mp hb with hb | hb
      · exact d.treeNum rb hrb' b hb hr
      · simp only [List.mem_singleton] at hb; subst hb; exact hbnum rb hrb'
    · intro x y hy hr
      show findB (bs.tree ++ [blk h]) x = none
      rw [findB_append, d.dbTree x y hy hr]
      simp only [findB_cons, findB_nil]
      by_cases hx : (blk h).hash = x
      · exfalso
        rw [hh] at hx
        subst hx
        have hyb : y = blk h := d.dbU h y hy
        obtain ⟨rb, hrb⟩ := Option.isSome_iff_exists.mp hrootSome
        have h1 := d.dbNum rb hrb h y hy
        have h2 := hbnum rb hrb
        rw [hyb] at h1; omega
      · simp [hx]
    · intro rb hrb
      have hrb' : findB bs.tree bs.root = some rb := by
        have := hfind bs.root hrootSome
        exact this ▸ hrb
      exact d.dbNum rb hrb'
    · show findB (bs.tree ++ [blk h]) 0 = none
      rw [findB_append, d.nozeroT]
      simp [findB_cons, findB_nil, hh, h0]

/-- strict version of `upList_mem`: what lies above a node in its `up` list has a smaller number -/
theorem upList_mem_lt {st : C17.St} (ht : TreeOK st) : ∀ (fuel : Nat) (b : Blk) (x : Nat),
    b ∈ st.tree → x ∈ upList st fuel b → x ≠ b.hash → ∃ c ∈ st.tree, c.hash = x ∧ c.number < b.number
  | 0, _, _, _, hx, _ => by simp [upList] at hx
  | fuel + 1, b, x, hb, hx, hne => by
    unfold upList at hx
    cases hp : parentNode st b with
    | none =>
      simp only [hp, List.mem_singleton] at hx
      exact absurd hx hne
    | some p =>
      simp only [hp, List.mem_cons] at hx
      rcases hx with hx | hx
      · exact absurd hx hne
      · obtain ⟨_, _, hpt, hn⟩ := parentNode_some ht hb hp
        obtain ⟨c, hc, h1, h2⟩ := upList_mem ht fuel p x hpt hx
        exact ⟨c, hc, h1, by omega⟩

theorem DbInv_moved {blk : Nat → Blk} {g : Blk} {bs bs' : C17.St} (inv : Inv g bs) (d : DbInv blk g bs)
    {h r s : Nat} {rb hn : Blk} {rest : List Blk} (m : Moved bs h r s rb hn rest bs') (hne : h ≠ bs.root) :
    DbInv blk g bs' := by
  have f := m.facts inv hne
  have hrootFind : findB bs'.tree bs'.root = some hn := by
    rw [m.tree, m.root, ← f.hnh]
    exact findB_filter_of_uniq inv.tree.uniq _ f.hnTree (by simpa using self_mem_up bs hn)
  -- a header-table entry after the move is a path block or an old entry
  have hsplit : ∀ x y, findB bs'.dbHdr x = some y → (y ∈ rest ∧ y.hash = x) ∨ (x ∉ rest.map (·.hash) ∧ findB bs.dbHdr x = some y) := by
    intro x y hy
    by_cases hx : x ∈ rest.map (·.hash)
    · obtain ⟨c, hc, hch⟩ := List.mem_map.mp hx
      have := m.dbNew c hc
      rw [hch, hy] at this
      cases this
      exact .inl ⟨hc, hch⟩
    · rw [m.dbOld x hx] at hy
      exact .inr ⟨hx, hy⟩
  have hkeptNone : ∀ x, (∀ b ∈ kept bs hn, b.hash ≠ x) → findB (kept bs hn) x = none := by
    intro x hx
    cases hf : findB (kept bs hn) x with
    | none => rfl
    | some c => exact absurd (findB_some hf).2 (hx c (findB_some hf).1)
  refine ⟨?_, ?_, ?_, ?_, ?_, ?_, ?_, ?_⟩
  · intro b hb
    rw [m.tree] at hb
    exact d.treeU b (List.mem_filter.mp hb).1
  · intro x y hy
    rcases hsplit x y hy with ⟨hc, hch⟩ | ⟨_, hold⟩
    · rw [← hch]; exact d.treeU y (f.restTree y hc).1
    · exact d.dbU x y hold
  · intro rb' hrb' b hb hr
    rw [hrootFind] at hrb'
    have e : hn = rb' := Option.some.inj hrb'
    rw [← e]
    rw [m.tree] at hb
    rw [m.root, ← f.hnh] at hr
    have hbm := List.mem_filter.mp hb
    have hup : hn.hash ∈ up bs b := by simpa using hbm.2
    obtain ⟨c, hc, h1, h2⟩ := upList_mem_lt inv.tree _ b hn.hash hbm.1 hup (Ne.symm hr)
    have := inv.tree.uniq.eq_of_hash hc f.hnTree h1
    rw [this] at h2
    exact h2
  · intro x y hy hr
    rw [m.root] at hr
    rw [m.tree]
    apply hkeptNone
    intro b hb hbx
    have hbm := List.mem_filter.mp hb
    have hup : hn.hash ∈ up bs b := by simpa using hbm.2
    rcases hsplit x y hy with ⟨hc, hch⟩ | ⟨hx, hold⟩
    · -- a path block other than the new head is not kept
      have : y = b := inv.tree.uniq.eq_of_hash (f.restTree y hc).1 hbm.1 (hch.trans hbx.symm)
      subst this
      have hyn : y ≠ hn := by
        intro he; apply hr; rw [← hch, he, f.hnh]
      exact not_mem_up_of_lt inv.tree hbm.1 f.hnTree (f.restLt y hc hyn) hup
    · by_cases hxr : x = bs.root
      · -- the old root is not kept
        have hbr : b.hash = bs.root := hbx.trans hxr
        rw [up_root hbr] at hup
        have := List.mem_singleton.mp hup
        exact hne (by rw [← f.hnh, this, hbr])
      · have := d.dbTree x y hold hxr
        exact findB_none this b hbm.1 hbx
  · intro rb' hrb' x y hy
    rw [hrootFind] at hrb'
    have e : hn = rb' := Option.some.inj hrb'
    rw [← e]
    rcases hsplit x y hy with ⟨hc, _⟩ | ⟨_, hold⟩
    · exact (m.path.mem y (List.mem_cons_of_mem _ hc)).2
    · have := d.dbNum rb m.rootB x y hold
      have := f.rootLt hn f.hnRest
      omega
  · intro x y hy hg
    rcases hsplit x y hy with ⟨hc, hch⟩ | ⟨hx, hold⟩
    · obtain ⟨z, hz, h1, h2⟩ := m.path.linked y (by simpa using hc)
      refine ⟨z, ?_, h2⟩
      rw [← h1]
      rcases List.mem_cons.mp hz with hz | hz
      · rw [hz, f.rbh, m.dbOld _ (by
          intro hm
          obtain ⟨c, hc', hch'⟩ := List.mem_map.mp hm
          exact (f.restTree c hc').2 hch')]
        exact inv.rootDb rb m.rootB
      · exact m.dbNew z hz
    · obtain ⟨p, hp, hpn⟩ := d.dbParent x y hold hg
      refine ⟨p, ?_, hpn⟩
      rw [m.dbOld _ ?_]
      · exact hp
      · intro hm
        obtain ⟨c, hc, hch⟩ := List.mem_map.mp hm
        -- c is a non-root tree node whose hash is in the old header table: impossible
        by_cases hpr : y.parent = bs.root
        · exact (f.restTree c hc).2 (hch.trans hpr)
        · have := d.dbTree y.parent p hp hpr
          exact findB_none this c (f.restTree c hc).1 hch
  · rw [m.tree]
    apply hkeptNone
    intro b hb
    exact findB_none d.nozeroT b (List.mem_filter.mp hb).1
  · rw [m.dbOld 0 ?_]
    · exact d.nozeroD
    · intro hm
      obtain ⟨c, hc, hch⟩ := List.mem_map.mp hm
      exact findB_none d.nozeroT c (f.restTree c hc).1 hch

theorem DbInv_fin {blk : Nat → Blk} {g : Blk} {bs : C17.St} (inv : Inv g bs) (d : DbInv blk g bs)
    (h r s : Nat) : DbInv blk g (setFinalised g.hash bs h r s).1 := by
  rcases setFinalised_cases inv h r s with ⟨h1, _⟩ | ⟨_, _, h1⟩ | ⟨hne, _, rb, hn, rest, m⟩
  · rw [h1]; exact d
  · rw [h1]; exact DbInv_congr d rfl rfl rfl
  · exact DbInv_moved inv d m hne

/-- what `GetHeader` answers is the universe's header of that hash -/
theorem getHeader_univ {blk : Nat → Blk} {g : Blk} {bs : C17.St} (inv : Inv g bs) (d : DbInv blk g bs)
    {h : Nat} {x : Blk} (hx : C17.getHeader bs h = some x) : x = blk h ∧ x.hash = h := by
  unfold C17.getHeader at hx
  cases hu : findB bs.unfin h with
  | some y =>
    simp only [hu, Option.some.injEq] at hx
    subst hx
    have hy := findB_some hu
    have := d.treeU y (inv.unfinTree y hy.1).1
    exact ⟨by rw [this, hy.2], hy.2⟩
  | none =>
    simp only [hu] at hx
    exact ⟨d.dbU h x hx, (findB_some hx).2⟩

theorem getHeader_zero {blk : Nat → Blk} {g : Blk} {bs : C17.St} (inv : Inv g bs) (d : DbInv blk g bs) :
    C17.getHeader bs 0 = none := by
  unfold C17.getHeader
  cases hu : findB bs.unfin 0 with
  | some y =>
    have hy := findB_some hu
    exact absurd hy.2 (findB_none d.nozeroT y (inv.unfinTree y hy.1).1)
  | none => exact d.nozeroD

/-- **parent links of known headers decrease the number by one** -/
theorem getHeader_parent_num {blk : Nat → Blk} {g : Blk} (hgb : blk g.hash = g) (hgp : g.parent = 0)
    {bs : C17.St} (inv : Inv g bs)
    (d : DbInv blk g bs) {h : Nat} {x p : Blk} (hx : C17.getHeader bs h = some x)
    (hp : C17.getHeader bs x.parent = some p) : p.number + 1 = x.number := by
  unfold C17.getHeader at hx
  cases hu : findB bs.unfin h with
  | some y =>
    simp only [hu, Option.some.injEq] at hx
    subst hx
    obtain ⟨hyt, hyr⟩ := inv.unfinTree y (findB_some hu).1
    obtain ⟨q, hq, hqn⟩ := inv.tree.parent y hyt hyr
    have hqt := findB_some hq
    -- GetHeader of the parent hash answers the tree's parent node
    have : C17.getHeader bs y.parent = some q := by
      unfold C17.getHeader
      by_cases hqr : q.hash = bs.root
      · rw [← hqt.2, hqr, inv.rootUnfin]
        simp only
        have hq' : findB bs.tree bs.root = some q := by rw [← hqr, hqt.2]; exact hq
        exact inv.rootDb q hq'
      · rw [← hqt.2, inv.treeUnfin q hqt.1 hqr]
    rw [this] at hp
    cases hp
    exact hqn
  | none =>
    simp only [hu] at hx
    by_cases hg : h = g.hash
    · -- genesis: its parent is the zero hash, which nothing answers
      have hxg : x = g := by rw [← hgb, ← hg]; exact d.dbU h x hx
      rw [hxg, hgp, getHeader_zero inv d] at hp
      cases hp
    · obtain ⟨p0, hp0, hpn⟩ := d.dbParent h x hx hg
      have : C17.getHeader bs x.parent = some p0 := by
        unfold C17.getHeader
        cases hup : findB bs.unfin x.parent with
        | none => exact hp0
        | some y =>
          exfalso
          obtain ⟨hyt, hyr⟩ := inv.unfinTree y (findB_some hup).1
          have hyh := (findB_some hup).2
          by_cases hpr : x.parent = bs.root
          · exact hyr (hyh.trans hpr)
          · exact findB_none (d.dbTree x.parent p0 hp0 hpr) y hyt hyh
      rw [this] at hp
      cases hp
      exact hpn

end Gossamer.C26
