/-
C33: sizes through protobuf-go's parser — the fields `goParse` returns fit into the input:
`payloadSum fs + fs.length ≤ |input|`.  Used to bound the SCALE work of a block response by the
length of the whole message.
-/
import Gossamer.Lib.C33Wire
import Gossamer.Model.C33
namespace Gossamer.C33
open Gossamer Gossamer.Proto

theorem uvar_rest (k : Nat) : ∀ (bs : Bytes) (n : Nat) (r : Bytes), uvar k bs = some (n, r) → r.length < bs.length := by
  induction k with
  | zero => intro bs n r h; simp [uvar] at h
  | succ k ih =>
    intro bs n r h
    cases bs with
    | nil => simp [uvar] at h
    | cons b rest =>
      simp only [uvar] at h
      split at h
      · simp only [Option.some.injEq, Prod.mk.injEq] at h; rw [← h.2]; simp
      · cases hu : uvar k rest with
        | none => simp [hu] at h
        | some p =>
          obtain ⟨m, r'⟩ := p
          simp only [hu, Option.some.injEq, Prod.mk.injEq] at h
          have := ih rest m r' hu
          rw [← h.2]; simp only [List.length_cons]; omega

theorem consumeVarint_rest (bs : Bytes) (n : Nat) (r : Bytes) (h : consumeVarint bs = some (n, r)) :
    r.length < bs.length := by
  unfold consumeVarint at h
  cases hu : uvar 10 bs with
  | none => simp [hu] at h
  | some p =>
    obtain ⟨m, r'⟩ := p
    simp only [hu] at h
    split at h
    · simp only [Option.some.injEq, Prod.mk.injEq] at h
      rw [← h.2]; exact uvar_rest 10 bs m r' hu
    · cases h

theorem consumeBytes_rest (bs b r : Bytes) (h : consumeBytes bs = some (b, r)) :
    b.length + r.length < bs.length := by
  unfold consumeBytes at h
  cases hv : consumeVarint bs with
  | none => simp [hv] at h
  | some p =>
    obtain ⟨m, r0⟩ := p
    have := consumeVarint_rest bs m r0 hv
    simp only [hv] at h
    split at h
    · cases h
    · simp only [Option.some.injEq, Prod.mk.injEq] at h
      rw [← h.1, ← h.2, List.length_take, List.length_drop]; omega

/-- skipping never lengthens the input -/
theorem skip_rest (fuel : Nat) :
    (∀ num typ lvl bs r, skipVal fuel num typ lvl bs = some r → r.length ≤ bs.length) ∧
    (∀ num lvl bs r, skipGroup fuel num lvl bs = some r → r.length ≤ bs.length) := by
  induction fuel with
  | zero => exact ⟨by intro _ _ _ _ _ h; simp [skipVal] at h, by intro _ _ _ _ h; simp [skipGroup] at h⟩
  | succ fuel ih =>
    constructor
    · intro num typ lvl bs r h
      simp only [skipVal] at h
      split at h
      · cases hv : consumeVarint bs with
        | none => simp [hv] at h
        | some p =>
          simp only [hv, Option.map_some, Option.some.injEq] at h
          have := consumeVarint_rest bs p.1 p.2 (by rw [hv])
          rw [← h]; omega
      · split at h
        · split at h
          · cases h
          · simp only [Option.some.injEq] at h; rw [← h, List.length_drop]; omega
        · split at h
          · cases hb : consumeBytes bs with
            | none => simp [hb] at h
            | some p =>
              simp only [hb, Option.map_some, Option.some.injEq] at h
              have := consumeBytes_rest bs p.1 p.2 (by rw [hb])
              rw [← h]; omega
          · split at h
            · split at h
              · cases h
              · exact ih.2 num lvl bs r h
            · split at h
              · split at h
                · cases h
                · simp only [Option.some.injEq] at h; rw [← h, List.length_drop]; omega
              · cases h
    · intro num lvl bs r h
      simp only [skipGroup] at h
      cases hv : consumeVarint bs with
      | none => simp [hv] at h
      | some p =>
        obtain ⟨tag, r0⟩ := p
        have hr0 := consumeVarint_rest bs tag r0 hv
        simp only [hv] at h
        split at h
        · cases h
        · split at h
          · split at h
            · simp only [Option.some.injEq] at h; rw [← h]; omega
            · cases h
          · cases hs : skipVal fuel (tag / 8) (tag % 8) (lvl + 1) r0 with
            | none => simp [hs] at h
            | some r' =>
              simp only [hs] at h
              have h1 := ih.1 _ _ _ r0 r' hs
              have h2 := ih.2 num lvl r' r h
              omega

/-- total size of the length-delimited payloads -/
def payloadSum : List WField → Nat
  | [] => 0
  | f :: fs => (match f.val with | .len b => b.length | .varint _ => 0) + payloadSum fs

/-- **the parsed fields fit into the input** -/
theorem parseLoop_size (fuel : Nat) : ∀ (bs : Bytes) (fs : List WField),
    parseLoop fuel bs = some fs → payloadSum fs + fs.length ≤ bs.length := by
  induction fuel with
  | zero =>
    intro bs fs h
    simp only [parseLoop] at h
    split at h
    · simp only [Option.some.injEq] at h; subst h; simp [payloadSum]
    · cases h
  | succ fuel ih =>
    intro bs fs h
    simp only [parseLoop] at h
    split at h
    · simp only [Option.some.injEq] at h; subst h; simp [payloadSum]
    · cases hv : consumeVarint bs with
      | none => simp [hv] at h
      | some p =>
        obtain ⟨tag, r⟩ := p
        have hr := consumeVarint_rest bs tag r hv
        simp only [hv] at h
        split at h
        · cases h
        · split at h
          · cases hv2 : consumeVarint r with
            | none => simp [hv2] at h
            | some q =>
              obtain ⟨v, r'⟩ := q
              have hr' := consumeVarint_rest r v r' hv2
              simp only [hv2] at h
              cases hp : parseLoop fuel r' with
              | none => simp [hp] at h
              | some gs =>
                simp only [hp, Option.map_some, Option.some.injEq] at h
                subst h
                have := ih r' gs hp
                simp only [payloadSum, List.length_cons]; omega
          · split at h
            · cases hb : consumeBytes r with
              | none => simp [hb] at h
              | some q =>
                obtain ⟨b, r'⟩ := q
                have hr' := consumeBytes_rest r b r' hb
                simp only [hb] at h
                cases hp : parseLoop fuel r' with
                | none => simp [hp] at h
                | some gs =>
                  simp only [hp, Option.map_some, Option.some.injEq] at h
                  subst h
                  have := ih r' gs hp
                  simp only [payloadSum, List.length_cons]; omega
            · split at h
              · cases h
              · cases hs : skipVal (2 * r.length + 2) (tag / 8) (tag % 8) 0 r with
                | none => simp [hs] at h
                | some r' =>
                  simp only [hs] at h
                  have h1 := (skip_rest _).1 _ _ _ r r' hs
                  have := ih r' fs h
                  omega

theorem goParse_size (bs : Bytes) (fs : List WField) (h : goParse bs = some fs) :
    payloadSum fs + fs.length ≤ bs.length := parseLoop_size _ bs fs h

/-! ## sizes of the block data folded from the fields -/

def sumLen : List Bytes → Nat
  | [] => 0
  | b :: bs => b.length + sumLen bs

theorem sumLen_append (a b : List Bytes) : sumLen (a ++ b) = sumLen a + sumLen b := by
  induction a with
  | nil => simp [sumLen]
  | cons x xs ih => simp only [List.cons_append, sumLen, ih]; omega

theorem length_flatten (bs : List Bytes) : bs.flatten.length = sumLen bs := by
  induction bs with
  | nil => rfl
  | cons b bs ih => simp [sumLen, ih]

/-- header bytes + body bytes + number of body entries of a protobuf block -/
def bdSize (d : Proto.BlockData) : Nat := d.header.length + sumLen d.body + d.body.length

theorem step_size (d : Proto.BlockData) (f : WField) :
    bdSize (Proto.BlockData.step d f) ≤ bdSize d + (match f.val with | .len b => b.length | .varint _ => 0) + 1 := by
  unfold Proto.BlockData.step bdSize
  split <;> (try simp only [sumLen_append, sumLen, List.length_append, List.length_cons, List.length_nil]) <;> (try simp_all) <;> omega

theorem fold_size (gs : List WField) : ∀ (d : Proto.BlockData),
    bdSize (gs.foldl Proto.BlockData.step d) ≤ bdSize d + payloadSum gs + gs.length := by
  induction gs with
  | nil => intro d; simp [payloadSum]
  | cons g gs ih =>
    intro d
    have h1 := step_size d g
    have h2 := ih (Proto.BlockData.step d g)
    simp only [List.foldl_cons, payloadSum, List.length_cons]
    omega

theorem ofFields_size (gs : List WField) :
    bdSize (Proto.BlockData.ofFields gs) ≤ payloadSum gs + gs.length := by
  have := fold_size gs Proto.BlockData.zero
  simpa [Proto.BlockData.ofFields, bdSize, Proto.BlockData.zero, sumLen] using this

def blocksSize : List Proto.BlockData → Nat
  | [] => 0
  | d :: ds => bdSize d + 1 + blocksSize ds

/-- all blocks of a response together are no larger than the response -/
theorem blocksOf_size : ∀ (fs : List WField) (ds : List Proto.BlockData),
    blocksOf fs = some ds → blocksSize ds ≤ payloadSum fs + fs.length := by
  intro fs
  induction fs with
  | nil => intro ds h; simp only [blocksOf, Option.some.injEq] at h; subst h; simp [blocksSize]
  | cons f fs ih =>
    intro ds h
    simp only [blocksOf] at h
    split at h
    · rename_i b hnum hval
      cases hp : goParse b with
      | none => simp [hp] at h
      | some gs =>
        simp only [hp] at h
        cases hb : blocksOf fs with
        | none => simp [hb] at h
        | some ds' =>
          simp only [hb, Option.map_some, Option.some.injEq] at h
          subst h
          have h1 := goParse_size b gs hp
          have h2 := ofFields_size gs
          have h3 := ih ds' hb
          simp only [blocksSize, payloadSum, hval, List.length_cons]
          omega
    · have := ih ds h
      simp only [payloadSum, List.length_cons]
      omega

theorem lt_pow256_self (k : Nat) : k < 256 ^ k := by
  induction k with
  | zero => simp
  | succ k ih =>
    rw [Nat.pow_succ]
    have : 1 ≤ 256 ^ k := Nat.pow_pos (by decide)
    omega

/-- `scale.Marshal(big.NewInt(k))` is at most `k + 5` bytes long -/
theorem length_encodeBigInt_le (k : Nat) : (C11.encodeBigInt k).length ≤ k + 5 := by
  unfold C11.encodeBigInt
  split
  · simp
  · split
    · simp [length_leBytes]
    · split
      · simp [length_leBytes]
      · have := (Scale.length_leMin_le k k).2 (lt_pow256_self k)
        simp only [List.length_cons]; omega

/-! ## state response -/

theorem stateEntriesOf_len : ∀ (gs : List WField) (es : List (Bytes × Bytes)),
    stateEntriesOf gs = some es → es.length ≤ gs.length := by
  intro gs
  induction gs with
  | nil => intro es h; simp only [stateEntriesOf, Option.some.injEq] at h; subst h; simp
  | cons g gs ih =>
    intro es h
    simp only [stateEntriesOf] at h
    split at h
    · rename_i b hnum hval
      cases hp : goParse b with
      | none => simp [hp] at h
      | some hs =>
        simp only [hp] at h
        cases hr : stateEntriesOf gs with
        | none => simp [hr] at h
        | some es' =>
          simp only [hr, Option.map_some, Option.some.injEq] at h
          subst h
          have := ih es' hr
          simp only [List.length_cons]; omega
    · have := ih es h
      simp only [List.length_cons]; omega

/-- the copy loops of `StateResponse.Decode` run at most once per byte of the response -/
theorem kvEntriesOf_size : ∀ (fs : List WField) (es : List KVEntry),
    kvEntriesOf fs = some es →
      (es.map (fun e => 1 + e.entries.length)).sum ≤ payloadSum fs + fs.length := by
  intro fs
  induction fs with
  | nil => intro es h; simp only [kvEntriesOf, Option.some.injEq] at h; subst h; simp
  | cons f fs ih =>
    intro es h
    simp only [kvEntriesOf] at h
    split at h
    · rename_i b hnum hval
      cases hp : goParse b with
      | none => simp [hp] at h
      | some gs =>
        simp only [hp] at h
        cases hk : kvEntryOf gs with
        | none => simp [hk] at h
        | some e =>
          simp only [hk] at h
          cases hr : kvEntriesOf fs with
          | none => simp [hr] at h
          | some es' =>
            simp only [hr, Option.map_some, Option.some.injEq] at h
            subst h
            have h1 := goParse_size b gs hp
            have h2 : e.entries.length ≤ gs.length := by
              unfold kvEntryOf at hk
              cases hse : stateEntriesOf gs with
              | none => simp [hse] at hk
              | some l =>
                simp only [hse, Option.some.injEq] at hk
                subst hk
                exact stateEntriesOf_len gs l hse
            have h3 := ih es' hr
            simp only [List.map_cons, List.sum_cons, payloadSum, hval, List.length_cons]
            omega
    · have := ih es h
      simp only [payloadSum, List.length_cons]
      omega

end Gossamer.C33
