/-
C08: DeleteChild and the unlimited prefix clears (main and child) inside a transaction, as
operations on the logical content of the level.
-/
import Gossamer.Lib.C08Reads
set_option linter.unusedSectionVars false
set_option linter.unusedSimpArgs false
namespace Gossamer.C08
open Gossamer

/-! ### lexicographic facts -/

theorem isPrefixOf_refl (p : Bytes) : p.isPrefixOf p = true := by
  induction p with
  | nil => rfl
  | cons a r ih => simp [List.isPrefixOf, ih]

theorem klt_of_proper_prefix {p x : Bytes} (h : p.isPrefixOf x = true) (hne : x ≠ p) :
    klt p x = true := by
  obtain ⟨t, rfl⟩ := List.isPrefixOf_iff_prefix.mp h
  cases t with
  | nil => simp at hne
  | cons a r => exact klt_append_cons p a r

/-- keys between a prefix and a key with that prefix have the prefix -/
theorem prefix_between : ∀ (p e x : Bytes), klt p e = true → klt e x = true →
    p.isPrefixOf x = true → p.isPrefixOf e = true := by
  intro p
  induction p with
  | nil => intro e x _ _ _; rfl
  | cons a p' ih =>
    intro e x h1 h2 h3
    cases x with
    | nil => simp [List.isPrefixOf] at h3
    | cons b x' =>
      simp only [List.isPrefixOf, Bool.and_eq_true, beq_iff_eq] at h3
      obtain ⟨hab, hp⟩ := h3
      subst hab
      cases e with
      | nil => simp [klt] at h1
      | cons c e' =>
        simp only [klt, Bool.or_eq_true, decide_eq_true_eq, Bool.and_eq_true, beq_iff_eq] at h1 h2
        have hac : a = c := by
          rcases h1 with h1 | ⟨h1, _⟩
          · rcases h2 with h2 | ⟨h2, _⟩
            · omega
            · omega
          · exact Rank.rank_inj h1
        subst hac
        have k1 : klt p' e' = true := by
          rcases h1 with h1 | ⟨_, h1⟩
          · omega
          · exact h1
        have k2 : klt e' x' = true := by
          rcases h2 with h2 | ⟨_, h2⟩
          · omega
          · exact h2
        simp [List.isPrefixOf, ih e' x' k1 k2 hp]

theorem prefix_comparable : ∀ (a b x : Bytes), a.isPrefixOf x = true → b.isPrefixOf x = true →
    a.isPrefixOf b = true ∨ b.isPrefixOf a = true := by
  intro a
  induction a with
  | nil => intro b x _ _; exact Or.inl rfl
  | cons u a' ih =>
    intro b x h1 h2
    cases b with
    | nil => exact Or.inr rfl
    | cons v b' =>
      cases x with
      | nil => simp [List.isPrefixOf] at h1
      | cons w x' =>
        simp only [List.isPrefixOf, Bool.and_eq_true, beq_iff_eq] at h1 h2 ⊢
        obtain ⟨e1, p1⟩ := h1
        obtain ⟨e2, p2⟩ := h2
        rcases ih b' x' p1 p2 with h | h
        · exact Or.inl ⟨e1.trans e2.symm, h⟩
        · exact Or.inr ⟨e2.trans e1.symm, h⟩

/-- the region test of the driver: `p` neither extends nor is extended by the child-root prefix -/
def overlapsRegion (p : Bytes) : Bool := p.isPrefixOf childPrefix || childPrefix.isPrefixOf p

theorem no_child_with_prefix {p : Bytes} (h : overlapsRegion p = false) (x : Bytes)
    (hx : Logical.isChildKey x = true) : p.isPrefixOf x = false := by
  cases hp : p.isPrefixOf x with
  | false => rfl
  | true =>
    unfold overlapsRegion at h
    simp only [Bool.or_eq_false_iff] at h
    rcases prefix_comparable p childPrefix x hp hx with c | c
    · rw [h.1] at c; cases c
    · rw [h.2] at c; cases c

/-! ### the keys a prefix clear collects -/

theorem mem_insDup (k x : Bytes) (l : List Bytes) : x ∈ insDup k l ↔ x = k ∨ x ∈ l := by
  induction l with
  | nil => simp [insDup]
  | cons e r ih =>
    simp only [insDup]
    split
    · simp only [List.mem_cons, ih]
      constructor
      · rintro (h | h | h)
        · exact Or.inr (Or.inl h)
        · exact Or.inl h
        · exact Or.inr (Or.inr h)
      · rintro (h | h | h)
        · exact Or.inr (Or.inl h)
        · exact Or.inl h
        · exact Or.inr (Or.inr h)
    · simp [List.mem_cons]

theorem mem_sortKeys (x : Bytes) (l : List Bytes) : x ∈ sortKeys l ↔ x ∈ l := by
  induction l with
  | nil => simp [sortKeys]
  | cons e r ih =>
    have : sortKeys (e :: r) = insDup e (sortKeys r) := rfl
    rw [this, mem_insDup, ih]
    simp [List.mem_cons]

theorem mem_takeWhile_sat {α : Type} (q : α → Bool) (l : List α) (x : α)
    (h : x ∈ l.takeWhile q) : q x = true := by
  induction l with
  | nil => simp at h
  | cons e r ih =>
    simp only [List.takeWhile_cons] at h
    split at h
    · rename_i he
      rcases List.mem_cons.mp h with h | h
      · subst h; exact he
      · exact ih h
    · simp at h

theorem mem_takeWhile_prefix (p : Bytes) (l : List Bytes) (hs : KSet.Sorted l)
    (hgt : ∀ y ∈ l, klt p y = true) (x : Bytes) (hx : x ∈ l) (hp : p.isPrefixOf x = true) :
    x ∈ l.takeWhile (fun k => p.isPrefixOf k) := by
  induction l with
  | nil => simp at hx
  | cons e r ih =>
    rcases List.mem_cons.mp hx with hx | hx
    · subst hx
      simp [List.takeWhile_cons, hp]
    · have he : p.isPrefixOf e = true :=
        prefix_between p e x (hgt e (by simp)) (hs.1 x hx) hp
      simp only [List.takeWhile_cons, he, if_true, List.mem_cons]
      exact Or.inr (ih hs.2 (fun y hy => hgt y (by simp [hy])) hx)

/-- `keysWithPrefix` of trie.go on an ordered map: exactly the keys with the prefix -/
theorem mem_keysWithPrefixOn (es : Entries) (hs : OMap.Sorted es) (p x : Bytes) :
    x ∈ keysWithPrefixOn (fun k => OMap.get k es) (Logical.keysAfterE es) p ↔
      (OMap.get x es ≠ none ∧ p.isPrefixOf x = true) := by
  unfold keysWithPrefixOn
  have hA : ∀ y, y ∈ Logical.keysAfterE es p ↔ (OMap.get y es ≠ none ∧ klt p y = true) := by
    intro y
    unfold Logical.keysAfterE
    rw [← omap_mem_keys]
    simp only [List.mem_map, List.mem_filter]
    constructor
    · rintro ⟨e, ⟨he, hk⟩, rfl⟩; exact ⟨⟨e, he, rfl⟩, hk⟩
    · rintro ⟨⟨e, he, rfl⟩, hk⟩; exact ⟨e, ⟨he, hk⟩, rfl⟩
  have hsA : KSet.Sorted (Logical.keysAfterE es p) := by
    unfold Logical.keysAfterE
    exact omap_sorted_keys (OMap.sorted_filter _ hs)
  simp only [List.mem_append]
  constructor
  · rintro (h | h)
    · by_cases hg : (OMap.get p es).isSome = true
      · simp only [hg, if_true, List.mem_singleton] at h
        subst h
        refine ⟨?_, isPrefixOf_refl x⟩
        intro hn; rw [hn] at hg; cases hg
      · simp [hg] at h
    · have h1 := mem_takeWhile_sat _ _ _ h
      have h2 := (hA x).mp ((List.takeWhile_sublist _).subset h)
      exact ⟨h2.1, by simpa using h1⟩
  · rintro ⟨hg, hp⟩
    by_cases hxp : x = p
    · subst hxp
      left
      have : (OMap.get x es).isSome = true := by
        cases h : OMap.get x es with
        | none => exact absurd h hg
        | some v => rfl
      simp [this]
    · right
      exact mem_takeWhile_prefix p _ hsA (fun y hy => ((hA y).mp hy).2) x
        ((hA x).mpr ⟨hg, klt_of_proper_prefix hp hxp⟩) hp

/-! ### deleting a list of keys from a change set -/

theorem limitLoop_none {σ : Type} (del : σ → Bytes → σ) (sel : Bytes → Bool) (nk : List Bytes) :
    ∀ (ks : List Bytes) (s : σ) (n : Nat),
      (limitLoop del sel nk ks none s n).1 = (ks.filter sel).foldl del s := by
  intro ks
  induction ks with
  | nil => intro s n; rfl
  | cons k r ih =>
    intro s n
    simp only [limitLoop, List.filter_cons]
    have h0 : ¬ ((none : Option Nat) = some 0) := by simp
    simp only [h0, if_false]
    by_cases hs : sel k = true
    · simp only [hs, if_true, List.foldl_cons]
      have : (if nk.contains k = true then (none : Option Nat) else Option.map (· - 1) none) = none := by
        split <;> rfl
      rw [this]
      exact ih _ _
    · simp only [hs, Bool.false_eq_true, if_false]
      exact ih _ _

theorem mem_fold_dels (K : List Bytes) (c : CDiff) (x : Bytes) :
    x ∈ (K.foldl CDiff.delete c).deletes ↔ (x ∈ K ∨ x ∈ c.deletes) := by
  induction K generalizing c with
  | nil => simp
  | cons k r ih =>
    simp only [List.foldl_cons, ih, CDiff.delete, KSet.mem_ins, List.mem_cons]
    constructor
    · rintro (h | h | h)
      · exact Or.inl (Or.inr h)
      · exact Or.inl (Or.inl h)
      · exact Or.inr h
    · rintro ((h | h) | h)
      · exact Or.inr (Or.inl h)
      · exact Or.inl h
      · exact Or.inr (Or.inr h)

theorem find_fold_ups (K : List Bytes) (c : CDiff) (x : Bytes) :
    KMap.find x (K.foldl CDiff.delete c).upserts = if x ∈ K then none else KMap.find x c.upserts := by
  induction K generalizing c with
  | nil => simp
  | cons k r ih =>
    simp only [List.foldl_cons, ih, CDiff.delete, KMap.find_del, List.mem_cons]
    by_cases h1 : x ∈ r
    · simp [h1]
    · by_cases h2 : x = k <;> simp [h1, h2]

theorem sorted_fold_delete (K : List Bytes) {c : CDiff} (h : c.SortedC) :
    (K.foldl CDiff.delete c).SortedC := by
  induction K generalizing c with
  | nil => exact h
  | cons k r ih => exact ih (CDiff.sorted_delete h k)

theorem sk_fold_delete (K : List Bytes) {c : CDiff} (h : c.sortedKeys = KMap.keys c.upserts) :
    (K.foldl CDiff.delete c).sortedKeys = KMap.keys (K.foldl CDiff.delete c).upserts := by
  induction K generalizing c with
  | nil => exact h
  | cons k r ih => exact ih (CDiff.sk_delete h k)

theorem fold_delete_c (K : List Bytes) (d : Diff) :
    (K.foldl Diff.delete d).c = K.foldl CDiff.delete d.c := by
  induction K generalizing d with
  | nil => rfl
  | cons k r ih => simp only [List.foldl_cons]; rw [ih]; rfl

theorem fold_delete_kids (K : List Bytes) (d : Diff) (ck : Bytes) :
    KMap.find ck (K.foldl Diff.delete d).kids = if ck ∈ K then none else KMap.find ck d.kids := by
  induction K generalizing d with
  | nil => simp
  | cons k r ih =>
    simp only [List.foldl_cons, ih, Diff.delete, KMap.find_del, List.mem_cons]
    by_cases h1 : ck ∈ r
    · simp [h1]
    · by_cases h2 : ck = k <;> simp [h1, h2]

theorem sorted_fold_deleteD (K : List Bytes) {d : Diff} (h : d.SortedD) :
    (K.foldl Diff.delete d).SortedD := by
  induction K generalizing d with
  | nil => exact h
  | cons k r ih => exact ih (Diff.sorted_delete h k)

/-- the keys `clearPrefix` deletes: keys of the upserts or of the trie that have the prefix -/
def clearKeys (ups : KMap Bytes) (p : Bytes) (trieKeys : List Bytes) : List Bytes :=
  (sortKeys (((KMap.keys ups).filter (fun k => !trieKeys.contains k)) ++ trieKeys)).filter
    (fun k => p.isPrefixOf k)

theorem mem_clearKeys (ups : KMap Bytes) (p : Bytes) (tk : List Bytes) (x : Bytes) :
    x ∈ clearKeys ups p tk ↔ (p.isPrefixOf x = true ∧ (x ∈ KMap.keys ups ∨ x ∈ tk)) := by
  unfold clearKeys
  simp only [List.mem_filter, mem_sortKeys, List.mem_append, List.contains_eq_mem,
    Bool.not_eq_true', decide_eq_false_iff_not]
  constructor
  · rintro ⟨(⟨h, _⟩ | h), hp⟩
    · exact ⟨hp, Or.inl h⟩
    · exact ⟨hp, Or.inr h⟩
  · rintro ⟨hp, (h | h)⟩
    · by_cases ht : x ∈ tk
      · exact ⟨Or.inr ht, hp⟩
      · exact ⟨Or.inl ⟨h, ht⟩, hp⟩
    · exact ⟨Or.inr h, hp⟩

theorem clearPrefixG_none {σ : Type} (del : σ → Bytes → σ) (ups : KMap Bytes) (s : σ) (p : Bytes)
    (tk : List Bytes) :
    (clearPrefixG del ups s p tk none).1 = (clearKeys ups p tk).foldl del s := by
  unfold clearPrefixG clearKeys
  exact limitLoop_none _ _ _ _ _ _

end Gossamer.C08
