/-
C03, third run: snapshot isolation of the CHILD TRIES of the in-memory trie
(`pkg/trie/inmemory/child_storage.go`, `Snapshot`).  A handle is a trie with its registry of child
tries (`childTries`: root hash at insertion ↦ child trie); `snap h` = `h.Snapshot()` gives the new
handle its OWN registry with a copy of every child's root node.  The model shares trie nodes between
handles exactly as the Go code does (`MTrie` of `TrieHeapDB`); the specification run differs in one
place: `snap` deep-copies the main trie and every child trie (a forest of independent states).
Observable of an op: result token, then for EVERY handle its entries and its registry of child tries
(`GetChildTries()`: root hashes sorted, with the entries of each child).
-/
import Gossamer.Model.C04
namespace Gossamer.C03C
open Gossamer Gossamer.Trie Gossamer.TrieHeap

inductive Op where
  | start
  | put (h : Nat) (k v : Bytes)
  | del (h : Nat) (k : Bytes)
  | snap (h : Nat)
  | ver (h : Nat) (v : Ver)
  | hash (h : Nat)
  | putc (h : Nat) (c k v : Bytes)
  | delc (h : Nat) (c : Bytes)
  | getc (h : Nat) (c k : Bytes)
  | clrc (h : Nat) (c k : Bytes)
  | gct (h : Nat)
  | bad

structure CH where
  m : MTrie
  parent : Option Nat

structure St where
  hp : Heap
  hs : List CH

def St.init : St := { hp := Heap.empty, hs := [{ m := MTrie.empty, parent := none }] }

def St.set (s : St) (hp : Heap) (h : Nat) (x : CH) (m : MTrie) : St :=
  { hp := hp, hs := C03.setAt s.hs h { x with m := m } }

/-- `t.getInternalChildTrie(keyToChild)`: `none` = ErrChildTrieDoesNotExist, `some none` = (nil, nil) -/
def childOf (hp : Heap) (m : MTrie) (c : Bytes) : Option (Option Handle) :=
  match get hp m.t.root (childPrefix ++ c) with
  | none => none
  | some hv => some (kidsLookup m.kids (bytesToHash hv))

/-- A child trie is an OBJECT in Go: when `PutIntoChild`/`ClearFromChild` modify it, every entry of
    the registry that points to it sees the change (such a second entry exists only after a write
    through a trie that has a snapshot made the cached root hash of the child stale, so that
    `delete(childTries, origChildHash)` missed the entry).  Handles are values here; the entries that
    hold the old value of the modified child are updated. -/
def reKey (kids : List (Bytes × Handle)) (old new : Handle) : List (Bytes × Handle) :=
  if old.root.isNone then kids
  else kids.map (fun e => if e.2.root == old.root && e.2.gen == old.gen then (e.1, new) else e)

/-- `t.PutIntoChild(keyToChild, key, value)` (as `MTrie.putIntoChild`, with `reKey`) -/
def putIntoChild (H : Bytes → Bytes) (hp : Heap) (m : MTrie) (c k v : Bytes) : Option (Heap × MTrie) :=
  let child? : Option Handle :=
    match get hp m.t.root (childPrefix ++ c) with
    | none => some { root := none, gen := 0, ver := Ver.v0 }
    | some hv => kidsLookup m.kids (bytesToHash hv)
  match child? with
  | none => none
  | some child0 =>
    let child := { child0 with ver := m.t.ver }
    let orig := hash H hp child
    let p := put H orig.1 child k v
    some (MTrie.setChild H p.1 { m with kids := reKey (kidsErase m.kids (orig.2.getD [])) child0 p.2 } c p.2)

/-- `t.ClearFromChild(keyToChild, key)`; outer `none` = error -/
def clearFromChild (H : Bytes → Bytes) (hp : Heap) (m : MTrie) (c k : Bytes) : Option (Heap × MTrie) :=
  match childOf hp m c with
  | none => none
  | some none => none
  | some (some child) =>
    let orig := hash H hp child
    let d := delete H orig.1 child k
    let m1 := { m with kids := reKey (kidsErase m.kids (orig.2.getD [])) child d.2 }
    match d.2.root with
    | none =>
      let p := delete H d.1 m1.t (childPrefix ++ c)
      some (p.1, { m1 with t := p.2 })
    | some _ => some (MTrie.setChild H d.1 m1 c d.2)

/-- the specification's `Snapshot`: everything is copied -/
def snapshotDeep (hp : Heap) (m : MTrie) : Heap × MTrie :=
  let main := C03.deepCopyF bigFuel hp m.t.root
  let r := m.kids.foldl (fun (acc : Heap × List (Bytes × Handle)) e =>
    let c := C03.deepCopyF bigFuel acc.1 e.2.root
    (c.1, acc.2 ++ [(e.1, { root := c.2, gen := e.2.gen + 1, ver := m.t.ver })])) (main.1, [])
  (r.1, { t := { TrieHeap.snapshot m.t with root := main.2 }, kids := r.2 })

def stepOp (H : Bytes → Bytes) (deep : Bool) (s : St) : Op → St × String × Bool
  | .start => (s, "ok", false)
  | .put h k v =>
    match s.hs[h]? with
    | none => (s, "bad-op", false)
    | some x => let r := put H s.hp x.m.t k v; (s.set r.1 h x { x.m with t := r.2 }, "ok", false)
  | .del h k =>
    match s.hs[h]? with
    | none => (s, "bad-op", false)
    | some x => let r := delete H s.hp x.m.t k; (s.set r.1 h x { x.m with t := r.2 }, "ok", false)
  | .snap h =>
    match s.hs[h]? with
    | none => (s, "bad-op", false)
    | some x =>
      if deep then
        let r := snapshotDeep s.hp x.m
        ({ hp := r.1, hs := s.hs ++ [{ m := r.2, parent := some h }] }, "h" ++ toString s.hs.length, false)
      else
        match x.m.snapshot s.hp with
        | none => (s, "panic", true)
        | some r =>
          ({ hp := r.1, hs := s.hs ++ [{ m := r.2, parent := some h }] }, "h" ++ toString s.hs.length, false)
  | .ver h v =>
    match s.hs[h]? with
    | none => (s, "bad-op", false)
    | some x =>
      if C03.verLt v x.m.t.ver then (s, "panic", true)
      else (s.set s.hp h x { x.m with t := { x.m.t with ver := v } }, "ok", false)
  | .hash h =>
    match s.hs[h]? with
    | none => (s, "bad-op", false)
    | some x => let r := hash H s.hp x.m.t; ({ s with hp := r.1 }, showHash r.2, false)
  | .putc h c k v =>
    match s.hs[h]? with
    | none => (s, "bad-op", false)
    | some x =>
      match putIntoChild H s.hp x.m c k v with
      | none => (s, "panic", true)
      | some r => (s.set r.1 h x r.2, "ok", false)
  | .delc h c =>
    match s.hs[h]? with
    | none => (s, "bad-op", false)
    | some x =>
      let r := delete H s.hp x.m.t (childPrefix ++ c)
      (s.set r.1 h x { x.m with t := r.2 }, "ok", false)
  | .getc h c k =>
    match s.hs[h]? with
    | none => (s, "bad-op", false)
    | some x =>
      match childOf s.hp x.m c with
      | none => (s, "err", false)
      | some none => (s, "panic", true)
      | some (some child) => (s, C02.showOpt (get s.hp child.root k), false)
  | .clrc h c k =>
    match s.hs[h]? with
    | none => (s, "bad-op", false)
    | some x =>
      match clearFromChild H s.hp x.m c k with
      | none => (s, "err", false)
      | some r => (s.set r.1 h x r.2, "ok", false)
  | .gct h =>
    match s.hs[h]? with
    | none => (s, "bad-op", false)
    | some x => (s, toString x.m.kids.length, false)
  | .bad => (s, "bad-op", false)

/-- entries of a handle and, if it has any, its registry of child tries -/
def viewOf (hp : Heap) (m : MTrie) : String :=
  let ks := m.kids.mergeSort (fun a b => !(klt b.1 a.1))
  C03.showEntries hp m.t ++
    (if ks.isEmpty then ""
     else "{" ++ C02.joinWith "|" (ks.map (fun e => toHex e.1 ++ ":" ++ C03.showEntries hp e.2)) ++ "}")

def views (s : St) : String :=
  let rec go (i : Nat) : List CH → List String
    | [] => []
    | x :: r => ("h" ++ toString i ++ ":" ++ viewOf s.hp x.m) :: go (i + 1) r
  C02.joinWith " " (go 0 s.hs)

def runFrom (H : Bytes → Bytes) (deep : Bool) (s : St) : List Op → List String
  | [] => []
  | op :: r =>
    let x := stepOp H deep s op
    if x.2.2 then [x.2.1]
    else (x.2.1 ++ " " ++ views x.1) :: runFrom H deep x.1 r

def Op.writes : Op → Option Nat
  | .put h _ _ => some h
  | .del h _ => some h
  | .putc h _ _ _ => some h
  | .delc h _ => some h
  | .clrc h _ _ => some h
  | _ => none

/-- some op writes through a handle that has a snapshot (no handle is dropped in this run) -/
def violatesGuard (H : Bytes → Bytes) (s : St) : List Op → Bool
  | [] => false
  | op :: r =>
    (match op.writes with
     | some h => s.hs.any (fun x => x.parent == some h)
     | none => false) ||
    (let x := stepOp H false s op
     if x.2.2 then false else violatesGuard H x.1 r)

def parseOp (s : String) : Op :=
  match words s with
  | ["child"] => .start
  | ["put", h, k, v] => match C03.parseHandle h, ofHex? k, ofHex? v with
    | some h, some k, some v => .put h k v
    | _, _, _ => .bad
  | ["del", h, k] => match C03.parseHandle h, ofHex? k with
    | some h, some k => .del h k
    | _, _ => .bad
  | ["snap", h] => match C03.parseHandle h with | some h => .snap h | none => .bad
  | ["ver", h, v] => match C03.parseHandle h with
    | some h => if v == "0" then .ver h Ver.v0 else if v == "1" then .ver h Ver.v1 else .bad
    | none => .bad
  | ["hash", h] => match C03.parseHandle h with | some h => .hash h | none => .bad
  | ["putc", h, c, k, v] => match C03.parseHandle h, ofHex? c, ofHex? k, ofHex? v with
    | some h, some c, some k, some v => .putc h c k v
    | _, _, _, _ => .bad
  | ["delc", h, c] => match C03.parseHandle h, ofHex? c with
    | some h, some c => .delc h c
    | _, _ => .bad
  | ["getc", h, c, k] => match C03.parseHandle h, ofHex? c, ofHex? k with
    | some h, some c, some k => .getc h c k
    | _, _, _ => .bad
  | ["clrc", h, c, k] => match C03.parseHandle h, ofHex? c, ofHex? k with
    | some h, some c, some k => .clrc h c k
    | _, _, _ => .bad
  | ["gct", h] => match C03.parseHandle h with | some h => .gct h | none => .bad
  | _ => .bad

/-- is this a line of the third run?  (some op of its own vocabulary; on lines of `put del snap ver
    hash` alone the first run's model prints the same, since no handle then has a child trie) -/
def isChildLine (line : String) : Bool :=
  (line.splitOn ";").any (fun op =>
    match words op with
    | w :: _ => ["child", "putc", "delc", "getc", "clrc", "gct"].contains w
    | [] => false)

def step (H : Bytes → Bytes) (line : String) : String :=
  let ops := (line.splitOn ";").map parseOp
  let m := C02.joinWith ";" (runFrom H false St.init ops)
  let s := C02.joinWith ";" (runFrom H true St.init ops)
  if m == s then m
  else m ++ "\tspec=" ++ s ++
    (if violatesGuard H St.init ops then "\tkf=parent-write-after-snapshot" else "")

end Gossamer.C03C
