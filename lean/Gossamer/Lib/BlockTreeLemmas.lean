/-
Lemmas about the forest traversals of `Gossamer.Lib.BlockTree` (core Lean only).
-/
import Gossamer.Lib.BlockTree

namespace Gossamer.BlockTree

/-! ### sub-trees, occurrence, lookup -/

/-- every node of a forest together with its subtree, pre-order -/
def subsF : Forest → List Node
  | [] => []
  | .mk i cs :: rest => .mk i cs :: (subsF cs ++ subsF rest)

theorem occF_iff (h : Hash) : ∀ f, occF h f = true ↔ h ∈ descF f := by
  intro f
  induction f using forest_ind with
  | nil => simp [occF, descF]
  | cons i cs rest ih1 ih2 =>
    simp only [occF, descF, List.mem_cons, List.mem_append]
    grind

theorem descF_eq_map_infos : ∀ f, descF f = (infosF f).map (·.hash) := by
  intro f
  induction f using forest_ind with
  | nil => simp [infosF, descF]
  | cons i cs rest ih1 ih2 => simp [infosF, descF, ih1, ih2]

theorem subsF_map_hash : ∀ f, (subsF f).map (fun n => n.info.hash) = descF f := by
  intro f
  induction f using forest_ind with
  | nil => simp [subsF, descF]
  | cons i cs rest ih1 ih2 => simp [subsF, descF, ih1, ih2]

theorem subsF_map_info : ∀ f, (subsF f).map (fun n => n.info) = infosF f := by
  intro f
  induction f using forest_ind with
  | nil => simp [subsF, infosF]
  | cons i cs rest ih1 ih2 => simp [subsF, infosF, ih1, ih2]

theorem descF_append (f g : Forest) : descF (f ++ g) = descF f ++ descF g := by
  induction f using forest_ind with
  | nil => simp [descF]
  | cons i cs rest ih1 ih2 => simp [descF, ih2]

theorem subsF_append (f g : Forest) : subsF (f ++ g) = subsF f ++ subsF g := by
  induction f using forest_ind with
  | nil => simp [subsF]
  | cons i cs rest ih1 ih2 => simp [subsF, ih2]

theorem descF_single (i : Info) (cs : Forest) : descF [.mk i cs] = i.hash :: descF cs := by
  simp [descF]

theorem subsF_single (i : Info) (cs : Forest) : subsF [.mk i cs] = .mk i cs :: subsF cs := by
  simp [subsF]

theorem mem_subs_hash_mem {f : Forest} {n : Node} (hn : n ∈ subsF f) : n.info.hash ∈ descF f := by
  rw [← subsF_map_hash]; exact List.mem_map.2 ⟨n, hn, rfl⟩

theorem findF_some {h : Hash} : ∀ f n, findF h f = some n → n ∈ subsF f ∧ n.info.hash = h := by
  intro f
  induction f using forest_ind with
  | nil => simp [findF]
  | cons i cs rest ih1 ih2 =>
    intro n hn
    simp only [findF] at hn
    simp only [subsF, List.mem_cons, List.mem_append]
    grind [Node.info_mk]

theorem findF_none {h : Hash} : ∀ f, findF h f = none ↔ h ∉ descF f := by
  intro f
  induction f using forest_ind with
  | nil => simp [findF, descF]
  | cons i cs rest ih1 ih2 =>
    simp only [findF, descF, List.mem_cons, List.mem_append]
    grind

theorem findF_isSome {h : Hash} (f : Forest) : (findF h f).isSome ↔ h ∈ descF f := by
  have := @findF_none h f
  cases hf : findF h f <;> simp_all

/-- the subtree below a node of the forest lies inside the forest -/
theorem subs_sublist : ∀ f n, n ∈ subsF f → (descF [n]).Sublist (descF f) := by
  intro f
  induction f using forest_ind with
  | nil => simp [subsF]
  | cons i cs rest ih1 ih2 =>
    intro n hn
    simp only [subsF, List.mem_cons, List.mem_append] at hn
    rcases hn with rfl | hn | hn
    · simp [descF]
    · have := ih1 n hn
      simp only [descF]
      exact (this.trans (List.sublist_append_left _ _)).trans (List.sublist_cons_self _ _)
    · have := ih2 n hn
      simp only [descF]
      exact (this.trans (List.sublist_append_right _ _)).trans (List.sublist_cons_self _ _)

theorem subs_desc_subset {f : Forest} {n : Node} (hn : n ∈ subsF f) {x : Hash} (hx : x ∈ descF [n]) :
    x ∈ descF f := (subs_sublist f n hn).subset hx

theorem subs_nodup {f : Forest} {n : Node} (hn : n ∈ subsF f) (hd : (descF f).Nodup) :
    (descF [n]).Nodup := (subs_sublist f n hn).nodup hd

theorem subs_trans : ∀ f n m, n ∈ subsF f → m ∈ subsF [n] → m ∈ subsF f := by
  intro f
  induction f using forest_ind with
  | nil => simp [subsF]
  | cons i cs rest ih1 ih2 =>
    intro n m hn hm
    simp only [subsF, List.mem_cons, List.mem_append] at hn
    rcases hn with rfl | hn | hn
    · simp only [subsF, List.append_nil, List.mem_cons] at hm
      simp only [subsF, List.mem_cons, List.mem_append]; grind
    · have := ih1 n m hn hm
      simp only [subsF, List.mem_cons, List.mem_append]; grind
    · have := ih2 n m hn hm
      simp only [subsF, List.mem_cons, List.mem_append]; grind

/-- with unique hashes a node is determined by its hash -/
theorem subs_unique : ∀ f, (descF f).Nodup → ∀ n m, n ∈ subsF f → m ∈ subsF f →
    n.info.hash = m.info.hash → n = m := by
  intro f
  induction f using forest_ind with
  | nil => simp [subsF]
  | cons i cs rest ih1 ih2 =>
    intro hd n m hn hm he
    simp only [descF, List.nodup_cons, List.mem_append, List.nodup_append] at hd
    obtain ⟨hi, hcs, hrest, hdis⟩ := hd
    simp only [subsF, List.mem_cons, List.mem_append] at hn hm
    have hc : ∀ x, x ∈ subsF cs → x.info.hash ∈ descF cs := fun x hx => mem_subs_hash_mem hx
    have hr : ∀ x, x ∈ subsF rest → x.info.hash ∈ descF rest := fun x hx => mem_subs_hash_mem hx
    rcases hn with rfl | hn | hn <;> rcases hm with rfl | hm | hm
    · rfl
    · exfalso; have := hc _ hm; simp_all
    · exfalso; have := hr _ hm; simp_all
    · exfalso; have := hc _ hn; simp_all
    · exact ih1 hcs n m hn hm he
    · exfalso; exact hdis _ (hc _ hn) _ (hr _ hm) he
    · exfalso; have := hr _ hn; simp_all
    · exfalso; exact hdis _ (hc _ hm) _ (hr _ hn) he.symm
    · exact ih2 hrest n m hn hm he

theorem findF_of_mem {f : Forest} (hd : (descF f).Nodup) {n : Node} (hn : n ∈ subsF f) :
    findF n.info.hash f = some n := by
  cases hf : findF n.info.hash f with
  | none => exact absurd (mem_subs_hash_mem hn) ((findF_none f).1 hf)
  | some m =>
    obtain ⟨hm, he⟩ := findF_some f m hf
    rw [subs_unique f hd m n hm hn he]

theorem mem_descF_iff_subs {f : Forest} {h : Hash} : h ∈ descF f ↔ ∃ n ∈ subsF f, n.info.hash = h := by
  rw [← subsF_map_hash]; simp

/-! ### parent chains -/

theorem pathF_none {h : Hash} : ∀ f, pathF h f = none ↔ h ∉ descF f := by
  intro f
  induction f using forest_ind with
  | nil => simp [pathF, descF]
  | cons i cs rest ih1 ih2 =>
    simp only [pathF, descF, List.mem_cons, List.mem_append]
    grind

theorem pathF_mem {h : Hash} {f : Forest} {q : List Info} (hq : pathF h f = some q) : h ∈ descF f := by
  have := (@pathF_none h f)
  grind

/-- a chain starts at the node asked for, is not longer than the forest and stays inside it -/
theorem pathF_shape {h : Hash} : ∀ f q, pathF h f = some q →
    (∃ i r, q = i :: r ∧ i.hash = h) ∧ q.length ≤ (descF f).length ∧ ∀ x ∈ q, x ∈ infosF f := by
  intro f
  induction f using forest_ind with
  | nil => simp [pathF]
  | cons i cs rest ih1 ih2 =>
    intro q hq
    simp only [pathF] at hq
    simp only [descF, infosF, List.length_cons, List.length_append, List.mem_cons, List.mem_append]
    split at hq
    · cases hq; simp_all
    · split at hq
      · next p hp =>
        cases hq
        obtain ⟨⟨i', r, rfl, hi'⟩, hl, hm⟩ := ih1 p hp
        refine ⟨⟨i', r ++ [i], by simp, hi'⟩, by simp at hl ⊢; omega, ?_⟩
        intro x hx
        simp only [List.cons_append, List.mem_cons, List.mem_append, List.mem_singleton] at hx
        have := hm x
        simp only [List.mem_cons] at this
        grind
      · obtain ⟨h1, hl, hm⟩ := ih2 q hq
        refine ⟨h1, by omega, ?_⟩
        intro x hx; have := hm x hx; grind

/-- numbers along a chain of a forest whose top-level nodes sit at `pn + 1` -/
def numOKF (pn : Nat) : Forest → Prop
  | [] => True
  | .mk i cs :: rest => i.number = pn + 1 ∧ numOKF i.number cs ∧ numOKF pn rest

theorem pathF_numbers {h : Hash} : ∀ f pn q, numOKF pn f → pathF h f = some q →
    ∀ k (hk : k < q.length), q[k].number + k = pn + q.length := by
  intro f
  induction f using forest_ind with
  | nil => simp [pathF]
  | cons i cs rest ih1 ih2 =>
    intro pn q hn hq k hk
    simp only [numOKF] at hn
    simp only [pathF] at hq
    split at hq
    · cases hq
      simp only [List.length_cons, List.length_nil] at hk ⊢
      have : k = 0 := by omega
      subst this; simp; omega
    · split at hq
      · next p hp =>
        cases hq
        have := ih1 i.number p hn.2.1 hp
        simp only [List.length_append, List.length_cons, List.length_nil] at hk ⊢
        by_cases hkp : k < p.length
        · rw [List.getElem_append_left hkp]; have := this k hkp; omega
        · have : k = p.length := by omega
          subst this
          simp; omega
      · exact ih2 pn q hn.2.2 hq k hk

/-- `a` lies on the chain of `d` iff `d` lies in the subtree of `a` -/
theorem path_mem_iff {d a : Hash} : ∀ f q, (descF f).Nodup → pathF d f = some q →
    (a ∈ q.map (·.hash) ↔ ∃ na, findF a f = some na ∧ d ∈ descF [na]) := by
  intro f
  induction f using forest_ind with
  | nil => simp [pathF]
  | cons i cs rest ih1 ih2 =>
    intro q hd hq
    simp only [descF, List.nodup_cons, List.mem_append, List.nodup_append] at hd
    obtain ⟨hi, hcs, hrest, hdis⟩ := hd
    simp only [pathF] at hq
    have hsubc : ∀ na, findF a cs = some na → ∀ x ∈ descF [na], x ∈ descF cs :=
      fun na h x hx => subs_desc_subset (findF_some cs na h).1 hx
    have hsubr : ∀ na, findF a rest = some na → ∀ x ∈ descF [na], x ∈ descF rest :=
      fun na h x hx => subs_desc_subset (findF_some rest na h).1 hx
    have hfc : ∀ na, findF a cs = some na → a ∈ descF cs := fun na h => by
      have := (findF_some cs na h); have := mem_subs_hash_mem this.1; simp_all
    have hfr : ∀ na, findF a rest = some na → a ∈ descF rest := fun na h => by
      have := (findF_some rest na h); have := mem_subs_hash_mem this.1; simp_all
    split at hq
    · next hih =>
      cases hq
      simp only [List.map_cons, List.map_nil, List.mem_singleton, findF]
      constructor
      · intro ha; subst ha; subst hih
        exact ⟨.mk i cs, by simp, by simp [descF]⟩
      · rintro ⟨na, hna, hdn⟩
        by_cases hia : i.hash = a
        · rw [← hia, hih]
        · exfalso
          simp only [hia, if_false] at hna
          split at hna
          · next m hm => cases hna; exact hi (Or.inl (hih ▸ hsubc _ hm _ hdn))
          · exact hi (Or.inr (hih ▸ hsubr _ hna _ hdn))
    · next hih =>
      split at hq
      · next p hp =>
        cases hq
        have hdcs : d ∈ descF cs := pathF_mem hp
        have ih := ih1 p hcs hp
        simp only [List.map_append, List.map_cons, List.map_nil, List.mem_append, List.mem_singleton, findF]
        by_cases hia : i.hash = a
        · simp only [hia, if_true]
          constructor
          · intro _; exact ⟨.mk i cs, rfl, by simp [descF, hdcs]⟩
          · intro _; exact Or.inr trivial
        · simp only [hia, if_false]
          constructor
          · rintro (h | h)
            · obtain ⟨na, hna, hdn⟩ := ih.1 h
              exact ⟨na, by simp [hna], hdn⟩
            · exact absurd h.symm hia
          · rintro ⟨na, hna, hdn⟩
            split at hna
            · next m hm => cases hna; exact Or.inl (ih.2 ⟨_, hm, hdn⟩)
            · exact absurd (hsubr _ hna _ hdn) (fun h => hdis _ hdcs _ h rfl)
      · next hp =>
        have hdcs : d ∉ descF cs := (pathF_none cs).1 hp
        have ih := ih2 q hrest hq
        have hdr : d ∈ descF rest := pathF_mem hq
        simp only [findF]
        by_cases hia : i.hash = a
        · simp only [hia, if_true]
          constructor
          · intro h
            exfalso
            obtain ⟨na, hna, _⟩ := ih.1 h
            exact hi (Or.inr (hia ▸ hfr _ hna))
          · rintro ⟨na, hna, hdn⟩
            cases hna
            simp only [descF, List.append_nil, List.mem_cons] at hdn
            rcases hdn with h | h
            · exact absurd h.symm hih
            · exact absurd h hdcs
        · simp only [hia, if_false]
          constructor
          · intro h
            obtain ⟨na, hna, hdn⟩ := ih.1 h
            cases hc : findF a cs with
            | some m => exact absurd rfl (hdis _ (hfc _ hc) _ (hfr _ hna))
            | none => exact ⟨na, by simp [hna], hdn⟩
          · rintro ⟨na, hna, hdn⟩
            split at hna
            · next m hm => cases hna; exact absurd (hsubc _ hm _ hdn) hdcs
            · exact ih.2 ⟨na, hna, hdn⟩

end Gossamer.BlockTree
