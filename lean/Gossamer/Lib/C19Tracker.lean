/-
C19 helper lemmas: the vote tracker after importing a list of precommits, characterised by
order-independent predicates on that list.
-/
import Gossamer.Model.C19
import Gossamer.Lib.C19Chain
namespace Gossamer.C19

/-- `id` signed two precommits that differ in vote or signature -/
def equivB (vp : List Pre) (id : Nat) : Bool :=
  vp.any (fun p => vp.any (fun q => p.id == id && q.id == id && !sameVS p q))

/-- `id` counts for block `b`: it equivocated, or one of its precommits is for `b` or a descendant -/
def supportsB (c : Chain) (vp : List Pre) (id b : Nat) : Bool :=
  equivB vp id || vp.any (fun p => p.id == id && desc c b p.blk)

theorem sameVS_refl (a : Pre) : sameVS a a = true := by simp [sameVS]

theorem sameVS_symm {a b : Pre} (h : sameVS a b = true) : sameVS b a = true := by
  simp [sameVS] at h ⊢; omega

theorem sameVS_trans {a b d : Pre} (h1 : sameVS a b = true) (h2 : sameVS b d = true) :
    sameVS a d = true := by
  simp [sameVS] at h1 h2 ⊢; omega

theorem sameVS_blk {a b : Pre} (h : sameVS a b = true) : a.blk = b.blk := by
  simp [sameVS] at h; omega

/-- what `addVote` does to the entry of the signer -/
def upd (p : Pre) : Option Tracked → Tracked
  | none => ⟨p.id, p, none⟩
  | some t => match t.second with
    | none => if sameVS t.first p then t else ⟨t.id, t.first, some p⟩
    | some _ => t

theorem findT_addVote (tr : List Tracked) (p : Pre) (id : Nat) :
    findT (addVote tr p).1 id = if id = p.id then some (upd p (findT tr p.id)) else findT tr id := by
  induction tr with
  | nil =>
    simp only [addVote, findT, upd]
    by_cases h : id = p.id
    · subst h; simp
    · have : ¬ p.id = id := fun e => h e.symm
      simp [h, this]
  | cons t ts ih =>
    simp only [addVote]
    by_cases ht : t.id = p.id
    · simp only [ht, if_true]
      have hf : findT (t :: ts) p.id = some t := by simp [findT, ht]
      rw [hf]
      cases hsec : t.second with
      | none =>
        simp only [upd, hsec]
        by_cases hs : sameVS t.first p = true
        · simp only [hs, if_true, findT, ht]
          by_cases h : id = p.id
          · subst h; simp
          · have : ¬ p.id = id := fun e => h e.symm
            simp [h, this]
        · have hs' : sameVS t.first p = false := by simpa using hs
          simp only [hs', Bool.false_eq_true, if_false, findT, ht]
          by_cases h : id = p.id
          · subst h; simp
          · have : ¬ p.id = id := fun e => h e.symm
            simp [h, this]
      | some s =>
        simp only [upd, hsec]
        have : (if (sameVS t.first p || sameVS s p) = true then (t :: ts, AddRes.dup)
            else (t :: ts, AddRes.ignored)).1 = t :: ts := by split <;> rfl
        rw [this]
        simp only [findT, ht]
        by_cases h : id = p.id
        · subst h; simp
        · have : ¬ p.id = id := fun e => h e.symm
          simp [h, this]
    · simp only [ht, if_false, findT]
      rw [ih]
      by_cases h : id = p.id
      · subst h; simp [ht]
      · simp [h]

/-- tracker invariant w.r.t. the list of precommits imported so far -/
structure TrInv (tr : List Tracked) (seen : List Pre) : Prop where
  none_iff : ∀ id, findT tr id = none ↔ ∀ p ∈ seen, p.id ≠ id
  some_spec : ∀ id t, findT tr id = some t →
    t.id = id ∧ t.first ∈ seen ∧ t.first.id = id ∧
    (∀ q, t.second = some q → q ∈ seen ∧ q.id = id ∧ sameVS t.first q = false) ∧
    (t.second = none → ∀ p ∈ seen, p.id = id → sameVS t.first p = true)
  mem_first : ∀ t ∈ tr, t.first ∈ seen

theorem trInv_nil : TrInv [] [] :=
  ⟨fun id => by simp [findT], fun id t h => by simp [findT] at h, fun t h => by simp at h⟩

theorem addVote_first (tr : List Tracked) (p : Pre) :
    ∀ t' ∈ (addVote tr p).1, t'.first = p ∨ ∃ t ∈ tr, t'.first = t.first := by
  induction tr with
  | nil => intro t' h; simp [addVote] at h; left; simp [h]
  | cons t ts ih =>
    intro t' h
    simp only [addVote] at h
    split at h
    · split at h
      · split at h
        · right; exact ⟨t', h, rfl⟩
        · rcases List.mem_cons.1 h with h | h
          · right; exact ⟨t, by simp, by simp [h]⟩
          · right; exact ⟨t', by simp [h], rfl⟩
      · split at h <;> exact Or.inr ⟨t', h, rfl⟩
    · rcases List.mem_cons.1 h with h | h
      · right; exact ⟨t, by simp, by simp [h]⟩
      · rcases ih t' h with h | ⟨t0, h0, h1⟩
        · left; exact h
        · right; exact ⟨t0, by simp [h0], h1⟩

theorem trInv_step {tr : List Tracked} {seen : List Pre} (h : TrInv tr seen) (p : Pre) :
    TrInv (addVote tr p).1 (seen ++ [p]) := by
  constructor
  · intro id
    rw [findT_addVote]
    by_cases hid : id = p.id
    · subst hid
      simp only [if_true]
      constructor
      · intro h'; simp at h'
      · intro h'; exact absurd rfl (h' p (by simp))
    · simp only [hid, if_false]
      rw [h.none_iff id]
      constructor
      · intro h' q hq
        rcases List.mem_append.1 hq with hq | hq
        · exact h' q hq
        · simp at hq; subst hq; exact fun e => hid e.symm
      · intro h' q hq; exact h' q (List.mem_append_left _ hq)
  · intro id t ht
    rw [findT_addVote] at ht
    by_cases hid : id = p.id
    · subst hid
      simp only [if_true, Option.some.injEq] at ht
      cases hf : findT tr p.id with
      | none =>
        rw [hf] at ht
        simp only [upd] at ht
        subst ht
        have hn := (h.none_iff p.id).1 hf
        refine ⟨rfl, by simp, rfl, by simp, ?_⟩
        intro _ q hq hqid
        rcases List.mem_append.1 hq with hq | hq
        · exact absurd hqid (hn q hq)
        · simp at hq; subst hq; exact sameVS_refl _
      | some t0 =>
        rw [hf] at ht
        obtain ⟨a1, a2, a3, a4, a5⟩ := h.some_spec p.id t0 hf
        cases hsec : t0.second with
        | none =>
          simp only [upd, hsec] at ht
          by_cases hs : sameVS t0.first p = true
          · simp only [hs, if_true] at ht
            subst ht
            refine ⟨a1, List.mem_append_left _ a2, a3, ?_, ?_⟩
            · intro q hq; rw [hsec] at hq; simp at hq
            · intro _ q hq hqid
              rcases List.mem_append.1 hq with hq | hq
              · exact a5 hsec q hq hqid
              · simp at hq; subst hq; exact hs
          · have hs' : sameVS t0.first p = false := by simpa using hs
            simp only [hs', Bool.false_eq_true, if_false] at ht
            subst ht
            refine ⟨a1, List.mem_append_left _ a2, a3, ?_, ?_⟩
            · intro q hq
              simp only [Option.some.injEq] at hq
              subst hq
              exact ⟨by simp, rfl, hs'⟩
            · intro hq; simp at hq
        | some s =>
          simp only [upd, hsec] at ht
          subst ht
          refine ⟨a1, List.mem_append_left _ a2, a3, ?_, ?_⟩
          · intro q hq
            obtain ⟨b1, b2, b3⟩ := a4 q hq
            exact ⟨List.mem_append_left _ b1, b2, b3⟩
          · intro hq; rw [hsec] at hq; simp at hq
    · simp only [hid, if_false] at ht
      obtain ⟨a1, a2, a3, a4, a5⟩ := h.some_spec id t ht
      refine ⟨a1, List.mem_append_left _ a2, a3, ?_, ?_⟩
      · intro q hq
        obtain ⟨b1, b2, b3⟩ := a4 q hq
        exact ⟨List.mem_append_left _ b1, b2, b3⟩
      · intro hsec q hq hqid
        rcases List.mem_append.1 hq with hq | hq
        · exact a5 hsec q hq hqid
        · simp at hq; subst hq; exact absurd hqid.symm hid
  · intro t' ht'
    rcases addVote_first tr p t' ht' with h1 | ⟨t, ht, h1⟩
    · rw [h1]; simp
    · rw [h1]; exact List.mem_append_left _ (h.mem_first t ht)

/-- the tracker after importing `l` on top of `tr` -/
def trackAll (tr : List Tracked) (l : List Pre) : List Tracked := l.foldl (fun tr p => (addVote tr p).1) tr

theorem trInv_fold : ∀ (l : List Pre) (tr : List Tracked) (seen : List Pre), TrInv tr seen →
    TrInv (trackAll tr l) (seen ++ l) := by
  intro l
  induction l with
  | nil => intro tr seen h; simpa [trackAll] using h
  | cons p l ih =>
    intro tr seen h
    have := ih _ _ (trInv_step h p)
    simpa [trackAll, List.append_assoc] using this

theorem trInv_all (l : List Pre) : TrInv (trackAll [] l) l := by
  simpa using trInv_fold l [] [] trInv_nil

theorem equivB_iff (vp : List Pre) (id : Nat) :
    equivB vp id = true ↔ ∃ p ∈ vp, ∃ q ∈ vp, p.id = id ∧ q.id = id ∧ sameVS p q = false := by
  simp [equivB, List.any_eq_true, and_assoc]

theorem anyDesc_iff (c : Chain) (vp : List Pre) (id b : Nat) :
    vp.any (fun p => p.id == id && desc c b p.blk) = true ↔ ∃ p ∈ vp, p.id = id ∧ desc c b p.blk = true := by
  simp [List.any_eq_true]

theorem supportsB_iff (c : Chain) (vp : List Pre) (id b : Nat) :
    supportsB c vp id b = true ↔
      equivB vp id = true ∨ ∃ p ∈ vp, p.id = id ∧ desc c b p.blk = true := by
  unfold supportsB
  rw [Bool.or_eq_true, anyDesc_iff]

/-- the cumulative-vote bit of the model is the order-independent predicate `supportsB` -/
theorem bit_eq_supports {tr : List Tracked} {vp : List Pre} (h : TrInv tr vp) (c : Chain) (id b : Nat) :
    bit c tr id b = supportsB c vp id b := by
  rw [Bool.eq_iff_iff, supportsB_iff, equivB_iff]
  unfold bit
  cases hf : findT tr id with
  | none =>
    have hn := (h.none_iff id).1 hf
    simp only [Bool.false_eq_true, false_iff]
    rintro (⟨p, hp, _, _, hpi, _⟩ | ⟨p, hp, hpi, _⟩) <;> exact hn p hp hpi
  | some t =>
    obtain ⟨a1, a2, a3, a4, a5⟩ := h.some_spec id t hf
    cases hsec : t.second with
    | some q =>
      obtain ⟨b1, b2, b3⟩ := a4 q hsec
      simp only [hsec, Option.isSome_some, Bool.true_or, true_iff]
      exact Or.inl ⟨t.first, a2, q, b1, a3, b2, b3⟩
    | none =>
      have hall := a5 hsec
      simp only [hsec, Option.isSome_none, Bool.false_or]
      constructor
      · intro hd
        exact Or.inr ⟨t.first, a2, a3, hd⟩
      · rintro (⟨p, hp, q, hq, hpi, hqi, hne⟩ | ⟨p, hp, hpi, hd⟩)
        · have := sameVS_trans (sameVS_symm (hall p hp hpi)) (hall q hq hqi)
          rw [this] at hne; cases hne
        · rw [sameVS_blk (hall p hp hpi)]; exact hd

/-! ### the import loop -/

theorem importStep_stop {vs : VoterSet} {s : Imp} (h : s.stop = true) (p : Pre) : importStep vs s p = s := by
  simp [importStep, h]

theorem import_stop_mono (vs : VoterSet) : ∀ (l : List Pre) (s : Imp), s.stop = true →
    (l.foldl (importStep vs) s).stop = true := by
  intro l
  induction l with
  | nil => intro s h; simpa using h
  | cons p l ih => intro s h; simp only [List.foldl_cons, importStep_stop h]; exact ih s h

theorem importStep_tr {vs : VoterSet} {s : Imp} (h : s.stop = false) (p : Pre) :
    (importStep vs s p).tr = (addVote s.tr p).1 := by
  unfold importStep
  simp only [h, Bool.false_eq_true, if_false]
  cases hr : addVote s.tr p with
  | mk tr r =>
    cases r <;> simp
    split <;> rfl

/-- if the loop ends without the early return, its tracker is the plain fold of `addVote` -/
theorem import_tr (vs : VoterSet) : ∀ (l : List Pre) (s : Imp),
    (l.foldl (importStep vs) s).stop = false →
    s.stop = false ∧ (l.foldl (importStep vs) s).tr = trackAll s.tr l := by
  intro l
  induction l with
  | nil => intro s h; exact ⟨by simpa using h, rfl⟩
  | cons p l ih =>
    intro s h
    simp only [List.foldl_cons] at h
    obtain ⟨h1, h2⟩ := ih _ h
    have hs : s.stop = false := by
      cases hst : s.stop with
      | false => rfl
      | true => rw [importStep_stop hst] at h1; rw [hst] at h1; exact h1
    refine ⟨hs, ?_⟩
    simp only [List.foldl_cons, trackAll]
    rw [h2, importStep_tr hs]
    rfl

end Gossamer.C19
