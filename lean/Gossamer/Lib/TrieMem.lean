/-
Model of the Go in-memory trie (`pkg/trie/inmemory/in_memory.go`, `iterator.go`,
`pkg/trie/codec/nibbles.go`), function by function, on the `Trie` type of `TrieSpec`.
Core Lean only.

Conventions
* a Go method that mutates the trie through pointers returns the new node here; the harness works
  on one trie whose nodes all have the trie's generation, so `prepForMutation` never copies;
* bookkeeping that no observable depends on is dropped: `Generation`, `Dirty`, `MerkleValue`
  (cache: C03/C04), `Descendants`, `nodesCreated`, `nodesRemoved`, pending deltas.  Where the Go
  code branches on such a counter (`nodesRemoved == 0`) the model carries the equivalent boolean;
* `MustBeHashed` is not stored: with a fixed trie version it always equals
  `mustBeHashed version value`, which `encodeNode` recomputes (the correspondence run for C01
  overwrites values across the 32-byte threshold to check exactly this);
* `IsHashedValue` is false for every node created in memory (it is set by the database loader only);
* slices indexed by the Go code (`key[n]`) are matched as `key.drop n = i :: rest`; the `[]` arm is
  the place where Go would panic with an index out of range and is unreachable in every case
  (argued at each site).
The quirks of the code are kept: `len(key) == 0` short cuts in `retrieveFromBranch`,
`deleteLeaf`, `deleteBranch`; `bytes.TrimSuffix(prefix, {0})` in `GetKeysWithPrefix`,
`ClearPrefix`, `ClearPrefixLimit`; children-before-own-value order of `deleteNodesLimit`.
-/
import Gossamer.Lib.TrieSpec
namespace Gossamer
namespace Trie

/-! ### codec/nibbles.go -/

/-- `codec.KeyLEToNibbles` (the `[]` and `[0]` special cases give the same result as the loop) -/
def keyLEToNibbles (k : Bytes) : Nibs :=
  if k.length = 0 then []
  else if k.length = 1 ∧ k.head? = some 0 then [0, 0]
  else toNibs k

/-- `codec.NibblesToKeyLE` -/
def nibblesToKeyLE (k : Nibs) : Bytes := packNibs k

/-- `lenCommonPrefix` -/
def lcpLen : Nibs → Nibs → Nat
  | a :: as, b :: bs => if a = b then lcpLen as bs + 1 else 0
  | _, _ => 0

/-- `bytes.TrimSuffix(prefix, []byte{0})`: remove ONE trailing zero nibble -/
def trimZero (p : Nibs) : Nibs :=
  if p.getLast? = some 0 then p.dropLast else p

/-! ### insert -/

/-- `insertInLeaf` for the leaf `(pk, lv)` -/
def insertInLeaf (pk : Nibs) (lv : Bytes) (key : Nibs) (value : Bytes) : Trie :=
  if pk = key then
    -- same key: the value (and the MustBeHashed flag) is replaced
    leaf pk value
  else
    let c := lcpLen key pk
    if key.length = c then
      -- key is included in the parent leaf key: the new branch holds the value
      branch (key.take c) (some value)
        (if key.length < pk.length then
          match pk.drop c with
          | i :: rest => setChild noChildren i (leaf rest lv)
          | [] => noChildren  -- unreachable: c < pk.length
         else noChildren)
    else if pk.length = c then
      -- the key of the parent leaf is at this new branch
      match key.drop c with
      | j :: krest => branch (key.take c) (some lv) (setChild noChildren j (leaf krest value))
      | [] => nil  -- unreachable: c < key.length
    else
      match pk.drop c, key.drop c with
      | i :: rest, j :: krest =>
        branch (key.take c) none
          (setChild (setChild noChildren i (leaf rest lv)) j (leaf krest value))
      | _, _ => nil  -- unreachable: c < both lengths

/-- `insert` / `insertInBranch` -/
def insert : Trie → Nibs → Bytes → Trie
  | nil, key, value => leaf key value
  | leaf pk lv, key, value => insertInLeaf pk lv key value
  | branch pk v cs, key, value =>
    if key = pk then branch pk (some value) cs
    else if pk.isPrefixOf key then
      -- key is included in parent branch key
      match key.drop pk.length with
      | i :: rest => branch pk v (setChild cs i (insert (cs i) rest value))
          -- (a nil child becomes `leaf rest value`, which is `insert nil rest value`)
      | [] => nil  -- unreachable: pk is a proper prefix of key
    else
      -- branch out at the point where the keys diverge
      let c := lcpLen key pk
      match pk.drop c with
      | oi :: orest =>
        let cs' := setChild noChildren oi (branch orest v cs)
        if key.length ≤ c then branch (key.take c) (some value) cs'
        else
          match key.drop c with
          | j :: krest => branch (key.take c) none (setChild cs' j (leaf krest value))
          | [] => nil  -- unreachable
      | [] => nil  -- unreachable: pk is not a prefix of key, so c < pk.length

/-! ### Get -/

/-- `retrieve` / `retrieveFromLeaf` / `retrieveFromBranch` (after the `fix:` that returns nil
    when the key leaves the branch partial key) -/
def retrieve : Trie → Nibs → Option Bytes
  | nil, _ => none
  | leaf pk v, key => if pk = key then some v else none
  | branch pk v cs, key =>
    if key.length = 0 || pk == key then v
    else if !(pk.isPrefixOf key) then none
    else
      match key.drop pk.length with
      | i :: rest => retrieve (cs i) rest
      | [] => none  -- unreachable: pk is a proper prefix of key

/-! ### region of the `len(key) == 0` short cuts (known finding `empty-remaining-key`) -/

/-- Get/Delete: the nibble key ends exactly on arrival at a node with a non-empty partial key
    (`len(key) == 0` short cut of `retrieveFromBranch` / `deleteLeaf` / `deleteBranch`). -/
def emptyKeyHit : Trie → Nibs → Bool
  | nil, _ => false
  | leaf pk _, key => key.isEmpty && !pk.isEmpty
  | branch pk _ cs, key =>
    if key.isEmpty then !pk.isEmpty
    else if pk == key then false
    else if !(pk.isPrefixOf key) then false
    else match key.drop pk.length with
      | i :: rest => emptyKeyHit (cs i) rest
      | [] => false

/-! ### Delete -/

/-- `handleDeletion(branch, key)` on the branch `(pk, v, cs)` -/
def handleDeletion (pk : Nibs) (v : Option Bytes) (cs : Nib → Trie) (key : Nibs) : Trie :=
  match childIdx cs, v with
  | [], some x =>
    -- no child left: the branch becomes a leaf
    leaf (key.take (lcpLen pk key)) x
  | [i], none =>
    -- a single child and no value: merge the child into the branch
    match cs i with
    | leaf cpk cv => leaf (pk ++ i :: cpk) cv
    | branch cpk cv ccs => branch (pk ++ i :: cpk) cv ccs
    | nil => branch pk v cs  -- unreachable: `i` indexes a non-nil child
  | _, _ => branch pk v cs

/-- `deleteAtNode` / `deleteLeaf` / `deleteBranch`: new node and the `deleted` flag -/
def deleteAtNode : Trie → Nibs → Trie × Bool
  | nil, _ => (nil, false)
  | leaf pk v, key =>
    if key.length > 0 && !(key == pk) then (leaf pk v, false) else (nil, true)
  | branch pk v cs, key =>
    if key.length = 0 || pk == key then
      (handleDeletion pk none cs key, true)
    else
      let c := lcpLen pk key
      if c = key.length || c < pk.length then (branch pk v cs, false)
      else
        match key.drop c with
        | i :: rest =>
          let r := deleteAtNode (cs i) rest
          if !r.2 then (branch pk v cs, false)
          else (handleDeletion pk v (setChild cs i r.1) key, true)
        | [] => (branch pk v cs, false)  -- unreachable: c < key.length

/-! ### GetKeysWithPrefix -/

/-- `addAllKeys`: full nibble keys of every entry below `t`, `prefix` prepended -/
def addAllKeys : Trie → Nibs → List Nibs
  | nil, _ => []
  | leaf pk _, pre => [pre ++ pk]
  | branch pk v cs, pre =>
    (match v with | some _ => [pre ++ pk] | none => []) ++
    (List.finRange 16).flatMap (fun i => addAllKeys (cs i) (pre ++ pk ++ [i]))

/-- `getKeysWithPrefix` (after the `fix:` of the `noPossiblePrefixedKeys` test) -/
def getKeysWithPrefix : Trie → Nibs → Nibs → List Nibs
  | nil, _, _ => []
  | leaf pk _, pre, key =>
    if key.length = 0 || key.isPrefixOf pk then [pre ++ pk] else []
  | branch pk v cs, pre, key =>
    if key.length = 0 || key.isPrefixOf pk then addAllKeys (branch pk v cs) pre
    else if !(pk.isPrefixOf key) then []
    else
      match key.drop pk.length with
      | i :: rest => getKeysWithPrefix (cs i) (pre ++ pk ++ [i]) rest
      | [] => []  -- unreachable: key is not a prefix of pk

/-! ### NextKey -/

/-- `findNextNode` / `findNextKeyOnChildren`: the full nibble key of the next entry -/
def findNextNode : Trie → Nibs → Nibs → Option Nibs
  | nil, _, _ => none
  | leaf pk _, pre, search =>
    if klt search (pre ++ pk) then some (pre ++ pk) else none
  | branch pk v cs, pre, search =>
    let full := pre ++ pk
    let onChildren (start : Nat) : Option Nibs :=
      ((List.finRange 16).filter (fun i => start ≤ i.val)).findSome?
        (fun i => findNextNode (cs i) (full ++ [i]) search)
    if klt search full then
      if v.isSome then some full else onChildren 0
    else if search = full then onChildren 0
    else if search.length ≤ full.length then none
    else
      match search.drop full.length with
      | i :: _ => onChildren i.val
      | [] => none  -- unreachable

/-! ### ClearPrefix -/

/-- `clearPrefixAtNode`: new node and "some node was removed" (`nodesRemoved > 0`) -/
def clearPrefixAtNode : Trie → Nibs → Trie × Bool
  | nil, _ => (nil, false)
  | leaf pk v, pre => if pre.isPrefixOf pk then (nil, true) else (leaf pk v, false)
  | branch pk v cs, pre =>
    if pre.isPrefixOf pk then (nil, true)
    else if pre.length = pk.length + 1 && pre.dropLast == pk then
      -- the prefix is one of the children of the branch
      match pre.drop pk.length with
      | i :: _ =>
        if (cs i).isNil then (branch pk v cs, false)
        else (handleDeletion pk v (setChild cs i nil) pre, true)
      | [] => (branch pk v cs, false)  -- unreachable
    else if pre.length ≤ pk.length || lcpLen pk pre < pk.length then (branch pk v cs, false)
    else
      match pre.drop pk.length with
      | i :: rest =>
        let r := clearPrefixAtNode (cs i) rest
        if !r.2 then (branch pk v cs, false)
        else (handleDeletion pk v (setChild cs i r.1) pre, true)
      | [] => (branch pk v cs, false)  -- unreachable

/-! ### ClearPrefixLimit -/

/-- loop state of `deleteNodesLimit` over the children of one branch -/
structure DnlState where
  cs : Nib → Trie
  limit : Nat
  deleted : Nat
  result : Option (Trie × Nat)   -- `some` once the Go loop has returned

/-- one iteration of the `for i, child := range branch.Children` loop of `deleteNodesLimit` on the
    branch `(pk, v, cs)`; `rec i limit` is the recursive call on child `i` -/
def dnlStep (pk : Nibs) (v : Option Bytes) (cs : Nib → Trie) (rec : Nib → Nat → Trie × Nat)
    (s : DnlState) (i : Nib) : DnlState :=
  if s.result.isSome || (cs i).isNil then s
  else
    let r := rec i s.limit
    let cs' := setChild s.cs i r.1
    let limit' := s.limit - r.2
    let deleted' := s.deleted + r.2
    let newParent := handleDeletion pk v cs' pk
    if (childIdx cs').isEmpty && v.isNone then
      { cs := cs', limit := limit', deleted := deleted', result := some (nil, deleted') }
    else if limit' = 0 then
      { cs := cs', limit := limit', deleted := deleted', result := some (newParent, deleted') }
    else { cs := cs', limit := limit', deleted := deleted', result := none }

/-- what `deleteNodesLimit` returns after the loop: the value recorded when the loop returned, or,
    if the loop ran to its end, the removal of the branch itself (`valuesDeleted++` for its value) -/
def dnlOut (v : Option Bytes) (final : DnlState) : Trie × Nat :=
  match final.result with
  | some r => r
  | none => (nil, final.deleted + (if v.isSome then 1 else 0))

/-- `deleteNodesLimit` on the branch `(pk, v, cs)` with a non-zero limit: the loop over the
    children, then the branch itself -/
def dnlBranch (pk : Nibs) (v : Option Bytes) (cs : Nib → Trie) (rec : Nib → Nat → Trie × Nat)
    (limit : Nat) : Trie × Nat :=
  dnlOut v ((List.finRange 16).foldl (dnlStep pk v cs rec)
    { cs := cs, limit := limit, deleted := 0, result := none })

theorem dnlBranch_eq (pk : Nibs) (v : Option Bytes) (cs : Nib → Trie)
    (rec : Nib → Nat → Trie × Nat) (limit : Nat) :
    dnlBranch pk v cs rec limit =
      dnlOut v ((List.finRange 16).foldl (dnlStep pk v cs rec)
        { cs := cs, limit := limit, deleted := 0, result := none }) := rfl

-- keeps the unfolding equations of `deleteNodesLimit` cheap (the loop is never evaluated
-- symbolically: sixteen nested copies of the loop state are exponentially large)
attribute [irreducible] dnlBranch

/-- `deleteNodesLimit`: new node and the number of values deleted.  (Go panics on a branch
    without children; such a node is never built by the trie operations and the model returns
    `nil` for it.) -/
def deleteNodesLimit : Trie → Nat → Trie × Nat
  | nil, _ => (nil, 0)
  | leaf pk v, limit => if limit = 0 then (leaf pk v, 0) else (nil, 1)
  | branch pk v cs, limit =>
    if limit = 0 then (branch pk v cs, 0)
    else dnlBranch pk v cs (fun i lim => deleteNodesLimit (cs i) lim) limit

/-- `clearPrefixLimitAtNode` / `clearPrefixLimitBranch` / `clearPrefixLimitChild`:
    new node, values deleted, allDeleted -/
def clearPrefixLimitAtNode : Trie → Nibs → Nat → Trie × Nat × Bool
  | nil, _, _ => (nil, 0, true)
  | leaf pk v, pre, _ => if pre.isPrefixOf pk then (nil, 1, true) else (leaf pk v, 0, true)
  | branch pk v cs, pre, limit =>
    if pre.isPrefixOf pk then
      let r := deleteNodesLimit (branch pk v cs) limit
      (r.1, r.2, r.1.isNil)
    else if pre.length = pk.length + 1 && pre.dropLast == pk then
      -- clearPrefixLimitChild
      match pre.drop pk.length with
      | i :: _ =>
        if (cs i).isNil then (branch pk v cs, 0, true)
        else
          let r := deleteNodesLimit (cs i) limit
          if r.2 = 0 then (branch pk v cs, 0, false)
          else (handleDeletion pk v (setChild cs i r.1) pre, r.2, r.1.isNil)
      | [] => (branch pk v cs, 0, true)  -- unreachable
    else if pre.length ≤ pk.length || lcpLen pk pre < pk.length then (branch pk v cs, 0, true)
    else
      match pre.drop pk.length with
      | i :: rest =>
        let r := clearPrefixLimitAtNode (cs i) rest limit
        if r.2.1 = 0 then (branch pk v cs, 0, r.2.2)
        else (handleDeletion pk v (setChild cs i r.1) pre, r.2.1, r.2.2)
      | [] => (branch pk v cs, 0, true)  -- unreachable

/-! ### the exported methods of `InMemoryTrie` (byte keys) -/

def put (t : Trie) (k v : Bytes) : Trie := insert t (keyLEToNibbles k) v

def get (t : Trie) (k : Bytes) : Option Bytes := retrieve t (keyLEToNibbles k)

def delete (t : Trie) (k : Bytes) : Trie := (deleteAtNode t (keyLEToNibbles k)).1

def clearPrefix (t : Trie) (p : Bytes) : Trie :=
  if p.length = 0 then nil
  else (clearPrefixAtNode t (trimZero (keyLEToNibbles p))).1

def clearPrefixLimit (t : Trie) (p : Bytes) (limit : Nat) : Trie × Nat × Bool :=
  if limit = 0 then (t, 0, false)
  else clearPrefixLimitAtNode t (trimZero (keyLEToNibbles p)) limit

def keysWithPrefix (t : Trie) (p : Bytes) : List Bytes :=
  let key := if p.length > 0 then trimZero (keyLEToNibbles p) else []
  (getKeysWithPrefix t [] key).map nibblesToKeyLE

def nextKey (t : Trie) (k : Bytes) : Option Bytes :=
  (findNextNode t [] (keyLEToNibbles k)).map nibblesToKeyLE

/-- `Entries()`: every key of the trie with `Get` of that key (unordered in Go: a map) -/
def entries (t : Trie) : List (Bytes × Option Bytes) :=
  (entriesN t).map (fun e => (nibblesToKeyLE e.1, get t (nibblesToKeyLE e.1)))

/-! ### regions of the other known findings (on the byte-keyed content `es` of the trie) -/

def lowNibbleZero (p : Bytes) : Bool :=
  match p.getLast? with
  | some b => b.toNat % 16 == 0
  | none => false

/-- some key has the nibble prefix `trimZero p` but not the byte prefix `p` -/
def trimRegion (p : Bytes) (es : Entries) : Bool :=
  lowNibbleZero p &&
    es.any (fun e => (trimZero (toNibs p)).isPrefixOf (toNibs e.1) && !(p.isPrefixOf e.1))

/-- among the keys with prefix `p` one is a proper prefix of another -/
def nestedRegion (p : Bytes) (es : Entries) : Bool :=
  let ks := OMap.keysWithPrefix p es
  ks.any (fun a => ks.any (fun b => a.isPrefixOf b && !(a == b)))

end Trie
end Gossamer
