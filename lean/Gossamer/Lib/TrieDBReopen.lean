/-
C06, step 5: a fresh `TrieDB` opened at the root that a session committed reads back the map.
-/
import Gossamer.Lib.TrieDBStore
import Gossamer.Lib.TrieDBSession
set_option linter.unusedSectionVars false
set_option linter.unusedSimpArgs false
namespace Gossamer.C06
open Gossamer Gossamer.Trie

/-! ### sizes of what is written -/

theorem header_length_pos (bits mask len : Nat) : 1 ≤ (header bits mask len).length := by
  unfold header; split <;> simp

theorem compactNat_length_pos (n : Nat) : 1 ≤ (compactNat n).length := by
  unfold compactNat
  split
  · simp
  · split
    · simp [length_leBytes]
    · split
      · simp [length_leBytes]
      · simp

theorem encodeNode_length (ver : Ver) (H : Bytes → Bytes) (hlen : ∀ x, (H x).length = 32) (t : Trie)
    (ht : t ≠ nil) : 2 ≤ (encodeNode ver H t).length := by
  cases t with
  | nil => exact absurd rfl ht
  | leaf pk v =>
    simp only [encodeNode, List.length_append, encodeValue]
    have h1 := header_length_pos 0x20 0x1f pk.length
    have h2 := header_length_pos 0x40 0x3f pk.length
    have h3 := compactNat_length_pos v.length
    split <;> simp_all [scaleBytes, hlen] <;> omega
  | branch pk v cs =>
    simp only [encodeNode, List.length_append, length_leBytes]
    have h1 := header_length_pos 0x80 0x3f pk.length
    have h2 := header_length_pos 0x10 0x0f pk.length
    have h3 := header_length_pos 0xc0 0x3f pk.length
    cases v with
    | none => simp only []; omega
    | some x => simp only []; split <;> omega

theorem putsOf_size (ver : Ver) (H : Bytes → Bytes) (t : Trie) :
    ∀ pre k x, WOp.put k x ∈ putsOf ver H t pre → 32 ≤ x.length := by
  have hval : ∀ full v k x, WOp.put k x ∈ valuePuts ver H full v → 32 ≤ x.length := by
    intro full v k x h
    unfold valuePuts at h
    split at h
    · rename_i hm
      simp at h
      obtain ⟨_, rfl⟩ := h
      cases ver <;> simp [mustBeHashed] at hm
      omega
    · simp at h
  induction t with
  | nil => intro pre k x h; simp [putsOf] at h
  | leaf pk v => intro pre k x h; exact hval _ _ k x (by simpa [putsOf] using h)
  | branch pk v cs ih =>
    intro pre k x h
    simp only [putsOf, List.mem_append, List.mem_flatMap] at h
    rcases h with h | ⟨i, _, h⟩
    · cases v with
      | none => simp [optValuePuts] at h
      | some y => exact hval _ _ k x h
    · split at h
      · simp at h
      · rcases List.mem_append.mp h with h | h
        · exact ih i _ k x h
        · split at h
          · rename_i hl
            simp at h
            obtain ⟨_, rfl⟩ := h
            exact hl
          · simp at h

/-! ### `db.Get` on content-addressed rows -/

theorem hasSuffix_rowKey {H : Bytes → Bytes} (hlen : ∀ x, (H x).length = 32) (q : Nibs) (x y : Bytes) :
    hasSuffix (rowKey q (H x)) (H y) = decide (H x = H y) := by
  simp [hasSuffix, rowKey, hlen]
  by_cases h : H x = H y <;> simp [h]

theorem dbGet_row {H : Bytes → Bytes} {Dom : Bytes → Prop} (hlen : ∀ x, (H x).length = 32)
    (hinj : InjOn H Dom) (h0 : Dom [0]) (db : DB) (q : Nibs) (x : Bytes) (hd : Dom x)
    (hx : 2 ≤ x.length)
    (hf : db.find (rowKey q (H x)) = some x) : dbGet H db (rowKey q (H x)) = some x := by
  unfold dbGet
  rw [hasSuffix_rowKey hlen]
  have : ¬ H x = H [0] := by
    intro e
    have := hinj _ _ hd h0 e
    rw [this] at hx
    simp at hx
  simp [this, hf]

/-! ### reading back -/

/-- the database after the commit of a session that ended with the trie `t ≠ nil` -/
def committedDb (ver : Ver) (H : Bytes → Bytes) (death : Death) (t : Trie) : DB :=
  applyW [] (death.map WOp.del ++ putsOf ver H t [] ++
    [WOp.put (H (encodeNode ver H t)) (encodeNode ver H t)])

theorem committed_find {ver : Ver} {H : Bytes → Bytes} {Dom : Bytes → Prop}
    (hlen : ∀ x, (H x).length = 32)
    (hinj : InjOn H Dom) (death : Death) (t : Trie) (ht : t ≠ nil) (hcov : Covers ver H Dom t) (k x : Bytes)
    (h : WOp.put k x ∈ putsOf ver H t [] ++ [WOp.put (H (encodeNode ver H t)) (encodeNode ver H t)]) :
    (committedDb ver H death t).find k = some x := by
  unfold committedDb
  rw [List.append_assoc, applyW_append, applyW_dels_nil]
  apply find_applyW_mem hlen hinj _ _ _ _ _ h
  intro op hop
  rcases List.mem_append.mp hop with h1 | h1
  · exact putsOf_content ver H Dom t hcov [] op h1
  · simp at h1; subst h1; exact ⟨⟨[], rfl⟩, hcov.1 _ (nodeOf_self ht)⟩

/-- `Get` on a fresh instance at the committed root of a non-empty trie -/
theorem get_committed (c : Cfg) {Dom : Bytes → Prop} (hlen : ∀ x, (c.H x).length = 32)
    (hinj : InjOn c.H Dom) (h0 : Dom [0]) (death : Death) (t : Trie) (ht : t ≠ nil)
    (hcov : Covers c.ver c.H Dom t)
    (hdec : ∀ n, NodeOf n t → c.dec (encodeNode c.ver c.H n) = some (viewOf c.ver c.H n))
    (k : Bytes) :
    doGet c { db := committedDb c.ver c.H death t, root := .persisted (c.H (encodeNode c.ver c.H t)),
              rootHash := c.H (encodeNode c.ver c.H t), death := [] } k = lookup t (toNibs k) := by
  have henc := encodeNode_length c.ver c.H hlen t ht
  have hroot : dbGet c.H (committedDb c.ver c.H death t) (rowKey [] (c.H (encodeNode c.ver c.H t))) =
      some (encodeNode c.ver c.H t) := by
    apply dbGet_row hlen hinj h0 _ _ _ (hcov.1 _ (nodeOf_self ht)) henc
    apply committed_find hlen hinj death t ht hcov
    simp [rowKey, prefixBytes]
  have hst : Stored c.ver c.H (dbGet c.H (committedDb c.ver c.H death t)) t [] := by
    apply stored_of_puts
    intro k x hk
    obtain ⟨⟨q, hq⟩, hdx⟩ := putsOf_content c.ver c.H Dom t hcov [] _ hk
    have hsz := putsOf_size c.ver c.H t [] k x hk
    rw [hq]
    apply dbGet_row hlen hinj h0 _ _ _ hdx (by omega)
    rw [← hq]
    exact committed_find hlen hinj death t ht hcov k x (List.mem_append_left _ hk)
  simp only [doGet, lookupMem, lookupDB, Cfg.env, hroot]
  exact lookupData_eq
    { H := c.H, dec := c.dec, ver := c.ver, db := committedDb c.ver c.H death t } k t hdec ht
    ((toNibs k).length + 1) [] (toNibs k) (by omega) (by simp) hst

/-- the state after the commit of a session -/
theorem sess_commit_state (c : Cfg) {s : St} {t : Trie} (h : Sess c s t) :
    commit c.H s = .ok
      (if t.isNil then { s with death := [] }
       else { db := committedDb c.ver c.H s.death t, root := .persisted (c.H (encodeNode c.ver c.H t)),
              rootHash := c.H (encodeNode c.ver c.H t), death := [] }) := by
  by_cases ht : t = nil
  · subst ht
    have hr : s.root = .persisted (c.H [0]) := by rw [h.root]; rfl
    simp only [commit, hr, Trie.isNil, if_true]
  · have hr : s.root = ofTrie c.ver t := by rw [h.root, rootOf, isNil_false_of_ne ht]; rfl
    have henc := encNew_ofTrie c.ver c.H t ht []
    rw [isNil_false_of_ne ht]
    cases t with
    | nil => exact absurd rfl ht
    | leaf pk v =>
      simp only [ofTrie] at hr henc
      simp only [commit, hr, Hd.cached, henc, h.db, committedDb, Bool.false_eq_true, if_false,
        List.append_assoc]
    | branch pk v cs =>
      simp only [ofTrie] at hr henc
      simp only [commit, hr, Hd.cached, henc, h.db, committedDb, Bool.false_eq_true, if_false,
        List.append_assoc]

/-- `Get` on a fresh instance opened at the root committed by a session returns the trie's
    `lookup` for every key -/
theorem sess_reopen_get (c : Cfg) (hdec0 : c.dec [0] = some .empty)
    {Dom : Bytes → Prop} (hlen : ∀ x, (c.H x).length = 32) (hinj : InjOn c.H Dom) (h0 : Dom [0])
    {s : St} {t : Trie} (h : Sess c s t) (hcov : Covers c.ver c.H Dom t)
    (hdec : ∀ n, NodeOf n t → c.dec (encodeNode c.ver c.H n) = some (viewOf c.ver c.H n)) :
    ∃ s', commit c.H s = .ok s' ∧ s'.rootHash = hashTrie c.ver c.H t ∧
      ∀ k, doGet c (reopenAt s') k = lookup t (toNibs k) := by
  refine ⟨_, sess_commit_state c h, ?_, ?_⟩
  · by_cases ht : t = nil
    · subst ht; simp [Trie.isNil, h.hash rfl, hashTrie, encodeNode]
    · simp [isNil_false_of_ne ht, hashTrie]
  · intro k
    by_cases ht : t = nil
    · subst ht
      have hr : s.rootHash = c.H [0] := h.hash rfl
      simp only [Trie.isNil, if_true, reopenAt, hr, doGet, lookupMem, lookupDB, Cfg.env, h.db,
        dbGet, rowKey, prefixBytes, List.nil_append, hasSuffix_self, lookupData, hdec0, lookup_nil]
    · simp only [isNil_false_of_ne ht, Bool.false_eq_true, if_false, reopenAt]
      exact get_committed c hlen hinj h0 s.death t ht hcov hdec k

end Gossamer.C06
