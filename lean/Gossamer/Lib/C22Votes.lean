/-
C22 library: vote sets — who supports a block, monotonicity in the set and in the block, honest voters.
-/
import Gossamer.Lib.C22Weights
import Gossamer.Lib.C22Tree
namespace Gossamer.C22
set_option linter.unusedSectionVars false

section
variable {B : Type} [DecidableEq B]

theorem equivocates_iff (S : Votes B) (v : Nat) :
    equivocates S v = true ↔ ∃ b b', (v, b) ∈ S ∧ (v, b') ∈ S ∧ b ≠ b' := by
  unfold equivocates
  constructor
  · intro h
    have ⟨x, hx, h'⟩ := List.any_eq_true.mp h
    have ⟨y, hy, h''⟩ := List.any_eq_true.mp h'
    simp at h''
    refine ⟨x.2, y.2, ?_, ?_, h''.2⟩
    · have : x = (v, x.2) := by rw [← h''.1.1]
      rw [← this]; exact hx
    · have : y = (v, y.2) := by rw [← h''.1.2]
      rw [← this]; exact hy
  · intro ⟨b, b', h1, h2, hne⟩
    apply List.any_eq_true.mpr
    refine ⟨(v, b), h1, ?_⟩
    apply List.any_eq_true.mpr
    exact ⟨(v, b'), h2, by simp [hne]⟩

theorem supports_iff (O : BlockOrder B) (S : Votes B) (x : B) (v : Nat) :
    supports O S x v = true ↔
      (∃ b, (v, b) ∈ S ∧ O.le x b = true) ∨ equivocates S v = true := by
  unfold supports
  rw [Bool.or_eq_true]
  constructor
  · intro h
    cases h with
    | inl h =>
      left
      have ⟨y, hy, h'⟩ := List.any_eq_true.mp h
      simp at h'
      refine ⟨y.2, ?_, h'.2⟩
      have : y = (v, y.2) := by rw [← h'.1]
      rw [← this]; exact hy
    | inr h => right; exact h
  · intro h
    cases h with
    | inl h =>
      left
      have ⟨b, hb, hle⟩ := h
      exact List.any_eq_true.mpr ⟨(v, b), hb, by simp [hle]⟩
    | inr h => right; exact h

theorem voted_iff (S : Votes B) (v : Nat) : voted S v = true ↔ ∃ b, (v, b) ∈ S := by
  unfold voted
  constructor
  · intro h
    have ⟨y, hy, h'⟩ := List.any_eq_true.mp h
    simp at h'
    refine ⟨y.2, ?_⟩
    have : y = (v, y.2) := by rw [← h']
    rw [← this]; exact hy
  · intro ⟨b, hb⟩
    exact List.any_eq_true.mpr ⟨(v, b), hb, by simp⟩

theorem equivocates_mono {S T : Votes B} (h : ∀ p, p ∈ S → p ∈ T) (v : Nat)
    (he : equivocates S v = true) : equivocates T v = true := by
  have ⟨b, b', h1, h2, hne⟩ := (equivocates_iff S v).mp he
  exact (equivocates_iff T v).mpr ⟨b, b', h _ h1, h _ h2, hne⟩

theorem supports_mono {S T : Votes B} (O : BlockOrder B) (h : ∀ p, p ∈ S → p ∈ T) (x : B) (v : Nat)
    (hs : supports O S x v = true) : supports O T x v = true := by
  rw [supports_iff] at *
  cases hs with
  | inl hs => left; have ⟨b, hb, hle⟩ := hs; exact ⟨b, h _ hb, hle⟩
  | inr hs => right; exact equivocates_mono h v hs

theorem supports_down (O : BlockOrder B) (S : Votes B) {x x' : B} (hle : O.le x' x = true) (v : Nat)
    (hs : supports O S x v = true) : supports O S x' v = true := by
  rw [supports_iff] at *
  cases hs with
  | inl hs => left; have ⟨b, hb, hxb⟩ := hs; exact ⟨b, hb, O.trans _ _ _ hle hxb⟩
  | inr hs => right; exact hs

theorem single_sub {S T : Votes B} (h : ∀ p, p ∈ S → p ∈ T) (v : Nat) (hs : single T v) : single S v :=
  fun b b' h1 h2 => hs b b' (h _ h1) (h _ h2)

theorem not_equivocates_of_single (S : Votes B) (v : Nat) (hs : single S v) :
    equivocates S v = false := by
  cases he : equivocates S v with
  | false => rfl
  | true =>
    have ⟨b, b', h1, h2, hne⟩ := (equivocates_iff S v).mp he
    exact absurd (hs b b' h1 h2) hne

/-- a voter with a single vote supports `x` only through that vote -/
theorem supports_single (O : BlockOrder B) (S : Votes B) (x : B) (v : Nat) (hs : single S v)
    (h : supports O S x v = true) : ∃ b, (v, b) ∈ S ∧ O.le x b = true := by
  rw [supports_iff] at h
  cases h with
  | inl h => exact h
  | inr h => rw [not_equivocates_of_single S v hs] at h; exact absurd h (by simp)

theorem tally_mono (vs : Voters) (O : BlockOrder B) {S T : Votes B} (h : ∀ p, p ∈ S → p ∈ T) (x : B) :
    tally vs O S x ≤ tally vs O T x :=
  vs.weight_mono _ _ (fun v _ hv => supports_mono O h x v hv)

theorem tally_down (vs : Voters) (O : BlockOrder B) (S : Votes B) {x x' : B} (hle : O.le x' x = true) :
    tally vs O S x ≤ tally vs O S x' :=
  vs.weight_mono _ _ (fun v _ hv => supports_down O S hle v hv)

theorem hasSuper_mono (vs : Voters) (O : BlockOrder B) {S T : Votes B} (h : ∀ p, p ∈ S → p ∈ T) (x : B)
    (hs : hasSuper vs O S x) : hasSuper vs O T x := by
  unfold hasSuper supermajority at *
  have := tally_mono vs O h x
  omega

theorem hasSuper_down (vs : Voters) (O : BlockOrder B) (S : Votes B) {x x' : B}
    (hle : O.le x' x = true) (hs : hasSuper vs O S x) : hasSuper vs O S x' := by
  unfold hasSuper supermajority at *
  have := tally_down vs O S hle
  omega

/-- a supermajority for `x` is witnessed by an honest voter whose (only) vote is for `x` or a descendant -/
theorem hasSuper_honest_vote (vs : Voters) (O : BlockOrder B) (S : Votes B) (x : B)
    (hmin : vs.minority) (hhon : ∀ v, vs.honest v → single S v) (hs : hasSuper vs O S x) :
    ∃ v b, vs.honest v ∧ (v, b) ∈ S ∧ O.le x b = true := by
  have ⟨v, hm, hsup, hb⟩ := vs.super_has_honest _ hmin hs
  have ⟨b, hb1, hb2⟩ := supports_single O S x v (hhon v ⟨hm, hb⟩) hsup
  exact ⟨v, b, ⟨hm, hb⟩, hb1, hb2⟩

/-! ### messages -/

theorem mem_votesOf (ms : List (Msg B)) (r : Nat) (st : Stage) (v : Nat) (b : B) :
    (v, b) ∈ votesOf ms r st ↔ (⟨r, st, v, b⟩ : Msg B) ∈ ms := by
  unfold votesOf
  rw [List.mem_filterMap]
  constructor
  · intro ⟨m, hm, h⟩
    by_cases hc : m.round = r ∧ m.stage = st
    · rw [if_pos hc] at h
      simp at h
      have : m = ⟨r, st, v, b⟩ := by
        cases m; simp at *; exact ⟨hc.1, hc.2, h.1, h.2⟩
      rw [← this]; exact hm
    · rw [if_neg hc] at h; exact absurd h (by simp)
  · intro h
    exact ⟨⟨r, st, v, b⟩, h, by simp⟩

theorem votesOf_sub {ms ms' : List (Msg B)} (h : ∀ m, m ∈ ms → m ∈ ms') (r : Nat) (st : Stage) :
    ∀ p, p ∈ votesOf ms r st → p ∈ votesOf ms' r st := by
  intro p hp
  have : p = (p.1, p.2) := rfl
  rw [this, mem_votesOf] at *
  exact h _ hp

end

end Gossamer.C22
