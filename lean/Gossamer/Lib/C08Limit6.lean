/-
C08: the limit variants on child tries as whole steps of the model over the ideal backend
(inside a transaction and with no transaction open).
-/
import Gossamer.Lib.C08Limit5
set_option linter.unusedSectionVars false
set_option linter.unusedSimpArgs false
namespace Gossamer.C08
open Gossamer

section step
variable (Hc Hm : Entries → Bytes) {CK : Bytes → Bool} {b : Logical}

theorem entries_keys (es : Entries) :
    (((idealBackend Hc Hm).T.entries es).map (·.1)) = es.map (·.1) := by
  simp only [idealBackend, omapOps, List.map_map]
  rfl

/-- `DeleteChildLimit` inside a transaction, in one expression -/
theorem deleteChildLimitTS_tx (d : Diff) (r : List Diff) (ck : Bytes) (limit : Option Nat) :
    deleteChildLimitTS (idealBackend Hc Hm) { base := b, txs := d :: r } ck limit =
      if (KMap.find ck b.kids).isNone && (KMap.find ck d.kids).isNone then
        ({ base := b, txs := d :: r }, .cnt 0 false)
      else
        ({ base := b, txs := (d.deleteChildLimit ck ((kidOf b ck).map (·.1)) limit).1 :: r },
          .cnt (d.deleteChildLimit ck ((kidOf b ck).map (·.1)) limit).2.1
            (d.deleteChildLimit ck ((kidOf b ck).map (·.1)) limit).2.2) := by
  simp only [deleteChildLimitTS]
  rw [getChild_ideal]
  cases hf : KMap.find ck b.kids with
  | none =>
    simp only [kidOf_none hf, List.map_nil, Option.isNone_none, Bool.true_and]
  | some es =>
    simp only [kidOf_some hf, Option.isNone_some, Bool.false_and, Bool.false_eq_true, if_false,
      entries_keys]

theorem deleteKeysLimit_eq (es : Entries) (ks : List Bytes) (limit : Nat) :
    ∀ (c : Entries) (n : Nat), n ≤ limit →
      deleteKeysLimit (idealBackend Hc Hm) c ks limit n =
        ((ks.take (limit - n)).foldl (fun t k => OMap.erase k t) c,
          n + (ks.take (limit - n)).length) := by
  induction ks with
  | nil => intro c n _; simp [deleteKeysLimit]
  | cons k r ih =>
    intro c n hn
    simp only [deleteKeysLimit]
    by_cases h : n = limit
    · subst h; simp
    · simp only [h, if_false]
      have hlt : n < limit := by omega
      rw [ih _ (n + 1) (by omega)]
      have e : limit - n = (limit - (n + 1)) + 1 := by omega
      rw [e, List.take_succ_cons]
      simp only [List.foldl_cons, List.length_cons, idealBackend, omapOps]
      congr 1
      omega

theorem spec_allOld (es : Entries) (hs : OMap.Sorted es) (limit : Option Nat) :
    specLimit es es (fun _ => true) limit =
      ((takeLim (fun _ => true) (es.map (·.1)) limit).foldl (fun t k => OMap.erase k t) es,
        (takeLim (fun _ => true) (es.map (·.1)) limit).length,
        (takeLim (fun _ => true) (es.map (·.1)) limit).length == (es.map (·.1)).length) := by
  have hc : unionKeys ((es.map (·.1)).filter (fun _ => true)) ((es.map (·.1)).filter (fun _ => true))
      = es.map (·.1) := by
    rw [filter_const_true, unionKeys_self (omap_sorted_keys hs)]
  have hold : ∀ k ∈ es.map (·.1), (OMap.get k es).isSome = (fun _ => true) k := by
    intro k hk
    have := (omap_mem_keys es k).mp hk
    cases hg : OMap.get k es with
    | none => exact absurd hg this
    | some v => rfl
  have hl := specLoop_take es (fun _ => true) (es.map (·.1)) hold limit es 0
  unfold specLimit
  simp only []
  rw [hc, hl]
  simp

theorem fold_erase_all (es : Entries) (hs : OMap.Sorted es) :
    (es.map (·.1)).foldl (fun t k => OMap.erase k t) es = [] := by
  apply eq_nil_of_get_none (sorted_foldl_erase _ hs)
  intro k
  rw [get_foldl_erase]
  by_cases hk : k ∈ es.map (·.1)
  · simp [hk]
  · simp only [hk, if_false]
    cases hg : OMap.get k es with
    | none => rfl
    | some v => exact absurd ((omap_mem_keys es k).mpr (by rw [hg]; simp)) hk

/-- `DeleteChildLimit` with no transaction open -/
theorem killl0 (hw : b.WF) (ck : Bytes) (limit : Option Nat) :
    deleteChildLimitTS (idealBackend Hc Hm) { base := b, txs := [] } ck limit =
      if (KMap.find ck b.kids).isNone then ({ base := b, txs := [] }, .cnt 0 false)
      else
        ({ base := Logical.setKid b ck
            (specLimit (kidOf b ck) (kidOf b ck) (fun _ => true) limit).1, txs := [] },
          .cnt (specLimit (kidOf b ck) (kidOf b ck) (fun _ => true) limit).2.1
            (specLimit (kidOf b ck) (kidOf b ck) (fun _ => true) limit).2.2) := by
  simp only [deleteChildLimitTS]
  rw [getChild_ideal]
  cases hf : KMap.find ck b.kids with
  | none => simp
  | some es =>
    have hs : OMap.Sorted es := (hw.kid ck es hf).1
    simp only [kidOf_some hf, Option.isNone_some, Bool.false_eq_true, if_false, entries_keys]
    rw [spec_allOld es hs]
    cases limit with
    | none =>
      simp only [takeLim_none, fold_erase_all es hs]
      simp [idealBackend, Logical.setKid]
    | some n =>
      simp only [takeLim_allOld]
      rw [deleteKeysLimit_eq Hc Hm es _ n es 0 (Nat.zero_le _)]
      simp [idealBackend]

/-- `ClearPrefixInChildWithLimit` with no transaction open, on an existing child -/
theorem cclrl0 (hw : b.WF) (ck p : Bytes) (n : Nat) (hex : (KMap.find ck b.kids).isSome = true)
    (h0 : n ≠ 0 ∨ OMap.keysWithPrefix p (kidOf b ck) ≠ []) :
    clearPrefixInChildLimitTS (idealBackend Hc Hm) { base := b, txs := [] } ck p n =
      ({ base := Logical.setKid b ck
          (specLimit (kidOf b ck) (kidOf b ck) (fun k => p.isPrefixOf k) (some n)).1, txs := [] },
        .cnt (specLimit (kidOf b ck) (kidOf b ck) (fun k => p.isPrefixOf k) (some n)).2.1
          (specLimit (kidOf b ck) (kidOf b ck) (fun k => p.isPrefixOf k) (some n)).2.2) := by
  simp only [clearPrefixInChildLimitTS]
  rw [getChild_ideal]
  cases hf : KMap.find ck b.kids with
  | none => rw [hf] at hex; cases hex
  | some es =>
    have hs : OMap.Sorted es := (hw.kid ck es hf).1
    rw [kidOf_some hf] at h0 ⊢
    rw [← clearPrefixLimit_spec p n hs h0]
    simp [idealBackend, omapOps]

end step

end Gossamer.C08
