/-
C08: the ideal backend — well-formedness of logical states, extensionality, and `applyToTrie`
over the ideal backend as a plain function on logical states (`applyIdeal`).
-/
import Gossamer.Lib.C08Spec
import Gossamer.Lib.C08MapLemmas
set_option linter.unusedSectionVars false
set_option linter.unusedSimpArgs false
namespace Gossamer.C08
open Gossamer

/-! ### well-formed logical states -/

structure Logical.WF (l : Logical) : Prop where
  main : OMap.Sorted l.main
  noChild : ∀ k, Logical.isChildKey k = true → OMap.get k l.main = none
  kids : KMap.Sorted l.kids
  kid : ∀ ck es, KMap.find ck l.kids = some es → OMap.Sorted es ∧ es ≠ []

theorem Logical.wf_empty : Logical.empty.WF :=
  ⟨trivial, fun _ _ => rfl, trivial, fun _ _ h => by simp [Logical.empty, KMap.find] at h⟩

theorem get_head_ne_none {es : Entries} (h : es ≠ []) : ∃ k, OMap.get k es ≠ none := by
  cases es with
  | nil => exact absurd rfl h
  | cons e r => exact ⟨e.1, by simp [OMap.get]⟩

theorem kidOf_sorted {l : Logical} (h : l.WF) (ck : Bytes) : OMap.Sorted (kidOf l ck) := by
  unfold kidOf
  cases hf : KMap.find ck l.kids with
  | none => exact trivial
  | some es => exact (h.kid ck es hf).1

theorem kidOf_nil_iff {l : Logical} (h : l.WF) (ck : Bytes) :
    kidOf l ck = [] ↔ KMap.find ck l.kids = none := by
  unfold kidOf
  cases hf : KMap.find ck l.kids with
  | none => simp
  | some es => simp [(h.kid ck es hf).2]

/-- two well-formed logical states with the same main map and the same child maps are equal -/
theorem Logical.ext {a b : Logical} (ha : a.WF) (hb : b.WF)
    (hm : ∀ k, OMap.get k a.main = OMap.get k b.main)
    (hk : ∀ ck k, OMap.get k (kidOf a ck) = OMap.get k (kidOf b ck)) : a = b := by
  obtain ⟨am, ak⟩ := a
  obtain ⟨bm, bk⟩ := b
  have h1 : am = bm := OMap.sorted_ext ha.main hb.main hm
  have h2 : ak = bk := by
    apply KMap.ext ha.kids hb.kids
    intro ck
    have hck := hk ck
    have e1 : kidOf ⟨am, ak⟩ ck = kidOf ⟨bm, bk⟩ ck :=
      OMap.sorted_ext (kidOf_sorted ha ck) (kidOf_sorted hb ck) hck
    unfold kidOf at e1
    simp only at e1
    cases hfa : KMap.find ck ak with
    | none =>
      cases hfb : KMap.find ck bk with
      | none => rfl
      | some es =>
        rw [hfa, hfb] at e1
        simp only [Option.getD_none, Option.getD_some] at e1
        exact absurd e1.symm (hb.kid ck es hfb).2
    | some es =>
      cases hfb : KMap.find ck bk with
      | none =>
        rw [hfa, hfb] at e1
        simp only [Option.getD_none, Option.getD_some] at e1
        exact absurd e1 (ha.kid ck es hfa).2
      | some es' =>
        rw [hfa, hfb] at e1
        simp only [Option.getD_some] at e1
        rw [e1]
  rw [h1, h2]

/-! ### `applyToTrie` over the ideal backend -/

def putMain (l : Logical) (kv : Bytes × Bytes) : Logical :=
  if Logical.isChildKey kv.1 then l else { l with main := OMap.upsert kv.1 kv.2 l.main }

def applyKidI (l : Logical) (e : Bytes × List (Bytes × Bytes) × List Bytes) : Logical :=
  let l1 := e.2.1.foldl (fun l kv => Logical.putIntoChild l e.1 kv.1 (some kv.2)) l
  e.2.2.foldl (fun l k => (Logical.clearFromChild l e.1 k).getD l) l1

def applyDelI (l : Logical) (k : Bytes) : Logical :=
  match KMap.find k l.kids with
  | some _ => { l with kids := KMap.del k l.kids }
  | none => if Logical.isChildKey k then l else { l with main := OMap.erase k l.main }

def applyIdeal (b : Logical) (o : ApplyOrder) : Logical :=
  o.dels.foldl applyDelI (o.kids.foldl applyKidI (o.ups.foldl putMain b))

theorem foldl_some_bind {α β : Type} (f : β → α → β) (l : List α) (b : β) :
    l.foldl (fun (s : Option β) a => s.bind (fun x => some (f x a))) (some b) = some (l.foldl f b) := by
  induction l generalizing b with
  | nil => rfl
  | cons a r ih => simp only [List.foldl_cons, Option.bind_some]; exact ih _

theorem foldl_some_map {α β : Type} (f : β → α → β) (l : List α) (b : β) :
    l.foldl (fun (s : Option β) a => s.map (fun x => f x a)) (some b) = some (l.foldl f b) := by
  induction l generalizing b with
  | nil => rfl
  | cons a r ih => simp only [List.foldl_cons, Option.map_some]; exact ih _

section
variable (Hc Hm : Entries → Bytes)

theorem applyKid_ideal (l : Logical) (e : Bytes × List (Bytes × Bytes) × List Bytes) :
    applyKid (idealBackend Hc Hm) (some l) e = some (applyKidI l e) := by
  unfold applyKid applyKidI
  simp only [idealBackend]
  have h1 := foldl_some_bind
    (fun b (kv : Bytes × Bytes) => Logical.putIntoChild b e.1 kv.1 (some kv.2)) e.2.1 l
  have h2 := foldl_some_map (fun b k => (Logical.clearFromChild b e.1 k).getD b) e.2.2
    (e.2.1.foldl (fun l (kv : Bytes × Bytes) => Logical.putIntoChild l e.1 kv.1 (some kv.2)) l)
  rw [h1, h2]

theorem applyDel_ideal (l : Logical) (k : Bytes) :
    applyDel (idealBackend Hc Hm) l k = applyDelI l k := by
  unfold applyDel applyDelI
  simp only [idealBackend]
  cases KMap.find k l.kids <;> rfl

/-- over the ideal backend `applyToTrie` never panics and is `applyIdeal` -/
theorem applyToTrie_ideal (b : Logical) (o : ApplyOrder) :
    applyToTrie (idealBackend Hc Hm) b o = some (applyIdeal b o) := by
  unfold applyToTrie applyIdeal
  have h1 : o.ups.foldl (fun b kv => (idealBackend Hc Hm).put b kv.1 (some kv.2)) b =
      o.ups.foldl putMain b := by
    congr 1
  have h2 : ∀ (ks : List (Bytes × List (Bytes × Bytes) × List Bytes)) (l : Logical),
      ks.foldl (applyKid (idealBackend Hc Hm)) (some l) = some (ks.foldl applyKidI l) := by
    intro ks
    induction ks with
    | nil => intro l; rfl
    | cons e r ih => intro l; simp only [List.foldl_cons, applyKid_ideal]; exact ih _
  have h3 : ∀ (ds : List Bytes) (l : Logical),
      ds.foldl (applyDel (idealBackend Hc Hm)) l = ds.foldl applyDelI l := by
    intro ds
    induction ds with
    | nil => intro l; rfl
    | cons k r ih => intro l; simp only [List.foldl_cons, applyDel_ideal]; exact ih _
  simp only [h1, h2, Option.map_some, h3]

end

end Gossamer.C08
