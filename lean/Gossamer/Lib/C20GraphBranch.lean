/-
C20 layer (b), proofs: `introduceBranch` – a block inside the ancestor edges of the vote-nodes `R` gets a
vote-node that takes over those descendants; the structural invariant holds for the enlarged node set.
-/
import Gossamer.Lib.C20GraphBranchFold
namespace Gossamer.C20

variable {t : Tree}

theorem branch_struct (h : t.WF) {ins : Ins} {g : Graph} (inv : GInv t ins g) {hash : Nat}
    (hN : isNode ins hash = false) (d0 : Nat) (l : List Nat) (hnd : (d0 :: l).Nodup)
    (hR : ∀ d, d ∈ d0 :: l ↔ Containing t ins hash d) :
    GStruct t (addNode (isNode ins) hash) (cumOf t ins) (g.introduceBranch (d0 :: l) hash (t.num hash)) := by
  have N0 := isNode_zero ins
  -- the containing nodes
  have hRnode : ∀ d, d ∈ d0 :: l → isNode ins d = true := fun d hd => ((hR d).1 hd).1
  have hRedge : ∀ d, d ∈ d0 :: l → hash ∈ edge t (isNode ins) d := fun d hd => ((hR d).1 hd).2
  have hhR : hash ∉ d0 :: l := fun hm => by have := hRnode hash hm; rw [this] at hN; cases hN
  obtain ⟨e0, he0⟩ := inv.entry_of_node (hRnode d0 List.mem_cons_self)
  have hex : ∀ d, d ∈ d0 :: l → (g.entries d).isSome = true := fun d hd => by
    rw [inv.nodes d]; exact hRnode d hd
  obtain ⟨hents, ne, hmaybe, hne1, hne2, hne3, hne4⟩ :=
    branch_fold (t.num hash) g.entries d0 l e0 he0 hnd hex
  -- nearest vote-nodes
  have hancR : ∀ d, d ∈ d0 :: l → ancNode t (addNode (isNode ins) hash) d = some hash ∧
      ancNode t (isNode ins) hash = ancNode t (isNode ins) d ∧
      ancNode t (addNode (isNode ins) hash) hash = ancNode t (isNode ins) d :=
    fun d hd => ancNode_add_of_mem h N0 hN (hRedge d hd)
  have hd0pos : 0 < d0 := by
    rcases Nat.eq_zero_or_pos d0 with hz | hz
    · have := hRedge d0 List.mem_cons_self; rw [hz] at this; simp [edge_zero] at this
    · exact hz
  obtain ⟨p, hp, hpN, hpe⟩ := ancNode_some h N0 hd0pos
  have hanc_hash : ancNode t (isNode ins) hash = some p := by rw [(hancR d0 List.mem_cons_self).2.1]; exact hp
  have hanc_hash' : ancNode t (addNode (isNode ins) hash) hash = some p := by
    rw [(hancR d0 List.mem_cons_self).2.2]; exact hp
  have hancR_old : ∀ d, d ∈ d0 :: l → ancNode t (isNode ins) d = some p := fun d hd => by
    rw [← (hancR d hd).2.1]; exact hanc_hash
  have hph : p ≠ hash := fun e => by rw [e] at hpN; rw [hpN] at hN; cases hN
  have hpR : p ∉ d0 :: l := by
    intro hm
    have h1 : hash ∈ t.chain p := edge_mem_chain h (hRedge p hm)
    have h2 : p ∈ t.chain hash := by
      have : p ∈ edge t (isNode ins) hash := by
        unfold ancNode at hanc_hash; exact List.mem_of_getLast? hanc_hash
      exact edge_mem_chain h this
    exact hph (Tree.le_antisymm h h2 h1)
  obtain ⟨pe, hpe'⟩ := inv.entry_of_node hpN
  -- nodes outside R keep their edge
  have hNold : ∀ d, isNode ins d = true → addNode (isNode ins) hash d = true := by
    intro d hd; simp [addNode, hd]
  have hN' : ∀ d, addNode (isNode ins) hash d = true ↔ (isNode ins d = true ∨ d = hash) := by
    intro d; simp [addNode]
  have hfree : ∀ d, isNode ins d = true → d ∉ d0 :: l → hash ∉ edge t (isNode ins) d :=
    fun d hd hnR hm => hnR ((hR d).2 ⟨hd, hm⟩)
  have hedge_old : ∀ d, isNode ins d = true → d ∉ d0 :: l →
      edge t (addNode (isNode ins) hash) d = edge t (isNode ins) d :=
    fun d hd hnR => edge_add_of_not_mem (hfree d hd hnR)
  have hanc_old : ∀ d, isNode ins d = true → d ∉ d0 :: l →
      ancNode t (addNode (isNode ins) hash) d = ancNode t (isNode ins) d :=
    fun d hd hnR => ancNode_add_of_not_mem (hfree d hd hnR)
  -- the new nearest vote-node of every vote-node
  have hanc_new : ∀ d, addNode (isNode ins) hash d = true → ∀ b,
      ancNode t (addNode (isNode ins) hash) d = some b ↔
        ((d ∈ d0 :: l ∧ b = hash) ∨ (d = hash ∧ b = p) ∨
         (d ∉ d0 :: l ∧ d ≠ hash ∧ ancNode t (isNode ins) d = some b)) := by
    intro d hd b
    by_cases hdR : d ∈ d0 :: l
    · rw [(hancR d hdR).1]
      constructor
      · intro e; exact Or.inl ⟨hdR, (Option.some.inj e).symm⟩
      · rintro (⟨_, rfl⟩ | ⟨rfl, _⟩ | ⟨hn, _, _⟩)
        · rfl
        · exact absurd hdR hhR
        · exact absurd hdR hn
    · by_cases hdh : d = hash
      · subst hdh
        rw [hanc_hash']
        constructor
        · intro e; exact Or.inr (Or.inl ⟨rfl, (Option.some.inj e).symm⟩)
        · rintro (⟨hm, _⟩ | ⟨_, rfl⟩ | ⟨_, hn, _⟩)
          · exact absurd hm hdR
          · rfl
          · exact absurd rfl hn
      · have hdN : isNode ins d = true := by
          rcases (hN' d).1 hd with h1 | h1
          · exact h1
          · exact absurd h1 hdh
        rw [hanc_old d hdN hdR]
        constructor
        · intro e; exact Or.inr (Or.inr ⟨hdR, hdh, e⟩)
        · rintro (⟨hm, _⟩ | ⟨hm, _⟩ | ⟨_, _, e⟩)
          · exact absurd hm hdR
          · exact absurd hm hdh
          · exact e
  -- the result
  rw [introduceBranch_eq]
  unfold branchFinish
  rw [hmaybe]
  have hprev : e0.ancestorNode = some p := by rw [inv.ancestorNode_eq he0]; exact hp
  simp only [hprev]
  have haccp : ((d0 :: l).foldl (branchStep (t.num hash)) ⟨g.entries, none⟩).entries p = some pe := by
    rw [hents p]; simp only [hpR, if_false]; exact hpe'
  simp only [haccp]
  -- case analysis on the final entry map
  have hent : ∀ b e, (if b = hash then some ne else
      if b = p then some ({ pe with descendants := List.filter (fun d => !ne.descendants.contains d) pe.descendants ++ [hash] } : Entry)
      else ((d0 :: l).foldl (branchStep (t.num hash)) ⟨g.entries, none⟩).entries b) = some e →
      (b = hash ∧ e = ne) ∨
      (b = p ∧ e = ({ pe with descendants := List.filter (fun d => !ne.descendants.contains d) pe.descendants ++ [hash] } : Entry)) ∨
      (b ∈ d0 :: l ∧ ∃ eb, g.entries b = some eb ∧ e = truncAt (t.num hash) eb) ∨
      (b ≠ hash ∧ b ≠ p ∧ b ∉ d0 :: l ∧ g.entries b = some e) := by
    intro b e hb
    by_cases h1 : b = hash
    · simp only [h1, if_true] at hb
      exact Or.inl ⟨h1, (Option.some.inj hb).symm⟩
    · simp only [h1, if_false] at hb
      by_cases h2 : b = p
      · simp only [h2, if_true] at hb
        exact Or.inr (Or.inl ⟨h2, (Option.some.inj hb).symm⟩)
      · simp only [h2, if_false] at hb
        rw [hents b] at hb
        by_cases h3 : b ∈ d0 :: l
        · simp only [h3, if_true] at hb
          obtain ⟨eb, heb⟩ := Option.isSome_iff_exists.1 (hex b h3)
          rw [heb] at hb
          exact Or.inr (Or.inr (Or.inl ⟨h3, eb, heb, (Option.some.inj hb).symm⟩))
        · simp only [h3, if_false] at hb
          exact Or.inr (Or.inr (Or.inr ⟨h1, h2, h3, hb⟩))
  -- edges of the containing nodes after the cut
  have htrunc : ∀ d eb, d ∈ d0 :: l → g.entries d = some eb →
      (truncAt (t.num hash) eb).ancestors = edge t (addNode (isNode ins) hash) d := by
    intro d eb hd heb
    obtain ⟨i, hi⟩ := List.getElem?_of_mem (hRedge d hd)
    have hnum := edge_num h hi
    unfold truncAt
    simp only
    rw [inv.number d eb heb, inv.anc d eb heb, (edge_add_of_mem h hN hi).1]
    congr 1; omega
  refine ⟨?_, ?_, ?_, ?_, ?_, ?_, ?_⟩
  · -- nodes
    intro b
    by_cases h1 : b = hash
    · subst h1; simp [addNode]
    · by_cases h2 : b = p
      · subst h2; simp [h1, addNode, hpN]
      · simp only [h1, h2, if_false]
        rw [hents b]
        by_cases h3 : b ∈ d0 :: l
        · simp only [h3, if_true, Option.isSome_map]
          rw [hex b h3, hNold b (hRnode b h3)]
        · simp only [h3, if_false]
          rw [inv.nodes b]; simp [addNode, h1]
  · -- numbers
    intro b e hb
    rcases hent b e hb with ⟨rfl, rfl⟩ | ⟨rfl, rfl⟩ | ⟨_, eb, heb, rfl⟩ | ⟨_, _, _, hg⟩
    · exact hne1
    · exact inv.number _ pe hpe'
    · exact inv.number b eb heb
    · exact inv.number b e hg
  · -- ancestor arrays
    intro b e hb
    rcases hent b e hb with ⟨rfl, rfl⟩ | ⟨rfl, rfl⟩ | ⟨hbR, eb, heb, rfl⟩ | ⟨_, _, hbR, hg⟩
    · rw [hne2, edge_add_self h]
      obtain ⟨i, hi⟩ := List.getElem?_of_mem (hRedge d0 List.mem_cons_self)
      have hnum := edge_num h hi
      rw [inv.number d0 e0 he0, inv.anc d0 e0 he0, (edge_add_of_mem h hN hi).2]
      congr 1; omega
    · rw [hedge_old _ hpN hpR]; exact inv.anc _ pe hpe'
    · exact htrunc b eb hbR heb
    · rw [hedge_old b (inv.node_of_entry hg) hbR]; exact inv.anc b e hg
  · -- cumulative votes
    intro b e hb
    rcases hent b e hb with ⟨rfl, rfl⟩ | ⟨rfl, rfl⟩ | ⟨_, eb, heb, rfl⟩ | ⟨_, _, _, hg⟩
    · apply Nat.eq_of_testBit_eq
      intro q
      rw [hne4 q, cumOf_testBit]
      apply Bool.eq_iff_iff.2
      simp only [List.any_eq_true]
      constructor
      · rintro ⟨d, hd, hq⟩
        obtain ⟨ed, hed⟩ := Option.isSome_iff_exists.1 (hex d hd)
        rw [hed] at hq
        simp only at hq
        rw [inv.cum d ed hed, cumOf_testBit] at hq
        obtain ⟨p', hp', hpq⟩ := List.any_eq_true.1 hq
        simp only [Bool.and_eq_true, List.contains_iff_mem] at hpq
        refine ⟨p', hp', ?_⟩
        simp only [Bool.and_eq_true, List.contains_iff_mem]
        exact ⟨hpq.1, Tree.le_trans h (edge_mem_chain h (hRedge d hd)) hpq.2⟩
      · rintro ⟨p', hp', hpq⟩
        simp only [Bool.and_eq_true, List.contains_iff_mem] at hpq
        have hpN' : isNode ins p'.1 = true := by
          unfold isNode
          apply Bool.or_eq_true_iff.2
          right
          exact List.any_eq_true.2 ⟨p', hp', by simp⟩
        obtain ⟨y, hy, hye, hyc⟩ := below_in_edge h N0 hN p'.1 hpN' hpq.2
        have hyR : y ∈ d0 :: l := (hR y).2 ⟨hy, hye⟩
        refine ⟨y, hyR, ?_⟩
        obtain ⟨ey, hey⟩ := Option.isSome_iff_exists.1 (hex y hyR)
        rw [hey]
        simp only
        rw [inv.cum y ey hey, cumOf_testBit]
        exact List.any_eq_true.2 ⟨p', hp', by simp [hpq.1, hyc]⟩
    · exact inv.cum _ pe hpe'
    · exact inv.cum b eb heb
    · exact inv.cum b e hg
  · -- descendants: no duplicates
    intro b e hb
    rcases hent b e hb with ⟨rfl, rfl⟩ | ⟨rfl, rfl⟩ | ⟨_, eb, heb, rfl⟩ | ⟨_, _, _, hg⟩
    · rw [hne3]; exact hnd
    · rw [List.nodup_append]
      refine ⟨(inv.descNodup _ pe hpe').filter _, by simp, ?_⟩
      intro x hx y hy
      have : y = hash := by simpa using hy
      subst this
      intro e; subst e
      have := ((inv.desc _ pe hpe' x).1 (List.mem_filter.1 hx).1).1
      rw [this] at hN; cases hN
    · exact inv.descNodup b eb heb
    · exact inv.descNodup b e hg
  · -- descendants: membership
    intro b e hb d
    rcases hent b e hb with ⟨rfl, rfl⟩ | ⟨rfl, rfl⟩ | ⟨hbR, eb, heb, rfl⟩ | ⟨hbh, hbp, hbR, hg⟩
    · rw [hne3]
      constructor
      · intro hd
        exact ⟨hNold d (hRnode d hd), (hancR d hd).1⟩
      · rintro ⟨hd, hanc⟩
        rcases (hanc_new d hd b).1 hanc with ⟨hm, _⟩ | ⟨_, e⟩ | ⟨_, hdh, e⟩
        · exact hm
        · exact absurd e.symm hph
        · -- an old vote-node whose nearest vote-node is `hash`: impossible, `hash` was not a node
          exfalso
          have hdN : isNode ins d = true := by
            rcases (hN' d).1 hd with h1 | h1
            · exact h1
            · exact absurd h1 hdh
          have hdpos : 0 < d := by
            rcases Nat.eq_zero_or_pos d with hz | hz
            · subst hz; simp [ancNode, edge_zero] at e
            · exact hz
          obtain ⟨x, hx, hxN, _⟩ := ancNode_some h N0 hdpos
          rw [e] at hx; rw [← Option.some.inj hx] at hxN; rw [hxN] at hN; cases hN
    · simp only [List.mem_append, List.mem_filter, List.mem_singleton, hne3, Bool.not_eq_true',
        List.contains_iff_mem, decide_eq_false_iff_not]
      constructor
      · rintro (⟨hd, hdR⟩ | rfl)
        · obtain ⟨d1, d2⟩ := (inv.desc _ pe hpe' d).1 hd
          have hdR' : d ∉ d0 :: l := by simpa using hdR
          exact ⟨hNold d d1, by rw [hanc_old d d1 hdR']; exact d2⟩
        · exact ⟨by simp [addNode], hanc_hash'⟩
      · rintro ⟨hd, hanc⟩
        rcases (hanc_new d hd b).1 hanc with ⟨_, e⟩ | ⟨e, _⟩ | ⟨hdR, hdh, e⟩
        · exact absurd e hph
        · right; exact e
        · left
          have hdN : isNode ins d = true := by
            rcases (hN' d).1 hd with h1 | h1
            · exact h1
            · exact absurd h1 hdh
          exact ⟨(inv.desc _ pe hpe' d).2 ⟨hdN, e⟩, by simpa using hdR⟩
    · show d ∈ (truncAt (t.num hash) eb).descendants ↔ _
      have hbN := hRnode b hbR
      have hbp : b ≠ p := fun e => hpR (e ▸ hbR)
      have hbh : b ≠ hash := fun e => hhR (e ▸ hbR)
      constructor
      · intro hd
        obtain ⟨d1, d2⟩ := (inv.desc b eb heb d).1 hd
        have hdR : d ∉ d0 :: l := by
          intro hm; rw [hancR_old d hm] at d2; exact hbp (Option.some.inj d2).symm
        exact ⟨hNold d d1, by rw [hanc_old d d1 hdR]; exact d2⟩
      · rintro ⟨hd, hanc⟩
        rcases (hanc_new d hd b).1 hanc with ⟨_, e⟩ | ⟨_, e⟩ | ⟨_, hdh, e⟩
        · exact absurd e hbh
        · exact absurd e hbp
        · have hdN : isNode ins d = true := by
            rcases (hN' d).1 hd with h1 | h1
            · exact h1
            · exact absurd h1 hdh
          exact (inv.desc b eb heb d).2 ⟨hdN, e⟩
    · constructor
      · intro hd
        obtain ⟨d1, d2⟩ := (inv.desc b e hg d).1 hd
        have hdR : d ∉ d0 :: l := by
          intro hm; rw [hancR_old d hm] at d2; exact hbp (Option.some.inj d2).symm
        exact ⟨hNold d d1, by rw [hanc_old d d1 hdR]; exact d2⟩
      · rintro ⟨hd, hanc⟩
        rcases (hanc_new d hd b).1 hanc with ⟨_, ea⟩ | ⟨_, ea⟩ | ⟨_, hdh, ea⟩
        · exact absurd ea hbh
        · exact absurd ea hbp
        · have hdN : isNode ins d = true := by
            rcases (hN' d).1 hd with h1 | h1
            · exact h1
            · exact absurd h1 hdh
          exact (inv.desc b e hg d).2 ⟨hdN, ea⟩
  · -- heads
    intro x
    show x ∈ g.heads ↔ _
    rw [inv.heads x]
    constructor
    · rintro ⟨hx, hall⟩
      have hxp : x ≠ p := fun e => hall d0 (hRnode d0 List.mem_cons_self) (e ▸ hp)
      refine ⟨hNold x hx, ?_⟩
      intro d hd hanc
      rcases (hanc_new d hd x).1 hanc with ⟨_, e⟩ | ⟨_, e⟩ | ⟨_, hdh, e⟩
      · rw [e] at hx; rw [hx] at hN; cases hN
      · exact hxp e
      · have hdN : isNode ins d = true := by
          rcases (hN' d).1 hd with h1 | h1
          · exact h1
          · exact absurd h1 hdh
        exact hall d hdN e
    · rintro ⟨hx, hall⟩
      have hxh : x ≠ hash := fun e =>
        hall d0 (hNold d0 (hRnode d0 List.mem_cons_self)) (e ▸ (hancR d0 List.mem_cons_self).1)
      have hxN : isNode ins x = true := by
        rcases (hN' x).1 hx with h1 | h1
        · exact h1
        · exact absurd h1 hxh
      have hxp : x ≠ p := fun e => hall hash (by simp [addNode]) (e ▸ hanc_hash')
      refine ⟨hxN, ?_⟩
      intro d hd hanc
      by_cases hdR : d ∈ d0 :: l
      · rw [hancR_old d hdR] at hanc; exact hxp (Option.some.inj hanc).symm
      · exact hall d (hNold d hd) (by rw [hanc_old d hd hdR]; exact hanc)

end Gossamer.C20
