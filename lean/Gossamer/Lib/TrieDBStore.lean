/-
C06, step 4: the rows written by `commit` and reading them back.
* association-list database lemmas, content-addressed writes;
* `viewOf`: what `codec.Decode` must return for the encoding of a trie node (the round-trip
  hypothesis on the decoder is stated with it);
* `Stored`: every row that a lookup below a node needs is in the database;
* `lookupData_eq`: `TrieLookup` over a stored trie is the trie's `lookup`.
-/
import Gossamer.Lib.TrieDBEnc
set_option linter.unusedSectionVars false
set_option linter.unusedSimpArgs false
namespace Gossamer.C06
open Gossamer Gossamer.Trie

/-! ### the association-list database -/

theorem find_del (db : DB) (k k' : Bytes) :
    (DB.del db k).find k' = if k' = k then none else db.find k' := by
  induction db with
  | nil => simp [DB.del, DB.find]
  | cons e r ih =>
    unfold DB.del at ih ⊢
    by_cases h : e.1 = k
    · subst h
      simp only [List.filter_cons, beq_self_eq_true, Bool.not_true, Bool.false_eq_true, if_false, ih]
      by_cases h2 : k' = e.1
      · simp [h2]
      · have : ¬ e.1 = k' := fun x => h2 x.symm
        simp [h2, DB.find, this]
    · have hb : (e.1 == k) = false := by simpa using h
      simp only [List.filter_cons, hb, Bool.not_false, if_true, DB.find, ih]
      by_cases h3 : e.1 = k'
      · subst h3; simp [h]
      · simp [h3]

theorem find_put (db : DB) (k v k' : Bytes) :
    (DB.put db k v).find k' = if k' = k then some v else db.find k' := by
  unfold DB.put
  by_cases h : k' = k
  · subst h; simp [DB.find]
  · have : ¬ k = k' := fun x => h x.symm
    simp [DB.find, this, find_del, h]

theorem applyW_append (db : DB) (a b : List WOp) : applyW db (a ++ b) = applyW (applyW db a) b := by
  induction a generalizing db with
  | nil => rfl
  | cons op r ih => cases op <;> simp [applyW, ih]

theorem applyW_dels_nil (l : List Bytes) : applyW [] (l.map WOp.del) = [] := by
  induction l with
  | nil => rfl
  | cons k r ih => simpa [applyW, DB.del] using ih

/-- `H` has no collision among the strings of `Dom` -/
def InjOn (H : Bytes → Bytes) (Dom : Bytes → Prop) : Prop :=
  ∀ a b, Dom a → Dom b → H a = H b → a = b

/-- a write that stores `x ∈ Dom` under a key ending in `H x` -/
def ContentPut (H : Bytes → Bytes) (Dom : Bytes → Prop) : WOp → Prop
  | .put k x => (∃ q, k = rowKey q (H x)) ∧ Dom x
  | .del _ => False

theorem rowKey_inj_hash {H : Bytes → Bytes} (hlen : ∀ x, (H x).length = 32)
    {q q' : Nibs} {x x' : Bytes} (h : rowKey q (H x) = rowKey q' (H x')) : H x = H x' := by
  unfold rowKey at h
  have h1 := congrArg List.length h
  simp [hlen] at h1
  exact List.append_inj_right' h (by simp [hlen])

/-- content-addressed writes never change what is stored under a key -/
theorem find_applyW_keep {H : Bytes → Bytes} {Dom : Bytes → Prop} (hlen : ∀ x, (H x).length = 32)
    (hinj : InjOn H Dom) (w : List WOp) (hw : ∀ op ∈ w, ContentPut H Dom op) :
    ∀ (db : DB) (q : Nibs) (x : Bytes), Dom x → db.find (rowKey q (H x)) = some x →
      (applyW db w).find (rowKey q (H x)) = some x := by
  induction w with
  | nil => intro db q x _ h; exact h
  | cons op r ih =>
    intro db q x hx h
    have hr : ∀ op ∈ r, ContentPut H Dom op := fun o ho => hw o (List.mem_cons_of_mem _ ho)
    cases op with
    | del k => exact absurd (hw _ (List.mem_cons_self ..)) (by simp [ContentPut])
    | put k y =>
      obtain ⟨⟨q', hk⟩, hy⟩ := hw _ (List.mem_cons_self ..)
      simp only [applyW]
      apply ih hr _ _ _ hx
      rw [find_put]
      by_cases he : rowKey q (H x) = k
      · rw [hk] at he
        have := hinj _ _ hx hy (rowKey_inj_hash hlen he)
        subst this
        rw [hk, if_pos he]
      · rw [if_neg he]; exact h

/-- every content-addressed write of the batch can be read back afterwards -/
theorem find_applyW_mem {H : Bytes → Bytes} {Dom : Bytes → Prop} (hlen : ∀ x, (H x).length = 32)
    (hinj : InjOn H Dom) (w : List WOp) (hw : ∀ op ∈ w, ContentPut H Dom op) :
    ∀ (db : DB) (k x : Bytes), WOp.put k x ∈ w → (applyW db w).find k = some x := by
  induction w with
  | nil => intro db k x h; simp at h
  | cons op r ih =>
    intro db k x h
    have hr : ∀ op ∈ r, ContentPut H Dom op := fun o ho => hw o (List.mem_cons_of_mem _ ho)
    by_cases hin : WOp.put k x ∈ r
    · cases op with
      | put k' y => simp only [applyW]; exact ih hr _ k x hin
      | del k' => simp only [applyW]; exact ih hr _ k x hin
    · have hop : op = WOp.put k x := by
        rcases List.mem_cons.mp h with h1 | h1
        · exact h1.symm
        · exact absurd h1 hin
      subst hop
      obtain ⟨⟨q, hk⟩, hx⟩ := hw _ (List.mem_cons_self ..)
      simp only [applyW]
      rw [hk]
      apply find_applyW_keep hlen hinj r hr _ _ _ hx
      rw [find_put]; simp

/-! ### what the decoder must return -/

def viewVal (ver : Ver) (H : Bytes → Bytes) (v : Bytes) : EVal :=
  if mustBeHashed ver v then .hashed (H v) else .inl v

def viewKid (ver : Ver) (H : Bytes → Bytes) (c : Trie) : EKid :=
  if c.isNil then .none
  else if (encodeNode ver H c).length < 32 then .inl (encodeNode ver H c)
  else .hashed (H (encodeNode ver H c))

/-- the decoded form (`codec.EncodedNode`) of the encoding of a trie node: values inline or by
    hash, children inlined (shorter than 32 bytes) or by hash -/
def viewOf (ver : Ver) (H : Bytes → Bytes) : Trie → ENode
  | nil => .empty
  | leaf pk v => .leaf pk (viewVal ver H v)
  | branch pk v cs => .branch pk (v.map (viewVal ver H)) (fun i => viewKid ver H (cs i))

/-- `n` is a node of the trie `t` -/
def NodeOf (n : Trie) : Trie → Prop
  | nil => False
  | leaf pk v => n = leaf pk v
  | branch pk v cs => n = branch pk v cs ∨ ∃ i, NodeOf n (cs i)

theorem nodeOf_self {t : Trie} (h : t ≠ nil) : NodeOf t t := by
  cases t with
  | nil => exact absurd rfl h
  | leaf pk v => rfl
  | branch pk v cs => exact Or.inl rfl

theorem nodeOf_child {n : Trie} {pk : Nibs} {v : Option Bytes} {cs : Nib → Trie} (i : Nib)
    (h : NodeOf n (cs i)) : NodeOf n (branch pk v cs) := Or.inr ⟨i, h⟩

/-! ### stored tries -/

/-- all rows below the node `t` at path `pre` can be read with `get`: hashed values under their
    full key, hashed children under their path -/
def Stored (ver : Ver) (H : Bytes → Bytes) (get : Bytes → Option Bytes) : Trie → Nibs → Prop
  | nil, _ => True
  | leaf pk v, pre => mustBeHashed ver v = true → get (rowKey (pre ++ pk) (H v)) = some v
  | branch pk v cs, pre =>
    (∀ x, v = some x → mustBeHashed ver x = true → get (rowKey (pre ++ pk) (H x)) = some x) ∧
    ∀ i, ((cs i).isNil = false → 32 ≤ (encodeNode ver H (cs i)).length →
            get (rowKey (pre ++ pk ++ [i]) (H (encodeNode ver H (cs i)))) =
              some (encodeNode ver H (cs i))) ∧
         Stored ver H get (cs i) (pre ++ pk ++ [i])

/-- `Dom` contains the encoding of every node and every hashed value of the trie -/
def Covers (ver : Ver) (H : Bytes → Bytes) (Dom : Bytes → Prop) (t : Trie) : Prop :=
  (∀ n, NodeOf n t → Dom (encodeNode ver H n)) ∧
  (∀ k v, lookup t k = some v → mustBeHashed ver v = true → Dom v)

theorem covers_child {ver : Ver} {H : Bytes → Bytes} {Dom : Bytes → Prop} {pk : Nibs}
    {v : Option Bytes} {cs : Nib → Trie} (h : Covers ver H Dom (branch pk v cs)) (i : Nib) :
    Covers ver H Dom (cs i) :=
  ⟨fun n hn => h.1 n (nodeOf_child i hn),
   fun k x hk hm => h.2 (pk ++ i :: k) x (by rw [lookup_branch_child]; exact hk) hm⟩

theorem valuePuts_content (ver : Ver) (H : Bytes → Bytes) (Dom : Bytes → Prop) (full : Nibs) (v : Bytes)
    (hv : mustBeHashed ver v = true → Dom v) :
    ∀ op ∈ valuePuts ver H full v, ContentPut H Dom op := by
  unfold valuePuts
  split
  · rename_i hm
    intro op h; simp at h; subst h; exact ⟨⟨full, rfl⟩, hv hm⟩
  · intro op h; simp at h

theorem putsOf_content (ver : Ver) (H : Bytes → Bytes) (Dom : Bytes → Prop) (t : Trie) :
    Covers ver H Dom t → ∀ pre, ∀ op ∈ putsOf ver H t pre, ContentPut H Dom op := by
  induction t with
  | nil => intro _ pre op h; simp [putsOf] at h
  | leaf pk v =>
    intro hc pre
    simp only [putsOf]
    exact valuePuts_content ver H Dom _ v (fun hm => hc.2 pk v (by simp) hm)
  | branch pk v cs ih =>
    intro hc pre op h
    simp only [putsOf, List.mem_append, List.mem_flatMap] at h
    rcases h with h | ⟨i, _, h⟩
    · cases v with
      | none => simp [optValuePuts] at h
      | some x =>
        exact valuePuts_content ver H Dom _ x
          (fun hm => hc.2 pk x (by rw [lookup_branch_self]) hm) op h
    · split at h
      · simp at h
      · rename_i hn
        rcases List.mem_append.mp h with h | h
        · exact ih i (covers_child hc i) _ op h
        · split at h
          · simp at h; subst h
            have hne : cs i ≠ nil := fun x => hn (by rw [x]; rfl)
            exact ⟨⟨_, rfl⟩, hc.1 _ (nodeOf_child i (nodeOf_self hne))⟩
          · simp at h

/-- if every row of `putsOf` can be read back, the trie is stored -/
theorem stored_of_puts (ver : Ver) (H : Bytes → Bytes) (get : Bytes → Option Bytes) (t : Trie) :
    ∀ pre, (∀ k x, WOp.put k x ∈ putsOf ver H t pre → get k = some x) → Stored ver H get t pre := by
  induction t with
  | nil => intro pre _; trivial
  | leaf pk v =>
    intro pre h hm
    apply h
    simp [putsOf, valuePuts, hm]
  | branch pk v cs ih =>
    intro pre h
    refine ⟨?_, fun i => ⟨?_, ?_⟩⟩
    · intro x hv hm
      apply h
      simp [putsOf, hv, optValuePuts, valuePuts, hm]
    · intro hn hl
      apply h
      simp only [putsOf, List.mem_append, List.mem_flatMap]
      right
      refine ⟨i, List.mem_finRange i, ?_⟩
      simp [hn, hashLen, hl]
    · apply ih i
      intro k x hk
      apply h
      simp only [putsOf, List.mem_append, List.mem_flatMap]
      right
      refine ⟨i, List.mem_finRange i, ?_⟩
      by_cases hn : (cs i).isNil = true
      · have : cs i = nil := (isNil_iff _).mp hn
        rw [this] at hk; simp [putsOf] at hk
      · have hk' : WOp.put k x ∈ putsOf ver H (cs i) (pre ++ (pk ++ [i])) := by
          simpa using hk
        simp [hn, hk']

/-! ### reading a stored trie -/

theorem prefixBytes_toNibs (b : Bytes) : prefixBytes (toNibs b) = b := by
  induction b with
  | nil => rfl
  | cons x r ih => simp [toNibs, prefixBytes, ih, byteOf_hi_lo]

theorem fetchE_viewVal (e : Env) (full : Bytes) (fk : Nibs) (v : Bytes) (hfk : fk = toNibs full)
    (hs : mustBeHashed e.ver v = true → dbGet e.H e.db (rowKey fk (e.H v)) = some v) :
    fetchE e full (viewVal e.ver e.H v) = some v := by
  unfold viewVal
  cases hm : mustBeHashed e.ver v with
  | false => simp [fetchE]
  | true =>
    have := hs hm
    rw [hfk, rowKey, prefixBytes_toNibs] at this
    simp [fetchE, this]

/-- `TrieLookup` over the encoding of a stored trie, with a decoder that is right on the nodes of
    that trie, returns the trie's `lookup` -/
theorem lookupData_eq (e : Env) (full : Bytes) (t : Trie) :
    (∀ n, NodeOf n t → e.dec (encodeNode e.ver e.H n) = some (viewOf e.ver e.H n)) → t ≠ nil →
    ∀ (fuel : Nat) (pre key : Nibs), key.length < fuel → pre ++ key = toNibs full →
      Stored e.ver e.H (dbGet e.H e.db) t pre →
      lookupData e full fuel (encodeNode e.ver e.H t) pre key = lookup t key := by
  induction t with
  | nil => intro _ h; exact absurd rfl h
  | leaf pk v =>
    intro hdec _ fuel pre key hf hfull hst
    obtain ⟨f, rfl⟩ : ∃ f, fuel = f + 1 := ⟨fuel - 1, by omega⟩
    have hd := hdec _ (nodeOf_self (by simp))
    simp only [lookupData, hd, viewOf, lookup_leaf]
    by_cases hk : key = pk
    · subst hk
      simp only [if_true]
      exact fetchE_viewVal e full _ v hfull hst
    · simp [hk]
  | branch pk v cs ih =>
    intro hdec _ fuel pre key hf hfull hst
    obtain ⟨f, rfl⟩ : ∃ f, fuel = f + 1 := ⟨fuel - 1, by omega⟩
    have hd := hdec _ (nodeOf_self (by simp))
    obtain ⟨hsv, hsc⟩ := hst
    simp only [lookupData, hd, viewOf]
    rcases key_cases pk key with rfl | ⟨i, rest, rfl⟩ | hoff
    · simp only [isPrefixOf_self, Bool.not_true, Bool.false_eq_true, if_false, if_true,
        lookup_branch_self]
      cases v with
      | none => rfl
      | some x =>
        simp only [Option.map_some]
        exact fetchE_viewVal e full _ x hfull (hsv x rfl)
    · have hne : ¬ (pk ++ i :: rest = pk) := append_cons_ne_self pk i rest
      simp only [isPrefixOf_append_self, Bool.not_true, Bool.false_eq_true, if_false, hne,
        drop_len_append, lookup_branch_child]
      have hflen : rest.length < f := by simp at hf; omega
      have hfull' : pre ++ pk ++ [i] ++ rest = toNibs full := by rw [← hfull]; simp
      by_cases hn : (cs i).isNil = true
      · have hc : cs i = nil := (isNil_iff _).mp hn
        rw [hc]
        simp [viewKid, Trie.isNil]
      · have hn' : (cs i).isNil = false := by simpa using hn
        have hc : cs i ≠ nil := fun x => hn ((isNil_iff _).mpr x)
        have hIH := ih i (fun n hn => hdec n (nodeOf_child i hn)) hc f (pre ++ pk ++ [i]) rest hflen
          hfull' (hsc i).2
        by_cases hl : (encodeNode e.ver e.H (cs i)).length < 32
        · simp only [viewKid, hn', Bool.false_eq_true, if_false, hl, if_true]
          exact hIH
        · have hrow := (hsc i).1 hn' (by omega)
          simp only [viewKid, hn', Bool.false_eq_true, if_false, hl, hrow]
          exact hIH
    · have : ¬ key = pk := isPrefixOf_false_ne hoff
      simp [hoff, lookup_branch_off _ _ _ _ hoff]

end Gossamer.C06
