/-
`lowestCommonAncestor` on the parent chains of two held blocks.
-/
import Gossamer.Lib.BlockTreeChains

namespace Gossamer.BlockTree

/-- two chains of equal length that end in the same block: the lock-step walk stops, without panic, at the first
    position where they agree -/
theorem lcaWalk_spec : ∀ (xs ys : List Info), xs.length = ys.length → xs ≠ [] →
    xs.getLast?.map Info.hash = ys.getLast?.map Info.hash →
    ∃ (m : Nat) (c : Hash), lcaWalk xs ys = some c ∧ xs[m]?.map Info.hash = some c ∧ ys[m]?.map Info.hash = some c ∧
      ∀ j, j < m → xs[j]?.map Info.hash ≠ ys[j]?.map Info.hash := by
  intro xs
  induction xs with
  | nil => intro ys _ h; exact absurd rfl h
  | cons x xs' ih =>
    intro ys hlen _ hlast
    cases ys with
    | nil => simp at hlen
    | cons y ys' =>
      simp only [List.length_cons, Nat.add_right_cancel_iff] at hlen
      by_cases hxy : x.hash = y.hash
      · exact ⟨0, x.hash, by simp [lcaWalk, hxy], by simp, by simp [hxy], by omega⟩
      · cases xs' with
        | nil =>
          have : ys' = [] := by cases ys' <;> simp_all
          subst this
          simp at hlast
          exact absurd hlast hxy
        | cons x2 xr =>
          cases ys' with
          | nil => simp at hlen
          | cons y2 yr =>
            simp only [List.getLast?_cons_cons] at hlast
            obtain ⟨m, c, h1, h2, h3, h4⟩ := ih (y2 :: yr) hlen (by simp) hlast
            refine ⟨m + 1, c, ?_, by simpa using h2, by simpa using h3, ?_⟩
            · have : lcaWalk (x :: x2 :: xr) (y :: y2 :: yr) = lcaWalk (x2 :: xr) (y2 :: yr) := by
                rw [lcaWalk]; simp [hxy]
              rw [this]; exact h1
            · intro j hj
              cases j with
              | zero => simpa using hxy
              | succ j => simpa using h4 j (by omega)

/-- the walk from the higher block `h` and the lower block `l` -/
theorem lca_core {bt : BT} (hi : Inv bt) {h l : Hash} (hh : h ∈ descF [bt.root]) (hl : l ∈ descF [bt.root])
    (hn ln : Nat) (hhn : (bt.up h)[0]?.map Info.number = some hn) (hln : (bt.up l)[0]?.map Info.number = some ln)
    (hle : ln ≤ hn) :
    ∃ c, lcaAligned (bt.up h) (bt.up l) (hn - ln) = some c ∧
      c ∈ (bt.up h).map Info.hash ∧ c ∈ (bt.up l).map Info.hash ∧
      ∀ x, x ∈ (bt.up h).map Info.hash → x ∈ (bt.up l).map Info.hash → x ∈ (bt.up c).map Info.hash := by
  have fh := up_facts hi hh
  have fl := up_facts hi hl
  unfold lcaAligned
  generalize bt.up h = uh at *
  generalize bt.up l = ul at *
  have hlh : 0 < uh.length := by cases uh with | nil => exact absurd rfl fh.ne | cons _ _ => simp
  have hll : 0 < ul.length := by cases ul with | nil => exact absurd rfl fl.ne | cons _ _ => simp
  rw [List.getElem?_eq_getElem hlh] at hhn
  rw [List.getElem?_eq_getElem hll] at hln
  simp only [Option.map_some, Option.some.injEq] at hhn hln
  have nh0 := fh.nums 0 hlh
  have nl0 := fl.nums 0 hll
  rw [hhn] at nh0; rw [hln] at nl0
  have hdiff : hn - ln = uh.length - ul.length := by omega
  have hlt : ¬ uh.length ≤ hn - ln := by omega
  simp only [hlt, if_false]
  have hxlen : (uh.drop (hn - ln)).length = ul.length := by rw [List.length_drop]; omega
  have hxne : uh.drop (hn - ln) ≠ [] := by
    intro he; rw [he] at hxlen; simp at hxlen; omega
  have hxlast : (uh.drop (hn - ln)).getLast?.map Info.hash = ul.getLast?.map Info.hash := by
    rw [List.getLast?_drop]; simp only [hlt, if_false]; rw [fh.last, fl.last]
  obtain ⟨m, c, h1, h2, h3, h4⟩ := lcaWalk_spec _ _ hxlen hxne hxlast
  rw [List.getElem?_drop] at h2
  have hinj := inj_of_nodup_map Info.hash (infosF [bt.root]) (by rw [← descF_eq_map_infos]; exact hi.nodup)
  -- the position of `c` in the higher chain
  have hcm : ∃ hk : hn - ln + m < uh.length, uh[hn - ln + m].hash = c := by
    cases hg : uh[hn - ln + m]? with
    | none => simp [hg] at h2
    | some v =>
      obtain ⟨hk, hv⟩ := List.getElem?_eq_some_iff.1 hg
      refine ⟨hk, ?_⟩
      rw [hg] at h2; simp only [Option.map_some, Option.some.injEq] at h2
      rw [hv]; exact h2
  obtain ⟨hk, hck⟩ := hcm
  refine ⟨c, h1, ?_, ?_, ?_⟩
  · exact List.mem_map.2 ⟨uh[hn - ln + m], List.getElem_mem hk, hck⟩
  · cases hg : ul[m]? with
    | none => simp [hg] at h3
    | some v =>
      rw [hg] at h3; simp only [Option.map_some, Option.some.injEq] at h3
      exact List.mem_map.2 ⟨v, List.mem_of_getElem? hg, h3⟩
  · intro x hxh hxl
    obtain ⟨vh, hvh, hvhx⟩ := List.mem_map.1 hxh
    obtain ⟨vl, hvl, hvlx⟩ := List.mem_map.1 hxl
    obtain ⟨p, hp, rfl⟩ := List.getElem_of_mem hvh
    obtain ⟨r, hr, rfl⟩ := List.getElem_of_mem hvl
    have heq : uh[p] = ul[r] := hinj _ _ (fh.mem _ hvh) (fl.mem _ hvl) (by rw [hvhx, hvlx])
    have np := fh.nums p hp
    have nr := fl.nums r hr
    rw [heq] at np
    have hpr : p = hn - ln + r := by omega
    -- minimality: m ≤ r
    have hmr : m ≤ r := by
      apply Nat.le_of_not_lt
      intro hlt'
      apply h4 r hlt'
      rw [List.getElem?_drop, ← hpr, List.getElem?_eq_getElem hp, List.getElem?_eq_getElem hr, heq]
    have hsuf := fh.suffix _ hk
    rw [hck] at hsuf
    rw [hsuf]
    refine List.mem_map.2 ⟨uh[p], ?_, hvhx⟩
    rw [List.mem_drop_iff_getElem]
    exact ⟨r - m, by omega, by congr 1; omega⟩

/-- the chain of a held block starts with that block -/
theorem up_head_info {bt : BT} (hi : Inv bt) {e : Hash} {en : Node} (he : findF e [bt.root] = some en) :
    (bt.up e)[0]? = some en.info := by
  obtain ⟨hen, heh⟩ := findF_some _ _ he
  have hem : e ∈ descF [bt.root] := heh ▸ mem_subs_hash_mem hen
  have hu := up_facts hi hem
  have hinj := inj_of_nodup_map Info.hash (infosF [bt.root]) (by rw [← descF_eq_map_infos]; exact hi.nodup)
  have heni : en.info ∈ infosF [bt.root] := by rw [← subsF_map_info]; exact List.mem_map.2 ⟨en, hen, rfl⟩
  generalize bt.up e = up at *
  have hlen : 0 < up.length := by cases up with | nil => exact absurd rfl hu.ne | cons _ _ => simp
  rw [List.getElem?_eq_getElem hlen]
  congr 1
  apply hinj _ _ (hu.mem _ (List.getElem_mem hlen)) heni
  have := hu.head
  rw [List.getElem?_eq_getElem hlen] at this
  simp only [Option.map_some, Option.some.injEq] at this
  rw [this, heh]

end Gossamer.BlockTree
