/-
C21: `getPossibleSelectedAncestors` (`psa`, `psaLoop`) – what it may select, that it never drops a selected
block, and the pair of votes that makes it select their common ancestor.
-/
import Gossamer.Lib.C21Tally
namespace Gossamer.C21

/-- every selected block is a block of the tree on the chain of the finalised head, stored with its own
number, with more than `th` total votes -/
def SelOK (c : Cfg) (tot : Nat → Nat) (th : Nat) (sel : Sel) : Prop :=
  ∀ p ∈ sel, p.1 < c.t.size ∧ p.2 = c.number p.1 ∧ th < tot p.1 ∧ c.fin ∈ c.t.chain p.1

/-- the votes iterated over name blocks of the tree on the chain of the finalised head -/
def KnownKeys (c : Cfg) (va : List Vote) : Prop :=
  ∀ v ∈ va, v.blk < c.t.size ∧ c.fin ∈ c.t.chain v.blk

theorem SelOK.aset {c : Cfg} {tot : Nat → Nat} {th : Nat} {sel : Sel} (h : SelOK c tot th sel) {k : Nat}
    (hk : k < c.t.size) (ht : th < tot k) (hf : c.fin ∈ c.t.chain k) :
    SelOK c tot th (aset sel k (c.number k)) := by
  intro p hp
  rcases mem_aset hp with rfl | hp
  · exact ⟨hk, rfl, ht, hf⟩
  · exact h p hp

/-- the common ancestor of two blocks on the chain of the finalised head is a block of the tree on that chain -/
theorem lca_good {c : Cfg} (hw : c.t.WF) {a b p : Nat} (hl : lca c.t a b = some p)
    (ha : c.fin ∈ c.t.chain a) (hb : c.fin ∈ c.t.chain b) : p < c.t.size ∧ c.fin ∈ c.t.chain p := by
  obtain ⟨hpa, hpb, hq⟩ := lca_mem hw hl
  obtain ⟨_, hbs⟩ := lca_known hl
  have := Tree.mem_chain_le hw _ _ hpb
  exact ⟨by omega, hq _ ha hb⟩

theorem psaLoop_sound {c : Cfg} (hw : c.t.WF) {tot : Nat → Nat} {th curr : Nat} {rec : Nat → Sel → Sel}
    (hcf : c.fin ∈ c.t.chain curr)
    (hrec : ∀ p s, p < c.t.size → c.fin ∈ c.t.chain p → SelOK c tot th s → SelOK c tot th (rec p s)) :
    ∀ (l : List Vote), KnownKeys c l → ∀ sel, SelOK c tot th sel →
      SelOK c tot th (psaLoop c tot th curr rec l sel) := by
  intro l
  induction l with
  | nil => intro _ sel h; simpa [psaLoop] using h
  | cons v rest ih =>
    intro hk sel h
    have hkr : KnownKeys c rest := fun w hw' => hk w (List.mem_cons_of_mem _ hw')
    have hv := hk v List.mem_cons_self
    unfold psaLoop
    split
    · exact ih hkr sel h
    · split
      · exact ih hkr sel h
      · rename_i pred hl
        have hg := lca_good hw hl hv.2 hcf
        split
        · exact h
        · split
          · rename_i ht
            exact ih hkr _ (h.aset hg.1 ht hg.2)
          · exact ih hkr _ (hrec pred sel hg.1 hg.2 h)

/-- soundness of `getPossibleSelectedAncestors` -/
theorem psa_sound {c : Cfg} (hw : c.t.WF) {tot : Nat → Nat} {th : Nat} {va : List Vote} (hva : KnownKeys c va) :
    ∀ (f curr : Nat) (sel : Sel), c.fin ∈ c.t.chain curr → SelOK c tot th sel →
      SelOK c tot th (psa c tot th va f curr sel) := by
  intro f
  induction f with
  | zero => intro curr sel _ h; simpa [psa] using h
  | succ f ih =>
    intro curr sel hcf h
    unfold psa
    exact psaLoop_sound hw hcf (fun p s _ hpf hs => ih p s hpf hs) va hva sel h

/-! ### nothing selected is dropped -/

theorem psaLoop_keep {c : Cfg} {tot : Nat → Nat} {th curr G : Nat} {rec : Nat → Sel → Sel}
    (hrec : ∀ p s, (G, c.number G) ∈ s → (G, c.number G) ∈ rec p s) :
    ∀ (l : List Vote) (sel : Sel), (G, c.number G) ∈ sel →
      (G, c.number G) ∈ psaLoop c tot th curr rec l sel := by
  intro l
  induction l with
  | nil => intro sel h; simpa [psaLoop] using h
  | cons v rest ih =>
    intro sel h
    unfold psaLoop
    split
    · exact ih sel h
    · split
      · exact ih sel h
      · split
        · exact h
        · split
          · exact ih _ (mem_aset_keep c.number h)
          · exact ih _ (hrec _ _ h)

theorem psa_keep {c : Cfg} {tot : Nat → Nat} {th G : Nat} {va : List Vote} :
    ∀ (f curr : Nat) (sel : Sel), (G, c.number G) ∈ sel → (G, c.number G) ∈ psa c tot th va f curr sel := by
  intro f
  induction f with
  | zero => intro curr sel h; simpa [psa] using h
  | succ f ih =>
    intro curr sel h
    unfold psa
    exact psaLoop_keep (fun p s hs => ih p s hs) va sel h

/-! ### the pair of votes that selects their common ancestor -/

/-- if no vote descends from `curr` (the early `return` is never taken) and some vote `y` meets `curr` in `G`
with more than `th` total votes, the loop selects `G` -/
theorem psaLoop_complete {c : Cfg} {tot : Nat → Nat} {th curr G : Nat} {rec : Nat → Sel → Sel}
    (hrec : ∀ p s, (G, c.number G) ∈ s → (G, c.number G) ∈ rec p s) (hG : th < tot G) :
    ∀ (l : List Vote), (∀ v ∈ l, v.blk ≠ curr → lca c.t v.blk curr ≠ some curr) → ∀ (sel : Sel),
      ((∃ y ∈ l, y.blk ≠ curr ∧ lca c.t y.blk curr = some G) ∨ (G, c.number G) ∈ sel) →
      (G, c.number G) ∈ psaLoop c tot th curr rec l sel := by
  intro l
  induction l with
  | nil =>
    intro _ sel h
    rcases h with ⟨y, hy, _⟩ | h
    · cases hy
    · simpa [psaLoop] using h
  | cons v rest ih =>
    intro hne sel h
    have hner : ∀ w ∈ rest, w.blk ≠ curr → lca c.t w.blk curr ≠ some curr :=
      fun w hw' => hne w (List.mem_cons_of_mem _ hw')
    unfold psaLoop
    split
    · rename_i hvc
      apply ih hner
      rcases h with ⟨y, hy, hyc, hyl⟩ | h
      · rcases List.mem_cons.1 hy with rfl | hy
        · exact absurd hvc hyc
        · exact Or.inl ⟨y, hy, hyc, hyl⟩
      · exact Or.inr h
    · rename_i hvc
      split
      · rename_i hl
        apply ih hner
        rcases h with ⟨y, hy, hyc, hyl⟩ | h
        · rcases List.mem_cons.1 hy with rfl | hy
          · rw [hl] at hyl; cases hyl
          · exact Or.inl ⟨y, hy, hyc, hyl⟩
        · exact Or.inr h
      · rename_i pred hl
        split
        · rename_i hpc
          exact absurd (hpc ▸ hl) (hne v List.mem_cons_self hvc)
        · split
          · apply ih hner
            rcases h with ⟨y, hy, hyc, hyl⟩ | h
            · rcases List.mem_cons.1 hy with rfl | hy
              · rw [hl] at hyl
                cases hyl
                exact Or.inr (mem_aset_self _ _ _)
              · exact Or.inl ⟨y, hy, hyc, hyl⟩
            · exact Or.inr (mem_aset_keep c.number h)
          · rename_i hnt
            apply ih hner
            rcases h with ⟨y, hy, hyc, hyl⟩ | h
            · rcases List.mem_cons.1 hy with rfl | hy
              · rw [hl] at hyl
                cases hyl
                exact absurd hG hnt
              · exact Or.inl ⟨y, hy, hyc, hyl⟩
            · exact Or.inr (hrec _ _ h)

theorem psa_complete {c : Cfg} {tot : Nat → Nat} {th x G : Nat} {va : List Vote} (hG : th < tot G)
    (hne : ∀ v ∈ va, v.blk ≠ x → lca c.t v.blk x ≠ some x)
    {y : Vote} (hy : y ∈ va) (hyx : y.blk ≠ x) (hl : lca c.t y.blk x = some G) (f : Nat) (sel : Sel) :
    (G, c.number G) ∈ psa c tot th va (f + 1) x sel := by
  unfold psa
  exact psaLoop_complete (fun p s hs => psa_keep f p s hs) hG va hne sel (Or.inl ⟨y, hy, hyx, hl⟩)

end Gossamer.C21
