/-
C20: shape of one import step (for a target inside the tree): either nothing changes, or the bookkeeping is
updated, the prevote GHOST is refreshed (prevotes only) and `update` recomputes finalized/estimate/completable.
-/
import Gossamer.Lib.C20Ghost
namespace Gossamer.C20

variable {t : Tree} {ws : List Nat}

/-- the import changes the round: first vote of the voter in the phase, or its first equivocation -/
def effective (ws : List Nat) (r : Round) (o : Op) : Bool :=
  decide (o.v < ws.length) && ((r.trk o.ph o.v).isNone || firstEquivocation (r.trk o.ph o.v) o.sv)

/-- the bookkeeping part of an effective import -/
def bookStep (t : Tree) (ws : List Nat) (r : Round) (o : Op) : Round :=
  match r.trk o.ph o.v with
  | none =>
    { r with trk := fun p u => if p = o.ph ∧ u = o.v then some (.single o.sv) else r.trk p u,
             cur := fun p => if p = o.ph then r.cur p + ws.getD o.v 0 else r.cur p,
             cum := insert t r.cum o.sv.blk (bitPos o.v (phN o.ph)) }
  | some (.single a) =>
    { r with trk := fun p u => if p = o.ph ∧ u = o.v then some (.equiv a o.sv) else r.trk p u,
             eqv := setBit r.eqv (bitPos o.v (phN o.ph)) }
  | some (.equiv _ _) => r

theorem bookStep_memo (t : Tree) (ws : List Nat) (r : Round) (o : Op) :
    (bookStep t ws r o).ghost = r.ghost ∧ (bookStep t ws r o).pcGhost = r.pcGhost ∧
    (bookStep t ws r o).fin = r.fin ∧ (bookStep t ws r o).est = r.est ∧
    (bookStep t ws r o).compl = r.compl := by
  unfold bookStep
  split <;> simp

theorem step_eq (r : Round) (o : Op) (hb : o.sv.blk < t.size) :
    step t ws r o =
      if effective ws r o then update t ws (ghostStep t ws o.ph (bookStep t ws r o)) else r := by
  unfold step importVote effective bookStep
  by_cases hv : o.v < ws.length
  · have hv' : ¬ o.v ≥ ws.length := by omega
    have hb' : ¬ o.sv.blk ≥ t.size := by omega
    simp only [hv', if_false, hv, decide_true, Bool.true_and]
    match hs : r.trk o.ph o.v with
    | none => simp [addVote, hb', firstEquivocation]
    | some (.single a) =>
      by_cases heq : a = o.sv
      · simp [addVote, heq, firstEquivocation]
      · simp [addVote, heq, firstEquivocation]
    | some (.equiv a b) =>
      by_cases heq : a = o.sv ∨ b = o.sv
      · simp [addVote, heq, firstEquivocation]
      · simp [addVote, heq, firstEquivocation]
  · have hv' : o.v ≥ ws.length := by omega
    simp [hv', hv]

/-- the state the memoised fields are recomputed from: same bookkeeping and ghosts, nothing remembered -/
def reset (r : Round) : Round := { r with fin := none, est := none, compl := false }

/-- `update` from scratch -/
def recompute (t : Tree) (ws : List Nat) (r : Round) : Round := update t ws (reset r)

theorem reset_update (t : Tree) (ws : List Nat) (r : Round) : reset (update t ws r) = reset r := by
  unfold update reset
  simp only
  split
  · rfl
  · split
    · rfl
    · split <;> rfl

/-- `update` only remembers `fin`/`compl` below the precommit threshold, and everything when it returns early -/
theorem update_eq_recompute (t : Tree) (ws : List Nat) (r : Round)
    (h1 : (r.cur false < threshold (total ws) ∨ r.ghost = none) →
      r.fin = none ∧ r.est = none ∧ r.compl = false)
    (h2 : r.cur true < threshold (total ws) → r.fin = none ∧ r.compl = false) :
    (update t ws r).fin = (recompute t ws r).fin ∧ (update t ws r).est = (recompute t ws r).est ∧
    (update t ws r).compl = (recompute t ws r).compl := by
  unfold recompute update reset
  simp only
  by_cases ha : r.cur false < threshold (total ws)
  · obtain ⟨f1, f2, f3⟩ := h1 (Or.inl ha)
    simp [ha, f1, f2, f3]
  · simp only [ha, if_false]
    cases hg : r.ghost with
    | none =>
      obtain ⟨f1, f2, f3⟩ := h1 (Or.inr hg)
      simp [f1, f2, f3]
    | some g =>
      by_cases hc : r.cur true ≥ threshold (total ws)
      · simp [hc]
      · obtain ⟨f1, f3⟩ := h2 (by omega)
        simp [hc, f1, f3]

theorem recompute_early (t : Tree) (ws : List Nat) (r : Round)
    (h : r.cur false < threshold (total ws) ∨ r.ghost = none) :
    (recompute t ws r).fin = none ∧ (recompute t ws r).est = none ∧ (recompute t ws r).compl = false := by
  unfold recompute update reset
  simp only
  by_cases ha : r.cur false < threshold (total ws)
  · simp [ha]
  · rcases h with h | h
    · exact absurd h ha
    · simp [ha, h]

theorem recompute_below (t : Tree) (ws : List Nat) (r : Round)
    (h : r.cur true < threshold (total ws)) :
    (recompute t ws r).fin = none ∧ (recompute t ws r).compl = false := by
  unfold recompute update reset
  simp only
  have hc : ¬ r.cur true ≥ threshold (total ws) := by omega
  split
  · simp
  · split
    · simp
    · simp

/-- what `recompute` yields when both thresholds are reached -/
theorem recompute_full (t : Tree) (ws : List Nat) (r : Round) (g : Nat)
    (h1 : ¬ r.cur false < threshold (total ws)) (hg : r.ghost = some g)
    (h2 : r.cur true ≥ threshold (total ws)) :
    (recompute t ws r).fin = findAncestor t r.cum g (supermCond ws r.eqv true) ∧
    (recompute t ws r).est = findAncestor t r.cum g (possibleToPrecommit ws (r.cur true) r.eqv) ∧
    (recompute t ws r).compl =
      (match findAncestor t r.cum g (possibleToPrecommit ws (r.cur true) r.eqv) with
       | none => false
       | some e => (e != g) ||
          (match findGhost t r.cum (some e) (possibleToPrecommit ws (r.cur true) r.eqv) with
           | none => true
           | some x => x == g)) := by
  unfold recompute update reset
  simp [h1, hg, h2]
  cases findAncestor t r.cum g (possibleToPrecommit ws (r.cur true) r.eqv) with
  | none => rfl
  | some e =>
    cases findGhost t r.cum (some e) (possibleToPrecommit ws (r.cur true) r.eqv) <;> rfl

/-- … and when only the prevote threshold is reached -/
theorem recompute_short (t : Tree) (ws : List Nat) (r : Round) (g : Nat)
    (h1 : ¬ r.cur false < threshold (total ws)) (hg : r.ghost = some g)
    (h2 : r.cur true < threshold (total ws)) :
    (recompute t ws r).fin = none ∧ (recompute t ws r).est = some g ∧ (recompute t ws r).compl = false := by
  unfold recompute update reset
  have hc : ¬ r.cur true ≥ threshold (total ws) := by omega
  simp [h1, hg, hc]

end Gossamer.C20
