/-
C08: limited removals inside a child trie, inside a transaction.
-/
import Gossamer.Lib.C08Limit3
set_option linter.unusedSectionVars false
set_option linter.unusedSimpArgs false
namespace Gossamer.C08
open Gossamer

section lemmas
variable {CK : Bytes → Bool} {b : Logical} {d : Diff}

/-- deleting the keys `K` in the change set of child `ck` = filtering them out of the child map -/
theorem eff_kidDeleteAll (hb : BaseInv CK b) (hd : DiffInv CK d) (ck : Bytes) (hck : CK ck = true)
    (K : List Bytes) (sel : Bytes → Bool) (hsel : ∀ x ∈ K, sel x = true)
    (hall : ∀ x, sel x = true → x ∉ K →
      KMap.find x (d.kid ck).upserts = none ∧ OMap.get x (kidOf b ck) = none) :
    effL b { d with kids := KMap.ins ck (K.foldl CDiff.delete (d.kid ck)) d.kids } =
      Logical.setKid (effL b d) ck ((kidOf (effL b d) ck).filter (fun e => !(sel e.1))) := by
  have hd' := inv_setKidFold hd ck hck K
  have hw := effL_wf (d := d) hb.wf
  have hget : ∀ x, OMap.get x ((kidOf (effL b d) ck).filter (fun e => !(sel e.1))) =
      if sel x then none else OMap.get x (kidOf (effL b d) ck) := by
    intro x
    have := OMap.get_filter_key (fun y => !(sel y)) (kidOf (effL b d) ck) x
    rw [this]
    cases sel x <;> simp
  apply Logical.ext (effL_wf hb.wf) (wf_setKid hw _ _ (OMap.sorted_filter _ (kidOf_sorted hw ck)))
  · intro k'
    rw [main_setKid, eff_main hb hd', eff_main hb hd]
  · intro ck' k'
    rw [kidOf_setKid, eff_kid hb hd']
    simp only [KMap.find_ins]
    by_cases h : ck' = ck
    · subst h
      simp only [if_true, hget, eff_kid' hb hd]
      by_cases hdel : ck' ∈ d.c.deletes
      · simp [hdel]
      · simp only [hdel, if_false, mem_fold_dels, find_fold_ups]
        by_cases hK : k' ∈ K
        · simp [hK, hsel k' hK]
        · by_cases hs : sel k' = true
          · obtain ⟨f1, f2⟩ := hall k' hs hK
            simp [hK, hs, f1, f2]
          · have hs' : sel k' = false := by simpa using hs
            simp [hK, hs']
    · simp only [h, if_false]
      rw [eff_kid hb hd]

/-- `ClearPrefixInChildWithLimit` inside a transaction, on a child that was not deleted in it and
    outside the finding `alldeleted-counts-nonmatching` -/
theorem eff_clearChildLimit (hb : BaseInv CK b) (hd : DiffInv CK d) (ck p : Bytes) (n : Nat)
    (hck : CK ck = true) (hnd : ck ∉ d.c.deletes)
    (hK2 : ∀ k ∈ KMap.keys (d.kid ck).upserts, p.isPrefixOf k = true) :
    let x := d.clearPrefixInChild ck p (kidKeysOn b ck p) (some n)
    let r := specLimit (kidOf (effL b d) ck) (kidOf b ck) (fun k => p.isPrefixOf k) (some n)
    effL b x.1 = Logical.setKid (effL b d) ck r.1 ∧ DiffInv CK x.1 ∧ x.2.1 = r.2.1 ∧
      x.2.2 = r.2.2 := by
  intro x r
  have hw := effL_wf (d := d) hb.wf
  let ks := kidKeysOn b ck p
  let ch := d.kid ck
  have hks : ∀ y, y ∈ ks ↔ (OMap.get y (kidOf b ck) ≠ none ∧ p.isPrefixOf y = true) :=
    fun y => mem_keysWithPrefixOn (kidOf b ck) (kidOf_sorted hb.wf ck) p y
  have hksS : KSet.Sorted ks := sorted_keysWithPrefixOn (kidOf b ck) (kidOf_sorted hb.wf ck) p
  have hchS : ch.SortedC := Diff.sorted_kid hd.sorted ck
  let nk := (KMap.keys ch.upserts).filter (fun k => !ks.contains k)
  let G := sortKeys (nk ++ ks)
  have hG : ∀ y, y ∈ G ↔ (y ∈ KMap.keys ch.upserts ∨ y ∈ ks) := by
    intro y
    simp only [G, nk, mem_sortKeys, List.mem_append, List.mem_filter, List.contains_eq_mem,
      Bool.not_eq_true', decide_eq_false_iff_not]
    constructor
    · rintro (⟨h, _⟩ | h)
      · exact Or.inl h
      · exact Or.inr h
    · rintro (h | h)
      · by_cases hy : y ∈ ks
        · exact Or.inr hy
        · exact Or.inl ⟨h, hy⟩
      · exact Or.inr h
  have hGp : ∀ y ∈ G, p.isPrefixOf y = true := by
    intro y hy
    rcases (hG y).mp hy with h | h
    · exact hK2 y h
    · exact ((hks y).mp h).2
  have hkidL : ∀ y, OMap.get y (kidOf (effL b d) ck) =
      if y ∈ ch.deletes then none else ov (KMap.find y ch.upserts) (OMap.get y (kidOf b ck)) := by
    intro y
    rw [eff_kid' hb hd]
    simp [hnd, ch]
  have hGS : unionKeys (((kidOf (effL b d) ck).map (·.1)).filter (fun k => p.isPrefixOf k))
      (((kidOf b ck).map (·.1)).filter (fun k => p.isPrefixOf k)) = G := by
    apply kset_ext (sorted_unionKeys _ _) (sorted_candidates hchS.ups hksS)
    intro y
    rw [mem_unionKeys, hG]
    simp only [List.mem_filter, omap_mem_keys]
    constructor
    · rintro (⟨h1, h2⟩ | ⟨h1, h2⟩)
      · rw [hkidL] at h1
        by_cases hdl : y ∈ ch.deletes
        · simp [hdl] at h1
        · simp only [hdl, if_false] at h1
          cases hf : KMap.find y ch.upserts with
          | some v => exact Or.inl ((mem_keys_iff _ _).mpr (by rw [hf]; simp))
          | none =>
            rw [hf] at h1
            simp only [ov_none] at h1
            exact Or.inr ((hks y).mpr ⟨h1, h2⟩)
      · exact Or.inr ((hks y).mpr ⟨h1, h2⟩)
    · rintro (h | h)
      · have hpy : p.isPrefixOf y = true := hK2 y h
        left
        refine ⟨?_, hpy⟩
        rw [hkidL]
        have hf := (mem_keys_iff _ _).mp h
        have hdl : y ∉ ch.deletes := fun hm => hf (kid_disj hd ck y hm)
        simp only [hdl, if_false]
        cases hfv : KMap.find y ch.upserts with
        | none => exact absurd hfv hf
        | some v => simp
      · exact Or.inr ((hks y).mp h)
  let isOld : Bytes → Bool := fun k => ks.contains k
  have hnew : ∀ k ∈ G, nk.contains k = !isOld k := by
    intro k hk
    simp only [nk, isOld, List.contains_eq_mem, List.mem_filter, Bool.not_eq_true',
      decide_eq_false_iff_not]
    by_cases hkk : k ∈ ks
    · simp [hkk]
    · have : k ∈ KMap.keys ch.upserts := by
        rcases (hG k).mp hk with h | h
        · exact h
        · exact absurd h hkk
      simp [hkk, this]
  have hold : ∀ k ∈ G, (OMap.get k (kidOf b ck)).isSome = isOld k := by
    intro k hk
    have hpk := hGp k hk
    simp only [isOld, List.contains_eq_mem]
    by_cases hkk : k ∈ ks
    · have := ((hks k).mp hkk).1
      cases hg : OMap.get k (kidOf b ck) with
      | none => exact absurd hg this
      | some v => simp [hkk]
    · cases hg : OMap.get k (kidOf b ck) with
      | none => simp [hkk]
      | some v =>
        exfalso; apply hkk; rw [hks]
        exact ⟨by rw [hg]; simp, hpk⟩
  have hm := limitLoop_take CDiff.delete (fun k => p.isPrefixOf k) nk isOld G hGp hnew (some n) ch 0
  have hs := specLoop_take (kidOf b ck) isOld G hold (some n) (kidOf (effL b d) ck) 0
  let T := takeLim isOld G (some n)
  have hx1 : x.1 = { d with kids := KMap.ins ck (T.foldl CDiff.delete ch) d.kids } := by
    show (Diff.clearPrefixInChild d ck p ks (some n)).1 = _
    unfold Diff.clearPrefixInChild clearPrefixG
    simp only []
    rw [show (limitLoop CDiff.delete (fun k => p.isPrefixOf k) nk G (some n) ch 0).1 =
      T.foldl CDiff.delete ch from congrArg Prod.fst hm]
  have hx2 : x.2.1 = T.length := by
    show (Diff.clearPrefixInChild d ck p ks (some n)).2.1 = _
    unfold Diff.clearPrefixInChild clearPrefixG
    simp only []
    have := congrArg Prod.snd hm
    simp only [Nat.zero_add] at this
    exact this
  have hx3 : x.2.2 = (T.length == G.length) := by
    show (Diff.clearPrefixInChild d ck p ks (some n)).2.2 = _
    unfold Diff.clearPrefixInChild clearPrefixG
    simp only []
    have := congrArg Prod.snd hm
    simp only [Nat.zero_add] at this
    rw [this]
  have hr1 : r.1 = T.foldl (fun t k => OMap.erase k t) (kidOf (effL b d) ck) := by
    show (specLimit _ _ _ _).1 = _
    unfold specLimit
    simp only []
    rw [hGS]
    exact congrArg Prod.fst hs
  have hr2 : r.2.1 = T.length := by
    show (specLimit _ _ _ _).2.1 = _
    unfold specLimit
    simp only []
    rw [hGS]
    have := congrArg Prod.snd hs
    simp only [Nat.zero_add] at this
    exact this
  have hr3 : r.2.2 = (T.length == G.length) := by
    show (specLimit _ _ _ _).2.2 = _
    unfold specLimit
    simp only []
    rw [hGS]
    have := congrArg Prod.snd hs
    simp only [Nat.zero_add] at this
    rw [this]
  refine ⟨?_, ?_, by rw [hx2, hr2], by rw [hx3, hr3]⟩
  · rw [hx1, hr1, foldl_erase_eq_filter T (kidOf_sorted hw ck)]
    exact eff_kidDeleteAll hb hd ck hck T (fun y => T.contains y) (fun y hy => by simpa using hy)
      (fun y hy hn => by simp at hy; exact absurd hy hn)
  · rw [hx1]; exact inv_setKidFold hd ck hck T

end lemmas

section step
variable (Hc Hm : Entries → Bytes) {b : Logical}

/-- what the model does for `ClearPrefixInChildWithLimit` inside a transaction, in one expression -/
theorem clearPrefixInChildLimitTS_tx (d : Diff) (r : List Diff) (ck p : Bytes) (n : Nat) :
    clearPrefixInChildLimitTS (idealBackend Hc Hm) { base := b, txs := d :: r } ck p n =
      ({ base := b, txs := (d.clearPrefixInChild ck p (kidKeysOn b ck p) (some n)).1 :: r },
        .cnt (d.clearPrefixInChild ck p (kidKeysOn b ck p) (some n)).2.1
          (d.clearPrefixInChild ck p (kidKeysOn b ck p) (some n)).2.2) := by
  simp only [clearPrefixInChildLimitTS]
  rw [getChild_ideal]
  unfold kidKeysOn
  cases hf : KMap.find ck b.kids with
  | none =>
    simp only [kidOf_none hf, keysWithPrefixOn_nil]
  | some es =>
    simp only [kidOf_some hf]
    rfl

end step

end Gossamer.C08
