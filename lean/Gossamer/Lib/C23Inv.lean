/-
C23: invariants of the model along every history in which no block is imported twice:
the known blocks (`LiveInv`), the pending forced changes (`FInv`: one per fork, all in the block tree).
Core Lean only.
-/
import Gossamer.Lib.C23Tree
import Gossamer.Lib.C23Keys
namespace Gossamer.C23

/-! ### frames: what the pieces of a step leave alone -/

theorem applyForced_frame (t : Tree) (s s' : St) (b : Nat) (h : applyForced t s b = .ok s') :
    s'.live = s.live ∧ s'.root = s.root ∧ (s'.forced = s.forced ∧ s'.roots = s.roots ∨ s'.forced = [] ∧ s'.roots = []) := by
  unfold applyForced at h
  split at h
  · exact absurd h (by simp)
  · simp only [Except.ok.injEq] at h; subst h; simp
  · dsimp only at h
    split at h
    · exact absurd h (by simp)
    · exact absurd h (by simp)
    · simp only [Except.ok.injEq] at h; subst h
      simp [startNext]

theorem forcedPrune_eq (isD : IsD) (h : Nat) (hD : ∀ a d, isD a d ≠ none) :
    ∀ l, forcedPrune isD h l = .ok (l.filter (fun c => isD h c.blk == some true)) := by
  intro l
  induction l with
  | nil => rfl
  | cons c cs ih =>
    simp only [forcedPrune, ih]
    cases hd : isD h c.blk with
    | none => exact absurd hd (hD _ _)
    | some d => cases d <;> simp [List.filter, hd]

theorem isDesc_ne_none (t : Tree) (s : St) (a d : Nat) : isDesc t s a d ≠ none := by
  unfold isDesc; split
  · simp
  · split <;> simp

theorem isDesc_true {t : Tree} (wf : t.WF) {s : St} {a d : Nat} (h : isDesc t s a d = some true) :
    anc t a d = true ∧ (a = d ∨ (a ∈ s.live ∧ d ∈ s.live)) := by
  unfold isDesc at h
  split at h
  · rename_i e; subst e; exact ⟨anc_refl wf _, Or.inl rfl⟩
  · split at h
    · rename_i hl
      simp only [Bool.and_eq_true, List.contains_eq_mem, decide_eq_true_eq] at hl
      simp only [Option.some.injEq] at h
      exact ⟨h, Or.inr hl⟩
    · simp at h

theorem isDesc_live {t : Tree} {s : St} {a d : Nat} (ha : a ∈ s.live) (hd : d ∈ s.live) (hne : a ≠ d) :
    isDesc t s a d = some (anc t a d) := by
  unfold isDesc
  simp [hne, ha, hd]

theorem isDesc_dead {t : Tree} {s : St} {a d : Nat} (ha : a ∉ s.live ∨ d ∉ s.live) (hne : a ≠ d) :
    isDesc t s a d = some false := by
  unfold isDesc
  rcases ha with ha | ha <;> simp [hne, ha]

/-- `isDesc` looks only at `live` -/
theorem isDesc_congr (t : Tree) (s s' : St) (h : s'.live = s.live) : isDesc t s' = isDesc t s := by
  funext a d; unfold isDesc; rw [h]

theorem applyScheduled_frame (t : Tree) (s s' : St) (b : Nat) (h : applyScheduled t s b = .ok s') :
    s'.live = s.live ∧ s'.root = s.root ∧
      s'.forced = s.forced.filter (fun c => isDesc t s b c.blk == some true) := by
  unfold applyScheduled at h
  rw [forcedPrune_eq _ _ (isDesc_ne_none t s)] at h
  dsimp only at h
  split at h
  · simp only [Except.ok.injEq] at h; subst h; simp
  · split at h
    · exact absurd h (by simp)
    · simp only [Except.ok.injEq] at h; subst h; simp
    · simp only [Except.ok.injEq] at h; subst h; simp [startNext]

theorem applyScheduledPartial_frame (t : Tree) (s : St) (b : Nat) :
    (applyScheduledPartial t s b).live = s.live ∧ (applyScheduledPartial t s b).root = s.root ∧
      (applyScheduledPartial t s b).forced = s.forced.filter (fun c => isDesc t s b c.blk == some true) ∧
      (applyScheduledPartial t s b).roots = s.roots := by
  unfold applyScheduledPartial
  rw [forcedPrune_eq _ _ (isDesc_ne_none t s)]
  simp

/-! ### the known blocks -/

/-- the root is known; every known block is on the root's chain or descends from it; parents of known
    blocks are known -/
def LiveInv (t : Tree) (s : St) : Prop :=
  s.root ∈ s.live ∧ (∀ x ∈ s.live, cmp t s.root x = true) ∧ (∀ x ∈ s.live, x ≠ 0 → par t x ∈ s.live)

theorem liveInv_init {t : Tree} (wf : t.WF) : LiveInv t St.init := by
  refine ⟨by simp [St.init], ?_, ?_⟩
  · intro x hx; simp only [St.init, List.mem_singleton] at hx; subst hx
    simp [cmp, St.init, anc_refl wf]
  · intro x hx h0; simp only [St.init, List.mem_singleton] at hx; exact absurd hx h0

theorem live_anc_closed {t : Tree} (wf : t.WF) {s : St} (hl : LiveInv t s) :
    ∀ (x : Nat), x ∈ s.live → ∀ a, anc t a x = true → a ∈ s.live := by
  intro x
  induction x using Nat.strongRecOn with
  | _ x ih =>
    intro hx a ha
    by_cases hax : a = x
    · subst hax; exact hx
    · have hx0 : x ≠ 0 := by
        intro h0; subst h0; exact hax (anc_zero_right ha)
      have hp := hl.2.2 x hx hx0
      exact ih _ (par_lt wf (Nat.pos_of_ne_zero hx0)) hp a (anc_par_of_ne wf ha hax)

theorem inBt_iff (t : Tree) (s : St) (b : Nat) : inBt t s b = true ↔ b ∈ s.live ∧ anc t s.root b = true := by
  simp [inBt]

/-- the import of a block that is not in the tree yet, below a parent that is -/
structure FreshImp (t : Tree) (s : St) (b : Nat) : Prop where
  parent : inBt t s (par t b) = true
  fresh : inBt t s b = false

theorem freshImp_pos {t : Tree} (wf : t.WF) {s : St} {b : Nat} (h : FreshImp t s b) : 0 < b := by
  apply Nat.pos_of_ne_zero
  intro h0
  subst h0
  have hp : par t 0 = 0 := by
    unfold par
    by_cases hl : 0 < t.parents.length
    · have := wf 0 hl
      rw [List.getD_eq_getElem?_getD, List.getElem?_eq_getElem hl, Option.getD_some]; omega
    · rw [List.getD_eq_getElem?_getD, List.getElem?_eq_none (by omega), Option.getD_none]
  have := h.parent
  rw [hp, h.fresh] at this
  exact absurd this (by simp)

theorem freshImp_not_live {t : Tree} (wf : t.WF) {s : St} (hl : LiveInv t s) {b : Nat} (h : FreshImp t s b) :
    b ∉ s.live := by
  intro hb
  have hpos := freshImp_pos wf h
  have hp := (inBt_iff t s _).1 h.parent
  have hrb : anc t s.root b = true := anc_trans wf _ _ _ hp.2 (anc_par wf hpos)
  have : inBt t s b = true := (inBt_iff t s b).2 ⟨hb, hrb⟩
  rw [h.fresh] at this
  exact absurd this (by simp)

/-- no known block descends from a block that is being imported for the first time -/
theorem freshImp_tip {t : Tree} (wf : t.WF) {s : St} (hl : LiveInv t s) {b : Nat} (h : FreshImp t s b) :
    ∀ x ∈ s.live, anc t b x = false := by
  intro x hx
  cases hbx : anc t b x with
  | false => rfl
  | true => exact absurd (live_anc_closed wf hl x hx b hbx) (freshImp_not_live wf hl h)

theorem liveInv_add {t : Tree} (wf : t.WF) {s : St} (hl : LiveInv t s) {b : Nat} (h : FreshImp t s b) :
    LiveInv t { s with live := s.live ++ [b] } := by
  have hpos := freshImp_pos wf h
  have hp := (inBt_iff t s _).1 h.parent
  refine ⟨by simp [hl.1], ?_, ?_⟩
  · intro x hx
    simp only [List.mem_append, List.mem_singleton] at hx
    rcases hx with hx | rfl
    · exact hl.2.1 x hx
    · simp [cmp, anc_trans wf _ _ _ hp.2 (anc_par wf hpos)]
  · intro x hx hx0
    simp only [List.mem_append, List.mem_singleton] at hx ⊢
    rcases hx with hx | rfl
    · exact Or.inl (hl.2.2 x hx hx0)
    · exact Or.inl hp.1

theorem liveInv_fin {t : Tree} (wf : t.WF) {s : St} (hl : LiveInv t s) {b : Nat} (hb : inBt t s b = true) :
    LiveInv t { s with live := s.live.filter (fun x => anc t b x || anc t x b), root := b } := by
  have hb' := (inBt_iff t s b).1 hb
  refine ⟨?_, ?_, ?_⟩
  · simp [hb'.1, anc_refl wf]
  · intro x hx
    simp only [List.mem_filter] at hx
    simpa [cmp] using hx.2
  · intro x hx hx0
    simp only [List.mem_filter, Bool.or_eq_true] at hx ⊢
    refine ⟨hl.2.2 x hx.1 hx0, ?_⟩
    have hpos := Nat.pos_of_ne_zero hx0
    rcases hx.2 with h1 | h1
    · by_cases hbx : b = x
      · subst hbx; exact Or.inr (anc_par wf hpos)
      · exact Or.inl (anc_par_of_ne wf h1 hbx)
    · exact Or.inr (anc_trans wf _ _ _ (anc_par wf hpos) h1)

/-! ### fresh histories -/

def FreshOp (t : Tree) (s : St) : Op → Prop
  | .imp b => inBt t s b = false
  | .fin _ => True

instance (t : Tree) (s : St) (op : Op) : Decidable (FreshOp t s op) := by
  cases op <;> unfold FreshOp <;> exact inferInstance

/-- no `imp` names a block that is in the block tree at that moment (every block is imported at most once) -/
def Fresh (t : Tree) : St → List Op → Prop
  | _, [] => True
  | s, op :: ops => FreshOp t s op ∧ Fresh t (step t s op).1 ops

instance (t : Tree) : ∀ (s : St) (ops : List Op), Decidable (Fresh t s ops)
  | _, [] => by unfold Fresh; exact inferInstance
  | s, op :: ops => by
    unfold Fresh
    have := instDecidableFresh t (step t s op).1 ops
    exact inferInstance

/-! ### live / root through a step -/

theorem importBlock_live (t : Tree) (s : St) (b : Nat) :
    let s' := (importBlock t s b).1
    s'.root = s.root ∧
      (s'.live = s.live ∨ (inBt t s (par t b) = true ∧ inBt t s b = false ∧ s'.live = s.live ++ [b])) := by
  simp only [importBlock]
  split
  · simp
  · rename_i hpar
    simp only [Bool.not_eq_true', Bool.not_eq_false] at hpar
    have hs0 : ∀ (s0 : St), s0 = (if inBt t s b = true then s else { s with live := s.live ++ [b] }) →
        s0.root = s.root ∧ (s0.live = s.live ∨ (inBt t s (par t b) = true ∧ inBt t s b = false ∧ s0.live = s.live ++ [b])) := by
      intro s0 e
      by_cases hb : inBt t s b = true
      · simp [e, hb]
      · simp only [Bool.not_eq_true] at hb
        simp [e, hb, hpar]
    split
    · have hc := handleDigestsPartial_core t (filterDigests (t.anns.filter (·.blk = b)))
        (if inBt t s b = true then s else { s with live := s.live ++ [b] })
      have := hs0 _ rfl
      rw [hc.2.2.2.1, hc.2.2.2.2]; exact this
    · rename_i s1 hd
      have hc := handleDigests_core t _ _ _ hd
      have := hs0 _ rfl
      split
      · rw [hc.2.2.2.1, hc.2.2.2.2]; exact this
      · rename_i s2 hf
        have hfr := applyForced_frame t s1 s2 b hf
        rw [hfr.1, hfr.2.1, hc.2.2.2.1, hc.2.2.2.2]; exact this

theorem liveInv_step {t : Tree} (wf : t.WF) (s : St) (op : Op) (hl : LiveInv t s) : LiveInv t (step t s op).1 := by
  cases op with
  | imp b =>
    have h := importBlock_live t s b
    simp only at h
    simp only [step]
    rcases h.2 with h2 | ⟨hp, hb, h2⟩
    · exact ⟨by rw [h.1, h2]; exact hl.1, by rw [h.1, h2]; exact hl.2.1, by rw [h2]; exact hl.2.2⟩
    · have := liveInv_add wf hl ⟨hp, hb⟩
      exact ⟨by rw [h.1, h2]; exact this.1, by rw [h.1, h2]; exact this.2.1, by rw [h2]; exact this.2.2⟩
  | fin b =>
    simp only [step, finalise]
    split
    · exact hl
    · rename_i s1 hs
      unfold setFinalised at hs
      split at hs
      · rename_i hb
        simp only [Option.some.injEq] at hs
        have h1 := liveInv_fin wf hl hb
        rw [hs] at h1
        split
        · have hfr := applyScheduledPartial_frame t s1 b
          exact ⟨by rw [hfr.1, hfr.2.1]; exact h1.1, by rw [hfr.1, hfr.2.1]; exact h1.2.1,
            by rw [hfr.1]; exact h1.2.2⟩
        · rename_i s2 ha
          have hfr := applyScheduled_frame t s1 s2 b ha
          exact ⟨by rw [hfr.1, hfr.2.1]; exact h1.1, by rw [hfr.1, hfr.2.1]; exact h1.2.1,
            by rw [hfr.1]; exact h1.2.2⟩
      · exact absurd hs (by simp)

theorem liveInv_run {t : Tree} (wf : t.WF) (ops : List Op) : ∀ s, LiveInv t s → LiveInv t (run t s ops) := by
  induction ops with
  | nil => intro s h; exact h
  | cons op ops ih => intro s h; exact ih _ (liveInv_step wf s op h)

end Gossamer.C23
