/-
C08: every diff of every reachable `TrieState` (any backend, any operations) keeps its maps
strictly sorted — hence with distinct keys, the hypothesis of the order-independence theorem.
-/
import Gossamer.Lib.C08Eff
import Gossamer.Lib.C08Rollback
set_option linter.unusedSectionVars false
set_option linter.unusedSimpArgs false
namespace Gossamer.C08
open Gossamer

theorem limitLoop_pres {σ : Type} (P : σ → Prop) (del : σ → Bytes → σ)
    (hdel : ∀ s k, P s → P (del s k)) (sel : Bytes → Bool) (newKeys : List Bytes) :
    ∀ (ks : List Bytes) (limit : Option Nat) (s : σ) (n : Nat), P s →
      P (limitLoop del sel newKeys ks limit s n).1 := by
  intro ks
  induction ks with
  | nil => intro limit s n h; exact h
  | cons k r ih =>
    intro limit s n h
    simp only [limitLoop]
    split
    · exact h
    · split
      · exact ih _ _ _ (hdel s k h)
      · exact ih _ _ _ h

theorem clearPrefixG_pres {σ : Type} (P : σ → Prop) (del : σ → Bytes → σ)
    (hdel : ∀ s k, P s → P (del s k)) (ups : KMap Bytes) (s : σ) (p : Bytes)
    (tk : List Bytes) (limit : Option Nat) (h : P s) :
    P (clearPrefixG del ups s p tk limit).1 := by
  unfold clearPrefixG
  exact limitLoop_pres P del hdel _ _ _ _ _ _ h

section diffops
variable {d : Diff}

theorem Diff.sorted_clearPrefix (h : d.SortedD) (p : Bytes) (tk : List Bytes) (limit : Option Nat) :
    (d.clearPrefix p tk limit).1.SortedD :=
  clearPrefixG_pres Diff.SortedD Diff.delete (fun _ k hs => Diff.sorted_delete hs k) _ _ _ _ _ h

theorem Diff.sorted_clearPrefixInChild (h : d.SortedD) (ck p : Bytes) (tk : List Bytes)
    (limit : Option Nat) : (d.clearPrefixInChild ck p tk limit).1.SortedD := by
  unfold Diff.clearPrefixInChild
  exact Diff.sorted_setKid h ck
    (clearPrefixG_pres CDiff.SortedC CDiff.delete (fun _ k hs => CDiff.sorted_delete hs k)
      _ _ _ _ _ (Diff.sorted_kid h ck))

theorem Diff.sorted_deleteChildLimit (h : d.SortedD) (ck : Bytes) (cur : List Bytes)
    (limit : Option Nat) : (d.deleteChildLimit ck cur limit).1.SortedD := by
  unfold Diff.deleteChildLimit
  cases limit with
  | none => exact Diff.sorted_delete h ck
  | some n =>
    exact Diff.sorted_setKid h ck
      (limitLoop_pres CDiff.SortedC CDiff.delete (fun _ k hs => CDiff.sorted_delete hs k)
        _ _ _ _ _ _ (Diff.sorted_kid h ck))

theorem Diff.sorted_upsertChild (h : d.SortedD) (ck k v : Bytes) : (d.upsertChild ck k v).SortedD := by
  have h1 := Diff.sorted_setKid h ck (CDiff.sorted_upsert (Diff.sorted_kid h ck) k v)
  exact ⟨⟨h1.c.ups, KSet.sorted_del _ h1.c.dels⟩, h1.kids, h1.kid⟩

theorem Diff.sorted_deleteFromChild (h : d.SortedD) (ck k : Bytes) :
    (d.deleteFromChild ck k).SortedD :=
  Diff.sorted_setKid h ck (CDiff.sorted_delete (Diff.sorted_kid h ck) k)

end diffops

section reach
variable {β τ : Type} (B : Backend β τ) (D : Dumper β) (ord : Diff → ApplyOrder)

def AllSorted (s : TS β) : Prop := ∀ d ∈ s.txs, d.SortedD

theorem allSorted_cons {base : β} {t : Diff} {r : List Diff} (ht : t.SortedD)
    (hr : ∀ d ∈ r, d.SortedD) : AllSorted ({ base := base, txs := t :: r } : TS β) := by
  intro d hd
  rcases List.mem_cons.mp hd with hd | hd
  · subst hd; exact ht
  · exact hr d hd

theorem step_sorted (s : TS β) (op : Op) (h : AllSorted s) :
    AllSorted (stepTS B D ord s op).1 := by
  obtain ⟨base, txs⟩ := s
  cases txs with
  | nil =>
    -- no transaction open: only `start` creates a diff
    have key : (stepTS B D ord { base := base, txs := [] } op).1.txs = [] ∨
        (stepTS B D ord { base := base, txs := [] } op).1.txs = [Diff.empty] := by
      cases op <;> simp only [stepTS, putTS, deleteTS, clearPrefixTS, clearPrefixLimitTS,
        setChildStorageTS, clearChildStorageTS, clearPrefixInChildTS, clearPrefixInChildLimitTS,
        deleteChildTS, deleteChildLimitTS, startTS, commitTS, rollbackTS]
      all_goals first
        | (left; trivial)
        | (left; rfl)
        | (right; trivial)
        | (right; rfl)
        | (split <;> first | (left; trivial) | (left; rfl) |
            (split <;> first | (left; trivial) | (left; rfl)))
    intro d hd
    rcases key with key | key
    · rw [key] at hd; simp at hd
    · rw [key] at hd
      simp only [List.mem_singleton] at hd
      subst hd; exact Diff.sorted_empty
  | cons t r =>
    have ht : t.SortedD := h t (by simp)
    have hr : ∀ d ∈ r, d.SortedD := fun d hd => h d (by simp [hd])
    cases op <;> simp only [stepTS, putTS, deleteTS, clearPrefixTS, clearPrefixLimitTS,
      setChildStorageTS, clearChildStorageTS, clearPrefixInChildTS, clearPrefixInChildLimitTS,
      deleteChildTS, deleteChildLimitTS, startTS, commitTS, rollbackTS]
    case put k v => exact allSorted_cons (Diff.sorted_upsert ht _ _) hr
    case del k => exact allSorted_cons (Diff.sorted_delete ht _) hr
    case clr p => exact allSorted_cons (Diff.sorted_clearPrefix ht _ _ _) hr
    case clrl p n => exact allSorted_cons (Diff.sorted_clearPrefix ht _ _ _) hr
    case cput c k v => exact allSorted_cons (Diff.sorted_upsertChild ht _ _ _) hr
    case cdel c k => exact allSorted_cons (Diff.sorted_deleteFromChild ht _ _) hr
    case cclr c p =>
      split
      · exact allSorted_cons (Diff.sorted_clearPrefixInChild ht _ _ _ _) hr
      · exact h
      · exact allSorted_cons (Diff.sorted_clearPrefixInChild ht _ _ _ _) hr
    case cclrl c p n =>
      split
      · exact allSorted_cons (Diff.sorted_clearPrefixInChild ht _ _ _ _) hr
      · exact h
      · exact allSorted_cons (Diff.sorted_clearPrefixInChild ht _ _ _ _) hr
    case kill c => exact allSorted_cons (Diff.sorted_delete ht _) hr
    case killl c n =>
      split
      · split
        · exact h
        · exact allSorted_cons (Diff.sorted_deleteChildLimit ht _ _ _) hr
      · exact h
      · exact allSorted_cons (Diff.sorted_deleteChildLimit ht _ _ _) hr
    case start =>
      simp only [List.head?_cons, Option.getD_some]
      exact allSorted_cons ht h
    case commit =>
      cases r with
      | nil =>
        simp only []
        split <;> (intro d hd; simp at hd)
      | cons u r' => exact allSorted_cons ht (fun d hd => hr d (by simp [hd]))
    case rollback => exact hr
    all_goals exact h

/-- every diff of every reachable state is strictly sorted -/
theorem run_sorted (ops : List Op) (s : TS β) (h : AllSorted s) :
    AllSorted (runTS B D ord s ops).1 := by
  induction ops generalizing s with
  | nil => exact h
  | cons op r ih => exact ih _ (step_sorted B D ord s op h)

end reach

end Gossamer.C08
