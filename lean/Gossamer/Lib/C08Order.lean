/-
C08: `applyToTrie` over the ideal backend does not depend on the iteration order of the Go maps.
-/
import Gossamer.Lib.C08Apply
set_option linter.unusedSectionVars false
set_option linter.unusedSimpArgs false
namespace Gossamer.C08
open Gossamer

/-! ### phase 3 over a list -/

theorem phase3_wf (ds : List Bytes) {l : Logical} (h : l.WF) : (ds.foldl applyDelI l).WF := by
  induction ds generalizing l with
  | nil => exact h
  | cons d r ih => exact ih (wf_applyDelI h d)

theorem phase3_kid (ds : List Bytes) {l : Logical} (h : l.WF) (ck : Bytes) :
    kidOf (ds.foldl applyDelI l) ck = if ck ∈ ds then [] else kidOf l ck := by
  induction ds generalizing l with
  | nil => simp
  | cons d r ih =>
    simp only [List.foldl_cons, List.mem_cons]
    rw [ih (wf_applyDelI h d), kidOf_applyDelI h]
    by_cases h1 : ck ∈ r
    · simp [h1]
    · by_cases h2 : ck = d <;> simp [h1, h2]

theorem phase3_main (ds : List Bytes) (hn : ds.Nodup) {l : Logical} (h : l.WF) (k : Bytes) :
    OMap.get k (ds.foldl applyDelI l).main =
      if k ∈ ds ∧ kidOf l k = [] ∧ Logical.isChildKey k = false then none
      else OMap.get k l.main := by
  induction ds generalizing l with
  | nil => simp
  | cons d r ih =>
    simp only [List.nodup_cons] at hn
    simp only [List.foldl_cons, List.mem_cons]
    rw [ih hn.2 (wf_applyDelI h d), kidOf_applyDelI h, main_applyDelI h]
    by_cases hkd : k = d
    · subst hkd
      have : k ∉ r := hn.1
      simp [this]
    · by_cases hkr : k ∈ r <;> simp [hkd, hkr]

/-! ### iteration orders of a diff -/

structure DiffWF (d : Diff) : Prop where
  ups : NodupKeys d.c.upserts
  dels : d.c.deletes.Nodup
  kids : NodupKeys d.kids
  kidUps : ∀ e ∈ d.kids, NodupKeys e.2.upserts

/-- `o` lists the three maps of `d` (and the two maps of every child change set) in some order -/
structure IsOrderOf (d : Diff) (o : ApplyOrder) : Prop where
  ups : o.ups.Perm d.c.upserts
  dels : o.dels.Perm d.c.deletes
  kidKeys : (o.kids.map (·.1)).Perm (d.kids.map (·.1))
  kid : ∀ e ∈ o.kids, ∃ c, KMap.find e.1 d.kids = some c ∧ e.2.1.Perm c.upserts ∧ e.2.2.Perm c.deletes

theorem find_none_iff {α : Type} (k : Bytes) (l : List (Bytes × α)) :
    KMap.find k l = none ↔ k ∉ l.map (·.1) := by
  induction l with
  | nil => simp [KMap.find]
  | cons e r ih =>
    simp only [KMap.find, List.map_cons, List.mem_cons, not_or]
    by_cases h : e.1 = k
    · simp [h]
    · have : ¬ k = e.1 := fun x => h x.symm
      simp [h, this, ih]

theorem find_of_mem_nodup {α : Type} {k : Bytes} {v : α} {l : List (Bytes × α)}
    (hn : NodupKeys l) (h : (k, v) ∈ l) : KMap.find k l = some v := by
  induction l with
  | nil => simp at h
  | cons e r ih =>
    simp only [KMap.find]
    rcases List.mem_cons.mp h with h | h
    · subst h; simp
    · have hne : e.1 ≠ k := by
        intro he
        have := hn.head_not_mem
        rw [he, ih hn.tail h] at this
        cases this
      simp [hne, ih hn.tail h]

theorem nodupKeys_of_perm {α : Type} {l1 l2 : List (Bytes × α)} (h : l1.Perm l2) (hn : NodupKeys l2) :
    NodupKeys l1 := by
  unfold NodupKeys at *
  exact (List.Perm.nodup_iff (h.map (fun x => x.1))).mpr hn

/-- the ascending order used by the executable model is one of the orders -/
theorem sortedOrder_isOrder {d : Diff} (hd : DiffWF d) : IsOrderOf d d.sortedOrder := by
  refine ⟨List.Perm.refl _, List.Perm.refl _, ?_, ?_⟩
  · simp only [Diff.sortedOrder, List.map_map]
    exact List.Perm.of_eq (List.map_congr_left (fun _ _ => rfl))
  · intro e he
    simp only [Diff.sortedOrder, List.mem_map] at he
    obtain ⟨x, hx, rfl⟩ := he
    exact ⟨x.2, find_of_mem_nodup hd.kids hx, List.Perm.refl _, List.Perm.refl _⟩

section order
variable {d : Diff} {o1 o2 : ApplyOrder}

theorem order_phase1 (hd : DiffWF d) (h1 : IsOrderOf d o1) (h2 : IsOrderOf d o2) {b : Logical}
    (hb : b.WF) : o1.ups.foldl putMain b = o2.ups.foldl putMain b := by
  apply Logical.ext (phase1_wf _ hb) (phase1_wf _ hb)
  · intro k
    rw [phase1_get _ (nodupKeys_of_perm h1.ups hd.ups), phase1_get _ (nodupKeys_of_perm h2.ups hd.ups)]
    rw [find_perm h1.ups (nodupKeys_of_perm h1.ups hd.ups), find_perm h2.ups (nodupKeys_of_perm h2.ups hd.ups)]
  · intro ck k
    unfold kidOf
    rw [phase1_kids, phase1_kids]

theorem order_kids_nodup (hd : DiffWF d) (h1 : IsOrderOf d o1) :
    NodupKeys o1.kids ∧ ∀ e ∈ o1.kids, NodupKeys e.2.1 := by
  constructor
  · unfold NodupKeys
    exact (List.Perm.nodup_iff h1.kidKeys).mpr hd.kids
  · intro e he
    obtain ⟨c, hc, hu, _⟩ := h1.kid e he
    exact nodupKeys_of_perm hu (hd.kidUps (e.1, c) (KMap.find_some_mem hc))

/-- the lookup of a child change set in an order, in terms of the diff -/
theorem order_find_kid (hd : DiffWF d) (h1 : IsOrderOf d o1) (ck : Bytes) :
    match KMap.find ck o1.kids, KMap.find ck d.kids with
    | some e, some c => e.1.Perm c.upserts ∧ e.2.Perm c.deletes
    | none, none => True
    | _, _ => False := by
  cases hf : KMap.find ck o1.kids with
  | some e =>
    have hm := KMap.find_some_mem hf
    obtain ⟨c, hc, hu, hdl⟩ := h1.kid (ck, e) hm
    simp only [] at hc
    rw [hc]
    exact ⟨hu, hdl⟩
  | none =>
    have : ck ∉ d.kids.map (·.1) := by
      intro hx
      exact (find_none_iff ck o1.kids).mp hf ((List.Perm.mem_iff h1.kidKeys).mpr hx)
    rw [(find_none_iff ck d.kids).mpr this]
    trivial

theorem order_phase2 (hd : DiffWF d) (h1 : IsOrderOf d o1) (h2 : IsOrderOf d o2) {l : Logical}
    (hl : l.WF) : o1.kids.foldl applyKidI l = o2.kids.foldl applyKidI l := by
  apply Logical.ext (phase2_wf _ hl) (phase2_wf _ hl)
  · intro k; rw [phase2_main, phase2_main]
  · intro ck k
    obtain ⟨n1, u1⟩ := order_kids_nodup hd h1
    obtain ⟨n2, u2⟩ := order_kids_nodup hd h2
    rw [phase2_get _ n1 u1, phase2_get _ n2 u2]
    have a1 := order_find_kid hd h1 ck
    have a2 := order_find_kid hd h2 ck
    cases hf1 : KMap.find ck o1.kids with
    | none =>
      rw [hf1] at a1
      cases hfd : KMap.find ck d.kids with
      | some c => rw [hfd] at a1; exact absurd a1 id
      | none =>
        rw [hfd] at a2
        cases hf2 : KMap.find ck o2.kids with
        | none => rfl
        | some e2 => rw [hf2] at a2; exact absurd a2 id
    | some e1 =>
      rw [hf1] at a1
      cases hfd : KMap.find ck d.kids with
      | none => rw [hfd] at a1; exact absurd a1 id
      | some c =>
        rw [hfd] at a1 a2
        cases hf2 : KMap.find ck o2.kids with
        | none => rw [hf2] at a2; exact absurd a2 id
        | some e2 =>
          rw [hf2] at a2
          simp only []
          have hc := hd.kidUps (ck, c) (KMap.find_some_mem hfd)
          have m1 : k ∈ e1.2 ↔ k ∈ c.deletes := List.Perm.mem_iff a1.2
          have m2 : k ∈ e2.2 ↔ k ∈ c.deletes := List.Perm.mem_iff a2.2
          rw [find_perm a1.1 (nodupKeys_of_perm a1.1 hc), find_perm a2.1 (nodupKeys_of_perm a2.1 hc)]
          by_cases hk : k ∈ c.deletes
          · simp [m1.mpr hk, m2.mpr hk]
          · have n1 : k ∉ e1.2 := fun x => hk (m1.mp x)
            have n2 : k ∉ e2.2 := fun x => hk (m2.mp x)
            simp [n1, n2]

theorem order_phase3 (hd : DiffWF d) (h1 : IsOrderOf d o1) (h2 : IsOrderOf d o2) {l : Logical}
    (hl : l.WF) : o1.dels.foldl applyDelI l = o2.dels.foldl applyDelI l := by
  have n1 : o1.dels.Nodup := (List.Perm.nodup_iff h1.dels).mpr hd.dels
  have n2 : o2.dels.Nodup := (List.Perm.nodup_iff h2.dels).mpr hd.dels
  have m : ∀ k, k ∈ o1.dels ↔ k ∈ o2.dels := fun k =>
    (List.Perm.mem_iff h1.dels).trans (List.Perm.mem_iff h2.dels).symm
  apply Logical.ext (phase3_wf _ hl) (phase3_wf _ hl)
  · intro k
    rw [phase3_main _ n1 hl, phase3_main _ n2 hl]
    by_cases hk : k ∈ o1.dels
    · simp [hk, (m k).mp hk]
    · have : k ∉ o2.dels := fun x => hk ((m k).mpr x)
      simp [hk, this]
  · intro ck k
    rw [phase3_kid _ hl, phase3_kid _ hl]
    by_cases hk : ck ∈ o1.dels
    · simp [hk, (m ck).mp hk]
    · have : ck ∉ o2.dels := fun x => hk ((m ck).mpr x)
      simp [hk, this]

/-- `applyToTrie` over a correct trie gives the same trie for every iteration order -/
theorem applyIdeal_order (hd : DiffWF d) (h1 : IsOrderOf d o1) (h2 : IsOrderOf d o2) {b : Logical}
    (hb : b.WF) : applyIdeal b o1 = applyIdeal b o2 := by
  unfold applyIdeal
  rw [order_phase1 hd h1 h2 hb, order_phase2 hd h1 h2 (phase1_wf _ hb),
    order_phase3 hd h1 h2 (phase2_wf _ (phase1_wf _ hb))]

end order

end Gossamer.C08
