/-
C22 library: a concrete execution over TWO authority sets (non-vacuity of `sets_safe`): set 0 runs the execution of
Lib/C22Example up to the finalisation of block 1, which is the handover block; in set 1 voter 0 prevotes block 3, a
descendant of the handover block.
-/
import Gossamer.Lib.C22Sets
import Gossamer.Lib.C22Example
namespace Gossamer.C22
namespace Example

/-- both sets have the voters of the example; block 1 hands over from set 0, block 3 from every later set -/
def P : SetParams (Fin 4) := ⟨fun _ => vs, fun s => if s = 0 then 1 else 3⟩

theorem P_limits : ∀ s, fork4.le (P.limit s) (P.limit (s + 1)) = true := by
  intro s
  cases s with
  | zero => decide
  | succ k => simp [P]; decide

/-- in set 0 every vote of the example is for the handover block itself -/
theorem guard0 (σ : MState (Fin 4)) (t : State (Fin 4)) (h : ∀ m ∈ t.sent, m.block = (1 : Fin 4)) :
    ∀ m, m ∈ t.sent → m ∉ (σ 0).sent → (P.vs 0).honest m.voter → m.stage = .precommit →
      okVote P fork4 σ 0 m.block := by
  intro m hm _ _ _
  rw [h m hm]
  exact ⟨fun h => h, fun p hp => by omega⟩

def μ0 : MState (Fin 4) := fun _ => State.init
def μ1 : MState (Fin 4) := upd μ0 0 t1
def μ2 : MState (Fin 4) := upd μ1 0 t2
def μ3 : MState (Fin 4) := upd μ2 0 t3
def μ4 : MState (Fin 4) := upd μ3 0 t4
def μ5 : MState (Fin 4) := upd μ4 0 t5
def μ6 : MState (Fin 4) := upd μ5 0 t6
def μ7 : MState (Fin 4) := upd μ6 0 t7
def μ8 : MState (Fin 4) := upd μ7 0 t8
def μ9 : MState (Fin 4) := upd μ8 0 t9
def μ10 : MState (Fin 4) := upd μ9 0 t10
def μ11 : MState (Fin 4) := upd μ10 0 t11
def μ12 : MState (Fin 4) := upd μ11 0 t12
def μ13 : MState (Fin 4) := upd μ12 0 t13
def u1 : State (Fin 4) := cast State.init ⟨0, .prevote, 0, 3⟩
def μ14 : MState (Fin 4) := upd μ13 1 u1

theorem q0 : MReachable P fork4 μ0 := .init
theorem q1 : MReachable P fork4 μ1 :=
  .step _ _ q0 (MStep.mk μ0 0 t1 st1 (guard0 μ0 t1 (by decide)))
theorem q2 : MReachable P fork4 μ2 :=
  .step _ _ q1 (MStep.mk μ1 0 t2 st2 (guard0 μ1 t2 (by decide)))
theorem q3 : MReachable P fork4 μ3 :=
  .step _ _ q2 (MStep.mk μ2 0 t3 st3 (guard0 μ2 t3 (by decide)))
theorem q4 : MReachable P fork4 μ4 :=
  .step _ _ q3 (MStep.mk μ3 0 t4 st4 (guard0 μ3 t4 (by decide)))
theorem q5 : MReachable P fork4 μ5 :=
  .step _ _ q4 (MStep.mk μ4 0 t5 st5 (guard0 μ4 t5 (by decide)))
theorem q6 : MReachable P fork4 μ6 :=
  .step _ _ q5 (MStep.mk μ5 0 t6 st6 (guard0 μ5 t6 (by decide)))
theorem q7 : MReachable P fork4 μ7 :=
  .step _ _ q6 (MStep.mk μ6 0 t7 st7 (guard0 μ6 t7 (by decide)))
theorem q8 : MReachable P fork4 μ8 :=
  .step _ _ q7 (MStep.mk μ7 0 t8 st8 (guard0 μ7 t8 (by decide)))
theorem q9 : MReachable P fork4 μ9 :=
  .step _ _ q8 (MStep.mk μ8 0 t9 st9 (guard0 μ8 t9 (by decide)))
theorem q10 : MReachable P fork4 μ10 :=
  .step _ _ q9 (MStep.mk μ9 0 t10 st10 (guard0 μ9 t10 (by decide)))
theorem q11 : MReachable P fork4 μ11 :=
  .step _ _ q10 (MStep.mk μ10 0 t11 st11 (guard0 μ10 t11 (by decide)))
theorem q12 : MReachable P fork4 μ12 :=
  .step _ _ q11 (MStep.mk μ11 0 t12 st12 (guard0 μ11 t12 (by decide)))
theorem q13 : MReachable P fork4 μ13 :=
  .step _ _ q12 (MStep.mk μ12 0 t13 st13 (guard0 μ12 t13 (by decide)))
theorem q14 : MReachable P fork4 μ14 :=
  .step _ _ q13 (MStep.mk μ13 1 u1
    (Step.prevote State.init 0 3 (by decide) (by decide) (by intro q hq; simp [State.init] at hq))
    (by
      intro m hm _ _ _
      have hb : m.block = (3 : Fin 4) := by
        have : ∀ m ∈ u1.sent, m.block = (3 : Fin 4) := by decide
        exact this m hm
      rw [hb]
      refine ⟨fun _ => by decide, ?_⟩
      intro p hp
      have : p = 0 := by omega
      subst this
      exact ⟨by decide, 0, by decide⟩))

end Example

end Gossamer.C22
