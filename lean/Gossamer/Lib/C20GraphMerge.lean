/-
C20 layer (b), proofs: the inner loop of `ghostFindMergePoint` (`mergePass`): with a monotone condition it
finds a block whose merged vote meets the condition, and when it finds none no merged block does.
-/
import Gossamer.Lib.C20GraphSim
namespace Gossamer.C20

/-- the condition keeps holding when votes are added -/
def MonoCond (cond : Mask → Bool) : Prop := ∀ m m', cond m = true → cond (m ||| m') = true

/-- `mergePass` with the per-block accumulator as a function -/
def mergePassF (cond : Mask → Bool) (height : Nat) : List Entry → (Nat → Option Mask) → Option Nat
  | [], _ => none
  | d :: ds, bl =>
    match d.ancestorBlock height with
    | none => mergePassF cond height ds bl
    | some blk =>
      match bl blk with
      | some m =>
        if cond (m ||| d.cum) then some blk
        else mergePassF cond height ds (fun x => if x = blk then some (m ||| d.cum) else bl x)
      | none => mergePassF cond height ds (fun x => if x = blk then some d.cum else bl x)

def BlocksCorr (blocks : List (Nat × Mask)) (bl : Nat → Option Mask) : Prop :=
  ∀ x, blocks.find? (fun p => p.1 == x) = (bl x).map (fun m => (x, m))

theorem mergePass_eq (cond : Mask → Bool) (height : Nat) : ∀ (ds : List Entry) (blocks : List (Nat × Mask))
    (bl : Nat → Option Mask), BlocksCorr blocks bl →
    mergePass cond height ds blocks = mergePassF cond height ds bl := by
  intro ds
  induction ds with
  | nil => intro _ _ _; rfl
  | cons d ds ih =>
    intro blocks bl hc
    simp only [mergePass, mergePassF]
    cases hab : d.ancestorBlock height with
    | none => exact ih blocks bl hc
    | some blk =>
      simp only
      have hblk := hc blk
      cases hb : bl blk with
      | none =>
        rw [hb] at hblk
        simp only [Option.map_none] at hblk
        rw [hblk]
        simp only
        apply ih
        intro x
        rw [List.find?_append]
        by_cases hx : x = blk
        · subst hx; rw [hblk]; simp
        · have h1 : ((blk == x) = false) := by simpa using (fun e => hx e.symm)
          rw [hc x]
          simp [hx, List.find?_cons, h1]
      | some m =>
        rw [hb] at hblk
        simp only [Option.map_some] at hblk
        rw [hblk]
        simp only
        by_cases hcm : cond (m ||| d.cum) = true
        · simp [hcm]
        · simp only [hcm, Bool.false_eq_true, if_false]
          apply ih
          intro x
          rw [List.find?_map]
          have hfun : ((fun p : Nat × Mask => p.1 == x) ∘ fun p => if (p.1 == blk) = true then (p.1, m ||| d.cum) else p)
              = (fun p : Nat × Mask => p.1 == x) := by
            funext p
            simp only [Function.comp]
            split <;> rfl
          rw [hfun, hc x]
          by_cases hx : x = blk
          · subst hx; rw [hb]; simp
          · cases hbx : bl x with
            | none => simp [hx, hbx]
            | some mx =>
              have : ¬ (x == blk) = true := by simpa using hx
              simp [hx, this, hbx]

/-- OR of the cumulative votes of a list of entries, on top of `m0` -/
def orCum (l : List Entry) (m0 : Mask) : Mask := l.foldl (fun m e => m ||| e.cum) m0

theorem orCum_testBit (q : Nat) : ∀ (l : List Entry) (m0 : Mask),
    (orCum l m0).testBit q = (m0.testBit q || l.any (fun e => e.cum.testBit q)) := by
  intro l
  induction l with
  | nil => intro m0; simp [orCum]
  | cons e l ih =>
    intro m0
    simp only [orCum, List.foldl_cons, List.any_cons]
    have := ih (m0 ||| e.cum)
    simp only [orCum] at this
    rw [this, Nat.testBit_or, Bool.or_assoc]

theorem orCum_super (l : List Entry) (m0 : Mask) : orCum l m0 = m0 ||| orCum l m0 := by
  apply Nat.eq_of_testBit_eq
  intro q
  rw [Nat.testBit_or, orCum_testBit]
  cases m0.testBit q <;> simp

/-- the entries whose ancestor block at `height` is `X` -/
def thru (height X : Nat) (l : List Entry) : List Entry :=
  l.filter (fun e => e.ancestorBlock height == some X)

theorem thru_cons_eq {height X : Nat} {d : Entry} (h : d.ancestorBlock height = some X) (l : List Entry) :
    thru height X (d :: l) = d :: thru height X l := by simp [thru, h]

theorem thru_cons_ne {height X : Nat} {d : Entry} (h : d.ancestorBlock height ≠ some X) (l : List Entry) :
    thru height X (d :: l) = thru height X l := by
  have : (d.ancestorBlock height == some X) = false := by simpa using h
  simp [thru, this]

/-- a block returned by the pass has a merged vote (what was accumulated before, plus the votes of all its
entries) that meets the condition -/
theorem mergePassF_some {cond : Mask → Bool} (hm : MonoCond cond) (height : Nat) :
    ∀ (ds : List Entry) (bl : Nat → Option Mask) (X : Nat), mergePassF cond height ds bl = some X →
    cond (orCum (thru height X ds) ((bl X).getD 0)) = true := by
  intro ds
  induction ds with
  | nil => intro bl X h; simp [mergePassF] at h
  | cons d ds ih =>
    intro bl X h
    simp only [mergePassF] at h
    cases hab : d.ancestorBlock height with
    | none =>
      rw [hab] at h
      rw [thru_cons_ne (by rw [hab]; simp)]
      exact ih bl X h
    | some blk =>
      rw [hab] at h
      simp only at h
      cases hb : bl blk with
      | none =>
        rw [hb] at h
        simp only at h
        have := ih _ X h
        by_cases hx : X = blk
        · subst hx
          rw [thru_cons_eq hab, hb]
          simp only [if_true, Option.getD_some] at this
          simp only [Option.getD_none, orCum, List.foldl_cons, Nat.zero_or]
          exact this
        · rw [thru_cons_ne (by rw [hab]; simpa using (fun e => hx e.symm))]
          simpa [hx] using this
      | some m =>
        rw [hb] at h
        simp only at h
        by_cases hcm : cond (m ||| d.cum) = true
        · simp only [hcm, if_true] at h
          have hX : blk = X := Option.some.inj h
          subst hX
          rw [thru_cons_eq hab, hb]
          simp only [Option.getD_some, orCum, List.foldl_cons]
          have hs := orCum_super (thru height blk ds) (m ||| d.cum)
          simp only [orCum] at hs
          rw [hs]
          exact hm _ _ hcm
        · simp only [hcm, Bool.false_eq_true, if_false] at h
          have := ih _ X h
          by_cases hx : X = blk
          · subst hx
            rw [thru_cons_eq hab, hb]
            simp only [if_true, Option.getD_some] at this
            simp only [Option.getD_some, orCum, List.foldl_cons]
            exact this
          · rw [thru_cons_ne (by rw [hab]; simpa using (fun e => hx e.symm))]
            simpa [hx] using this

/-- when the pass finds nothing, no block that was merged at least once meets the condition -/
theorem mergePassF_none {cond : Mask → Bool} (height : Nat) :
    ∀ (ds : List Entry) (bl : Nat → Option Mask), mergePassF cond height ds bl = none →
    ∀ X, ((bl X).isSome = true ∧ thru height X ds ≠ []) ∨ 2 ≤ (thru height X ds).length →
      cond (orCum (thru height X ds) ((bl X).getD 0)) = false := by
  intro ds
  induction ds with
  | nil =>
    intro bl _ X hX
    rcases hX with ⟨_, h2⟩ | h2
    · exact absurd rfl h2
    · simp [thru] at h2
  | cons d ds ih =>
    intro bl h X hX
    simp only [mergePassF] at h
    cases hab : d.ancestorBlock height with
    | none =>
      rw [hab] at h
      have hne : thru height X (d :: ds) = thru height X ds := thru_cons_ne (by rw [hab]; simp) ds
      rw [hne] at hX ⊢
      exact ih bl h X hX
    | some blk =>
      rw [hab] at h
      simp only at h
      by_cases hx : X = blk
      · subst hx
        rw [thru_cons_eq hab] at hX ⊢
        cases hb : bl X with
        | none =>
          rw [hb] at h
          simp only at h
          simp only [Option.getD_none, orCum, List.foldl_cons, Nat.zero_or]
          have hlen : thru height X ds ≠ [] := by
            rcases hX with ⟨h1, _⟩ | h2
            · rw [hb] at h1; cases h1
            · intro e; rw [e] at h2; simp at h2
          have := ih _ h X (Or.inl ⟨by simp, hlen⟩)
          simpa [orCum] using this
        | some m =>
          rw [hb] at h
          simp only at h
          by_cases hcm : cond (m ||| d.cum) = true
          · simp [hcm] at h
          · simp only [hcm, Bool.false_eq_true, if_false] at h
            simp only [Option.getD_some, orCum, List.foldl_cons]
            by_cases hlen : thru height X ds = []
            · rw [hlen]; simpa using hcm
            · have := ih _ h X (Or.inl ⟨by simp, hlen⟩)
              simpa [orCum] using this
      · have hne : thru height X (d :: ds) = thru height X ds :=
          thru_cons_ne (by rw [hab]; simpa using (fun e => hx e.symm)) ds
        rw [hne] at hX ⊢
        cases hb : bl blk with
        | none =>
          rw [hb] at h
          simp only at h
          have := ih _ h X (by simpa [hx] using hX)
          simpa [hx] using this
        | some m =>
          rw [hb] at h
          simp only at h
          by_cases hcm : cond (m ||| d.cum) = true
          · simp [hcm] at h
          · simp only [hcm, Bool.false_eq_true, if_false] at h
            have := ih _ h X (by simpa [hx] using hX)
            simpa [hx] using this

end Gossamer.C20
