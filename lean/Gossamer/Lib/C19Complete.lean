/-
C19 helper lemmas for the completeness direction: the import loop never takes its early return,
its `curW` is the weight of the voters seen, and weight counting under the fault assumption.
-/
import Gossamer.Model.C19
import Gossamer.Lib.C19Chain
import Gossamer.Lib.C19Voters
import Gossamer.Lib.C19Tracker
import Gossamer.Lib.C19Verify
namespace Gossamer.C19

/-! ### result of `addVote` -/

def resOf (p : Pre) : Option Tracked → AddRes
  | none => .fresh
  | some t => match t.second with
    | none => if sameVS t.first p then .dup else .equiv
    | some s => if sameVS t.first p || sameVS s p then .dup else .ignored

theorem addVote_res (tr : List Tracked) (p : Pre) : (addVote tr p).2 = resOf p (findT tr p.id) := by
  induction tr with
  | nil => simp [addVote, findT, resOf]
  | cons t ts ih =>
    simp only [addVote]
    by_cases ht : t.id = p.id
    · simp only [ht, if_true, findT, resOf]
      cases hsec : t.second with
      | none => simp only; split <;> rfl
      | some s => simp only; split <;> rfl
    · simp only [ht, if_false, findT]
      exact ih

theorem findT_mem {tr : List Tracked} {id : Nat} {t : Tracked} (h : findT tr id = some t) : t ∈ tr := by
  induction tr with
  | nil => simp [findT] at h
  | cons a ts ih =>
    simp only [findT] at h
    split at h
    · simp only [Option.some.injEq] at h; simp [h]
    · simp [ih h]

/-! ### the early return of the import loop is dead code -/

/-- every id in `eqd` already has an equivocated entry -/
def EqdInv (s : Imp) : Prop := ∀ id ∈ s.eqd, ∃ t, findT s.tr id = some t ∧ t.second.isSome = true

theorem eqdInv_step {vs : VoterSet} {s : Imp} (hi : EqdInv s) (hs : s.stop = false) (p : Pre) :
    EqdInv (importStep vs s p) ∧ (importStep vs s p).stop = false := by
  have keep : ∀ id, (∃ t, findT s.tr id = some t ∧ t.second.isSome = true) →
      ∃ t, findT (addVote s.tr p).1 id = some t ∧ t.second.isSome = true := by
    intro id ⟨t, ht, hsome⟩
    rw [findT_addVote]
    by_cases hid : id = p.id
    · subst hid
      simp only [if_true, ht, upd]
      cases hsec : t.second with
      | none => rw [hsec] at hsome; simp at hsome
      | some q => exact ⟨t, rfl, by simp [hsec]⟩
    · simp only [hid, if_false]; exact ⟨t, ht, hsome⟩
  unfold importStep
  simp only [hs, Bool.false_eq_true, if_false]
  have hres := addVote_res s.tr p
  cases hr : addVote s.tr p with
  | mk tr r =>
    rw [hr] at hres
    simp only at hres
    have htr : (addVote s.tr p).1 = tr := by rw [hr]
    cases r with
    | fresh =>
      refine ⟨?_, rfl⟩
      intro id hid; rw [← htr]; exact keep id (hi id hid)
    | dup =>
      refine ⟨?_, rfl⟩
      intro id hid; rw [← htr]; exact keep id (hi id hid)
    | ignored =>
      refine ⟨?_, rfl⟩
      intro id hid; rw [← htr]; exact keep id (hi id hid)
    | equiv =>
      -- the signer had a single vote, so it is not in `eqd`
      have hnot : p.id ∉ s.eqd := by
        intro hmem
        obtain ⟨t, ht, hsome⟩ := hi p.id hmem
        rw [ht] at hres
        simp only [resOf] at hres
        cases hsec : t.second with
        | none => rw [hsec] at hsome; simp at hsome
        | some q => rw [hsec] at hres; simp only at hres; split at hres <;> cases hres
      simp only [hnot, if_false]
      refine ⟨?_, trivial⟩
      intro id hid
      rw [← htr]
      rcases List.mem_cons.1 hid with rfl | hid
      · rw [findT_addVote]
        simp only [if_true]
        cases hf : findT s.tr p.id with
        | none => rw [hf] at hres; simp [resOf] at hres
        | some t =>
          rw [hf] at hres
          simp only [resOf] at hres
          cases hsec : t.second with
          | none =>
            rw [hsec] at hres
            simp only at hres
            split at hres
            · cases hres
            · rename_i hne
              refine ⟨⟨t.id, t.first, some p⟩, ?_, rfl⟩
              simp [upd, hsec, hne]
          | some q => rw [hsec] at hres; simp only at hres; split at hres <;> cases hres
      · exact keep id (hi id hid)

theorem import_never_stops (vs : VoterSet) : ∀ (l : List Pre) (s : Imp), EqdInv s → s.stop = false →
    (l.foldl (importStep vs) s).stop = false := by
  intro l
  induction l with
  | nil => intro s _ h; simpa using h
  | cons p l ih =>
    intro s hi hs
    obtain ⟨a, b⟩ := eqdInv_step (vs := vs) hi hs p
    simpa using ih _ a b

theorem import_init_never_stops (vs : VoterSet) (l : List Pre) :
    (l.foldl (importStep vs) Imp.init).stop = false :=
  import_never_stops vs l Imp.init (by intro id h; simp [Imp.init] at h) rfl

/-! ### `curW` is the weight of the voters that have an entry -/

theorem wsum_or_single {f : Nat → Bool} {id : Nat} (hf : f id = false) (l : List IdW) :
    wsum (fun i => f i || decide (i = id)) l = wsum f l + wsum (fun i => decide (i = id)) l := by
  induction l with
  | nil => rfl
  | cons a l ih =>
    obtain ⟨i, w⟩ := a
    simp only [wsum, ih]
    by_cases h : i = id
    · subst h; simp [hf]; omega
    · simp [h]; omega

theorem wsum_single_sorted {m : List IdW} (hs : Sorted m) (id : Nat) :
    wsum (fun i => decide (i = id)) m = (lookupW m id).getD 0 := by
  induction m with
  | nil => rfl
  | cons a m ih =>
    obtain ⟨i, x⟩ := a
    unfold Sorted at hs ih
    rw [List.pairwise_cons] at hs
    simp only [wsum, lookupW]
    by_cases h : i = id
    · subst h
      have hn : lookupW m i = none :=
        lookupW_none_of_lt (fun e he => by have := hs.1 e he; simpa using this)
      have := ih hs.2
      rw [hn] at this
      simp [this]
    · simp [h, ih hs.2]

/-- invariant: `curW` equals the summed weight of the voters with a tracker entry -/
def CurWInv (vs : VoterSet) (s : Imp) : Prop :=
  s.curW = wsum (fun id => (findT s.tr id).isSome) vs.voters

theorem curWInv_step {vs : VoterSet} (hsorted : Sorted vs.voters) {s : Imp} (hi : CurWInv vs s)
    (hs : s.stop = false) (p : Pre) : CurWInv vs (importStep vs s p) := by
  have hres := addVote_res s.tr p
  have hfind : ∀ id, (findT (addVote s.tr p).1 id).isSome =
      ((findT s.tr id).isSome || decide (id = p.id)) := by
    intro id
    rw [findT_addVote]
    by_cases hid : id = p.id
    · simp [hid]
    · simp [hid]
  unfold CurWInv at hi ⊢
  unfold importStep
  simp only [hs, Bool.false_eq_true, if_false]
  cases hr : addVote s.tr p with
  | mk tr r =>
    rw [hr] at hres
    simp only at hres
    have htr : (addVote s.tr p).1 = tr := by rw [hr]
    -- when the signer already has an entry the set of ids with an entry is unchanged
    have same : (findT s.tr p.id).isSome = true →
        wsum (fun id => (findT tr id).isSome) vs.voters = wsum (fun id => (findT s.tr id).isSome) vs.voters := by
      intro hsome
      apply wsum_congr
      intro id
      rw [← htr, hfind]
      by_cases hid : id = p.id
      · subst hid; simp [hsome]
      · simp [hid]
    cases hf : findT s.tr p.id with
    | none =>
      rw [hf] at hres
      simp only [resOf] at hres
      subst hres
      simp only
      rw [hi]
      have : wsum (fun id => (findT tr id).isSome) vs.voters =
          wsum (fun id => (findT s.tr id).isSome || decide (id = p.id)) vs.voters :=
        wsum_congr (fun id => by rw [← htr, hfind]) _
      rw [this, wsum_or_single (by simp [hf]), wsum_single_sorted hsorted]
      rfl
    | some t =>
      have hsome : (findT s.tr p.id).isSome = true := by simp [hf]
      rw [hf] at hres
      simp only [resOf] at hres
      cases r with
      | fresh =>
        cases hsec : t.second with
        | none => rw [hsec] at hres; simp only at hres; split at hres <;> cases hres
        | some q => rw [hsec] at hres; simp only at hres; split at hres <;> cases hres
      | dup => simp only; rw [hi, same hsome]
      | ignored => simp only; rw [hi, same hsome]
      | equiv => simp only; split <;> (simp only; rw [hi, same hsome])

theorem curWInv_fold (vs : VoterSet) (hsorted : Sorted vs.voters) : ∀ (l : List Pre) (s : Imp),
    CurWInv vs s → EqdInv s → s.stop = false → CurWInv vs (l.foldl (importStep vs) s) := by
  intro l
  induction l with
  | nil => intro s h _ _; simpa using h
  | cons p l ih =>
    intro s hc hi hs
    obtain ⟨a, b⟩ := eqdInv_step (vs := vs) hi hs p
    simpa using ih _ (curWInv_step hsorted hc hs p) a b

theorem curW_init (vs : VoterSet) (hsorted : Sorted vs.voters) (l : List Pre) :
    (l.foldl (importStep vs) Imp.init).curW =
      wsum (fun id => (findT (l.foldl (importStep vs) Imp.init).tr id).isSome) vs.voters := by
  have : CurWInv vs Imp.init := by
    unfold CurWInv
    have : wsum (fun id => (findT Imp.init.tr id).isSome) vs.voters = wsum (fun _ => false) vs.voters :=
      wsum_congr (fun id => by simp [Imp.init, findT]) _
    rw [this]
    have h0 : ∀ m : List IdW, wsum (fun _ => false) m = 0 := by
      intro m; induction m with
      | nil => rfl
      | cons a m ih => obtain ⟨i, w⟩ := a; simp [wsum, ih]
    rw [h0]; rfl
  exact curWInv_fold vs hsorted l Imp.init this (by intro id h; simp [Imp.init] at h) rfl

/-! ### counting -/

theorem wsum_add_le {f g h : Nat → Bool} (hfg : ∀ i, f i = true → g i = true → h i = true) (l : List IdW) :
    wsum f l + wsum g l ≤ rawTotal l + wsum h l := by
  induction l with
  | nil => simp [wsum, rawTotal]
  | cons a l ih =>
    obtain ⟨i, w⟩ := a
    simp only [wsum, rawTotal]
    have := hfg i
    cases hf : f i <;> cases hg : g i <;> cases hh : h i <;> simp_all <;> omega

theorem threshold_gt (t : Nat) (h : 0 < t) : 2 * t < 3 * threshold t ∧ threshold t ≤ t ∧ t - threshold t < threshold t := by
  unfold threshold; omega

end Gossamer.C19
