/-
C06, step 12: `commit` on a consistent handle tree: the encoding of the root is the spec encoding
of the trie it stands for, and after the batch is applied the database holds that trie.
-/
import Gossamer.Lib.TrieDBSimR
import Gossamer.Lib.TrieDBRows
set_option linter.unusedSectionVars false
set_option linter.unusedSimpArgs false
namespace Gossamer.C06
open Gossamer Gossamer.Trie

/-! ### what `commit` writes -/

def valW (H : Bytes → Bytes) (full : Nibs) : DVal → List WOp
  | .fresh data => [.put (rowKey full (H data)) data]
  | _ => []

def optValW (H : Bytes → Bytes) (full : Nibs) : Option DVal → List WOp
  | some dv => valW H full dv
  | none => []

/-- the rows written for the new in-memory node behind `hd` at `pre` (not its own row) -/
def wOf (ver : Ver) (H : Bytes → Bytes) (T0 : Trie) : Hd → Nibs → List WOp
  | .leaf none pk dv, pre => valW H (pre ++ pk) dv
  | .branch none pk dvo cs, pre =>
    optValW H (pre ++ pk) dvo ++
      (List.finRange 16).flatMap (fun i =>
        if (cs i).isMem && (cs i).cached.isNone then
          wOf ver H T0 (cs i) (pre ++ pk ++ [i]) ++
            (if 32 ≤ (encodeNode ver H (abs T0 (cs i) (pre ++ pk ++ [i]))).length then
              [.put (rowKey (pre ++ pk ++ [i]) (H (encodeNode ver H (abs T0 (cs i) (pre ++ pk ++ [i])))))
                (encodeNode ver H (abs T0 (cs i) (pre ++ pk ++ [i])))]
             else [])
        else [])
  | _, _ => []

theorem encValue_ok (ver : Ver) (H : Bytes → Bytes) (T0 : Trie) (fk : Nibs) (dv : DVal)
    (hv : OkV ver H T0 fk dv) :
    encValue H fk dv =
      ((mustBeHashed ver (absV T0 fk dv),
        if mustBeHashed ver (absV T0 fk dv) then H (absV T0 fk dv) else absV T0 fk dv), valW H fk dv) := by
  cases dv with
  | inl x => simp only [OkV] at hv; simp [encValue, absV, hv, valW]
  | fresh x => simp only [OkV] at hv; simp [encValue, absV, hv, valW]
  | ref h =>
    obtain ⟨v, hl, hm, rfl⟩ := hv
    simp [encValue, absV, hl, hm, valW]

theorem encOptValue_ok (ver : Ver) (H : Bytes → Bytes) (T0 : Trie) (fk : Nibs) (dvo : Option DVal)
    (hv : ∀ dv, dvo = some dv → OkV ver H T0 fk dv) :
    encOptValue H fk dvo =
      ((dvo.map (absV T0 fk)).map (fun x => (mustBeHashed ver x, if mustBeHashed ver x then H x else x)),
        optValW H fk dvo) := by
  cases dvo with
  | none => rfl
  | some dv => simp [encOptValue, encValue_ok ver H T0 fk dv (hv dv rfl), optValW]

/-- reference and rows of child `c` at `q`, given that a new in-memory child encodes as the spec
    says -/
theorem kidRef_ok (ver : Ver) (H : Bytes → Bytes) (T0 : Trie) (c : Hd) (q : Nibs) (hq : q ≠ [])
    (hok : Ok ver H T0 c q)
    (hrec : c.isMem = true → c.cached = none →
      encNew H c q = some (encodeNode ver H (abs T0 c q), wOf ver H T0 c q)) :
    kidRef H q c (encNew H c q) =
      ((kidOf ver H (abs T0 c q) []).1,
        if c.isMem && c.cached.isNone then
          wOf ver H T0 c q ++
            (if 32 ≤ (encodeNode ver H (abs T0 c q)).length then
              [.put (rowKey q (H (encodeNode ver H (abs T0 c q)))) (encodeNode ver H (abs T0 c q))]
             else [])
        else []) := by
  have hmv : ∀ t : Trie, t ≠ nil → 32 ≤ (encodeNode ver H t).length →
      (kidOf ver H t []).1 = some (H (encodeNode ver H t)) := by
    intro t ht hl
    have : ¬ (encodeNode ver H t).length < 32 := by omega
    simp [kidOf, isNil_false_of_ne ht, merkleValue, this]
  cases c with
  | none => rfl
  | empty cc => exact hok.elim
  | persisted h =>
    obtain ⟨hne, hh, hl⟩ := hok
    simp only [kidRef, abs, Hd.isMem, Bool.false_and, Bool.false_eq_true, if_false]
    rw [hmv _ hne (hl hq), hh]
  | leaf cc pk dv =>
    cases cc with
    | some h =>
      obtain ⟨⟨hne, hh, hl⟩, habs, _⟩ := hok.2 h rfl
      simp only [kidRef, Hd.cached, Hd.isMem, Option.isNone_some, Bool.and_false, Bool.false_eq_true,
        if_false]
      simp only [abs] at habs ⊢
      rw [habs, hmv _ hne (hl hq), hh]
    | none =>
      rw [hrec rfl rfl]
      have hnn : (abs T0 (.leaf none pk dv) q).isNil = false := rfl
      simp only [kidRef, Hd.cached, Hd.isMem, Option.isNone_none, Bool.and_self, if_true, hashLen,
        kidOf, hnn, Bool.false_eq_true, if_false, merkleValue]
      generalize encodeNode ver H (abs T0 (.leaf none pk dv) q) = E
      by_cases hl : E.length < 32
      · have : ¬ 32 ≤ E.length := by omega
        simp [this, hl]
      · have h32 : 32 ≤ E.length := by omega
        simp [h32, hl]
  | branch cc pk dvo cs =>
    cases cc with
    | some h =>
      obtain ⟨⟨hne, hh, hl⟩, habs, _⟩ := hok.2.2 h rfl
      simp only [kidRef, Hd.cached, Hd.isMem, Option.isNone_some, Bool.and_false, Bool.false_eq_true,
        if_false]
      rw [habs, hmv _ hne (hl hq), hh]
    | none =>
      rw [hrec rfl rfl]
      have hnn : (abs T0 (.branch none pk dvo cs) q).isNil = false := rfl
      simp only [kidRef, Hd.cached, Hd.isMem, Option.isNone_none, Bool.and_self, if_true, hashLen,
        kidOf, hnn, Bool.false_eq_true, if_false, merkleValue]
      generalize encodeNode ver H (abs T0 (.branch none pk dvo cs) q) = E
      by_cases hl : E.length < 32
      · have : ¬ 32 ≤ E.length := by omega
        simp [this, hl]
      · have h32 : 32 ≤ E.length := by omega
        simp [h32, hl]

/-- the encoding that `commit` computes for a new in-memory node is the spec encoding of the trie the
    node stands for, and it writes the rows `wOf` -/
theorem encNew_ok (ver : Ver) (H : Bytes → Bytes) (T0 : Trie) (hd : Hd) :
    ∀ pre, Ok ver H T0 hd pre → hd.isMem = true → hd.cached = none →
      encNew H hd pre = some (encodeNode ver H (abs T0 hd pre), wOf ver H T0 hd pre) := by
  induction hd with
  | none => intro _ _ hm; simp [Hd.isMem] at hm
  | persisted h => intro _ _ hm; simp [Hd.isMem] at hm
  | empty c => intro _ _ hm; simp [Hd.isMem] at hm
  | leaf c pk dv =>
    intro pre hok _ hc
    simp only [Hd.cached] at hc
    subst hc
    simp only [encNew, encValue_ok ver H T0 _ dv hok.1, abs, wOf, encLeaf_eq]
  | branch c pk dvo cs ih =>
    intro pre hok _ hc
    simp only [Hd.cached] at hc
    subst hc
    obtain ⟨hvals, hkids, _⟩ := hok
    have hkid : ∀ i, kidRef H (pre ++ pk ++ [i]) (cs i) (encNew H (cs i) (pre ++ pk ++ [i])) = _ :=
      fun i => kidRef_ok ver H T0 (cs i) (pre ++ pk ++ [i]) (by simp) (hkids i)
        (fun hm hc => ih i _ (hkids i) hm hc)
    simp only [encNew, hkid, encOptValue_ok ver H T0 _ dvo hvals, abs, wOf]
    rw [encBranch_eq]

/-! ### the database after the batch holds the new trie -/

def contentOf (ver : Ver) (H : Bytes → Bytes) (T0 : Trie) : Pos → Bytes
  | .node p => encodeNode ver H (subAt T0 p)
  | .val k => (lookup T0 k).getD []

/-- every row of a position at or below `q` can be read -/
def ReadBelow (ver : Ver) (H : Bytes → Bytes) (T0 : Trie) (get : Bytes → Option Bytes) (q : Nibs) : Prop :=
  ∀ pos, ValidPos ver H T0 pos → Below q pos →
    get (rowOf ver H T0 pos) = some (contentOf ver H T0 pos)

theorem read_value {ver : Ver} {H : Bytes → Bytes} {T0 : Trie} {get : Bytes → Option Bytes}
    {q fk : Nibs} {v : Bytes} (hr : ∀ pos, ValidPos ver H T0 pos → pos = .val fk →
      get (rowOf ver H T0 pos) = some (contentOf ver H T0 pos))
    (hl : lookup T0 fk = some v) (hm : mustBeHashed ver v = true) :
    get (rowKey fk (H v)) = some v := by
  have := hr (.val fk) ⟨v, hl, hm⟩ rfl
  simpa [rowOf, contentOf, hl] using this

/-- an untouched subtree of `T0` is stored wherever all its rows can be read -/
theorem stored_sub (ver : Ver) (H : Bytes → Bytes) (T0 : Trie) (get : Bytes → Option Bytes) (t : Trie) :
    ∀ q, subAt T0 q = t → ReadBelow ver H T0 get q → Stored ver H get t q := by
  induction t with
  | nil => intro _ _ _; trivial
  | leaf pk v =>
    intro q hq hr hm
    have hl : lookup T0 (q ++ pk) = some v := by
      rw [lookup_subAt T0 q pk (by rw [hq]; simp), hq]; simp
    exact read_value (q := q) (fun pos hv hp => hr pos hv (by rw [hp]; exact List.prefix_append _ _)) hl hm
  | branch pk v cs ih =>
    intro q hq hr
    refine ⟨?_, fun i => ⟨?_, ?_⟩⟩
    · intro x hx hm
      have hl : lookup T0 (q ++ pk) = some x := by
        rw [lookup_subAt T0 q pk (by rw [hq]; simp), hq, lookup_branch_self, hx]
      exact read_value (q := q) (fun pos hv hp => hr pos hv (by rw [hp]; exact List.prefix_append _ _)) hl hm
    · intro hn hl
      have hs := subAt_step hq i
      have hne : cs i ≠ nil := fun x => by rw [x] at hn; simp [Trie.isNil] at hn
      have := hr (.node (q ++ pk ++ [i])) ⟨by rw [hs]; exact hne, fun _ => by rw [hs]; exact hl⟩
        (by rw [List.append_assoc]; exact List.prefix_append _ _)
      simp only [rowOf, contentOf, hs] at this
      exact this
    · refine ih i _ (subAt_step hq i) ?_
      intro pos hv hb
      exact hr pos hv (below_trans (by rw [List.append_assoc]; exact List.prefix_append _ _) hb)

theorem wOf_cached (ver : Ver) (H : Bytes → Bytes) (T0 : Trie) (hd : Hd) (pre : Nibs)
    (h : (hd.isMem && hd.cached.isNone) = false) : wOf ver H T0 hd pre = [] := by
  cases hd with
  | leaf c pk dv => cases c <;> simp_all [Hd.isMem, Hd.cached, wOf]
  | branch c pk dvo cs => cases c <;> simp_all [Hd.isMem, Hd.cached, wOf]
  | none => rfl
  | persisted _ => rfl
  | empty _ => rfl

/-- after the batch: if every row that `commit` writes for `hd` can be read, and every row of a
    position that `hd` still refers to can be read, then the trie `hd` stands for is stored -/
theorem stored_commit (ver : Ver) (H : Bytes → Bytes) (T0 : Trie) (get : Bytes → Option Bytes)
    (hd : Hd) : ∀ pre, Ok ver H T0 hd pre →
      (∀ k x, WOp.put k x ∈ wOf ver H T0 hd pre → get k = some x) →
      (∀ pos, ValidPos ver H T0 pos → Needs hd pre pos →
        get (rowOf ver H T0 pos) = some (contentOf ver H T0 pos)) →
      Stored ver H get (abs T0 hd pre) pre := by
  induction hd with
  | none => intro _ _ _ _; trivial
  | empty c => intro _ hok; exact hok.elim
  | persisted h =>
    intro pre hok _ hn
    exact stored_sub ver H T0 get _ pre rfl (fun pos hv hb => hn pos hv hb)
  | leaf c pk dv =>
    intro pre hok hw hn
    cases c with
    | some h =>
      obtain ⟨_, habs, _⟩ := hok.2 h rfl
      show Stored ver H get (leaf pk (absV T0 (pre ++ pk) dv)) pre
      rw [habs]
      exact stored_sub ver H T0 get _ pre rfl (fun pos hv hb => hn pos hv (Or.inl ⟨rfl, hb⟩))
    | none =>
      intro hm
      change mustBeHashed ver (absV T0 (pre ++ pk) dv) = true at hm
      show get (rowKey (pre ++ pk) (H (absV T0 (pre ++ pk) dv))) = some (absV T0 (pre ++ pk) dv)
      cases dv with
      | inl x => have := hok.1; simp only [OkV] at this; simp [absV, this] at hm
      | fresh x => exact hw _ _ (by simp [wOf, valW, absV])
      | ref h =>
        obtain ⟨v, hl, hmv, rfl⟩ := hok.1
        have : absV T0 (pre ++ pk) (.ref (H v)) = v := by simp [absV, hl]
        rw [this]
        exact read_value (q := pre) (fun pos hv hp => hn pos hv (Or.inr ⟨rfl, hp⟩)) hl hmv
  | branch c pk dvo cs ih =>
    intro pre hok hw hn
    obtain ⟨hvals, hkids, hcl⟩ := hok
    cases c with
    | some h =>
      obtain ⟨_, habs, _⟩ := hcl h rfl
      rw [habs]
      exact stored_sub ver H T0 get _ pre rfl (fun pos hv hb => hn pos hv (Or.inl ⟨rfl, hb⟩))
    | none =>
      simp only [abs]
      refine ⟨?_, fun i => ⟨?_, ?_⟩⟩
      · intro x hx hm
        cases dvo with
        | none => cases hx
        | some dv =>
          simp only [Option.map_some, Option.some.injEq] at hx
          subst hx
          cases dv with
          | inl y => have := hvals _ rfl; simp only [OkV] at this; simp [absV, this] at hm
          | fresh y => exact hw _ _ (by simp [wOf, optValW, valW, absV])
          | ref h =>
            obtain ⟨v, hl, hmv, rfl⟩ := hvals _ rfl
            have : absV T0 (pre ++ pk) (.ref (H v)) = v := by simp [absV, hl]
            rw [this]
            exact read_value (q := pre)
              (fun pos hv hp => hn pos hv (Or.inr (Or.inl ⟨rfl, hp⟩))) hl hmv
      · -- the row of child `i`
        intro hnil hl
        dsimp only at hnil hl ⊢
        by_cases hnew : ((cs i).isMem && (cs i).cached.isNone) = true
        · apply hw
          simp only [wOf, List.mem_append, List.mem_flatMap]
          right
          refine ⟨i, List.mem_finRange i, ?_⟩
          rw [if_pos hnew, if_pos hl]
          simp
        · -- a persisted or cached child: the row of its position
          have hne : abs T0 (cs i) (pre ++ pk ++ [i]) ≠ nil := fun x => by
            rw [x] at hnil; simp [Trie.isNil] at hnil
          have hold : HashAt ver H T0 (pre ++ pk ++ [i]) (H (encodeNode ver H (subAt T0 (pre ++ pk ++ [i])))) ∧
              abs T0 (cs i) (pre ++ pk ++ [i]) = subAt T0 (pre ++ pk ++ [i]) ∧
              Needs (cs i) (pre ++ pk ++ [i]) (.node (pre ++ pk ++ [i])) := by
            have hk := hkids i
            cases hci : cs i with
            | none => rw [hci] at hne; exact absurd rfl hne
            | empty cc => rw [hci] at hk; exact hk.elim
            | persisted h' =>
              rw [hci] at hk
              exact ⟨⟨hk.1, rfl, hk.2.2⟩, rfl, List.prefix_refl _⟩
            | leaf cc cpk cdv =>
              rw [hci] at hk hnew
              cases cc with
              | none => simp [Hd.isMem, Hd.cached] at hnew
              | some h' =>
                obtain ⟨hh, ha, _⟩ := hk.2 h' rfl
                exact ⟨⟨hh.1, rfl, hh.2.2⟩, ha, Or.inl ⟨rfl, List.prefix_refl _⟩⟩
            | branch cc cpk cdv ccs =>
              rw [hci] at hk hnew
              cases cc with
              | none => simp [Hd.isMem, Hd.cached] at hnew
              | some h' =>
                obtain ⟨hh, ha, _⟩ := hk.2.2 h' rfl
                exact ⟨⟨hh.1, rfl, hh.2.2⟩, ha, Or.inl ⟨rfl, List.prefix_refl _⟩⟩
          obtain ⟨hh, ha, hnd⟩ := hold
          have := hn (.node (pre ++ pk ++ [i])) (validPos_of_hashAt hh) (Or.inr (Or.inr ⟨i, hnd⟩))
          rw [ha]
          simp only [rowOf, contentOf] at this
          exact this
      · refine ih i _ (hkids i) ?_ ?_
        · intro k x hk
          by_cases hnew : ((cs i).isMem && (cs i).cached.isNone) = true
          · apply hw
            simp only [wOf, List.mem_append, List.mem_flatMap]
            right
            refine ⟨i, List.mem_finRange i, ?_⟩
            rw [if_pos hnew]
            exact List.mem_append_left _ hk
          · have hnew' : ((cs i).isMem && (cs i).cached.isNone) = false := by
              cases h : ((cs i).isMem && (cs i).cached.isNone)
              · rfl
              · exact absurd h hnew
            rw [wOf_cached ver H T0 _ _ hnew'] at hk
            cases hk
        · intro pos hv hnp
          exact hn pos hv (Or.inr (Or.inr ⟨i, hnp⟩))

end Gossamer.C06
