/-
C06, step 12: `commit` on a consistent handle tree: the encoding of the root is the spec encoding
of the trie it stands for, and after the batch is applied the database holds that trie.
-/
import Gossamer.Lib.TrieDBSimR
import Gossamer.Lib.TrieDBRows
set_option linter.unusedSectionVars false
set_option linter.unusedSimpArgs false
namespace Gossamer.C06
open Gossamer Gossamer.Trie

/-! ### what `commit` writes -/

def valW (H : Bytes → Bytes) (full : Nibs) : DVal → List WOp
  | .fresh data => [.put (rowKey full (H data)) data]
  | _ => []

def optValW (H : Bytes → Bytes) (full : Nibs) : Option DVal → List WOp
  | some dv => valW H full dv
  | none => []

/-- the rows written for the new in-memory node behind `hd` at `pre` (not its own row) -/
def wOf (ver : Ver) (H : Bytes → Bytes) (T0 : Trie) : Hd → Nibs → List WOp
  | .leaf none pk dv, pre => valW H (pre ++ pk) dv
  | .branch none pk dvo cs, pre =>
    optValW H (pre ++ pk) dvo ++
      (List.finRange 16).flatMap (fun i =>
        if (cs i).isMem && (cs i).cached.isNone then
          wOf ver H T0 (cs i) (pre ++ pk ++ [i]) ++
            (if 32 ≤ (encodeNode ver H (abs T0 (cs i) (pre ++ pk ++ [i]))).length then
              [.put (rowKey (pre ++ pk ++ [i]) (H (encodeNode ver H (abs T0 (cs i) (pre ++ pk ++ [i])))))
                (encodeNode ver H (abs T0 (cs i) (pre ++ pk ++ [i])))]
             else [])
        else [])
  | _, _ => []

theorem encValue_ok (ver : Ver) (H : Bytes → Bytes) (T0 : Trie) (fk : Nibs) (dv : DVal)
    (hv : OkV ver H T0 fk dv) :
    encValue H fk dv =
      ((mustBeHashed ver (absV T0 fk dv),
        if mustBeHashed ver (absV T0 fk dv) then H (absV T0 fk dv) else absV T0 fk dv), valW H fk dv) := by
  cases dv with
  | inl x => simp only [OkV] at hv; simp [encValue, absV, hv, valW]
  | fresh x => simp only [OkV] at hv; simp [encValue, absV, hv, valW]
  | ref h =>
    obtain ⟨v, hl, hm, rfl⟩ := hv
    simp [encValue, absV, hl, hm, valW]

theorem encOptValue_ok (ver : Ver) (H : Bytes → Bytes) (T0 : Trie) (fk : Nibs) (dvo : Option DVal)
    (hv : ∀ dv, dvo = some dv → OkV ver H T0 fk dv) :
    encOptValue H fk dvo =
      ((dvo.map (absV T0 fk)).map (fun x => (mustBeHashed ver x, if mustBeHashed ver x then H x else x)),
        optValW H fk dvo) := by
  cases dvo with
  | none => rfl
  | some dv => simp [encOptValue, encValue_ok ver H T0 fk dv (hv dv rfl), optValW]

/-- reference and rows of child `c` at `q`, given that a new in-memory child encodes as the spec
    says -/
theorem kidRef_ok (ver : Ver) (H : Bytes → Bytes) (T0 : Trie) (c : Hd) (q : Nibs) (hq : q ≠ [])
    (hok : Ok ver H T0 c q)
    (hrec : c.isMem = true → c.cached = none →
      encNew H c q = some (encodeNode ver H (abs T0 c q), wOf ver H T0 c q)) :
    kidRef H q c (encNew H c q) =
      ((kidOf ver H (abs T0 c q) []).1,
        if c.isMem && c.cached.isNone then
          wOf ver H T0 c q ++
            (if 32 ≤ (encodeNode ver H (abs T0 c q)).length then
              [.put (rowKey q (H (encodeNode ver H (abs T0 c q)))) (encodeNode ver H (abs T0 c q))]
             else [])
        else []) := by
  have hmv : ∀ t : Trie, t ≠ nil → 32 ≤ (encodeNode ver H t).length →
      (kidOf ver H t []).1 = some (H (encodeNode ver H t)) := by
    intro t ht hl
    have : ¬ (encodeNode ver H t).length < 32 := by omega
    simp [kidOf, isNil_false_of_ne ht, merkleValue, this]
  cases c with
  | none => rfl
  | empty cc => exact hok.elim
  | persisted h =>
    obtain ⟨hne, hh, hl⟩ := hok
    simp only [kidRef, abs, Hd.isMem, Bool.false_and, Bool.false_eq_true, if_false]
    rw [hmv _ hne (hl hq), hh]
  | leaf cc pk dv =>
    cases cc with
    | some h =>
      obtain ⟨⟨hne, hh, hl⟩, habs, _⟩ := hok.2 h rfl
      simp only [kidRef, Hd.cached, Hd.isMem, Option.isNone_some, Bool.and_false, Bool.false_eq_true,
        if_false]
      simp only [abs] at habs ⊢
      rw [habs, hmv _ hne (hl hq), hh]
    | none =>
      rw [hrec rfl rfl]
      have hnn : (abs T0 (.leaf none pk dv) q).isNil = false := rfl
      simp only [kidRef, Hd.cached, Hd.isMem, Option.isNone_none, Bool.and_self, if_true, hashLen,
        kidOf, hnn, Bool.false_eq_true, if_false, merkleValue]
      generalize encodeNode ver H (abs T0 (.leaf none pk dv) q) = E
      by_cases hl : E.length < 32
      · have : ¬ 32 ≤ E.length := by omega
        simp [this, hl]
      · have h32 : 32 ≤ E.length := by omega
        simp [h32, hl]
  | branch cc pk dvo cs =>
    cases cc with
    | some h =>
      obtain ⟨⟨hne, hh, hl⟩, habs, _⟩ := hok.2.2 h rfl
      simp only [kidRef, Hd.cached, Hd.isMem, Option.isNone_some, Bool.and_false, Bool.false_eq_true,
        if_false]
      rw [habs, hmv _ hne (hl hq), hh]
    | none =>
      rw [hrec rfl rfl]
      have hnn : (abs T0 (.branch none pk dvo cs) q).isNil = false := rfl
      simp only [kidRef, Hd.cached, Hd.isMem, Option.isNone_none, Bool.and_self, if_true, hashLen,
        kidOf, hnn, Bool.false_eq_true, if_false, merkleValue]
      generalize encodeNode ver H (abs T0 (.branch none pk dvo cs) q) = E
      by_cases hl : E.length < 32
      · have : ¬ 32 ≤ E.length := by omega
        simp [this, hl]
      · have h32 : 32 ≤ E.length := by omega
        simp [h32, hl]

/-- the encoding that `commit` computes for a new in-memory node is the spec encoding of the trie the
    node stands for, and it writes the rows `wOf` -/
theorem encNew_ok (ver : Ver) (H : Bytes → Bytes) (T0 : Trie) (hd : Hd) :
    ∀ pre, Ok ver H T0 hd pre → hd.isMem = true → hd.cached = none →
      encNew H hd pre = some (encodeNode ver H (abs T0 hd pre), wOf ver H T0 hd pre) := by
  induction hd with
  | none => intro _ _ hm; simp [Hd.isMem] at hm
  | persisted h => intro _ _ hm; simp [Hd.isMem] at hm
  | empty c => intro _ _ hm; simp [Hd.isMem] at hm
  | leaf c pk dv =>
    intro pre hok _ hc
    simp only [Hd.cached] at hc
    subst hc
    simp only [encNew, encValue_ok ver H T0 _ dv hok.1, abs, wOf, encLeaf_eq]
  | branch c pk dvo cs ih =>
    intro pre hok _ hc
    simp only [Hd.cached] at hc
    subst hc
    obtain ⟨hvals, hkids, _⟩ := hok
    have hkid : ∀ i, kidRef H (pre ++ pk ++ [i]) (cs i) (encNew H (cs i) (pre ++ pk ++ [i])) = _ :=
      fun i => kidRef_ok ver H T0 (cs i) (pre ++ pk ++ [i]) (by simp) (hkids i)
        (fun hm hc => ih i _ (hkids i) hm hc)
    simp only [encNew, hkid, encOptValue_ok ver H T0 _ dvo hvals, abs, wOf]
    rw [encBranch_eq]

end Gossamer.C06
