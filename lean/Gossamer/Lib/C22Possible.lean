/-
C22 library: the computed test `possibleW` (weight for the block + everybody who has not voted + as many
of the voters against it as may still turn out to be equivocators) is COMPLETE for the semantic notion
`possible`: whenever some extension of the received votes with tolerable equivocation gives the block a
supermajority, the computed test says so.  Hence a voter that derives its estimate from `possibleW`
(finality-grandpa's `Round.estimate`, the driver's rule check) satisfies `closable`.
-/
import Gossamer.Lib.C22Votes
namespace Gossamer.C22
set_option linter.unusedSectionVars false

theorem wsum_or_le (w : Nat → Nat) (p q : Nat → Bool) (l : List Nat) :
    wsum w (fun v => p v || q v) l ≤ wsum w p l + wsum w q l := by
  have := wsum_or_and w p q l
  omega

theorem wsum_le_add3 (w : Nat → Nat) (p a b c : Nat → Bool) (l : List Nat)
    (h : ∀ v ∈ l, p v = true → a v = true ∨ b v = true ∨ c v = true) :
    wsum w p l ≤ wsum w a l + wsum w b l + wsum w c l := by
  have h1 : wsum w p l ≤ wsum w (fun v => (a v || b v) || c v) l := by
    apply wsum_mono
    intro v hv hp
    rcases h v hv hp with h | h | h <;> simp [h]
  have h2 := wsum_or_le w (fun v => a v || b v) c l
  have h3 := wsum_or_le w a b l
  omega

section
variable {B : Type} [DecidableEq B]

theorem voted_of_supports (O : BlockOrder B) (S : Votes B) (x : B) (v : Nat)
    (h : supports O S x v = true) : voted S v = true := by
  rw [supports_iff] at h
  rcases h with ⟨b, hb, _⟩ | h
  · exact (voted_iff S v).mpr ⟨b, hb⟩
  · have ⟨b, _, hb, _, _⟩ := (equivocates_iff S v).mp h
    exact (voted_iff S v).mpr ⟨b, hb⟩

theorem supports_of_equivocates (O : BlockOrder B) (S : Votes B) (x : B) (v : Nat)
    (h : equivocates S v = true) : supports O S x v = true :=
  (supports_iff O S x v).mpr (Or.inr h)

/-- completeness of the computed test -/
theorem possibleW_of_possible (vs : Voters) (O : BlockOrder B) (S : Votes B) (x : B)
    (h : possible vs O S x) : possibleW vs O S x = true := by
  have ⟨T, hsub, heq, hsup⟩ := h
  let c : Nat → Bool := fun v => (voted S v && !supports O S x v) && (equivocates T v && !equivocates S v)
  -- who supports x in T: supporters in S, voters that had not voted in S, or new equivocators
  have hA : ∀ v ∈ vs.ids, supports O T x v = true →
      supports O S x v = true ∨ (!voted S v) = true ∨ c v = true := by
    intro v _ hT
    cases hf : supports O S x v with
    | true => left; rfl
    | false =>
      right
      cases hv : voted S v with
      | false => left; rfl
      | true =>
        right
        have heS : equivocates S v = false := by
          cases he : equivocates S v with
          | false => rfl
          | true => rw [supports_of_equivocates O S x v he] at hf; exact absurd hf (by simp)
        have ⟨b, hb⟩ := (voted_iff S v).mp hv
        have hnb : ¬ O.le x b = true := by
          intro hle
          have : supports O S x v = true := (supports_iff O S x v).mpr (Or.inl ⟨b, hb, hle⟩)
          rw [hf] at this; exact absurd this (by simp)
        have heT : equivocates T v = true := by
          rcases (supports_iff O T x v).mp hT with ⟨b', hb', hle'⟩ | he
          · refine (equivocates_iff T v).mpr ⟨b, b', hsub _ hb, hb', ?_⟩
            intro hbb; rw [hbb] at hnb; exact hnb hle'
          · exact he
        simp [c, hv, hf, heT, heS]
  have h1 := wsum_le_add3 vs.w (supports O T x) (supports O S x) (fun v => !voted S v) c vs.ids hA
  -- everybody who has not voted
  have h2 : vs.total = vs.weight (voted S) + vs.weight (fun v => !voted S v) := by
    have := wsum_split vs.w (fun _ => true) (voted S) vs.ids
    simpa [Voters.total, Voters.weight] using this
  -- the new equivocators are voters against x …
  have h3 : vs.weight (voted S) =
      vs.weight (supports O S x) + vs.weight (fun v => voted S v && !supports O S x v) := by
    have hs := wsum_split vs.w (voted S) (supports O S x) vs.ids
    have hc : wsum vs.w (fun v => voted S v && supports O S x v) vs.ids
        = wsum vs.w (supports O S x) vs.ids := by
      apply wsum_congr
      intro v _
      cases hf : supports O S x v with
      | false => simp
      | true => simp [voted_of_supports O S x v hf]
    unfold Voters.weight
    omega
  have h4 : vs.weight c ≤ vs.weight (fun v => voted S v && !supports O S x v) :=
    vs.weight_mono _ _ (fun v _ hv => by simp [c] at hv; simp [hv.1])
  -- … and equivocate in T but not in S
  have h5 : vs.weight (equivocates T) =
      vs.weight (equivocates S) + vs.weight (fun v => equivocates T v && !equivocates S v) := by
    have hs := wsum_split vs.w (equivocates T) (equivocates S) vs.ids
    have hc : wsum vs.w (fun v => equivocates T v && equivocates S v) vs.ids
        = wsum vs.w (equivocates S) vs.ids := by
      apply wsum_congr
      intro v _
      cases he : equivocates S v with
      | false => simp
      | true => simp [equivocates_mono hsub v he]
    unfold Voters.weight
    omega
  have h6 : vs.weight c ≤ vs.weight (fun v => equivocates T v && !equivocates S v) :=
    vs.weight_mono _ _ (fun v _ hv => by simp [c] at hv; simp [hv.2])
  have hsup' : 2 * vs.total < 3 * vs.weight (supports O T x) := hsup
  simp only [possibleW, decide_eq_true_eq]
  unfold supermajority tally
  unfold Voters.weight at *
  omega

/-- a voter that computes its estimate with `possibleW` satisfies the rule of the abstract protocol -/
theorem closable_of_computed (vs : Voters) (O : BlockOrder B) (view : List (Msg B)) (r : Nat) (g e : B)
    (hg : hasSuper vs O (votesOf view r .prevote) g) (he : O.le e g = true)
    (hall : ∀ x : B, O.comparable x g → possibleW vs O (votesOf view r .precommit) x = true →
      O.le x e = true) : closable vs O view r g e :=
  ⟨hg, he, fun x hc hp => hall x hc (possibleW_of_possible vs O _ x hp)⟩

/-- the computed test is downward closed: it suffices to examine the children of the GHOST -/
theorem possible_down (vs : Voters) (O : BlockOrder B) (S : Votes B) {x x' : B}
    (hle : O.le x' x = true) (h : possible vs O S x) : possible vs O S x' := by
  have ⟨T, hsub, heq, hsup⟩ := h
  exact ⟨T, hsub, heq, hasSuper_down vs O T hle hsup⟩

end

end Gossamer.C22
