/-
C22 library: the invariant of the asynchronous system — every reachable state satisfies `Inv`
(in particular `Hist` for the votes ever cast).
-/
import Gossamer.Lib.C22Safety
namespace Gossamer.C22
set_option linter.unusedSectionVars false

section
variable {B : Type} [DecidableEq B]

structure Inv (vs : Voters) (O : BlockOrder B) (s : State B) : Prop where
  hist : Hist vs O s.sent
  view_sub : ∀ v m, m ∈ s.view v → m ∈ s.sent
  net_sub : ∀ m, m ∈ s.net → m ∈ s.sent
  est_ok : ∀ v r e, s.est v r = some e →
    ∃ (view : List (Msg B)) (g : B), (∀ x, x ∈ view → x ∈ s.sent) ∧ closable vs O view r g e
  fin_ok : ∀ v b, b ∈ s.fin v → ∃ r, hasSuper vs O (votesOf s.sent r .precommit) b

variable {vs : Voters} {O : BlockOrder B}

theorem Inv.init : Inv vs O (State.init : State B) where
  hist := ⟨fun _ _ h => by simp [State.init] at h, fun _ h => by simp [State.init] at h,
           fun _ h => by simp [State.init] at h⟩
  view_sub := fun _ _ h => by simp [State.init] at h
  net_sub := fun _ h => by simp [State.init] at h
  est_ok := fun _ _ _ h => by simp [State.init] at h
  fin_ok := fun _ _ h => by simp [State.init] at h

/-- adding a vote to the history -/
theorem Hist.cons {sent : List (Msg B)} (H : Hist vs O sent) (m : Msg B)
    (ha : ∀ m', m' ∈ sent → vs.honest m.voter → m.voter = m'.voter → m.round = m'.round →
      m.stage = m'.stage → m.block = m'.block)
    (hb : vs.honest m.voter → ∀ q, q + 1 = m.round →
      ∃ (view : List (Msg B)) (g e : B), (∀ x, x ∈ view → x ∈ sent) ∧ closable vs O view q g e ∧
        O.le e m.block = true)
    (hc : vs.honest m.voter → m.stage = .precommit →
      ∃ view : List (Msg B), (∀ x, x ∈ view → x ∈ sent) ∧
        hasSuper vs O (votesOf view m.round .prevote) m.block) :
    Hist vs O (m :: sent) where
  hon_single := by
    intro m1 m2 h1 h2 hv hvv hr hs
    rcases List.mem_cons.mp h1 with e1 | h1'
    · rcases List.mem_cons.mp h2 with e2 | h2'
      · rw [e1, e2]
      · rw [e1] at hv hvv hr hs ⊢; exact ha m2 h2' hv hvv hr hs
    · rcases List.mem_cons.mp h2 with e2 | h2'
      · rw [e2] at hvv hr hs ⊢
        have hv' : vs.honest m.voter := by rw [← hvv]; exact hv
        exact (ha m1 h1' hv' hvv.symm hr.symm hs.symm).symm
      · exact H.hon_single m1 m2 h1' h2' hv hvv hr hs
  hon_ext := by
    intro m1 h1 hv q hq
    rcases List.mem_cons.mp h1 with e1 | h1
    · subst e1
      have ⟨view, g, e, hsub, hcl, hle⟩ := hb hv q hq
      exact ⟨view, g, e, fun x hx => List.mem_cons_of_mem _ (hsub x hx), hcl, hle⟩
    · have ⟨view, g, e, hsub, hcl, hle⟩ := H.hon_ext m1 h1 hv q hq
      exact ⟨view, g, e, fun x hx => List.mem_cons_of_mem _ (hsub x hx), hcl, hle⟩
  hon_pc := by
    intro m1 h1 hv hs
    rcases List.mem_cons.mp h1 with e1 | h1
    · subst e1
      have ⟨view, hsub, hsup⟩ := hc hv hs
      exact ⟨view, fun x hx => List.mem_cons_of_mem _ (hsub x hx), hsup⟩
    · have ⟨view, hsub, hsup⟩ := H.hon_pc m1 h1 hv hs
      exact ⟨view, fun x hx => List.mem_cons_of_mem _ (hsub x hx), hsup⟩

theorem est_ok_cons {s : State B} (I : Inv vs O s) (m : Msg B) :
    ∀ v r e, s.est v r = some e →
      ∃ (view : List (Msg B)) (g : B), (∀ x, x ∈ view → x ∈ m :: s.sent) ∧ closable vs O view r g e := by
  intro v r e h
  have ⟨view, g, hsub, hc⟩ := I.est_ok v r e h
  exact ⟨view, g, fun x hx => List.mem_cons_of_mem _ (hsub x hx), hc⟩

theorem fin_ok_cons {s : State B} (I : Inv vs O s) (m : Msg B) :
    ∀ v b, b ∈ s.fin v → ∃ r, hasSuper vs O (votesOf (m :: s.sent) r .precommit) b := by
  intro v b h
  have ⟨r, hr⟩ := I.fin_ok v b h
  exact ⟨r, hasSuper_mono vs O (votesOf_sub (fun x hx => List.mem_cons_of_mem _ hx) r .precommit) b hr⟩

/-- an honest voter casts a vote (prevote or precommit) -/
theorem Inv.cast {s : State B} (I : Inv vs O s) (m : Msg B) (_hv : vs.honest m.voter)
    (hfresh : ∀ m', m' ∈ s.sent → ¬ (m'.voter = m.voter ∧ m'.round = m.round ∧ m'.stage = m.stage))
    (hext : ∀ q, q + 1 = m.round → ∃ e, s.est m.voter q = some e ∧ O.le e m.block = true)
    (hpc : m.stage = .precommit →
      hasSuper vs O (votesOf (s.view m.voter) m.round .prevote) m.block) :
    Inv vs O (cast s m) where
  hist := by
    apply I.hist.cons m
    · intro m' hm' _ hvv hr hs
      exact absurd ⟨hvv.symm, hr.symm, hs.symm⟩ (hfresh m' hm')
    · intro _ q hq
      have ⟨e, he, hle⟩ := hext q hq
      have ⟨view, g, hsub, hc⟩ := I.est_ok _ _ _ he
      exact ⟨view, g, e, hsub, hc, hle⟩
    · intro _ hs
      exact ⟨s.view m.voter, I.view_sub m.voter, hpc hs⟩
  view_sub := by
    intro v x hx
    simp only [Gossamer.C22.cast, upd] at hx ⊢
    by_cases h : v = m.voter
    · rw [if_pos h] at hx
      rcases List.mem_cons.mp hx with e | hx
      · rw [e]; exact List.mem_cons_self
      · exact List.mem_cons_of_mem _ (I.view_sub _ _ hx)
    · rw [if_neg h] at hx
      exact List.mem_cons_of_mem _ (I.view_sub _ _ hx)
  net_sub := by
    intro x hx
    simp only [Gossamer.C22.cast] at hx ⊢
    rcases List.mem_cons.mp hx with e | hx
    · rw [e]; exact List.mem_cons_self
    · exact List.mem_cons_of_mem _ (I.net_sub _ hx)
  est_ok := est_ok_cons I m
  fin_ok := fin_ok_cons I m

theorem Inv.step {s t : State B} (I : Inv vs O s) (h : Step vs O s t) : Inv vs O t := by
  cases h with
  | byzCast m hb =>
    refine ⟨?_, ?_, ?_, est_ok_cons I m, fin_ok_cons I m⟩
    · apply I.hist.cons m
      · intro _ _ hv; rw [hv.2] at hb; exact absurd hb (by simp)
      · intro hv; rw [hv.2] at hb; exact absurd hb (by simp)
      · intro hv; rw [hv.2] at hb; exact absurd hb (by simp)
    · exact fun v x hx => List.mem_cons_of_mem _ (I.view_sub v x hx)
    · intro x hx
      rcases List.mem_cons.mp hx with e | hx
      · rw [e]; exact List.mem_cons_self
      · exact List.mem_cons_of_mem _ (I.net_sub _ hx)
  | drop i =>
    exact ⟨I.hist, I.view_sub, fun x hx => I.net_sub x (List.mem_of_mem_eraseIdx hx), I.est_ok, I.fin_ok⟩
  | dup m hm =>
    refine ⟨I.hist, I.view_sub, ?_, I.est_ok, I.fin_ok⟩
    intro x hx
    rcases List.mem_cons.mp hx with e | hx
    · rw [e]; exact I.net_sub _ hm
    · exact I.net_sub _ hx
  | reorder net' hp =>
    exact ⟨I.hist, I.view_sub, fun x hx => I.net_sub x (hp.mem_iff.mp hx), I.est_ok, I.fin_ok⟩
  | deliver m v hm =>
    refine ⟨I.hist, ?_, I.net_sub, I.est_ok, I.fin_ok⟩
    intro u x hx
    simp only [upd] at hx
    by_cases h : u = v
    · rw [if_pos h] at hx
      rcases List.mem_cons.mp hx with e | hx
      · rw [e]; exact I.net_sub _ hm
      · exact I.view_sub _ _ hx
    · rw [if_neg h] at hx; exact I.view_sub _ _ hx
  | prevote v b hv hfresh hext =>
    apply I.cast ⟨s.round v, .prevote, v, b⟩ hv
    · intro m' hm' hc; exact hfresh m' hm' hc
    · exact hext
    · intro hs; exact absurd hs (by simp)
  | precommit v b hv hfresh hsup hext =>
    apply I.cast ⟨s.round v, .precommit, v, b⟩ hv
    · intro m' hm' hc; exact hfresh m' hm' hc
    · exact hext
    · intro _; exact hsup
  | advance v g e hv hc =>
    refine ⟨I.hist, I.view_sub, I.net_sub, ?_, I.fin_ok⟩
    intro u r e' he
    simp only [upd] at he
    by_cases hu : u = v
    · rw [if_pos hu] at he
      simp only [upd] at he
      by_cases hr : r = s.round v
      · rw [if_pos hr] at he
        have : e = e' := by simpa using he
        subst this; subst hr
        exact ⟨s.view v, g, I.view_sub v, hc⟩
      · rw [if_neg hr] at he; exact I.est_ok v r e' he
    · rw [if_neg hu] at he; exact I.est_ok u r e' he
  | finalise v r b hv hsup =>
    refine ⟨I.hist, I.view_sub, I.net_sub, I.est_ok, ?_⟩
    intro u x hx
    simp only [upd] at hx
    by_cases hu : u = v
    · rw [if_pos hu] at hx
      rcases List.mem_cons.mp hx with e | hx
      · rw [e]
        exact ⟨r, hasSuper_mono vs O (votesOf_sub (I.view_sub v) r .precommit) b hsup⟩
      · exact I.fin_ok v x hx
    · rw [if_neg hu] at hx; exact I.fin_ok u x hx

theorem Reachable.inv {s : State B} (h : Reachable vs O s) : Inv vs O s := by
  induction h with
  | init => exact Inv.init
  | step s t _ hst ih => exact ih.step hst

end

end Gossamer.C22
