/-
C20: the round's memoised fields EQUAL the executable paper definitions of `C20Spec`
(`specGhost`, `specFinalized`, `specEstimate`, `specCompletable` – the functions the driver prints as `spec=`).
-/
import Gossamer.Lib.C20Rel
import Gossamer.Lib.C20Highest
namespace Gossamer.C20

variable {t : Tree} {ws : List Nat}

theorem specGhost_isGhost (h : t.WF) (h0 : 0 < total ws) (ops : List Op) (ph : Bool)
    (htol : tolerant ws ops ph = true) : IsGhost t ws ops ph (specGhost t ws ops ph) := by
  have := highest_top h (p := superm t ws ops ph)
    (fun b hb => superm_lt_size h h0 htol hb)
    (fun a b ha hb => superm_comparable h h0 htol ha hb)
  unfold specGhost
  cases hh : highest t (superm t ws ops ph) with
  | none => rw [hh] at this; exact this
  | some g => rw [hh] at this; exact this

theorem IsFinalized_unique (h : t.WF) {ops : List Op} {a b : Option Nat}
    (ha : IsFinalized t ws ops a) (hb : IsFinalized t ws ops b) : a = b := by
  cases a with
  | none =>
    cases b with
    | none => rfl
    | some y => have := ha y hb.1; rw [hb.2.1] at this; exact Bool.noConfusion this
  | some x =>
    cases b with
    | none => have := hb x ha.1; rw [ha.2.1] at this; exact Bool.noConfusion this
    | some y =>
      exact congrArg some (Tree.le_antisymm h (hb.2.2 x ha.1 ha.2.1) (ha.2.2 y hb.1 hb.2.1))

theorem specFinalized_isFinalized (h : t.WF) (h0 : 0 < total ws) (ops : List Op)
    (htol : tolerant ws ops false = true) : IsFinalized t ws ops (specFinalized t ws ops) := by
  have := highest_top h (p := fun b => superm t ws ops false b && superm t ws ops true b)
    (fun b hb => by
      simp only [Bool.and_eq_true] at hb
      exact superm_lt_size h h0 htol hb.1)
    (fun a b ha hb => by
      simp only [Bool.and_eq_true] at ha hb
      exact superm_comparable h h0 htol ha.1 hb.1)
  unfold specFinalized
  cases hh : highest t (fun b => superm t ws ops false b && superm t ws ops true b) with
  | none =>
    rw [hh] at this
    intro B hB
    have := this B
    simp only [hB, Bool.true_and] at this
    exact this
  | some F =>
    rw [hh] at this
    obtain ⟨hp, hall⟩ := this
    simp only [Bool.and_eq_true] at hp
    exact ⟨hp.1, hp.2, fun B h1 h2 => hall B (by simp [h1, h2])⟩

theorem IsEstimate_unique (h : t.WF) {ops : List Op} {g a b : Option Nat}
    (ha : IsEstimate t ws ops g a) (hb : IsEstimate t ws ops g b) : a = b := by
  cases g with
  | none =>
    simp only [IsEstimate] at ha hb
    rw [ha, hb]
  | some g =>
    cases a with
    | none =>
      cases b with
      | none => rfl
      | some y =>
        simp only [IsEstimate] at ha hb
        have := ha y hb.1; rw [hb.2.1] at this; exact Bool.noConfusion this
    | some x =>
      cases b with
      | none =>
        simp only [IsEstimate] at ha hb
        have := hb x ha.1; rw [ha.2.1] at this; exact Bool.noConfusion this
      | some y =>
        simp only [IsEstimate] at ha hb
        exact congrArg some (Tree.le_antisymm h (hb.2.2 x ha.1 ha.2.1) (ha.2.2 y hb.1 hb.2.1))

theorem specEstimate_isEstimate (h : t.WF) (h0 : 0 < total ws) (ops : List Op)
    (htol : tolerant ws ops false = true) :
    IsEstimate t ws ops (specGhost t ws ops false) (specEstimate t ws ops) := by
  have hg := specGhost_isGhost h h0 ops false htol
  unfold specEstimate
  cases hgh : specGhost t ws ops false with
  | none => simp [IsEstimate]
  | some g =>
    rw [hgh] at hg
    have hglt := superm_lt_size h h0 htol hg.1
    have := highest_top h (p := fun b => t.le b g && possible t ws ops true b)
      (fun b hb => by
        simp only [Bool.and_eq_true, Tree.le_iff] at hb
        have := Tree.mem_chain_le h _ _ hb.1
        omega)
      (fun a b ha hb => by
        simp only [Bool.and_eq_true, Tree.le_iff] at ha hb
        exact Tree.comparable h ha.1 hb.1)
    simp only
    cases hh : highest t (fun b => t.le b g && possible t ws ops true b) with
    | none =>
      rw [hh] at this
      simp only [IsEstimate]
      intro B hB
      have := this B
      simpa [Tree.le_iff.2 hB] using this
    | some E =>
      rw [hh] at this
      obtain ⟨hp, hall⟩ := this
      simp only [Bool.and_eq_true, Tree.le_iff] at hp
      simp only [IsEstimate]
      exact ⟨hp.1, hp.2, fun B h1 h2 => hall B (by simp [Tree.le_iff.2 h1, h2])⟩

/-- the relational completability is what `specCompletable` computes -/
theorem specCompletable_iff (t : Tree) (ws : List Nat) (ops : List Op) :
    specCompletable t ws ops = true ↔
      SpecCompletable t ws ops (specGhost t ws ops false) (specEstimate t ws ops) := by
  unfold specCompletable SpecCompletable
  cases hg : specGhost t ws ops false with
  | none =>
    simp only
    constructor
    · intro hf; exact Bool.noConfusion hf
    · rintro ⟨G, E, hG, _⟩; cases hG
  | some g =>
    cases he : specEstimate t ws ops with
    | none =>
      simp only
      constructor
      · intro hf; exact Bool.noConfusion hf
      · rintro ⟨G, E, _, hE, _⟩; cases hE
    | some e =>
      simp only
      constructor
      · intro hc
        refine ⟨g, e, rfl, rfl, ?_⟩
        rcases Bool.or_eq_true_iff.1 hc with h1 | h1
        · left; simpa using h1
        · right
          simp only [Bool.and_eq_true, List.all_eq_true] at h1
          exact ⟨h1.1, fun c hc => by simpa using h1.2 c hc⟩
      · rintro ⟨G, E, hG, hE, hor⟩
        have hG' : G = g := (Option.some.inj hG).symm
        have hE' : E = e := (Option.some.inj hE).symm
        rw [hG', hE'] at hor
        rcases hor with hne | ⟨hu, hall⟩
        · simp [hne]
        · apply Bool.or_eq_true_iff.2
          right
          simp only [Bool.and_eq_true, List.all_eq_true]
          exact ⟨hu, fun c hc => by simpa using hall c hc⟩

end Gossamer.C20
