/-
C08: what `applyToTrie` over the ideal backend computes, phase by phase, as pointwise lookups —
for ANY iteration order of the three maps (only distinct keys are assumed).
-/
import Gossamer.Lib.C08Ideal
set_option linter.unusedSectionVars false
set_option linter.unusedSimpArgs false
namespace Gossamer.C08
open Gossamer

/-- overlay of two lookups -/
def ov {α : Type} (a b : Option α) : Option α :=
  match a with
  | some x => some x
  | none => b

@[simp] theorem ov_some {α : Type} (x : α) (b : Option α) : ov (some x) b = some x := rfl
@[simp] theorem ov_none {α : Type} (b : Option α) : ov none b = b := rfl

def NodupKeys {α : Type} (l : List (Bytes × α)) : Prop := (l.map (·.1)).Nodup

theorem NodupKeys.tail {α : Type} {e : Bytes × α} {r : List (Bytes × α)}
    (h : NodupKeys (e :: r)) : NodupKeys r := by
  unfold NodupKeys at *
  simp only [List.map_cons, List.nodup_cons] at h
  exact h.2

theorem NodupKeys.head_not_mem {α : Type} {e : Bytes × α} {r : List (Bytes × α)}
    (h : NodupKeys (e :: r)) : KMap.find e.1 r = none := by
  unfold NodupKeys at h
  simp only [List.map_cons, List.nodup_cons] at h
  cases hf : KMap.find e.1 r with
  | none => rfl
  | some v =>
    have := KMap.find_some_mem hf
    exact absurd (List.mem_map.mpr ⟨(e.1, v), this, rfl⟩) h.1

/-- on lists with distinct keys the first-match lookup does not depend on the order -/
theorem find_perm {α : Type} {l1 l2 : List (Bytes × α)} (h : l1.Perm l2) (hn : NodupKeys l1)
    (k : Bytes) : KMap.find k l1 = KMap.find k l2 := by
  induction h with
  | nil => rfl
  | cons x _ ih => simp only [KMap.find]; rw [ih hn.tail]
  | swap x y l =>
    simp only [KMap.find]
    by_cases hx : x.1 = k
    · by_cases hy : y.1 = k
      · exfalso
        unfold NodupKeys at hn
        simp only [List.map_cons, List.nodup_cons, List.mem_cons] at hn
        exact hn.1 (Or.inl (hy.trans hx.symm))
      · simp [hx, hy]
    · simp [hx]
  | @trans a b c h1 _ ih1 ih2 =>
    have hn2 : NodupKeys b := by
      unfold NodupKeys at hn ⊢
      exact (List.Perm.nodup_iff (h1.map (fun x => x.1))).mp hn
    rw [ih1 hn, ih2 hn2]

/-! ### single ideal operations -/

theorem wf_putMain {l : Logical} (h : l.WF) (kv : Bytes × Bytes) : (putMain l kv).WF := by
  unfold putMain
  split
  · exact h
  · rename_i hc
    refine ⟨OMap.sorted_upsert _ _ h.main, ?_, h.kids, h.kid⟩
    intro k hk
    rw [OMap.get_upsert]
    have : k ≠ kv.1 := fun e => by subst e; exact hc hk
    simp [this, h.noChild k hk]

theorem get_putMain (l : Logical) (kv : Bytes × Bytes) (k : Bytes) :
    OMap.get k (putMain l kv).main =
      if Logical.isChildKey kv.1 = false ∧ k = kv.1 then some kv.2 else OMap.get k l.main := by
  unfold putMain
  by_cases hc : Logical.isChildKey kv.1 = true
  · simp [hc]
  · simp only [hc, Bool.false_eq_true, if_false, OMap.get_upsert]
    have : Logical.isChildKey kv.1 = false := by simpa using hc
    simp [this]

theorem kids_putMain (l : Logical) (kv : Bytes × Bytes) : (putMain l kv).kids = l.kids := by
  unfold putMain; split <;> rfl

theorem upsert_ne_nil (k v : Bytes) (es : Entries) : OMap.upsert k v es ≠ [] := by
  cases es with
  | nil => simp [OMap.upsert]
  | cons e r =>
    simp only [OMap.upsert]
    split
    · simp
    · split <;> simp

theorem kidOf_putIntoChild (l : Logical) (ck k : Bytes) (v : Option Bytes) (ck' : Bytes) :
    kidOf (Logical.putIntoChild l ck k v) ck' =
      if ck' = ck then OMap.upsert k (v.getD []) (kidOf l ck) else kidOf l ck' := by
  unfold Logical.putIntoChild kidOf
  simp only [KMap.find_ins]
  by_cases h : ck' = ck <;> simp [h]

theorem wf_putIntoChild {l : Logical} (h : l.WF) (ck k : Bytes) (v : Option Bytes) :
    (Logical.putIntoChild l ck k v).WF := by
  refine ⟨h.main, h.noChild, KMap.sorted_ins _ _ h.kids, ?_⟩
  intro ck' es hf
  unfold Logical.putIntoChild at hf
  simp only [KMap.find_ins] at hf
  by_cases hck : ck' = ck
  · simp only [hck, if_true, Option.some.injEq] at hf
    subst hf
    refine ⟨OMap.sorted_upsert _ _ ?_, upsert_ne_nil _ _ _⟩
    have := kidOf_sorted h ck
    unfold kidOf at this
    exact this
  · simp only [hck, if_false] at hf
    exact h.kid ck' es hf

theorem kidOf_setKid (l : Logical) (ck : Bytes) (es : Entries) (ck' : Bytes) :
    kidOf (Logical.setKid l ck es) ck' = if ck' = ck then es else kidOf l ck' := by
  unfold Logical.setKid kidOf
  by_cases he : es.isEmpty = true
  · simp only [he, if_true, KMap.find_del]
    by_cases h : ck' = ck
    · have : es = [] := by simpa using he
      simp [h, this]
    · simp [h]
  · simp only [he, Bool.false_eq_true, if_false, KMap.find_ins]
    by_cases h : ck' = ck <;> simp [h]

theorem wf_setKid {l : Logical} (h : l.WF) (ck : Bytes) (es : Entries) (hs : OMap.Sorted es) :
    (Logical.setKid l ck es).WF := by
  unfold Logical.setKid
  by_cases he : es.isEmpty = true
  · simp only [he, if_true]
    refine ⟨h.main, h.noChild, KMap.sorted_del _ h.kids, ?_⟩
    intro ck' es' hf
    simp only [KMap.find_del] at hf
    by_cases hck : ck' = ck
    · simp [hck] at hf
    · simp only [hck, if_false] at hf
      exact h.kid ck' es' hf
  · simp only [he, Bool.false_eq_true, if_false]
    refine ⟨h.main, h.noChild, KMap.sorted_ins _ _ h.kids, ?_⟩
    intro ck' es' hf
    simp only [KMap.find_ins] at hf
    by_cases hck : ck' = ck
    · simp only [hck, if_true, Option.some.injEq] at hf
      subst hf
      exact ⟨hs, by simpa using he⟩
    · simp only [hck, if_false] at hf
      exact h.kid ck' es' hf

theorem main_setKid (l : Logical) (ck : Bytes) (es : Entries) : (Logical.setKid l ck es).main = l.main := by
  unfold Logical.setKid; split <;> rfl

/-- `ClearFromChild` with its error ignored (as `applyToTrie` does) -/
def clearKid (l : Logical) (ck k : Bytes) : Logical := (Logical.clearFromChild l ck k).getD l

theorem clearKid_eq (l : Logical) (ck k : Bytes) :
    clearKid l ck k =
      match KMap.find ck l.kids with
      | none => l
      | some es => Logical.setKid l ck (OMap.erase k es) := by
  unfold clearKid Logical.clearFromChild
  cases KMap.find ck l.kids <;> rfl

theorem kidOf_clearKid {l : Logical} (ck k : Bytes) (ck' : Bytes) :
    kidOf (clearKid l ck k) ck' = if ck' = ck then OMap.erase k (kidOf l ck) else kidOf l ck' := by
  rw [clearKid_eq]
  cases hf : KMap.find ck l.kids with
  | none =>
    by_cases h : ck' = ck
    · subst h; simp [kidOf, hf, OMap.erase]
    · simp [h]
  | some es =>
    simp only [kidOf_setKid]
    by_cases h : ck' = ck
    · simp [h, kidOf, hf]
    · simp [h]

theorem wf_clearKid {l : Logical} (h : l.WF) (ck k : Bytes) : (clearKid l ck k).WF := by
  rw [clearKid_eq]
  cases hf : KMap.find ck l.kids with
  | none => exact h
  | some es => exact wf_setKid h ck _ (OMap.sorted_erase _ (h.kid ck es hf).1)

theorem main_clearKid (l : Logical) (ck k : Bytes) : (clearKid l ck k).main = l.main := by
  rw [clearKid_eq]
  cases KMap.find ck l.kids with
  | none => rfl
  | some es => exact main_setKid _ _ _

/-! ### folds inside one child map -/

theorem get_foldl_upsert (ups : List (Bytes × Bytes)) (hn : NodupKeys ups) (es : Entries) (k : Bytes) :
    OMap.get k (ups.foldl (fun es kv => OMap.upsert kv.1 kv.2 es) es) =
      ov (KMap.find k ups) (OMap.get k es) := by
  induction ups generalizing es with
  | nil => rfl
  | cons e r ih =>
    simp only [List.foldl_cons, KMap.find]
    rw [ih hn.tail, OMap.get_upsert]
    by_cases hk : e.1 = k
    · subst hk
      simp [hn.head_not_mem]
    · have : ¬ k = e.1 := fun h => hk h.symm
      simp [hk, this]

theorem sorted_foldl_upsert (ups : List (Bytes × Bytes)) {es : Entries} (hs : OMap.Sorted es) :
    OMap.Sorted (ups.foldl (fun es kv => OMap.upsert kv.1 kv.2 es) es) := by
  induction ups generalizing es with
  | nil => exact hs
  | cons e r ih => exact ih (OMap.sorted_upsert _ _ hs)

theorem get_foldl_erase (ds : List Bytes) (es : Entries) (k : Bytes) :
    OMap.get k (ds.foldl (fun es d => OMap.erase d es) es) =
      if k ∈ ds then none else OMap.get k es := by
  induction ds generalizing es with
  | nil => simp
  | cons d r ih =>
    simp only [List.foldl_cons, List.mem_cons]
    rw [ih, OMap.get_erase]
    by_cases h1 : k ∈ r
    · simp [h1]
    · by_cases h2 : k = d <;> simp [h1, h2]

theorem sorted_foldl_erase (ds : List Bytes) {es : Entries} (hs : OMap.Sorted es) :
    OMap.Sorted (ds.foldl (fun es d => OMap.erase d es) es) := by
  induction ds generalizing es with
  | nil => exact hs
  | cons d r ih => exact ih (OMap.sorted_erase _ hs)

/-! ### phase 1: main upserts -/

theorem phase1_kids (ups : List (Bytes × Bytes)) (b : Logical) :
    (ups.foldl putMain b).kids = b.kids := by
  induction ups generalizing b with
  | nil => rfl
  | cons e r ih => simp only [List.foldl_cons]; rw [ih, kids_putMain]

theorem phase1_wf (ups : List (Bytes × Bytes)) {b : Logical} (h : b.WF) :
    (ups.foldl putMain b).WF := by
  induction ups generalizing b with
  | nil => exact h
  | cons e r ih => exact ih (wf_putMain h e)

theorem phase1_get (ups : List (Bytes × Bytes)) (hn : NodupKeys ups) (b : Logical) (k : Bytes) :
    OMap.get k (ups.foldl putMain b).main =
      if Logical.isChildKey k then OMap.get k b.main
      else ov (KMap.find k ups) (OMap.get k b.main) := by
  induction ups generalizing b with
  | nil => simp [KMap.find]
  | cons e r ih =>
    simp only [List.foldl_cons, KMap.find]
    rw [ih hn.tail, get_putMain]
    by_cases hc : Logical.isChildKey k = true
    · simp only [hc, if_true]
      by_cases hk : k = e.1
      · subst hk; simp [hc]
      · simp [hk]
    · have hc' : Logical.isChildKey k = false := by simpa using hc
      simp only [hc', Bool.false_eq_true, if_false]
      by_cases hk : e.1 = k
      · subst hk
        simp [hn.head_not_mem, hc']
      · have : ¬ k = e.1 := fun h => hk h.symm
        simp [hk, this]

/-! ### phase 2: child change sets -/

theorem kid_foldl_put (ck : Bytes) (ups : List (Bytes × Bytes)) (l : Logical) (ck' : Bytes) :
    kidOf (ups.foldl (fun l kv => Logical.putIntoChild l ck kv.1 (some kv.2)) l) ck' =
      if ck' = ck then ups.foldl (fun es kv => OMap.upsert kv.1 kv.2 es) (kidOf l ck)
      else kidOf l ck' := by
  induction ups generalizing l with
  | nil => by_cases h : ck' = ck <;> simp [h]
  | cons e r ih =>
    simp only [List.foldl_cons]
    rw [ih]
    by_cases h : ck' = ck
    · simp [h, kidOf_putIntoChild]
    · simp [h, kidOf_putIntoChild]

theorem wf_foldl_put (ck : Bytes) (ups : List (Bytes × Bytes)) {l : Logical} (h : l.WF) :
    (ups.foldl (fun l kv => Logical.putIntoChild l ck kv.1 (some kv.2)) l).WF := by
  induction ups generalizing l with
  | nil => exact h
  | cons e r ih => exact ih (wf_putIntoChild h _ _ _)

theorem main_foldl_put (ck : Bytes) (ups : List (Bytes × Bytes)) (l : Logical) :
    (ups.foldl (fun l kv => Logical.putIntoChild l ck kv.1 (some kv.2)) l).main = l.main := by
  induction ups generalizing l with
  | nil => rfl
  | cons e r ih => simp only [List.foldl_cons]; rw [ih]; rfl

theorem kid_foldl_clear (ck : Bytes) (ds : List Bytes) (l : Logical) (ck' : Bytes) :
    kidOf (ds.foldl (fun l k => clearKid l ck k) l) ck' =
      if ck' = ck then ds.foldl (fun es d => OMap.erase d es) (kidOf l ck) else kidOf l ck' := by
  induction ds generalizing l with
  | nil => by_cases h : ck' = ck <;> simp [h]
  | cons d r ih =>
    simp only [List.foldl_cons]
    rw [ih]
    by_cases h : ck' = ck
    · simp [h, kidOf_clearKid]
    · simp [h, kidOf_clearKid]

theorem wf_foldl_clear (ck : Bytes) (ds : List Bytes) {l : Logical} (h : l.WF) :
    (ds.foldl (fun l k => clearKid l ck k) l).WF := by
  induction ds generalizing l with
  | nil => exact h
  | cons d r ih => exact ih (wf_clearKid h _ _)

theorem main_foldl_clear (ck : Bytes) (ds : List Bytes) (l : Logical) :
    (ds.foldl (fun l k => clearKid l ck k) l).main = l.main := by
  induction ds generalizing l with
  | nil => rfl
  | cons d r ih => simp only [List.foldl_cons]; rw [ih, main_clearKid]

theorem applyKidI_eq (l : Logical) (e : Bytes × List (Bytes × Bytes) × List Bytes) :
    applyKidI l e = e.2.2.foldl (fun l k => clearKid l e.1 k)
      (e.2.1.foldl (fun l kv => Logical.putIntoChild l e.1 kv.1 (some kv.2)) l) := rfl

theorem wf_applyKidI {l : Logical} (h : l.WF) (e : Bytes × List (Bytes × Bytes) × List Bytes) :
    (applyKidI l e).WF := by
  rw [applyKidI_eq]; exact wf_foldl_clear _ _ (wf_foldl_put _ _ h)

theorem main_applyKidI (l : Logical) (e : Bytes × List (Bytes × Bytes) × List Bytes) :
    (applyKidI l e).main = l.main := by
  rw [applyKidI_eq, main_foldl_clear, main_foldl_put]

theorem get_kid_applyKidI (l : Logical) (e : Bytes × List (Bytes × Bytes) × List Bytes)
    (hn : NodupKeys e.2.1) (ck k : Bytes) :
    OMap.get k (kidOf (applyKidI l e) ck) =
      if ck = e.1 then
        (if k ∈ e.2.2 then none else ov (KMap.find k e.2.1) (OMap.get k (kidOf l ck)))
      else OMap.get k (kidOf l ck) := by
  rw [applyKidI_eq, kid_foldl_clear]
  by_cases h : ck = e.1
  · simp only [h, if_true]
    rw [kid_foldl_put]
    simp only [if_true]
    rw [get_foldl_erase, get_foldl_upsert _ hn]
  · simp only [h, if_false]
    rw [kid_foldl_put]
    simp [h]

theorem phase2_wf (ks : List (Bytes × List (Bytes × Bytes) × List Bytes)) {l : Logical} (h : l.WF) :
    (ks.foldl applyKidI l).WF := by
  induction ks generalizing l with
  | nil => exact h
  | cons e r ih => exact ih (wf_applyKidI h e)

theorem phase2_main (ks : List (Bytes × List (Bytes × Bytes) × List Bytes)) (l : Logical) :
    (ks.foldl applyKidI l).main = l.main := by
  induction ks generalizing l with
  | nil => rfl
  | cons e r ih => simp only [List.foldl_cons]; rw [ih, main_applyKidI]

theorem phase2_get (ks : List (Bytes × List (Bytes × Bytes) × List Bytes)) (hn : NodupKeys ks)
    (hu : ∀ e ∈ ks, NodupKeys e.2.1) (l : Logical) (ck k : Bytes) :
    OMap.get k (kidOf (ks.foldl applyKidI l) ck) =
      match KMap.find ck ks with
      | some c => if k ∈ c.2 then none else ov (KMap.find k c.1) (OMap.get k (kidOf l ck))
      | none => OMap.get k (kidOf l ck) := by
  induction ks generalizing l with
  | nil => rfl
  | cons e r ih =>
    simp only [List.foldl_cons, KMap.find]
    rw [ih hn.tail (fun x hx => hu x (by simp [hx]))]
    by_cases h : e.1 = ck
    · subst h
      simp only [hn.head_not_mem, if_true]
      rw [get_kid_applyKidI l e (hu e (by simp))]
      simp
    · simp only [h, if_false]
      have h' : ¬ ck = e.1 := fun x => h x.symm
      cases hf : KMap.find ck r with
      | none => simp only []; rw [get_kid_applyKidI l e (hu e (by simp))]; simp [h']
      | some c => simp only []; rw [get_kid_applyKidI l e (hu e (by simp))]; simp [h']

/-! ### phase 3: deletions -/

theorem wf_applyDelI {l : Logical} (h : l.WF) (d : Bytes) : (applyDelI l d).WF := by
  unfold applyDelI
  cases hf : KMap.find d l.kids with
  | some es =>
    simp only []
    refine ⟨h.main, h.noChild, KMap.sorted_del _ h.kids, ?_⟩
    intro ck' es' hf'
    simp only [KMap.find_del] at hf'
    by_cases hck : ck' = d
    · simp [hck] at hf'
    · simp only [hck, if_false] at hf'
      exact h.kid ck' es' hf'
  | none =>
    simp only []
    split
    · exact h
    · refine ⟨OMap.sorted_erase _ h.main, ?_, h.kids, h.kid⟩
      intro k hk
      rw [OMap.get_erase]
      simp [h.noChild k hk]

theorem kidOf_applyDelI {l : Logical} (h : l.WF) (d ck : Bytes) :
    kidOf (applyDelI l d) ck = if ck = d then [] else kidOf l ck := by
  unfold applyDelI
  cases hf : KMap.find d l.kids with
  | some es =>
    simp only [kidOf, KMap.find_del]
    by_cases hck : ck = d <;> simp [hck]
  | none =>
    have hnil : kidOf l d = [] := (kidOf_nil_iff h d).mpr hf
    simp only []
    by_cases hck : ck = d
    · subst hck
      split <;> simp [kidOf, hf]
    · split <;> simp [kidOf, hck]

theorem main_applyDelI {l : Logical} (h : l.WF) (d k : Bytes) :
    OMap.get k (applyDelI l d).main =
      if k = d ∧ kidOf l d = [] ∧ Logical.isChildKey d = false then none
      else OMap.get k l.main := by
  unfold applyDelI
  cases hf : KMap.find d l.kids with
  | some es =>
    have hne : kidOf l d ≠ [] := fun e => by
      rw [kidOf_nil_iff h d] at e; rw [hf] at e; cases e
    simp [hne]
  | none =>
    have hnil : kidOf l d = [] := (kidOf_nil_iff h d).mpr hf
    simp only [hnil, true_and]
    by_cases hc : Logical.isChildKey d = true
    · simp [hc]
    · have hc' : Logical.isChildKey d = false := by simpa using hc
      simp only [hc', Bool.false_eq_true, if_false, OMap.get_erase, and_true]

end Gossamer.C08
