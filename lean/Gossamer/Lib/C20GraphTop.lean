/-
C20 layer (b), proofs: what a GHOST search must return (`Top`), its uniqueness when at most one child of a block
meets the condition, and that the uncompressed `findGhost` returns it.
-/
import Gossamer.Lib.C20GraphMerge
import Gossamer.Lib.C20Ghost
namespace Gossamer.C20

variable {t : Tree}

/-- at most one child of a block is in the graph and meets the condition -/
def UniqChild (t : Tree) (c : Nat → Mask) (cond : Mask → Bool) : Prop :=
  ∀ B x y, x ∈ t.children B → y ∈ t.children B → good c cond x = true → good c cond y = true → x = y

/-- `D` is where a GHOST search from `s` must end: above `s`, in the graph, meeting the condition, and no child
of it does -/
structure Top (t : Tree) (c : Nat → Mask) (cond : Mask → Bool) (s D : Nat) : Prop where
  above : s ∈ t.chain D
  lt : D < t.size
  inG : inGraph c D = true
  ok : cond (c D) = true
  stop : ∀ x, x ∈ t.children D → good c cond x = false

/-- the uncompressed cumulative vote only grows towards the base -/
theorem cum_super (h : t.WF) (ins : Ins) {a b : Nat} (hab : a ∈ t.chain b) :
    cumOf t ins a = cumOf t ins b ||| cumOf t ins a := by
  apply Nat.eq_of_testBit_eq
  intro q
  rw [Nat.testBit_or]
  cases hq : (cumOf t ins b).testBit q
  · simp
  · simp [cum_mono_chain h ins hab q hq]

theorem cond_anc (h : t.WF) (ins : Ins) {cond : Mask → Bool} (hm : MonoCond cond) {a b : Nat}
    (hab : a ∈ t.chain b) (hb : cond (cumOf t ins b) = true) : cond (cumOf t ins a) = true := by
  rw [cum_super h ins hab]; exact hm _ _ hb

theorem inGraph_anc (h : t.WF) (ins : Ins) {a b : Nat} (hab : a ∈ t.chain b)
    (hb : inGraph (cumOf t ins) b = true) : inGraph (cumOf t ins) a = true := by
  simp only [inGraph, Bool.or_eq_true, beq_iff_eq, bne_iff_ne, ne_eq] at hb ⊢
  rcases hb with h0 | hne
  · subst h0
    left; simpa [Tree.chain_zero] using hab
  · by_cases ha : a = 0
    · exact Or.inl ha
    · right
      obtain ⟨q, hq⟩ := mask_ne_zero.1 hne
      exact mask_ne_zero.2 ⟨q, cum_mono_chain h ins hab q hq⟩

/-- with a monotone condition and unique good children the end of the search is unique -/
theorem top_unique (h : t.WF) (ins : Ins) {cond : Mask → Bool} (hm : MonoCond cond)
    (hu : UniqChild t (cumOf t ins) cond) : ∀ (n s D1 D2 : Nat), t.num D1 - t.num s ≤ n →
    Top t (cumOf t ins) cond s D1 → Top t (cumOf t ins) cond s D2 → D1 = D2 := by
  intro n
  induction n with
  | zero =>
    intro s D1 D2 hn t1 t2
    have h1 : D1 = s := by
      by_cases he : s = D1
      · exact he.symm
      · have := Tree.num_lt_of_mem h t1.above he; omega
    subst h1
    by_cases he : D1 = D2
    · exact he
    · exfalso
      obtain ⟨x, hx, hx0, hxp⟩ := Tree.child_towards h D2 D1 t2.above he
      have hxlt : x < t.size := by have := Tree.mem_chain_le h _ _ hx; have := t2.lt; omega
      have hgood : good (cumOf t ins) cond x = true := by
        simp only [good, Bool.and_eq_true]
        exact ⟨inGraph_anc h ins hx t2.inG, cond_anc h ins hm hx t2.ok⟩
      have := t1.stop x (Tree.mem_children.2 ⟨hxlt, hx0, hxp⟩)
      rw [hgood] at this; cases this
  | succ n ih =>
    intro s D1 D2 hn t1 t2
    by_cases h1 : s = D1
    · subst h1
      by_cases he : s = D2
      · exact he
      · exfalso
        obtain ⟨x, hx, hx0, hxp⟩ := Tree.child_towards h D2 s t2.above he
        have hxlt : x < t.size := by have := Tree.mem_chain_le h _ _ hx; have := t2.lt; omega
        have hgood : good (cumOf t ins) cond x = true := by
          simp only [good, Bool.and_eq_true]
          exact ⟨inGraph_anc h ins hx t2.inG, cond_anc h ins hm hx t2.ok⟩
        have := t1.stop x (Tree.mem_children.2 ⟨hxlt, hx0, hxp⟩)
        rw [hgood] at this; cases this
    · by_cases h2 : s = D2
      · subst h2
        exfalso
        obtain ⟨x, hx, hx0, hxp⟩ := Tree.child_towards h D1 s t1.above h1
        have hxlt : x < t.size := by have := Tree.mem_chain_le h _ _ hx; have := t1.lt; omega
        have hgood : good (cumOf t ins) cond x = true := by
          simp only [good, Bool.and_eq_true]
          exact ⟨inGraph_anc h ins hx t1.inG, cond_anc h ins hm hx t1.ok⟩
        have := t2.stop x (Tree.mem_children.2 ⟨hxlt, hx0, hxp⟩)
        rw [hgood] at this; cases this
      · obtain ⟨x1, hx1, hx10, hx1p⟩ := Tree.child_towards h D1 s t1.above h1
        obtain ⟨x2, hx2, hx20, hx2p⟩ := Tree.child_towards h D2 s t2.above h2
        have hx1lt : x1 < t.size := by have := Tree.mem_chain_le h _ _ hx1; have := t1.lt; omega
        have hx2lt : x2 < t.size := by have := Tree.mem_chain_le h _ _ hx2; have := t2.lt; omega
        have hg1 : good (cumOf t ins) cond x1 = true := by
          simp only [good, Bool.and_eq_true]
          exact ⟨inGraph_anc h ins hx1 t1.inG, cond_anc h ins hm hx1 t1.ok⟩
        have hg2 : good (cumOf t ins) cond x2 = true := by
          simp only [good, Bool.and_eq_true]
          exact ⟨inGraph_anc h ins hx2 t2.inG, cond_anc h ins hm hx2 t2.ok⟩
        have hxx : x1 = x2 := hu s x1 x2 (Tree.mem_children.2 ⟨hx1lt, hx10, hx1p⟩)
          (Tree.mem_children.2 ⟨hx2lt, hx20, hx2p⟩) hg1 hg2
        subst hxx
        have hnx : t.num x1 = t.num s + 1 := by
          rw [Tree.num_pos h (by omega : 0 < x1), hx1p]
        exact ih x1 D1 D2 (by omega) ⟨hx1, t1.lt, t1.inG, t1.ok, t1.stop⟩ ⟨hx2, t2.lt, t2.inG, t2.ok, t2.stop⟩

theorem descend_lt (c : Nat → Mask) (cond : Mask → Bool) : ∀ (f B : Nat), B < t.size →
    descend t c cond f B < t.size := by
  intro f
  induction f with
  | zero => intro B hB; exact hB
  | succ f ih =>
    intro B hB
    cases hf : (t.children B).find? (fun x => inGraph c x && cond (c x)) with
    | none =>
      have hd : descend t c cond (f + 1) B = B := by simp only [descend, hf]
      rw [hd]; exact hB
    | some x =>
      have hd : descend t c cond (f + 1) B = descend t c cond f x := by simp only [descend, hf]
      rw [hd]
      exact ih x (Tree.mem_children.1 (List.mem_of_find?_eq_some hf)).1

/-- the uncompressed `findGhost` ends at a `Top` of its start block -/
theorem findGhost_top (h : t.WF) (c : Nat → Mask) (cur : Option Nat) (cond : Mask → Bool)
    (hs : ghostStart c cur < t.size) (hin : inGraph c (ghostStart c cur) = true) :
    match findGhost t c cur cond with
    | none => cond (c (ghostStart c cur)) = false
    | some D => Top t c cond (ghostStart c cur) D := by
  cases hf : findGhost t c cur cond with
  | none => exact findGhost_none hf
  | some D =>
    obtain ⟨f1, f2, f3, f4⟩ := findGhost_some h hf
    have hgood : good c cond D = true ∨ D = ghostStart c cur := by
      rcases f3 with f3 | f3
      · exact Or.inr f3
      · exact Or.inl f3
    refine ⟨f2, ?_, ?_, ?_, f4⟩
    · rcases hgood with hg | he
      · rw [findGhost_eq] at hf
        rw [f1] at hf
        simp only [if_true] at hf
        have hD : descend t c cond t.size (ghostStart c cur) = D := Option.some.inj hf
        rw [← hD]; exact descend_lt c cond t.size _ hs
      · rw [he]; exact hs
    · rcases hgood with hg | he
      · simp only [good, Bool.and_eq_true] at hg; exact hg.1
      · rw [he]; exact hin
    · rcases hgood with hg | he
      · simp only [good, Bool.and_eq_true] at hg; exact hg.2
      · rw [he]; exact f1

end Gossamer.C20
