/-
C08: the model over the ideal backend refines the overlay specification on the transactional
key-value fragment (put / delete / get on main and child storage, nested start / commit /
rollback), when no string is used both as a main key and as a child-trie key and no main key lies
below `:child_storage:default:`.
-/
import Gossamer.Lib.C08Eff
set_option linter.unusedSectionVars false
set_option linter.unusedSimpArgs false
namespace Gossamer.C08
open Gossamer

structure BaseInv (CK : Bytes → Bool) (b : Logical) : Prop where
  wf : b.WF
  mainCK : ∀ k, CK k = true → OMap.get k b.main = none
  kidsCK : ∀ ck, CK ck = false → kidOf b ck = []

structure DiffInv (CK : Bytes → Bool) (d : Diff) : Prop where
  sorted : d.SortedD
  upsCK : ∀ k, (CK k = true ∨ Logical.isChildKey k = true) → KMap.find k d.c.upserts = none
  upsDel : ∀ k, k ∈ d.c.deletes → KMap.find k d.c.upserts = none
  delsNoChild : ∀ k, k ∈ d.c.deletes → Logical.isChildKey k = false
  kidsCK : ∀ ck, CK ck = false → KMap.find ck d.kids = none
  kidDisj : ∀ ck c, KMap.find ck d.kids = some c → ∀ k, k ∈ c.deletes → KMap.find k c.upserts = none
  sk : d.c.sortedKeys = KMap.keys d.c.upserts
  kidSk : ∀ ck c, KMap.find ck d.kids = some c → c.sortedKeys = KMap.keys c.upserts

theorem DiffInv.empty (CK : Bytes → Bool) : DiffInv CK Diff.empty :=
  ⟨Diff.sorted_empty, fun _ _ => rfl, fun _ _ => rfl, fun _ h => by simp [Diff.empty, CDiff.empty] at h,
    fun _ _ => rfl, fun _ _ h => by simp [Diff.empty, KMap.find] at h, rfl,
    fun _ _ h => by simp [Diff.empty, KMap.find] at h⟩

theorem keys_ins (k v : Bytes) (m : KMap Bytes) : KMap.keys (KMap.ins k v m) = KSet.ins k (KMap.keys m) := by
  induction m with
  | nil => rfl
  | cons e r ih =>
    simp only [KMap.ins, KMap.keys, List.map_cons, KSet.ins]
    split
    · rename_i he; simp [he]
    · split
      · rfl
      · simp only [List.map_cons, KMap.keys] at ih ⊢
        rw [ih]

theorem keys_del (k : Bytes) (m : KMap Bytes) : KMap.keys (KMap.del k m) = KSet.del k (KMap.keys m) := by
  induction m with
  | nil => rfl
  | cons e r ih =>
    simp only [KMap.del, KMap.keys, KSet.del, List.filter_cons, List.map_cons] at ih ⊢
    split <;> simp [ih]

theorem CDiff.sk_upsert {c : CDiff} (h : c.sortedKeys = KMap.keys c.upserts) (k v : Bytes) :
    (c.upsert k v).sortedKeys = KMap.keys (c.upsert k v).upserts := by
  simp only [CDiff.upsert, keys_ins, h]

theorem CDiff.sk_delete {c : CDiff} (h : c.sortedKeys = KMap.keys c.upserts) (k : Bytes) :
    (c.delete k).sortedKeys = KMap.keys (c.delete k).upserts := by
  simp only [CDiff.delete, keys_del, h]

section lemmas
variable {CK : Bytes → Bool} {b : Logical} {d : Diff}

theorem hdel_of_inv (hb : BaseInv CK b) (hd : DiffInv CK d) :
    ∀ k ∈ d.c.deletes, (KMap.find k d.kids = none ∧ kidOf b k = []) ∨
      (KMap.find k d.c.upserts = none ∧ OMap.get k b.main = none) := by
  intro k _
  cases hck : CK k with
  | false => exact Or.inl ⟨hd.kidsCK k hck, hb.kidsCK k hck⟩
  | true => exact Or.inr ⟨hd.upsCK k (Or.inl hck), hb.mainCK k hck⟩

/-- main map of a level under the invariants -/
theorem eff_main (hb : BaseInv CK b) (hd : DiffInv CK d) (k : Bytes) :
    OMap.get k (effL b d).main =
      if k ∈ d.c.deletes then none else ov (KMap.find k d.c.upserts) (OMap.get k b.main) := by
  rw [effL_main hb.wf hd.sorted.wf (hdel_of_inv hb hd)]
  by_cases hc : Logical.isChildKey k = true
  · have h1 := hd.upsCK k (Or.inr hc)
    have h2 := hb.wf.noChild k hc
    have h3 : k ∉ d.c.deletes := fun h => by have := hd.delsNoChild k h; rw [hc] at this; cases this
    simp [hc, h1, h2, h3]
  · have hc' : Logical.isChildKey k = false := by simpa using hc
    simp [hc']

theorem eff_kid (hb : BaseInv CK b) (hd : DiffInv CK d) (ck k : Bytes) :
    OMap.get k (kidOf (effL b d) ck) =
      if ck ∈ d.c.deletes then none
      else match KMap.find ck d.kids with
        | some c => if k ∈ c.deletes then none
                    else ov (KMap.find k c.upserts) (OMap.get k (kidOf b ck))
        | none => OMap.get k (kidOf b ck) :=
  effL_kid hb.wf hd.sorted.wf ck k

/-- the logical content of a level satisfies the base invariant (needed at the outermost commit) -/
theorem eff_baseInv (hb : BaseInv CK b) (hd : DiffInv CK d) : BaseInv CK (effL b d) := by
  refine ⟨effL_wf hb.wf, ?_, ?_⟩
  · intro k hk
    rw [eff_main hb hd]
    simp [hd.upsCK k (Or.inl hk), hb.mainCK k hk]
  · intro ck hck
    have hs := kidOf_sorted (effL_wf (d := d) hb.wf) ck
    have hnil : OMap.Sorted ([] : Entries) := trivial
    apply OMap.sorted_ext hs hnil
    intro k
    rw [eff_kid hb hd, hd.kidsCK ck hck, hb.kidsCK ck hck]
    simp [OMap.get]

/-! #### writes inside a transaction -/

theorem inv_upsert (hd : DiffInv CK d) (k v : Bytes)
    (hk : Logical.isChildKey k = false ∧ CK k = false) : DiffInv CK (d.upsert k v) := by
  refine ⟨Diff.sorted_upsert hd.sorted k v, ?_, ?_, ?_, hd.kidsCK, hd.kidDisj,
    CDiff.sk_upsert hd.sk k v, hd.kidSk⟩
  · intro k' h'
    simp only [Diff.upsert, CDiff.upsert, KMap.find_ins]
    have : k' ≠ k := by
      rintro rfl
      rcases h' with h' | h'
      · rw [hk.2] at h'; cases h'
      · rw [hk.1] at h'; cases h'
    simp [this, hd.upsCK k' h']
  · intro k' h'
    simp only [Diff.upsert, CDiff.upsert] at h' ⊢
    rw [KSet.mem_del] at h'
    simp [KMap.find_ins, h'.1, hd.upsDel k' h'.2]
  · intro k' h'
    simp only [Diff.upsert, CDiff.upsert] at h'
    rw [KSet.mem_del] at h'
    exact hd.delsNoChild k' h'.2

theorem eff_upsert (hb : BaseInv CK b) (hd : DiffInv CK d) (k v : Bytes)
    (hk : Logical.isChildKey k = false ∧ CK k = false) :
    effL b (d.upsert k v) = { effL b d with main := OMap.upsert k v (effL b d).main } := by
  have hd' := inv_upsert hd k v hk
  have hw := effL_wf (d := d) hb.wf
  apply Logical.ext (effL_wf hb.wf)
  · refine ⟨OMap.sorted_upsert _ _ hw.main, ?_, hw.kids, hw.kid⟩
    intro k' hk'
    rw [OMap.get_upsert]
    have : k' ≠ k := by rintro rfl; rw [hk.1] at hk'; cases hk'
    simp [this, hw.noChild k' hk']
  · intro k'
    rw [eff_main hb hd', OMap.get_upsert, eff_main hb hd]
    simp only [Diff.upsert, CDiff.upsert, KMap.find_ins, KSet.mem_del]
    by_cases h : k' = k
    · simp [h]
    · simp [h]
  · intro ck k'
    have e : kidOf { effL b d with main := OMap.upsert k v (effL b d).main } ck = kidOf (effL b d) ck := rfl
    rw [e, eff_kid hb hd', eff_kid hb hd]
    simp only [Diff.upsert, CDiff.upsert, KSet.mem_del]
    by_cases h : ck = k
    · subst h
      simp [hd.kidsCK ck hk.2, hb.kidsCK ck hk.2, OMap.get]
    · simp [h]

theorem inv_delete (hd : DiffInv CK d) (k : Bytes)
    (hk : Logical.isChildKey k = false ∧ CK k = false) : DiffInv CK (d.delete k) := by
  refine ⟨Diff.sorted_delete hd.sorted k, ?_, ?_, ?_, ?_, ?_, CDiff.sk_delete hd.sk k, ?_⟩
  · intro k' h'
    simp only [Diff.delete, CDiff.delete, KMap.find_del]
    simp [hd.upsCK k' h']
  · intro k' h'
    simp only [Diff.delete, CDiff.delete] at h' ⊢
    rw [KSet.mem_ins] at h'
    simp only [KMap.find_del]
    rcases h' with h' | h'
    · simp [h']
    · simp [hd.upsDel k' h']
  · intro k' h'
    simp only [Diff.delete, CDiff.delete] at h'
    rw [KSet.mem_ins] at h'
    rcases h' with h' | h'
    · rw [h']; exact hk.1
    · exact hd.delsNoChild k' h'
  · intro ck hck
    simp only [Diff.delete, KMap.find_del]
    simp [hd.kidsCK ck hck]
  · intro ck c hf
    simp only [Diff.delete, KMap.find_del] at hf
    by_cases h : ck = k
    · simp [h] at hf
    · simp only [h, if_false] at hf
      exact hd.kidDisj ck c hf
  · intro ck c hf
    simp only [Diff.delete, KMap.find_del] at hf
    by_cases h : ck = k
    · simp [h] at hf
    · simp only [h, if_false] at hf
      exact hd.kidSk ck c hf

theorem eff_delete (hb : BaseInv CK b) (hd : DiffInv CK d) (k : Bytes)
    (hk : Logical.isChildKey k = false ∧ CK k = false) :
    effL b (d.delete k) = { effL b d with main := OMap.erase k (effL b d).main } := by
  have hd' := inv_delete hd k hk
  have hw := effL_wf (d := d) hb.wf
  apply Logical.ext (effL_wf hb.wf)
  · refine ⟨OMap.sorted_erase _ hw.main, ?_, hw.kids, hw.kid⟩
    intro k' hk'
    rw [OMap.get_erase]
    simp [hw.noChild k' hk']
  · intro k'
    rw [eff_main hb hd', OMap.get_erase, eff_main hb hd]
    simp only [Diff.delete, CDiff.delete, KMap.find_del, KSet.mem_ins]
    by_cases h : k' = k
    · simp [h]
    · simp [h]
  · intro ck k'
    have e : kidOf { effL b d with main := OMap.erase k (effL b d).main } ck = kidOf (effL b d) ck := rfl
    rw [e, eff_kid hb hd', eff_kid hb hd]
    simp only [Diff.delete, CDiff.delete, KMap.find_del, KSet.mem_ins]
    by_cases h : ck = k
    · subst h
      simp [hd.kidsCK ck hk.2, hb.kidsCK ck hk.2, OMap.get]
    · simp [h]

end lemmas

end Gossamer.C08
