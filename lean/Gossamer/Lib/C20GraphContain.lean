/-
C20 layer (b), proofs: `findContainingNodes` returns exactly the vote-nodes whose ancestor edge contains the
block (each once) – via the walk from every head with the `visited` short-cut.
-/
import Gossamer.Lib.C20GraphInv
namespace Gossamer.C20

variable {t : Tree}

/-- `d` is a vote-node whose ancestor edge contains `hash` -/
def Containing (t : Tree) (ins : Ins) (hash d : Nat) : Prop :=
  isNode ins d = true ∧ hash ∈ edge t (isNode ins) d

theorem containing_num (h : t.WF) {ins : Ins} {hash d : Nat} (hc : Containing t ins hash d) :
    t.num hash < t.num d := by
  obtain ⟨i, hi⟩ := List.getElem?_of_mem hc.2
  have := edge_num h hi
  omega

/-- the state of the `findContainingNodes` loop is consistent: `acc` are containing nodes, each once and
visited; every containing node on the chain of a visited node is in `acc` -/
structure WalkInv (t : Tree) (ins : Ins) (hash : Nat) (acc vis : List Nat) : Prop where
  sound : ∀ d, d ∈ acc → Containing t ins hash d
  nodup : acc.Nodup
  sub : ∀ d, d ∈ acc → d ∈ vis
  compl : ∀ v, v ∈ vis → ∀ d, Containing t ins hash d → d ∈ t.chain v → d ∈ acc

theorem walk_spec (h : t.WF) {ins : Ins} {g : Graph} (inv : GInv t ins g) (hash : Nat) :
    ∀ (f head : Nat) (pend vis acc : List Nat), head < f → isNode ins head = true →
    (∀ p, p ∈ pend → ¬ Containing t ins hash p ∧ head < p ∧
        ∀ d, Containing t ins hash d → d ∈ t.chain p → d ∈ t.chain head) →
    WalkInv t ins hash acc vis →
    WalkInv t ins hash (acc ++ (walkHead g hash (t.num hash) f head (pend ++ vis)).1.toList)
      (walkHead g hash (t.num hash) f head (pend ++ vis)).2 ∧
    head ∈ (walkHead g hash (t.num hash) f head (pend ++ vis)).2 ∧
    (∀ v, v ∈ pend ++ vis → v ∈ (walkHead g hash (t.num hash) f head (pend ++ vis)).2) := by
  intro f
  induction f with
  | zero => intro head _ _ _ hlt; omega
  | succ f ih =>
    intro head pend vis acc hlt hN hpend w
    obtain ⟨e, he⟩ := inv.entry_of_node hN
    have hnum := inv.number head e he
    have hanc := inv.anc head e he
    have N0 := isNode_zero ins
    simp only [walkHead, he]
    by_cases hvis : (pend ++ vis).contains head = true
    · -- already visited: nothing new
      simp only [hvis, if_true, Option.toList, List.append_nil]
      have hmem : head ∈ pend ++ vis := by simpa using hvis
      have hv : head ∈ vis := by
        rcases List.mem_append.1 hmem with hp | hv
        · have := (hpend head hp).2.1; omega
        · exact hv
      refine ⟨⟨w.sound, w.nodup, fun d hd => List.mem_append_right _ (w.sub d hd), ?_⟩, hmem, fun v hv => hv⟩
      intro v hv' d hd hdv
      rcases List.mem_append.1 hv' with hp | hvv
      · exact w.compl head hv d hd ((hpend v hp).2.2 d hd hdv)
      · exact w.compl v hvv d hd hdv
    · have hvis' : (pend ++ vis).contains head = false := by simpa using hvis
      have hnv : head ∉ vis := by
        intro hv; apply hvis; simpa using (List.mem_append_right pend hv)
      simp only [hvis', Bool.false_eq_true, if_false]
      -- containing nodes strictly above `head` are excluded once `head` has the number in its span
      cases hida : e.inDirectAncestry hash (t.num hash) with
      | none =>
        have hng : ¬ Containing t ins hash head := by
          intro hc
          rw [(inDirectAncestry_true h hnum hanc hash).2 hc.2] at hida; cases hida
        simp only
        cases han : e.ancestorNode with
        | none =>
          -- `head` is the base
          simp only [Option.toList, List.append_nil]
          have h0 : head = 0 := by
            rcases Nat.eq_zero_or_pos head with hz | hz
            · exact hz
            · obtain ⟨a, ha, _⟩ := ancNode_some h N0 hz
              rw [inv.ancestorNode_eq he, ha] at han; cases han
          subst h0
          have hbase : ∀ d, Containing t ins hash d → d ∈ t.chain 0 → False := by
            intro d hd hd0
            have : d = 0 := by simpa [Tree.chain_zero] using hd0
            subst this; exact hng hd
          refine ⟨⟨w.sound, w.nodup, fun d hd => by simp [w.sub d hd], ?_⟩, by simp, fun v hv => by simp [hv]⟩
          intro v hv d hd hdv
          rcases List.mem_cons.1 hv with rfl | hv
          · exact (hbase d hd hdv).elim
          · rcases List.mem_append.1 hv with hp | hvv
            · exact (hbase d hd ((hpend v hp).2.2 d hd hdv)).elim
            · exact w.compl v hvv d hd hdv
        | some a =>
          have haN : ancNode t (isNode ins) head = some a := by rw [← inv.ancestorNode_eq he]; exact han
          have hpos : 0 < head := by
            rcases Nat.eq_zero_or_pos head with hz | hz
            · subst hz; simp [ancNode, edge_zero] at haN
            · exact hz
          obtain ⟨a', ha', haN', hae⟩ := ancNode_some h N0 hpos
          have : a' = a := by rw [haN] at ha'; exact (Option.some.inj ha').symm
          subst this
          have hac : a' ∈ t.chain head := edge_mem_chain h hae
          have halt : a' < head := by
            have := Tree.mem_chain_le h _ _ hac
            have := edge_ne_self h hae
            omega
          have hstep := ih a' (head :: pend) vis acc (by omega) haN' (by
            intro p hp
            rcases List.mem_cons.1 hp with rfl | hp
            · refine ⟨hng, halt, ?_⟩
              intro d hd hdp
              exact node_above h N0 haN hdp hd.1 (fun e => hng (e ▸ hd))
            · obtain ⟨p1, p2, p3⟩ := hpend p hp
              refine ⟨p1, by omega, ?_⟩
              intro d hd hdp
              exact node_above h N0 haN (p3 d hd hdp) hd.1 (fun e => hng (e ▸ hd))) w
          simp only [List.cons_append] at hstep
          obtain ⟨s1, s2, s3⟩ := hstep
          exact ⟨s1, s3 head (by simp), fun v hv => s3 v (by simp [hv])⟩
      | some ans =>
        -- a definite answer: the number of `hash` lies in the span of the edge of `head`
        have hpos : 0 < head := by
          rcases Nat.eq_zero_or_pos head with hz | hz
          · subst hz
            have : e.ancestors = [] := by rw [hanc]; rfl
            simp [Entry.inDirectAncestry, Entry.ancestorBlock, this] at hida
          · exact hz
        obtain ⟨a, haN, haNode, hae⟩ := ancNode_some h N0 hpos
        have hspan := (inDirectAncestry_isSome h hnum hanc haN hash (t.num hash)).1 (by rw [hida]; rfl)
        have habove : ∀ d, Containing t ins hash d → d ∈ t.chain head → d ≠ head → False := by
          intro d hd hdh hne
          have hda := node_above h N0 haN hdh hd.1 hne
          have := Tree.num_le_of_mem h hda
          have := containing_num h hd
          omega
        cases ans with
        | true =>
          have hg : Containing t ins hash head := ⟨hN, (inDirectAncestry_true h hnum hanc hash).1 hida⟩
          simp only [Option.toList]
          refine ⟨⟨?_, ?_, ?_, ?_⟩, by simp, fun v hv => by simp [hv]⟩
          · intro d hd
            rcases List.mem_append.1 hd with hd | hd
            · exact w.sound d hd
            · have : d = head := by simpa using hd
              subst this; exact hg
          · rw [List.nodup_append]
            refine ⟨w.nodup, by simp, ?_⟩
            intro x hx y hy
            have : y = head := by simpa using hy
            subst this
            intro e; subst e
            exact hnv (w.sub x hx)
          · intro d hd
            rcases List.mem_append.1 hd with hd | hd
            · simp [w.sub d hd]
            · have : d = head := by simpa using hd
              subst this; simp
          · intro v hv d hd hdv
            have key : d ∈ t.chain head → d ∈ acc ++ [head] := by
              intro hdh
              by_cases hne : d = head
              · subst hne; simp
              · exact (habove d hd hdh hne).elim
            rcases List.mem_cons.1 hv with rfl | hv
            · exact key hdv
            · rcases List.mem_append.1 hv with hp | hvv
              · exact key ((hpend v hp).2.2 d hd hdv)
              · exact List.mem_append_left _ (w.compl v hvv d hd hdv)
        | false =>
          have hng : ¬ Containing t ins hash head := by
            intro hc
            rw [(inDirectAncestry_true h hnum hanc hash).2 hc.2] at hida; cases hida
          simp only [Option.toList, List.append_nil]
          refine ⟨⟨w.sound, w.nodup, fun d hd => by simp [w.sub d hd], ?_⟩, by simp, fun v hv => by simp [hv]⟩
          intro v hv d hd hdv
          have key : d ∈ t.chain head → d ∈ acc := by
            intro hdh
            by_cases hne : d = head
            · subst hne; exact (hng hd).elim
            · exact (habove d hd hdh hne).elim
          rcases List.mem_cons.1 hv with rfl | hv
          · exact key hdv
          · rcases List.mem_append.1 hv with hp | hvv
            · exact key ((hpend v hp).2.2 d hd hdv)
            · exact w.compl v hvv d hd hdv

end Gossamer.C20

namespace Gossamer.C20

variable {t : Tree}

theorem exists_max_lt (P : Nat → Prop) : ∀ n, (∃ x, x < n ∧ P x) → ∃ x, x < n ∧ P x ∧ ∀ y, y < n → P y → y ≤ x := by
  intro n
  induction n with
  | zero => rintro ⟨x, hx, _⟩; omega
  | succ n ih =>
    rintro ⟨x, hx, hp⟩
    by_cases hn : P n
    · exact ⟨n, by omega, hn, fun y hy _ => by omega⟩
    · have : ∃ x, x < n ∧ P x := by
        refine ⟨x, ?_, hp⟩
        rcases Nat.lt_or_ge x n with h1 | h1
        · exact h1
        · have : x = n := by omega
          subst this; exact absurd hp hn
      obtain ⟨m, hm, hpm, hmax⟩ := ih this
      refine ⟨m, by omega, hpm, ?_⟩
      intro y hy hpy
      rcases Nat.lt_or_ge y n with h1 | h1
      · exact hmax y h1 hpy
      · have : y = n := by omega
        subst this; exact absurd hpy hn

/-- every vote-node lies on the chain of some head -/
theorem exists_head_below (h : t.WF) {ins : Ins} {g : Graph} (inv : GInv t ins g) {d : Nat}
    (hd : isNode ins d = true) : ∃ x, x ∈ g.heads ∧ d ∈ t.chain x := by
  obtain ⟨x, _, ⟨hxN, hdx⟩, hmax⟩ := exists_max_lt (fun x => isNode ins x = true ∧ d ∈ t.chain x) t.size
    ⟨d, inv.node_lt h hd, hd, t.mem_chain_self d⟩
  refine ⟨x, (inv.heads x).2 ⟨hxN, ?_⟩, hdx⟩
  intro y hy hanc
  have hye : x ∈ edge t (isNode ins) y := by unfold ancNode at hanc; exact List.mem_of_getLast? hanc
  have hxy : x ∈ t.chain y := edge_mem_chain h hye
  have := hmax y (inv.node_lt h hy) ⟨hy, Tree.le_trans h hdx hxy⟩
  have := Tree.mem_chain_le h _ _ hxy
  have := edge_ne_self h hye
  omega

/-- the fold of `findContainingNodes` over a list of heads -/
theorem containing_fold (h : t.WF) {ins : Ins} {g : Graph} (inv : GInv t ins g) (hash : Nat) :
    ∀ (l : List Nat) (acc vis : List Nat), (∀ x, x ∈ l → isNode ins x = true) →
    WalkInv t ins hash acc vis →
    let st := l.foldl (fun (st : List Nat × List Nat) head =>
      match walkHead g hash (t.num hash) (t.size + 1) head st.2 with
      | (some x, vis) => (st.1 ++ [x], vis)
      | (none, vis) => (st.1, vis)) (acc, vis)
    WalkInv t ins hash st.1 st.2 ∧ (∀ x, x ∈ l → x ∈ st.2) ∧ (∀ x, x ∈ vis → x ∈ st.2) := by
  intro l
  induction l with
  | nil => intro acc vis _ w; exact ⟨w, by simp, fun x hx => hx⟩
  | cons x xs ih =>
    intro acc vis hl w
    simp only [List.foldl_cons]
    have hx := hl x List.mem_cons_self
    have hstep := walk_spec h inv hash (t.size + 1) x [] vis acc
      (by have := inv.node_lt h hx; omega) hx (by simp) w
    simp only [List.nil_append] at hstep
    obtain ⟨w', hxin, hsub⟩ := hstep
    have heq : (match walkHead g hash (t.num hash) (t.size + 1) x vis with
        | (some y, vis') => (acc ++ [y], vis')
        | (none, vis') => (acc, vis')) =
        (acc ++ (walkHead g hash (t.num hash) (t.size + 1) x vis).1.toList,
         (walkHead g hash (t.num hash) (t.size + 1) x vis).2) := by
      rcases hwr : walkHead g hash (t.num hash) (t.size + 1) x vis with ⟨r, v'⟩
      cases r <;> simp [Option.toList]
    rw [heq]
    obtain ⟨i1, i2, i3⟩ := ih _ _ (fun y hy => hl y (List.mem_cons_of_mem _ hy)) w'
    refine ⟨i1, ?_, fun y hy => i3 y (hsub y hy)⟩
    intro y hy
    rcases List.mem_cons.1 hy with rfl | hy
    · exact i3 y hxin
    · exact i2 y hy

/-- **`findContainingNodes`**: `nil` for a vote-node; otherwise exactly the vote-nodes whose ancestor edge
contains the block, each once -/
theorem findContaining_spec (h : t.WF) {ins : Ins} {g : Graph} (inv : GInv t ins g) (key : Nat → Nat)
    (hash : Nat) :
    (isNode ins hash = true → g.findContaining key (t.size + 1) hash (t.num hash) = none) ∧
    (isNode ins hash = false → ∃ R, g.findContaining key (t.size + 1) hash (t.num hash) = some R ∧
        R.Nodup ∧ ∀ d, d ∈ R ↔ Containing t ins hash d) := by
  constructor
  · intro hn
    unfold Graph.findContaining
    rw [inv.nodes hash, hn]; rfl
  · intro hn
    unfold Graph.findContaining
    rw [inv.nodes hash, hn]
    simp only [Bool.false_eq_true, if_false]
    have hheads : ∀ x, x ∈ g.sortedHeads key → isNode ins x = true := by
      intro x hx
      unfold Graph.sortedHeads at hx
      exact ((inv.heads x).1 (List.mem_mergeSort.1 hx)).1
    obtain ⟨w, hall, _⟩ := containing_fold h inv hash (g.sortedHeads key) [] [] hheads
      ⟨by simp, by simp, by simp, by simp⟩
    refine ⟨_, rfl, w.nodup, ?_⟩
    intro d
    constructor
    · exact w.sound d
    · intro hd
      obtain ⟨x, hxh, hdx⟩ := exists_head_below h inv hd.1
      have hxs : x ∈ g.sortedHeads key := by unfold Graph.sortedHeads; exact List.mem_mergeSort.2 hxh
      exact w.compl x (hall x hxs) d hd hdx

end Gossamer.C20
