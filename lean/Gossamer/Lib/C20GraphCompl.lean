/-
C20 layer (b), proofs: `completable` of the round on the compressed graph = `completable` of the model round.
-/
import Gossamer.Lib.C20GraphRoundSim
import Gossamer.Lib.C20Possible
namespace Gossamer.C20

variable {t : Tree} {ws : List Nat}

/-- the value `possibleToPrecommit` compares with the threshold, as a function of the precommit weight of the node -/
def possibleFull (ws : List Nat) (cur : Nat) (eqv : Mask) (W : Nat) : Nat :=
  let tot := total ws
  let thr := threshold tot
  let tolerated := sub64 tot thr
  let currentEquiv := maskWeight ws eqv 1
  let additionalEquiv := sub64 tolerated currentEquiv
  let remaining := sub64 tot cur
  let d := sub64 cur W
  let possibleEquiv := if d ≤ additionalEquiv then d else additionalEquiv
  add64 (add64 W remaining) possibleEquiv

theorem possible_eq_full (ws : List Nat) (cur : Nat) (eqv m : Mask) :
    possibleToPrecommit ws cur eqv m =
      decide (possibleFull ws cur eqv (nodeWeight ws eqv m true) ≥ threshold (total ws)) := rfl

theorem sub64_wrap {a b : Nat} (hab : a < b) (hb : b < MOD) : sub64 a b = a + MOD - b := by
  unfold sub64
  rw [Nat.mod_eq_of_lt hb, Nat.mod_eq_of_lt (by omega)]

/-- `possibleToPrecommit` is monotone in the votes when the equivocation budget does not wrap around -/
theorem possible_mono (ws : List Nat) (cur : Nat) (eqv : Mask)
    (he : maskWeight ws eqv 1 ≤ total ws - threshold (total ws)) (hcur : cur ≤ total ws)
    (hov : 3 * total ws < MOD) : MonoCond (possibleToPrecommit ws cur eqv) := by
  intro m m' hm
  have hW : nodeWeight ws eqv m true ≤ nodeWeight ws eqv (m ||| m') true := by
    unfold nodeWeight maskWeight
    apply wsum_mono
    intro v _ hv
    simp only [Nat.testBit_or, Bool.or_eq_true] at hv ⊢
    rcases hv with hv | hv
    · exact Or.inl (Or.inl hv)
    · exact Or.inr hv
  have hW1 : nodeWeight ws eqv m true ≤ total ws := wsum_le_total ws _
  have hW2 : nodeWeight ws eqv (m ||| m') true ≤ total ws := wsum_le_total ws _
  have hthr := threshold_le (total ws)
  have key : ∀ W, W ≤ total ws → possibleFull ws cur eqv W =
      W + (total ws - cur) +
        (if W ≤ cur then min (cur - W) (total ws - threshold (total ws) - maskWeight ws eqv 1)
         else total ws - threshold (total ws) - maskWeight ws eqv 1) := by
    intro W hWt
    unfold possibleFull
    simp only
    rw [sub64_eq hthr (by omega), sub64_eq he (by omega), sub64_eq hcur (by omega)]
    by_cases hWc : W ≤ cur
    · rw [sub64_eq hWc (by omega)]
      simp only [hWc, if_true]
      have hmin : (if cur - W ≤ total ws - threshold (total ws) - maskWeight ws eqv 1 then cur - W
          else total ws - threshold (total ws) - maskWeight ws eqv 1) =
          min (cur - W) (total ws - threshold (total ws) - maskWeight ws eqv 1) := by
        split <;> omega
      rw [hmin, add64_eq (a := W) (by omega), add64_eq (by omega)]
    · rw [sub64_wrap (by omega) (by omega)]
      simp only [hWc, if_false]
      have hbig : ¬ cur + MOD - W ≤ total ws - threshold (total ws) - maskWeight ws eqv 1 := by omega
      simp only [hbig, if_false]
      rw [add64_eq (a := W) (by omega), add64_eq (by omega)]
  rw [possible_eq_full] at hm ⊢
  simp only [decide_eq_true_eq] at hm ⊢
  rw [key _ hW1] at hm
  rw [key _ hW2]
  generalize nodeWeight ws eqv m true = W1 at *
  generalize nodeWeight ws eqv (m ||| m') true = W2 at *
  generalize maskWeight ws eqv 1 = e at *
  generalize total ws = tot at *
  generalize threshold tot = thr at *
  split at hm <;> split <;> omega

/-- the search ends at its start block iff no child of the start block is good -/
theorem top_eq_start_iff (h : t.WF) (ins : Ins) {cond : Mask → Bool} (hm : MonoCond cond) {s D : Nat}
    (hT : Top t (cumOf t ins) cond s D) :
    D = s ↔ ∀ x, x ∈ t.children s → good (cumOf t ins) cond x = false := by
  constructor
  · intro e; rw [← e]; exact hT.stop
  · intro hno
    by_cases he : s = D
    · exact he.symm
    · exfalso
      obtain ⟨x, hx, hx0, hxp⟩ := Tree.child_towards h D s hT.above he
      have hxlt : x < t.size := by have := Tree.mem_chain_le h _ _ hx; have := hT.lt; omega
      have hgood : good (cumOf t ins) cond x = true := by
        simp only [good, Bool.and_eq_true]
        exact ⟨inGraph_anc h ins hx hT.inG, cond_anc h ins hm hx hT.ok⟩
      have := hno x (Tree.mem_children.2 ⟨hxlt, hx0, hxp⟩)
      rw [hgood] at this; cases this

/-- `update` / `updateC` compute the same `completable` -/
theorem sim_update_compl (h : t.WF) (key : Nat → Nat) {ins : Ins} {r : Round} {rc : RoundC}
    (inv : GInv t ins rc.graph) (hcum : r.cum = cumOf t ins) (hcur : rc.cur = r.cur) (heqv : rc.eqv = r.eqv)
    (hs : StateSim t r rc) (hc : rc.compl = r.compl)
    (hg : ∀ b, r.ghost = some b → b < t.size ∧ inGraph r.cum b = true)
    (hm : r.cur true ≥ threshold (total ws) → MonoCond (possibleToPrecommit ws (r.cur true) r.eqv)) :
    (updateC key t ws rc).compl = (update t ws r).compl := by
  unfold update updateC
  simp only [hcur, heqv]
  by_cases h1 : r.cur false < threshold (total ws)
  · simp only [h1, if_true]; exact hc
  · simp only [h1, if_false]
    cases hgh : r.ghost with
    | none =>
      have : rc.ghost = none := by rw [hs.ghost, hgh]; rfl
      simp only [this]; exact hc
    | some b =>
      have hrc : rc.ghost = some (b, t.num b) := by rw [hs.ghost, hgh]; rfl
      obtain ⟨hb, hbin⟩ := hg b hgh
      simp only [hrc]
      by_cases h2 : r.cur true ≥ threshold (total ws)
      · simp only [h2, if_true]
        have hmono := hm h2
        have hfa : rc.graph.findAncestor key (t.size + 1) (possibleToPrecommit ws (r.cur true) r.eqv)
            (t.size + 1) b (t.num b) =
            pr t (findAncestor t r.cum b (possibleToPrecommit ws (r.cur true) r.eqv)) := by
          rw [hcum]; exact findAncestor_refines h inv key _ b hb
        rw [hfa]
        cases hE : findAncestor t r.cum b (possibleToPrecommit ws (r.cur true) r.eqv) with
        | none => rfl
        | some E =>
          simp only [pr, Option.map_some]
          by_cases hEb : E = b
          · subst hEb
            -- estimate = ghost: compare the two searches from it
            have hEok : possibleToPrecommit ws (r.cur true) r.eqv (r.cum E) = true := by
              unfold findAncestor at hE
              rw [hbin] at hE
              simp only [if_true] at hE
              simpa using List.find?_some hE
            have hcurE : ∀ x, (some E : Option Nat) = some x → x < t.size ∧
                (inGraph (cumOf t ins) x = true →
                  possibleToPrecommit ws (r.cur true) r.eqv (cumOf t ins x) = true) := by
              intro x hx
              have : E = x := Option.some.inj hx
              subst this
              exact ⟨hb, fun _ => hcum ▸ hEok⟩
            obtain ⟨_, _, hcase⟩ := findGhostC_top h inv key hmono (some E) hcurE
            have hstart : ghostStart (cumOf t ins) (some E) = E := by
              simp [ghostStart, ← hcum, hbin]
            rw [hstart] at hcase
            have htopU := findGhost_top h (cumOf t ins) (some E) (possibleToPrecommit ws (r.cur true) r.eqv)
              (by rw [hstart]; exact hb) (by rw [hstart, ← hcum]; exact hbin)
            rw [hstart] at htopU
            rcases hcase with ⟨hf, _⟩ | ⟨_, D, hD, hT⟩
            · rw [← hcum, hEok] at hf; cases hf
            · simp only [Option.map_some] at hD
              rw [hD]
              rw [← hcum] at htopU
              cases hU : findGhost t r.cum (some E) (possibleToPrecommit ws (r.cur true) r.eqv) with
              | none =>
                rw [hU] at htopU
                rw [hEok] at htopU; cases htopU
              | some Du =>
                rw [hU] at htopU
                rw [hcum] at htopU
                have i1 := top_eq_start_iff h ins hmono hT
                have i2 := top_eq_start_iff h ins hmono htopU
                simp only [bne_self_eq_false, Bool.false_or]
                by_cases hDE : D = E
                · have : Du = E := i2.2 (i1.1 hDE)
                  subst hDE; subst this; simp
                · have : ¬ Du = E := fun e => hDE (i1.2 (i2.1 e))
                  have h3 : ((D, t.num D) == (E, t.num E)) = false := by
                    apply Bool.eq_false_iff.2
                    intro e
                    have := Prod.mk.inj (by simpa using e : (D, t.num D) = (E, t.num E))
                    exact hDE this.1
                  have h4 : (Du == E) = false := by simpa using this
                  rw [h3, h4]
          · have h3 : (E != b) = true := by simpa using hEb
            simp [h3]
      · simp only [h2, if_false]; exact hc

end Gossamer.C20

namespace Gossamer.C20

variable {t : Tree} {ws : List Nat}

theorem ghostStep_compl (t : Tree) (ws : List Nat) (ph : Bool) (r : Round) :
    (ghostStep t ws ph r).compl = r.compl := by
  unfold ghostStep; split <;> rfl

theorem ghostStepC_compl (key : Nat → Nat) (t : Tree) (ws : List Nat) (ph : Bool) (r : RoundC) :
    (ghostStepC key t ws ph r).compl = r.compl := by
  unfold ghostStepC; split <;> rfl

/-- one effective import keeps `completable` equal -/
theorem sim_step_core_compl (h : t.WF) (h0 : 0 < total ws) (key : Nat → Nat) (ops : List Op) (o : Op)
    (hv' : ValidOps t (ops ++ [o])) (htol' : tolerant ws (ops ++ [o]) false = true)
    (htolc' : tolerant ws (ops ++ [o]) true = true) (hov : 3 * total ws < MOD)
    (r2 : Round) (rc2 : RoundC) (ins2 : Ins)
    (hr : run t ws (ops ++ [o]) = update t ws (ghostStep t ws o.ph r2))
    (hrc : runC key t ws (ops ++ [o]) = updateC key t ws (ghostStepC key t ws o.ph rc2))
    (inv : GInv t ins2 rc2.graph) (hcum : r2.cum = cumOf t ins2) (hcur : rc2.cur = r2.cur)
    (heqv : rc2.eqv = r2.eqv) (hs : StateSim t r2 rc2) (hgh : r2.ghost = (run t ws ops).ghost)
    (hc : rc2.compl = r2.compl) :
    (runC key t ws (ops ++ [o])).compl = (run t ws (ops ++ [o])).compl := by
  obtain ⟨hv, _⟩ := validOps_append hv'
  have htol := tolerant_prefix ws ops o false htol'
  obtain ⟨_, u2, u3, u4, u5, _⟩ := update_book t ws (ghostStep t ws o.ph r2)
  obtain ⟨_, g2, g3, g4⟩ := ghostStep_book t ws o.ph r2
  have hcum' : r2.cum = (run t ws (ops ++ [o])).cum := by rw [hr, u4, g4]
  have heqv' : r2.eqv = (run t ws (ops ++ [o])).eqv := by rw [hr, u3, g3]
  have hcur' : r2.cur = (run t ws (ops ++ [o])).cur := by rw [hr, u2, g2]
  have hu : UniqChild t r2.cum (supermCond ws r2.eqv false) := by
    rw [hcum', heqv']; exact superm_uniqChild h h0 _ false htol'
  have hmemo : ∀ b, r2.ghost = some b → b < t.size ∧ supermCond ws r2.eqv false (r2.cum b) = true := by
    intro b hb
    rw [hgh] at hb
    have hg0 := ghost_run h h0 ops hv htol
    rw [hb] at hg0
    refine ⟨superm_lt_size h h0 htol hg0.1, ?_⟩
    rw [hcum', heqv', supermCond_run]
    exact superm_mono t ws ops o false b hg0.1
  have s1 := sim_ghostStep (ws := ws) h key o.ph inv hcum hcur heqv hs hu hmemo
  obtain ⟨_, c2, c3, c4⟩ := ghostStepC_book key t ws o.ph rc2
  have hg : ∀ b, (ghostStep t ws o.ph r2).ghost = some b →
      b < t.size ∧ inGraph (ghostStep t ws o.ph r2).cum b = true := by
    intro b hb
    have hg1 := ghost_run h h0 (ops ++ [o]) hv' htol'
    rw [hr, u5, hb] at hg1
    refine ⟨superm_lt_size h h0 htol' hg1.1, ?_⟩
    rw [g4, hcum']
    exact superm_inGraph h0 htol' hg1.1
  have hm : (ghostStep t ws o.ph r2).cur true ≥ threshold (total ws) →
      MonoCond (possibleToPrecommit ws ((ghostStep t ws o.ph r2).cur true) (ghostStep t ws o.ph r2).eqv) := by
    intro _
    rw [g2, g3, hcur', heqv']
    apply possible_mono
    · have := eqvWeight_run t ws (ops ++ [o]) true
      simp only [phN, if_true] at this
      rw [this]
      unfold tolerant faulty at htolc'
      simpa using htolc'
    · rw [cur_run]; exact wsum_le_total ws _
    · exact hov
  have := sim_update_compl (ws := ws) h key (ins := ins2) (r := ghostStep t ws o.ph r2)
    (rc := ghostStepC key t ws o.ph rc2) (by rw [c4]; exact inv) (by rw [g4]; exact hcum)
    (by rw [c2, g2]; exact hcur) (by rw [c3, g3]; exact heqv) s1
    (by rw [ghostStep_compl, ghostStepC_compl]; exact hc) hg hm
  rw [hr, hrc]; exact this

/-- **`completable`** of the round on the compressed graph = `completable` of the model round, after every valid
import history that is tolerant in both phases -/
theorem complSim_run (h : t.WF) (h0 : 0 < total ws) (key : Nat → Nat) (hov : 3 * total ws < MOD) :
    ∀ ops, ValidOps t ops → tolerant ws ops false = true → tolerant ws ops true = true →
    (runC key t ws ops).compl = (run t ws ops).compl := by
  apply run_induction (fun ops r => ValidOps t ops → tolerant ws ops false = true →
    tolerant ws ops true = true → (runC key t ws ops).compl = r.compl)
  · intro _ _ _; rfl
  · intro ops o ih hv' htol' htolc'
    obtain ⟨hv, hb⟩ := validOps_append hv'
    have htol := tolerant_prefix ws ops o false htol'
    have c0 := ih hv htol (tolerant_prefix ws ops o true htolc')
    have s0 := stateSim_run h h0 key ops hv htol
    have bs := bookSim_run key t ws ops
    have hinv0 : GInv t (insOf t ws ops) (runC key t ws ops).graph := by
      rw [bs.graph]; exact graphOf_inv h key _ bs.valid
    rw [← run_append]
    by_cases hvl : o.v < ws.length
    · have hvl' : ¬ o.v ≥ ws.length := by omega
      have hb' : ¬ o.sv.blk ≥ t.size := by omega
      have htrk : (runC key t ws ops).trk o.ph o.v = (run t ws ops).trk o.ph o.v := by rw [bs.trk]
      match hslot : (run t ws ops).trk o.ph o.v with
      | none =>
        apply sim_step_core_compl h h0 key ops o hv' htol' htolc' hov
          { run t ws ops with
            trk := fun p u => if p = o.ph ∧ u = o.v then some (.single o.sv) else (run t ws ops).trk p u,
            cur := fun p => if p = o.ph then (run t ws ops).cur p + ws.getD o.v 0 else (run t ws ops).cur p,
            cum := insert t (run t ws ops).cum o.sv.blk (bitPos o.v (phN o.ph)) }
          { runC key t ws ops with
            trk := fun p u => if p = o.ph ∧ u = o.v then some (.single o.sv) else (runC key t ws ops).trk p u,
            cur := fun p => if p = o.ph then (runC key t ws ops).cur p + ws.getD o.v 0
                            else (runC key t ws ops).cur p,
            graph := (runC key t ws ops).graph.insert key t o.sv.blk (bitPos o.v (phN o.ph)) }
          (insOf t ws ops ++ [(o.sv.blk, bitPos o.v (phN o.ph))])
        · rw [run_append]; simp [step, importVote, hvl', hslot, addVote, hb']
        · rw [runC_append]; simp [stepC, importVoteC, hvl', htrk, hslot, addVote, hb']
        · exact insert_inv h hinv0 key _ _ hb
        · simp only; rw [cumOf_append, bs.cum]
        · simp only; rw [bs.cur]
        · exact bs.eqv
        · exact ⟨s0.ghost, s0.fin, s0.est⟩
        · rfl
        · exact c0
      | some (.single a) =>
        by_cases heq : a = o.sv
        · have e1 : run t ws (ops ++ [o]) = run t ws ops := by
            rw [run_append]; simp [step, importVote, hvl', hslot, addVote, heq]
          have e2 : runC key t ws (ops ++ [o]) = runC key t ws ops := by
            rw [runC_append]; simp [stepC, importVoteC, hvl', htrk, hslot, addVote, heq]
          rw [e1, e2]; exact c0
        · apply sim_step_core_compl h h0 key ops o hv' htol' htolc' hov
            { run t ws ops with
              trk := fun p u => if p = o.ph ∧ u = o.v then some (.equiv a o.sv) else (run t ws ops).trk p u,
              eqv := setBit (run t ws ops).eqv (bitPos o.v (phN o.ph)) }
            { runC key t ws ops with
              trk := fun p u => if p = o.ph ∧ u = o.v then some (.equiv a o.sv)
                                else (runC key t ws ops).trk p u,
              eqv := setBit (runC key t ws ops).eqv (bitPos o.v (phN o.ph)) }
            (insOf t ws ops)
          · rw [run_append]; simp [step, importVote, hvl', hslot, addVote, heq]
          · rw [runC_append]; simp [stepC, importVoteC, hvl', htrk, hslot, addVote, heq]
          · exact hinv0
          · exact bs.cum
          · exact bs.cur
          · simp only; rw [bs.eqv]
          · exact ⟨s0.ghost, s0.fin, s0.est⟩
          · rfl
          · exact c0
      | some (.equiv a b) =>
        have e1 : run t ws (ops ++ [o]) = run t ws ops := by
          rw [run_append]
          by_cases heq : a = o.sv ∨ b = o.sv
          · simp [step, importVote, hvl', hslot, addVote, heq]
          · simp [step, importVote, hvl', hslot, addVote, heq]
        have e2 : runC key t ws (ops ++ [o]) = runC key t ws ops := by
          rw [runC_append]
          by_cases heq : a = o.sv ∨ b = o.sv
          · simp [stepC, importVoteC, hvl', htrk, hslot, addVote, heq]
          · simp [stepC, importVoteC, hvl', htrk, hslot, addVote, heq]
        rw [e1, e2]; exact c0
    · have e1 : run t ws (ops ++ [o]) = run t ws ops := by
        rw [run_append]; unfold step; exact importVote_notVoter t ws _ o.ph o.v o.sv hvl
      have e2 : runC key t ws (ops ++ [o]) = runC key t ws ops := by
        rw [runC_append]; unfold stepC; exact importVoteC_notVoter key t ws _ o.ph o.v o.sv hvl
      rw [e1, e2]; exact c0

end Gossamer.C20
