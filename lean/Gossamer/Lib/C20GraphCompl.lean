/-
C20 layer (b), proofs: `completable` of the round on the compressed graph = `completable` of the model round.
-/
import Gossamer.Lib.C20GraphRoundSim
namespace Gossamer.C20

variable {t : Tree} {ws : List Nat}

/-- `possibleToPrecommit` is monotone in the votes when the equivocation budget does not wrap around -/
theorem possible_mono (ws : List Nat) (cur : Nat) (eqv : Mask)
    (he : maskWeight ws eqv 1 ≤ total ws - threshold (total ws)) (hcur : cur ≤ total ws)
    (hov : 3 * total ws < MOD) : MonoCond (possibleToPrecommit ws cur eqv) := by
  intro m m' hm
  have hW : nodeWeight ws eqv m true ≤ nodeWeight ws eqv (m ||| m') true := by
    unfold nodeWeight maskWeight
    apply wsum_mono
    intro v _ hv
    simp only [Nat.testBit_or, Bool.or_eq_true] at hv ⊢
    rcases hv with hv | hv
    · exact Or.inl (Or.inl hv)
    · exact Or.inr hv
  have hW2 : nodeWeight ws eqv (m ||| m') true ≤ total ws := wsum_le_total ws _
  have hthr := threshold_le (total ws)
  unfold possibleToPrecommit at *
  simp only [decide_eq_true_eq] at *
  generalize nodeWeight ws eqv m true = W1 at *
  generalize nodeWeight ws eqv (m ||| m') true = W2 at *
  generalize maskWeight ws eqv 1 = e at *
  generalize total ws = tot at *
  generalize threshold tot = thr at *
  unfold sub64 add64 MOD at *
  split at hm <;> split <;> omega

/-- the search ends at its start block iff no child of the start block is good -/
theorem top_eq_start_iff (h : t.WF) (ins : Ins) {cond : Mask → Bool} (hm : MonoCond cond) {s D : Nat}
    (hT : Top t (cumOf t ins) cond s D) :
    D = s ↔ ∀ x, x ∈ t.children s → good (cumOf t ins) cond x = false := by
  constructor
  · intro e; rw [← e]; exact hT.stop
  · intro hno
    by_cases he : s = D
    · exact he.symm
    · exfalso
      obtain ⟨x, hx, hx0, hxp⟩ := Tree.child_towards h D s hT.above he
      have hxlt : x < t.size := by have := Tree.mem_chain_le h _ _ hx; have := hT.lt; omega
      have hgood : good (cumOf t ins) cond x = true := by
        simp only [good, Bool.and_eq_true]
        exact ⟨inGraph_anc h ins hx hT.inG, cond_anc h ins hm hx hT.ok⟩
      have := hno x (Tree.mem_children.2 ⟨hxlt, hx0, hxp⟩)
      rw [hgood] at this; cases this

/-- `update` / `updateC` compute the same `completable` -/
theorem sim_update_compl (h : t.WF) (key : Nat → Nat) {ins : Ins} {r : Round} {rc : RoundC}
    (inv : GInv t ins rc.graph) (hcum : r.cum = cumOf t ins) (hcur : rc.cur = r.cur) (heqv : rc.eqv = r.eqv)
    (hs : StateSim t r rc) (hc : rc.compl = r.compl)
    (hg : ∀ b, r.ghost = some b → b < t.size ∧ inGraph r.cum b = true)
    (hm : r.cur true ≥ threshold (total ws) → MonoCond (possibleToPrecommit ws (r.cur true) r.eqv)) :
    (updateC key t ws rc).compl = (update t ws r).compl := by
  unfold update updateC
  simp only [hcur, heqv]
  by_cases h1 : r.cur false < threshold (total ws)
  · simp only [h1, if_true]; exact hc
  · simp only [h1, if_false]
    cases hgh : r.ghost with
    | none =>
      have : rc.ghost = none := by rw [hs.ghost, hgh]; rfl
      simp only [this]; exact hc
    | some b =>
      have hrc : rc.ghost = some (b, t.num b) := by rw [hs.ghost, hgh]; rfl
      obtain ⟨hb, hbin⟩ := hg b hgh
      simp only [hrc]
      by_cases h2 : r.cur true ≥ threshold (total ws)
      · simp only [h2, if_true]
        have hmono := hm h2
        have hfa : rc.graph.findAncestor key (t.size + 1) (possibleToPrecommit ws (r.cur true) r.eqv)
            (t.size + 1) b (t.num b) =
            pr t (findAncestor t r.cum b (possibleToPrecommit ws (r.cur true) r.eqv)) := by
          rw [hcum]; exact findAncestor_refines h inv key _ b hb
        rw [hfa]
        cases hE : findAncestor t r.cum b (possibleToPrecommit ws (r.cur true) r.eqv) with
        | none => rfl
        | some E =>
          simp only [pr, Option.map_some]
          by_cases hEb : E = b
          · subst hEb
            -- estimate = ghost: compare the two searches from it
            have hEok : possibleToPrecommit ws (r.cur true) r.eqv (r.cum E) = true := by
              unfold findAncestor at hE
              rw [hbin] at hE
              simp only [if_true] at hE
              exact List.find?_some hE
            have hcurE : ∀ x, (some E : Option Nat) = some x → x < t.size ∧
                (inGraph (cumOf t ins) x = true →
                  possibleToPrecommit ws (r.cur true) r.eqv (cumOf t ins x) = true) := by
              intro x hx
              have : E = x := Option.some.inj hx
              subst this
              exact ⟨hb, fun _ => hcum ▸ hEok⟩
            obtain ⟨_, _, hcase⟩ := findGhostC_top h inv key hmono (some E) hcurE
            have hstart : ghostStart (cumOf t ins) (some E) = E := by
              simp [ghostStart, ← hcum, hbin]
            rw [hstart] at hcase
            have htopU := findGhost_top h (cumOf t ins) (some E) (possibleToPrecommit ws (r.cur true) r.eqv)
              (by rw [hstart]; exact hb) (by rw [hstart, ← hcum]; exact hbin)
            rw [hstart] at htopU
            rcases hcase with ⟨hf, _⟩ | ⟨_, D, hD, hT⟩
            · rw [← hcum, hEok] at hf; cases hf
            · simp only [Option.map_some] at hD
              rw [hD]
              rw [← hcum] at htopU
              cases hU : findGhost t r.cum (some E) (possibleToPrecommit ws (r.cur true) r.eqv) with
              | none =>
                rw [hU] at htopU
                rw [hEok] at htopU; cases htopU
              | some Du =>
                rw [hU] at htopU
                rw [hcum] at htopU
                have i1 := top_eq_start_iff h ins hmono hT
                have i2 := top_eq_start_iff h ins hmono htopU
                simp only [bne_self_eq_false, Bool.false_or]
                by_cases hDE : D = E
                · have : Du = E := i2.2 (i1.1 hDE)
                  subst hDE; subst this; simp
                · have : ¬ Du = E := fun e => hDE (i1.2 (i2.1 e))
                  have h3 : ((D, t.num D) == (E, t.num E)) = false := by
                    apply Bool.eq_false_iff.2
                    intro e
                    have := Prod.mk.inj (by simpa using e : (D, t.num D) = (E, t.num E))
                    exact hDE this.1
                  have h4 : (Du == E) = false := by simpa using this
                  rw [h3, h4]
          · have h3 : (E != b) = true := by simpa using hEb
            simp [h3]
      · simp only [h2, if_false]; exact hc

end Gossamer.C20
