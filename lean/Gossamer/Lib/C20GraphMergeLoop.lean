/-
C20 layer (b), proofs: the outer loop of `ghostFindMergePoint` walks block by block through the ancestor edges
below the current best block and stops exactly where no child meets the condition.
-/
import Gossamer.Lib.C20GraphTop
namespace Gossamer.C20

variable {t : Tree}

theorem mergePassF_origin (cond : Mask → Bool) (height : Nat) :
    ∀ (ds : List Entry) (bl : Nat → Option Mask) (X : Nat), mergePassF cond height ds bl = some X →
    ∃ e, e ∈ ds ∧ e.ancestorBlock height = some X := by
  intro ds
  induction ds with
  | nil => intro bl X h; simp [mergePassF] at h
  | cons d ds ih =>
    intro bl X h
    simp only [mergePassF] at h
    cases hab : d.ancestorBlock height with
    | none =>
      rw [hab] at h
      obtain ⟨e, he, hx⟩ := ih bl X h
      exact ⟨e, List.mem_cons_of_mem _ he, hx⟩
    | some blk =>
      rw [hab] at h
      simp only at h
      cases hb : bl blk with
      | none =>
        rw [hb] at h
        obtain ⟨e, he, hx⟩ := ih _ X h
        exact ⟨e, List.mem_cons_of_mem _ he, hx⟩
      | some m =>
        rw [hb] at h
        simp only at h
        by_cases hcm : cond (m ||| d.cum) = true
        · simp only [hcm, if_true] at h
          exact ⟨d, List.mem_cons_self, by rw [hab, Option.some.inj h]⟩
        · simp only [hcm, Bool.false_eq_true, if_false] at h
          obtain ⟨e, he, hx⟩ := ih _ X h
          exact ⟨e, List.mem_cons_of_mem _ he, hx⟩

theorem Tree.num_le_self (h : t.WF) : ∀ b, t.num b ≤ b := by
  intro b
  induction b using Nat.strongRecOn with
  | _ b ih =>
    by_cases hb : b = 0
    · subst hb; simp [Tree.num_zero]
    · have hb' : 0 < b := by omega
      rw [Tree.num_pos h hb']
      have := ih _ (Tree.parent_lt h hb')
      have := Tree.parent_lt h hb'
      omega

/-- the entries in `L` are the vote-nodes that have `B` on their ancestor edge; none of them meets the condition -/
structure MLInv (t : Tree) (ins : Ins) (g : Graph) (cond : Mask → Bool) (B : Nat) (L : List Entry) : Prop where
  sound : ∀ e, e ∈ L → ∃ d, g.entries d = some e ∧ B ∈ edge t (isNode ins) d
  compl : ∀ d, isNode ins d = true → B ∈ edge t (isNode ins) d → ∃ e, e ∈ L ∧ g.entries d = some e
  fail : ∀ e, e ∈ L → cond e.cum = false

/-- the block an entry of `L` has one level above `B` is a non-node child of `B` inside that entry's edge -/
theorem step_block (h : t.WF) {ins : Ins} {g : Graph} (inv : GInv t ins g) {B d X : Nat} {e : Entry}
    (he : g.entries d = some e) (hB : B ∈ edge t (isNode ins) d)
    (hX : e.ancestorBlock (t.num B + 1) = some X) :
    X ∈ edge t (isNode ins) d ∧ t.num X = t.num B + 1 ∧ t.parent X = B ∧ isNode ins X = false ∧ 0 < X := by
  have N0 := isNode_zero ins
  obtain ⟨hXe, hXn⟩ := (ancestorBlock_spec h (inv.number d e he) (inv.anc d e he) _ X).1 hX
  have hXpos : 0 < X := by
    rcases Nat.eq_zero_or_pos X with hz | hz
    · subst hz; rw [Tree.num_zero] at hXn; omega
    · exact hz
  have hdpos : 0 < d := by
    rcases Nat.eq_zero_or_pos d with hz | hz
    · subst hz; simp [edge_zero] at hB
    · exact hz
  refine ⟨hXe, hXn, ?_, ?_, hXpos⟩
  · have hXc := edge_mem_chain h hXe
    have hBc := edge_mem_chain h hB
    have hpc : t.parent X ∈ t.chain d := Tree.le_trans h (Tree.parent_mem_chain h hXpos) hXc
    exact Tree.chain_num_inj h hpc hBc (by have := Tree.num_pos h hXpos; omega)
  · cases hN : isNode ins X with
    | false => rfl
    | true =>
      exfalso
      obtain ⟨pre, l, hsh, _, hpre⟩ := edge_shape h N0 hdpos
      have hXl : X = l := by
        rw [hsh] at hXe
        rcases List.mem_append.1 hXe with hp | hl
        · rw [hpre X hp] at hN; cases hN
        · simpa using hl
      have hanc : ancNode t (isNode ins) d = some X := by unfold ancNode; rw [hsh, hXl]; simp
      have hlen := edge_length h hanc
      obtain ⟨i, hi⟩ := List.getElem?_of_mem hB
      have hnum := edge_num h hi
      have hil : i < (edge t (isNode ins) d).length := by
        rcases Nat.lt_or_ge i (edge t (isNode ins) d).length with h1 | h1
        · exact h1
        · rw [List.getElem?_eq_none h1] at hi; cases hi
      omega

/-- a vote-node that contains a non-node child of `B` has `B` on its edge as well -/
theorem containing_child (h : t.WF) {ins : Ins} {B X d : Nat} (hN : isNode ins X = false)
    (hp : t.parent X = B) (hc : Containing t ins X d) : B ∈ edge t (isNode ins) d := by
  have := (edge_next h hN hc).1
  rw [hp] at this
  exact List.mem_of_getElem? this

/-- merged vote of a non-node child of `B` = its uncompressed cumulative vote -/
theorem thru_cum (h : t.WF) {ins : Ins} {g : Graph} (inv : GInv t ins g) (key : Nat → Nat)
    {cond : Mask → Bool} {B X : Nat} {L : List Entry} (ml : MLInv t ins g cond B L)
    (hN : isNode ins X = false) (hp : t.parent X = B) (hnum : t.num X = t.num B + 1) :
    orCum (thru (t.num B + 1) X L) 0 = cumOf t ins X ∧
    (∀ e, e ∈ thru (t.num B + 1) X L ↔ ∃ d, Containing t ins X d ∧ g.entries d = some e ∧ e ∈ L) := by
  have hmem : ∀ e, e ∈ thru (t.num B + 1) X L ↔ ∃ d, Containing t ins X d ∧ g.entries d = some e ∧ e ∈ L := by
    intro e
    simp only [thru, List.mem_filter, beq_iff_eq]
    constructor
    · rintro ⟨heL, hab⟩
      obtain ⟨d, hd, hBd⟩ := ml.sound e heL
      obtain ⟨hXe, _⟩ := step_block h inv hd hBd hab
      exact ⟨d, ⟨inv.node_of_entry hd, hXe⟩, hd, heL⟩
    · rintro ⟨d, hc, hd, heL⟩
      refine ⟨heL, ?_⟩
      exact (ancestorBlock_spec h (inv.number d e hd) (inv.anc d e hd) _ X).2 ⟨hc.2, hnum⟩
  refine ⟨?_, hmem⟩
  obtain ⟨R, _, _, hR⟩ := (findContaining_spec h inv key X).2 hN
  apply Nat.eq_of_testBit_eq
  intro q
  rw [orCum_testBit, Nat.zero_testBit, Bool.false_or, cum_containing h inv hN R hR q]
  apply Bool.eq_iff_iff.2
  simp only [List.any_eq_true]
  constructor
  · rintro ⟨e, he, hq⟩
    obtain ⟨d, hc, hd, _⟩ := (hmem e).1 he
    exact ⟨d, (hR d).2 hc, by rw [← inv.cum d e hd]; exact hq⟩
  · rintro ⟨d, hdR, hq⟩
    have hc := (hR d).1 hdR
    obtain ⟨e, heL, hd⟩ := ml.compl d hc.1 (containing_child h hN hp hc)
    exact ⟨e, (hmem e).2 ⟨d, hc, hd, heL⟩, by rw [inv.cum d e hd]; exact hq⟩

end Gossamer.C20

namespace Gossamer.C20

variable {t : Tree}

theorem parent_mem_edge (h : t.WF) (N : Nat → Bool) {x : Nat} (hx : 0 < x) : t.parent x ∈ edge t N x := by
  unfold edge
  rw [Tree.chain_tail_pos h hx]
  have hh := Tree.chain_head t (t.parent x)
  cases hc : t.chain (t.parent x) with
  | nil => exact absurd hc (t.chain_ne_nil _)
  | cons y ys =>
    rw [hc] at hh
    have : y = t.parent x := by simpa using hh
    subst this
    simp only [takeThrough]
    split <;> simp

/-- **the merge loop** started at `B` with the vote-nodes below `B` (none of which meets the condition) ends at
the `Top` of `B` and reports its block number -/
theorem mergeLoop_top (h : t.WF) {ins : Ins} {g : Graph} (inv : GInv t ins g) (key : Nat → Nat)
    {cond : Mask → Bool} (hm : MonoCond cond) : ∀ (f B : Nat) (L : List Entry),
    MLInv t ins g cond B L → B < t.size → inGraph (cumOf t ins) B = true → cond (cumOf t ins B) = true →
    t.size ≤ f + t.num B →
    ∃ D, mergeLoop cond f L B (t.num B) = (D, t.num D) ∧ Top t (cumOf t ins) cond B D := by
  intro f
  induction f with
  | zero =>
    intro B L _ hB _ _ hf
    have := Tree.num_le_self h B
    omega
  | succ f ih =>
    intro B L ml hB hinG hok hf
    have hcorr : BlocksCorr [] (fun _ => none) := fun x => by simp
    simp only [mergeLoop]
    rw [mergePass_eq cond (t.num B + 1) L [] (fun _ => none) hcorr]
    cases hmp : mergePassF cond (t.num B + 1) L (fun _ => none) with
    | none =>
      refine ⟨B, rfl, t.mem_chain_self B, hB, hinG, hok, ?_⟩
      intro x hx
      obtain ⟨hxlt, hx0, hxp⟩ := Tree.mem_children.1 hx
      have hxpos : 0 < x := by omega
      cases hgood : good (cumOf t ins) cond x with
      | false => rfl
      | true =>
        exfalso
        simp only [good, Bool.and_eq_true] at hgood
        cases hN : isNode ins x with
        | true =>
          have hBe : B ∈ edge t (isNode ins) x := hxp ▸ parent_mem_edge h _ hxpos
          obtain ⟨e, heL, hex⟩ := ml.compl x hN hBe
          have := ml.fail e heL
          rw [inv.cum x e hex, hgood.2] at this; cases this
        | false =>
          have hnum : t.num x = t.num B + 1 := by rw [Tree.num_pos h hxpos, hxp]
          obtain ⟨hcum, hmem⟩ := thru_cum h inv key ml hN hxp hnum
          have hin := (inGraph_iff h inv x).1 hgood.1
          rcases hin with hn | ⟨d, hd⟩
          · rw [hn] at hN; cases hN
          · obtain ⟨e, heL, hed⟩ := ml.compl d hd.1 (containing_child h hN hxp hd)
            have hethru : e ∈ thru (t.num B + 1) x L := (hmem e).2 ⟨d, hd, hed, heL⟩
            cases hth : thru (t.num B + 1) x L with
            | nil => rw [hth] at hethru; simp at hethru
            | cons e1 rest =>
              cases rest with
              | nil =>
                rw [hth] at hcum hethru
                have he1 : e = e1 := by simpa using hethru
                subst he1
                have hc : cumOf t ins x = e.cum := by rw [← hcum]; simp [orCum]
                have := ml.fail e heL
                rw [← hc, hgood.2] at this; cases this
              | cons e2 rest2 =>
                have := mergePassF_none (cond := cond) (t.num B + 1) L (fun _ => none) hmp x
                  (Or.inr (by rw [hth]; simp))
                simp only [Option.getD_none] at this
                rw [hcum, hgood.2] at this; cases this
    | some X =>
      simp only
      obtain ⟨e, heL, heX⟩ := mergePassF_origin cond _ L _ X hmp
      obtain ⟨d, hd, hBd⟩ := ml.sound e heL
      obtain ⟨hXe, hXn, hXp, hXN, hXpos⟩ := step_block h inv hd hBd heX
      have hdN := inv.node_of_entry hd
      have hXlt : X < t.size := by
        have := Tree.mem_chain_le h _ _ (edge_mem_chain h hXe)
        have := inv.node_lt h hdN
        omega
      obtain ⟨hcum, _⟩ := thru_cum h inv key ml hXN hXp hXn
      have hXok : cond (cumOf t ins X) = true := by
        have := mergePassF_some hm (t.num B + 1) L (fun _ => none) X hmp
        simp only [Option.getD_none] at this
        rw [hcum] at this; exact this
      have hXin : inGraph (cumOf t ins) X = true := (inGraph_iff h inv X).2 (Or.inr ⟨d, hdN, hXe⟩)
      have ml' : MLInv t ins g cond X
          (L.filter (fun d => d.inDirectAncestry X (t.num B + 1) == some true)) := by
        refine ⟨?_, ?_, ?_⟩
        · intro e' he'
          obtain ⟨he'L, hida⟩ := List.mem_filter.1 he'
          obtain ⟨d', hd', _⟩ := ml.sound e' he'L
          refine ⟨d', hd', ?_⟩
          have hida' : e'.inDirectAncestry X (t.num X) = some true := by rw [hXn]; simpa using hida
          exact (inDirectAncestry_true h (inv.number d' e' hd') (inv.anc d' e' hd') X).1 hida'
        · intro d' hd'N hXd'
          obtain ⟨e', he'L, hd'⟩ := ml.compl d' hd'N (containing_child h hXN hXp ⟨hd'N, hXd'⟩)
          refine ⟨e', List.mem_filter.2 ⟨he'L, ?_⟩, hd'⟩
          have := (inDirectAncestry_true h (inv.number d' e' hd') (inv.anc d' e' hd') X).2 hXd'
          rw [hXn] at this
          simp [this]
        · intro e' he'
          exact ml.fail e' (List.mem_filter.1 he').1
      obtain ⟨D, hD, hT⟩ := ih X _ ml' hXlt hXin hXok (by omega)
      rw [hXn] at hD
      refine ⟨D, hD, ?_⟩
      have hBX : B ∈ t.chain X := hXp ▸ Tree.parent_mem_chain h hXpos
      exact ⟨Tree.le_trans h hBX hT.above, hT.lt, hT.inG, hT.ok, hT.stop⟩

end Gossamer.C20
