/-
C05: the driver runs `Generate` on a trie whose node encodings are computed once (`annot`,
`generateE`).  It is the same function as the `generate` of the theorems.  Core Lean only.
-/
import Gossamer.Model.C05
namespace Gossamer.C05
open Gossamer

theorem annot_isNil (ver : Ver) (H : Bytes → Bytes) (t : Trie) : (annot ver H t).isNil = t.isNil := by
  cases t <;> rfl

theorem annot_enc (ver : Ver) (H : Bytes → Bytes) : ∀ t : Trie, (annot ver H t).enc = encodeNode ver H t := by
  intro t
  induction t with
  | nil => rfl
  | leaf pk v => rfl
  | branch pk v cs ih =>
    show encBranch ver H pk v (bitmap cs) ((List.finRange 16).map fun i => annot ver H (cs i)) = _
    cases v <;> simp only [encBranch, encodeNode, List.flatMap_map, annot_isNil, ih]

theorem walkKid_eq (ver : Ver) : ∀ (l : List ETrie) (n : Nat) (key : Nibs),
    walkKid ver l n key = walkE ver false (l.getD n .nil) key := by
  intro l
  induction l with
  | nil => intro n key; simp [walkKid, walkE]
  | cons c cs ih =>
    intro n key
    cases n with
    | zero => simp [walkKid]
    | succ n => simp [walkKid, ih]

theorem walkE_annot (ver : Ver) (H : Bytes → Bytes) :
    ∀ (t : Trie) (isRoot : Bool) (key : Nibs), walkE ver isRoot (annot ver H t) key = walk ver H isRoot t key := by
  intro t
  induction t with
  | nil => intro isRoot key; simp [annot, walkE, walk]
  | leaf pk v => intro isRoot key; simp [annot, walkE, walk]
  | branch pk v cs ih =>
    intro isRoot key
    have henc : encBranch ver H pk v (bitmap cs) ((List.finRange 16).map fun i => annot ver H (cs i)) =
        encodeNode ver H (.branch pk v cs) := annot_enc ver H (.branch pk v cs)
    simp only [annot, walkE, walk, henc]
    split
    · rfl
    · split
      · rfl
      · cases hd : key.drop (Trie.lcpLen pk key) with
        | nil => rfl
        | cons i rest =>
          simp only [walkKid_eq]
          have : ((List.finRange 16).map fun i => annot ver H (cs i)).getD i.val .nil = annot ver H (cs i) := by
            simp [List.getD_eq_getElem?_getD]
          rw [this, ih i false rest]

theorem generateFromE_annot (ver : Ver) (H : Bytes → Bytes) (t : Trie) :
    ∀ (ks : List Bytes) (st : List Bytes × List Bytes),
      generateFromE ver H (annot ver H t) st ks = generateFrom ver H t st ks := by
  intro ks
  induction ks with
  | nil => intro st; rfl
  | cons k ks ih =>
    intro st
    simp only [generateFromE, generateFrom, walkE_annot]
    cases walk ver H true t (Trie.keyLEToNibbles k) with
    | none => rfl
    | some ns => exact ih _

/-- what the driver computes is `generate` -/
theorem generateE_annot (ver : Ver) (H : Bytes → Bytes) (t : Trie) (ks : List Bytes) :
    generateE ver H (annot ver H t) ks = generate ver H t ks :=
  generateFromE_annot ver H t ks ([], [])

/-- the root hash the driver uses is `hashTrie` -/
theorem root_annot (ver : Ver) (H : Bytes → Bytes) (t : Trie) : H (annot ver H t).enc = hashTrie ver H t := by
  rw [annot_enc]; rfl

end Gossamer.C05
