/-
C08: Go `map[string]T` / `map[string]bool` / sorted `[]string` as key-sorted association lists over
byte-string keys.  Core Lean only.  The lists are kept strictly ascending by `klt`, so that a Go map
has exactly one representation; Go's (random) map iteration order is a separate parameter of the
functions that range over a map.
-/
import Gossamer.Lib.TrieSpec
namespace Gossamer.C08
open Gossamer

/-- `map[string]T` -/
abbrev KMap (α : Type) := List (Bytes × α)

namespace KMap
variable {α : Type}

def find (k : Bytes) : KMap α → Option α
  | [] => none
  | e :: r => if e.1 = k then some e.2 else find k r

def has (k : Bytes) (m : KMap α) : Bool := (find k m).isSome

/-- `m[k] = v` -/
def ins (k : Bytes) (v : α) : KMap α → KMap α
  | [] => [(k, v)]
  | e :: r =>
    if e.1 = k then (k, v) :: r
    else if klt k e.1 then (k, v) :: e :: r
    else e :: ins k v r

/-- `delete(m, k)` -/
def del (k : Bytes) (m : KMap α) : KMap α := m.filter (fun e => !(e.1 == k))

def keys (m : KMap α) : List Bytes := m.map (·.1)

end KMap

/-- `map[string]bool` whose present keys all map to `true`; also a sorted `[]string` -/
abbrev KSet := List Bytes

namespace KSet

def has (k : Bytes) (s : KSet) : Bool := s.contains k

/-- insert keeping the list strictly ascending (`insertSortedKey`) -/
def ins (k : Bytes) : KSet → KSet
  | [] => [k]
  | e :: r =>
    if e = k then e :: r
    else if klt k e then k :: e :: r
    else e :: ins k r

/-- `removeSortedKey` / `delete(m, k)` -/
def del (k : Bytes) (s : KSet) : KSet := s.filter (fun e => !(e == k))

end KSet

/-- `sort.Strings` on a slice that may contain duplicates (insertion sort keeps them) -/
def insDup (k : Bytes) : List Bytes → List Bytes
  | [] => [k]
  | e :: r => if klt e k then e :: insDup k r else k :: e :: r

def sortKeys (l : List Bytes) : List Bytes := l.foldr insDup []

/-- `slices.BinarySearch(sorted, key)`: position of the first element `≥ key`, and whether it
    equals `key` (on a strictly ascending slice this is what the binary search returns) -/
def bsearch (key : Bytes) (sorted : List Bytes) : Nat × Bool :=
  let pos := (sorted.takeWhile (fun e => klt e key)).length
  (pos, sorted[pos]? == some key)

/-- the element the Go code reads after the binary search: `sorted[pos (+1 if found)]` -/
def nextSorted (key : Bytes) (sorted : List Bytes) : Option Bytes :=
  let r := bsearch key sorted
  let pos := if r.2 then r.1 + 1 else r.1
  sorted[pos]?

end Gossamer.C08
