/-
Protocol-buffers wire format (varint keys, varint and length-delimited fields) and the block
request / response messages of `dot/network/proto/api.v1.proto`, written from the .proto file and
the protobuf encoding specification — the reference encoder / decoder of property C14 for the
non-SCALE messages.  proto3 rules: a scalar equal to zero and an empty `bytes` field are not
written, every element of a repeated field is written, a set `oneof` member is always written.

The decoder is order-insensitive (fields are folded into the message in whatever order they
arrive; last one wins for singular fields, repeated fields append, unknown fields are skipped), as
the wire format demands.  Two encoders are given: field-number order (`encode`, what prost emits)
and protobuf-go's order (`encodeGo`: members of a `oneof` after the plain fields); both round-trip.

Core Lean only.
-/
import Gossamer.Lib.Scale.Basic
namespace Gossamer.Proto
open Gossamer Gossamer.Scale

/-! ## varints -/

/-- base-128 varint, least significant group first -/
def varint (n : Nat) : Bytes :=
  if n < 128 then [UInt8.ofNat n] else UInt8.ofNat (128 + n % 128) :: varint (n / 128)
decreasing_by omega

def unvarint : Bytes → Option (Nat × Bytes)
  | [] => none
  | b :: r =>
    if b.toNat < 128 then some (b.toNat, r)
    else
      match unvarint r with
      | none => none
      | some (n, r') => some (b.toNat - 128 + 128 * n, r')

theorem varint_lt {n : Nat} (h : n < 128) : varint n = [UInt8.ofNat n] := by
  rw [varint]; simp [h]

theorem varint_ge {n : Nat} (h : ¬ n < 128) :
    varint n = UInt8.ofNat (128 + n % 128) :: varint (n / 128) := by
  rw [varint]; simp [h]

theorem varint_ne_nil (n : Nat) : varint n ≠ [] := by
  by_cases h : n < 128
  · rw [varint_lt h]; simp
  · rw [varint_ge h]; simp

theorem unvarint_varint (n : Nat) (r : Bytes) : unvarint (varint n ++ r) = some (n, r) := by
  induction n using Nat.strongRecOn with
  | _ n ih =>
    by_cases h : n < 128
    · rw [varint_lt h]
      have : (UInt8.ofNat n).toNat = n := toNat_ofNat_lt (by omega)
      simp [unvarint, this, h]
    · rw [varint_ge h]
      have e : (UInt8.ofNat (128 + n % 128)).toNat = 128 + n % 128 := toNat_ofNat_lt (by omega)
      have hn : ¬ (128 + n % 128 < 128) := by omega
      simp only [List.cons_append, unvarint, e, hn, if_false]
      rw [ih (n / 128) (by omega) ]
      simp only [Option.some.injEq, Prod.mk.injEq, and_true]
      omega

/-! ## fields -/

inductive WVal
  | varint (n : Nat)
  | len (b : Bytes)
deriving DecidableEq, Repr

structure WField where
  num : Nat
  val : WVal
deriving DecidableEq, Repr

def encField (f : WField) : Bytes :=
  match f.val with
  | .varint n => varint (8 * f.num) ++ varint n
  | .len b => varint (8 * f.num + 2) ++ (varint b.length ++ b)

def encFields : List WField → Bytes
  | [] => []
  | f :: fs => encField f ++ encFields fs

/-- parse a message body into its fields (fuel = an upper bound of the number of fields);
    field number 0, wire types other than 0 and 2, and truncated input are errors -/
def decFields : Nat → Bytes → Option (List WField)
  | 0, bs => if bs = [] then some [] else none
  | fuel + 1, bs =>
    if bs = [] then some []
    else
      match unvarint bs with
      | none => none
      | some (key, r) =>
        if key / 8 = 0 then none
        else if key % 8 = 0 then
          match unvarint r with
          | none => none
          | some (n, r') => (decFields fuel r').map (fun fs => ⟨key / 8, .varint n⟩ :: fs)
        else if key % 8 = 2 then
          match unvarint r with
          | none => none
          | some (l, r') =>
            if l ≤ r'.length then
              (decFields fuel (r'.drop l)).map (fun fs => ⟨key / 8, .len (r'.take l)⟩ :: fs)
            else none
        else none

def parse (bs : Bytes) : Option (List WField) := decFields bs.length bs

theorem encField_ne_nil (f : WField) : encField f ≠ [] := by
  unfold encField
  cases f.val with
  | varint n => simp [varint_ne_nil]
  | len b => simp [varint_ne_nil]

theorem decFields_encField (fuel : Nat) (f : WField) (rest : Bytes) (hn : 1 ≤ f.num) :
    decFields (fuel + 1) (encField f ++ rest) = (decFields fuel rest).map (fun fs => f :: fs) := by
  have hne : encField f ++ rest ≠ [] := by simp [encField_ne_nil]
  obtain ⟨num, val⟩ := f
  simp only at hn
  rw [decFields]
  simp only [hne, if_false]
  cases val with
  | varint n =>
    have h1 : 8 * num / 8 = num := by omega
    have h2 : 8 * num % 8 = 0 := by omega
    have h3 : ¬ num = 0 := by omega
    simp only [encField, List.append_assoc, unvarint_varint, h1, h2, h3, if_false, if_true]
  | len b =>
    have h1 : (8 * num + 2) / 8 = num := by omega
    have h2 : (8 * num + 2) % 8 = 2 := by omega
    have h3 : ¬ num = 0 := by omega
    have h4 : ¬ (2 : Nat) = 0 := by omega
    simp only [encField, List.append_assoc, unvarint_varint, h1, h2, h3, h4, if_false, if_true]
    simp

theorem decFields_encFields (fs : List WField) (hn : ∀ f ∈ fs, 1 ≤ f.num) :
    ∀ fuel, fs.length ≤ fuel → decFields fuel (encFields fs) = some fs := by
  induction fs with
  | nil => intro fuel _; cases fuel <;> simp [encFields, decFields]
  | cons f fs ih =>
    intro fuel hf
    cases fuel with
    | zero => simp at hf
    | succ fuel =>
      simp only [encFields]
      rw [decFields_encField fuel f _ (hn f (by simp))]
      rw [ih (fun g hg => hn g (by simp [hg])) fuel (by simpa using hf)]
      rfl

theorem length_encField_pos (f : WField) : 0 < (encField f).length := by
  have := encField_ne_nil f
  cases h : encField f with
  | nil => exact absurd h this
  | cons _ _ => simp

theorem length_le_encFields (fs : List WField) : fs.length ≤ (encFields fs).length := by
  induction fs with
  | nil => simp [encFields]
  | cons f fs ih =>
    have := length_encField_pos f
    simp only [encFields, List.length_cons, List.length_append]; omega

/-- **wire round trip**: the fields of a message body are read back exactly -/
theorem parse_encFields (fs : List WField) (hn : ∀ f ∈ fs, 1 ≤ f.num) :
    parse (encFields fs) = some fs :=
  decFields_encFields fs hn _ (length_le_encFields fs)

/-! ## BlockRequest -/

inductive FromBlock
  | unset
  | hash (b : Bytes)
  | number (b : Bytes)
deriving DecidableEq, Repr

/-- `message BlockRequest { uint32 fields = 1; oneof from_block { bytes hash = 2; bytes number = 3; }
     Direction direction = 5; uint32 max_blocks = 6; }` -/
structure BlockRequest where
  fields : Nat
  fromBlock : FromBlock
  direction : Nat
  maxBlocks : Nat
deriving DecidableEq, Repr

def scalar (k n : Nat) : List WField := if n = 0 then [] else [⟨k, .varint n⟩]
def optBytes (k : Nat) (b : Bytes) : List WField := if b = [] then [] else [⟨k, .len b⟩]

def FromBlock.toFields : FromBlock → List WField
  | .unset => []
  | .hash b => [⟨2, .len b⟩]
  | .number b => [⟨3, .len b⟩]

/-- fields in field-number order -/
def BlockRequest.toFields (m : BlockRequest) : List WField :=
  scalar 1 m.fields ++ (m.fromBlock.toFields ++ (scalar 5 m.direction ++ scalar 6 m.maxBlocks))

/-- fields in protobuf-go order: the `oneof` member comes last -/
def BlockRequest.toFieldsGo (m : BlockRequest) : List WField :=
  scalar 1 m.fields ++ (scalar 5 m.direction ++ (scalar 6 m.maxBlocks ++ m.fromBlock.toFields))

def BlockRequest.step (m : BlockRequest) (f : WField) : BlockRequest :=
  match f.num, f.val with
  | 1, .varint n => { m with fields := n % 4294967296 }
  | 2, .len b => { m with fromBlock := .hash b }
  | 3, .len b => { m with fromBlock := .number b }
  | 5, .varint n => { m with direction := n }
  | 6, .varint n => { m with maxBlocks := n % 4294967296 }
  | _, _ => m

def BlockRequest.zero : BlockRequest := ⟨0, .unset, 0, 0⟩
def BlockRequest.ofFields (fs : List WField) : BlockRequest := fs.foldl BlockRequest.step .zero

def BlockRequest.encode (m : BlockRequest) : Bytes := encFields m.toFields
def BlockRequest.encodeGo (m : BlockRequest) : Bytes := encFields m.toFieldsGo
def BlockRequest.decode (bs : Bytes) : Option BlockRequest := (parse bs).map BlockRequest.ofFields

/-- `uint32` fields hold 32-bit values -/
def BlockRequest.wf (m : BlockRequest) : Prop := m.fields < 4294967296 ∧ m.maxBlocks < 4294967296

theorem scalar_nums (k n : Nat) (hk : 1 ≤ k) : ∀ f ∈ scalar k n, 1 ≤ f.num := by
  intro f hf; unfold scalar at hf; split at hf <;> simp at hf; subst hf; exact hk

theorem optBytes_nums (k : Nat) (b : Bytes) (hk : 1 ≤ k) : ∀ f ∈ optBytes k b, 1 ≤ f.num := by
  intro f hf; unfold optBytes at hf; split at hf <;> simp at hf; subst hf; exact hk

theorem fromBlock_nums (x : FromBlock) : ∀ f ∈ x.toFields, 1 ≤ f.num := by
  intro f hf; cases x <;> simp [FromBlock.toFields] at hf <;> subst hf <;> simp

theorem BlockRequest.toFields_nums (m : BlockRequest) : ∀ f ∈ m.toFields, 1 ≤ f.num := by
  intro f hf
  simp only [BlockRequest.toFields, List.mem_append] at hf
  rcases hf with h | h | h | h
  · exact scalar_nums 1 _ (by decide) f h
  · exact fromBlock_nums _ f h
  · exact scalar_nums 5 _ (by decide) f h
  · exact scalar_nums 6 _ (by decide) f h

theorem BlockRequest.toFieldsGo_nums (m : BlockRequest) : ∀ f ∈ m.toFieldsGo, 1 ≤ f.num := by
  intro f hf
  simp only [BlockRequest.toFieldsGo, List.mem_append] at hf
  rcases hf with h | h | h | h
  · exact scalar_nums 1 _ (by decide) f h
  · exact scalar_nums 5 _ (by decide) f h
  · exact scalar_nums 6 _ (by decide) f h
  · exact fromBlock_nums _ f h

theorem BlockRequest.ofFields_toFields (m : BlockRequest) (h : m.wf) :
    BlockRequest.ofFields m.toFields = m := by
  obtain ⟨fl, fb, dir, mx⟩ := m
  obtain ⟨h1, h2⟩ := h
  simp only at h1 h2
  have e1 : fl % 4294967296 = fl := Nat.mod_eq_of_lt h1
  have e2 : mx % 4294967296 = mx := Nat.mod_eq_of_lt h2
  by_cases a : fl = 0 <;> by_cases b : dir = 0 <;> by_cases c : mx = 0 <;> cases fb <;>
    simp [BlockRequest.ofFields, BlockRequest.toFields, scalar, FromBlock.toFields, BlockRequest.step,
      BlockRequest.zero, a, b, c, e1, e2]

theorem BlockRequest.ofFields_toFieldsGo (m : BlockRequest) (h : m.wf) :
    BlockRequest.ofFields m.toFieldsGo = m := by
  obtain ⟨fl, fb, dir, mx⟩ := m
  obtain ⟨h1, h2⟩ := h
  simp only at h1 h2
  have e1 : fl % 4294967296 = fl := Nat.mod_eq_of_lt h1
  have e2 : mx % 4294967296 = mx := Nat.mod_eq_of_lt h2
  by_cases a : fl = 0 <;> by_cases b : dir = 0 <;> by_cases c : mx = 0 <;> cases fb <;>
    simp [BlockRequest.ofFields, BlockRequest.toFieldsGo, scalar, FromBlock.toFields,
      BlockRequest.step, BlockRequest.zero, a, b, c, e1, e2]

/-- **BlockRequest round trip**, field-number order -/
theorem BlockRequest.decode_encode (m : BlockRequest) (h : m.wf) :
    BlockRequest.decode m.encode = some m := by
  simp only [BlockRequest.decode, BlockRequest.encode, parse_encFields _ m.toFields_nums,
    Option.map_some, BlockRequest.ofFields_toFields m h]

/-- **BlockRequest round trip**, protobuf-go order -/
theorem BlockRequest.decode_encodeGo (m : BlockRequest) (h : m.wf) :
    BlockRequest.decode m.encodeGo = some m := by
  simp only [BlockRequest.decode, BlockRequest.encodeGo, parse_encFields _ m.toFieldsGo_nums,
    Option.map_some, BlockRequest.ofFields_toFieldsGo m h]

/-! ## BlockData and BlockResponse -/

/-- `message BlockData { bytes hash = 1; bytes header = 2; repeated bytes body = 3; bytes receipt = 4;
     bytes message_queue = 5; bytes justification = 6; bool is_empty_justification = 7; }` -/
structure BlockData where
  hash : Bytes
  header : Bytes
  body : List Bytes
  receipt : Bytes
  messageQueue : Bytes
  justification : Bytes
  isEmptyJustification : Bool
deriving DecidableEq, Repr

def bodyFields (bs : List Bytes) : List WField := bs.map (fun b => ⟨3, .len b⟩)
def flag (k : Nat) (b : Bool) : List WField := if b then [⟨k, .varint 1⟩] else []

def BlockData.toFields (d : BlockData) : List WField :=
  optBytes 1 d.hash ++ (optBytes 2 d.header ++ (bodyFields d.body ++ (optBytes 4 d.receipt ++
    (optBytes 5 d.messageQueue ++ (optBytes 6 d.justification ++ flag 7 d.isEmptyJustification)))))

def BlockData.step (d : BlockData) (f : WField) : BlockData :=
  match f.num, f.val with
  | 1, .len b => { d with hash := b }
  | 2, .len b => { d with header := b }
  | 3, .len b => { d with body := d.body ++ [b] }
  | 4, .len b => { d with receipt := b }
  | 5, .len b => { d with messageQueue := b }
  | 6, .len b => { d with justification := b }
  | 7, .varint n => { d with isEmptyJustification := n != 0 }
  | _, _ => d

def BlockData.zero : BlockData := ⟨[], [], [], [], [], [], false⟩
def BlockData.ofFields (fs : List WField) : BlockData := fs.foldl BlockData.step .zero
def BlockData.encode (d : BlockData) : Bytes := encFields d.toFields
def BlockData.decode (bs : Bytes) : Option BlockData := (parse bs).map BlockData.ofFields

theorem bodyFields_nums (bs : List Bytes) : ∀ f ∈ bodyFields bs, 1 ≤ f.num := by
  intro f hf
  simp only [bodyFields, List.mem_map] at hf
  obtain ⟨b, _, rfl⟩ := hf; simp

theorem flag_nums (k : Nat) (b : Bool) (hk : 1 ≤ k) : ∀ f ∈ flag k b, 1 ≤ f.num := by
  intro f hf; cases b <;> simp [flag] at hf; subst hf; exact hk

theorem BlockData.toFields_nums (d : BlockData) : ∀ f ∈ d.toFields, 1 ≤ f.num := by
  intro f hf
  simp only [BlockData.toFields, List.mem_append] at hf
  rcases hf with h | h | h | h | h | h | h
  · exact optBytes_nums 1 _ (by decide) f h
  · exact optBytes_nums 2 _ (by decide) f h
  · exact bodyFields_nums _ f h
  · exact optBytes_nums 4 _ (by decide) f h
  · exact optBytes_nums 5 _ (by decide) f h
  · exact optBytes_nums 6 _ (by decide) f h
  · exact flag_nums 7 _ (by decide) f h

theorem foldl_bodyFields (d : BlockData) (bs : List Bytes) :
    (bodyFields bs).foldl BlockData.step d = { d with body := d.body ++ bs } := by
  induction bs generalizing d with
  | nil => simp [bodyFields]
  | cons b bs ih =>
    have := ih (BlockData.step d ⟨3, .len b⟩)
    simp only [bodyFields, List.map_cons, List.foldl_cons] at this ⊢
    rw [this]; simp [BlockData.step]

theorem BlockData.ofFields_toFields (d : BlockData) : BlockData.ofFields d.toFields = d := by
  obtain ⟨h, hd, bd, rc, mq, js, ie⟩ := d
  simp only [BlockData.ofFields, BlockData.toFields, List.foldl_append, foldl_bodyFields]
  by_cases a : h = [] <;> by_cases b : hd = [] <;> by_cases c : rc = [] <;> by_cases e : mq = [] <;>
    by_cases g : js = [] <;> cases ie <;>
    simp [optBytes, flag, BlockData.step, BlockData.zero, a, b, c, e, g]

/-- **BlockData round trip** -/
theorem BlockData.decode_encode (d : BlockData) : BlockData.decode d.encode = some d := by
  simp only [BlockData.decode, BlockData.encode, parse_encFields _ d.toFields_nums, Option.map_some,
    BlockData.ofFields_toFields]

/-- `message BlockResponse { repeated BlockData blocks = 1; }` -/
structure BlockResponse where
  blocks : List BlockData
deriving DecidableEq, Repr

def BlockResponse.toFields (r : BlockResponse) : List WField :=
  r.blocks.map (fun d => ⟨1, .len d.encode⟩)

/-- nested messages are parsed in turn; an unparsable block fails the whole response -/
def blocksOfFields : List WField → Option (List BlockData)
  | [] => some []
  | f :: fs =>
    match f.num, f.val with
    | 1, .len b =>
      match BlockData.decode b with
      | none => none
      | some d => (blocksOfFields fs).map (fun ds => d :: ds)
    | _, _ => blocksOfFields fs

def BlockResponse.encode (r : BlockResponse) : Bytes := encFields r.toFields
def BlockResponse.decode (bs : Bytes) : Option BlockResponse :=
  match parse bs with
  | none => none
  | some fs => (blocksOfFields fs).map BlockResponse.mk

theorem BlockResponse.toFields_nums (r : BlockResponse) : ∀ f ∈ r.toFields, 1 ≤ f.num := by
  intro f hf
  simp only [BlockResponse.toFields, List.mem_map] at hf
  obtain ⟨b, _, rfl⟩ := hf; simp

theorem blocksOfFields_toFields (ds : List BlockData) :
    blocksOfFields (ds.map (fun d => (⟨1, .len d.encode⟩ : WField))) = some ds := by
  induction ds with
  | nil => rfl
  | cons d ds ih => simp [blocksOfFields, BlockData.decode_encode, ih]

/-- **BlockResponse round trip** -/
theorem BlockResponse.decode_encode (r : BlockResponse) : BlockResponse.decode r.encode = some r := by
  simp only [BlockResponse.decode, BlockResponse.encode, parse_encFields _ r.toFields_nums]
  simp only [BlockResponse.toFields, blocksOfFields_toFields, Option.map_some]

end Gossamer.Proto
