/-
C26 — per-state lemmas: ancestry through `GetHeader` (`AncI`, `Anc`), soundness of `IsDescendantOf` (block tree
and header-walk fallback), and soundness / completeness / termination of `findAncestor`.  Core Lean only.
-/
import Gossamer.Model.C26
import Gossamer.Lib.C26Db
namespace Gossamer.C26
open Gossamer.C17 (Blk findB)

/-- `a` is the hash `h` or the hash of an ancestor of `h`, following parent links through the headers
    `GetHeader` answers (unfinalised blocks and the header table) -/
inductive AncI (st : St) : Nat → Nat → Prop
  | self {h : Nat} {x : Blk} : getHeader st h = some x → AncI st h h
  | step {a h : Nat} {x : Blk} : getHeader st h = some x → AncI st a x.parent → AncI st a h

/-- `a` lies on `hdr`'s own fork: it is `hdr`'s hash or an ancestor reached from its parent -/
def Anc (st : St) (a : Nat) (hdr : Blk) : Prop := a = hdr.hash ∨ AncI st a hdr.parent

/-- the hash determines the header -/
def Consistent (st : St) (hdr : Blk) : Prop := ∀ x, getHeader st hdr.hash = some x → x = hdr

/-- `hdr.number` is one more than its parent's, when the parent is known -/
def HdrOK (st : St) (hdr : Blk) : Prop := ∀ p, getHeader st hdr.parent = some p → p.number + 1 = hdr.number

/-- well-formedness of the block state part (holds in every reachable state: `C26_wf_reachable`) -/
structure WF (u : Univ) (st : St) : Prop where
  inv : C17.Inv genesis st.bs
  db : DbInv u.blk genesis st.bs
  ugen : u.blk genesis.hash = genesis

theorem getHeader_hash {st : St} {h : Nat} {x : Blk} (hx : getHeader st h = some x) : x.hash = h := by
  unfold getHeader C17.getHeader at hx
  cases hu : findB st.bs.unfin h with
  | some y => simp only [hu, Option.some.injEq] at hx; subst hx; exact (C17.findB_some hu).2
  | none => simp only [hu] at hx; exact (C17.findB_some hx).2

theorem WF.zero {u : Univ} {st : St} (w : WF u st) : getHeader st 0 = none := getHeader_zero w.inv w.db

theorem WF.univ {u : Univ} {st : St} (w : WF u st) {h : Nat} {x : Blk} (hx : getHeader st h = some x) :
    x = u.blk h := (getHeader_univ w.inv w.db hx).1

theorem WF.num {u : Univ} {st : St} (w : WF u st) {h : Nat} {x : Blk} (hx : getHeader st h = some x) :
    HdrOK st x := fun _ hp => getHeader_parent_num w.ugen rfl w.inv w.db hx hp

theorem consistent_of_getHeader {st : St} {h : Nat} {p : Blk} (hp : getHeader st h = some p) :
    Consistent st p := by
  intro x hx
  rw [getHeader_hash hp, hp] at hx
  exact (Option.some.inj hx).symm

/-- a header named through the universe is consistent with what `GetHeader` answers -/
theorem WF.consistent {u : Univ} {st : St} (w : WF u st) {h : Nat} (hh : (u.blk h).hash = h) :
    Consistent st (u.blk h) := by
  intro x hx
  rw [hh] at hx
  exact w.univ hx

theorem WF.hdrOK {u : Univ} {st : St} (w : WF u st) {h : Nat} (hh : (u.blk h).hash = h)
    (hk : (getHeader st h).isSome) : HdrOK st (u.blk h) := by
  obtain ⟨x, hx⟩ := Option.isSome_iff_exists.mp hk
  have := w.univ hx
  rw [← this]
  exact w.num hx

theorem AncI.inv {st : St} {a h : Nat} (H : AncI st a h) :
    ∃ x, getHeader st h = some x ∧ (a = h ∨ AncI st a x.parent) := by
  cases H with
  | self hx => exact ⟨_, hx, .inl rfl⟩
  | step hx hr => exact ⟨_, hx, .inr hr⟩

/-! ### IsDescendantOf -/

/-- every node of the block tree is answered by `GetHeader` with its own record -/
theorem tree_getHeader {st : St} (inv : C17.Inv genesis st.bs) {b : Blk} (hb : b ∈ st.bs.tree) :
    getHeader st b.hash = some b := by
  unfold getHeader C17.getHeader
  by_cases hr : b.hash = st.bs.root
  · rw [hr, inv.rootUnfin]
    simp only
    have : findB st.bs.tree st.bs.root = some b := by rw [← hr]; exact inv.tree.uniq b hb
    exact inv.rootDb b this
  · rw [inv.treeUnfin b hb hr]

theorem ancI_of_up {st : St} (inv : C17.Inv genesis st.bs) : ∀ (fuel : Nat) (b : Blk) (a : Nat),
    b ∈ st.bs.tree → a ∈ C17.upList st.bs fuel b → AncI st a b.hash
  | 0, _, _, _, h => by simp [C17.upList] at h
  | fuel + 1, b, a, hb, h => by
    unfold C17.upList at h
    cases hp : C17.parentNode st.bs b with
    | none =>
      simp only [hp, List.mem_singleton] at h
      rw [h]; exact .self (tree_getHeader inv hb)
    | some p =>
      simp only [hp, List.mem_cons] at h
      rcases h with h | h
      · rw [h]; exact .self (tree_getHeader inv hb)
      · obtain ⟨_, hfp, hpt, _⟩ := C17.parentNode_some inv.tree hb hp
        have ih := ancI_of_up inv fuel p a hpt h
        rw [(C17.findB_some hfp).2] at ih
        exact .step (tree_getHeader inv hb) ih

theorem headerWalk_sound {st : St} {a n : Nat} (ha : (getHeader st a).isSome) : ∀ (fuel : Nat) (cur : Blk),
    getHeader st cur.hash = some cur → headerWalk st a n fuel cur = some true → AncI st a cur.hash
  | 0, _, _, h => by simp [headerWalk] at h
  | fuel + 1, cur, hc, h => by
    unfold headerWalk at h
    by_cases hgt : cur.number > n
    · simp only [hgt, if_true] at h
      by_cases hpa : cur.parent = a
      · obtain ⟨x, hx⟩ := Option.isSome_iff_exists.mp ha
        exact .step hc (by rw [hpa]; exact .self hx)
      · simp only [hpa, if_false] at h
        cases hp : getHeader st cur.parent with
        | none => simp [hp] at h
        | some p =>
          simp only [hp] at h
          have hph := getHeader_hash hp
          have ih := headerWalk_sound ha fuel p (by rw [hph]; exact hp) h
          rw [hph] at ih
          exact .step hc ih
    · simp [hgt] at h

theorem isDesc_sound {st : St} (inv : C17.Inv genesis st.bs) {a d : Nat} (h : isDesc st a d = some true) :
    AncI st a d ∨ a = d := by
  unfold isDesc at h
  by_cases had : a = d
  · exact .inr had
  · simp only [had, if_false] at h
    have fallback : (match getHeader st d, getHeader st a with
        | some dh, some ah => headerWalk st a ah.number (dh.number + 1) dh
        | _, _ => none) = some true → AncI st a d := by
      intro hf
      cases hd : getHeader st d with
      | none => simp [hd] at hf
      | some dh =>
        cases ha : getHeader st a with
        | none => simp [hd, ha] at hf
        | some ah =>
          simp only [hd, ha] at hf
          have hdh := getHeader_hash hd
          have := headerWalk_sound (by rw [ha]; rfl) _ dh (by rw [hdh]; exact hd) hf
          rw [hdh] at this
          exact this
    cases hta : findB st.bs.tree a with
    | none => simp only [hta] at h; exact .inl (fallback h)
    | some an =>
      cases htd : findB st.bs.tree d with
      | none => simp only [hta, htd] at h; exact .inl (fallback h)
      | some dn =>
        simp only [hta, htd, Option.some.injEq, decide_eq_true_eq] at h
        have := ancI_of_up inv _ dn a (C17.findB_some htd).1 h
        rw [(C17.findB_some htd).2] at this
        exact .inl this

theorem hit_sound {st : St} (inv : C17.Inv genesis st.bs) {cur : Blk} (hc : Consistent st cur) {e : Nat × Nat}
    (h : hit st cur.hash e = true) : Anc st e.1 cur := by
  unfold hit at h
  simp only [Bool.or_eq_true, decide_eq_true_eq, beq_iff_eq] at h
  rcases h with h | h
  · exact .inl h
  · rcases isDesc_sound inv h with h | h
    · obtain ⟨x, hx, hr⟩ := h.inv
      rcases hr with hr | hr
      · exact .inl hr
      · rw [hc _ hx] at hr; exact .inr hr
    · exact .inl h

/-! ### findAncestor: soundness, completeness, termination -/

theorem findAnc_sound (st : St) (inv : C17.Inv genesis st.bs) (entries : Entries) : ∀ (f : Nat) (cur : Blk) (c : Entries),
    Consistent st cur → findAnc st entries f cur = .found c →
    c ≠ [] ∧ ∀ x ∈ c, x ∈ entries ∧ Anc st x.1 cur
  | 0, _, _, _, h => by simp [findAnc] at h
  | f + 1, cur, c, hc, h => by
    unfold findAnc at h
    simp only at h
    by_cases hne : entries.filter (hit st cur.hash) ≠ []
    · rw [if_pos hne] at h
      cases h
      refine ⟨hne, fun x hx => ?_⟩
      have := List.mem_filter.mp hx
      exact ⟨this.1, hit_sound inv hc this.2⟩
    · simp only [hne, if_false] at h
      by_cases hp0 : cur.parent = 0
      · simp [hp0] at h
      · simp only [hp0, if_false] at h
        cases hp : getHeader st cur.parent with
        | none => simp [hp] at h
        | some p =>
          simp only [hp] at h
          have ih := findAnc_sound st inv entries f p c (consistent_of_getHeader hp) h
          refine ⟨ih.1, fun x hx => ⟨(ih.2 x hx).1, ?_⟩⟩
          rcases (ih.2 x hx).2 with he | he
          · refine .inr ?_
            rw [he, getHeader_hash hp]
            exact .self hp
          · exact .inr (.step hp he)

theorem findAnc_complete (st : St) (hz : getHeader st 0 = none) (entries : Entries) : ∀ (f : Nat) (cur : Blk),
    findAnc st entries f cur = .errHash → ∀ x ∈ entries, ¬ Anc st x.1 cur
  | 0, _, h => by simp [findAnc] at h
  | f + 1, cur, h => by
    unfold findAnc at h
    simp only at h
    by_cases hne : entries.filter (hit st cur.hash) ≠ []
    · simp [hne] at h
    · simp only [hne, if_false] at h
      have hnil : entries.filter (hit st cur.hash) = [] := by simpa using hne
      have hmiss : ∀ x ∈ entries, x.1 ≠ cur.hash := by
        intro x hx heq
        have hh : hit st cur.hash x = true := by simp [hit, heq]
        have : x ∈ entries.filter (hit st cur.hash) := List.mem_filter.mpr ⟨hx, hh⟩
        rw [hnil] at this
        exact absurd this (by simp)
      by_cases hp0 : cur.parent = 0
      · intro x hx ha
        rcases ha with ha | ha
        · exact hmiss x hx ha
        · rw [hp0] at ha
          obtain ⟨y, hy, _⟩ := ha.inv
          rw [hz] at hy
          cases hy
      · simp only [hp0, if_false] at h
        cases hp : getHeader st cur.parent with
        | none => simp [hp] at h
        | some p =>
          simp only [hp] at h
          have ih := findAnc_complete st hz entries f p h
          intro x hx ha
          rcases ha with ha | ha
          · exact hmiss x hx ha
          · obtain ⟨y, hy, hr⟩ := ha.inv
            rw [hp] at hy
            cases hy
            rcases hr with hr | hr
            · exact ih x hx (.inl (hr.trans (getHeader_hash hp).symm))
            · exact ih x hx (.inr hr)

theorem findAnc_fuel {u : Univ} (st : St) (w : WF u st) (entries : Entries) : ∀ (f : Nat) (cur : Blk),
    HdrOK st cur → cur.number < f → findAnc st entries f cur ≠ .outOfFuel
  | 0, _, _, hlt => by omega
  | f + 1, cur, hok, hlt => by
    unfold findAnc
    simp only
    by_cases hne : entries.filter (hit st cur.hash) ≠ []
    · simp [hne]
    · simp only [hne, if_false]
      by_cases hp0 : cur.parent = 0
      · simp [hp0]
      · simp only [hp0, if_false]
        cases hp : getHeader st cur.parent with
        | none => simp
        | some p =>
          simp only
          have := hok p hp
          exact findAnc_fuel st w entries f p (w.num hp) (by omega)

theorem findAnc_mono (st : St) (entries : Entries) : ∀ (f f' : Nat) (cur : Blk),
    findAnc st entries f cur ≠ .outOfFuel → f ≤ f' → findAnc st entries f' cur = findAnc st entries f cur
  | 0, _, _, h, _ => by simp [findAnc] at h
  | f + 1, 0, _, _, hle => by omega
  | f + 1, f' + 1, cur, h, hle => by
    unfold findAnc at h ⊢
    simp only at h ⊢
    by_cases hne : entries.filter (hit st cur.hash) ≠ []
    · simp [hne]
    · simp only [hne, if_false] at h ⊢
      by_cases hp0 : cur.parent = 0
      · simp [hp0]
      · simp only [hp0, if_false] at h ⊢
        cases hp : getHeader st cur.parent with
        | none => simp
        | some p =>
          simp only [hp] at h ⊢
          exact findAnc_mono st entries f f' p h (by omega)

/-- `findAncestor` only reads the block state -/
theorem findAnc_congr {st st' : St} (h : st'.bs = st.bs) (entries : Entries) (f : Nat) (cur : Blk) :
    findAnc st' entries f cur = findAnc st entries f cur := by
  have hg : ∀ x, getHeader st' x = getHeader st x := fun x => by unfold getHeader; rw [h]
  have hw : ∀ a n fuel c, headerWalk st' a n fuel c = headerWalk st a n fuel c := by
    intro a n fuel
    induction fuel with
    | zero => intro c; rfl
    | succ k ih =>
      intro c
      unfold headerWalk
      rw [hg]
      cases getHeader st c.parent with
      | none => rfl
      | some p => simp only [ih]
  have hd : ∀ a d, isDesc st' a d = isDesc st a d := by
    intro a d
    unfold isDesc
    rw [h, hg, hg]
    cases getHeader st d with
    | none => rfl
    | some dh =>
      cases getHeader st a with
      | none => rfl
      | some ah => simp only [hw]
  have hh : ∀ c, hit st' c = hit st c := by
    intro c; funext e; unfold hit; rw [hd]
  induction f generalizing cur with
  | zero => rfl
  | succ k ih =>
    unfold findAnc
    rw [hh, hg]
    cases getHeader st cur.parent with
    | none => rfl
    | some p => simp only [ih]

end Gossamer.C26
