/-
C22 library: a concrete execution of the abstract protocol (non-vacuity of the safety theorem).
4 voters of weight 1, voter 3 Byzantine; the fork 0 ← 1 ← 2, 1 ← 3.  Voters 0 and 1 and the Byzantine voter
prevote and precommit block 1; voter 0 finalises block 1, leaves round 0 with estimate 1 (the round is
closable: block 1 has a supermajority of the prevotes and neither child of block 1 can get a supermajority
of precommits any more) and prevotes block 3, a descendant of its estimate, in round 1.
-/
import Gossamer.Lib.C22Inv
import Gossamer.Lib.C22Possible
namespace Gossamer.C22
namespace Example

instance (vs : Voters) (v : Nat) : Decidable (vs.honest v) := by unfold Voters.honest; infer_instance

def vs : Voters := ⟨[0, 1, 2, 3], fun _ => 1, fun v => v == 3⟩

/-- the fork 0 ← 1 ← 2, 1 ← 3 as an order on `Fin 4` -/
def fork4 : BlockOrder (Fin 4) where
  le := fun a b => anc [0, 1, 1] a.val b.val
  refl := by decide
  trans := by decide
  chain := by decide

abbrev M := Msg (Fin 4)
def m1 : M := ⟨0, .prevote, 0, 1⟩
def m2 : M := ⟨0, .prevote, 1, 1⟩
def m3 : M := ⟨0, .prevote, 3, 1⟩
def m4 : M := ⟨0, .precommit, 0, 1⟩
def m5 : M := ⟨0, .precommit, 1, 1⟩
def m6 : M := ⟨0, .precommit, 3, 1⟩
def m7 : M := ⟨1, .prevote, 0, 3⟩

def t0 : State (Fin 4) := State.init
def t1 := cast t0 m1
def t2 := cast t1 m2
def t3 : State (Fin 4) := { t2 with sent := m3 :: t2.sent, net := m3 :: t2.net }
def t4 : State (Fin 4) := { t3 with view := upd t3.view 0 (m2 :: t3.view 0) }
def t5 : State (Fin 4) := { t4 with view := upd t4.view 0 (m3 :: t4.view 0) }
def t6 : State (Fin 4) := { t5 with view := upd t5.view 1 (m1 :: t5.view 1) }
def t7 : State (Fin 4) := { t6 with view := upd t6.view 1 (m3 :: t6.view 1) }
def t8 := cast t7 m4
def t9 := cast t8 m5
def t10 : State (Fin 4) := { t9 with sent := m6 :: t9.sent, net := m6 :: t9.net }
def t11 : State (Fin 4) := { t10 with view := upd t10.view 0 (m5 :: t10.view 0) }
def t12 : State (Fin 4) := { t11 with view := upd t11.view 0 (m6 :: t11.view 0) }
def t13 : State (Fin 4) := { t12 with fin := upd t12.fin 0 (1 :: t12.fin 0) }
def t14 : State (Fin 4) := { t13 with est := upd t13.est 0 (upd (t13.est 0) (t13.round 0) (some 1)),
                                       round := upd t13.round 0 (t13.round 0 + 1) }
def t15 := cast t14 m7

theorem st1 : Step vs fork4 t0 t1 :=
  Step.prevote t0 0 1 (by decide) (by decide) (by intro q hq; simp [t0, State.init] at hq)
theorem r1 : Reachable vs fork4 t1 := .step _ _ .init st1

theorem st2 : Step vs fork4 t1 t2 :=
  Step.prevote t1 1 1 (by decide) (by decide) (by intro q hq; simp [t1, t0, State.init, Gossamer.C22.cast] at hq)
theorem r2 : Reachable vs fork4 t2 := .step _ _ r1 st2
theorem st3 : Step vs fork4 t2 t3 :=
  Step.byzCast t2 m3 (by decide)
theorem r3 : Reachable vs fork4 t3 := .step _ _ r2 st3
theorem st4 : Step vs fork4 t3 t4 :=
  Step.deliver t3 m2 0 (by decide)
theorem r4 : Reachable vs fork4 t4 := .step _ _ r3 st4
theorem st5 : Step vs fork4 t4 t5 :=
  Step.deliver t4 m3 0 (by decide)
theorem r5 : Reachable vs fork4 t5 := .step _ _ r4 st5
theorem st6 : Step vs fork4 t5 t6 :=
  Step.deliver t5 m1 1 (by decide)
theorem r6 : Reachable vs fork4 t6 := .step _ _ r5 st6
theorem st7 : Step vs fork4 t6 t7 :=
  Step.deliver t6 m3 1 (by decide)
theorem r7 : Reachable vs fork4 t7 := .step _ _ r6 st7
theorem st8 : Step vs fork4 t7 t8 :=
  Step.precommit t7 0 1 (by decide) (by decide) (by decide)
    (by intro q hq; have h0 : t7.round 0 = 0 := by decide
        rw [h0] at hq; omega)
theorem r8 : Reachable vs fork4 t8 := .step _ _ r7 st8
theorem st9 : Step vs fork4 t8 t9 :=
  Step.precommit t8 1 1 (by decide) (by decide) (by decide)
    (by intro q hq; have h0 : t8.round 1 = 0 := by decide
        rw [h0] at hq; omega)
theorem r9 : Reachable vs fork4 t9 := .step _ _ r8 st9
theorem st10 : Step vs fork4 t9 t10 :=
  Step.byzCast t9 m6 (by decide)
theorem r10 : Reachable vs fork4 t10 := .step _ _ r9 st10
theorem st11 : Step vs fork4 t10 t11 :=
  Step.deliver t10 m5 0 (by decide)
theorem r11 : Reachable vs fork4 t11 := .step _ _ r10 st11
theorem st12 : Step vs fork4 t11 t12 :=
  Step.deliver t11 m6 0 (by decide)
theorem r12 : Reachable vs fork4 t12 := .step _ _ r11 st12
theorem st13 : Step vs fork4 t12 t13 :=
  Step.finalise t12 0 0 1 (by decide) (by decide)
theorem r13 : Reachable vs fork4 t13 := .step _ _ r12 st13
theorem st14 : Step vs fork4 t13 t14 :=
  Step.advance t13 0 1 1 (by decide)
    (closable_of_computed vs fork4 _ _ 1 1 (by decide) (by decide) (by decide))
theorem r14 : Reachable vs fork4 t14 := .step _ _ r13 st14
theorem st15 : Step vs fork4 t14 t15 :=
  Step.prevote t14 0 3 (by decide) (by decide)
    (by intro q hq; have h0 : t14.round 0 = 1 := by decide
        rw [h0] at hq
        have : q = 0 := by omega
        subst this
        exact ⟨1, by decide, by decide⟩)
theorem r15 : Reachable vs fork4 t15 := .step _ _ r14 st15

end Example

end Gossamer.C22
