/-
C03: one operation on a state that satisfies the invariant `SInv` — the invariant is kept, and the
other live handles see the same entries and the same root hash.
-/
import Gossamer.Lib.C03Inv
namespace Gossamer.C03
open Gossamer Gossamer.Trie Gossamer.TrieHeap

/-- the cells strictly below `ρ` -/
def PD (hp : Heap) (ρ : Nat) (a : Nat) : Prop := ∃ i c, (hp.get ρ).kids i = some c ∧ Reach hp c a

theorem view_PD (hp : Heap) (ρ : Nat) : View hp (PD hp ρ) ρ where
  closed := by
    rintro a ⟨i, c, hk, hr⟩ j x hx
    exact ⟨i, c, hk, hr.tail j hx⟩
  kids := fun i c hk => ⟨i, c, hk, Reach.refl c⟩

theorem PD_reach {hp : Heap} {ρ a : Nat} (h : PD hp ρ a) : Reach hp ρ a := by
  obtain ⟨i, c, hk, hr⟩ := h
  exact Reach.step i hk hr

/-- what an operation must leave alone for the live handle `k` with info `y` -/
structure Same (H : Bytes → Bytes) (s s' : St) (k : Nat) (y : HInfo) (actorRoot : Option Nat) : Prop where
  live : Live s' k y
  entries : entries s'.hp y.t.root = entries s.hp y.t.root
  hash : ∀ ρ, y.t.root = some ρ → (∀ r, actorRoot = some r → ¬ PD s.hp ρ r) →
    ∀ m, RVal H s.hp ρ m ↔ RVal H s'.hp ρ m

theorem live_lt {s : St} {i : Nat} {x : HInfo} (h : Live s i x) : i < s.hs.length := by
  by_cases hlt : i < s.hs.length
  · exact hlt
  · have := h.1
    rw [List.getElem?_eq_none (by omega)] at this; cases this

theorem live_setHandle {s : St} {hp' : Heap} {h : Nat} {x : HInfo} {t' : Handle} (hl : Live s h x)
    (i : Nat) (y : HInfo) :
    Live (s.setHandle hp' h x t') i y ↔ (i = h ∧ y = { x with t := t' }) ∨ (i ≠ h ∧ Live s i y) := by
  unfold Live St.setHandle
  simp only [getElem?_setAt]
  have hlt := live_lt hl
  by_cases hi : i = h
  · subst hi
    rw [if_pos ⟨rfl, hlt⟩]
    constructor
    · rintro ⟨h1, _⟩
      left; exact ⟨rfl, (Option.some.inj h1).symm⟩
    · rintro (⟨_, rfl⟩ | ⟨hne, _⟩)
      · exact ⟨rfl, hl.2⟩
      · exact absurd rfl hne
  · rw [if_neg (fun hh => hi hh.1)]
    constructor
    · intro hh; right; exact ⟨hi, hh⟩
    · rintro (⟨he, _⟩ | ⟨_, hh⟩)
      · exact absurd he hi
      · exact hh

theorem parents_setAt {hs : List HInfo} {h : Nat} {x x' : HInfo} (hx : hs[h]? = some x)
    (hp : x'.parent = x.parent) (i : Nat) :
    ((setAt hs h x')[i]?).map HInfo.parent = (hs[i]?).map HInfo.parent := by
  rw [getElem?_setAt]
  split
  · rename_i hc
    obtain ⟨rfl, _⟩ := hc
    rw [hx]; simp [hp]
  · rfl

/-- everything reachable from a usable address is usable -/
theorem reach_inW {F : Frame} {hp : Heap} (hg : Good F hp) {r a : Nat} (hr : InW F hp r)
    (h : Reach hp r a) : InW F hp a := by
  induction h with
  | refl => exact hr
  | step i hk _ ih => exact ih (hg.kids _ hr.1 i _ hk)

/-- a mutating method on the live handle `h`, which has no live snapshot below it -/
theorem mut_step {H : Bytes → Bytes} {s : St} (hI : SInv s) {h : Nat} {x : HInfo} (hl : Live s h x)
    {hp' : Heap} {t' : Handle} (hok : TopOK H s.hp x.t hp' t')
    (hguard : ∀ j y, Live s j y → ¬ Anc s.hs h j) :
    SInv (s.setHandle hp' h x t') ∧
    ∀ k y, Live s k y → k ≠ h → Same H s (s.setHandle hp' h x t') k y x.t.root := by
  have hlive := live_setHandle (hp' := hp') (t' := t') hl
  have hanc : ∀ a i, Anc (s.setHandle hp' h x t').hs a i ↔ Anc s.hs a i :=
    Anc.congr_iff (parents_setAt hl.1 rfl)
  -- the cells of the other handles are old and not owned
  have hother : ∀ k y, Live s k y → k ≠ h → ∀ a, ReachO s.hp y.t.root a →
      a < s.hp.size ∧ ¬ (frameOf H s.hp x.t).Own0 a := by
    intro k y hk hne a ha
    refine ⟨reachO_lt hI.wf (hI.roots k y hk) ha, ?_⟩
    rintro ⟨hr0, hgen⟩
    exact hI.sep h x k y hl hk (Ne.symm hne) (hguard k y hk) a hr0 hgen ha
  have hsame : ∀ k y, Live s k y → k ≠ h → ∀ a, ReachO s.hp y.t.root a →
      (hp'.get a).strip = (s.hp.get a).strip := by
    intro k y hk hne a ha
    obtain ⟨h1, h2⟩ := hother k y hk hne a ha
    exact (hok.good.frame a h1 h2).1
  have hreach : ∀ k y, Live s k y → k ≠ h → ∀ a, ReachO hp' y.t.root a ↔ ReachO s.hp y.t.root a :=
    fun k y hk hne a => reachO_iff_of_strip (hsame k y hk hne) a
  -- the cells of the handle itself are in the region of the operation
  have hmine : ∀ a, ReachO hp' t'.root a → InW (frameOf H s.hp x.t) hp' a := by
    intro a ha
    cases hr : t'.root with
    | none => rw [hr] at ha; exact ha.elim
    | some r => rw [hr] at ha; exact reach_inW hok.good (hok.root r hr) ha
  have hmineGen : ∀ a, ReachO hp' t'.root a → (hp'.get a).gen ≤ x.t.gen ∧
      ((hp'.get a).gen = x.t.gen → s.hp.size ≤ a ∨ (frameOf H s.hp x.t).Own0 a) := by
    intro a ha
    have hw := hmine a ha
    by_cases hlt : a < s.hp.size
    · have hg := hok.good.gen a hlt
      have hr0 : ReachO s.hp x.t.root a := by
        rcases hw.1 with h1 | h1
        · exact h1
        · have h1' : s.hp.size ≤ a := h1
          omega
      have hg' : (hp'.get a).gen = (s.hp.get a).gen := hg
      refine ⟨by rw [hg']; exact hI.genBound h x hl a hr0, fun he => Or.inr ⟨hr0, ?_⟩⟩
      show (s.hp.get a).gen = x.t.gen
      rw [← hg']; exact he
    · have hf := hok.good.fresh a (by show s.hp.size ≤ a; omega) hw.2
      exact ⟨by rw [hf]; exact Nat.le_refl _, fun _ => Or.inl (by omega)⟩
  refine ⟨⟨hok.good.wf, ?_, ?_, ?_, ?_⟩, ?_⟩
  · -- roots
    intro i y hy r hr
    rcases (hlive i y).mp hy with ⟨rfl, rfl⟩ | ⟨hne, hy'⟩
    · exact (hok.root r hr).2
    · exact Nat.lt_of_lt_of_le (hI.roots i y hy' r hr) hok.good.size
  · -- genBound
    intro i y hy a ha
    rcases (hlive i y).mp hy with ⟨rfl, rfl⟩ | ⟨hne, hy'⟩
    · show (hp'.get a).gen ≤ t'.gen
      rw [hok.gen]; exact (hmineGen a ha).1
    · have ha' := (hreach i y hy' hne a).mp ha
      have hlt := (hother i y hy' hne a ha').1
      show (hp'.get a).gen ≤ y.t.gen
      rw [hok.good.gen a hlt]; exact hI.genBound i y hy' a ha'
  · -- sep
    intro i y j z hy hz hij hnanc a ha hgen hb
    rw [hanc] at hnanc
    rcases (hlive i y).mp hy with ⟨rfl, rfl⟩ | ⟨hne, hy'⟩
    · rcases (hlive j z).mp hz with ⟨rfl, _⟩ | ⟨hnej, hz'⟩
      · exact hij rfl
      · have hb' := (hreach j z hz' hnej a).mp hb
        have hold := hother j z hz' hnej a hb'
        have hgen' : (hp'.get a).gen = x.t.gen := by rw [← hok.gen]; exact hgen
        rcases (hmineGen a ha).2 hgen' with hfr | hown
        · exact absurd hold.1 (by omega)
        · exact hold.2 hown
    · have ha' := (hreach i y hy' hne a).mp ha
      have hlt := (hother i y hy' hne a ha').1
      have hgen' : (s.hp.get a).gen = y.t.gen := by
        have hg' : (hp'.get a).gen = (s.hp.get a).gen := hok.good.gen a hlt
        rw [← hg']; exact hgen
      rcases (hlive j z).mp hz with ⟨rfl, rfl⟩ | ⟨hnej, hz'⟩
      · -- the other handle owns `a`, which the operated handle now reaches
        have hw := hmine a hb
        have hr0 : ReachO s.hp x.t.root a := by
          rcases hw.1 with h1 | h1
          · exact h1
          · have h1' : s.hp.size ≤ a := h1
            omega
        exact hI.sep i y j x hy' hl hij hnanc a ha' hgen' hr0
      · have hb' := (hreach j z hz' hnej a).mp hb
        exact hI.sep i y j z hy' hz' hij hnanc a ha' hgen' hb'
  · -- parentLt
    intro i y p hy hp
    have := parents_setAt (x' := { x with t := t' }) hl.1 rfl i
    show p < i
    have hy2 : (setAt s.hs h { x with t := t' })[i]? = some y := hy
    rw [hy2] at this
    cases hs : s.hs[i]? with
    | none => rw [hs] at this; simp at this
    | some y0 =>
      rw [hs] at this
      simp only [Option.map_some, Option.some.injEq] at this
      exact hI.parentLt i y0 p hs (this ▸ hp)
  · -- the other handles
    intro k y hk hne
    refine ⟨(hlive k y).mpr (Or.inr ⟨hne, hk⟩), entries_congr y.t.root (hsame k y hk hne), ?_⟩
    intro ρ hρ hnk m
    have had : (frameOf H s.hp x.t).Adm (PD s.hp ρ) ρ := by
      refine ⟨view_PD s.hp ρ, ?_, fun r hr => hnk r hr⟩
      intro a ha
      have hra : ReachO s.hp y.t.root a := by
        rw [hρ]
        rcases ha with ha | rfl
        · exact PD_reach ha
        · exact Reach.refl _
      exact hother k y hk hne a hra
    exact (hok.good.views _ ρ had).rval_iff (view_PD s.hp ρ) m

/-! ### operations that only touch caches: `Hash`, `WriteDirty` -/

theorem reachO_cacheOnly {hp hp' : Heap} (hc : CacheOnly hp hp') (root : Option Nat) (a : Nat) :
    ReachO hp' root a ↔ ReachO hp root a :=
  reachO_iff_of_strip (fun b _ => hc.cell b) a

theorem cache_inv {s : St} (hI : SInv s) {hp' : Heap} (hc : CacheOnly s.hp hp') :
    SInv { s with hp := hp' } ∧
    ∀ k y, Live s k y → Live { s with hp := hp' } k y ∧ entries hp' y.t.root = entries s.hp y.t.root := by
  refine ⟨⟨?_, ?_, ?_, ?_, hI.parentLt⟩, ?_⟩
  · intro a ha i x hx
    show x < hp'.size
    rw [hc.size] at ha ⊢
    rw [strip_kids (hc.cell a)] at hx
    exact hI.wf a ha i x hx
  · intro i y hy r hr
    show r < hp'.size
    rw [hc.size]; exact hI.roots i y hy r hr
  · intro i y hy a ha
    show (hp'.get a).gen ≤ y.t.gen
    rw [strip_gen (hc.cell a)]
    exact hI.genBound i y hy a ((reachO_cacheOnly hc _ a).mp ha)
  · intro i y j z hy hz hij hn a ha hgen hb
    have hgen' : (s.hp.get a).gen = y.t.gen := by rw [← strip_gen (hc.cell a)]; exact hgen
    exact hI.sep i y j z hy hz hij hn a ((reachO_cacheOnly hc _ a).mp ha) hgen'
      ((reachO_cacheOnly hc _ a).mp hb)
  · intro k y hk
    exact ⟨hk, entries_congr y.t.root (fun b _ => hc.cell b)⟩

theorem cache_step {H : Bytes → Bytes} {s : St} (hI : SInv s) {hp' : Heap} (hc : CacheOnly s.hp hp')
    (actorRoot : Option Nat)
    (hvp : ∀ ρ, (∀ r, actorRoot = some r → ¬ PD s.hp ρ r) → VP H (PD s.hp ρ) ρ s.hp hp') :
    SInv { s with hp := hp' } ∧ ∀ k y, Live s k y → Same H s { s with hp := hp' } k y actorRoot := by
  obtain ⟨h1, h2⟩ := cache_inv hI hc
  refine ⟨h1, fun k y hk => ⟨(h2 k y hk).1, (h2 k y hk).2, ?_⟩⟩
  intro ρ _ hnk m
  exact (hvp ρ hnk).rval_iff (view_PD s.hp ρ) m

theorem hash_step {H : Bytes → Bytes} {s : St} (hI : SInv s) (t : Handle) :
    SInv { s with hp := (hash H s.hp t).1 } ∧
    ∀ k y, Live s k y → Same H s { s with hp := (hash H s.hp t).1 } k y t.root :=
  cache_step hI (mvOnly_hash H s.hp t).cacheOnly t.root (fun ρ hnk => hash_vp (view_PD s.hp ρ) t hnk)

theorem wd_step {H : Bytes → Bytes} {s : St} (hI : SInv s) (t : Handle) :
    SInv { s with hp := (writeDirty H s.hp [] t).1 } ∧
    ∀ k y, Live s k y → Same H s { s with hp := (writeDirty H s.hp [] t).1 } k y t.root :=
  cache_step hI (writeDirty_cacheOnly H s.hp [] t) t.root
    (fun ρ hnk => writeDirty_vp (view_PD s.hp ρ) [] t hnk)

/-- `hashall`: only caches change -/
theorem hashAll_go_cacheOnly (H : Bytes → Bytes) : ∀ (l : List HInfo) (i : Nat) (hp : Heap),
    CacheOnly hp (hashAll.go H i hp l).1
  | [], _, hp => CacheOnly.refl hp
  | x :: r, i, hp => by
    unfold hashAll.go
    split
    · exact (mvOnly_hash H hp x.t).cacheOnly.trans (hashAll_go_cacheOnly H r (i + 1) _)
    · exact hashAll_go_cacheOnly H r (i + 1) hp

/-! ### `Snapshot`, `SetVersion`, dropping a handle -/

theorem snap_step {H : Bytes → Bytes} {s : St} (hI : SInv s) {h : Nat} {x : HInfo} (hl : Live s h x) :
    SInv { s with hs := s.hs ++ [{ t := snapshot x.t, parent := some h, live := true }] } ∧
    ∀ k y, Live s k y →
      Same H s { s with hs := s.hs ++ [{ t := snapshot x.t, parent := some h, live := true }] } k y none := by
  have hlt := live_lt hl
  have hget : ∀ i : Nat, i < s.hs.length →
      (s.hs ++ [({ t := snapshot x.t, parent := some h, live := true } : HInfo)])[i]? = s.hs[i]? :=
    fun i hi => List.getElem?_append_left hi
  have hlast : (s.hs ++ [({ t := snapshot x.t, parent := some h, live := true } : HInfo)])[s.hs.length]? =
      some { t := snapshot x.t, parent := some h, live := true } := by simp
  have hcases : ∀ (i : Nat) (y : HInfo),
      (s.hs ++ [({ t := snapshot x.t, parent := some h, live := true } : HInfo)])[i]? = some y →
      (i < s.hs.length ∧ s.hs[i]? = some y) ∨
      (i = s.hs.length ∧ y = { t := snapshot x.t, parent := some h, live := true }) := by
    intro i y hy
    by_cases hi : i < s.hs.length
    · left; rw [hget i hi] at hy; exact ⟨hi, hy⟩
    · right
      by_cases he : i = s.hs.length
      · subst he; rw [hlast] at hy; exact ⟨rfl, (Option.some.inj hy).symm⟩
      · rw [List.getElem?_eq_none (by simp; omega)] at hy; cases hy
  -- ancestors in the extended list
  have hanc_old : ∀ a i, i < s.hs.length →
      Anc (s.hs ++ [({ t := snapshot x.t, parent := some h, live := true } : HInfo)]) a i → Anc s.hs a i := by
    intro a i hi ha
    induction ha with
    | @parent i y hy hp =>
      rw [hget i hi] at hy; exact Anc.parent hy hp
    | @step p i y hy hp _ ih =>
      rw [hget i hi] at hy
      have hpi := hI.parentLt i y p hy hp
      exact Anc.step hy hp (ih (by omega))
  have hanc_new : ∀ a, Anc (s.hs ++ [({ t := snapshot x.t, parent := some h, live := true } : HInfo)]) a
      s.hs.length → a = h ∨ Anc s.hs a h := by
    intro a ha
    generalize hn : s.hs.length = n at ha
    cases ha with
    | parent hy hp =>
      subst hn
      rw [hlast] at hy; cases hy; left; exact (Option.some.inj hp).symm
    | step hy hp hr =>
      subst hn
      rw [hlast] at hy; cases hy
      cases hp
      right; exact hanc_old a h hlt hr
  have hanc_lift : ∀ a i, Anc s.hs a i →
      Anc (s.hs ++ [({ t := snapshot x.t, parent := some h, live := true } : HInfo)]) a i := by
    intro a i ha
    induction ha with
    | @parent i y hy hp =>
      have hi : i < s.hs.length := by
        by_cases hlt' : i < s.hs.length
        · exact hlt'
        · rw [List.getElem?_eq_none (by omega)] at hy; cases hy
      exact Anc.parent (by rw [hget i hi]; exact hy) hp
    | @step p i y hy hp _ ih =>
      have hi : i < s.hs.length := by
        by_cases hlt' : i < s.hs.length
        · exact hlt'
        · rw [List.getElem?_eq_none (by omega)] at hy; cases hy
      exact Anc.step (by rw [hget i hi]; exact hy) hp ih
  have hgenB : ∀ a, ReachO s.hp x.t.root a → (s.hp.get a).gen ≤ x.t.gen := hI.genBound h x hl
  refine ⟨⟨hI.wf, ?_, ?_, ?_, ?_⟩, ?_⟩
  · intro i y hy r hr
    rcases hcases i y hy.1 with ⟨_, h1⟩ | ⟨_, rfl⟩
    · exact hI.roots i y ⟨h1, hy.2⟩ r hr
    · exact hI.roots h x hl r hr
  · intro i y hy a ha
    rcases hcases i y hy.1 with ⟨_, h1⟩ | ⟨_, rfl⟩
    · exact hI.genBound i y ⟨h1, hy.2⟩ a ha
    · exact Nat.le_succ_of_le (hgenB a ha)
  · intro i y j z hy hz hij hn a ha hgen hb
    rcases hcases i y hy.1 with ⟨hi, h1⟩ | ⟨rfl, rfl⟩
    · rcases hcases j z hz.1 with ⟨hj, h2⟩ | ⟨rfl, rfl⟩
      · exact hI.sep i y j z ⟨h1, hy.2⟩ ⟨h2, hz.2⟩ hij (fun hc => hn (hanc_lift i j hc)) a ha hgen hb
      · -- the new snapshot reaches what its parent reaches
        by_cases hih : i = h
        · subst hih
          exact hn (Anc.parent hlast rfl)
        · exact hI.sep i y h x ⟨h1, hy.2⟩ hl hih
            (fun hc => hn (Anc.step hlast rfl (hanc_lift i h hc))) a ha hgen hb
    · -- the new snapshot owns nothing yet
      have := hgenB a ha
      have hg2 : (s.hp.get a).gen = x.t.gen + 1 := hgen
      omega
  · intro i y p hy hp
    rcases hcases i y hy with ⟨_, h1⟩ | ⟨rfl, rfl⟩
    · exact hI.parentLt i y p h1 hp
    · cases hp; exact hlt
  · intro k y hk
    refine ⟨⟨by rw [hget k (live_lt hk)]; exact hk.1, hk.2⟩, rfl, fun _ _ _ _ => Iff.rfl⟩

/-- replacing handles by handles with the same root and generation (and the same parents) keeps the
    invariant: `SetVersion`, dropping a handle -/
theorem sinv_of_sub {s s' : St} (hI : SInv s) (hhp : s'.hp = s.hp)
    (hpar : ∀ i : Nat, (s'.hs[i]?).map HInfo.parent = (s.hs[i]?).map HInfo.parent)
    (hsub : ∀ i y, Live s' i y → ∃ y0, Live s i y0 ∧ y.t.root = y0.t.root ∧ y.t.gen = y0.t.gen) :
    SInv s' := by
  refine ⟨by rw [hhp]; exact hI.wf, ?_, ?_, ?_, ?_⟩
  · intro i y hy r hr
    obtain ⟨y0, h0, hr0, _⟩ := hsub i y hy
    rw [hhp]; exact hI.roots i y0 h0 r (by rw [← hr0]; exact hr)
  · intro i y hy a ha
    obtain ⟨y0, h0, hr0, hg0⟩ := hsub i y hy
    rw [hhp] at ha ⊢
    rw [hg0]; exact hI.genBound i y0 h0 a (by rw [← hr0]; exact ha)
  · intro i y j z hy hz hij hn a ha hgen hb
    obtain ⟨y0, h0, hr0, hg0⟩ := hsub i y hy
    obtain ⟨z0, h1, hr1, _⟩ := hsub j z hz
    rw [hhp] at ha hgen hb
    refine hI.sep i y0 j z0 h0 h1 hij (fun hc => hn (hc.congr hpar)) a
      (by rw [← hr0]; exact ha) (by rw [← hg0]; exact hgen) (by rw [← hr1]; exact hb)
  · intro i y p hy hp
    have := hpar i
    rw [hy] at this
    cases hs : s.hs[i]? with
    | none => rw [hs] at this; simp at this
    | some y0 =>
      rw [hs] at this
      simp only [Option.map_some, Option.some.injEq] at this
      exact hI.parentLt i y0 p hs (this ▸ hp)

theorem same_of_eq {H : Bytes → Bytes} {s s' : St} (hhp : s'.hp = s.hp) {k : Nat} {y : HInfo}
    (hl : Live s' k y) (ar : Option Nat) : Same H s s' k y ar :=
  ⟨hl, by rw [hhp], fun _ _ _ _ => by rw [hhp]⟩

theorem ver_step {H : Bytes → Bytes} {s : St} (hI : SInv s) {h : Nat} {x : HInfo} (hl : Live s h x)
    (v : Ver) :
    SInv (s.setHandle s.hp h x { x.t with ver := v }) ∧
    ∀ k y, Live s k y → k ≠ h → Same H s (s.setHandle s.hp h x { x.t with ver := v }) k y none := by
  have hlive := live_setHandle (hp' := s.hp) (t' := { x.t with ver := v }) hl
  refine ⟨sinv_of_sub hI rfl (parents_setAt hl.1 rfl) ?_, ?_⟩
  · intro i y hy
    rcases (hlive i y).mp hy with ⟨rfl, rfl⟩ | ⟨_, hy'⟩
    · exact ⟨x, hl, rfl, rfl⟩
    · exact ⟨y, hy', rfl, rfl⟩
  · intro k y hk hne
    exact ⟨(hlive k y).mpr (Or.inr ⟨hne, hk⟩), rfl, fun _ _ _ _ => Iff.rfl⟩

theorem drop_step {H : Bytes → Bytes} {s : St} (hI : SInv s) {h : Nat} {x : HInfo} (hl : Live s h x) :
    SInv { s with hs := setAt s.hs h { x with live := false } } ∧
    ∀ k y, Live s k y → k ≠ h →
      Same H s { s with hs := setAt s.hs h { x with live := false } } k y none := by
  have hlt := live_lt hl
  have hlive : ∀ i y, Live { s with hs := setAt s.hs h { x with live := false } } i y ↔ (i ≠ h ∧ Live s i y) := by
    intro i y
    unfold Live
    simp only [getElem?_setAt]
    by_cases hi : i = h
    · subst hi
      rw [if_pos ⟨rfl, hlt⟩]
      constructor
      · rintro ⟨h1, h2⟩
        cases h1
        cases h2
      · rintro ⟨hne, _⟩; exact absurd rfl hne
    · rw [if_neg (fun hh => hi hh.1)]
      exact ⟨fun hh => ⟨hi, hh⟩, fun hh => hh.2⟩
  refine ⟨sinv_of_sub hI rfl (parents_setAt hl.1 rfl) ?_, ?_⟩
  · intro i y hy
    exact ⟨y, ((hlive i y).mp hy).2, rfl, rfl⟩
  · intro k y hk hne
    exact ⟨(hlive k y).mpr ⟨hne, hk⟩, rfl, fun _ _ _ _ => Iff.rfl⟩

end Gossamer.C03
