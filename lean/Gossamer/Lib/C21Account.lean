/-
C21: accounting of the reachable states – the authorities with a stored vote and the equivocators of a stage are
distinct authorities, so together they are at most `n`.
-/
import Gossamer.Lib.C21Filter
namespace Gossamer.C21

/-- the keys of a Go map -/
def keys {α : Type} (l : List (Nat × α)) : List Nat := l.map (·.1)

theorem keys_aset {α : Type} (l : List (Nat × α)) (k : Nat) (v : α) :
    keys (aset l k v) = if k ∈ keys l then keys l else keys l ++ [k] := by
  induction l with
  | nil => simp [aset, keys]
  | cons p rest ih =>
    obtain ⟨k', v'⟩ := p
    unfold aset
    by_cases hk : k' = k
    · subst hk; simp [keys]
    · rw [if_neg hk]
      have hk' : ¬ k = k' := fun h => hk h.symm
      unfold keys at ih ⊢
      simp only [List.map_cons, List.mem_cons, ih, hk', false_or]
      split <;> simp

theorem keys_adel {α : Type} (l : List (Nat × α)) (k : Nat) : keys (adel l k) = (keys l).filter (· != k) := by
  unfold keys adel
  induction l with
  | nil => rfl
  | cons p rest ih =>
    simp only [List.filter_cons, List.map_cons]
    split <;> simp [ih]

theorem aget_none_iff {α : Type} (l : List (Nat × α)) (k : Nat) : aget l k = none ↔ k ∉ keys l := by
  induction l with
  | nil => simp [aget, keys]
  | cons p rest ih =>
    obtain ⟨k', v'⟩ := p
    unfold aget
    by_cases hk : k' = k
    · subst hk; simp [keys]
    · rw [if_neg hk, ih]
      have hk' : ¬ k = k' := fun h => hk h.symm
      simp [keys, hk']

theorem ahas_iff {α : Type} (l : List (Nat × α)) (k : Nat) : ahas l k = true ↔ k ∈ keys l := by
  unfold ahas
  cases h : aget l k with
  | none => simp [(aget_none_iff l k).1 h]
  | some v =>
    simp only [Option.isSome_some, true_iff]
    apply Classical.byContradiction
    intro hn
    rw [(aget_none_iff l k).2 hn] at h
    cases h

/-- pigeonhole: a duplicate-free list whose elements all occur in `v` is at most as long as `v` -/
theorem nodup_subset_length : ∀ (v l : List Nat), l.Nodup → (∀ x ∈ l, x ∈ v) → l.length ≤ v.length := by
  intro v
  induction v with
  | nil =>
    intro l _ hb
    cases l with
    | nil => simp
    | cons x rest => exact absurd (hb x List.mem_cons_self) (by simp)
  | cons a v ih =>
    intro l hnd hb
    have h1 : (l.filter (· != a)).length ≤ v.length := by
      apply ih
      · exact List.Nodup.sublist List.filter_sublist hnd
      · intro x hx
        obtain ⟨hxl, hxn⟩ := List.mem_filter.1 hx
        have hne : x ≠ a := by simpa using hxn
        rcases List.mem_cons.1 (hb x hxl) with h | h
        · exact absurd h hne
        · exact h
    have h2 := List.length_eq_countP_add_countP (fun x => x != a) (l := l)
    have h3 : l.countP (fun b => decide ¬((b != a) = true)) = l.count a := by
      unfold List.count
      congr 1
      funext b
      by_cases h : b = a <;> simp [h]
    have h4 := List.nodup_iff_count.1 hnd a
    rw [List.countP_eq_length_filter] at h2
    simp only [List.length_cons]
    omega

/-- the accounting invariant of one stage -/
structure AccInv (vs : List Nat) (me : Nat) (votes : List (Nat × Vote)) (eq : List (Nat × Nat)) : Prop where
  nv : (keys votes).Nodup
  ne : (keys eq).Nodup
  dis : ∀ k ∈ keys votes, k ∉ keys eq
  bv : ∀ k ∈ keys votes, k ∈ vs
  be : ∀ k ∈ keys eq, k ∈ vs ∧ k ≠ me

theorem AccInv.length_le {vs : List Nat} {me : Nat} {votes : List (Nat × Vote)} {eq : List (Nat × Nat)}
    (h : AccInv vs me votes eq) : votes.length + eq.length ≤ vs.length := by
  have hnd : (keys votes ++ keys eq).Nodup :=
    List.nodup_append.2 ⟨h.nv, h.ne, fun a ha b hb hab => h.dis a ha (hab ▸ hb)⟩
  have := nodup_subset_length vs _ hnd (by
    intro x hx
    rcases List.mem_append.1 hx with hx | hx
    · exact h.bv x hx
    · exact (h.be x hx).1)
  simpa [keys] using this

theorem AccInv.store {vs : List Nat} {me : Nat} {votes : List (Nat × Vote)} {eq : List (Nat × Nat)}
    (h : AccInv vs me votes eq) {k : Nat} (v : Vote) (hk : k ∈ vs) (hke : k ∉ keys eq) :
    AccInv vs me (aset votes k v) eq := by
  by_cases hm : k ∈ keys votes
  · exact ⟨by rw [keys_aset, if_pos hm]; exact h.nv, h.ne, by rw [keys_aset, if_pos hm]; exact h.dis,
      by rw [keys_aset, if_pos hm]; exact h.bv, h.be⟩
  · refine ⟨?_, h.ne, ?_, ?_, h.be⟩
    · rw [keys_aset, if_neg hm]
      exact List.nodup_append.2 ⟨h.nv, by simp, fun a ha b hb hab => by
        simp at hb; subst hb; subst hab; exact hm ha⟩
    · rw [keys_aset, if_neg hm]
      intro x hx
      rcases List.mem_append.1 hx with hx | hx
      · exact h.dis x hx
      · simp at hx; subst hx; exact hke
    · rw [keys_aset, if_neg hm]
      intro x hx
      rcases List.mem_append.1 hx with hx | hx
      · exact h.bv x hx
      · simp at hx; subst hx; exact hk

theorem AccInv.bump {vs : List Nat} {me : Nat} {votes : List (Nat × Vote)} {eq : List (Nat × Nat)}
    (h : AccInv vs me votes eq) {k : Nat} (x : Nat) (hke : k ∈ keys eq) : AccInv vs me votes (aset eq k x) := by
  refine ⟨h.nv, ?_, ?_, h.bv, ?_⟩ <;> rw [keys_aset, if_pos hke]
  · exact h.ne
  · exact h.dis
  · exact h.be

theorem AccInv.equivocate {vs : List Nat} {me : Nat} {votes : List (Nat × Vote)} {eq : List (Nat × Nat)}
    (h : AccInv vs me votes eq) {k : Nat} (x : Nat) (hk : k ∈ vs) (hme : k ≠ me) (hke : k ∉ keys eq) :
    AccInv vs me (adel votes k) (aset eq k x) := by
  refine ⟨?_, ?_, ?_, ?_, ?_⟩
  · rw [keys_adel]; exact List.Nodup.sublist List.filter_sublist h.nv
  · rw [keys_aset, if_neg hke]
    exact List.nodup_append.2 ⟨h.ne, by simp, fun a ha b hb hab => by
      simp at hb; subst hb; subst hab; exact hke ha⟩
  · rw [keys_adel, keys_aset, if_neg hke]
    intro a ha
    obtain ⟨hav, hak⟩ := List.mem_filter.1 ha
    intro hx
    rcases List.mem_append.1 hx with hx | hx
    · exact h.dis a hav hx
    · simp at hx hak; exact hak hx
  · rw [keys_adel]
    intro a ha
    exact h.bv a (List.mem_filter.1 ha).1
  · rw [keys_aset, if_neg hke]
    intro a ha
    rcases List.mem_append.1 ha with ha | ha
    · exact h.be a ha
    · simp at ha; subst ha; exact ⟨hk, hme⟩

/-- how a vote message can change the votes and the equivocators of one stage -/
def StageMove (c : Cfg) (m : Msg) (v v' : List (Nat × Vote)) (e e' : List (Nat × Nat)) : Prop :=
  (v' = v ∧ e' = e) ∨
  (v' = v ∧ m.key ∈ keys e ∧ ∃ x, e' = aset e m.key x) ∨
  (Passes c m ∧ m.key ∉ keys e ∧ v' = adel v m.key ∧ ∃ x, e' = aset e m.key x) ∨
  (Passes c m ∧ m.key ∉ keys e ∧ v' = aset v m.key ⟨m.blk, m.num⟩ ∧ e' = e)

theorem vvm_moves {c : Cfg} (s : St) (m : Msg) :
    StageMove c m s.pv (validateVoteMessage c s m).2.pv s.pve (validateVoteMessage c s m).2.pve ∧
    StageMove c m s.pc (validateVoteMessage c s m).2.pc s.pce (validateVoteMessage c s m).2.pce := by
  by_cases hp' : ¬ Passes c m
  · have := (vvm_reject s hp').2
    simp only [St.tallies, Prod.mk.injEq] at this
    exact ⟨Or.inl ⟨this.1, this.2.2.1⟩, Or.inl ⟨this.2.1, this.2.2.2⟩⟩
  have hp : Passes c m := Classical.not_not.1 hp'
  obtain ⟨h1, h2, h3, h4, h5, hv⟩ := hp
  have hp : Passes c m := ⟨h1, h2, h3, h4, h5, hv⟩
  unfold validateVoteMessage
  have g3 : ¬ (m.mround < c.round - 1 ∨ c.round + 1 < m.mround) := by omega
  have g4 : ¬ m.mround < c.round := by omega
  have g5 : ¬ c.round < m.mround := by omega
  have g6 : ¬ m.key ∉ c.voters := fun hn => hn h4
  simp only [h1, h2, g3, g4, g5, g6, h5, hv, Bool.not_true, Bool.false_eq_true, if_false, ne_eq,
    not_true_eq_false]
  by_cases hs : isPvStage m.stage = true
  · simp only [hs, if_true]
    by_cases he : ahas s.pve m.key = true
    · simp only [he, if_true]
      exact ⟨Or.inr (Or.inl ⟨rfl, (ahas_iff _ _).1 he, _, rfl⟩), Or.inl ⟨rfl, rfl⟩⟩
    · have hke : m.key ∉ keys s.pve := fun h => he ((ahas_iff _ _).2 h)
      simp only [he, Bool.false_eq_true, if_false]
      cases hg : aget s.pv m.key with
      | none => exact ⟨Or.inr (Or.inr (Or.inr ⟨hp, hke, rfl, rfl⟩)), Or.inl ⟨rfl, rfl⟩⟩
      | some ev =>
        by_cases hb : ev.blk = m.blk
        · simp only [hb, not_true_eq_false, if_false]
          exact ⟨Or.inr (Or.inr (Or.inr ⟨hp, hke, rfl, rfl⟩)), Or.inl ⟨rfl, rfl⟩⟩
        · simp only [hb, not_false_eq_true, if_true]
          exact ⟨Or.inr (Or.inr (Or.inl ⟨hp, hke, rfl, _, rfl⟩)), Or.inl ⟨rfl, rfl⟩⟩
  · simp only [hs, Bool.false_eq_true, if_false]
    by_cases hc : isPcStage m.stage = true
    · simp only [hc, if_true]
      by_cases he : ahas s.pce m.key = true
      · simp only [he, if_true]
        exact ⟨Or.inl ⟨rfl, rfl⟩, Or.inr (Or.inl ⟨rfl, (ahas_iff _ _).1 he, _, rfl⟩)⟩
      · have hke : m.key ∉ keys s.pce := fun h => he ((ahas_iff _ _).2 h)
        simp only [he, Bool.false_eq_true, if_false]
        cases hg : aget s.pc m.key with
        | none => exact ⟨Or.inl ⟨rfl, rfl⟩, Or.inr (Or.inr (Or.inr ⟨hp, hke, rfl, rfl⟩))⟩
        | some ev =>
          by_cases hb : ev.blk = m.blk
          · simp only [hb, not_true_eq_false, if_false]
            exact ⟨Or.inl ⟨rfl, rfl⟩, Or.inr (Or.inr (Or.inr ⟨hp, hke, rfl, rfl⟩))⟩
          · simp only [hb, not_false_eq_true, if_true]
            exact ⟨Or.inl ⟨rfl, rfl⟩, Or.inr (Or.inr (Or.inl ⟨hp, hke, rfl, _, rfl⟩))⟩
    · simp only [hc, Bool.false_eq_true, if_false]
      exact ⟨Or.inl ⟨rfl, rfl⟩, Or.inl ⟨rfl, rfl⟩⟩

theorem AccInv.move {c : Cfg} {m : Msg} {v v' : List (Nat × Vote)} {e e' : List (Nat × Nat)}
    (h : AccInv c.voters c.me v e) (hm : StageMove c m v v' e e') : AccInv c.voters c.me v' e' := by
  rcases hm with ⟨h1, h2⟩ | ⟨h1, hk, x, h2⟩ | ⟨hp, hk, h1, x, h2⟩ | ⟨hp, hk, h1, h2⟩
  · rw [h1, h2]; exact h
  · rw [h1, h2]; exact h.bump x hk
  · rw [h1, h2]; exact h.equivocate x hp.2.2.2.1 hp.2.2.2.2.1 hk
  · rw [h1, h2]; exact h.store _ hp.2.2.2.1 hk

/-- **accounting of all reachable states**: when the Service is one of the `n` authorities, the authorities with a
stored vote and the equivocators of a stage are distinct authorities -/
theorem run_accounted (c : Cfg) (hme : c.me ∈ c.voters) (ops : List Op) :
    AccInv c.voters c.me (run c ops).pv (run c ops).pve ∧ AccInv c.voters c.me (run c ops).pc (run c ops).pce := by
  have gen : ∀ (ops : List Op) (s : St),
      AccInv c.voters c.me s.pv s.pve ∧ AccInv c.voters c.me s.pc s.pce →
      AccInv c.voters c.me (ops.foldl (step c) s).pv (ops.foldl (step c) s).pve ∧
      AccInv c.voters c.me (ops.foldl (step c) s).pc (ops.foldl (step c) s).pce := by
    intro ops
    induction ops with
    | nil => intro s h; exact h
    | cons op rest ih =>
      intro s h
      rw [List.foldl_cons]
      apply ih
      cases op with
      | msg m =>
        have hm := vvm_moves (c := c) s m
        exact ⟨h.1.move hm.1, h.2.move hm.2⟩
      | own stage b =>
        show AccInv c.voters c.me (ownVote c s stage b).pv (ownVote c s stage b).pve ∧
          AccInv c.voters c.me (ownVote c s stage b).pc (ownVote c s stage b).pce
        unfold ownVote
        by_cases hst : stage = 0
        · rw [if_pos hst]
          exact ⟨h.1.store _ hme (fun hk => (h.1.be _ hk).2 rfl), h.2⟩
        · rw [if_neg hst]
          exact ⟨h.1, h.2.store _ hme (fun hk => (h.2.be _ hk).2 rfl)⟩
  have h0 : AccInv c.voters c.me ([] : List (Nat × Vote)) ([] : List (Nat × Nat)) :=
    ⟨by simp [keys], by simp [keys], fun k hk => (by simp [keys] at hk), fun k hk => (by simp [keys] at hk),
      fun k hk => (by simp [keys] at hk)⟩
  exact gen ops {} ⟨h0, h0⟩

end Gossamer.C21
