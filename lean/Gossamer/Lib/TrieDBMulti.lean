/-
C06, step 13: sessions over a non-empty database; `commit` re-establishes the database invariant
for the new trie, so the invariant holds along every history of put / del / get / commit / reopen.
-/
import Gossamer.Lib.TrieDBCommit
set_option linter.unusedSectionVars false
set_option linter.unusedSimpArgs false
namespace Gossamer.C06
open Gossamer Gossamer.Trie

/-! ### the rows `commit` writes are content-addressed and not tiny -/

theorem abs_ne_nil_of_mem' (T0 : Trie) {hd : Hd} (hm : hd.isMem = true) (pre : Nibs) :
    abs T0 hd pre ≠ nil := by
  cases hd <;> simp_all [Hd.isMem, abs]

theorem wOf_content (ver : Ver) (H : Bytes → Bytes) (Dom : Bytes → Prop) (T0 : Trie) (hd : Hd) :
    ∀ pre, Ok ver H T0 hd pre → Covers ver H Dom (abs T0 hd pre) →
      ∀ op ∈ wOf ver H T0 hd pre, ContentPut H Dom op := by
  induction hd with
  | none => intro _ _ _ _ h; simp [wOf] at h
  | persisted _ => intro _ _ _ _ h; simp [wOf] at h
  | empty _ => intro _ _ _ _ h; simp [wOf] at h
  | leaf c pk dv =>
    intro pre hok hcov op h
    cases c with
    | some _ => simp [wOf] at h
    | none =>
      cases dv with
      | inl y => simp [wOf, valW] at h
      | ref y => simp [wOf, valW] at h
      | fresh y =>
        simp [wOf, valW] at h
        subst h
        have hm : mustBeHashed ver y = true := hok.1
        exact ⟨⟨_, rfl⟩, hcov.2 pk y (by simp [abs, absV]) hm⟩
  | branch c pk dvo cs ih =>
    intro pre hok hcov op h
    cases c with
    | some _ => simp [wOf] at h
    | none =>
      simp only [abs] at hcov
      simp only [wOf, List.mem_append, List.mem_flatMap] at h
      rcases h with h | ⟨i, _, h⟩
      · cases dvo with
        | none => simp [optValW] at h
        | some dv =>
          cases dv with
          | inl y => simp [optValW, valW] at h
          | ref y => simp [optValW, valW] at h
          | fresh y =>
            simp [optValW, valW] at h
            subst h
            have hm : mustBeHashed ver y = true := hok.1 _ rfl
            exact ⟨⟨_, rfl⟩, hcov.2 pk y (by rw [lookup_branch_self]; simp [absV]) hm⟩
      · split at h
        · rename_i hnew
          rcases List.mem_append.mp h with h | h
          · exact ih i _ (hok.2.1 i) (covers_child hcov i) op h
          · split at h
            · simp at h; subst h
              have hmem : (cs i).isMem = true := by
                cases hx : (cs i).isMem <;> simp_all
              have hne := abs_ne_nil_of_mem' T0 hmem (pre ++ pk ++ [i])
              refine ⟨⟨_, rfl⟩, ?_⟩
              have := hcov.1 _ (nodeOf_child (pk := pk) (v := dvo.map (absV T0 (pre ++ pk)))
                (cs := fun i => abs T0 (cs i) (pre ++ pk ++ [i])) i (nodeOf_self hne))
              simpa using this
            · simp at h
        · simp at h

theorem wOf_size (ver : Ver) (H : Bytes → Bytes) (T0 : Trie) (hd : Hd) :
    ∀ pre, Ok ver H T0 hd pre → ∀ k x, WOp.put k x ∈ wOf ver H T0 hd pre → 32 ≤ x.length := by
  have hfresh : ∀ x : Bytes, mustBeHashed ver x = true → 32 ≤ x.length := by
    intro x hm; cases ver <;> simp [mustBeHashed] at hm; omega
  induction hd with
  | none => intro _ _ _ _ h; simp [wOf] at h
  | persisted _ => intro _ _ _ _ h; simp [wOf] at h
  | empty _ => intro _ _ _ _ h; simp [wOf] at h
  | leaf c pk dv =>
    intro pre hok k x h
    cases c with
    | some _ => simp [wOf] at h
    | none =>
      cases dv with
      | inl y => simp [wOf, valW] at h
      | ref y => simp [wOf, valW] at h
      | fresh y =>
        simp [wOf, valW] at h
        obtain ⟨_, rfl⟩ := h
        exact hfresh _ hok.1
  | branch c pk dvo cs ih =>
    intro pre hok k x h
    cases c with
    | some _ => simp [wOf] at h
    | none =>
      simp only [wOf, List.mem_append, List.mem_flatMap] at h
      rcases h with h | ⟨i, _, h⟩
      · cases dvo with
        | none => simp [optValW] at h
        | some dv =>
          cases dv with
          | inl y => simp [optValW, valW] at h
          | ref y => simp [optValW, valW] at h
          | fresh y =>
            simp [optValW, valW] at h
            obtain ⟨_, rfl⟩ := h
            exact hfresh _ (hok.1 _ rfl)
      · split at h
        · rcases List.mem_append.mp h with h | h
          · exact ih i _ (hok.2.1 i) k x h
          · split at h
            · rename_i hl
              simp at h
              obtain ⟨_, rfl⟩ := h
              simpa using hl
            · simp at h
        · simp at h

/-! ### deletions -/

theorem find_applyW_dels (db : DB) (l : List Bytes) (k : Bytes) (hk : k ∉ l) :
    (applyW db (l.map WOp.del)).find k = db.find k := by
  induction l generalizing db with
  | nil => rfl
  | cons a r ih =>
    simp only [List.map_cons, applyW]
    rw [ih _ (fun h => hk (List.mem_cons_of_mem _ h)), find_del]
    have : k ≠ a := fun e => hk (by rw [e]; exact List.mem_cons_self ..)
    simp [this]

/-! ### reading positions of the committed trie -/

theorem rowOf_eq (ver : Ver) (H : Bytes → Bytes) (T0 : Trie) (pos : Pos) :
    ∃ q, rowOf ver H T0 pos = rowKey q (H (contentOf ver H T0 pos)) := by
  cases pos with
  | node p => exact ⟨p, rfl⟩
  | val k => exact ⟨k, rfl⟩

theorem content_size (ver : Ver) (H : Bytes → Bytes) (hlen : ∀ x, (H x).length = 32) (T0 : Trie)
    (pos : Pos) (hv : ValidPos ver H T0 pos) : 2 ≤ (contentOf ver H T0 pos).length := by
  cases pos with
  | node p => exact encodeNode_length ver H hlen _ hv.1
  | val k =>
    obtain ⟨v, hl, hm⟩ := hv
    simp only [contentOf, hl, Option.getD_some]
    cases ver <;> simp [mustBeHashed] at hm
    omega

theorem read_pos (e : Env) (T0 : Trie) (hdb : DbOk e T0) (pos : Pos)
    (hv : ValidPos e.ver e.H T0 pos) :
    dbGet e.H e.db (rowOf e.ver e.H T0 pos) = some (contentOf e.ver e.H T0 pos) := by
  cases pos with
  | node p =>
    by_cases hp : p = []
    · subst hp
      simp only [rowOf, contentOf, subAt_nil_path]
      exact hdb.root (by simpa using hv.1)
    · have := stored_subAt T0 [] p hdb.stored hv.1 hp (hv.2 hp)
      simpa [rowOf, contentOf] using this
  | val k =>
    obtain ⟨v, hl, hm⟩ := hv
    have := stored_value T0 [] k v hdb.stored hl hm
    simpa [rowOf, contentOf, hl] using this

theorem content_dom {ver : Ver} {H : Bytes → Bytes} {Dom : Bytes → Prop} {T0 : Trie}
    (hcov : Covers ver H Dom T0) (pos : Pos) (hv : ValidPos ver H T0 pos) :
    Dom (contentOf ver H T0 pos) := by
  cases pos with
  | node p => exact hcov.1 _ (nodeOf_subAt T0 p hv.1)
  | val k =>
    obtain ⟨v, hl, hm⟩ := hv
    simp only [contentOf, hl, Option.getD_some]
    exact hcov.2 k v hl hm

theorem dbGet_find {H : Bytes → Bytes} {db : DB} {k x : Bytes} (h : dbGet H db k = some x)
    (hx : 2 ≤ x.length) : db.find k = some x := by
  unfold dbGet at h
  split at h
  · cases h; simp at hx
  · exact h

/-! ### `commit` with a new root -/

/-- rows scheduled for deletion: the row of the empty node, or the row of a position of `T0` that the
    root no longer refers to -/
def DeadOk (ver : Ver) (H : Bytes → Bytes) (T0 : Trie) (root : Hd) (death : Death) : Prop :=
  ∀ r ∈ death, r = H [0] ∨
    ∃ pos, r = rowOf ver H T0 pos ∧ ValidPos ver H T0 pos ∧ ¬ Needs root [] pos

/-- the database after the batch of a commit with new root handle `root` -/
def dbAfter (ver : Ver) (H : Bytes → Bytes) (T0 : Trie) (s : St) : DB :=
  applyW s.db (s.death.map WOp.del ++ wOf ver H T0 s.root [] ++
    [WOp.put (H (encodeNode ver H (abs T0 s.root []))) (encodeNode ver H (abs T0 s.root []))])

theorem abs_ne_nil_of_mem (T0 : Trie) {hd : Hd} (hm : hd.isMem = true) (pre : Nibs) :
    abs T0 hd pre ≠ nil := by
  cases hd <;> simp_all [Hd.isMem, abs]

theorem commit_new (c : Cfg) {Dom : Bytes → Prop} (hH : HashOK c.H Dom) (s : St) (T0 : Trie)
    (hcov0 : Covers c.ver c.H Dom T0) (hcovt : Covers c.ver c.H Dom (abs T0 s.root []))
    (hdb : DbOk (c.env s) T0) (heven : ∀ k v, lookup T0 k = some v → k.length % 2 = 0)
    (hok : Ok c.ver c.H T0 s.root []) (hm : s.root.isMem = true) (hc : s.root.cached = none)
    (hdead : DeadOk c.ver c.H T0 s.root s.death)
    (hdec : ∀ n, NodeOf n (abs T0 s.root []) →
      c.dec (encodeNode c.ver c.H n) = some (viewOf c.ver c.H n)) :
    commit c.H s = .ok
        { db := dbAfter c.ver c.H T0 s, root := .persisted (c.H (encodeNode c.ver c.H (abs T0 s.root []))),
          rootHash := c.H (encodeNode c.ver c.H (abs T0 s.root [])), death := [] } ∧
      DbOk { H := c.H, dec := c.dec, ver := c.ver, db := dbAfter c.ver c.H T0 s } (abs T0 s.root []) := by
  have henc := encNew_ok c.ver c.H T0 s.root [] hok hm hc
  have hne : abs T0 s.root [] ≠ nil := abs_ne_nil_of_mem T0 hm []
  have hlen2 := encodeNode_length c.ver c.H hH.len _ hne
  -- all writes of the batch are content-addressed
  have hcontent : ∀ op ∈ wOf c.ver c.H T0 s.root [] ++
      [WOp.put (c.H (encodeNode c.ver c.H (abs T0 s.root []))) (encodeNode c.ver c.H (abs T0 s.root []))],
      ContentPut c.H Dom op := by
    intro op hop
    rcases List.mem_append.mp hop with h | h
    · exact wOf_content c.ver c.H Dom T0 s.root [] hok hcovt op h
    · simp at h; subst h; exact ⟨⟨[], rfl⟩, hcovt.1 _ (nodeOf_self hne)⟩
  have hdbA : dbAfter c.ver c.H T0 s = applyW (applyW s.db (s.death.map WOp.del))
      (wOf c.ver c.H T0 s.root [] ++
        [WOp.put (c.H (encodeNode c.ver c.H (abs T0 s.root []))) (encodeNode c.ver c.H (abs T0 s.root []))]) := by
    unfold dbAfter
    rw [List.append_assoc, applyW_append]
  -- a written row can be read
  have hwritten : ∀ k x, WOp.put k x ∈ wOf c.ver c.H T0 s.root [] ++
      [WOp.put (c.H (encodeNode c.ver c.H (abs T0 s.root []))) (encodeNode c.ver c.H (abs T0 s.root []))] →
      2 ≤ x.length → dbGet c.H (dbAfter c.ver c.H T0 s) k = some x := by
    intro k x hk hx
    obtain ⟨⟨q, hq⟩, hdx⟩ := hcontent _ hk
    rw [hq]
    apply dbGet_row hH.len hH.inj hH.zero _ _ _ hdx hx
    rw [← hq, hdbA]
    exact find_applyW_mem hH.len hH.inj _ hcontent _ k x hk
  refine ⟨?_, ⟨fun _ => ?_, ?_, hdec, hdb.dec0, hH.len⟩⟩
  · -- the commit itself
    have hr : ∀ x, s.root = x → commit c.H s = .ok
        { db := dbAfter c.ver c.H T0 s, root := .persisted (c.H (encodeNode c.ver c.H (abs T0 s.root []))),
          rootHash := c.H (encodeNode c.ver c.H (abs T0 s.root [])), death := [] } := by
      intro x hx
      cases x with
      | none => rw [hx] at hm; simp [Hd.isMem] at hm
      | persisted _ => rw [hx] at hm; simp [Hd.isMem] at hm
      | empty _ => rw [hx] at hm; simp [Hd.isMem] at hm
      | leaf cc pk dv =>
        rw [hx] at hc henc
        simp only [Hd.cached] at hc
        subst hc
        simp only [commit, hx, Hd.cached, henc, dbAfter, List.append_assoc]
      | branch cc pk dvo cs =>
        rw [hx] at hc henc
        simp only [Hd.cached] at hc
        subst hc
        simp only [commit, hx, Hd.cached, henc, dbAfter, List.append_assoc]
    exact hr _ rfl
  · -- the row of the new root
    have := hwritten _ _ (List.mem_append_right _ (List.mem_singleton.mpr rfl)) hlen2
    simpa [rowKey, prefixBytes] using this
  · -- the new trie is stored
    apply stored_commit c.ver c.H T0 _ s.root [] hok
    · intro k x hk
      exact hwritten k x (List.mem_append_left _ hk)
        (by have := wOf_size c.ver c.H T0 s.root [] hok k x hk; omega)
    · intro pos hv hn
      have hsz := content_size c.ver c.H hH.len T0 pos hv
      have hdc := content_dom hcov0 pos hv
      obtain ⟨q, hq⟩ := rowOf_eq c.ver c.H T0 pos
      have hold := dbGet_find (read_pos (c.env s) T0 hdb pos hv) hsz
      -- the row is not deleted
      have hnd : rowOf c.ver c.H T0 pos ∉ s.death := by
        intro hin
        rcases hdead _ hin with h0 | ⟨pos', hr', hv', hn'⟩
        · rw [hq] at h0
          have h1 : rowKey q (c.H (contentOf c.ver c.H T0 pos)) = rowKey [] (c.H [0]) := by
            rw [h0]; simp [rowKey, prefixBytes]
          have := hH.inj _ _ hdc hH.zero (rowKey_split hH.len h1).2
          rw [this] at hsz
          simp at hsz
        · have := rows_inj hH T0 hcov0 heven pos pos' hv hv' hr'
          rw [this] at hn
          exact hn' hn
      have h1 : (applyW s.db (s.death.map WOp.del)).find (rowOf c.ver c.H T0 pos) =
          some (contentOf c.ver c.H T0 pos) := by
        rw [find_applyW_dels _ _ _ hnd]; exact hold
      rw [hq] at h1 ⊢
      apply dbGet_row hH.len hH.inj hH.zero _ _ _ hdc hsz
      rw [hdbA]
      exact find_applyW_keep hH.len hH.inj _ hcontent _ q _ hdc h1

/-! ### the invariant of a `TrieDB` instance over a database -/

/-- `T0` is the trie the database holds (committed last), `t` the trie the instance stands for now -/
structure SessG (c : Cfg) (Dom : Bytes → Prop) (s : St) (T0 t : Trie) : Prop where
  dbok : DbOk (c.env s) T0
  cov : Covers c.ver c.H Dom T0
  even0 : ∀ k v, lookup T0 k = some v → k.length % 2 = 0
  shape : (t = nil ∧ s.root = .persisted (c.H [0]) ∧ s.rootHash = c.H [0] ∧
            DeadOk c.ver c.H T0 Hd.none s.death) ∨
          (t ≠ nil ∧ Ok c.ver c.H T0 s.root [] ∧ abs T0 s.root [] = t ∧ s.root.isNone = false ∧
            DeadOk c.ver c.H T0 s.root s.death ∧ (∀ h, s.root = .persisted h → s.rootHash = h))

theorem rep_even {t : Trie} {es : Entries} (h : Rep t es) (k : Nibs) (v : Bytes)
    (hl : lookup t k = some v) : k.length % 2 = 0 := by
  rw [← get_entriesN, h.entries] at hl
  have hmem := OMap.get_some_mem hl
  simp only [OMap.mapK, List.mem_map] at hmem
  obtain ⟨e, _, he⟩ := hmem
  have : k = toNibs e.1 := by cases he; rfl
  rw [this, length_toNibs]; omega

theorem deadOk_weaken {ver : Ver} {H : Bytes → Bytes} {T0 : Trie} {root : Hd} {death : Death}
    (h : DeadOk ver H T0 root death) : DeadOk ver H T0 Hd.none death := by
  intro r hr
  rcases h r hr with h0 | ⟨pos, h1, h2, _⟩
  · exact Or.inl h0
  · exact Or.inr ⟨pos, h1, h2, fun x => x⟩

theorem deadOk_step {ver : Ver} {H : Bytes → Bytes} {T0 : Trie} {root root' : Hd} {death : Death}
    {news : List Pos} (h : DeadOk ver H T0 root death)
    (hmono : ∀ pos, Needs root' [] pos → Needs root [] pos)
    (hfresh : ∀ pos ∈ news, ¬ Needs root' [] pos) (hvalid : ∀ pos ∈ news, ValidPos ver H T0 pos) :
    DeadOk ver H T0 root' (news.map (rowOf ver H T0) ++ death) := by
  intro r hr
  rcases List.mem_append.mp hr with hr | hr
  · obtain ⟨pos, hp, rfl⟩ := List.mem_map.mp hr
    exact Or.inr ⟨pos, rfl, hvalid pos hp, hfresh pos hp⟩
  · rcases h r hr with h0 | ⟨pos, h1, h2, h3⟩
    · exact Or.inl h0
    · exact Or.inr ⟨pos, h1, h2, fun x => h3 (hmono pos x)⟩

theorem load_empty_g (c : Cfg) (hdec0 : c.dec [0] = some .empty) (s : St) :
    (c.env s).load [] (c.H [0]) = some (.empty (some (c.H [0]))) := by
  simp [Env.load, Cfg.env, dbGet, rowKey, prefixBytes, hasSuffix_self, ofEncoded, hdec0]

/-- `Put` keeps the invariant -/
theorem sessG_put (c : Cfg) {Dom : Bytes → Prop} {s : St} {T0 t : Trie} (h : SessG c Dom s T0 t) (k v : Bytes) :
    ∃ s', doPut c s k v = .ok s' ∧ SessG c Dom s' T0 (tInsert t (toNibs k) v) := by
  have hne : tInsert t (toNibs k) v ≠ nil := by
    rw [tInsert_eq]
    cases t with
    | nil => simp [Trie.insert]
    | leaf pk lv => simp only [Trie.insert]; exact (insertInLeaf_ne_nil pk lv _ _).1
    | branch pk bv cs =>
      intro e
      have := lookup_insert (branch pk bv cs) (toNibs k) v (toNibs k)
      rw [e] at this
      simp at this
  rcases h.shape with ⟨rfl, hr, _, hd⟩ | ⟨htn, hok, habs, hnn, hd, _⟩
  · refine ⟨{ s with root := .leaf none (toNibs k) (newValue c.ver v),
                     death := rowKey [] (c.H [0]) :: s.death }, ?_, ⟨h.dbok, h.cov, h.even0, Or.inr ?_⟩⟩
    · simp only [doPut, hr, insertAt, insertNode, Env.resolve, load_empty_g c h.dbok.dec0,
        afterInspect, Hd.cached, Hd.asNew]
      rfl
    · refine ⟨hne, ⟨okV_new c.ver c.H T0 _ v, fun _ hh => by cases hh⟩, by simp [abs, absV_new, tInsert],
        rfl, ?_, fun _ hh => by cases hh⟩
      intro r hr'
      rcases List.mem_cons.mp hr' with rfl | hr'
      · exact Or.inl (by simp [rowKey, prefixBytes])
      · rcases hd r hr' with h0 | ⟨pos, h1, h2, _⟩
        · exact Or.inl h0
        · refine Or.inr ⟨pos, h1, h2, ?_⟩
          intro hn
          simp only [Needs] at hn
          rcases hn with ⟨hx, _⟩ | ⟨hx, _⟩
          · cases hx
          · simp [newValue_notRef] at hx
  · obtain ⟨hd', ch, news, heq, hp⟩ := insertAt_sim (c.env s) T0 h.dbok v ((toNibs k).length + 1)
      s.root [] (toNibs k) s.death (by omega) hok hnn
    refine ⟨{ s with root := hd', death := news.map (rowOf c.ver c.H T0) ++ s.death }, ?_,
      ⟨h.dbok, h.cov, h.even0, Or.inr ?_⟩⟩
    · simp only [doPut, heq]; rfl
    · have hmem := hp.mem
      refine ⟨hne, hp.ok, by rw [hp.abs, habs], by cases hd' <;> simp_all [Hd.isMem, Hd.isNone],
        deadOk_step hd hp.mono (fun pos hpos => (hp.fresh pos hpos).2) hp.valid, ?_⟩
      intro hh hx
      simp only at hx
      rw [hx] at hmem
      simp [Hd.isMem] at hmem

/-- `Delete` keeps the invariant -/
theorem sessG_del (c : Cfg) {Dom : Bytes → Prop} {s : St} {T0 t : Trie} (h : SessG c Dom s T0 t) (hcan : Canon t) (k : Bytes) :
    ∃ s', doDel c s k = .ok s' ∧ SessG c Dom s' T0 (tRemove t (toNibs k)) := by
  rcases h.shape with ⟨rfl, hr, _, hd⟩ | ⟨htn, hok, habs, hnn, hd, _⟩
  · refine ⟨{ s with root := .persisted (c.H [0]), rootHash := c.H [0],
                     death := rowKey [] (c.H [0]) :: s.death }, ?_, ⟨h.dbok, h.cov, h.even0, Or.inl ?_⟩⟩
    · simp only [doDel, hr, removeAt, removeNode, Env.resolve, load_empty_g c h.dbok.dec0,
        afterDelete, Hd.cached]
    · refine ⟨rfl, rfl, rfl, ?_⟩
      intro r hr'
      rcases List.mem_cons.mp hr' with rfl | hr'
      · exact Or.inl (by simp [rowKey, prefixBytes])
      · exact hd r hr'
  · obtain ⟨r, news, heq, hp⟩ := removeAt_sim (c.env s) T0 h.dbok ((toNibs k).length + 1)
      s.root [] (toNibs k) s.death (by omega) hok hnn (by rw [habs]; exact hcan)
    rw [habs] at hp
    cases r with
    | none =>
      obtain ⟨htnil, hbel⟩ := hp
      refine ⟨{ s with root := .persisted (c.H [0]), rootHash := c.H [0],
                       death := news.map (rowOf c.ver c.H T0) ++ s.death }, ?_,
        ⟨h.dbok, h.cov, h.even0, Or.inl ⟨htnil, rfl, rfl, ?_⟩⟩⟩
      · simp only [doDel, heq]; rfl
      · exact deadOk_step (deadOk_weaken hd) (fun _ hx => hx.elim) (fun _ _ hx => hx)
          (fun pos hpos => (hbel pos hpos).2)
    | some p =>
      obtain ⟨hd', ch⟩ := p
      obtain ⟨hne, hp⟩ := hp
      refine ⟨{ s with root := hd', death := news.map (rowOf c.ver c.H T0) ++ s.death }, ?_,
        ⟨h.dbok, h.cov, h.even0, Or.inr ?_⟩⟩
      · simp only [doDel, heq]; rfl
      · have hmem := hp.mem
        refine ⟨hne, hp.ok, hp.abs, by cases hd' <;> simp_all [Hd.isMem, Hd.isNone],
          deadOk_step hd hp.mono (fun pos hpos => (hp.fresh pos hpos).2) hp.valid, ?_⟩
        intro hh hx
        simp only at hx
        rw [hx] at hmem
        simp [Hd.isMem] at hmem

theorem deadOk_nil (ver : Ver) (H : Bytes → Bytes) (T0 : Trie) (root : Hd) : DeadOk ver H T0 root [] := by
  intro r hr; cases hr

/-- `commit` keeps the invariant; afterwards the root hash is the hash of the spec encoding of the
    trie, and (unless the trie is empty) the database holds exactly that trie -/
theorem sessG_commit (c : Cfg) {Dom : Bytes → Prop} (hH : HashOK c.H Dom) {s : St} {T0 t : Trie}
    (h : SessG c Dom s T0 t) {es : Entries} (hrep : Rep t es) (hcovt : Covers c.ver c.H Dom t)
    (hdec : ∀ n, NodeOf n t → c.dec (encodeNode c.ver c.H n) = some (viewOf c.ver c.H n)) :
    ∃ s' T0', commit c.H s = .ok s' ∧ SessG c Dom s' T0' t ∧ s'.rootHash = hashTrie c.ver c.H t ∧
      (t ≠ nil → T0' = t) := by
  rcases h.shape with ⟨rfl, hr, hrh, hd⟩ | ⟨htn, hok, habs, hnn, hd, hpers⟩
  · refine ⟨{ s with death := [] }, T0, by simp only [commit, hr], ⟨h.dbok, h.cov, h.even0,
      Or.inl ⟨rfl, hr, hrh, deadOk_nil _ _ _ _⟩⟩, by simp [hrh, hashTrie, encodeNode], fun x => absurd rfl x⟩
  · cases hroot : s.root with
    | none => rw [hroot] at hnn; simp [Hd.isNone] at hnn
    | empty cc => rw [hroot] at hok; exact hok.elim
    | persisted h0 =>
      rw [hroot] at hok habs
      have ht : T0 = t := by simpa [abs] using habs
      have hh : s.rootHash = hashTrie c.ver c.H t := by
        rw [hpers h0 hroot, hok.2.1, ← ht]; simp [hashTrie]
      refine ⟨{ s with death := [] }, T0, by simp only [commit, hroot], ⟨h.dbok, h.cov, h.even0, Or.inr ?_⟩,
        hh, fun _ => ht⟩
      refine ⟨htn, by simpa [hroot] using hok, by simpa [hroot] using habs,
        by simp [hroot, Hd.isNone], deadOk_nil _ _ _ _, ?_⟩
      intro hx hy
      simp only at hy
      exact hpers hx hy
    | leaf cc pk dv =>
      have hm : s.root.isMem = true := by rw [hroot]; rfl
      cases hc : cc with
      | some h0 =>
        have hcc : s.root.cached = some h0 := by rw [hroot, hc]; rfl
        obtain ⟨hh, ha, _⟩ := ok_cached hok hcc hm
        have ht : T0 = t := by rw [← habs, ha]; simp
        refine ⟨{ s with rootHash := h0, death := [] }, T0, ?_, ⟨h.dbok, h.cov, h.even0, Or.inr ?_⟩, ?_,
          fun _ => ht⟩
        · simp only [commit, hroot, hc, Hd.cached]
        · refine ⟨htn, hok, habs, hnn, deadOk_nil _ _ _ _, ?_⟩
          intro hx hy
          simp only at hy
          rw [hroot] at hy; cases hy
        · show h0 = hashTrie c.ver c.H t
          rw [hh.2.1, ← ht]; simp [hashTrie]
      | none =>
        have hcc : s.root.cached = none := by rw [hroot, hc]; rfl
        obtain ⟨hcm, hdbn⟩ := commit_new c hH s T0 h.cov (by rw [habs]; exact hcovt) h.dbok h.even0 hok hm
          hcc hd (by rw [habs]; exact hdec)
        rw [habs] at hcm hdbn
        refine ⟨_, t, hcm, ⟨hdbn, hcovt, fun k v hl => rep_even hrep k v hl, Or.inr ?_⟩, rfl, fun _ => rfl⟩
        exact ⟨htn, ⟨by simpa using htn, by simp, fun hx => absurd rfl hx⟩, by simp [abs], rfl,
          deadOk_nil _ _ _ _, fun hx hy => by cases hy; rfl⟩
    | branch cc pk dvo cs =>
      have hm : s.root.isMem = true := by rw [hroot]; rfl
      cases hc : cc with
      | some h0 =>
        have hcc : s.root.cached = some h0 := by rw [hroot, hc]; rfl
        obtain ⟨hh, ha, _⟩ := ok_cached hok hcc hm
        have ht : T0 = t := by rw [← habs, ha]; simp
        refine ⟨{ s with rootHash := h0, death := [] }, T0, ?_, ⟨h.dbok, h.cov, h.even0, Or.inr ?_⟩, ?_,
          fun _ => ht⟩
        · simp only [commit, hroot, hc, Hd.cached]
        · refine ⟨htn, hok, habs, hnn, deadOk_nil _ _ _ _, ?_⟩
          intro hx hy
          simp only at hy
          rw [hroot] at hy; cases hy
        · show h0 = hashTrie c.ver c.H t
          rw [hh.2.1, ← ht]; simp [hashTrie]
      | none =>
        have hcc : s.root.cached = none := by rw [hroot, hc]; rfl
        obtain ⟨hcm, hdbn⟩ := commit_new c hH s T0 h.cov (by rw [habs]; exact hcovt) h.dbok h.even0 hok hm
          hcc hd (by rw [habs]; exact hdec)
        rw [habs] at hcm hdbn
        refine ⟨_, t, hcm, ⟨hdbn, hcovt, fun k v hl => rep_even hrep k v hl, Or.inr ?_⟩, rfl, fun _ => rfl⟩
        exact ⟨htn, ⟨by simpa using htn, by simp, fun hx => absurd rfl hx⟩, by simp [abs], rfl,
          deadOk_nil _ _ _ _, fun hx hy => by cases hy; rfl⟩

/-- a fresh instance at the committed root -/
theorem sessG_reopen (c : Cfg) {Dom : Bytes → Prop} {s : St} {T0 t : Trie} (h : SessG c Dom s T0 t)
    (hroot : s.rootHash = hashTrie c.ver c.H t) (ht : t ≠ nil → T0 = t) :
    SessG c Dom (reopenAt s) T0 t := by
  refine ⟨h.dbok, h.cov, h.even0, ?_⟩
  by_cases htn : t = nil
  · subst htn
    exact Or.inl ⟨rfl, by simp [reopenAt, hroot, hashTrie, encodeNode],
      by simp [reopenAt, hroot, hashTrie, encodeNode], deadOk_nil _ _ _ _⟩
  · have hT := ht htn
    subst hT
    refine Or.inr ⟨htn, ⟨by simpa using htn, by simp [reopenAt, hroot, hashTrie], fun hx => absurd rfl hx⟩,
      by simp [reopenAt, abs], rfl, deadOk_nil _ _ _ _, fun hx hy => ?_⟩
    simp only [reopenAt] at hy ⊢
    cases hy; rfl

/-- `Get` on a fresh instance at the committed root reads the trie -/
theorem sessG_fresh_get (c : Cfg) {Dom : Bytes → Prop} {s : St} {T0 t : Trie} (h : SessG c Dom s T0 t)
    (hroot : s.rootHash = hashTrie c.ver c.H t) (ht : t ≠ nil → T0 = t) (k : Bytes) :
    doGet c (reopenAt s) k = lookup t (toNibs k) := by
  by_cases htn : t = nil
  · subst htn
    have hr : s.rootHash = c.H [0] := by rw [hroot]; simp [hashTrie, encodeNode]
    have hd0 : c.dec [0] = some .empty := h.dbok.dec0
    simp only [reopenAt, hr, doGet, lookupMem, lookupDB, Cfg.env, dbGet, rowKey, prefixBytes,
      List.nil_append, hasSuffix_self, if_true, lookupData, hd0, lookup_nil]
  · have hT := ht htn
    subst hT
    have hrow := h.dbok.root htn
    simp only [reopenAt, doGet, lookupMem, lookupDB, hroot, hashTrie]
    have hrow' : dbGet c.H s.db (rowKey [] (c.H (encodeNode c.ver c.H T0))) =
        some (encodeNode c.ver c.H T0) := hrow
    simp only [Cfg.env, hrow']
    exact lookupData_eq { H := c.H, dec := c.dec, ver := c.ver, db := s.db } k T0 h.dbok.dec htn
      ((toNibs k).length + 1) [] (toNibs k) (by omega) (by simp) h.dbok.stored

/-! ### `Get` on a live instance -/

theorem fetchMem_ok (e : Env) (T0 : Trie) (hdb : DbOk e T0) (full : Bytes) (fk : Nibs)
    (hfk : fk = toNibs full) (dv : DVal) (hv : OkV e.ver e.H T0 fk dv) :
    fetchMem e full dv = some (absV T0 fk dv) := by
  subst hfk
  cases dv with
  | inl x => rfl
  | fresh x => rfl
  | ref h =>
    obtain ⟨v, hl, hm, rfl⟩ := hv
    have := stored_value T0 [] (toNibs full) v hdb.stored hl hm
    rw [List.nil_append, rowKey, prefixBytes_toNibs] at this
    simp [fetchMem, absV, this, hl]

/-- the in-memory walk of `TrieDB.lookup` (continued by `TrieLookup` below the first persisted
    handle) returns the `lookup` of the trie the handle tree stands for -/
theorem lookupMem_ok (e : Env) (T0 : Trie) (hdb : DbOk e T0) (full : Bytes) (hd : Hd) :
    ∀ pre key, pre ++ key = toNibs full → Ok e.ver e.H T0 hd pre →
      lookupMem e full hd pre key = lookup (abs T0 hd pre) key := by
  induction hd with
  | none => intro _ _ _ _; rfl
  | empty c => intro _ _ _ hok; exact hok.elim
  | persisted h =>
    intro pre key hfull hok
    obtain ⟨hne, hh, hlong⟩ := hok
    have hrow : dbGet e.H e.db (rowKey pre h) = some (encodeNode e.ver e.H (subAt T0 pre)) := by
      rw [hh]
      by_cases hp : pre = []
      · subst hp
        simp only [subAt_nil_path] at hne ⊢
        exact hdb.root hne
      · have := stored_subAt T0 [] pre hdb.stored hne hp (hlong hp)
        simpa using this
    simp only [lookupMem, lookupDB, hrow, abs]
    have hst := stored_at T0 [] pre hdb.stored hne
    rw [List.nil_append] at hst
    exact lookupData_eq e full (subAt T0 pre)
      (fun n hn => hdb.dec n (nodeOf_trans hn (nodeOf_subAt T0 pre hne))) hne
      (key.length + 1) pre key (by omega) hfull hst
  | leaf c pk dv =>
    intro pre key hfull hok
    simp only [lookupMem, abs, lookup_leaf]
    by_cases hk : pk = key
    · subst hk
      simp only [if_true]
      exact fetchMem_ok e T0 hdb full _ hfull dv hok.1
    · have : ¬ key = pk := fun x => hk x.symm
      simp [hk, this]
  | branch c pk dvo cs ih =>
    intro pre key hfull hok
    obtain ⟨hvals, hkids, _⟩ := hok
    have hchild : ∀ i rest, key = pk ++ i :: rest →
        lookupMem e full (cs i) (pre ++ pk ++ [i]) rest =
          lookup (abs T0 (cs i) (pre ++ pk ++ [i])) rest := by
      intro i rest hk
      exact ih i _ rest (by rw [← hfull, hk]; simp) (hkids i)
    cases dvo with
    | none =>
      simp only [lookupMem, abs, Option.map_none]
      rcases key_cases pk key with rfl | ⟨i, rest, rfl⟩ | hoff
      · simp [lookup_branch_self]
      · have hne : ¬ (pk = pk ++ i :: rest) := self_ne_append_cons pk i rest
        simp only [hne, if_false, isPrefixOf_append_self, if_true, drop_len_append, lookup_branch_child]
        exact hchild i rest rfl
      · have hne : ¬ pk = key := fun x => (isPrefixOf_false_ne hoff) x.symm
        simp [hne, hoff, lookup_branch_off _ _ _ _ hoff]
    | some dv =>
      simp only [lookupMem, abs, Option.map_some]
      rcases key_cases pk key with rfl | ⟨i, rest, rfl⟩ | hoff
      · simp only [if_true, lookup_branch_self]
        exact fetchMem_ok e T0 hdb full _ hfull dv (hvals dv rfl)
      · have hne : ¬ (pk = pk ++ i :: rest) := self_ne_append_cons pk i rest
        simp only [hne, if_false, isPrefixOf_append_self, if_true, drop_len_append, lookup_branch_child]
        exact hchild i rest rfl
      · have hne : ¬ pk = key := fun x => (isPrefixOf_false_ne hoff) x.symm
        simp [hne, hoff, lookup_branch_off _ _ _ _ hoff]

/-- `Get` on a live instance agrees with the trie it stands for -/
theorem sessG_get (c : Cfg) {Dom : Bytes → Prop} {s : St} {T0 t : Trie} (h : SessG c Dom s T0 t)
    (k : Bytes) : doGet c s k = lookup t (toNibs k) := by
  rcases h.shape with ⟨rfl, hr, _, _⟩ | ⟨_, hok, habs, _, _, _⟩
  · have hd0 : c.dec [0] = some .empty := h.dbok.dec0
    simp only [doGet, hr, lookupMem, lookupDB, Cfg.env, dbGet, rowKey, prefixBytes,
      List.nil_append, hasSuffix_self, if_true, lookupData, hd0, lookup_nil]
  · rw [← habs]
    exact lookupMem_ok (c.env s) T0 h.dbok k s.root [] (toNibs k) (by simp) hok

end Gossamer.C06
