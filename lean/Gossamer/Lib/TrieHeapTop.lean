/-
The exported trie methods of the heap model against the write discipline (`Good`), the cache-only
methods `Hash` / `WriteDirty` against views (`VP`), and the read `Entries` as a function of the
reachable cells only.
-/
import Gossamer.Lib.TrieHeapOps
namespace Gossamer
namespace TrieHeap
open Trie

/-- every child pointer of an allocated cell points to an allocated cell -/
def HeapWF (hp : Heap) : Prop := ∀ a, a < hp.size → ∀ i x, (hp.get a).kids i = some x → x < hp.size

/-- the frame of an operation on the trie `t` in the heap `hp` -/
def frameOf (H : Bytes → Bytes) (hp : Heap) (t : Handle) : Frame :=
  { H := H, hp0 := hp, r0 := t.root, g := t.gen }

theorem ctx_frameOf (H : Bytes → Bytes) (hp : Heap) (t : Handle) : t.ctx H = (frameOf H hp t).ctx t.ver := rfl

theorem root_inW (H : Bytes → Bytes) (hp : Heap) (t : Handle) (hr : ∀ r, t.root = some r → r < hp.size) :
    ∀ a, t.root = some a → InW (frameOf H hp t) hp a := by
  intro a ha
  refine ⟨Or.inl ?_, hr a ha⟩
  show ReachO hp t.root a
  rw [ha]; exact Reach.refl a

/-- outcome of a mutating method: the new heap is good and the new root is usable -/
structure TopOK (H : Bytes → Bytes) (hp : Heap) (t : Handle) (hp' : Heap) (t' : Handle) : Prop where
  good : Good (frameOf H hp t) hp'
  root : ∀ a, t'.root = some a → InW (frameOf H hp t) hp' a
  gen : t'.gen = t.gen

theorem put_ok (H : Bytes → Bytes) (hp : Heap) (t : Handle) (hwf : HeapWF hp)
    (hr : ∀ r, t.root = some r → r < hp.size) (k v : Bytes) :
    TopOK H hp t (put H hp t k v).1 (put H hp t k v).2 := by
  have hg := Good.init (frameOf H hp t) hwf
  have st := insertF_post (F := frameOf H hp t) t.ver ((keyLEToNibbles k).length + 1) hg t.root
    (root_inW H hp t hr) (keyLEToNibbles k) v
  exact ⟨st.good, st.inw, rfl⟩

theorem delete_ok (H : Bytes → Bytes) (hp : Heap) (t : Handle) (hwf : HeapWF hp)
    (hr : ∀ r, t.root = some r → r < hp.size) (k : Bytes) :
    TopOK H hp t (delete H hp t k).1 (delete H hp t k).2 := by
  have hg := Good.init (frameOf H hp t) hwf
  have st := deleteF_post (F := frameOf H hp t) t.ver ((keyLEToNibbles k).length + 1) hg t.root
    (root_inW H hp t hr) (keyLEToNibbles k)
  exact ⟨st.good, st.inw, rfl⟩

theorem clearPrefix_ok (H : Bytes → Bytes) (hp : Heap) (t : Handle) (hwf : HeapWF hp)
    (hr : ∀ r, t.root = some r → r < hp.size) (p : Bytes) :
    TopOK H hp t (clearPrefix H hp t p).1 (clearPrefix H hp t p).2 := by
  have hg := Good.init (frameOf H hp t) hwf
  unfold clearPrefix
  split
  · exact ⟨good_ensureMV (F := frameOf H hp t) hg t.ver t.root, (fun a ha => nomatch ha), rfl⟩
  · have st := clearPrefixF_post (F := frameOf H hp t) t.ver
      ((trimZero (keyLEToNibbles p)).length + 1) hg t.root (root_inW H hp t hr) (trimZero (keyLEToNibbles p))
    exact ⟨st.good, st.inw, rfl⟩

theorem clearPrefixLimit_ok (H : Bytes → Bytes) (hp : Heap) (t : Handle) (hwf : HeapWF hp)
    (hr : ∀ r, t.root = some r → r < hp.size) (p : Bytes) (limit : Nat) :
    TopOK H hp t (clearPrefixLimit H hp t p limit).1 (clearPrefixLimit H hp t p limit).2.1 := by
  have hg := Good.init (frameOf H hp t) hwf
  unfold clearPrefixLimit
  split
  · exact ⟨hg, root_inW H hp t hr, rfl⟩
  · have st := cplF_post (F := frameOf H hp t) t.ver
      ((trimZero (keyLEToNibbles p)).length + 1) hg t.root (root_inW H hp t hr)
      (trimZero (keyLEToNibbles p)) limit
    exact ⟨st.good, st.inw, rfl⟩

/-! ### `Hash` against a view -/

theorem calcRootMV_vp {H : Bytes → Bytes} {P : Nat → Prop} {ρ : Nat} {hp : Heap} (v : View hp P ρ)
    (r : Nat) (hr : ¬ P r) : VP H P ρ hp (calcRootMV H hp r).1 := by
  rw [calcRootMV_eq]
  by_cases hu : (hp.get r).dirty = false ∧ ((hp.get r).mv.getD []).length = 32
  · rw [if_pos hu]; exact VP.refl H P ρ hp
  · rw [if_neg hu]
    obtain ⟨_, hspec⟩ := encodeAndHash_spec H true hp r
    cases he : (encodeAndHash H true hp r).2 with
    | none => rw [he] at hspec; exact VP.of_trp v hspec
    | some em =>
      obtain ⟨enc, m⟩ := em
      rw [he] at hspec
      obtain ⟨henc, hmv, hp1, _, ht1, heq⟩ := hspec
      show VP H P ρ hp (encodeAndHash H true hp r).1
      rw [heq]
      refine (VP.of_trp v ht1).write_mv r m (fun hP => absurd hP hr) ?_
      rintro rfl
      right
      simp only [if_true] at hmv
      exact Or.inr ⟨hu, enc, henc, hmv⟩

theorem hash_vp {H : Bytes → Bytes} {P : Nat → Prop} {ρ : Nat} {hp : Heap} (v : View hp P ρ)
    (t : Handle) (hr : ∀ r, t.root = some r → ¬ P r) : VP H P ρ hp (hash H hp t).1 := by
  unfold hash hashRoot
  cases h : t.root with
  | none => exact VP.refl H P ρ hp
  | some r => exact calcRootMV_vp v r (hr r h)

theorem mvOnly_hash (H : Bytes → Bytes) (hp : Heap) (t : Handle) : MvOnly hp (hash H hp t).1 := by
  unfold hash hashRoot
  cases t.root with
  | none => exact MvOnly.refl hp
  | some r => exact mvOnly_calcRootMV H hp r

/-- the executable `Hash()` returns what the relation says -/
theorem hash_sound (H : Bytes → Bytes) (hp : Heap) (t : Handle) (r : Nat) (hr : t.root = some r)
    (m : Bytes) (h : (hash H hp t).2 = some m) : RVal H hp r m := by
  unfold hash hashRoot at h
  rw [hr] at h
  simp only at h
  rw [calcRootMV_eq] at h
  by_cases hu : (hp.get r).dirty = false ∧ ((hp.get r).mv.getD []).length = 32
  · rw [if_pos hu] at h
    exact Or.inl ⟨hu, h⟩
  · rw [if_neg hu] at h
    obtain ⟨_, hspec⟩ := encodeAndHash_spec H true hp r
    cases he : (encodeAndHash H true hp r).2 with
    | none => rw [he] at h; simp at h
    | some em =>
      obtain ⟨enc, m'⟩ := em
      rw [he] at hspec h
      obtain ⟨henc, hmv, _⟩ := hspec
      simp only [Option.map_some, Option.some.injEq] at h
      simp only [if_true] at hmv
      exact Or.inr ⟨hu, enc, henc, by rw [← h, hmv]⟩

/-! ### `WriteDirty` against a view -/

/-- only the caches (`Dirty`, `MerkleValue`) differ -/
structure CacheOnly (hp hp' : Heap) : Prop where
  size : hp'.size = hp.size
  cell : ∀ b, (hp'.get b).strip = (hp.get b).strip

theorem CacheOnly.refl (hp : Heap) : CacheOnly hp hp := ⟨rfl, fun _ => rfl⟩

theorem CacheOnly.trans {hp hp1 hp2 : Heap} (a : CacheOnly hp hp1) (b : CacheOnly hp1 hp2) :
    CacheOnly hp hp2 := ⟨b.size.trans a.size, fun x => (b.cell x).trans (a.cell x)⟩

theorem MvOnly.cacheOnly {hp hp' : Heap} (h : MvOnly hp hp') : CacheOnly hp hp' :=
  ⟨h.size, fun b => (h.cell b).1⟩

theorem cacheOnly_clean (hp : Heap) (a : Nat) :
    CacheOnly hp (hp.modify a (fun x => { x with dirty := false })) := by
  refine ⟨by simp, fun b => ?_⟩
  rw [Heap.get_modify]; split
  · rename_i h; rw [h.1]; rfl
  · rfl

theorem wdKids_inv {M : Heap × DB → Prop} (rec : Heap × DB → Option Nat → Heap × DB)
    (hrec : ∀ s x, M s → M (rec s x)) (ks : Nib → Option Nat) (s : Heap × DB) (hs : M s) :
    M (wdKids rec ks s) := by
  rw [wdKids_eq]
  generalize List.finRange 16 = l
  induction l generalizing s with
  | nil => exact hs
  | cons i l ih => exact ih _ (hrec s (ks i) hs)

theorem writeDirtyF_cacheOnly (c : Ctx) : ∀ (f : Nat) (s : Heap × DB) (x : Option Nat),
    CacheOnly s.1 (writeDirtyF c f s x).1
  | f, s, none => by
    have : writeDirtyF c f s none = s := by cases f <;> rfl
    rw [this]; exact CacheOnly.refl _
  | 0, s, some a => CacheOnly.refl _
  | f + 1, s, some a => by
    have ih := writeDirtyF_cacheOnly c f
    unfold writeDirtyF
    simp only []
    split
    · exact CacheOnly.refl _
    · have he := (encodeAndHash_spec c.H (c.troot == some a) s.1 a).1.cacheOnly
      split
      · exact he
      · split
        · exact he.trans (cacheOnly_clean _ a)
        · split
          · exact he.trans (cacheOnly_clean _ a)
          · refine CacheOnly.trans ?_ (cacheOnly_clean _ a)
            exact wdKids_inv (M := fun t => CacheOnly s.1 t.1) _
              (fun t x ht => ht.trans (ih t x)) _ _ he

theorem dirty_lt {hp : Heap} {a : Nat} (h : (hp.get a).dirty = true) : a < hp.size := by
  by_cases hlt : a < hp.size
  · exact hlt
  · rw [Heap.get_of_size_le (by omega)] at h
    cases h

theorem writeDirtyF_vp {H : Bytes → Bytes} {P : Nat → Prop} {ρ : Nat} (c : Ctx) (hH : c.H = H)
    (hroot : ∀ r, c.troot = some r → ¬ P r) :
    ∀ (f : Nat) (s : Heap × DB) (x : Option Nat) (base : Heap), View base P ρ → VP H P ρ base s.1 →
      VP H P ρ base (writeDirtyF c f s x).1
  | f, s, none, base, _, t0 => by
    have : writeDirtyF c f s none = s := by cases f <;> rfl
    rw [this]; exact t0
  | 0, s, some a, base, _, t0 => t0
  | f + 1, s, some a, base, v0, t0 => by
    have ih := writeDirtyF_vp (ρ := ρ) c hH hroot f
    subst hH
    have v : View s.1 P ρ := v0.next t0
    unfold writeDirtyF
    simp only []
    split
    · exact t0
    · rename_i hdirty
      have hd : (s.1.get a).dirty = true := by simpa using hdirty
      have hlt : a < s.1.size := dirty_lt hd
      obtain ⟨hmv, hspec⟩ := encodeAndHash_spec c.H (c.troot == some a) s.1 a
      cases he : (encodeAndHash c.H (c.troot == some a) s.1 a).2 with
      | none =>
        rw [he] at hspec
        simp only []
        exact t0.trans v0 (VP.of_trp v hspec)
      | some em =>
        obtain ⟨enc, m⟩ := em
        rw [he] at hspec
        obtain ⟨henc, hm, hp1, hm1, ht1, heq⟩ := hspec
        have t1 : VP c.H P ρ base hp1 := t0.trans v0 (VP.of_trp v ht1)
        -- the value written at `a` is correct for the readers of the view
        have hvalNR : (c.troot == some a) = false → Val c.H s.1 a m := by
          intro hr
          rw [hr] at hm
          simp only [Bool.false_eq_true, if_false] at hm
          obtain ⟨ms, hk, rfl⟩ := henc
          rw [hm]; exact Val.comp ms (Or.inl hd) hk
        have hvP : P a → Val c.H base a m := by
          intro hPa
          have hr : (c.troot == some a) = false := by
            cases hb : (c.troot == some a) with
            | false => rfl
            | true => exact absurd hPa (hroot a (by simpa using hb))
          exact t0.trp.val_bwd v0.closed (hvalNR hr) hPa
        have hfρ : a = ρ → Flav c.H base ρ m := by
          rintro rfl
          apply t0.flav_bwd v0
          cases hb : (c.troot == some a) with
          | false => exact Or.inl (hvalNR hb)
          | true =>
            rw [hb] at hm
            simp only [if_true] at hm
            refine Or.inr (Or.inr ⟨?_, enc, henc, hm⟩)
            rintro ⟨h1, _⟩
            rw [hd] at h1; cases h1
        have tA : VP c.H P ρ base (encodeAndHash c.H (c.troot == some a) s.1 a).1 := by
          rw [heq]; exact t1.write_mv a m hvP hfρ
        have hcellA : ((encodeAndHash c.H (c.troot == some a) s.1 a).1.get a).mv = some m := by
          rw [heq, Heap.get_modify, if_pos ⟨rfl, by rw [hm1.size]; exact hlt⟩]
        have hclean : VP c.H P ρ base
            ((encodeAndHash c.H (c.troot == some a) s.1 a).1.modify a (fun x => { x with dirty := false })) :=
          tA.write_clean a (fun hPa => ⟨m, hcellA, hvP hPa⟩) (fun h => ⟨m, by rw [← h]; exact hcellA, hfρ h⟩)
        simp only []
        split
        · exact hclean
        · split
          · exact hclean
          · -- children, then clean
            have vA : View (encodeAndHash c.H (c.troot == some a) s.1 a).1 P ρ := v0.next tA
            have tB := wdKids_inv (M := fun t => VP c.H P ρ base t.1) (writeDirtyF c f)
              (fun t x ht => ih t x base v0 ht) (s.1.get a).kids
              ((encodeAndHash c.H (c.troot == some a) s.1 a).1,
                dbPut (if (s.1.get a).mbh = true then
                  dbPut s.2 (nibBytes (s.1.get a).pk ++ c.H ((s.1.get a).val.getD [])) ((s.1.get a).val.getD [])
                  else s.2) m enc) tA
            have t2 := wdKids_inv
              (M := fun t => VP c.H P ρ (encodeAndHash c.H (c.troot == some a) s.1 a).1 t.1) (writeDirtyF c f)
              (fun t x ht => ih t x _ vA ht) (s.1.get a).kids
              ((encodeAndHash c.H (c.troot == some a) s.1 a).1,
                dbPut (if (s.1.get a).mbh = true then
                  dbPut s.2 (nibBytes (s.1.get a).pk ++ c.H ((s.1.get a).val.getD [])) ((s.1.get a).val.getD [])
                  else s.2) m enc) (VP.refl _ _ _ _)
            refine tB.write_clean a ?_ ?_
            · intro hPa
              rcases (t2.trp.cell a hPa).2 with hsame | ⟨m2, hm2, _, hv2⟩
              · exact ⟨m, by rw [hsame]; exact hcellA, hvP hPa⟩
              · exact ⟨m2, hm2, tA.trp.val_bwd v0.closed hv2 hPa⟩
            · rintro rfl
              rcases t2.root.cell with hsame | ⟨m2, hm2, _, hf2⟩
              · exact ⟨m, by rw [hsame]; exact hcellA, hfρ rfl⟩
              · exact ⟨m2, hm2, tA.flav_bwd v0 hf2⟩

theorem writeDirty_vp {H : Bytes → Bytes} {P : Nat → Prop} {ρ : Nat} {hp : Heap} (v : View hp P ρ)
    (db : DB) (t : Handle) (hr : ∀ r, t.root = some r → ¬ P r) :
    VP H P ρ hp (writeDirty H hp db t).1 :=
  writeDirtyF_vp (t.ctx H) rfl hr bigFuel (hp, db) t.root hp v (VP.refl H P ρ hp)

theorem writeDirty_cacheOnly (H : Bytes → Bytes) (hp : Heap) (db : DB) (t : Handle) :
    CacheOnly hp (writeDirty H hp db t).1 :=
  writeDirtyF_cacheOnly (t.ctx H) bigFuel (hp, db) t.root

/-! ### reads depend on the reachable cells only -/

theorem reachO_kid {hp : Heap} {a b : Nat} (i : Nib) (h : ReachO hp ((hp.get a).kids i) b) : Reach hp a b := by
  cases hk : (hp.get a).kids i with
  | none => rw [hk] at h; exact h.elim
  | some c => rw [hk] at h; exact Reach.step i hk h

theorem retrieveF_congr {hp hp' : Heap} : ∀ (f : Nat) (x : Option Nat) (key : Nibs),
    (∀ a, ReachO hp x a → (hp'.get a).strip = (hp.get a).strip) →
    retrieveF f hp' x key = retrieveF f hp x key
  | f, none, key, _ => by cases f <;> rfl
  | 0, some a, key, _ => rfl
  | f + 1, some a, key, h => by
    have hs := h a (Reach.refl a)
    unfold retrieveF
    simp only []
    rw [strip_isBranch hs, strip_pk hs, strip_val hs, strip_kids hs]
    split
    · rfl
    · split
      · rfl
      · split
        · rfl
        · split
          · rename_i i rest _
            exact retrieveF_congr f _ rest (fun b hb => h b (reachO_kid i hb))
          · rfl

theorem flatMap_congr' {α β : Type} (l : List α) (f g : α → List β) (h : ∀ a, a ∈ l → f a = g a) :
    l.flatMap f = l.flatMap g := by
  induction l with
  | nil => rfl
  | cons x xs ih =>
    simp only [List.flatMap_cons]
    rw [h x (List.mem_cons_self), ih (fun a ha => h a (List.mem_cons_of_mem x ha))]

theorem keysF_congr {hp hp' : Heap} : ∀ (f : Nat) (x : Option Nat) (pre : Nibs),
    (∀ a, ReachO hp x a → (hp'.get a).strip = (hp.get a).strip) →
    keysF f hp' x pre = keysF f hp x pre
  | f, none, pre, _ => by cases f <;> rfl
  | 0, some a, pre, _ => rfl
  | f + 1, some a, pre, h => by
    have hs := h a (Reach.refl a)
    unfold keysF
    simp only []
    rw [strip_isBranch hs, strip_pk hs, strip_val hs, strip_kids hs]
    split
    · rfl
    · congr 1
      apply flatMap_congr'
      intro i _
      exact keysF_congr f _ _ (fun b hb => h b (reachO_kid i hb))

/-- `Entries()` is a function of the fields (other than the caches) of the reachable cells -/
theorem entries_congr {hp hp' : Heap} (root : Option Nat)
    (h : ∀ a, ReachO hp root a → (hp'.get a).strip = (hp.get a).strip) :
    entries hp' root = entries hp root := by
  unfold entries get
  rw [keysF_congr bigFuel root [] h]
  apply List.map_congr_left
  intro k _
  simp only []
  rw [retrieveF_congr _ root _ h]

/-- reachability is a function of the fields (other than the caches) of the cells passed through -/
theorem reachO_congr {hp hp' : Heap} (root : Option Nat)
    (h : ∀ a, ReachO hp root a → (hp'.get a).strip = (hp.get a).strip) {b : Nat}
    (hb : ReachO hp root b) : ReachO hp' root b := by
  cases root with
  | none => exact hb.elim
  | some r => exact Reach.mono hb (fun x hx => strip_kids (h x hx))

end TrieHeap
end Gossamer
