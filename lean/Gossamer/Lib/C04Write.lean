/-
C04, write side.  `HRep hp t N a`: the heap cell `a` and everything below it is the trie `t`, whose
codec node (C07 form, real children) is `N`.  `Coh`: the caches are coherent with respect to a
store `G` — a clean cell carries the Merkle value of its sub-trie (root cell: the root hash) and its
sub-trie is already held by the store (`StoG`).  Under these two, `WriteDirty` makes the store hold
the whole trie (`writeDirty_sto`), i.e. it establishes the hypothesis of `C04_getFromDB_stored`.
-/
import Gossamer.Lib.C04Stored
import Gossamer.Lib.TrieHeapTop
namespace Gossamer
namespace TrieHeap
open Trie TrieCodec

/-! ### nibbles as bytes -/

theorem toNib_ofNat (i : Nib) : toNib (UInt8.ofNat i.val) = i := by
  unfold toNib
  apply Fin.ext
  have h : i.val < 256 := Nat.lt_trans i.isLt (by decide)
  simp [Fin.ofNat, UInt8.toNat_ofNat', Nat.mod_eq_of_lt h, Nat.mod_eq_of_lt i.isLt]

theorem nibBytes_toNib (k : Nibs) : (nibBytes k).map toNib = k := by
  unfold nibBytes
  rw [List.map_map]
  conv => rhs; rw [← List.map_id k]
  apply List.map_congr_left
  intro i _
  exact toNib_ofNat i

theorem nibBytes_length (k : Nibs) : (nibBytes k).length = k.length := by simp [nibBytes]

theorem nibBytes_isNib (k : Nibs) : IsNib (nibBytes k) := by
  intro x hx
  unfold nibBytes at hx
  rw [List.mem_map] at hx
  obtain ⟨i, _, rfl⟩ := hx
  rw [UInt8.lt_iff_toNat_lt]
  have h : i.val < 256 := Nat.lt_trans i.isLt (by decide)
  simp [UInt8.toNat_ofNat', Nat.mod_eq_of_lt h]

/-! ### the trie below a heap cell -/

/-- one child slot: a nil pointer is the empty trie, a pointer leads to a non-empty one -/
def KidH (R : Node → Nat → Prop) (t : Trie) (k : Node) : Option Nat → Prop
  | none => t = .nil ∧ k = .empty
  | some c => t ≠ .nil ∧ R k c

def HRep (hp : Heap) : Trie → Node → Nat → Prop
  | .nil, _, _ => False
  | .leaf pk v, N, a =>
    (hp.get a).isBranch = false ∧ (hp.get a).pk = pk ∧ (hp.get a).val = some v ∧
      (∀ i, (hp.get a).kids i = none) ∧ N = .leaf (nibBytes pk) (some v) (hp.get a).mbh
  | .branch pk v cs, N, a =>
    (hp.get a).isBranch = true ∧ (hp.get a).pk = pk ∧ (hp.get a).val = v ∧
      ∃ kn : Nib → Node, N = .branch (nibBytes pk) v (hp.get a).mbh ((List.finRange 16).map kn) ∧
        ∀ i, KidH (HRep hp (cs i)) (cs i) (kn i) ((hp.get a).kids i)

/-- a represented node is a real node -/
theorem HRep.real {hp : Heap} {t : Trie} {N : Node} {a : Nat} (h : HRep hp t N a) :
    (∃ p v m, N = .leaf p v m) ∨ (∃ p v m ks, N = .branch p v m ks) := by
  cases t with
  | nil => exact h.elim
  | leaf pk v => exact Or.inl ⟨_, _, _, h.2.2.2.2⟩
  | branch pk v cs =>
    obtain ⟨_, _, _, kn, hN, _⟩ := h
    exact Or.inr ⟨_, _, _, _, hN⟩

theorem HRep.ne_nil {hp : Heap} {t : Trie} {N : Node} {a : Nat} (h : HRep hp t N a) : t ≠ .nil := by
  intro e; subst e; exact h

def maxKids (f : Nib → Nat) : Nat := (List.finRange 16).foldl (fun m i => max m (f i)) 0

theorem le_maxKids (f : Nib → Nat) (i : Nib) : f i ≤ maxKids f := by
  unfold maxKids
  have key : ∀ (l : List Nib) (m : Nat), i ∈ l → f i ≤ l.foldl (fun m i => max m (f i)) m := by
    intro l
    induction l with
    | nil => intro m h; cases h
    | cons x xs ih =>
      intro m h
      simp only [List.foldl_cons]
      have hmono : ∀ (l : List Nib) (m : Nat), m ≤ l.foldl (fun m i => max m (f i)) m := by
        intro l
        induction l with
        | nil => intro m; exact Nat.le_refl _
        | cons y ys ih2 => intro m; simp only [List.foldl_cons]; exact Nat.le_trans (Nat.le_max_left _ _) (ih2 _)
      rcases List.mem_cons.mp h with rfl | h
      · exact Nat.le_trans (Nat.le_max_right _ _) (hmono xs _)
      · exact ih _ h
  exact key _ 0 (List.mem_finRange i)

/-- height of a trie -/
def depth : Trie → Nat
  | .nil => 0
  | .leaf _ _ => 1
  | .branch _ _ cs => maxKids (fun i => depth (cs i)) + 1

theorem depth_kid (pk : Nibs) (v : Option Bytes) (cs : Nib → Trie) (i : Nib) :
    depth (cs i) < depth (.branch pk v cs) := by
  show depth (cs i) < maxKids (fun i => depth (cs i)) + 1
  exact Nat.lt_succ_of_le (le_maxKids (fun i => depth (cs i)) i)

/-! ### the codec encoding of a represented cell -/

/-- contribution of one child slot to its parent's encoding -/
def kidEnc (H : Bytes → Bytes) : Node → Bytes
  | .empty => []
  | .stub mv => scaleEncBytes mv
  | .leaf a b c => scaleEncBytes (Gossamer.merkleValue H (encode H (.leaf a b c)))
  | .branch a b c d => scaleEncBytes (Gossamer.merkleValue H (encode H (.branch a b c d)))

theorem encodeKids_flatMap (H : Bytes → Bytes) : ∀ kids : List Node,
    TrieCodec.encodeKids H kids = kids.flatMap (kidEnc H)
  | [] => by simp [TrieCodec.encodeKids]
  | c :: cs => by
    rw [List.flatMap_cons, ← encodeKids_flatMap H cs]
    cases c <;> simp [TrieCodec.encodeKids, kidEnc, TrieCodec.merkleValue, Gossamer.merkleValue]

theorem kidEnc_real (H : Bytes → Bytes) {N : Node}
    (h : (∃ p v m, N = .leaf p v m) ∨ (∃ p v m ks, N = .branch p v m ks)) :
    kidEnc H N = scaleEncBytes (Gossamer.merkleValue H (encode H N)) := by
  rcases h with ⟨p, v, m, rfl⟩ | ⟨p, v, m, ks, rfl⟩ <;> rfl

def kidAt : Node → Nib → Node
  | .branch _ _ _ ks, i => (ks[i.val]?).getD .empty
  | _, _ => .empty

theorem getElem?_finRange_map {α : Type} (f : Nib → α) (i : Nib) :
    ((List.finRange 16).map f)[i.val]? = some (f i) := by
  rw [List.getElem?_map]
  have : (List.finRange 16)[i.val]? = some i := by
    rw [List.getElem?_eq_getElem (by simp)]
    simp
  rw [this]; rfl

theorem kidAt_map (p : Bytes) (v : Option Bytes) (m : Bool) (kn : Nib → Node) (i : Nib) :
    kidAt (.branch p v m ((List.finRange 16).map kn)) i = kn i := by
  simp [kidAt, getElem?_finRange_map]

/-- the encoding of a represented leaf cell -/
theorem hrep_enc_leaf (H : Bytes → Bytes) {hp : Heap} {pk : Nibs} {v : Bytes} {N : Node} {a : Nat}
    (h : HRep hp (.leaf pk v) N a) : encodeHead H (hp.get a) = encode H N := by
  obtain ⟨hb, hpk, hv, _, rfl⟩ := h
  unfold encodeHead
  simp [hb, hpk, hv, TrieCodec.encode, nibBytes_length]

/-- the encoding of a represented branch cell: head, then the children's Merkle values -/
theorem hrep_enc_branch (H : Bytes → Bytes) {hp : Heap} {pk : Nibs} {v : Option Bytes} {cs : Nib → Trie}
    {a : Nat} {kn : Nib → Node}
    (hb : (hp.get a).isBranch = true) (hpk : (hp.get a).pk = pk) (hv : (hp.get a).val = v)
    (hk : ∀ i, KidH (HRep hp (cs i)) (cs i) (kn i) ((hp.get a).kids i)) :
    encodeHead H (hp.get a) ++ (List.finRange 16).flatMap (fun i => kidEnc H (kn i)) =
      encode H (.branch (nibBytes pk) v (hp.get a).mbh ((List.finRange 16).map kn)) := by
  have hpres : presentKids (hp.get a).kids = TrieCodec.presentKids ((List.finRange 16).map kn) := by
    have : ∀ l : List Nib, l.map (fun i => ((hp.get a).kids i).isSome) = TrieCodec.presentKids (l.map kn) := by
      intro l
      induction l with
      | nil => rfl
      | cons i l ih =>
        simp only [List.map_cons, TrieCodec.presentKids]
        rw [ih]
        congr 1
        have := hk i
        cases hki : (hp.get a).kids i with
        | none => rw [hki] at this; rw [this.2]; rfl
        | some c =>
          rw [hki] at this
          rcases this.2.real with ⟨_, _, _, e⟩ | ⟨_, _, _, _, e⟩ <;> rw [e] <;> rfl
    exact this _
  unfold encodeHead
  simp only [hb, Bool.not_true, Bool.false_eq_true, if_false, hpk, hv, TrieCodec.encode, nibBytes_length, hpres,
    encodeKids_flatMap, List.flatMap_map, List.append_assoc]

/-! ### coherent caches -/

/-- a clean cell: its cache is the Merkle value of its sub-trie (root cell: the root hash), and the
    store already holds the sub-trie -/
def CleanOK (H : Bytes → Bytes) (G : Bytes → Bytes → Prop) (root : Bool) (n : HNode) (t : Trie)
    (N : Node) : Prop :=
  n.mv = some (if root then H (encode H N) else Gossamer.merkleValue H (encode H N)) ∧ StoG H G t N ∧
    ((root = true ∨ 32 ≤ (encode H N).length) → G (H (encode H N)) (encode H N))

def Coh (H : Bytes → Bytes) (G : Bytes → Bytes → Prop) (hp : Heap) : Bool → Trie → Node → Nat → Prop
  | _, .nil, _, _ => True
  | r, .leaf pk v, N, a => (hp.get a).dirty = false → CleanOK H G r (hp.get a) (.leaf pk v) N
  | r, .branch pk v cs, N, a =>
    ((hp.get a).dirty = false → CleanOK H G r (hp.get a) (.branch pk v cs) N) ∧
    (∀ i c, (hp.get a).kids i = some c → Coh H G hp false (cs i) (kidAt N i) c)

theorem Coh.clean {H : Bytes → Bytes} {G : Bytes → Bytes → Prop} {hp : Heap} {r : Bool} {t : Trie} {N : Node}
    {a : Nat} (h : Coh H G hp r t N a) (hne : t ≠ .nil) (hd : (hp.get a).dirty = false) :
    CleanOK H G r (hp.get a) t N := by
  cases t with
  | nil => exact absurd rfl hne
  | leaf pk v => exact h hd
  | branch pk v cs => exact h.1 hd

/-- only `MerkleValue` caches of DIRTY cells differ -/
structure DFrame (hp hp' : Heap) : Prop where
  size : hp'.size = hp.size
  cell : ∀ b, hp'.get b = hp.get b ∨
    ((hp.get b).dirty = true ∧ ∃ m, hp'.get b = { hp.get b with mv := m })

theorem DFrame.refl (hp : Heap) : DFrame hp hp := ⟨rfl, fun _ => Or.inl rfl⟩

theorem DFrame.strip {hp hp' : Heap} (h : DFrame hp hp') (b : Nat) :
    (hp'.get b).strip = (hp.get b).strip ∧ (hp'.get b).dirty = (hp.get b).dirty := by
  rcases h.cell b with e | ⟨_, m, e⟩ <;> rw [e] <;> exact ⟨rfl, rfl⟩

theorem DFrame.clean {hp hp' : Heap} (h : DFrame hp hp') {b : Nat} (hd : (hp.get b).dirty = false) :
    hp'.get b = hp.get b := by
  rcases h.cell b with e | ⟨hd', _⟩
  · exact e
  · rw [hd] at hd'; cases hd'

theorem DFrame.trans {hp hp1 hp2 : Heap} (a : DFrame hp hp1) (b : DFrame hp1 hp2) : DFrame hp hp2 := by
  refine ⟨b.size.trans a.size, fun x => ?_⟩
  rcases a.cell x with e1 | ⟨hd1, m1, e1⟩
  · rcases b.cell x with e2 | ⟨hd2, m2, e2⟩
    · left; rw [e2, e1]
    · right; rw [e1] at hd2 e2; exact ⟨hd2, m2, e2⟩
  · rcases b.cell x with e2 | ⟨hd2, m2, e2⟩
    · right; exact ⟨hd1, m1, by rw [e2, e1]⟩
    · right; exact ⟨hd1, m2, by rw [e2, e1]⟩

theorem DFrame.modify_mv {hp : Heap} {a : Nat} (hd : (hp.get a).dirty = true) (m : Option Bytes) :
    DFrame hp (hp.modify a (fun x => { x with mv := m })) := by
  refine ⟨by simp, fun b => ?_⟩
  rw [Heap.get_modify]
  split
  · rename_i h; obtain ⟨rfl, _⟩ := h; exact Or.inr ⟨hd, m, rfl⟩
  · exact Or.inl rfl

theorem hrep_dframe {hp hp' : Heap} (hf : DFrame hp hp') : ∀ (t : Trie) (N : Node) (a : Nat),
    HRep hp t N a → HRep hp' t N a
  | .nil, _, _, h => h
  | .leaf pk v, N, a, h => by
    obtain ⟨h1, h2, h3, h4, h5⟩ := h
    have hs := (hf.strip a).1
    exact ⟨by rw [strip_isBranch hs]; exact h1, by rw [strip_pk hs]; exact h2, by rw [strip_val hs]; exact h3,
      by rw [strip_kids hs]; exact h4, by rw [strip_mbh hs]; exact h5⟩
  | .branch pk v cs, N, a, h => by
    obtain ⟨h1, h2, h3, kn, h4, h5⟩ := h
    have hs := (hf.strip a).1
    refine ⟨by rw [strip_isBranch hs]; exact h1, by rw [strip_pk hs]; exact h2, by rw [strip_val hs]; exact h3,
      kn, by rw [strip_mbh hs]; exact h4, fun i => ?_⟩
    rw [strip_kids hs]
    have := h5 i
    cases hk : (hp.get a).kids i with
    | none => rw [hk] at this; exact this
    | some c => rw [hk] at this; exact ⟨this.1, hrep_dframe hf (cs i) (kn i) c this.2⟩

theorem coh_dframe {H : Bytes → Bytes} {G : Bytes → Bytes → Prop} {hp hp' : Heap} (hf : DFrame hp hp') :
    ∀ (t : Trie) (r : Bool) (N : Node) (a : Nat), Coh H G hp r t N a → Coh H G hp' r t N a
  | .nil, _, _, _, _ => trivial
  | .leaf pk v, r, N, a, h => by
    intro hd
    have hd0 : (hp.get a).dirty = false := by rw [← (hf.strip a).2]; exact hd
    rw [hf.clean hd0]; exact h hd0
  | .branch pk v cs, r, N, a, h => by
    refine ⟨fun hd => ?_, fun i c hk => ?_⟩
    · have hd0 : (hp.get a).dirty = false := by rw [← (hf.strip a).2]; exact hd
      rw [hf.clean hd0]; exact h.1 hd0
    · have hk0 : (hp.get a).kids i = some c := by rw [← strip_kids (hf.strip a).1]; exact hk
      exact coh_dframe hf (cs i) false _ c (h.2 i c hk0)

/-- `HRep` only reads the fields other than the caches -/
theorem hrep_strip' {hp hp' : Heap} (hs : ∀ b, (hp'.get b).strip = (hp.get b).strip) :
    ∀ (t : Trie) (N : Node) (a : Nat), HRep hp t N a → HRep hp' t N a
  | .nil, _, _, h => h
  | .leaf pk v, N, a, h => by
    obtain ⟨h1, h2, h3, h4, h5⟩ := h
    have hs := hs a
    exact ⟨by rw [strip_isBranch hs]; exact h1, by rw [strip_pk hs]; exact h2, by rw [strip_val hs]; exact h3,
      by rw [strip_kids hs]; exact h4, by rw [strip_mbh hs]; exact h5⟩
  | .branch pk v cs, N, a, h => by
    obtain ⟨h1, h2, h3, kn, h4, h5⟩ := h
    have hsa := hs a
    refine ⟨by rw [strip_isBranch hsa]; exact h1, by rw [strip_pk hsa]; exact h2, by rw [strip_val hsa]; exact h3,
      kn, by rw [strip_mbh hsa]; exact h4, fun i => ?_⟩
    rw [strip_kids hsa]
    have := h5 i
    cases hk : (hp.get a).kids i with
    | none => rw [hk] at this; exact this
    | some c => rw [hk] at this; exact ⟨this.1, hrep_strip' hs (cs i) (kn i) c this.2⟩

/-- every changed cell is the cell of a represented sub-trie of height at most `d` -/
def Touch (hp hp' : Heap) (d : Nat) : Prop :=
  ∀ x, hp'.get x = hp.get x ∨ ∃ t' N', HRep hp t' N' x ∧ depth t' ≤ d

/-- `DFrame` + `Touch` -/
structure DT (hp hp' : Heap) (d : Nat) : Prop where
  frame : DFrame hp hp'
  touch : Touch hp hp' d

theorem DT.refl (hp : Heap) (d : Nat) : DT hp hp d := ⟨DFrame.refl hp, fun _ => Or.inl rfl⟩

theorem DT.mono {hp hp' : Heap} {d d' : Nat} (h : DT hp hp' d) (hd : d ≤ d') : DT hp hp' d' :=
  ⟨h.frame, fun x => by
    rcases h.touch x with e | ⟨t', N', h1, h2⟩
    · exact Or.inl e
    · exact Or.inr ⟨t', N', h1, Nat.le_trans h2 hd⟩⟩

theorem hrep_dframe_back {hp hp' : Heap} (hf : DFrame hp hp') (t : Trie) (N : Node) (a : Nat)
    (h : HRep hp' t N a) : HRep hp t N a :=
  hrep_strip' (fun b => ((hf.strip b).1).symm) t N a h

theorem DT.trans {hp hp1 hp2 : Heap} {d : Nat} (a : DT hp hp1 d) (b : DT hp1 hp2 d) : DT hp hp2 d :=
  ⟨a.frame.trans b.frame, fun x => by
    rcases b.touch x with e | ⟨t', N', h1, h2⟩
    · rw [e]; exact a.touch x
    · exact Or.inr ⟨t', N', hrep_dframe_back a.frame t' N' x h1, h2⟩⟩

theorem DT.modify_mv {hp : Heap} {a : Nat} {d : Nat} (hd : (hp.get a).dirty = true) (m : Option Bytes)
    {t : Trie} {N : Node} (hr : HRep hp t N a) (hdep : depth t ≤ d) :
    DT hp (hp.modify a (fun x => { x with mv := m })) d :=
  ⟨DFrame.modify_mv hd m, fun x => by
    rw [Heap.get_modify]
    split
    · rename_i h; obtain ⟨rfl, _⟩ := h; exact Or.inr ⟨t, N, hr, hdep⟩
    · exact Or.inl rfl⟩

/-! ### `CalculateMerkleValue` on a coherent sub-trie computes the pure Merkle value -/

theorem encodeKids_loop_pure (H : Bytes → Bytes) (rec : Heap → Nat → Heap × Option Bytes)
    (nk : Nib → Option Nat) (kn : Nib → Node) (hp0 : Heap) (d : Nat)
    (hrec : ∀ hp i c, DT hp0 hp d → nk i = some c →
      DT hp (rec hp c).1 d ∧ (rec hp c).2 = some (Gossamer.merkleValue H (encode H (kn i))))
    (hnone : ∀ i, nk i = none → kn i = .empty)
    (hreal : ∀ i c, nk i = some c →
      (∃ p v m, kn i = .leaf p v m) ∨ (∃ p v m ks, kn i = .branch p v m ks)) :
    ∀ (l : List Nib) (hp1 : Heap) (pre : Bytes), DT hp0 hp1 d →
      DT hp0 (l.foldl (fun (acc : Heap × Option Bytes) i =>
        match nk i, acc.2 with
        | some c, some bs => let r := rec acc.1 c; (r.1, r.2.map (fun m => bs ++ scaleEncBytes m))
        | _, _ => acc) (hp1, some pre)).1 d ∧
      (l.foldl (fun (acc : Heap × Option Bytes) i =>
        match nk i, acc.2 with
        | some c, some bs => let r := rec acc.1 c; (r.1, r.2.map (fun m => bs ++ scaleEncBytes m))
        | _, _ => acc) (hp1, some pre)).2 = some (pre ++ l.flatMap (fun i => kidEnc H (kn i))) := by
  intro l
  induction l with
  | nil => intro hp1 pre h; exact ⟨h, by simp⟩
  | cons i l ih =>
    intro hp1 pre h
    simp only [List.foldl_cons, List.flatMap_cons]
    cases hk : nk i with
    | none =>
      simp only [hk]
      have := ih hp1 pre h
      rw [hnone i hk]
      simpa [kidEnc] using this
    | some c =>
      simp only [hk]
      obtain ⟨h1, h2⟩ := hrec hp1 i c h hk
      rw [h2]
      simp only [Option.map_some]
      have := ih (rec hp1 c).1 (pre ++ scaleEncBytes (Gossamer.merkleValue H (encode H (kn i)))) (h.trans h1)
      rw [kidEnc_real H (hreal i c hk)]
      simpa [List.append_assoc] using this

theorem encodeKids_noKids (rec : Heap → Nat → Heap × Option Bytes) (hp : Heap) :
    encodeKids rec noKids hp = (hp, some []) := by
  rw [encodeKids_eq]
  generalize List.finRange 16 = l
  induction l with
  | nil => rfl
  | cons i l ih => simpa [noKids] using ih

theorem depth_pos {t : Trie} (h : t ≠ .nil) : 0 < depth t := by
  cases t with
  | nil => exact absurd rfl h
  | leaf _ _ => exact Nat.one_pos
  | branch _ _ _ => exact Nat.succ_pos _

/-- **Purity of `CalculateMerkleValue`** on a represented, cache-coherent sub-trie: it returns the
    Merkle value of the codec node and only writes caches of dirty cells of that sub-trie. -/
theorem calcMV_pure (H : Bytes → Bytes) (G : Bytes → Bytes → Prop) : ∀ (t : Trie) (N : Node) (a : Nat) (f : Nat)
    (hp : Heap), HRep hp t N a → Coh H G hp false t N a → depth t ≤ f →
    DT hp (calcMV H f hp a).1 (depth t) ∧ (calcMV H f hp a).2 = some (Gossamer.merkleValue H (encode H N))
  | .nil, _, _, _, _, h, _, _ => h.elim
  | .leaf pk v, N, a, f, hp, h, hc, hf => by
    cases f with
    | zero => simp [depth] at hf
    | succ f =>
      unfold calcMV
      by_cases hcl : (hp.get a).dirty = false ∧ (hp.get a).mv.isSome
      · simp only [hcl, and_self, if_true]
        have := (hc hcl.1).1
        simp only [Bool.false_eq_true, if_false] at this
        exact ⟨DT.refl hp _, this⟩
      · simp only [hcl, if_false]
        have hd : (hp.get a).dirty = true := by
          by_cases hd : (hp.get a).dirty = true
          · exact hd
          · have hd' : (hp.get a).dirty = false := by simpa using hd
            have := (hc hd').1
            exact absurd ⟨hd', by rw [this]; rfl⟩ hcl
        have hek : (hp.get a).encKids = noKids := by
          unfold HNode.encKids; rw [h.1]; rfl
        rw [hek, encodeKids_noKids]
        unfold hashFinish
        simp only [Bool.false_eq_true, if_false, Option.map_some, List.append_nil]
        rw [hrep_enc_leaf H h]
        exact ⟨DT.modify_mv hd _ h (Nat.le_refl _), rfl⟩
  | .branch pk v cs, N, a, f, hp, h, hc, hf => by
    cases f with
    | zero => simp [depth] at hf
    | succ f =>
      have hwhole := h
      obtain ⟨hb, hpk, hv, kn, hN, hk⟩ := h
      unfold calcMV
      by_cases hcl : (hp.get a).dirty = false ∧ (hp.get a).mv.isSome
      · simp only [hcl, and_self, if_true]
        have := (hc.1 hcl.1).1
        simp only [Bool.false_eq_true, if_false] at this
        exact ⟨DT.refl hp _, this⟩
      · simp only [hcl, if_false]
        have hd : (hp.get a).dirty = true := by
          by_cases hd : (hp.get a).dirty = true
          · exact hd
          · have hd' : (hp.get a).dirty = false := by simpa using hd
            have := (hc.1 hd').1
            exact absurd ⟨hd', by rw [this]; rfl⟩ hcl
        have hek : (hp.get a).encKids = (hp.get a).kids := by
          unfold HNode.encKids; rw [hb]; rfl
        have hkidc : ∀ i c, (hp.get a).kids i = some c → Coh H G hp false (cs i) (kn i) c := by
          intro i c hic
          have := hc.2 i c hic
          rw [hN, kidAt_map] at this
          exact this
        have hloop := encodeKids_loop_pure H (calcMV H f) (hp.get a).kids kn hp (depth (.branch pk v cs))
          (fun hp' i c hfr hic => by
            have hki := hk i
            rw [hic] at hki
            have hlt := depth_kid pk v cs i
            have hdep : depth (cs i) ≤ f := by omega
            obtain ⟨g1, g2⟩ := calcMV_pure H G (cs i) (kn i) c f hp' (hrep_dframe hfr.frame _ _ _ hki.2)
              (coh_dframe hfr.frame _ _ _ _ (hkidc i c hic)) hdep
            exact ⟨g1.mono (Nat.le_of_lt hlt), g2⟩)
          (fun i hi => by have := hk i; rw [hi] at this; exact this.2)
          (fun i c hic => by have := hk i; rw [hic] at this; exact this.2.real)
          (List.finRange 16) hp [] (DT.refl hp _)
        rw [hek]
        have hl1 : DT hp (encodeKids (calcMV H f) (hp.get a).kids hp).1 (depth (.branch pk v cs)) := by
          rw [encodeKids_eq]; exact hloop.1
        have hl2 : (encodeKids (calcMV H f) (hp.get a).kids hp).2 =
            some ([] ++ (List.finRange 16).flatMap (fun i => kidEnc H (kn i))) := by
          rw [encodeKids_eq]; exact hloop.2
        unfold hashFinish
        rw [hl2]
        simp only [Bool.false_eq_true, if_false, Option.map_some, List.nil_append]
        rw [hrep_enc_branch H hb hpk hv hk, ← hN]
        refine ⟨hl1.trans (DT.modify_mv ?_ _ (hrep_dframe hl1.frame _ _ _ hwhole) (Nat.le_refl _)), rfl⟩
        rw [(hl1.frame.strip a).2]; exact hd

/-! ### the heap determines the trie below a cell -/

theorem HRep.func {hp : Heap} : ∀ (t t' : Trie) (N N' : Node) (a : Nat),
    HRep hp t N a → HRep hp t' N' a → t = t' ∧ N = N'
  | .nil, _, _, _, _, h, _ => h.elim
  | _, .nil, _, _, _, _, h => h.elim
  | .leaf pk v, .leaf pk' v', N, N', a, h, h' => by
    obtain ⟨_, h2, h3, _, h5⟩ := h
    obtain ⟨_, h2', h3', _, h5'⟩ := h'
    have e1 : pk = pk' := h2.symm.trans h2'
    have e2 : v = v' := Option.some.inj (h3.symm.trans h3')
    subst e1 e2
    exact ⟨rfl, h5.trans h5'.symm⟩
  | .leaf pk v, .branch pk' v' cs', N, N', a, h, h' => by
    have h1 := h.1
    have h2 := h'.1
    rw [h1] at h2; cases h2
  | .branch pk v cs, .leaf pk' v', N, N', a, h, h' => by
    have h1 := h.1
    have h2 := h'.1
    rw [h1] at h2; cases h2
  | .branch pk v cs, .branch pk' v' cs', N, N', a, h, h' => by
    obtain ⟨_, h2, h3, kn, h4, h5⟩ := h
    obtain ⟨_, h2', h3', kn', h4', h5'⟩ := h'
    have e1 : pk = pk' := h2.symm.trans h2'
    have e2 : v = v' := h3.symm.trans h3'
    subst e1 e2
    have hkid : ∀ i, cs i = cs' i ∧ kn i = kn' i := by
      intro i
      have a1 := h5 i
      have a2 := h5' i
      cases hk : (hp.get a).kids i with
      | none => rw [hk] at a1 a2; exact ⟨a1.1.trans a2.1.symm, a1.2.trans a2.2.symm⟩
      | some c => rw [hk] at a1 a2; exact HRep.func (cs i) (cs' i) (kn i) (kn' i) c a1.2 a2.2
    have ecs : cs = cs' := funext (fun i => (hkid i).1)
    have ekn : kn = kn' := funext (fun i => (hkid i).2)
    subst ecs ekn
    exact ⟨rfl, h4.trans h4'.symm⟩

/-- `HRep` only reads the fields other than the caches -/
theorem hrep_strip {hp hp' : Heap} (hs : ∀ b, (hp'.get b).strip = (hp.get b).strip) :
    ∀ (t : Trie) (N : Node) (a : Nat), HRep hp t N a → HRep hp' t N a
  | .nil, _, _, h => h
  | .leaf pk v, N, a, h => by
    obtain ⟨h1, h2, h3, h4, h5⟩ := h
    have hs := hs a
    exact ⟨by rw [strip_isBranch hs]; exact h1, by rw [strip_pk hs]; exact h2, by rw [strip_val hs]; exact h3,
      by rw [strip_kids hs]; exact h4, by rw [strip_mbh hs]; exact h5⟩
  | .branch pk v cs, N, a, h => by
    obtain ⟨h1, h2, h3, kn, h4, h5⟩ := h
    have hsa := hs a
    refine ⟨by rw [strip_isBranch hsa]; exact h1, by rw [strip_pk hsa]; exact h2, by rw [strip_val hsa]; exact h3,
      kn, by rw [strip_mbh hsa]; exact h4, fun i => ?_⟩
    rw [strip_kids hsa]
    have := h5 i
    cases hk : (hp.get a).kids i with
    | none => rw [hk] at this; exact this
    | some c => rw [hk] at this; exact ⟨this.1, hrep_strip hs (cs i) (kn i) c this.2⟩

theorem hrep_cacheOnly {hp hp' : Heap} (hc : CacheOnly hp hp') (t : Trie) (N : Node) (a : Nat) :
    HRep hp' t N a ↔ HRep hp t N a :=
  ⟨hrep_strip (fun b => (hc.cell b).symm) t N a, hrep_strip hc.cell t N a⟩

/-! ### what `WriteDirty` does to the heap and the database -/

/-- the database (an association list) has the entry `(k, v)` -/
def Mem (db : DB) (k v : Bytes) : Prop := (k, v) ∈ db

theorem mem_dbPut (db : DB) (k v k' v' : Bytes) (h : Mem db k' v') : Mem (dbPut db k v) k' v' :=
  List.mem_cons_of_mem _ h

theorem mem_dbPut_self (db : DB) (k v : Bytes) : Mem (dbPut db k v) k v := List.mem_cons_self

/-- the Merkle value `WriteDirty` caches at `x` -/
def flav (H : Bytes → Bytes) (c : Ctx) (x : Nat) (N : Node) : Bytes :=
  if c.troot == some x then H (encode H N) else Gossamer.merkleValue H (encode H N)

/-- the effect of (a part of) `WriteDirty`: only caches change, the database grows, and a changed
    cell was dirty and either only got a Merkle value or was cleaned with the right Merkle value
    after its sub-trie was stored -/
structure WD (H : Bytes → Bytes) (c : Ctx) (s s' : Heap × DB) : Prop where
  cache : CacheOnly s.1 s'.1
  dbmono : ∀ k v, Mem s.2 k v → Mem s'.2 k v
  cell : ∀ x, s'.1.get x = s.1.get x ∨
    ((s.1.get x).dirty = true ∧
      ((∃ m, s'.1.get x = { s.1.get x with mv := m }) ∨
       (∃ t N, HRep s.1 t N x ∧
          s'.1.get x = { s.1.get x with dirty := false, mv := some (flav H c x N) } ∧
          StoG H (Mem s'.2) t N ∧
          (((c.troot == some x) = true ∨ 32 ≤ (encode H N).length) → Mem s'.2 (H (encode H N)) (encode H N)))))

theorem WD.refl (H : Bytes → Bytes) (c : Ctx) (s : Heap × DB) : WD H c s s :=
  ⟨CacheOnly.refl _, fun _ _ h => h, fun _ => Or.inl rfl⟩

theorem WD.of_dframe {H : Bytes → Bytes} {c : Ctx} {hp hp' : Heap} (db : DB) (h : DFrame hp hp') :
    WD H c (hp, db) (hp', db) := by
  refine ⟨⟨h.size, fun b => (h.strip b).1⟩, fun _ _ h => h, fun x => ?_⟩
  rcases h.cell x with e | ⟨hd, m, e⟩
  · exact Or.inl e
  · exact Or.inr ⟨hd, Or.inl ⟨m, e⟩⟩

theorem WD.trans {H : Bytes → Bytes} {c : Ctx} {s s1 s2 : Heap × DB} (a : WD H c s s1) (b : WD H c s1 s2) :
    WD H c s s2 := by
  refine ⟨a.cache.trans b.cache, fun k v h => b.dbmono k v (a.dbmono k v h), fun x => ?_⟩
  rcases a.cell x with e1 | ⟨hd1, h1⟩
  · -- unchanged by the first part
    rcases b.cell x with e2 | ⟨hd2, h2⟩
    · left; rw [e2, e1]
    · right
      rw [e1] at hd2 h2
      refine ⟨hd2, ?_⟩
      rcases h2 with ⟨m, e2⟩ | ⟨t, N, hr, e2, hs, hm⟩
      · exact Or.inl ⟨m, e2⟩
      · exact Or.inr ⟨t, N, (hrep_cacheOnly a.cache t N x).mp hr, e2, hs, hm⟩
  · rcases h1 with ⟨m1, e1⟩ | ⟨t, N, hr, e1, hs, hm⟩
    · -- a Merkle value was cached; still dirty
      rcases b.cell x with e2 | ⟨hd2, h2⟩
      · right; exact ⟨hd1, Or.inl ⟨m1, by rw [e2, e1]⟩⟩
      · right
        refine ⟨hd1, ?_⟩
        rcases h2 with ⟨m, e2⟩ | ⟨t, N, hr, e2, hs, hm⟩
        · exact Or.inl ⟨m, by rw [e2, e1]⟩
        · exact Or.inr ⟨t, N, (hrep_cacheOnly a.cache t N x).mp hr, by rw [e2, e1], hs, hm⟩
    · -- cleaned by the first part: the second part cannot change it any more
      rcases b.cell x with e2 | ⟨hd2, _⟩
      · right
        exact ⟨hd1, Or.inr ⟨t, N, hr, by rw [e2, e1], StoG.mono b.dbmono t N hs,
          fun hc => b.dbmono _ _ (hm hc)⟩⟩
      · rw [e1] at hd2; cases hd2

theorem cleanOK_mono {H : Bytes → Bytes} {G G' : Bytes → Bytes → Prop} (h : ∀ k v, G k v → G' k v)
    {r : Bool} {n : HNode} {t : Trie} {N : Node} (c : CleanOK H G r n t N) : CleanOK H G' r n t N :=
  ⟨c.1, StoG.mono h t N c.2.1, fun hc => h _ _ (c.2.2 hc)⟩

/-- the root cell of the trie being written does not occur strictly inside the sub-trie `t` -/
def RootAbove (c : Ctx) (hp : Heap) (t : Trie) : Prop :=
  ∀ x t' N', c.troot = some x → HRep hp t' N' x → depth t ≤ depth t'

/-- coherence of any represented sub-trie survives (a part of) `WriteDirty` -/
theorem coh_wd {H : Bytes → Bytes} {c : Ctx} {s s' : Heap × DB} (w : WD H c s s') :
    ∀ (t : Trie) (r : Bool) (N : Node) (b : Nat), HRep s.1 t N b → Coh H (Mem s.2) s.1 r t N b →
      (c.troot == some b) = r → RootAbove c s.1 t → Coh H (Mem s'.2) s'.1 r t N b
  | .nil, _, _, _, h, _, _, _ => h.elim
  | .leaf pk v, r, N, b, h, hc, hr, _ => by
    intro hd'
    rcases w.cell b with e | ⟨hd, h1⟩
    · rw [e] at hd' ⊢
      exact cleanOK_mono w.dbmono (hc hd')
    · rcases h1 with ⟨m, e⟩ | ⟨t0, N0, hr0, e, hs, hm⟩
      · rw [e] at hd'; simp only at hd'; rw [hd] at hd'; cases hd'
      · obtain ⟨rfl, rfl⟩ := HRep.func _ _ _ _ _ hr0 h
        refine ⟨?_, hs, fun hcnd => hm ?_⟩
        · rw [e]; simp only [flav, hr]
        · rw [hr]; exact hcnd
  | .branch pk v cs, r, N, b, h, hc, hr, hab => by
    refine ⟨fun hd' => ?_, fun i x hk => ?_⟩
    · rcases w.cell b with e | ⟨hd, h1⟩
      · rw [e] at hd' ⊢
        exact cleanOK_mono w.dbmono (hc.1 hd')
      · rcases h1 with ⟨m, e⟩ | ⟨t0, N0, hr0, e, hs, hm⟩
        · rw [e] at hd'; simp only at hd'; rw [hd] at hd'; cases hd'
        · obtain ⟨rfl, rfl⟩ := HRep.func _ _ _ _ _ hr0 h
          refine ⟨?_, hs, fun hcnd => hm ?_⟩
          · rw [e]; simp only [flav, hr]
          · rw [hr]; exact hcnd
    · have hstrip := w.cache.cell b
      have hk0 : (s.1.get b).kids i = some x := by rw [← strip_kids hstrip]; exact hk
      obtain ⟨_, _, _, kn, hN, hkids⟩ := h
      have hkid := hkids i
      rw [hk0] at hkid
      have hcx := hc.2 i x hk0
      rw [hN, kidAt_map] at hcx ⊢
      have hlt := depth_kid pk v cs i
      refine coh_wd w (cs i) false (kn i) x hkid.2 hcx ?_ ?_
      · cases hb : (c.troot == some x) with
        | false => rfl
        | true =>
          have := hab x (cs i) (kn i) (by simpa using hb) hkid.2
          omega
      · intro y t' N' hy hry
        have := hab y t' N' hy hry
        omega

/-! ### a node whose encoding is shorter than 32 bytes needs nothing in the store -/

theorem length_flatMap_ge {α β : Type} (f : α → List β) : ∀ (l : List α) (i : α), i ∈ l →
    (f i).length ≤ (l.flatMap f).length
  | [], _, h => by cases h
  | x :: xs, i, h => by
    simp only [List.flatMap_cons, List.length_append]
    rcases List.mem_cons.mp h with rfl | h
    · omega
    · have := length_flatMap_ge f xs i h; omega

theorem sto_of_small (H : Bytes → Bytes) (hH : ∀ m, (H m).length = 32) (G : Bytes → Bytes → Prop)
    {hp : Heap} : ∀ (t : Trie) (N : Node) (a : Nat), HRep hp t N a → (encode H N).length < 32 → StoG H G t N
  | .nil, _, _, h, _ => h.elim
  | .leaf pk v, N, a, h, hl => by
    obtain ⟨_, _, _, _, rfl⟩ := h
    refine ⟨nibBytes pk, (hp.get a).mbh, rfl, nibBytes_toNib pk, fun hm => ?_⟩
    exfalso
    simp only [TrieCodec.encode, TrieCodec.valueEnc, hm, if_true, List.length_append, hH] at hl
    omega
  | .branch pk v cs, N, a, h, hl => by
    obtain ⟨_, _, _, kn, rfl, hk⟩ := h
    refine ⟨nibBytes pk, (hp.get a).mbh, _, rfl, nibBytes_toNib pk, fun hm x hx => ?_, fun i => ?_⟩
    · exfalso
      subst hx
      simp only [TrieCodec.encode, TrieCodec.valueEnc, hm, if_true, List.length_append, hH] at hl
      omega
    · rw [getElem?_finRange_map]
      simp only [Option.getD_some]
      have hki := hk i
      cases hkk : (hp.get a).kids i with
      | none =>
        rw [hkk] at hki
        rw [hki.1, hki.2]
        exact ⟨rfl, fun hne => absurd rfl hne⟩
      | some x =>
        rw [hkk] at hki
        have hke : (kidEnc H (kn i)).length ≤ (encode H (.branch (nibBytes pk) v (hp.get a).mbh
            ((List.finRange 16).map kn))).length := by
          simp only [TrieCodec.encode, encodeKids_flatMap, List.flatMap_map, List.length_append]
          have := length_flatMap_ge (fun i => kidEnc H (kn i)) (List.finRange 16) i (List.mem_finRange i)
          omega
        rw [kidEnc_real H hki.2.real] at hke
        have hsc := C07.scaleEnc_length_ge (Gossamer.merkleValue H (encode H (kn i)))
        have hsmall : (encode H (kn i)).length < 32 := by
          by_cases hlt : (encode H (kn i)).length < 32
          · exact hlt
          · have : Gossamer.merkleValue H (encode H (kn i)) = H (encode H (kn i)) := by
              unfold Gossamer.merkleValue; rw [if_neg hlt]
            rw [this] at hsc hke
            rw [hH] at hsc
            omega
        exact ⟨sto_of_small H hH G (cs i) (kn i) x hki.2 hsmall, fun _ h32 => by omega⟩

/-! ### `EncodeAndHash(Root)` on a dirty represented cell -/

theorem encodeAndHash_pure (H : Bytes → Bytes) (G : Bytes → Bytes → Prop) (root : Bool) :
    ∀ (t : Trie) (N : Node) (a : Nat) (hp : Heap) (r : Bool), HRep hp t N a → (hp.get a).dirty = true →
      Coh H G hp r t N a → depth t ≤ bigFuel + 1 →
      ∃ hp1, DT hp hp1 (depth t) ∧
        encodeAndHash H root hp a =
          (hp1.modify a (fun x => { x with mv := some (if root then H (encode H N)
                                                       else Gossamer.merkleValue H (encode H N)) }),
           some (encode H N, if root then H (encode H N) else Gossamer.merkleValue H (encode H N)))
  | .nil, _, _, _, _, h, _, _, _ => h.elim
  | .leaf pk v, N, a, hp, r, h, hd, hc, hdep => by
    refine ⟨hp, DT.refl hp _, ?_⟩
    unfold encodeAndHash
    have hek : (hp.get a).encKids = noKids := by
      unfold HNode.encKids; rw [h.1]; rfl
    rw [hek, encodeKids_noKids]
    unfold hashFinish
    simp only [List.append_nil]
    rw [hrep_enc_leaf H h]
  | .branch pk v cs, N, a, hp, r, h, hd, hc, hdep => by
    obtain ⟨hb, hpk, hv, kn, hN, hk⟩ := h
    have hek : (hp.get a).encKids = (hp.get a).kids := by
      unfold HNode.encKids; rw [hb]; rfl
    have hkidc : ∀ i c, (hp.get a).kids i = some c → Coh H G hp false (cs i) (kn i) c := by
      intro i c hic
      have := hc.2 i c hic
      rw [hN, kidAt_map] at this
      exact this
    have hloop := encodeKids_loop_pure H (calcMV H bigFuel) (hp.get a).kids kn hp (depth (.branch pk v cs))
      (fun hp' i c hfr hic => by
        have hki := hk i
        rw [hic] at hki
        have hlt := depth_kid pk v cs i
        have hdep' : depth (cs i) ≤ bigFuel := by omega
        obtain ⟨g1, g2⟩ := calcMV_pure H G (cs i) (kn i) c bigFuel hp' (hrep_dframe hfr.frame _ _ _ hki.2)
          (coh_dframe hfr.frame _ _ _ _ (hkidc i c hic)) hdep'
        exact ⟨g1.mono (Nat.le_of_lt hlt), g2⟩)
      (fun i hi => by have := hk i; rw [hi] at this; exact this.2)
      (fun i c hic => by have := hk i; rw [hic] at this; exact this.2.real)
      (List.finRange 16) hp [] (DT.refl hp _)
    have hl1 : DT hp (encodeKids (calcMV H bigFuel) (hp.get a).kids hp).1 (depth (.branch pk v cs)) := by
      rw [encodeKids_eq]; exact hloop.1
    have hl2 : (encodeKids (calcMV H bigFuel) (hp.get a).kids hp).2 =
        some ([] ++ (List.finRange 16).flatMap (fun i => kidEnc H (kn i))) := by
      rw [encodeKids_eq]; exact hloop.2
    refine ⟨_, hl1, ?_⟩
    unfold encodeAndHash
    rw [hek]
    unfold hashFinish
    rw [hl2]
    simp only [List.nil_append]
    rw [hrep_enc_branch H hb hpk hv hk, ← hN]

/-! ### `writeDirtyNode` -/

theorem Touch.refl (hp : Heap) (d : Nat) : Touch hp hp d := fun _ => Or.inl rfl

theorem Touch.mono {hp hp' : Heap} {d d' : Nat} (h : Touch hp hp' d) (hd : d ≤ d') : Touch hp hp' d' := by
  intro x
  rcases h x with e | ⟨t', N', h1, h2⟩
  · exact Or.inl e
  · exact Or.inr ⟨t', N', h1, Nat.le_trans h2 hd⟩

theorem Touch.trans {hp hp1 hp2 : Heap} {d : Nat} (hc : CacheOnly hp hp1) (a : Touch hp hp1 d)
    (b : Touch hp1 hp2 d) : Touch hp hp2 d := by
  intro x
  rcases b x with e | ⟨t', N', h1, h2⟩
  · rw [e]; exact a x
  · exact Or.inr ⟨t', N', (hrep_cacheOnly hc t' N' x).mp h1, h2⟩

theorem WD.db_grow {H : Bytes → Bytes} {c : Ctx} (hp : Heap) {db db' : DB}
    (h : ∀ k v, Mem db k v → Mem db' k v) : WD H c (hp, db) (hp, db') :=
  ⟨CacheOnly.refl _, h, fun _ => Or.inl rfl⟩

theorem rootAbove_cache {c : Ctx} {hp hp' : Heap} (hc : CacheOnly hp hp') {t : Trie}
    (h : RootAbove c hp t) : RootAbove c hp' t :=
  fun x t' N' hx hr => h x t' N' hx ((hrep_cacheOnly hc t' N' x).mp hr)

theorem rootAbove_mono {c : Ctx} {hp : Heap} {t t' : Trie} (h : RootAbove c hp t) (hd : depth t' ≤ depth t) :
    RootAbove c hp t' :=
  fun x t'' N'' hx hr => Nat.le_trans hd (h x t'' N'' hx hr)

/-- `SetClean` on a cell whose cached Merkle value is the right one and whose sub-trie is stored -/
theorem wd_clean_step {H : Bytes → Bytes} {c : Ctx} {s sB : Heap × DB} {a : Nat} {t : Trie} {N : Node} {d : Nat}
    (w : WD H c s sB) (tc : Touch s.1 sB.1 d) (hmv : (sB.1.get a).mv = some (flav H c a N))
    (hd : (s.1.get a).dirty = true) (hr : HRep s.1 t N a) (hdep : depth t ≤ d)
    (hs : StoG H (Mem sB.2) t N)
    (hm : ((c.troot == some a) = true ∨ 32 ≤ (encode H N).length) → Mem sB.2 (H (encode H N)) (encode H N)) :
    WD H c s (sB.1.modify a (fun x => { x with dirty := false }), sB.2) ∧
    Touch s.1 (sB.1.modify a (fun x => { x with dirty := false })) d ∧
    ((sB.1.modify a (fun x => { x with dirty := false })).get a).dirty = false := by
  have hlt : a < sB.1.size := by rw [w.cache.size]; exact dirty_lt hd
  refine ⟨⟨w.cache.trans (cacheOnly_clean _ a), w.dbmono, fun x => ?_⟩, fun x => ?_, ?_⟩
  · show (Heap.modify sB.1 a _).get x = _ ∨ _
    rw [Heap.get_modify]
    split
    · rename_i h
      obtain ⟨rfl, _⟩ := h
      right
      refine ⟨hd, Or.inr ⟨t, N, hr, ?_, hs, hm⟩⟩
      apply hnode_ext
      · exact w.cache.cell x
      · rfl
      · exact hmv
    · exact w.cell x
  · rw [Heap.get_modify]
    split
    · rename_i h; obtain ⟨rfl, _⟩ := h; exact Or.inr ⟨t, N, hr, hdep⟩
    · exact tc x
  · rw [Heap.get_modify, if_pos ⟨rfl, hlt⟩]

end TrieHeap
end Gossamer
