/-
C20: what the round weighs after importing any list of votes = the paper's vote weights of that list;
permutation invariance; monotonicity facts of the specification side.
-/
import Gossamer.Lib.C20BookInv
namespace Gossamer.C20

variable {t : Tree} {ws : List Nat}

/-- `context.Weight(node of B, phase)` after importing `ops` is the paper's weight for `B` -/
theorem nodeWeight_run (t : Tree) (ws : List Nat) (ops : List Op) (ph : Bool) (B : Nat) :
    nodeWeight ws (run t ws ops).eqv ((run t ws ops).cum B) ph = weightFor t ws ops ph B := by
  have inv := bookInv_run t ws ops
  unfold nodeWeight maskWeight weightFor
  apply wsum_congr
  intro v hv
  rw [Nat.testBit_or, inv.cum, inv.eqv, equiv_or_votesGE]
  simp [hv, Bool.or_comm]

theorem eqvWeight_run (t : Tree) (ws : List Nat) (ops : List Op) (ph : Bool) :
    maskWeight ws (run t ws ops).eqv (phN ph) = equivWeight ws ops ph := by
  have inv := bookInv_run t ws ops
  unfold maskWeight equivWeight
  apply wsum_congr
  intro v hv
  rw [inv.eqv]; simp [hv]

theorem cur_run (t : Tree) (ws : List Nat) (ops : List Op) (ph : Bool) :
    (run t ws ops).cur ph = voteWeight ws ops ph := (bookInv_run t ws ops).cur ph

theorem supermCond_run (t : Tree) (ws : List Nat) (ops : List Op) (ph : Bool) (B : Nat) :
    supermCond ws (run t ws ops).eqv ph ((run t ws ops).cum B) = superm t ws ops ph B := by
  unfold supermCond superm
  rw [nodeWeight_run]

/-! ### permutations of the import list -/

theorem votesOf_perm {ops ops' : List Op} (h : ops.Perm ops') (ph : Bool) (v : Nat) :
    (votesOf ops ph v).Perm (votesOf ops' ph v) := (h.filter _).map _

theorem isEquiv_perm {ops ops' : List Op} (h : ops.Perm ops') (ph : Bool) (v : Nat) :
    isEquiv ops ph v = isEquiv ops' ph v := by
  have hp := votesOf_perm h ph v
  apply Bool.eq_iff_iff.2
  rw [isEquiv_iff, isEquiv_iff]
  constructor
  · rintro ⟨a, ha, b, hb, hab⟩; exact ⟨a, hp.mem_iff.1 ha, b, hp.mem_iff.1 hb, hab⟩
  · rintro ⟨a, ha, b, hb, hab⟩; exact ⟨a, hp.mem_iff.2 ha, b, hp.mem_iff.2 hb, hab⟩

theorem hasVote_perm {ops ops' : List Op} (h : ops.Perm ops') (ph : Bool) (v : Nat) :
    hasVote ops ph v = hasVote ops' ph v := by
  have hp := votesOf_perm h ph v
  unfold hasVote
  cases h1 : votesOf ops ph v with
  | nil => rw [h1] at hp; rw [List.nil_perm.1 hp]
  | cons a l =>
    cases h2 : votesOf ops' ph v with
    | nil => rw [h1, h2] at hp; exact absurd (List.perm_nil.1 hp) (by simp)
    | cons b l' => rfl

theorem votesGE_perm (t : Tree) {ops ops' : List Op} (h : ops.Perm ops') (ph : Bool) (v B : Nat) :
    votesGE t ops ph v B = votesGE t ops' ph v B := by
  have hp := votesOf_perm h ph v
  apply Bool.eq_iff_iff.2
  unfold votesGE
  rw [List.any_eq_true, List.any_eq_true]
  constructor
  · rintro ⟨x, hx, hpx⟩; exact ⟨x, hp.mem_iff.1 hx, hpx⟩
  · rintro ⟨x, hx, hpx⟩; exact ⟨x, hp.mem_iff.2 hx, hpx⟩

theorem weightFor_perm (t : Tree) (ws : List Nat) {ops ops' : List Op} (h : ops.Perm ops') (ph : Bool) (B : Nat) :
    weightFor t ws ops ph B = weightFor t ws ops' ph B := by
  unfold weightFor
  apply wsum_congr
  intro v _
  rw [isEquiv_perm h, votesGE_perm t h]

/-! ### monotonicity of the specification side -/

theorem votesGE_anc (h : t.WF) {ops : List Op} {ph : Bool} {v A B : Nat} (hAB : A ∈ t.chain B)
    (hv : votesGE t ops ph v B = true) : votesGE t ops ph v A = true := by
  unfold votesGE at *
  rw [List.any_eq_true] at *
  obtain ⟨x, hx, hp⟩ := hv
  refine ⟨x, hx, ?_⟩
  simp only [Bool.and_eq_true, decide_eq_true_eq, Tree.le_iff] at hp ⊢
  exact ⟨hp.1, Tree.le_trans h hAB hp.2⟩

/-- an ancestor has at least the weight of its descendant -/
theorem weightFor_anc (h : t.WF) (ops : List Op) (ph : Bool) {A B : Nat} (hAB : A ∈ t.chain B) :
    weightFor t ws ops ph B ≤ weightFor t ws ops ph A := by
  unfold weightFor
  apply wsum_mono
  intro v _ hv
  rcases Bool.or_eq_true_iff.1 hv with hv | hv
  · simp [hv]
  · simp [votesGE_anc h hAB hv]

theorem superm_anc (h : t.WF) {ops : List Op} {ph : Bool} {A B : Nat} (hAB : A ∈ t.chain B)
    (hB : superm t ws ops ph B = true) : superm t ws ops ph A = true := by
  unfold superm at *
  have := weightFor_anc (ws := ws) h ops ph hAB
  simp only [decide_eq_true_eq] at *
  omega

theorem votesOf_sublist_append (ops : List Op) (o : Op) (ph : Bool) (v : Nat) :
    ∀ x, x ∈ votesOf ops ph v → x ∈ votesOf (ops ++ [o]) ph v := by
  intro x hx
  rw [votesOf_append]
  exact List.mem_append_left _ hx

theorem isEquiv_mono (ops : List Op) (o : Op) (ph : Bool) (v : Nat) (h : isEquiv ops ph v = true) :
    isEquiv (ops ++ [o]) ph v = true := by
  rw [isEquiv_iff] at *
  obtain ⟨a, ha, b, hb, hab⟩ := h
  exact ⟨a, votesOf_sublist_append _ _ _ _ a ha, b, votesOf_sublist_append _ _ _ _ b hb, hab⟩

theorem votesGE_mono (t : Tree) (ops : List Op) (o : Op) (ph : Bool) (v B : Nat)
    (h : votesGE t ops ph v B = true) : votesGE t (ops ++ [o]) ph v B = true := by
  unfold votesGE at *
  rw [List.any_eq_true] at *
  obtain ⟨x, hx, hp⟩ := h
  exact ⟨x, votesOf_sublist_append _ _ _ _ x hx, hp⟩

theorem weightFor_mono (t : Tree) (ws : List Nat) (ops : List Op) (o : Op) (ph : Bool) (B : Nat) :
    weightFor t ws ops ph B ≤ weightFor t ws (ops ++ [o]) ph B := by
  unfold weightFor
  apply wsum_mono
  intro v _ hv
  rcases Bool.or_eq_true_iff.1 hv with hv | hv
  · simp [isEquiv_mono _ _ _ _ hv]
  · simp [votesGE_mono _ _ _ _ _ _ hv]

theorem equivWeight_mono (ws : List Nat) (ops : List Op) (o : Op) (ph : Bool) :
    equivWeight ws ops ph ≤ equivWeight ws (ops ++ [o]) ph := by
  unfold equivWeight
  exact wsum_mono (fun v _ hv => isEquiv_mono _ _ _ _ hv)

theorem tolerant_prefix (ws : List Nat) (ops : List Op) (o : Op) (ph : Bool)
    (h : tolerant ws (ops ++ [o]) ph = true) : tolerant ws ops ph = true := by
  unfold tolerant at *
  have := equivWeight_mono ws ops o ph
  simp only [decide_eq_true_eq] at *
  omega

/-- whoever counts for a block has voted -/
theorem weightFor_le_voteWeight (t : Tree) (ws : List Nat) (ops : List Op) (ph : Bool) (B : Nat) :
    weightFor t ws ops ph B ≤ voteWeight ws ops ph := by
  unfold weightFor voteWeight
  apply wsum_mono
  intro v _ hv
  rw [hasVote_iff]
  rcases Bool.or_eq_true_iff.1 hv with hv | hv
  · obtain ⟨a, ha, _⟩ := (isEquiv_iff _ _ _).1 hv
    exact List.ne_nil_of_mem ha
  · unfold votesGE at hv
    obtain ⟨x, hx, _⟩ := List.any_eq_true.1 hv
    exact List.ne_nil_of_mem hx

/-- voted weight = weight for B + weight against B -/
theorem voteWeight_split (t : Tree) (ws : List Nat) (ops : List Op) (ph : Bool) (B : Nat) :
    voteWeight ws ops ph = weightFor t ws ops ph B + againstWeight t ws ops ph B := by
  unfold voteWeight weightFor againstWeight
  rw [wsum_split ws (fun v => hasVote ops ph v) (fun v => isEquiv ops ph v || votesGE t ops ph v B)]
  congr 1
  · apply wsum_congr
    intro v _
    cases hf : (isEquiv ops ph v || votesGE t ops ph v B)
    · simp
    · have : hasVote ops ph v = true := by
        rw [hasVote_iff]
        rcases Bool.or_eq_true_iff.1 hf with hv | hv
        · obtain ⟨a, ha, _⟩ := (isEquiv_iff _ _ _).1 hv
          exact List.ne_nil_of_mem ha
        · unfold votesGE at hv
          obtain ⟨x, hx, _⟩ := List.any_eq_true.1 hv
          exact List.ne_nil_of_mem hx
      simp [this]
  · apply wsum_congr
    intro v _
    cases isEquiv ops ph v <;> cases votesGE t ops ph v B <;> simp

end Gossamer.C20
