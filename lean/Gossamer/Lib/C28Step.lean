/-
C28: every operation of a well-behaved guest preserves the invariant.
-/
import Gossamer.Lib.C28Inv
namespace Gossamer.C28
variable {S : Store}

/-- what a well-behaved guest may do (no ghost state involved):
    * allocate anything;
    * free a pointer it holds -- or any pointer in front of which there is NO well-formed occupied
      header (that call fails and poisons; a forged header is the inherent limitation of the design);
    * store a word below the heap, above the bumper, or inside a block it holds;
    * grow the memory. -/
def OpOk (r : Run S) : Op → Prop
  | .alloc _ => True
  | .free p => (∃ o, (p, o) ∈ r.live) ∨ ¬ OccAt r.m p
  | .poke a _ => a + 8 ≤ r.s.base ∨ r.s.bumper ≤ a ∨ ∃ e ∈ r.live, e.1 ≤ a ∧ a + 8 ≤ e.1 + osize e.2
  | .grow _ => True

/-- a permitted guest store never touches the header word of a carved block -/
theorem poke_hdr_sep {r : Run S} {g : Ghost} (hG : Geo r g) {a v : Nat} (hok : OpOk r (.poke a v))
    {b : Nat × Nat} (hb : b ∈ g.blocks) : b.1 + 8 ≤ a ∨ a + 8 ≤ b.1 := by
  obtain ⟨_, b2, b3, _, _⟩ := hG.blk b hb
  have := bend_gt b
  rcases hok with h | h | ⟨e, he, h1, h2⟩
  · omega
  · omega
  · obtain ⟨e8, eb⟩ := hG.live_blk e he
    by_cases hh : b.1 = e.1 - 8
    · omega
    · have hd := blk_sep hG hb eb hh
      unfold Disj bend at hd
      simp only at hd
      omega

theorem inv_poke (hS : S.Lawful) {r : Run S} {g : Ghost} (hI : Inv r g) (a v : Nat)
    (hok : OpOk r (.poke a v)) : Inv (r.step (.poke a v)).1 g := by
  obtain ⟨hG, hH⟩ := hI
  rw [step_poke]
  by_cases hw : a + 8 ≤ r.m.size
  · rw [if_pos hw]
    refine ⟨Geo_transfer hG rfl rfl (Nat.le_refl _) rfl, fun hp => ?_⟩
    have hH := hH hp
    refine ⟨?_, ?_, hH.fl_blk, hH.fl_nodup, hH.freed⟩
    · intro e he
      obtain ⟨e8, eb⟩ := hG.live_blk e he
      have := poke_hdr_sep hG hok eb
      show le64 (put64 r.m.bytes a v) (e.1 - 8) = OCC + e.2
      rw [le64_put64_other hS _ _ _ _ this]
      exact hH.live_hdr e he
    · intro o ho
      show Chain (put64 r.m.bytes a v) (r.s.heads o) (g.fl o)
      apply Chain_put64 hS _ _ _ _ _ _ (hH.chain o ho)
      intro h hh
      exact poke_hdr_sep hG hok (hH.fl_blk o ho h hh).1
  · rw [if_neg hw]
    exact ⟨hG, hH⟩

theorem inv_grow {r : Run S} {g : Ghost} (hI : Inv r g) (d : Nat) : Inv (r.step (.grow d)).1 g := by
  obtain ⟨hG, hH⟩ := hI
  rw [step_grow]
  by_cases hw : r.m.pages + d ≤ r.m.maxPages
  · rw [if_pos hw]
    refine ⟨Geo_transfer hG rfl rfl ?_ rfl, fun hp => ?_⟩
    · show PAGE * r.m.pages ≤ PAGE * (r.m.pages + d)
      exact Nat.mul_le_mul_left _ (by omega)
    · have hH := hH hp
      exact ⟨hH.live_hdr, hH.chain, hH.fl_blk, hH.fl_nodup, hH.freed⟩
  · rw [if_neg hw]
    exact ⟨hG, hH⟩

/-! ## Allocate -/

theorem inv_alloc (hS : S.Lawful) {r : Run S} {g : Ghost} (hI : Inv r g) (n : Nat) :
    ∃ g', Inv (r.step (.alloc n)).1 g' := by
  obtain ⟨hG, hH⟩ := hI
  by_cases hp : r.s.poisoned = true
  · refine ⟨g, ?_⟩
    have : allocate r.s r.m n = (r.s, r.m, .error .poisoned) := by
      unfold allocate; rw [if_pos hp]
    rw [step_alloc_err this]
    exact ⟨Geo_transfer hG rfl rfl (Nat.le_refl _) rfl, fun h => by rw [hp] at h; cases h⟩
  have hp : r.s.poisoned = false := by
    cases h : r.s.poisoned with
    | true => exact absurd h hp
    | false => rfl
  have hH := hH hp
  rcases allocate_cases r.s r.m n hp with
    ⟨s', e, heq, hpo, hb, hbu, _⟩ |
    ⟨s', o, next, heq, ho, hne, hfit, hrd, hpo, hb, hbu, hh⟩ |
    ⟨s', m', o, heq, ho, hnil, h32, hsz, hpg, _, _, hpo, hb, hbu, hh⟩
  · -- failure
    refine ⟨g, ?_⟩
    rw [step_alloc_err heq]
    exact ⟨Geo_transfer hG hb hbu (Nat.le_refl _) rfl, fun h => by rw [hpo] at h; cases h⟩
  · -- head of the free list
    obtain ⟨_, ho23, _, _⟩ := orderFromSize_spec n o ho
    obtain ⟨rest, hfl, hlt, hch⟩ := Chain_cons_of_ne_nil (hH.chain o ho23) hne
    have hos := osize_pos o
    have hnext : next = le64 r.m.bytes (r.s.heads o) := by
      rw [readHeader_free_of_lt r.m _ (by omega) hlt] at hrd
      injection hrd with hrd
      injection hrd with hrd
      exact hrd.symm
    subst hnext
    have hmem : r.s.heads o ∈ g.fl o := by rw [hfl]; exact List.mem_cons_self ..
    obtain ⟨hlb, hlive⟩ := hH.fl_blk o ho23 _ hmem
    obtain ⟨l8, lb, le, _, ls⟩ := hG.blk _ hlb
    have hbl := hG.bump_lt
    unfold bend at le ls
    simp only at l8 lb le ls
    have hptr : (r.s.heads o + 8) % U32 = r.s.heads o + 8 := Nat.mod_eq_of_lt (by omega)
    have hnd := hH.fl_nodup o ho23
    rw [hfl, List.nodup_cons] at hnd
    -- a header word of another block is not touched by the store at `heads o`
    have sep : ∀ b ∈ g.blocks, b.1 ≠ r.s.heads o → b.1 + 8 ≤ r.s.heads o ∨ r.s.heads o + 8 ≤ b.1 := by
      intro b hb hne'
      have hd := blk_sep hG hb hlb hne'
      have := bend_gt b
      unfold Disj bend at hd
      simp only at hd
      omega
    refine ⟨{ blocks := g.blocks, fl := fun i => if i = o then rest else g.fl i }, ?_⟩
    rw [step_alloc_ok heq, ho, hptr]
    simp only [Option.getD_some]
    constructor
    · -- geometry
      refine ⟨by rw [hb]; exact hG.base8, by rw [hbu]; exact hG.bump8, by rw [hb, hbu]; exact hG.base_le,
        by rw [hbu]; exact hG.bump_lt, ?_, hG.disj, ?_, ?_⟩
      · intro b hb'
        obtain ⟨a1, a2, a3, a4, a5⟩ := hG.blk b hb'
        exact ⟨a1, by rw [hb]; exact a2, by rw [hbu]; exact a3, a4, a5⟩
      · intro e he
        rcases List.mem_cons.mp he with rfl | he
        · exact ⟨by simp, by simpa using hlb⟩
        · exact hG.live_blk e he
      · rw [List.pairwise_cons]
        refine ⟨fun e he => ?_, hG.live_nodup⟩
        exact fun h => hlive e he h.symm
    · intro _
      refine ⟨?_, ?_, ?_, ?_, ?_⟩
      · -- headers of the live allocations
        intro e he
        rcases List.mem_cons.mp he with rfl | he
        · show le64 (put64 r.m.bytes (r.s.heads o) (OCC + o)) (r.s.heads o + 8 - 8) = OCC + o
          rw [Nat.add_sub_cancel, le64_put64_same hS]
          apply Nat.mod_eq_of_lt; c28_omega
        · obtain ⟨e8, eb⟩ := hG.live_blk e he
          have hne' : e.1 - 8 ≠ r.s.heads o := by
            have := hlive e he; omega
          show le64 (put64 r.m.bytes (r.s.heads o) (OCC + o)) (e.1 - 8) = OCC + e.2
          rw [le64_put64_other hS _ _ _ _ (sep _ eb hne')]
          exact hH.live_hdr e he
      · -- free lists
        intro i hi
        show Chain (put64 r.m.bytes (r.s.heads o) (OCC + o)) (s'.heads i) (if i = o then rest else g.fl i)
        rw [hh]
        unfold setHead
        by_cases hio : i = o
        · subst hio
          simp only [if_true]
          apply Chain_put64 hS _ _ _ _ _ _ hch
          intro h hh'
          have hm : h ∈ g.fl i := by rw [hfl]; exact List.mem_cons_of_mem _ hh'
          exact sep _ (hH.fl_blk i hi h hm).1 (fun e => hnd.1 (by rw [← e]; exact hh'))
        · simp only [if_neg hio]
          apply Chain_put64 hS _ _ _ _ _ _ (hH.chain i hi)
          intro h hh'
          have hbi := (hH.fl_blk i hi h hh').1
          refine sep _ hbi (fun e => hio ?_)
          have := blk_same_hdr hG hbi hlb e
          exact congrArg Prod.snd this
      · -- free-list members are carved blocks and not live
        intro i hi h hh'
        have hm : h ∈ g.fl i := by
          by_cases hio : i = o
          · subst hio; simp only [if_true] at hh'; rw [hfl]; exact List.mem_cons_of_mem _ hh'
          · simp only [if_neg hio] at hh'; exact hh'
        obtain ⟨hbi, hli⟩ := hH.fl_blk i hi h hm
        refine ⟨hbi, fun e he => ?_⟩
        rcases List.mem_cons.mp he with rfl | he
        · show r.s.heads o + 8 ≠ h + 8
          intro e
          have e' : h = r.s.heads o := by omega
          subst e'
          by_cases hio : i = o
          · subst hio; simp only [if_true] at hh'; exact hnd.1 hh'
          · exact hio (congrArg Prod.snd (blk_same_hdr hG hbi hlb rfl))
        · exact hli e he
      · intro i hi
        by_cases hio : i = o
        · subst hio; simp only [if_true]; exact hnd.2
        · simp only [if_neg hio]; exact hH.fl_nodup i hi
      · intro p hp'
        rw [List.mem_filter] at hp'
        obtain ⟨hpf, hpne⟩ := hp'
        simp only [ne_eq, decide_not, Bool.not_eq_eq_eq_not, Bool.not_true, decide_eq_false_iff_not] at hpne
        obtain ⟨p8, i, hi, hm⟩ := hH.freed p hpf
        refine ⟨p8, i, hi, ?_⟩
        by_cases hio : i = o
        · subst hio
          simp only [if_true]
          rw [hfl] at hm
          rcases List.mem_cons.mp hm with e | hm
          · exact absurd (by omega) hpne
          · exact hm
        · simp only [if_neg hio]; exact hm
  · -- a new block at the bumper
    obtain ⟨_, ho23, _, _⟩ := orderFromSize_spec n o ho
    have hos := osize_pos o
    have hom := osize_mod8 o
    have hbl := hG.bump_lt
    have hptr : (r.s.bumper + 8) % U32 = r.s.bumper + 8 := Nat.mod_eq_of_lt (by c28_omega)
    -- every old block ends at or below the bumper
    have old : ∀ b ∈ g.blocks, b.1 + 16 ≤ r.s.bumper := by
      intro b hb'
      have := (hG.blk b hb').2.2.1
      have := bend_gt b
      omega
    refine ⟨{ blocks := (r.s.bumper, o) :: g.blocks, fl := g.fl }, ?_⟩
    rw [step_alloc_ok heq, ho, hptr]
    simp only [Option.getD_some]
    have hsize : r.m.size ≤ m'.size := by
      show PAGE * r.m.pages ≤ PAGE * m'.pages
      exact Nat.mul_le_mul_left _ hpg
    constructor
    · refine ⟨by rw [hb]; exact hG.base8, ?_, ?_, ?_, ?_, ?_, ?_, ?_⟩
      · rw [hbu]; have := hG.bump8; omega
      · rw [hb, hbu]; have := hG.base_le; omega
      · rw [hbu]; c28_omega
      · intro b hb'
        rcases List.mem_cons.mp hb' with rfl | hb'
        · refine ⟨hG.bump8, by rw [hb]; exact hG.base_le, ?_, ho23, ?_⟩
          · rw [hbu]; unfold bend; simp only; omega
          · show bend (r.s.bumper, o) ≤ PAGE * m'.pages
            unfold bend; simp only
            have : m'.size = PAGE * m'.pages := rfl
            omega
        · obtain ⟨a1, a2, a3, a4, a5⟩ := hG.blk b hb'
          refine ⟨a1, by rw [hb]; exact a2, by rw [hbu]; omega, a4, ?_⟩
          show bend b ≤ PAGE * m'.pages
          have : m'.size = PAGE * m'.pages := rfl
          omega
      · intro b1 h1 b2 h2
        rcases List.mem_cons.mp h1 with rfl | h1 <;> rcases List.mem_cons.mp h2 with rfl | h2
        · exact Or.inl rfl
        · exact Or.inr (Or.inr (hG.blk b2 h2).2.2.1)
        · exact Or.inr (Or.inl (hG.blk b1 h1).2.2.1)
        · exact hG.disj b1 h1 b2 h2
      · intro e he
        rcases List.mem_cons.mp he with rfl | he
        · exact ⟨by simp, by simp⟩
        · obtain ⟨e8, eb⟩ := hG.live_blk e he
          exact ⟨e8, List.mem_cons_of_mem _ eb⟩
      · rw [List.pairwise_cons]
        refine ⟨fun e he => ?_, hG.live_nodup⟩
        obtain ⟨e8, eb⟩ := hG.live_blk e he
        have := old _ eb
        simp only at this
        show r.s.bumper + 8 ≠ e.1
        omega
    · intro _
      refine ⟨?_, ?_, ?_, hH.fl_nodup, ?_⟩
      · intro e he
        rcases List.mem_cons.mp he with rfl | he
        · show le64 (put64 r.m.bytes r.s.bumper (OCC + o)) (r.s.bumper + 8 - 8) = OCC + o
          rw [Nat.add_sub_cancel, le64_put64_same hS]
          apply Nat.mod_eq_of_lt; c28_omega
        · obtain ⟨e8, eb⟩ := hG.live_blk e he
          have := old _ eb
          simp only at this
          show le64 (put64 r.m.bytes r.s.bumper (OCC + o)) (e.1 - 8) = OCC + e.2
          rw [le64_put64_other hS _ _ _ _ (by omega)]
          exact hH.live_hdr e he
      · intro i hi
        show Chain (put64 r.m.bytes r.s.bumper (OCC + o)) (s'.heads i) (g.fl i)
        rw [hh]
        apply Chain_put64 hS _ _ _ _ _ _ (hH.chain i hi)
        intro h hh'
        have := old _ (hH.fl_blk i hi h hh').1
        simp only at this
        omega
      · intro i hi h hh'
        obtain ⟨hbi, hli⟩ := hH.fl_blk i hi h hh'
        refine ⟨List.mem_cons_of_mem _ hbi, fun e he => ?_⟩
        rcases List.mem_cons.mp he with rfl | he
        · have := old _ hbi
          simp only at this
          show r.s.bumper + 8 ≠ h + 8
          omega
        · exact hli e he
      · intro p hp'
        rw [List.mem_filter] at hp'
        exact hH.freed p hp'.1

/-! ## Deallocate -/

theorem inv_free (hS : S.Lawful) {r : Run S} {g : Ghost} (hI : Inv r g) (p : Nat)
    (hok : OpOk r (.free p)) : ∃ g', Inv (r.step (.free p)).1 g' := by
  obtain ⟨hG, hH⟩ := hI
  by_cases hp : r.s.poisoned = true
  · refine ⟨g, ?_⟩
    have : deallocate r.s r.m p = (r.s, r.m, .error .poisoned) := by
      unfold deallocate; rw [if_pos hp]
    rw [step_free_err this]
    exact ⟨Geo_transfer hG rfl rfl (Nat.le_refl _) rfl, fun h => by rw [hp] at h; cases h⟩
  have hp : r.s.poisoned = false := by
    cases h : r.s.poisoned with
    | true => exact absurd h hp
    | false => rfl
  have hH := hH hp
  rcases deallocate_cases r.s r.m p hp with
    ⟨s', e, heq, hpo, hb, hbu, _, _⟩ |
    ⟨s', o, res, heq, hocc, ho, hb, hbu, hh, hres⟩
  · refine ⟨g, ?_⟩
    rw [step_free_err heq]
    exact ⟨Geo_transfer hG hb hbu (Nat.le_refl _) rfl, fun h => by rw [hpo] at h; cases h⟩
  · -- accepted: by `OpOk` the pointer is live
    have ⟨o', hlive⟩ : ∃ o, (p, o) ∈ r.live := by
      rcases hok with h | hno
      · exact h
      · exact absurd hocc hno
    obtain ⟨p8, pb⟩ := hG.live_blk _ hlive
    simp only at p8 pb
    have hhdr := hH.live_hdr _ hlive
    simp only at hhdr
    obtain ⟨pb8, pbb, pbe, po23, pbs⟩ := hG.blk _ pb
    unfold bend at pbe pbs
    simp only at pb8 pbb pbe pbs
    have hoo : o = o' := by rw [ho, hhdr]; c28_omega
    subst hoo
    have hbl := hG.bump_lt
    have hos := osize_pos o
    rcases hres.symm with ⟨hr, hpo⟩ | ⟨hr, hpo⟩
    · -- statistics underflow: error, poisoned; the geometry is untouched
      refine ⟨g, ?_⟩
      rw [hr] at heq
      rw [step_free_err heq]
      exact ⟨Geo_transfer hG hb hbu (Nat.le_refl _) rfl, fun h => by rw [hpo] at h; cases h⟩
    -- the header word of another block is not touched by the store at `p - 8`
    have sep : ∀ b ∈ g.blocks, b.1 ≠ p - 8 → b.1 + 8 ≤ p - 8 ∨ p - 8 + 8 ≤ b.1 := by
      intro b hb' hne'
      have hd := blk_sep hG hb' pb hne'
      have := bend_gt b
      unfold Disj bend at hd
      simp only at hd
      omega
    -- nothing on a free list is the block being freed
    have notfree : ∀ i, i < 23 → ∀ h ∈ g.fl i, h ≠ p - 8 := by
      intro i hi h hh' e
      have := (hH.fl_blk i hi h hh').2 _ hlive
      simp only at this
      omega
    have hhead : r.s.heads o < U32 := by
      rcases Chain_head (hH.chain o po23) with e | hm
      · rw [e]; c28_omega
      · have := (hG.blk _ (hH.fl_blk o po23 _ hm).1).2.2.1
        have := bend_gt (r.s.heads o, o)
        simp only at *
        omega
    refine ⟨{ blocks := g.blocks, fl := fun i => if i = o then (p - 8) :: g.fl o else g.fl i }, ?_⟩
    rw [hr] at heq
    rw [step_free_ok heq]
    constructor
    · refine ⟨by rw [hb]; exact hG.base8, by rw [hbu]; exact hG.bump8, by rw [hb, hbu]; exact hG.base_le,
        by rw [hbu]; exact hG.bump_lt, ?_, hG.disj, ?_, ?_⟩
      · intro b hb'
        obtain ⟨a1, a2, a3, a4, a5⟩ := hG.blk b hb'
        exact ⟨a1, by rw [hb]; exact a2, by rw [hbu]; exact a3, a4, a5⟩
      · intro e he
        exact hG.live_blk e (mem_eraseLive hG.live_nodup he).1
      · exact List.Pairwise.sublist (eraseLive_sublist p r.live) hG.live_nodup
    · intro _
      refine ⟨?_, ?_, ?_, ?_, ?_⟩
      · intro e he
        obtain ⟨hel, hep⟩ := mem_eraseLive hG.live_nodup he
        obtain ⟨e8, eb⟩ := hG.live_blk e hel
        show le64 (put64 r.m.bytes (p - 8) (r.s.heads o)) (e.1 - 8) = OCC + e.2
        rw [le64_put64_other hS _ _ _ _ (sep _ eb (by simp only; omega))]
        exact hH.live_hdr e hel
      · intro i hi
        show Chain (put64 r.m.bytes (p - 8) (r.s.heads o)) (s'.heads i)
          (if i = o then (p - 8) :: g.fl o else g.fl i)
        rw [hh]
        unfold setHead
        by_cases hio : i = o
        · subst hio
          simp only [if_true]
          have e : le64 (put64 r.m.bytes (p - 8) (r.s.heads i)) (p - 8) = r.s.heads i := by
            rw [le64_put64_same hS]; apply Nat.mod_eq_of_lt; c28_omega
          refine ⟨rfl, by c28_omega, by rw [e]; exact hhead, ?_⟩
          rw [e]
          apply Chain_put64 hS _ _ _ _ _ _ (hH.chain i hi)
          intro h hh'
          exact sep _ (hH.fl_blk i hi h hh').1 (notfree i hi h hh')
        · simp only [if_neg hio]
          apply Chain_put64 hS _ _ _ _ _ _ (hH.chain i hi)
          intro h hh'
          exact sep _ (hH.fl_blk i hi h hh').1 (notfree i hi h hh')
      · intro i hi h hh'
        by_cases hio : i = o
        · subst hio
          simp only [if_true] at hh'
          rcases List.mem_cons.mp hh' with rfl | hh'
          · refine ⟨pb, fun e he => ?_⟩
            have := (mem_eraseLive hG.live_nodup he).2
            omega
          · obtain ⟨hbi, hli⟩ := hH.fl_blk i hi h hh'
            exact ⟨hbi, fun e he => hli e (mem_eraseLive hG.live_nodup he).1⟩
        · simp only [if_neg hio] at hh'
          obtain ⟨hbi, hli⟩ := hH.fl_blk i hi h hh'
          exact ⟨hbi, fun e he => hli e (mem_eraseLive hG.live_nodup he).1⟩
      · intro i hi
        by_cases hio : i = o
        · subst hio
          simp only [if_true]
          rw [List.nodup_cons]
          exact ⟨fun hm => notfree i hi _ hm rfl, hH.fl_nodup i hi⟩
        · simp only [if_neg hio]; exact hH.fl_nodup i hi
      · intro q hq
        rcases List.mem_cons.mp hq with rfl | hq
        · exact ⟨p8, o, po23, by simp⟩
        · obtain ⟨q8, i, hi, hm⟩ := hH.freed q hq
          refine ⟨q8, i, hi, ?_⟩
          by_cases hio : i = o
          · subst hio; simp only [if_true]; exact List.mem_cons_of_mem _ hm
          · simp only [if_neg hio]; exact hm

/-- every permitted operation preserves the invariant -/
theorem inv_step (hS : S.Lawful) {r : Run S} {g : Ghost} (hI : Inv r g) (op : Op) (hok : OpOk r op) :
    ∃ g', Inv (r.step op).1 g' := by
  cases op with
  | alloc n => exact inv_alloc hS hI n
  | free p => exact inv_free hS hI p hok
  | poke a v => exact ⟨g, inv_poke hS hI a v hok⟩
  | grow d => exact ⟨g, inv_grow hI d⟩

end Gossamer.C28
