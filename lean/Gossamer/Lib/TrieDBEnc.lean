/-
C06, step 2: what `commit` computes for an all-new in-memory tree: the spec encoding of the trie
(`encodeNode`) and the list of rows it writes.
-/
import Gossamer.Lib.TrieDBSim
set_option linter.unusedSectionVars false
set_option linter.unusedSimpArgs false
namespace Gossamer.C06
open Gossamer Gossamer.Trie

theorem exceeds_eq_mustBeHashed (ver : Ver) (v : Bytes) :
    exceedsInline ver v.length = mustBeHashed ver v := by
  cases ver <;> simp [exceedsInline, mustBeHashed, v1MaxInline]

/-- the row written for the value `v` of the node with full key `full` -/
def valuePuts (ver : Ver) (H : Bytes → Bytes) (full : Nibs) (v : Bytes) : List WOp :=
  if mustBeHashed ver v then [.put (rowKey full (H v)) v] else []

def optValuePuts (ver : Ver) (H : Bytes → Bytes) (full : Nibs) : Option Bytes → List WOp
  | some v => valuePuts ver H full v
  | none => []

/-- the rows `commit` writes for the subtree `t` at path `pre` (without the row of `t` itself),
    in the order of the code: value, then per child its subtree and its own row -/
def putsOf (ver : Ver) (H : Bytes → Bytes) : Trie → Nibs → List WOp
  | nil, _ => []
  | leaf pk v, pre => valuePuts ver H (pre ++ pk) v
  | branch pk v cs, pre =>
    optValuePuts ver H (pre ++ pk) v ++
      (List.finRange 16).flatMap (fun i =>
        if (cs i).isNil then []
        else
          putsOf ver H (cs i) (pre ++ pk ++ [i]) ++
            (if (encodeNode ver H (cs i)).length ≥ hashLen then
              [.put (rowKey (pre ++ pk ++ [i]) (H (encodeNode ver H (cs i)))) (encodeNode ver H (cs i))]
             else []))

theorem encValue_new (ver : Ver) (H : Bytes → Bytes) (full : Nibs) (v : Bytes) :
    encValue H full (newValue ver v) =
      ((mustBeHashed ver v, if mustBeHashed ver v then H v else v), valuePuts ver H full v) := by
  unfold newValue valuePuts
  rw [exceeds_eq_mustBeHashed]
  cases h : mustBeHashed ver v <;> simp [encValue]

theorem encLeaf_eq (ver : Ver) (H : Bytes → Bytes) (pk : Nibs) (v : Bytes) :
    encLeaf pk (mustBeHashed ver v) (if mustBeHashed ver v then H v else v) =
      encodeNode ver H (leaf pk v) := by
  cases h : mustBeHashed ver v <;> simp [encLeaf, encodeNode, encodeValue, valueBytes, h]

/-- child reference and rows of the child `c` at path `q` -/
def kidOf (ver : Ver) (H : Bytes → Bytes) (c : Trie) (q : Nibs) : Option Bytes × List WOp :=
  if c.isNil then (none, [])
  else
    (some (merkleValue H (encodeNode ver H c)),
      putsOf ver H c q ++
        (if (encodeNode ver H c).length ≥ hashLen then
          [.put (rowKey q (H (encodeNode ver H c))) (encodeNode ver H c)] else []))

theorem encBranch_eq (ver : Ver) (H : Bytes → Bytes) (pk : Nibs) (v : Option Bytes) (cs : Nib → Trie) :
    encBranch pk (v.map (fun x => (mustBeHashed ver x, if mustBeHashed ver x then H x else x)))
        (fun i => (kidOf ver H (cs i) []).1) =
      encodeNode ver H (branch pk v cs) := by
  have hbm : ((List.finRange 16).map (fun i => if ((kidOf ver H (cs i) []).1).isSome then 2 ^ i.val else 0)).sum
      = bitmap cs := by
    unfold bitmap
    congr 1
    apply List.map_congr_left
    intro i _
    unfold kidOf
    cases h : (cs i).isNil <;> simp
  have hkids : (List.finRange 16).flatMap (fun i => kidBytes (kidOf ver H (cs i) []).1) =
      (List.finRange 16).flatMap (fun i =>
        if (cs i).isNil then [] else scaleBytes (merkleValue H (encodeNode ver H (cs i)))) := by
    congr 1
    funext i
    unfold kidOf
    cases h : (cs i).isNil <;> simp [kidBytes]
  simp only [encBranch]
  rw [hbm, hkids]
  cases v with
  | none => simp [encodeNode, branchHeader, optValueBytes]
  | some x =>
    cases h : mustBeHashed ver x <;>
      simp [encodeNode, encodeValue, valueBytes, h, branchHeader, optValueBytes]

theorem kidOf_fst (ver : Ver) (H : Bytes → Bytes) (c : Trie) (q q' : Nibs) :
    (kidOf ver H c q).1 = (kidOf ver H c q').1 := by
  unfold kidOf; split <;> rfl

theorem encOptValue_new (ver : Ver) (H : Bytes → Bytes) (full : Nibs) (v : Option Bytes) :
    encOptValue H full (v.map (newValue ver)) =
      (v.map (fun x => (mustBeHashed ver x, if mustBeHashed ver x then H x else x)),
        optValuePuts ver H full v) := by
  cases v with
  | none => rfl
  | some x => simp [encOptValue, encValue_new, optValuePuts]

theorem kidRef_ofTrie (ver : Ver) (H : Bytes → Bytes) (c : Trie) (q : Nibs)
    (hrec : c ≠ nil → encNew H (ofTrie ver c) q = some (encodeNode ver H c, putsOf ver H c q)) :
    kidRef H q (ofTrie ver c) (encNew H (ofTrie ver c) q) = kidOf ver H c q := by
  cases c with
  | nil => rfl
  | leaf cpk cv =>
    rw [hrec (by simp)]
    simp only [ofTrie, kidRef, Hd.cached, kidOf, Trie.isNil, merkleValue, hashLen]
    by_cases hl : (encodeNode ver H (leaf cpk cv)).length < 32
    · have : ¬ (encodeNode ver H (leaf cpk cv)).length ≥ 32 := by omega
      simp [hl, this]
    · have : (encodeNode ver H (leaf cpk cv)).length ≥ 32 := by omega
      simp [hl, this]
  | branch cpk cv ccs =>
    rw [hrec (by simp)]
    simp only [ofTrie, kidRef, Hd.cached, kidOf, Trie.isNil, merkleValue, hashLen]
    by_cases hl : (encodeNode ver H (branch cpk cv ccs)).length < 32
    · have : ¬ (encodeNode ver H (branch cpk cv ccs)).length ≥ 32 := by omega
      simp [hl, this]
    · have : (encodeNode ver H (branch cpk cv ccs)).length ≥ 32 := by omega
      simp [hl, this]

theorem putsOf_branch (ver : Ver) (H : Bytes → Bytes) (pk : Nibs) (v : Option Bytes)
    (cs : Nib → Trie) (pre : Nibs) :
    putsOf ver H (branch pk v cs) pre =
      optValuePuts ver H (pre ++ pk) v ++
        (List.finRange 16).flatMap (fun i => (kidOf ver H (cs i) (pre ++ pk ++ [i])).2) := by
  simp only [putsOf]
  congr 2
  funext i
  unfold kidOf
  cases (cs i).isNil <;> simp

/-- `commit` on an all-new in-memory tree produces the spec encoding and the rows `putsOf` -/
theorem encNew_ofTrie (ver : Ver) (H : Bytes → Bytes) (t : Trie) (ht : t ≠ nil) :
    ∀ pre, encNew H (ofTrie ver t) pre = some (encodeNode ver H t, putsOf ver H t pre) := by
  induction t with
  | nil => exact absurd rfl ht
  | leaf pk v =>
    intro pre
    simp only [ofTrie, encNew, encValue_new, encLeaf_eq, putsOf]
  | branch pk v cs ih =>
    intro pre
    have hkid : ∀ i : Nib, kidRef H (pre ++ pk ++ [i]) (ofTrie ver (cs i))
        (encNew H (ofTrie ver (cs i)) (pre ++ pk ++ [i])) = kidOf ver H (cs i) (pre ++ pk ++ [i]) :=
      fun i => kidRef_ofTrie ver H (cs i) _ (fun hc => ih i hc _)
    simp only [ofTrie, encNew, hkid, encOptValue_new]
    have h1 : (fun i => (kidOf ver H (cs i) (pre ++ pk ++ [i])).1) =
        (fun i => (kidOf ver H (cs i) []).1) := by
      funext i; exact kidOf_fst ver H (cs i) _ _
    rw [h1, encBranch_eq, putsOf_branch]

end Gossamer.C06
