/-
C22 library: every parent table is a `BlockOrder` (the concrete instance of the tree axiom), and general
facts about `BlockOrder`.
-/
import Gossamer.Model.C22
namespace Gossamer.C22

theorem par_le (ps : List Nat) (b : Nat) : par ps b ≤ b - 1 := by
  cases b with
  | zero => simp [par]
  | succ k => simp only [par]; omega

theorem up_add (ps : List Nat) (j : Nat) : ∀ (k b : Nat), up ps (j + k) b = up ps j (up ps k b) := by
  intro k
  induction k with
  | zero => intro b; simp [up]
  | succ k ih => intro b; rw [← Nat.add_assoc]; simp only [up]; exact ih (par ps b)

theorem up_le (ps : List Nat) : ∀ (k b : Nat), up ps k b ≤ b - k := by
  intro k
  induction k with
  | zero => intro b; simp [up]
  | succ k ih =>
    intro b
    simp only [up]
    have h1 := ih (par ps b)
    have h2 := par_le ps b
    omega

theorem anc_iff (ps : List Nat) (a b : Nat) : anc ps a b = true ↔ ∃ k, up ps k b = a := by
  unfold anc
  constructor
  · intro h
    have ⟨k, _, hk⟩ := List.any_eq_true.mp h
    exact ⟨k, by simpa using hk⟩
  · intro ⟨k, hk⟩
    apply List.any_eq_true.mpr
    by_cases hkb : k ≤ b
    · exact ⟨k, by simp; omega, by simpa using hk⟩
    · refine ⟨b, by simp, ?_⟩
      have h1 := up_le ps k b
      have h2 := up_le ps b b
      have : up ps b b = a := by omega
      simpa using this

/-- ancestry in a parent table: reflexive, transitive, and the ancestors of a block form a chain -/
def parentOrder (ps : List Nat) : BlockOrder Nat where
  le := anc ps
  refl := fun a => (anc_iff ps a a).mpr ⟨0, rfl⟩
  trans := by
    intro a b c hab hbc
    have ⟨j, hj⟩ := (anc_iff ps a b).mp hab
    have ⟨k, hk⟩ := (anc_iff ps b c).mp hbc
    exact (anc_iff ps a c).mpr ⟨j + k, by rw [up_add, hk, hj]⟩
  chain := by
    intro a b c hac hbc
    have ⟨j, hj⟩ := (anc_iff ps a c).mp hac
    have ⟨k, hk⟩ := (anc_iff ps b c).mp hbc
    by_cases hjk : j ≤ k
    · right
      refine (anc_iff ps b a).mpr ⟨k - j, ?_⟩
      have : k - j + j = k := by omega
      rw [← hj, ← up_add, this, hk]
    · left
      refine (anc_iff ps a b).mpr ⟨j - k, ?_⟩
      have : j - k + k = j := by omega
      rw [← hk, ← up_add, this, hj]

/-- the tree axiom in the form used by the safety proofs: two blocks below a common block are comparable -/
theorem BlockOrder.comparable_of_common {B : Type} (O : BlockOrder B) {a b c : B}
    (h1 : O.le a c = true) (h2 : O.le b c = true) : O.comparable a b := O.chain a b c h1 h2

theorem BlockOrder.comparable_symm {B : Type} (O : BlockOrder B) {a b : B}
    (h : O.comparable a b) : O.comparable b a := h.symm

/-- a concrete tree with a fork: 0 ← 1 ← 2, 1 ← 3 (blocks 2 and 3 are on different forks) -/
example : (parentOrder [0, 1, 1]).le 1 2 = true ∧ (parentOrder [0, 1, 1]).le 1 3 = true ∧
    ¬ (parentOrder [0, 1, 1]).comparable 2 3 := by decide

end Gossamer.C22
