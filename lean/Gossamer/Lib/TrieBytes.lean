/-
Byte keys and nibble keys: `toNibs` is an order-, prefix- and equality-preserving embedding, and
the ordered-map operations commute with such embeddings.
-/
import Gossamer.Lib.TrieBuild
set_option linter.unusedSimpArgs false
set_option linter.unusedSectionVars false
namespace Gossamer
open Rank OMap Trie

/-! ### bytes and nibbles -/

theorem hiNib_val (b : UInt8) : (hiNib b).val = b.toNat / 16 := by
  have : b.toNat < 256 := b.toNat_lt
  simp [hiNib, Fin.ofNat]
  omega

theorem loNib_val (b : UInt8) : (loNib b).val = b.toNat % 16 := by
  simp [loNib, Fin.ofNat]

theorem byteOf_hi_lo (b : UInt8) : byteOf (hiNib b) (loNib b) = b := by
  have : b.toNat < 256 := b.toNat_lt
  apply UInt8.toNat_inj.mp
  simp only [byteOf, hiNib_val, loNib_val, UInt8.toNat_ofNat']
  omega

theorem ofNibs_toNibs (k : Bytes) : ofNibs (toNibs k) = k := by
  induction k with
  | nil => rfl
  | cons b r ih => simp [toNibs, ofNibs, byteOf_hi_lo, ih]

theorem toNibs_inj {a b : Bytes} (h : toNibs a = toNibs b) : a = b := by
  have := congrArg ofNibs h
  simpa [ofNibs_toNibs] using this

theorem nib_eq_iff (a b : UInt8) : (hiNib a = hiNib b ∧ loNib a = loNib b) ↔ a = b := by
  constructor
  · rintro ⟨h1, h2⟩
    rw [← byteOf_hi_lo a, ← byteOf_hi_lo b, h1, h2]
  · rintro rfl; exact ⟨rfl, rfl⟩

theorem klt_toNibs (a b : Bytes) : klt (toNibs a) (toNibs b) = klt a b := by
  induction a generalizing b with
  | nil => cases b <;> simp [toNibs, klt]
  | cons x xs ih =>
    cases b with
    | nil => simp [toNibs, klt]
    | cons y ys =>
      simp only [toNibs, klt, ih, Rank.rank, hiNib_val, loNib_val]
      have hx : x.toNat < 256 := x.toNat_lt
      have hy : y.toNat < 256 := y.toNat_lt
      by_cases h1 : x.toNat < y.toNat
      · by_cases h2 : x.toNat / 16 < y.toNat / 16
        · simp [h1, h2]
        · have h3 : x.toNat / 16 = y.toNat / 16 := by omega
          have h4 : x.toNat % 16 < y.toNat % 16 := by omega
          simp [h1, h3, h4]
      · by_cases h2 : x.toNat = y.toNat
        · simp [h2]
        · have h5 : ¬ x.toNat / 16 < y.toNat / 16 := by omega
          by_cases h3 : x.toNat / 16 = y.toNat / 16
          · have h4 : ¬ x.toNat % 16 < y.toNat % 16 := by omega
            have h6 : ¬ x.toNat % 16 = y.toNat % 16 := by omega
            have e6 : (x.toNat % 16 == y.toNat % 16) = false := beq_eq_false_iff_ne.mpr h6
            have e2 : (x.toNat == y.toNat) = false := beq_eq_false_iff_ne.mpr h2
            simp [h1, h3, h4, e6, e2]
          · have e3 : (x.toNat / 16 == y.toNat / 16) = false := beq_eq_false_iff_ne.mpr h3
            have e2 : (x.toNat == y.toNat) = false := beq_eq_false_iff_ne.mpr h2
            simp [h1, h5, e3, e2]

theorem isPrefixOf_toNibs (p k : Bytes) : (toNibs p).isPrefixOf (toNibs k) = p.isPrefixOf k := by
  induction p generalizing k with
  | nil => simp [toNibs]
  | cons x xs ih =>
    cases k with
    | nil => simp [toNibs]
    | cons y ys =>
      simp only [toNibs, List.isPrefixOf_cons_cons, ih]
      by_cases h : x = y
      · subst h; simp
      · have : ¬ (hiNib x = hiNib y ∧ loNib x = loNib y) := fun hh => h ((nib_eq_iff x y).mp hh)
        by_cases h1 : hiNib x = hiNib y
        · have h2 : ¬ loNib x = loNib y := fun h2 => this ⟨h1, h2⟩
          have e2 : (loNib x == loNib y) = false := beq_eq_false_iff_ne.mpr h2
          have e : (x == y) = false := beq_eq_false_iff_ne.mpr h
          simp [h1, e2, e]
        · have e1 : (hiNib x == hiNib y) = false := beq_eq_false_iff_ne.mpr h1
          have e : (x == y) = false := beq_eq_false_iff_ne.mpr h
          simp [e1, e]

theorem keyLEToNibbles_eq (k : Bytes) : keyLEToNibbles k = toNibs k := by
  unfold keyLEToNibbles
  split
  · rename_i h; cases k <;> simp_all [toNibs]
  · split
    · rename_i h
      obtain ⟨h1, h2⟩ := h
      cases k with
      | nil => simp at h1
      | cons b r =>
        cases r with
        | nil => simp at h2; subst h2; decide
        | cons c r' => simp at h1
    · rfl

theorem packEven_toNibs (k : Bytes) : packEven (toNibs k) = k := by
  induction k with
  | nil => rfl
  | cons b r ih => simp [toNibs, packEven, byteOf_hi_lo, ih]

theorem length_toNibs (k : Bytes) : (toNibs k).length = 2 * k.length := by
  induction k with
  | nil => rfl
  | cons b r ih => simp [toNibs, ih]; omega

theorem nibblesToKeyLE_toNibs (k : Bytes) : nibblesToKeyLE (toNibs k) = k := by
  simp [nibblesToKeyLE, packNibs, length_toNibs, packEven_toNibs]

end Gossamer

namespace Gossamer
namespace OMap
variable {α β : Type} [Rank α] [Rank β] [DecidableEq α] [DecidableEq β]

/-- an embedding of keys that preserves equality, order and the prefix relation
    (bytes ↦ nibbles) -/
structure KeyEmb (f : List α → List β) : Prop where
  inj : ∀ a b, f a = f b → a = b
  lt : ∀ a b, klt (f a) (f b) = klt a b
  pre : ∀ p k, (f p).isPrefixOf (f k) = p.isPrefixOf k

def mapK (f : List α → List β) (es : List (List α × Bytes)) : List (List β × Bytes) :=
  es.map (fun e => (f e.1, e.2))

variable {f : List α → List β} (hf : KeyEmb f)
include hf

theorem KeyEmb.eq_iff (a b : List α) : f a = f b ↔ a = b :=
  ⟨hf.inj a b, fun h => by rw [h]⟩

theorem get_mapK (k : List α) (es : List (List α × Bytes)) : get (f k) (mapK f es) = get k es := by
  induction es with
  | nil => rfl
  | cons e r ih => simp only [mapK, List.map_cons, get, hf.eq_iff] at ih ⊢; rw [ih]

theorem upsert_mapK (k : List α) (v : Bytes) (es : List (List α × Bytes)) :
    upsert (f k) v (mapK f es) = mapK f (upsert k v es) := by
  induction es with
  | nil => rfl
  | cons e r ih =>
    simp only [mapK, List.map_cons, upsert, hf.eq_iff, hf.lt] at ih ⊢
    split
    · rfl
    · split
      · rfl
      · simp [ih]

theorem erase_mapK (k : List α) (es : List (List α × Bytes)) :
    erase (f k) (mapK f es) = mapK f (erase k es) := by
  simp only [erase, mapK, List.filter_map]
  congr 1
  apply List.filter_congr
  intro e _
  simp only [Function.comp]
  by_cases h : e.1 = k
  · simp [h]
  · have h1 : f e.1 ≠ f k := fun e' => h (hf.inj _ _ e')
    rw [beq_eq_false_iff_ne.mpr h1, beq_eq_false_iff_ne.mpr h]

theorem clearPrefix_mapK (p : List α) (es : List (List α × Bytes)) :
    clearPrefix (f p) (mapK f es) = mapK f (clearPrefix p es) := by
  simp only [clearPrefix, mapK, List.filter_map]
  congr 1
  apply List.filter_congr
  intro e _
  simp [Function.comp, hf.pre]

theorem keysWithPrefix_mapK (p : List α) (es : List (List α × Bytes)) :
    keysWithPrefix (f p) (mapK f es) = (keysWithPrefix p es).map f := by
  simp only [keysWithPrefix, mapK, List.filter_map, List.map_map]
  congr 1
  apply List.filter_congr
  intro e _
  simp [Function.comp, hf.pre]

theorem nextKey_mapK (k : List α) (es : List (List α × Bytes)) :
    nextKey (f k) (mapK f es) = (nextKey k es).map f := by
  induction es with
  | nil => rfl
  | cons e r ih =>
    simp only [nextKey, mapK, List.map_cons, List.find?_cons, hf.lt] at ih ⊢
    split
    · rfl
    · exact ih

theorem dropMatching_mapK (p : List α) (n : Nat) (es : List (List α × Bytes)) :
    dropMatching (f p) n (mapK f es) = mapK f (dropMatching p n es) := by
  induction es generalizing n with
  | nil => cases n <;> rfl
  | cons e r ih =>
    cases n with
    | zero => rfl
    | succ m =>
      simp only [mapK, List.map_cons, dropMatching, hf.pre] at ih ⊢
      split
      · exact ih m
      · simp [ih (m + 1)]

theorem clearPrefixLimit_mapK (p : List α) (n : Nat) (es : List (List α × Bytes)) :
    clearPrefixLimit (f p) n (mapK f es) =
      (mapK f (clearPrefixLimit p n es).1, (clearPrefixLimit p n es).2) := by
  simp only [clearPrefixLimit]
  split
  · rfl
  · simp [dropMatching_mapK hf, keysWithPrefix_mapK hf]

theorem sorted_mapK (es : List (List α × Bytes)) : Sorted (mapK f es) ↔ Sorted es := by
  induction es with
  | nil => simp [mapK, Sorted]
  | cons e r ih =>
    simp only [mapK, List.map_cons, Sorted] at ih ⊢
    rw [ih]
    constructor
    · rintro ⟨h1, h2⟩
      refine ⟨fun e' he' => ?_, h2⟩
      have := h1 (f e'.1, e'.2) (List.mem_map.mpr ⟨e', he', rfl⟩)
      simpa [hf.lt] using this
    · rintro ⟨h1, h2⟩
      refine ⟨fun e' he' => ?_, h2⟩
      obtain ⟨x, hx, rfl⟩ := List.mem_map.mp he'
      simpa [hf.lt] using h1 x hx

end OMap

theorem toNibs_keyEmb : OMap.KeyEmb toNibs :=
  ⟨fun _ _ h => toNibs_inj h, klt_toNibs, isPrefixOf_toNibs⟩

end Gossamer
