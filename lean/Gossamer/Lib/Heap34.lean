/-
Lib.Heap34 — facts about the transcription of Go's container/heap (`up`, `down`) in Model.C34:
order lemmas (sift-up / sift-down restore the heap order from the usual one-hole invariants)
and frame lemmas (both are sequences of in-range swaps).  Core Lean only.
-/
import Gossamer.Model.C34
namespace Gossamer.C34

/-! ### the order `less` -/

theorem less_iff (a b : Item) :
    less a b = true ↔ (a.priority > b.priority ∨ (a.priority = b.priority ∧ a.order < b.order)) := by
  unfold less
  by_cases h : a.priority = b.priority
  · simp [h]
  · simp only [h, if_false, decide_eq_true_eq]
    constructor
    · intro h1; exact Or.inl h1
    · rintro (h1 | ⟨h1, _⟩)
      · exact h1
      · exact h1.elim

theorem less_false_iff (a b : Item) :
    less a b = false ↔ (a.priority < b.priority ∨ (a.priority = b.priority ∧ b.order ≤ a.order)) := by
  rw [← Bool.not_eq_true, less_iff]; omega

/-- `le a b`: `b` is not served before `a` (`!Less(b, a)`) -/
abbrev le (a b : Item) : Prop := less b a = false

theorem le_iff (a b : Item) :
    le a b ↔ (a.priority > b.priority ∨ (a.priority = b.priority ∧ a.order ≤ b.order)) := by
  unfold le; rw [less_false_iff]; omega

theorem le_refl (a : Item) : le a a := by rw [le_iff]; omega

theorem le_trans {a b c : Item} (h1 : le a b) (h2 : le b c) : le a c := by
  rw [le_iff] at *; omega

theorem le_of_less {a b : Item} (h : less a b = true) : le a b := by
  rw [le_iff]; rw [less_iff] at h; omega

theorem le_total (a b : Item) : le a b ∨ le b a := by
  rw [le_iff, le_iff]; omega

theorem le_of_not_less {a b : Item} (h : ¬ less b a = true) : le a b := by
  simpa using h

@[simp] theorem less_idx_left (x y : Item) (v : Int) : less { x with index := v } y = less x y := rfl
@[simp] theorem less_idx_right (x y : Item) (v : Int) : less x { y with index := v } = less x y := rfl

@[simp] theorem swapA_get (a : Arr) (i j k : Nat) :
    (swapA a i j).get k =
      if k = j then { a.get i with index := (j : Int) }
      else if k = i then { a.get j with index := (i : Int) } else a.get k := rfl

theorem swapA_get_j (a : Arr) (i j : Nat) : (swapA a i j).get j = { a.get i with index := (j : Int) } := by
  simp

theorem swapA_get_i (a : Arr) {i j : Nat} (h : i ≠ j) :
    (swapA a i j).get i = { a.get j with index := (i : Int) } := by
  simp [h]

theorem swapA_get_other (a : Arr) {i j k : Nat} (h1 : k ≠ i) (h2 : k ≠ j) : (swapA a i j).get k = a.get k := by
  simp [h1, h2]

/-- where the occupant of slot `x` after `Swap(i, j)` came from -/
def sw (i j x : Nat) : Nat := if x = j then i else if x = i then j else x

theorem sw_j (i j : Nat) : sw i j j = i := by simp [sw]
theorem sw_i (i j : Nat) : sw i j i = j := by
  unfold sw; by_cases h : i = j <;> simp [h]
theorem sw_other {i j x : Nat} (h1 : x ≠ i) (h2 : x ≠ j) : sw i j x = x := by simp [sw, h1, h2]

theorem less_swap_l (a : Arr) (i j p : Nat) (y : Item) :
    less ((swapA a i j).get p) y = less (a.get (sw i j p)) y := by
  unfold sw
  simp only [swapA_get]
  by_cases h1 : p = j
  · simp [h1]
  · by_cases h2 : p = i
    · subst h2; simp [h1]
    · simp [h1, h2]

theorem less_swap_r (a : Arr) (i j p : Nat) (y : Item) :
    less y ((swapA a i j).get p) = less y (a.get (sw i j p)) := by
  unfold sw
  simp only [swapA_get]
  by_cases h1 : p = j
  · simp [h1]
  · by_cases h2 : p = i
    · subst h2; simp [h1]
    · simp [h1, h2]

/-- after a swap, comparisons see the exchanged items (the `index` field is ignored by `less`) -/
theorem le_swap (a : Arr) (i j p k : Nat) :
    le ((swapA a i j).get p) ((swapA a i j).get k) ↔ le (a.get (sw i j p)) (a.get (sw i j k)) := by
  unfold le
  rw [less_swap_l, less_swap_r]

theorem par_lt {k : Nat} (h : 0 < k) : par k < k := by unfold par; omega
theorem par_eq_self {j : Nat} (h : par j = j) : j = 0 := by unfold par at h; omega
theorem par_child {k i : Nat} (hk : 0 < k) : par k = i ↔ (k = 2 * i + 1 ∨ k = 2 * i + 2) := by
  unfold par; omega

/-! ### heap order and the sift invariants -/

/-- heap order on the first `n` slots: a parent is not served after its child -/
def Ord (a : Arr) (n : Nat) : Prop := ∀ k, 0 < k → k < n → le (a.get (par k)) (a.get k)

/-- the root is served first -/
theorem root_min {a : Arr} {n : Nat} (h : Ord a n) : ∀ k, k < n → le (a.get 0) (a.get k) := by
  intro k
  induction k using Nat.strongRecOn with
  | _ k ih =>
    intro hk
    by_cases h0 : k = 0
    · subst h0; exact le_refl _
    · have hp := par_lt (Nat.pos_of_ne_zero h0)
      exact le_trans (ih (par k) hp (by omega)) (h k (Nat.pos_of_ne_zero h0) hk)

/-- heap order except at the edge into `j`; the children of `j` already respect `j`'s parent -/
def UpInv (a : Arr) (n j : Nat) : Prop :=
  (∀ k, 0 < k → k < n → k ≠ j → le (a.get (par k)) (a.get k)) ∧
  (∀ k, 0 < k → k < n → par k = j → 0 < j → le (a.get (par j)) (a.get k))

theorem up_ord (n : Nat) : ∀ (fuel j : Nat) (a : Arr), j ≤ fuel → j < n → UpInv a n j →
    Ord (up a fuel j) n := by
  intro fuel
  induction fuel with
  | zero =>
    intro j a hj _ hI k hk0 hkn
    have : j = 0 := by omega
    subst this
    exact hI.1 k hk0 hkn (by omega)
  | succ fuel ih =>
    intro j a hj hjn hI
    unfold up
    simp only
    by_cases hstop : par j = j ∨ less (a.get j) (a.get (par j)) = false
    · rw [if_pos hstop]
      intro k hk0 hkn
      by_cases hkj : k = j
      · subst hkj
        rcases hstop with h | h
        · have := par_eq_self h; omega
        · exact h
      · exact hI.1 k hk0 hkn hkj
    · rw [if_neg hstop]
      have hne : par j ≠ j := fun h => hstop (Or.inl h)
      have hlt : less (a.get j) (a.get (par j)) = true := by
        cases h : less (a.get j) (a.get (par j)) with
        | true => rfl
        | false => exact absurd (Or.inr h) hstop
      have hj0 : 0 < j := by
        rcases Nat.eq_zero_or_pos j with h | h
        · subst h; exact absurd rfl hne
        · exact h
      have hpj : par j < j := par_lt hj0
      apply ih (par j) (swapA a (par j) j) (by omega) (by omega)
      have hji : le (a.get j) (a.get (par j)) := le_of_less hlt
      constructor
      · intro k hk0 hkn hki
        rw [le_swap]
        by_cases hkj : k = j
        · -- edge par j → j : now (old j) above (old par j)
          subst hkj
          rw [sw_j, sw_i]
          exact hji
        · rw [sw_other hki hkj]
          by_cases hpk : par k = j
          · -- k is a child of j: its new parent is old (par j)
            rw [hpk, sw_j]
            exact hI.2 k hk0 hkn hpk hj0
          · by_cases hpk2 : par k = par j
            · -- k is the sibling of j: its new parent is old j
              rw [hpk2, sw_i]
              have h1 := hI.1 k hk0 hkn hkj
              rw [hpk2] at h1
              exact le_trans hji h1
            · rw [sw_other hpk2 hpk]
              exact hI.1 k hk0 hkn hkj
      · intro k hk0 hkn hpk hi0
        rw [le_swap]
        have hppj : par (par j) < par j := par_lt hi0
        have h1 : par (par j) ≠ j := by omega
        have h2 : par (par j) ≠ par j := by omega
        have hki : k ≠ par j := by have := par_lt hk0; omega
        rw [sw_other h2 h1]
        by_cases hkj : k = j
        · rw [hkj, sw_j]
          exact hI.1 (par j) hi0 (by omega) (by omega)
        · rw [sw_other hki hkj]
          have ha := hI.1 (par j) hi0 (by omega) (by omega)
          have hb := hI.1 k hk0 hkn hkj
          rw [hpk] at hb
          exact le_trans ha hb

/-- sift-down invariant: every edge is fine except the edges below `i` and, as long as nothing
    has moved (`i = i0`), the edge into `i0`; the children of `i` respect `i`'s parent -/
def DownInv (a : Arr) (n i0 i : Nat) : Prop :=
  i0 ≤ i ∧
  (∀ k, 0 < k → k < n → par k ≠ i → (k = i0 → i ≠ i0) → le (a.get (par k)) (a.get k)) ∧
  (∀ k, 0 < k → k < n → par k = i → 0 < i → le (a.get (par i)) (a.get k))

theorem down_ord (n i0 : Nat) : ∀ (fuel i : Nat) (a : Arr), n ≤ fuel + i → DownInv a n i0 i →
    (∀ k, 0 < k → k < n → (k = i0 → (down a n fuel i).2 ≠ i0) →
        le ((down a n fuel i).1.get (par k)) ((down a n fuel i).1.get k)) ∧
    ((down a n fuel i).2 = i0 → (down a n fuel i).1 = a) ∧ i ≤ (down a n fuel i).2 := by
  intro fuel
  induction fuel with
  | zero =>
    intro i a hf hI
    have hd : down a n 0 i = (a, i) := rfl
    rw [hd]
    refine ⟨?_, fun _ => rfl, Nat.le_refl _⟩
    intro k hk0 hkn hki0
    apply hI.2.1 k hk0 hkn _ hki0
    intro hpk
    have := (par_child hk0).mp hpk
    omega
  | succ fuel ih =>
    intro i a hf hI
    obtain ⟨hi0, h1, h2⟩ := hI
    unfold down
    simp only
    by_cases hleaf : 2 * i + 1 ≥ n
    · rw [if_pos hleaf]
      refine ⟨?_, fun _ => rfl, Nat.le_refl _⟩
      intro k hk0 hkn hki0
      apply h1 k hk0 hkn _ hki0
      intro hpk
      have := (par_child hk0).mp hpk
      omega
    · rw [if_neg hleaf]
      -- the smaller child
      generalize hj : (if 2 * i + 1 + 1 < n ∧ less (a.get (2 * i + 1 + 1)) (a.get (2 * i + 1)) = true
        then 2 * i + 1 + 1 else 2 * i + 1) = j
      have hjc : j = 2 * i + 1 ∨ j = 2 * i + 2 := by
        rw [← hj]; split <;> omega
      have hjn : j < n := by
        rw [← hj]; split
        · rename_i h; exact h.1
        · omega
      have hpj : par j = i := (par_child (by omega)).mpr hjc
      -- j is not served after any child of i
      have hjmin : ∀ k, 0 < k → k < n → par k = i → le (a.get j) (a.get k) := by
        intro k hk0 hkn hpk
        have hkc := (par_child hk0).mp hpk
        by_cases hkj : k = j
        · subst hkj; exact le_refl _
        · rw [← hj] at hkj ⊢
          split
          · rename_i hc
            rw [if_pos hc] at hkj
            have : k = 2 * i + 1 := by omega
            subst this
            exact le_of_less hc.2
          · rename_i hc
            rw [if_neg hc] at hkj
            have hk2 : k = 2 * i + 1 + 1 := by omega
            subst hk2
            have : ¬ less (a.get (2 * i + 1 + 1)) (a.get (2 * i + 1)) = true := fun h => hc ⟨hkn, h⟩
            exact le_of_not_less this
      by_cases hstop : less (a.get j) (a.get i) = false
      · rw [if_pos hstop]
        refine ⟨?_, fun _ => rfl, Nat.le_refl _⟩
        intro k hk0 hkn hki0
        by_cases hpk : par k = i
        · rw [hpk]
          exact le_trans hstop (hjmin k hk0 hkn hpk)
        · exact h1 k hk0 hkn hpk hki0
      · rw [if_neg hstop]
        have hlt : less (a.get j) (a.get i) = true := by
          cases h : less (a.get j) (a.get i) with
          | true => rfl
          | false => exact absurd h hstop
        have hij : i ≠ j := by omega
        have hI' : DownInv (swapA a i j) n i0 j := by
          refine ⟨by omega, ?_, ?_⟩
          · intro k hk0 hkn hpk _
            rw [le_swap]
            by_cases hki : k = i
            · -- the edge into i (exists when 0 < i): new occupant is old j
              have hpi : par k ≠ j := by have := par_lt hk0; omega
              have hpi2 : par k ≠ i := by have := par_lt hk0; omega
              rw [sw_other hpi2 hpi, hki, sw_i]
              rw [hki] at hk0
              exact h2 j (by omega) hjn hpj hk0
            · by_cases hkj : k = j
              · rw [hkj, sw_j, hpj, sw_i]
                exact le_of_less hlt
              · rw [sw_other hki hkj]
                by_cases hpki : par k = i
                · rw [hpki, sw_i]
                  exact hjmin k hk0 hkn hpki
                · rw [sw_other hpki hpk]
                  apply h1 k hk0 hkn hpki
                  intro hk0' hii
                  exact hki (by omega)
          · intro k hk0 hkn hpk hj0
            rw [le_swap]
            have hkj : k ≠ j := by have := par_lt hk0; omega
            have hki : k ≠ i := by have := par_lt hk0; omega
            rw [hpj, sw_i, sw_other hki hkj]
            have := h1 k hk0 hkn (by omega) (by
              intro hk0'
              have := par_lt hk0
              omega)
            rw [hpk] at this
            exact this
        have := ih j (swapA a i j) (by omega) hI'
        refine ⟨this.1, ?_, by omega⟩
        intro hr
        have := this.2.2
        omega

/-! ### frame lemmas: `up` and `down` only swap slots below the bound -/

theorem up_pres (P : Arr → Prop) (n : Nat)
    (hP : ∀ a i j, i < n → j < n → P a → P (swapA a i j)) :
    ∀ (fuel j : Nat) (a : Arr), j < n → P a → P (up a fuel j) := by
  intro fuel
  induction fuel with
  | zero => intro j a _ h; exact h
  | succ fuel ih =>
    intro j a hj h
    unfold up
    simp only
    split
    · exact h
    · have : par j ≤ j := by unfold par; omega
      exact ih (par j) _ (by omega) (hP a (par j) j (by omega) hj h)

theorem down_pres (P : Arr → Prop) (n : Nat)
    (hP : ∀ a i j, i < n → j < n → P a → P (swapA a i j)) :
    ∀ (fuel i : Nat) (a : Arr), P a → P (down a n fuel i).1 := by
  intro fuel
  induction fuel with
  | zero => intro i a h; exact h
  | succ fuel ih =>
    intro i a h
    unfold down
    simp only
    by_cases hleaf : 2 * i + 1 ≥ n
    · rw [if_pos hleaf]; exact h
    · rw [if_neg hleaf]
      generalize hj : (if 2 * i + 1 + 1 < n ∧ less (a.get (2 * i + 1 + 1)) (a.get (2 * i + 1)) = true
        then 2 * i + 1 + 1 else 2 * i + 1) = j
      have hjn : j < n := by
        rw [← hj]; split
        · rename_i hc; exact hc.1
        · omega
      by_cases hstop : less (a.get j) (a.get i) = false
      · rw [if_pos hstop]; exact h
      · rw [if_neg hstop]
        exact ih j _ (hP a i j (by omega) hjn h)

end Gossamer.C34
