/-
C20 layer (b): `ghostFindMergePoint`, `FindGHOST`, `FindAncestor` of the compressed vote graph.
-/
import Gossamer.Lib.C20Graph
namespace Gossamer.C20

/-- one pass of the inner `for _, dNode := range descendantNodes` loop of `ghostFindMergePoint`:
accumulate the descendants' cumulative votes per block of height `height`; the first block whose merged
vote meets the condition is `newBest` (nothing is checked when a block is seen for the first time) -/
def mergePass (cond : Mask → Bool) (height : Nat) :
    List Entry → List (Nat × Mask) → Option Nat
  | [], _ => none
  | d :: ds, blocks =>
    match d.ancestorBlock height with
    | none => mergePass cond height ds blocks
    | some blk =>
      match blocks.find? (fun p => p.1 == blk) with
      | some (_, m) =>
        let m' := m ||| d.cum
        if cond m' then some blk
        else mergePass cond height ds (blocks.map (fun p => if p.1 == blk then (p.1, m') else p))
      | none => mergePass cond height ds (blocks ++ [(blk, d.cum)])

/-- the outer loop of `ghostFindMergePoint`: returns the best (hash, number) -/
def mergeLoop (cond : Mask → Bool) : Nat → List Entry → Nat → Nat → Nat × Nat
  | 0, _, bestHash, bestNum => (bestHash, bestNum)
  | f + 1, dNodes, bestHash, bestNum =>
    match mergePass cond (bestNum + 1) dNodes [] with
    | none => (bestHash, bestNum)
    | some nb =>
      let retained := dNodes.filter (fun d => d.inDirectAncestry nb (bestNum + 1) == some true)
      mergeLoop cond f retained nb (bestNum + 1)

/-- `ghostFindMergePoint(nodeKey, activeNode, forceConstrain, condition).best()` -/
def Graph.mergePoint (g : Graph) (fuel : Nat) (nodeKey : Nat) (active : Entry) (force : Option (Nat × Nat))
    (cond : Mask → Bool) : Nat × Nat :=
  let dNodes := active.descendants.filterMap (fun d =>
    match g.entries d with
    | none => none
    | some e =>
      match force with
      | none => some e
      | some (fh, fn) => if e.inDirectAncestry fh fn == some true then some e else none)
  mergeLoop cond fuel dNodes nodeKey active.number

/-- the breadth-first descent of `FindGHOST`: returns the node reached and whether the constraint is still on -/
def Graph.bfs (g : Graph) (cur : Option (Nat × Nat)) (cond : Mask → Bool) :
    Nat → Nat → Entry → Bool → Nat × Entry × Bool
  | 0, key, active, force => (key, active, force)
  | f + 1, key, active, force =>
    let filtered := active.descendants.filterMap (fun d =>
      match g.entries d with
      | none => none
      | some e =>
        match force, cur with
        | true, some (ch, cn) => if e.inDirectAncestry ch cn == some true then some (d, e) else none
        | _, _ => some (d, e))
    match filtered.find? (fun p => cond p.2.cum) with
    | none => (key, active, force)
    | some (d, e) => Graph.bfs g cur cond f d e false

/-- `FindGHOST(currentBest, condition)`; `currentBest` = (hash, number) -/
def Graph.findGhost (key : Nat → Nat) (fuel : Nat) (g : Graph) (cur : Option (Nat × Nat))
    (cond : Mask → Bool) : Option (Nat × Nat) :=
  let start : Nat × Bool := match cur with
    | none => (0, false)
    | some (h, n) =>
      match g.findContaining key fuel h n with
      | none => (h, false)
      | some (c :: _) =>
        match (g.entries c).bind Entry.ancestorNode with
        | some a => (a, true)
        | none => (0, false)       -- Go panics here
      | some [] => (0, false)
  match g.entries start.1 with
  | none => none                   -- Go panics here
  | some active0 =>
    if !cond active0.cum then none else
    let (nodeKey, active, force) := g.bfs cur cond fuel start.1 active0 start.2
    some (g.mergePoint fuel nodeKey active (if force then cur else none) cond)

/-- the accumulated vote of the child vote-nodes in `FindAncestor` -/
def Graph.orCums (g : Graph) (children : List Nat) : Mask :=
  children.foldl (fun m c => match g.entries c with | some e => m ||| e.cum | none => m) 0

/-- `FindAncestor(hash, number, condition)` -/
def Graph.findAncestor (key : Nat → Nat) (fuel : Nat) (g : Graph) (cond : Mask → Bool) :
    Nat → Nat → Nat → Option (Nat × Nat)
  | 0, _, _ => none
  | f + 1, hash, number =>
    match g.findContaining key fuel hash number with
    | none =>
      match g.entries hash with
      | none => none
      | some node =>
        if cond node.cum then some (hash, number) else
        match node.ancestors with
        | [] => none
        | p :: _ => Graph.findAncestor key fuel g cond f p (node.number - 1)
    | some [] => none
    | some children =>
      let v := g.orCums children
      if cond v then some (hash, number) else
      match children.getLast? with
      | none => none
      | some child =>
        match g.entries child with
        | none => none
        | some entry =>
          let offset := entry.number - number
          match entry.ancestors[offset]? with
          | none => none
          | some parent => Graph.findAncestor key fuel g cond f parent (number - 1)

end Gossamer.C20
