/-
C04, incremental writes: the view of ONE trie handle as a tree.  `FP hp g t a fp`: below the cell `a`
(which represents `t`) the cells of the handle's own generation `g` are exactly `fp`, counted with
multiplicity along the tree; `fp.Nodup` therefore says that no owned cell is shared between two
positions — what makes writes in place safe for the caches of the cells above them.
`TI` bundles representation (`HRep`), footprint (`FP`) and cache coherence (`Coh`).
-/
import Gossamer.Lib.C04WriteMain
namespace Gossamer
namespace TrieHeap
open Trie TrieCodec

/-- `[a]` if the cell has the generation of the handle -/
def ownL (hp : Heap) (g : Nat) (a : Nat) : List Nat := if (hp.get a).gen = g then [a] else []

def KidF (R : Nat → List Nat → Prop) (fp : List Nat) : Option Nat → Prop
  | none => fp = []
  | some c => R c fp

def FP (hp : Heap) (g : Nat) : Trie → Nat → List Nat → Prop
  | .nil, _, _ => False
  | .leaf _ _, a, fp => a < hp.size ∧ fp = ownL hp g a
  | .branch _ _ cs, a, fp =>
    a < hp.size ∧ ∃ fps : Nib → List Nat, fp = ownL hp g a ++ (List.finRange 16).flatMap fps ∧
      (∀ i, KidF (FP hp g (cs i)) (fps i) ((hp.get a).kids i)) ∧
      ((hp.get a).gen ≠ g → ∀ i, fps i = [])

/-- representation, footprint and coherent caches of the sub-trie at `a` -/
structure TI (H : Bytes → Bytes) (G : Bytes → Bytes → Prop) (hp : Heap) (g : Nat) (r : Bool) (t : Trie)
    (N : Node) (a : Nat) (fp : List Nat) : Prop where
  rep : HRep hp t N a
  fp : FP hp g t a fp
  coh : Coh H G hp r t N a

/-- heaps that agree outside `S` up to `MerkleValue` caches of dirty cells -/
structure FR (S : Nat → Prop) (hp hp' : Heap) : Prop where
  size : hp.size ≤ hp'.size
  cell : ∀ x, x < hp.size → ¬ S x →
    hp'.get x = hp.get x ∨ ((hp.get x).dirty = true ∧ ∃ m, hp'.get x = { hp.get x with mv := m })

theorem FR.refl (S : Nat → Prop) (hp : Heap) : FR S hp hp := ⟨Nat.le_refl _, fun _ _ _ => Or.inl rfl⟩

theorem FR.mono {S S' : Nat → Prop} {hp hp' : Heap} (h : FR S hp hp') (hs : ∀ x, S x → S' x) : FR S' hp hp' :=
  ⟨h.size, fun x hx hn => h.cell x hx (fun hsx => hn (hs x hsx))⟩

theorem FR.trans {S : Nat → Prop} {hp hp1 hp2 : Heap} (a : FR S hp hp1) (b : FR S hp1 hp2) : FR S hp hp2 := by
  refine ⟨Nat.le_trans a.size b.size, fun x hx hn => ?_⟩
  have hx1 : x < hp1.size := Nat.lt_of_lt_of_le hx a.size
  rcases a.cell x hx hn with e1 | ⟨hd1, m1, e1⟩
  · rcases b.cell x hx1 hn with e2 | ⟨hd2, m2, e2⟩
    · left; rw [e2, e1]
    · right; rw [e1] at hd2 e2; exact ⟨hd2, m2, e2⟩
  · rcases b.cell x hx1 hn with e2 | ⟨hd2, m2, e2⟩
    · right; exact ⟨hd1, m1, by rw [e2, e1]⟩
    · right; exact ⟨hd1, m2, by rw [e2, e1]⟩

theorem FR.of_dframe {S : Nat → Prop} {hp hp' : Heap} (h : DFrame hp hp') : FR S hp hp' :=
  ⟨by rw [h.size]; exact Nat.le_refl _, fun x _ _ => h.cell x⟩

theorem FR.alloc (S : Nat → Prop) (hp : Heap) (n : HNode) : FR S hp (hp.alloc n).1 :=
  ⟨by simp, fun x hx _ => Or.inl (Heap.get_alloc_lt hx)⟩

theorem FR.modify {S : Nat → Prop} (hp : Heap) (a : Nat) (f : HNode → HNode) (ha : S a) :
    FR S hp (hp.modify a f) :=
  ⟨by simp, fun x _ hn => Or.inl (Heap.get_modify_ne f (fun e => hn (e ▸ ha)))⟩

/-- the cell relation of `FR`, for a cell outside `S` -/
theorem FR.strip {S : Nat → Prop} {hp hp' : Heap} (h : FR S hp hp') {x : Nat} (hx : x < hp.size) (hn : ¬ S x) :
    (hp'.get x).strip = (hp.get x).strip ∧ (hp'.get x).dirty = (hp.get x).dirty ∧
    ((hp.get x).dirty = false → hp'.get x = hp.get x) := by
  rcases h.cell x hx hn with e | ⟨hd, m, e⟩
  · rw [e]; exact ⟨rfl, rfl, fun _ => rfl⟩
  · rw [e]; exact ⟨rfl, rfl, fun hf => by rw [hd] at hf; cases hf⟩

theorem mem_ownL {hp : Heap} {g a x : Nat} (h : x ∈ ownL hp g a) : x = a ∧ (hp.get a).gen = g := by
  unfold ownL at h
  split at h
  · rename_i hg; simp at h; exact ⟨h, hg⟩
  · cases h

/-- **Frame.**  A sub-trie keeps representation, footprint and coherence when the heap changes only
    at new cells and at owned cells outside its footprint. -/
theorem ti_frame {H : Bytes → Bytes} {G : Bytes → Bytes → Prop} {S : Nat → Prop} {hp hp' : Heap} {g : Nat}
    (hf : FR S hp hp') :
    ∀ (t : Trie) (r : Bool) (N : Node) (a : Nat) (fp : List Nat), TI H G hp g r t N a fp →
      (∀ x, S x → hp.size ≤ x ∨ ((hp.get x).gen = g ∧ x ∉ fp)) → TI H G hp' g r t N a fp
  | .nil, _, _, _, _, h, _ => h.rep.elim
  | .leaf pk v, r, N, a, fp, h, hS => by
    obtain ⟨hlt, hfp⟩ := h.fp
    have hna : ¬ S a := by
      intro hsa
      rcases hS a hsa with h1 | ⟨h1, h2⟩
      · omega
      · apply h2; rw [hfp]; unfold ownL; rw [if_pos h1]; simp
    obtain ⟨hs, hd, hcl⟩ := hf.strip hlt hna
    obtain ⟨h1, h2, h3, h4, h5⟩ := h.rep
    refine ⟨⟨by rw [strip_isBranch hs]; exact h1, by rw [strip_pk hs]; exact h2,
      by rw [strip_val hs]; exact h3, by rw [strip_kids hs]; exact h4, by rw [strip_mbh hs]; exact h5⟩,
      ⟨Nat.lt_of_lt_of_le hlt hf.size, by rw [hfp]; unfold ownL; rw [strip_gen hs]⟩, ?_⟩
    intro hd'
    have hd0 : (hp.get a).dirty = false := by rw [← hd]; exact hd'
    rw [hcl hd0]; exact h.coh hd0
  | .branch pk v cs, r, N, a, fp, h, hS => by
    obtain ⟨hlt, fps, hfp, hkf, hno⟩ := h.fp
    have hna : ¬ S a := by
      intro hsa
      rcases hS a hsa with h1 | ⟨h1, h2⟩
      · omega
      · apply h2; rw [hfp]; unfold ownL; rw [if_pos h1]; simp
    obtain ⟨hs, hd, hcl⟩ := hf.strip hlt hna
    obtain ⟨h1, h2, h3, kn, h4, h5⟩ := h.rep
    have hkid : ∀ i c, (hp.get a).kids i = some c →
        TI H G hp' g false (cs i) (kn i) c (fps i) := by
      intro i c hk
      have a1 := h5 i
      have a2 := hkf i
      rw [hk] at a1 a2
      have a3 := h.coh.2 i c hk
      rw [h4, kidAt_map] at a3
      refine ti_frame hf (cs i) false (kn i) c (fps i) ⟨a1.2, a2, a3⟩ ?_
      intro x hsx
      rcases hS x hsx with h1 | ⟨h1, h2⟩
      · exact Or.inl h1
      · refine Or.inr ⟨h1, fun hm => h2 ?_⟩
        rw [hfp]
        apply List.mem_append_right
        exact List.mem_flatMap.mpr ⟨i, List.mem_finRange i, hm⟩
    refine ⟨⟨by rw [strip_isBranch hs]; exact h1, by rw [strip_pk hs]; exact h2, by rw [strip_val hs]; exact h3,
      kn, by rw [strip_mbh hs]; exact h4, fun i => ?_⟩,
      ⟨Nat.lt_of_lt_of_le hlt hf.size, fps, by rw [hfp]; unfold ownL; rw [strip_gen hs], fun i => ?_,
        by rw [strip_gen hs]; exact hno⟩, ?_, ?_⟩
    · rw [strip_kids hs]
      have a1 := h5 i
      cases hk : (hp.get a).kids i with
      | none => rw [hk] at a1; exact a1
      | some c => rw [hk] at a1; exact ⟨a1.1, (hkid i c hk).rep⟩
    · rw [strip_kids hs]
      have a2 := hkf i
      cases hk : (hp.get a).kids i with
      | none => rw [hk] at a2; exact a2
      | some c => exact (hkid i c hk).fp
    · intro hd'
      have hd0 : (hp.get a).dirty = false := by rw [← hd]; exact hd'
      rw [hcl hd0]; exact h.coh.1 hd0
    · intro i c hk
      rw [strip_kids hs] at hk
      rw [h4, kidAt_map]
      exact (hkid i c hk).coh

/-! ### hashing inside a mutation only writes caches of dirty cells -/

theorem ensureMV_dframe (H : Bytes → Bytes) (hH : ∀ m, (H m).length = 32) (G : Bytes → Bytes → Prop) (c : Ctx)
    (hcH : c.H = H) {hp : Heap} {t : Trie} {N : Node} {a : Nat} {r : Bool} (hr : HRep hp t N a)
    (hc : Coh H G hp r t N a) (hflav : (c.troot == some a) = r) (hd : depth t ≤ bigFuel + 1) :
    DFrame hp (ensureMV c hp (some a)) := by
  subst hcH
  rw [ensureMV_some]
  by_cases hroot : c.troot = some a
  · rw [if_pos hroot]
    have hr' : r = true := by rw [← hflav]; simp [hroot]
    subst hr'
    rw [calcRootMV_eq]
    by_cases hu : (hp.get a).dirty = false ∧ ((hp.get a).mv.getD []).length = 32
    · rw [if_pos hu]; exact DFrame.refl hp
    · rw [if_neg hu]
      have hdirty : (hp.get a).dirty = true := by
        by_cases hdd : (hp.get a).dirty = true
        · exact hdd
        · exfalso
          have hdf : (hp.get a).dirty = false := by simpa using hdd
          have hcl := (Coh.clean hc (HRep.ne_nil hr) hdf).1
          apply hu
          refine ⟨hdf, ?_⟩
          rw [hcl]; simp [hH]
      obtain ⟨hp1, hdt, he⟩ := encodeAndHash_pure c.H G true t N a hp true hr hdirty hc hd
      rw [he]
      simp only []
      refine hdt.frame.trans (DFrame.modify_mv ?_ _)
      rw [(hdt.frame.strip a).2]; exact hdirty
  · rw [if_neg hroot]
    have hr' : r = false := by rw [← hflav]; simp [hroot]
    subst hr'
    exact (calcMV_pure c.H G t N a (bigFuel + 1) hp hr hc hd).1.frame

/-! ### building and taking apart `TI` -/

/-- one child slot of a branch, all three aspects -/
def KidTI (H : Bytes → Bytes) (G : Bytes → Bytes → Prop) (hp : Heap) (g : Nat) (t : Trie) (k : Node)
    (fp : List Nat) : Option Nat → Prop
  | none => t = .nil ∧ k = .empty ∧ fp = []
  | some c => t ≠ .nil ∧ TI H G hp g false t k c fp

theorem ti_leaf_cell {H : Bytes → Bytes} {G : Bytes → Bytes → Prop} {hp : Heap} {g : Nat} {r : Bool} {b : Nat}
    {pk : Nibs} {v : Bytes} (hlt : b < hp.size) (hb : (hp.get b).isBranch = false) (hpk : (hp.get b).pk = pk)
    (hv : (hp.get b).val = some v) (hk : ∀ i, (hp.get b).kids i = none) (hd : (hp.get b).dirty = true) :
    TI H G hp g r (.leaf pk v) (.leaf (nibBytes pk) (some v) (hp.get b).mbh) b (ownL hp g b) :=
  ⟨⟨hb, hpk, hv, hk, rfl⟩, ⟨hlt, rfl⟩, fun hf => by rw [hd] at hf; cases hf⟩

theorem ti_branch_cell {H : Bytes → Bytes} {G : Bytes → Bytes → Prop} {hp : Heap} {g : Nat} {r : Bool} {b : Nat}
    {pk : Nibs} {v : Option Bytes} {cs : Nib → Trie} {kn : Nib → Node} {fps : Nib → List Nat}
    (hlt : b < hp.size) (hb : (hp.get b).isBranch = true) (hpk : (hp.get b).pk = pk)
    (hv : (hp.get b).val = v) (hd : (hp.get b).dirty = true) (hg : (hp.get b).gen = g)
    (hk : ∀ i, KidTI H G hp g (cs i) (kn i) (fps i) ((hp.get b).kids i)) :
    TI H G hp g r (.branch pk v cs) (.branch (nibBytes pk) v (hp.get b).mbh ((List.finRange 16).map kn)) b
      (ownL hp g b ++ (List.finRange 16).flatMap fps) := by
  refine ⟨⟨hb, hpk, hv, kn, rfl, fun i => ?_⟩, ⟨hlt, fps, rfl, fun i => ?_, fun hne => absurd hg hne⟩, ?_, ?_⟩
  · have := hk i
    cases hkk : (hp.get b).kids i with
    | none => rw [hkk] at this; exact ⟨this.1, this.2.1⟩
    | some c => rw [hkk] at this; exact ⟨this.1, this.2.rep⟩
  · have := hk i
    cases hkk : (hp.get b).kids i with
    | none => rw [hkk] at this; exact this.2.2
    | some c => rw [hkk] at this; exact this.2.fp
  · intro hf; rw [hd] at hf; cases hf
  · intro i c hkc
    have := hk i
    rw [hkc] at this
    rw [kidAt_map]
    exact this.2.coh

theorem ti_branch_elim {H : Bytes → Bytes} {G : Bytes → Bytes → Prop} {hp : Heap} {g : Nat} {r : Bool} {a : Nat}
    {pk : Nibs} {v : Option Bytes} {cs : Nib → Trie} {N : Node} {fp : List Nat}
    (h : TI H G hp g r (.branch pk v cs) N a fp) :
    a < hp.size ∧ (hp.get a).isBranch = true ∧ (hp.get a).pk = pk ∧ (hp.get a).val = v ∧
    ∃ (kn : Nib → Node) (fps : Nib → List Nat),
      N = .branch (nibBytes pk) v (hp.get a).mbh ((List.finRange 16).map kn) ∧
      fp = ownL hp g a ++ (List.finRange 16).flatMap fps ∧
      ((hp.get a).gen ≠ g → ∀ i, fps i = []) ∧
      ∀ i, KidTI H G hp g (cs i) (kn i) (fps i) ((hp.get a).kids i) := by
  obtain ⟨h1, h2, h3, kn, h4, h5⟩ := h.rep
  obtain ⟨hlt, fps, hfp, hkf, hno⟩ := h.fp
  refine ⟨hlt, h1, h2, h3, kn, fps, h4, hfp, hno, fun i => ?_⟩
  have a1 := h5 i
  have a2 := hkf i
  cases hk : (hp.get a).kids i with
  | none => rw [hk] at a1 a2; exact ⟨a1.1, a1.2, a2⟩
  | some c =>
    rw [hk] at a1 a2
    have a3 := h.coh.2 i c hk
    rw [h4, kidAt_map] at a3
    exact ⟨a1.1, a1.2, a2, a3⟩

theorem ti_leaf_elim {H : Bytes → Bytes} {G : Bytes → Bytes → Prop} {hp : Heap} {g : Nat} {r : Bool} {a : Nat}
    {pk : Nibs} {v : Bytes} {N : Node} {fp : List Nat} (h : TI H G hp g r (.leaf pk v) N a fp) :
    a < hp.size ∧ (hp.get a).isBranch = false ∧ (hp.get a).pk = pk ∧ (hp.get a).val = some v ∧
    (∀ i, (hp.get a).kids i = none) ∧ fp = ownL hp g a := by
  obtain ⟨h1, h2, h3, h4, _⟩ := h.rep
  exact ⟨h.fp.1, h1, h2, h3, h4, h.fp.2⟩

/-- every owned cell of the footprint is allocated -/
theorem fp_lt {hp : Heap} {g : Nat} : ∀ (t : Trie) (a : Nat) (fp : List Nat), FP hp g t a fp →
    ∀ x, x ∈ fp → x < hp.size
  | .nil, _, _, h, _, _ => h.elim
  | .leaf _ _, a, fp, h, x, hx => by
    rw [h.2] at hx
    rw [(mem_ownL hx).1]; exact h.1
  | .branch _ _ cs, a, fp, h, x, hx => by
    obtain ⟨hlt, fps, hfp, hk, _⟩ := h
    rw [hfp] at hx
    rcases List.mem_append.mp hx with h1 | h1
    · rw [(mem_ownL h1).1]; exact hlt
    · obtain ⟨i, _, hi⟩ := List.mem_flatMap.mp h1
      have := hk i
      cases hkk : (hp.get a).kids i with
      | none => rw [hkk] at this; rw [this] at hi; cases hi
      | some c => rw [hkk] at this; exact fp_lt (cs i) c (fps i) this x hi

/-! ### `prepForMutation` -/

/-- the cells an operation at the owned-or-copied cell `a` may write: `a` itself if it is owned, and new cells -/
def SA (hp : Heap) (g : Nat) (a : Nat) (x : Nat) : Prop := (x = a ∧ (hp.get a).gen = g) ∨ hp.size ≤ x

/-- what `prepForMutation` returns: a dirty cell of the handle's generation with the fields of `a`
    (the storage value only if it was asked to be copied) -/
structure Prepped (hp : Heap) (g : Nat) (cv : Bool) (a : Nat) (hp' : Heap) (b : Nat) : Prop where
  fr : FR (SA hp g a) hp hp'
  lt : b < hp'.size
  pk : (hp'.get b).pk = (hp.get a).pk
  isBranch : (hp'.get b).isBranch = (hp.get a).isBranch
  kids : (hp'.get b).kids = (hp.get a).kids
  mbh : (hp'.get b).mbh = (hp.get a).mbh
  val : cv = true → (hp'.get b).val = (hp.get a).val
  gen : (hp'.get b).gen = g
  dirty : (hp'.get b).dirty = true
  place : (b = a ∧ (hp.get a).gen = g ∧ hp'.size = hp.size) ∨
          (b = hp.size ∧ (hp.get a).gen ≠ g ∧ hp'.size = hp.size + 1)

theorem prep_tree (H : Bytes → Bytes) (hH : ∀ m, (H m).length = 32) (G : Bytes → Bytes → Prop) (c : Ctx)
    (hcH : c.H = H) {g : Nat} (hcg : c.g = g) (cv : Bool) {hp : Heap} {a : Nat} {r : Bool} (hlt : a < hp.size)
    (h : (hp.get a).gen ≠ g → ∃ t N, HRep hp t N a ∧ Coh H G hp r t N a ∧ depth t ≤ bigFuel + 1)
    (hflav : (c.troot == some a) = r) :
    Prepped hp g cv a (prepForMutation c cv hp a).1 (prepForMutation c cv hp a).2 := by
  rw [prep_eq]
  by_cases hgen : (hp.get a).gen = c.g
  · rw [if_pos hgen]
    have hgen' : (hp.get a).gen = g := hcg ▸ hgen
    have hget : (hp.modify a HNode.setDirty).get a = (hp.get a).setDirty := by
      rw [Heap.get_modify, if_pos ⟨rfl, hlt⟩]
    refine ⟨FR.modify hp a _ (Or.inl ⟨rfl, hgen'⟩), by simpa using hlt, ?_, ?_, ?_, ?_, ?_, ?_, ?_,
      Or.inl ⟨rfl, hgen', by simp⟩⟩ <;> simp only [hget] <;> first | rfl | exact hgen' | (intro _; rfl)
  · rw [if_neg hgen]
    have hgen' : (hp.get a).gen ≠ g := hcg ▸ hgen
    obtain ⟨t, N, hrep, hcoh, hd⟩ := h hgen'
    have hdf := ensureMV_dframe H hH G c hcH hrep hcoh hflav hd
    have hsz : (registerDeleted c hp a).size = hp.size := hdf.size
    have hs := (hdf.strip a).1
    refine ⟨(FR.of_dframe hdf).trans (FR.alloc _ _ _), by simp, ?_, ?_, ?_, ?_, ?_, ?_, ?_,
      Or.inr ⟨by simp [hsz], hgen', by simp [hsz]⟩⟩ <;>
      simp only [Heap.alloc_snd, Heap.get_alloc_self]
    · exact strip_pk hs
    · exact strip_isBranch hs
    · exact strip_kids hs
    · exact strip_mbh hs
    · intro hcv; rw [hcv]; simp only [if_true]; exact strip_val hs
    · exact hcg

/-! ### footprints as sets -/

theorem nodup_fm_iff (fps : Nib → List Nat) :
    ((List.finRange 16).flatMap fps).Nodup ↔
      (∀ i, (fps i).Nodup) ∧ (∀ i j, i ≠ j → ∀ x, x ∈ fps i → x ∉ fps j) := by
  unfold List.Nodup
  rw [List.pairwise_flatMap]
  constructor
  · rintro ⟨h1, h2⟩
    refine ⟨fun i => h1 i (List.mem_finRange i), fun i j hij x hx hy => ?_⟩
    have h3 : (List.finRange 16).Pairwise
        (fun a b : Nib => a ≠ b → ∀ x ∈ fps a, ∀ y ∈ fps b, x ≠ y) := by
      refine List.Pairwise.imp ?_ h2
      intro a b h _; exact h
    have h4 : (List.finRange 16).Pairwise
        (flip (fun a b : Nib => a ≠ b → ∀ x ∈ fps a, ∀ y ∈ fps b, x ≠ y)) := by
      refine List.Pairwise.imp ?_ h2
      intro a b h _ x hx y hy e; exact h y hy x hx e.symm
    exact List.Pairwise.forall_of_forall_of_flip (fun _ _ hne => absurd rfl hne) h3 h4
      (List.mem_finRange i) (List.mem_finRange j) hij x hx x hy rfl
  · rintro ⟨h1, h2⟩
    refine ⟨fun i _ => h1 i, List.Pairwise.imp ?_ (List.nodup_finRange 16)⟩
    intro a b hab x hx y hy e
    subst e
    exact h2 a b hab x hx hy

/-- every cell of the footprint has the generation of the handle -/
theorem fp_own {hp : Heap} {g : Nat} : ∀ (t : Trie) (a : Nat) (fp : List Nat), FP hp g t a fp →
    ∀ x, x ∈ fp → (hp.get x).gen = g
  | .nil, _, _, h, _, _ => h.elim
  | .leaf _ _, a, fp, h, x, hx => by
    rw [h.2] at hx
    rw [(mem_ownL hx).1]; exact (mem_ownL hx).2
  | .branch _ _ cs, a, fp, h, x, hx => by
    obtain ⟨hlt, fps, hfp, hk, _⟩ := h
    rw [hfp] at hx
    rcases List.mem_append.mp hx with h1 | h1
    · rw [(mem_ownL h1).1]; exact (mem_ownL h1).2
    · obtain ⟨i, _, hi⟩ := List.mem_flatMap.mp h1
      have := hk i
      cases hkk : (hp.get a).kids i with
      | none => rw [hkk] at this; rw [this] at hi; cases hi
      | some c => rw [hkk] at this; exact fp_own (cs i) c (fps i) this x hi

end TrieHeap
end Gossamer
