/-
C20: weighted sums over voter positions (`wsumFrom`, `wsum`).
-/
import Gossamer.Model.C20
namespace Gossamer.C20

theorem wsumFrom_congr {p q : Nat → Bool} : ∀ (ws : List Nat) (i : Nat),
    (∀ j, i ≤ j → j < i + ws.length → p j = q j) → wsumFrom p i ws = wsumFrom q i ws := by
  intro ws
  induction ws with
  | nil => intros; rfl
  | cons w ws ih =>
    intro i h
    simp only [wsumFrom]
    rw [h i (Nat.le_refl _) (by simp), ih (i + 1) (fun j h1 h2 => h j (by omega) (by simp; omega))]

theorem wsumFrom_mono {p q : Nat → Bool} : ∀ (ws : List Nat) (i : Nat),
    (∀ j, i ≤ j → j < i + ws.length → p j = true → q j = true) → wsumFrom p i ws ≤ wsumFrom q i ws := by
  intro ws
  induction ws with
  | nil => intros; exact Nat.le_refl _
  | cons w ws ih =>
    intro i h
    simp only [wsumFrom]
    have h1 := ih (i + 1) (fun j h1 h2 => h j (by omega) (by simp; omega))
    have h2 := h i (Nat.le_refl _) (by simp)
    cases hp : p i <;> cases hq : q i <;> simp_all <;> omega

/-- inclusion–exclusion -/
theorem wsumFrom_or_and (p q : Nat → Bool) : ∀ (ws : List Nat) (i : Nat),
    wsumFrom (fun j => p j || q j) i ws + wsumFrom (fun j => p j && q j) i ws
      = wsumFrom p i ws + wsumFrom q i ws := by
  intro ws
  induction ws with
  | nil => intros; rfl
  | cons w ws ih =>
    intro i
    simp only [wsumFrom]
    have := ih (i + 1)
    rcases Bool.eq_false_or_eq_true (p i) with hp | hp <;>
      rcases Bool.eq_false_or_eq_true (q i) with hq | hq <;> simp [hp, hq] <;> omega

/-- a sum splits into the part where `q` holds and the part where it does not -/
theorem wsumFrom_split (p q : Nat → Bool) : ∀ (ws : List Nat) (i : Nat),
    wsumFrom p i ws = wsumFrom (fun j => p j && q j) i ws + wsumFrom (fun j => p j && !q j) i ws := by
  intro ws
  induction ws with
  | nil => intros; rfl
  | cons w ws ih =>
    intro i
    simp only [wsumFrom]
    have := ih (i + 1)
    rcases Bool.eq_false_or_eq_true (p i) with hp | hp <;>
      rcases Bool.eq_false_or_eq_true (q i) with hq | hq <;> simp [hp, hq] <;> omega

/-- switching one position on adds its weight -/
theorem wsumFrom_set {p q : Nat → Bool} (v : Nat) : ∀ (ws : List Nat) (i : Nat),
    (∀ j, j ≠ v → q j = p j) → p v = false → q v = true →
    wsumFrom q i ws = wsumFrom p i ws + (if i ≤ v ∧ v < i + ws.length then ws.getD (v - i) 0 else 0) := by
  intro ws
  induction ws with
  | nil => intros; simp [wsumFrom]
  | cons w ws ih =>
    intro i h hp hq
    simp only [wsumFrom]
    rw [ih (i + 1) h hp hq]
    by_cases hiv : i = v
    · subst hiv
      have h2 : ¬ (i + 1 ≤ i ∧ i < i + 1 + ws.length) := by omega
      simp [hp, hq, h2]
      omega
    · rw [h i hiv]
      by_cases h1 : i ≤ v ∧ v < i + (w :: ws).length
      · have h2 : i + 1 ≤ v ∧ v < i + 1 + ws.length := by simp at h1; omega
        have h3 : v - i = (v - (i + 1)) + 1 := by omega
        simp only [h1, h2, and_self, if_true]
        rw [h3]
        simp [List.getD]
        omega
      · have h2 : ¬ (i + 1 ≤ v ∧ v < i + 1 + ws.length) := by simp at h1 ⊢; omega
        simp only [h1, h2, if_false]
        omega

theorem wsum_congr {ws : List Nat} {p q : Nat → Bool} (h : ∀ v, v < ws.length → p v = q v) :
    wsum ws p = wsum ws q := wsumFrom_congr ws 0 (fun j _ h2 => h j (by omega))

theorem wsum_mono {ws : List Nat} {p q : Nat → Bool} (h : ∀ v, v < ws.length → p v = true → q v = true) :
    wsum ws p ≤ wsum ws q := wsumFrom_mono ws 0 (fun j _ h2 => h j (by omega))

theorem wsum_le_total (ws : List Nat) (p : Nat → Bool) : wsum ws p ≤ total ws :=
  wsum_mono (fun _ _ _ => rfl)

theorem wsum_or_and (ws : List Nat) (p q : Nat → Bool) :
    wsum ws (fun j => p j || q j) + wsum ws (fun j => p j && q j) = wsum ws p + wsum ws q :=
  wsumFrom_or_and p q ws 0

theorem wsum_split (ws : List Nat) (p q : Nat → Bool) :
    wsum ws p = wsum ws (fun j => p j && q j) + wsum ws (fun j => p j && !q j) :=
  wsumFrom_split p q ws 0

theorem wsum_set {ws : List Nat} {p q : Nat → Bool} (v : Nat) (hv : v < ws.length)
    (h : ∀ j, j ≠ v → q j = p j) (hp : p v = false) (hq : q v = true) :
    wsum ws q = wsum ws p + ws.getD v 0 := by
  have := wsumFrom_set v ws 0 h hp hq
  simpa [wsum, hv] using this

/-- threshold facts: with f = total − threshold, total ≥ 3f + 1 (for total > 0) -/
theorem threshold_le (n : Nat) : threshold n ≤ n := by unfold threshold; omega

theorem three_faulty_lt {n : Nat} (h : 0 < n) : 3 * (n - threshold n) < n := by
  unfold threshold; omega

end Gossamer.C20
