/-
`ClearPrefixLimit`: `deleteNodesLimit` and `clearPrefixLimitAtNode` against the ordered map, on
sub-tries in which no key is a proper prefix of another (outside of the known finding
`clrl-children-first`).
-/
import Gossamer.Lib.TrieRefine
set_option linter.unusedSimpArgs false
set_option linter.unusedSectionVars false
namespace Gossamer
open Rank OMap
namespace Trie

/-! ### deleteNodesLimit on a subtree without branch values -/

/-- no branch of the trie holds a value (no key is a proper prefix of another key) -/
def NoVal : Trie → Prop
  | nil => True
  | leaf _ _ => True
  | branch _ v cs => v = none ∧ ∀ i, NoVal (cs i)

theorem canon_entries_nil {t : Trie} (hc : Canon t) (he : entriesN t = []) : t = nil := by
  by_cases h : t = nil
  · exact h
  · obtain ⟨k, v, hk⟩ := canon_has_key t hc h
    rw [← get_entriesN, he] at hk
    simp [OMap.get] at hk

theorem entriesN_branch_none (pk : Nibs) (cs : Nib → Trie) :
    entriesN (branch pk none cs) =
      (childEntries (fun i => entriesN (cs i)) (List.finRange 16)).map (fun e => (pk ++ e.1, e.2)) := by
  rw [entriesN_branch]; rfl

theorem childEntries_append (E : Nib → List (Nibs × Bytes)) (a b : List Nib) :
    childEntries E (a ++ b) = childEntries E a ++ childEntries E b := by
  simp [childEntries]

theorem childEntries_cons (E : Nib → List (Nibs × Bytes)) (i : Nib) (l : List Nib) :
    childEntries E (i :: l) = (E i).map (fun e => (i :: e.1, e.2)) ++ childEntries E l := by
  simp [childEntries]

theorem childEntries_eq_nil (E : Nib → List (Nibs × Bytes)) (l : List Nib) (h : ∀ j ∈ l, E j = []) :
    childEntries E l = [] := by
  induction l with
  | nil => rfl
  | cons i l ih =>
    rw [childEntries_cons, h i (by simp), ih (fun j hj => h j (by simp [hj]))]; rfl

theorem childEntries_congr (E E' : Nib → List (Nibs × Bytes)) (l : List Nib) (h : ∀ j ∈ l, E j = E' j) :
    childEntries E l = childEntries E' l := by
  induction l with
  | nil => rfl
  | cons i l ih =>
    rw [childEntries_cons, childEntries_cons, h i (by simp), ih (fun j hj => h j (by simp [hj]))]

theorem foldl_dnlStep_done (pk : Nibs) (v : Option Bytes) (cs : Nib → Trie)
    (rec : Nib → Nat → Trie × Nat) (l : List Nib) (s : DnlState) (h : s.result.isSome = true) :
    l.foldl (dnlStep pk v cs rec) s = s := by
  induction l with
  | nil => rfl
  | cons i l ih => simp only [List.foldl_cons, dnlStep, h, Bool.true_or, if_true]; exact ih

theorem entriesN_handleDeletion_none (pk : Nibs) (cs : Nib → Trie) (key : Nibs) :
    entriesN (handleDeletion pk none cs key) = entriesN (branch pk none cs) :=
  entriesN_ext (fun k => lookup_handleDeletion pk none cs key (by simp) k)


/-- the specification of `deleteNodesLimit` on one node: the first `n` entries go -/
def DnlSpec (t : Trie) (n : Nat) (r : Trie × Nat) : Prop :=
  entriesN r.1 = (entriesN t).drop n ∧ r.2 = min n (entriesN t).length ∧ Canon r.1

theorem dnl_loop (pk : Nibs) (cs : Nib → Trie) (rec : Nib → Nat → Trie × Nat)
    (hrec : ∀ i lim, DnlSpec (cs i) lim (rec i lim)) (hcs : ∀ i, Canon (cs i)) :
    ∀ (l done : List Nib) (s : DnlState), done ++ l = List.finRange 16 →
      s.result = none → 0 < s.limit →
      (∀ j ∈ l, s.cs j = cs j) → (∀ j ∈ done, s.cs j = nil) → (∀ j, Canon (s.cs j)) →
      let out := dnlOut none (l.foldl (dnlStep pk none cs rec) s)
      let T := (childEntries (fun i => entriesN (cs i)) l).map (fun e => (pk ++ e.1, e.2))
      entriesN out.1 = T.drop s.limit ∧ out.2 = s.deleted + min s.limit T.length ∧ Canon out.1 := by
  intro l
  induction l with
  | nil =>
    intro done s _ hres _ _ _ _
    simp [dnlOut, hres, childEntries, entriesN]
  | cons i l' ih =>
    intro done s hfin hres hlim hl hdone hcan
    have hnd : (done ++ i :: l').Nodup := by rw [hfin]; exact List.nodup_finRange 16
    have hi_done : i ∉ done := by
      intro h
      have := (List.nodup_append.mp hnd).2.2 i h i (by simp)
      exact this rfl
    have hi_l' : i ∉ l' := (List.nodup_cons.mp (List.nodup_append.mp hnd).2.1).1
    have hfin' : (done ++ [i]) ++ l' = List.finRange 16 := by rw [← hfin]; simp
    simp only [List.foldl_cons]
    rw [childEntries_cons]
    cases hnil : (cs i).isNil with
    | true =>
      -- nil child: skipped
      have hci := (isNil_iff _).mp hnil
      have hstep : dnlStep pk none cs rec s i = s := by simp [dnlStep, hnil]
      rw [hstep]
      have := ih (done ++ [i]) s hfin' hres hlim (fun j hj => hl j (by simp [hj]))
        (by
          intro j hj
          rcases List.mem_append.mp hj with h | h
          · exact hdone j h
          · simp at h; subst h; rw [hl j (by simp), hci]) hcan
      simpa [hci, entriesN] using this
    | false =>
      have hci : cs i ≠ nil := by intro e; rw [e] at hnil; simp [isNil] at hnil
      obtain ⟨hr1, hr2, hr3⟩ := hrec i s.limit
      have hEi : 0 < (entriesN (cs i)).length := by
        apply List.length_pos_iff.mpr
        intro e; exact hci (canon_entries_nil (hcs i) e)
      -- the state after this child
      have hcs' : ∀ j, Canon (setChild s.cs i (rec i s.limit).1 j) := canon_setChild hcan i hr3
      have hcs'_l : ∀ j ∈ l', setChild s.cs i (rec i s.limit).1 j = cs j := by
        intro j hj
        have : j ≠ i := fun e => hi_l' (e ▸ hj)
        rw [setChild_other _ _ _ _ this]; exact hl j (by simp [hj])
      have hcs'_done : ∀ j ∈ done, setChild s.cs i (rec i s.limit).1 j = nil := by
        intro j hj
        have : j ≠ i := fun e => hi_done (e ▸ hj)
        rw [setChild_other _ _ _ _ this]; exact hdone j hj
      -- entries of the branch over the new children
      have hbranch : entriesN (branch pk none (setChild s.cs i (rec i s.limit).1)) =
          (((entriesN (cs i)).drop s.limit).map (fun e => (i :: e.1, e.2)) ++
            childEntries (fun j => entriesN (cs j)) l').map (fun e => (pk ++ e.1, e.2)) := by
        rw [entriesN_branch_none, ← hfin, childEntries_append, childEntries_cons]
        rw [childEntries_eq_nil _ done (fun j hj => by simp [hcs'_done j hj, entriesN])]
        rw [childEntries_congr _ (fun j => entriesN (cs j)) l' (fun j hj => by simp [hcs'_l j hj])]
        simp [hr1]
      simp only [dnlStep, hres, Option.isSome_none, hnil, Bool.or_self, Bool.false_eq_true, if_false,
        Option.isNone_none, Bool.and_true]
      cases hall : (childIdx (setChild s.cs i (rec i s.limit).1)).isEmpty with
      | true =>
        -- every child is gone
        simp only [if_true]
        rw [foldl_dnlStep_done _ _ _ _ _ _ (by simp)]
        have hallnil : ∀ j, setChild s.cs i (rec i s.limit).1 j = nil :=
          fun j => childIdx_nil (List.isEmpty_iff.mp hall) j
        have hri : (rec i s.limit).1 = nil := by simpa using hallnil i
        have hdrop : (entriesN (cs i)).drop s.limit = [] := by rw [← hr1, hri]; rfl
        have hle : (entriesN (cs i)).length ≤ s.limit := by
          have := congrArg List.length hdrop
          simp at this; omega
        have hl'nil : childEntries (fun j => entriesN (cs j)) l' = [] :=
          childEntries_eq_nil _ _ (fun j hj => by
            have := hallnil j
            rw [hcs'_l j hj] at this
            simp [this, entriesN])
        simp only [dnlOut, Option.isSome_none, Bool.false_eq_true, if_false, Nat.add_zero, hl'nil, List.append_nil, List.map_map, List.length_map]
        refine ⟨?_, ?_, trivial⟩
        · simp [entriesN, List.drop_eq_nil_iff, hle]
        · rw [hr2]
      | false =>
        simp only [Bool.false_eq_true, if_false]
        by_cases hlim0 : s.limit - (rec i s.limit).2 = 0
        · -- the limit is reached inside this child
          simp only [hlim0, if_true]
          rw [foldl_dnlStep_done _ _ _ _ _ _ (by simp)]
          have hle : s.limit ≤ (entriesN (cs i)).length := by rw [hr2] at hlim0; omega
          have hr2' : (rec i s.limit).2 = s.limit := by rw [hr2]; omega
          simp only [dnlOut, Option.isSome_none, Bool.false_eq_true, if_false, Nat.add_zero]
          refine ⟨?_, ?_, ?_⟩
          · rw [entriesN_handleDeletion_none, hbranch]
            simp only [List.map_append, List.map_map, List.drop_append, List.length_map]
            have : s.limit - (entriesN (cs i)).length = 0 := by omega
            simp [this, List.map_drop]
          · rw [hr2']; simp only [List.length_map, List.length_append]; omega
          · have hex : ∃ j, setChild s.cs i (rec i s.limit).1 j ≠ nil := by
              have : childIdx (setChild s.cs i (rec i s.limit).1) ≠ [] := by
                intro e; rw [e] at hall; simp at hall
              obtain ⟨j, hj⟩ := List.exists_mem_of_ne_nil _ this
              exact ⟨j, (mem_childIdx _ j).mp hj⟩
            exact (canon_handleDeletion pk none _ pk hcs' (Or.inr hex)).2
        · -- the child is gone entirely and the limit is not reached
          simp only [hlim0, if_false]
          have hlt : (entriesN (cs i)).length < s.limit := by rw [hr2] at hlim0; omega
          have hr2' : (rec i s.limit).2 = (entriesN (cs i)).length := by rw [hr2]; omega
          have hri : (rec i s.limit).1 = nil := by
            apply canon_entries_nil hr3
            rw [hr1, List.drop_eq_nil_iff]; omega
          have := ih (done ++ [i])
            { cs := setChild s.cs i (rec i s.limit).1, limit := s.limit - (rec i s.limit).2,
              deleted := s.deleted + (rec i s.limit).2, result := none }
            hfin' rfl (by simp only; omega) hcs'_l
            (by
              intro j hj
              rcases List.mem_append.mp hj with h | h
              · exact hcs'_done j h
              · simp at h; subst h; simpa using hri) hcs'
          simp only at this
          obtain ⟨h1, h2, h3⟩ := this
          refine ⟨?_, ?_, h3⟩
          · rw [h1, hr2']
            simp only [List.map_append, List.map_map, List.drop_append, List.length_map]
            have : List.drop s.limit (List.map ((fun e : Nibs × Bytes => (pk ++ e.1, e.2)) ∘
                fun e => (i :: e.1, e.2)) (entriesN (cs i))) = [] := by
              rw [List.drop_eq_nil_iff]; simp; omega
            rw [this]; rfl
          · rw [h2, hr2']
            simp only [List.length_map, List.length_append]
            omega


theorem deleteNodesLimit_spec (t : Trie) (n : Nat) (hc : Canon t) (hv : NoVal t) :
    DnlSpec t n (deleteNodesLimit t n) := by
  induction t generalizing n with
  | nil => simp [DnlSpec, deleteNodesLimit, entriesN]
  | leaf pk v =>
    simp only [DnlSpec, deleteNodesLimit]
    split
    · rename_i h; subst h; simp [entriesN]
    · rename_i h
      have : 1 ≤ n := Nat.pos_of_ne_zero h
      simp [entriesN, List.drop_eq_nil_iff, this]
  | branch pk v cs ih =>
    obtain ⟨hvn, hvcs⟩ := hv
    subst hvn
    have hcs := ((canon_branch_iff _ _ _).mp hc).1
    simp only [deleteNodesLimit]
    split
    · rename_i h; subst h; simp [DnlSpec, hc]
    · rename_i h
      have hpos : 0 < n := Nat.pos_of_ne_zero h
      have hloop := dnl_loop pk cs (fun i lim => deleteNodesLimit (cs i) lim)
        (fun i lim => ih i lim (hcs i) (hvcs i)) hcs (List.finRange 16) []
        { cs := cs, limit := n, deleted := 0, result := none } (List.nil_append _) rfl hpos
        (fun _ _ => rfl) (fun _ h => absurd h (List.not_mem_nil)) hcs
      rw [dnlBranch_eq]
      unfold DnlSpec
      rw [entriesN_branch_none]
      simpa using hloop

end Trie

namespace OMap
variable {α : Type} [Rank α] [DecidableEq α]

theorem dropMatching_zero (p : List α) (es : List (List α × Bytes)) : dropMatching p 0 es = es := by
  cases es <;> rfl

/-- (D1) every key matches -/
theorem dropMatching_all (p : List α) (n : Nat) (es : List (List α × Bytes))
    (h : ∀ e ∈ es, p.isPrefixOf e.1 = true) : dropMatching p n es = es.drop n := by
  induction es generalizing n with
  | nil => cases n <;> rfl
  | cons e r ih =>
    cases n with
    | zero => rfl
    | succ m =>
      simp only [dropMatching, h e (by simp), if_true, List.drop_succ_cons]
      exact ih m (fun x hx => h x (by simp [hx]))

/-- (D2) no key matches -/
theorem dropMatching_none (p : List α) (n : Nat) (es : List (List α × Bytes))
    (h : ∀ e ∈ es, p.isPrefixOf e.1 = false) : dropMatching p n es = es := by
  induction es generalizing n with
  | nil => cases n <;> rfl
  | cons e r ih =>
    cases n with
    | zero => rfl
    | succ m =>
      simp only [dropMatching, h e (by simp), Bool.false_eq_true, if_false]
      rw [ih (m + 1) (fun x hx => h x (by simp [hx]))]

/-- (D-left) no match in the first block -/
theorem dropMatching_append_left (p : List α) (n : Nat) (a b : List (List α × Bytes))
    (h : ∀ e ∈ a, p.isPrefixOf e.1 = false) : dropMatching p n (a ++ b) = a ++ dropMatching p n b := by
  induction a with
  | nil => rfl
  | cons e r ih =>
    cases n with
    | zero => simp [dropMatching_zero]
    | succ m =>
      simp only [List.cons_append, dropMatching, h e (by simp), Bool.false_eq_true, if_false]
      rw [ih (fun x hx => h x (by simp [hx]))]

/-- (D-right) no match in the second block -/
theorem dropMatching_append_right (p : List α) (n : Nat) (a b : List (List α × Bytes))
    (h : ∀ e ∈ b, p.isPrefixOf e.1 = false) : dropMatching p n (a ++ b) = dropMatching p n a ++ b := by
  induction a generalizing n with
  | nil => simp [dropMatching_none p n b h]; cases n <;> rfl
  | cons e r ih =>
    cases n with
    | zero => simp [dropMatching_zero]
    | succ m =>
      simp only [List.cons_append, dropMatching]
      split
      · exact ih m
      · rw [ih (m + 1)]; rfl

theorem keysWithPrefix_all (p : List α) (es : List (List α × Bytes))
    (h : ∀ e ∈ es, p.isPrefixOf e.1 = true) : (keysWithPrefix p es).length = es.length := by
  simp only [keysWithPrefix, List.length_map]
  rw [List.filter_eq_self.mpr h]

theorem keysWithPrefix_none (p : List α) (es : List (List α × Bytes))
    (h : ∀ e ∈ es, p.isPrefixOf e.1 = false) : keysWithPrefix p es = [] := by
  simp only [keysWithPrefix, List.map_eq_nil_iff, List.filter_eq_nil_iff]
  intro e he; simp [h e he]

end OMap

namespace Trie

/-- (D4) a common prefix in front of keys and search prefix -/
theorem dropMatching_map_prefix (q p : Nibs) (n : Nat) (es : List (Nibs × Bytes)) :
    OMap.dropMatching (q ++ p) n (es.map (fun e => (q ++ e.1, e.2))) =
      (OMap.dropMatching p n es).map (fun e => (q ++ e.1, e.2)) := by
  induction es generalizing n with
  | nil => cases n <;> rfl
  | cons e r ih =>
    cases n with
    | zero => rfl
    | succ m =>
      simp only [List.map_cons, OMap.dropMatching, isPrefixOf_append_left]
      split
      · exact ih m
      · rw [List.map_cons, ih (m + 1)]

theorem keysWithPrefix_map_prefix_length (q p : Nibs) (es : List (Nibs × Bytes)) :
    (OMap.keysWithPrefix (q ++ p) (es.map (fun e => (q ++ e.1, e.2)))).length =
      (OMap.keysWithPrefix p es).length := by
  simp only [OMap.keysWithPrefix, List.length_map, List.filter_map]
  congr 1
  apply List.filter_congr
  intro e _
  simp [Function.comp, isPrefixOf_append_left]

/-- one child block changes: `dropMatching` below child `i` -/
theorem dropMatching_childEntries (E : Nib → List (Nibs × Bytes)) (l : List Nib) (i : Nib)
    (rest : Nibs) (n : Nat) (hl : l.Nodup) :
    OMap.dropMatching (i :: rest) n (childEntries E l) =
      childEntries (fun j => if j = i then OMap.dropMatching rest n (E i) else E j) l := by
  induction l with
  | nil => cases n <;> rfl
  | cons j l ih =>
    have hnd := List.nodup_cons.mp hl
    rw [childEntries_cons, childEntries_cons]
    by_cases hji : j = i
    · subst hji
      have htail : ∀ e ∈ childEntries E l, (j :: rest).isPrefixOf e.1 = false := by
        intro e he
        simp only [childEntries, List.mem_flatMap, List.mem_map] at he
        obtain ⟨x, hx, y, _, rfl⟩ := he
        have : x ≠ j := fun e => hnd.1 (e ▸ hx)
        simp only [List.isPrefixOf_cons_cons, Bool.and_eq_false_imp, beq_iff_eq]
        intro e; exact absurd e.symm this
      rw [OMap.dropMatching_append_right _ _ _ _ htail]
      have := dropMatching_map_prefix [j] rest n (E j)
      simp only [List.singleton_append] at this
      rw [this]
      simp only [if_true]
      congr 1
      apply childEntries_congr
      intro x hx
      have : x ≠ j := fun e => hnd.1 (e ▸ hx)
      simp [this]
    · have hhead : ∀ e ∈ (E j).map (fun e => (j :: e.1, e.2)), (i :: rest).isPrefixOf e.1 = false := by
        intro e he
        obtain ⟨y, _, rfl⟩ := List.mem_map.mp he
        simp only [List.isPrefixOf_cons_cons, Bool.and_eq_false_imp, beq_iff_eq]
        intro e; exact absurd e.symm hji
      rw [OMap.dropMatching_append_left _ _ _ _ hhead, ih hnd.2]
      simp [hji]

theorem keysWithPrefix_childEntries_length (E : Nib → List (Nibs × Bytes)) (i : Nib) (rest : Nibs) :
    (OMap.keysWithPrefix (i :: rest) (childEntries E (List.finRange 16))).length =
      (OMap.keysWithPrefix rest (E i)).length := by
  simp only [OMap.keysWithPrefix, List.length_map]
  rw [filter_childEntries E _ i rest (List.nodup_finRange 16)]
  simp [List.mem_finRange]


/-! ### clearPrefixLimitAtNode -/

/-- among the keys with prefix `pre` none is a proper prefix of another -/
def Flat (pre : Nibs) (t : Trie) : Prop :=
  ∀ k1 k2 v1 v2, lookup t k1 = some v1 → lookup t k2 = some v2 →
    pre.isPrefixOf k1 = true → k1.isPrefixOf k2 = true → k1 = k2

theorem noVal_of_flat (t : Trie) (hc : Canon t) (hf : Flat [] t) : NoVal t := by
  induction t with
  | nil => trivial
  | leaf pk v => trivial
  | branch pk v cs ih =>
    have hcb := (canon_branch_iff _ _ _).mp hc
    refine ⟨?_, fun i => ih i (hcb.1 i) ?_⟩
    · cases hv : v with
      | none => rfl
      | some x =>
        exfalso
        have ⟨i, hi⟩ : ∃ i, cs i ≠ nil := by
          rcases hcb.2 with ⟨i, _, _, hi, _⟩ | ⟨_, i, hi⟩ <;> exact ⟨i, hi⟩
        obtain ⟨k, y, hk⟩ := canon_has_key (cs i) (hcb.1 i) hi
        have := hf pk (pk ++ i :: k) x y (by rw [lookup_branch_self, hv])
          (by rw [lookup_branch_child]; exact hk) (by simp) (isPrefixOf_append_self _ _)
        exact self_ne_append_cons pk i k this
    · intro k1 k2 v1 v2 h1 h2 _ h4
      have := hf (pk ++ i :: k1) (pk ++ i :: k2) v1 v2 (by rw [lookup_branch_child]; exact h1)
        (by rw [lookup_branch_child]; exact h2) (by simp)
        (by rw [isPrefixOf_append_left]; simpa using h4)
      have := List.append_cancel_left this
      simpa using this

theorem flat_child {pk : Nibs} {v : Option Bytes} {cs : Nib → Trie} {i : Nib} {rest : Nibs}
    (hf : Flat (pk ++ i :: rest) (branch pk v cs)) : Flat rest (cs i) := by
  intro k1 k2 v1 v2 h1 h2 h3 h4
  have := hf (pk ++ i :: k1) (pk ++ i :: k2) v1 v2 (by rw [lookup_branch_child]; exact h1)
    (by rw [lookup_branch_child]; exact h2)
    (by rw [isPrefixOf_append_left]; simpa using h3)
    (by rw [isPrefixOf_append_left]; simpa using h4)
  have := List.append_cancel_left this
  simpa using this

theorem flat_nil_of_prefix {pre pk : Nibs} {v : Option Bytes} {cs : Nib → Trie}
    (hp : pre.isPrefixOf pk = true) (hf : Flat pre (branch pk v cs)) : Flat [] (branch pk v cs) := by
  intro k1 k2 v1 v2 h1 h2 _ h4
  exact hf k1 k2 v1 v2 h1 h2 (isPrefixOf_trans hp (branch_key_prefix h1)) h4

/-- the specification of `clearPrefixLimitAtNode` on one node -/
def CplSpec (t : Trie) (pre : Nibs) (n : Nat) (r : Trie × Nat × Bool) : Prop :=
  entriesN r.1 = OMap.dropMatching pre n (entriesN t) ∧
  r.2.1 = min n (OMap.keysWithPrefix pre (entriesN t)).length ∧
  r.2.2 = decide ((OMap.keysWithPrefix pre (entriesN t)).length ≤ n) ∧ Canon r.1

theorem isNil_eq_decide_of_canon {t : Trie} (hc : Canon t) :
    t.isNil = decide ((entriesN t).length = 0) := by
  cases t with
  | nil => rfl
  | leaf pk v => rfl
  | branch pk v cs =>
    have : entriesN (branch pk v cs) ≠ [] := fun e => by
      have := canon_entries_nil hc e; cases this
    have h2 : (entriesN (branch pk v cs)).length ≠ 0 := fun e => this (List.eq_nil_of_length_eq_zero e)
    simp [isNil, h2]

/-- result of `deleteNodesLimit` seen as a `clearPrefixLimit` result when every key matches -/
theorem cplSpec_of_dnl {t : Trie} {pre : Nibs} {n : Nat} (hn : 0 < n)
    (hall : ∀ e ∈ entriesN t, pre.isPrefixOf e.1 = true) {r : Trie × Nat}
    (h : DnlSpec t n r) : CplSpec t pre n (r.1, r.2, r.1.isNil) := by
  obtain ⟨h1, h2, h3⟩ := h
  refine ⟨?_, ?_, ?_, h3⟩
  · rw [OMap.dropMatching_all _ _ _ hall]; exact h1
  · rw [OMap.keysWithPrefix_all _ _ hall]; exact h2
  · rw [OMap.keysWithPrefix_all _ _ hall, isNil_eq_decide_of_canon h3, h1]
    simp only [List.length_drop]
    congr 1
    apply propext
    omega

/-- assembling the result of one child into the branch -/
theorem entriesN_branch_child_drop (pk : Nibs) (v : Option Bytes) (cs : Nib → Trie) (i : Nib)
    (rest : Nibs) (n : Nat) (c' : Trie)
    (hc' : entriesN c' = OMap.dropMatching rest n (entriesN (cs i))) :
    entriesN (branch pk v (setChild cs i c')) =
      OMap.dropMatching (pk ++ i :: rest) n (entriesN (branch pk v cs)) := by
  rw [entriesN_branch, entriesN_branch]
  have hkey : (pk ++ i :: rest).isPrefixOf pk = false := by
    cases h : (pk ++ i :: rest).isPrefixOf pk with
    | false => rfl
    | true =>
      obtain ⟨r, hr⟩ := isPrefixOf_iff.mp h
      have := congrArg List.length hr
      simp at this
  have hce := dropMatching_childEntries (fun j => entriesN (cs j)) (List.finRange 16) i rest n
    (List.nodup_finRange 16)
  have hE : childEntries (fun j => entriesN (setChild cs i c' j)) (List.finRange 16) =
      childEntries (fun j => if j = i then OMap.dropMatching rest n (entriesN (cs i))
        else entriesN (cs j)) (List.finRange 16) := by
    apply childEntries_congr
    intro j _
    by_cases hj : j = i
    · subst hj; simp [hc']
    · simp [setChild_other _ _ _ _ hj, hj]
  cases v with
  | none =>
    dsimp only
    rw [List.nil_append, List.nil_append, dropMatching_map_prefix, hce, hE]
  | some x =>
    dsimp only
    rw [OMap.dropMatching_append_left _ _ [(pk, x)] _ (by simp [hkey]),
      dropMatching_map_prefix, hce, hE]


theorem keysWithPrefix_branch_child_length (pk : Nibs) (v : Option Bytes) (cs : Nib → Trie)
    (i : Nib) (rest : Nibs) :
    (OMap.keysWithPrefix (pk ++ i :: rest) (entriesN (branch pk v cs))).length =
      (OMap.keysWithPrefix rest (entriesN (cs i))).length := by
  have hkey : (pk ++ i :: rest).isPrefixOf pk = false := by
    cases h : (pk ++ i :: rest).isPrefixOf pk with
    | false => rfl
    | true =>
      obtain ⟨r, hr⟩ := isPrefixOf_iff.mp h
      have := congrArg List.length hr
      simp at this
  rw [entriesN_branch]
  have h2 := keysWithPrefix_map_prefix_length pk (i :: rest)
    (childEntries (fun j => entriesN (cs j)) (List.finRange 16))
  rw [keysWithPrefix_childEntries_length] at h2
  cases v with
  | none => dsimp only; rw [List.nil_append]; exact h2
  | some x =>
    dsimp only
    simp only [OMap.keysWithPrefix, List.filter_append, List.filter_cons, hkey, Bool.false_eq_true,
      if_false, List.filter_nil, List.nil_append] at h2 ⊢
    exact h2

/-- `clearPrefixLimitAtNode` removes the `n` smallest keys with the prefix, counts them and reports
    whether none is left — when no key with the prefix is a proper prefix of another one -/
theorem clearPrefixLimitAtNode_spec (t : Trie) (pre : Nibs) (n : Nat) (hn : 0 < n)
    (hc : Canon t) (hf : Flat pre t) : CplSpec t pre n (clearPrefixLimitAtNode t pre n) := by
  induction t generalizing pre with
  | nil => simp [CplSpec, clearPrefixLimitAtNode, entriesN, OMap.keysWithPrefix]; cases n <;> rfl
  | leaf pk v =>
    simp only [clearPrefixLimitAtNode]
    cases h : pre.isPrefixOf pk with
    | true =>
      have h1 : 1 ≤ n := hn
      obtain ⟨m, rfl⟩ : ∃ m, n = m + 1 := ⟨n - 1, by omega⟩
      simp [CplSpec, entriesN, OMap.keysWithPrefix, OMap.dropMatching, h]
      cases m <;> rfl
    | false =>
      simp only [Bool.false_eq_true, if_false]
      have hnone : ∀ e ∈ entriesN (leaf pk v), pre.isPrefixOf e.1 = false := by
        intro e he; simp [entriesN] at he; simp [he, h]
      refine ⟨?_, ?_, ?_, trivial⟩
      · rw [OMap.dropMatching_none _ _ _ hnone]
      · rw [OMap.keysWithPrefix_none _ _ hnone]; simp
      · rw [OMap.keysWithPrefix_none _ _ hnone]; simp
  | branch pk v cs ih =>
    have hcs := ((canon_branch_iff _ _ _).mp hc).1
    simp only [clearPrefixLimitAtNode]
    cases hA : pre.isPrefixOf pk with
    | true =>
      simp only [if_true]
      have hall : ∀ e ∈ entriesN (branch pk v cs), pre.isPrefixOf e.1 = true :=
        fun e he => isPrefixOf_trans hA (entriesN_branch_prefix he)
      exact cplSpec_of_dnl hn hall
        (deleteNodesLimit_spec _ n hc (noVal_of_flat _ hc (flat_nil_of_prefix hA hf)))
    | false =>
      simp only [Bool.false_eq_true, if_false]
      -- no key with the prefix: nothing changes
      have hunch : (∀ k', pre.isPrefixOf k' = true → lookup (branch pk v cs) k' = none) →
          CplSpec (branch pk v cs) pre n (branch pk v cs, 0, true) := by
        intro hno
        have hnone : ∀ e ∈ entriesN (branch pk v cs), pre.isPrefixOf e.1 = false := by
          intro e he
          cases hp : pre.isPrefixOf e.1 with
          | false => rfl
          | true =>
            have h1 := OMap.get_of_mem_sorted (sorted_entriesN _) (show (e.1, e.2) ∈ _ from he)
            rw [get_entriesN, hno e.1 hp] at h1; cases h1
        refine ⟨?_, ?_, ?_, hc⟩
        · rw [OMap.dropMatching_none _ _ _ hnone]
        · rw [OMap.keysWithPrefix_none _ _ hnone]; simp
        · rw [OMap.keysWithPrefix_none _ _ hnone]; simp
      -- the prefix continues below child `i`
      have hchild : ∀ (i : Nib) (rest : Nibs) (r : Trie × Nat × Bool), pre = pk ++ i :: rest →
          CplSpec (cs i) rest n r → 0 < r.2.1 →
          CplSpec (branch pk v cs) pre n
            (handleDeletion pk v (setChild cs i r.1) pre, r.2.1, r.2.2) := by
        intro i rest r hpre hr hpos
        subst hpre
        obtain ⟨h1, h2, h3, h4⟩ := hr
        refine ⟨?_, ?_, ?_, ?_⟩
        · rw [← entriesN_branch_child_drop pk v cs i rest n r.1 h1]
          exact entriesN_ext (fun k => lookup_handleDeletion _ _ _ _
            (fun _ => isPrefixOf_append_self pk (i :: rest)) k)
        · rw [keysWithPrefix_branch_child_length]; exact h2
        · rw [keysWithPrefix_branch_child_length]; exact h3
        · exact (canon_handleDeletion pk v _ _ (canon_setChild hcs i h4)
            (canon_branch_after_set hc _ _)).2
      cases hB : (decide (pre.length = pk.length + 1) && pre.dropLast == pk) with
      | true =>
        obtain ⟨i, rfl⟩ := child_slot_prefix hB
        simp only [if_true, drop_length_append]
        cases hnil : (cs i).isNil with
        | true =>
          have hci := (isNil_iff _).mp hnil
          simp only [if_true]
          apply hunch
          intro k' hk'
          obtain ⟨r, hr⟩ := isPrefixOf_iff.mp hk'
          rw [hr, List.append_assoc, List.singleton_append, lookup_branch_child, hci]; rfl
        | false =>
          have hci : cs i ≠ nil := by intro e; rw [e] at hnil; simp [isNil] at hnil
          simp only [Bool.false_eq_true, if_false]
          have hfi : Flat [] (cs i) := flat_child (rest := []) (by simpa using hf)
          have hd := deleteNodesLimit_spec (cs i) n (hcs i) (noVal_of_flat _ (hcs i) hfi)
          have hEi : 0 < (entriesN (cs i)).length :=
            List.length_pos_iff.mpr (fun e => hci (canon_entries_nil (hcs i) e))
          have hpos : 0 < (deleteNodesLimit (cs i) n).2 := by rw [hd.2.1]; omega
          have hne : ¬ (deleteNodesLimit (cs i) n).2 = 0 := by omega
          simp only [hne, if_false]
          have hspec : CplSpec (cs i) [] n ((deleteNodesLimit (cs i) n).1,
              (deleteNodesLimit (cs i) n).2, (deleteNodesLimit (cs i) n).1.isNil) :=
            cplSpec_of_dnl hn (fun _ _ => by simp) hd
          have := hchild i [] _ (by simp) hspec hpos
          simpa using this
      | false =>
        simp only [Bool.false_eq_true, if_false]
        cases hC : (decide (pre.length ≤ pk.length) || decide (lcpLen pk pre < pk.length)) with
        | true =>
          simp only [if_true]
          exact hunch (fun k' hk' => no_key_with_prefix hA hC k' hk')
        | false =>
          obtain ⟨i, rest, rfl⟩ := proper_prefix_of_not hC
          simp only [Bool.false_eq_true, if_false, drop_length_append]
          have hIH := ih i rest (hcs i) (flat_child hf)
          by_cases hz : (clearPrefixLimitAtNode (cs i) rest n).2.1 = 0
          · simp only [hz, if_true]
            -- nothing matched below the child
            have hm : (OMap.keysWithPrefix rest (entriesN (cs i))).length = 0 := by
              have := hIH.2.1; rw [hz] at this; omega
            have hall : (clearPrefixLimitAtNode (cs i) rest n).2.2 = true := by
              rw [hIH.2.2.1, hm]; simp
            rw [hall]
            have hcount := keysWithPrefix_branch_child_length pk v cs i rest
            rw [hm] at hcount
            have hnone : ∀ e ∈ entriesN (branch pk v cs), (pk ++ i :: rest).isPrefixOf e.1 = false := by
              intro e he
              cases hp : (pk ++ i :: rest).isPrefixOf e.1 with
              | false => rfl
              | true =>
                have : e.1 ∈ OMap.keysWithPrefix (pk ++ i :: rest) (entriesN (branch pk v cs)) := by
                  simp only [OMap.keysWithPrefix, List.mem_map, List.mem_filter]
                  exact ⟨e, ⟨he, hp⟩, rfl⟩
                rw [List.eq_nil_of_length_eq_zero hcount] at this
                cases this
            refine ⟨?_, ?_, ?_, hc⟩
            · rw [OMap.dropMatching_none _ _ _ hnone]
            · rw [OMap.keysWithPrefix_none _ _ hnone]; simp
            · rw [OMap.keysWithPrefix_none _ _ hnone]; simp
          · simp only [hz, if_false]
            exact hchild i rest _ rfl hIH (Nat.pos_of_ne_zero hz)

end Trie
open Trie

theorem dropMatching_mapK_agree (q : Nibs) (p : Bytes) (n : Nat) (es : Entries)
    (h : ∀ e ∈ es, q.isPrefixOf (toNibs e.1) = p.isPrefixOf e.1) :
    OMap.dropMatching q n (OMap.mapK toNibs es) = OMap.mapK toNibs (OMap.dropMatching p n es) := by
  induction es generalizing n with
  | nil => cases n <;> rfl
  | cons e r ih =>
    cases n with
    | zero => rfl
    | succ m =>
      simp only [OMap.mapK, List.map_cons, OMap.dropMatching, h e (by simp)] at ih ⊢
      split
      · exact ih m (fun x hx => h x (by simp [hx]))
      · simp [ih (m + 1) (fun x hx => h x (by simp [hx]))]

theorem keysWithPrefix_mapK_agree (q : Nibs) (p : Bytes) (es : Entries)
    (h : ∀ e ∈ es, q.isPrefixOf (toNibs e.1) = p.isPrefixOf e.1) :
    (OMap.keysWithPrefix q (OMap.mapK toNibs es)).length = (OMap.keysWithPrefix p es).length := by
  simp only [OMap.keysWithPrefix, OMap.mapK, List.length_map, List.filter_map]
  congr 1
  apply List.filter_congr
  intro e he
  simp [Function.comp, h e he]

namespace Rep

/-- outside of both regions the keys under the (trimmed) prefix are prefix-free -/
theorem flat_of_regions {t : Trie} {es : Entries} (h : Rep t es) (p : Bytes)
    (hp : trimRegion p es = false) (hnest : nestedRegion p es = false) :
    Flat (trimZero (toNibs p)) t := by
  intro k1 k2 v1 v2 h1 h2 h3 h4
  have mem : ∀ k v, lookup t k = some v → ∃ e ∈ es, toNibs e.1 = k := by
    intro k v hk
    rw [← get_entriesN, h.entries] at hk
    have := OMap.get_some_mem hk
    simp only [OMap.mapK, List.mem_map] at this
    obtain ⟨e, he, heq⟩ := this
    exact ⟨e, he, by simpa using congrArg Prod.fst heq⟩
  obtain ⟨e1, he1, rfl⟩ := mem k1 v1 h1
  obtain ⟨e2, he2, rfl⟩ := mem k2 v2 h2
  rw [trim_agree hp e1 he1] at h3
  rw [isPrefixOf_toNibs] at h4
  have h5 : p.isPrefixOf e2.1 = true := by
    have := List.isPrefixOf_iff_prefix.mp h3
    have := this.trans (List.isPrefixOf_iff_prefix.mp h4)
    exact List.isPrefixOf_iff_prefix.mpr this
  have m1 : e1.1 ∈ OMap.keysWithPrefix p es := by
    simp only [OMap.keysWithPrefix, List.mem_map, List.mem_filter]; exact ⟨e1, ⟨he1, h3⟩, rfl⟩
  have m2 : e2.1 ∈ OMap.keysWithPrefix p es := by
    simp only [OMap.keysWithPrefix, List.mem_map, List.mem_filter]; exact ⟨e2, ⟨he2, h5⟩, rfl⟩
  by_cases heq : e1.1 = e2.1
  · rw [heq]
  · exfalso
    have : nestedRegion p es = true := by
      simp only [nestedRegion, List.any_eq_true, Bool.and_eq_true, Bool.not_eq_true', beq_eq_false_iff_ne]
      exact ⟨e1.1, m1, e2.1, m2, h4, heq⟩
    rw [hnest] at this; cases this

theorem clearPrefixLimit {t : Trie} {es : Entries} (h : Rep t es) (p : Bytes) (n : Nat)
    (hp : trimRegion p es = false) (hnest : nestedRegion p es = false) :
    Rep (Trie.clearPrefixLimit t p n).1 (OMap.clearPrefixLimit p n es).1 ∧
    (Trie.clearPrefixLimit t p n).2 = (OMap.clearPrefixLimit p n es).2 := by
  unfold Trie.clearPrefixLimit OMap.clearPrefixLimit
  by_cases hn : n = 0
  · simp [hn, h]
  · simp only [hn, if_false]
    have hpos : 0 < n := Nat.pos_of_ne_zero hn
    rw [keyLEToNibbles_eq]
    obtain ⟨h1, h2, h3, h4⟩ := clearPrefixLimitAtNode_spec t (trimZero (toNibs p)) n hpos h.canon
      (h.flat_of_regions p hp hnest)
    rw [h.entries] at h1 h2 h3
    rw [dropMatching_mapK_agree _ p n es (trim_agree hp)] at h1
    rw [keysWithPrefix_mapK_agree _ p es (trim_agree hp)] at h2 h3
    refine ⟨⟨?_, h4, h1⟩, ?_⟩
    · -- the spec side stays sorted
      have : ∀ (m : Nat) (l : Entries), OMap.Sorted l → OMap.Sorted (OMap.dropMatching p m l) := by
        intro m l
        induction l generalizing m with
        | nil => intro _; cases m <;> trivial
        | cons e r ih =>
          intro hs
          cases m with
          | zero => exact hs
          | succ k =>
            simp only [OMap.dropMatching]
            split
            · exact ih k hs.2
            · refine ⟨fun x hx => hs.1 x ?_, ih (k + 1) hs.2⟩
              -- dropMatching returns a sublist
              have sub : ∀ (m : Nat) (l : Entries) (x : Bytes × Bytes),
                  x ∈ OMap.dropMatching p m l → x ∈ l := by
                intro m l
                induction l generalizing m with
                | nil => intro x hx; cases m <;> simp [OMap.dropMatching] at hx
                | cons e r ih2 =>
                  intro x hx
                  cases m with
                  | zero => exact hx
                  | succ k =>
                    simp only [OMap.dropMatching] at hx
                    split at hx
                    · exact List.mem_cons_of_mem _ (ih2 k x hx)
                    · rcases List.mem_cons.mp hx with rfl | hx
                      · simp
                      · exact List.mem_cons_of_mem _ (ih2 (k + 1) x hx)
              exact sub _ _ x hx
      exact this n es h.sorted
    · exact Prod.ext h2 h3

end Rep
end Gossamer
