/-
C36, database level: the invariant "every referenced key was written before its referrer", the notion of a
SAFE write (one that keeps the invariant) and of a safe log segment, and the fact that every prefix of a safe
segment replayed on a database satisfying the invariant can be restarted.
-/
import Gossamer.Model.C36
namespace Gossamer.C36

/-- what the property demands of a restart: Service.Start succeeds with a finalised head whose header, body and
    state are readable, the finalised header of round 0 / set 0 is readable, and the current set id, its
    authorities, its activation block and the latest round are present -/
def Good (db : DB) : Prop :=
  ∃ hd r s cur a c lr, restart db = .ok hd r s true true (some cur) (some a) (some c) (some lr)

/-- block `h` is fully stored: header, body and the state trie of the header's state root -/
def HdrOK (db : DB) (h : Nat) : Prop :=
  ∃ hd, db.hdr h = some hd ∧ db.node hd.root = true ∧ db.blb h = true

/-- set id of the highest finalised round (0 when there is none) -/
def setOf (db : DB) : Nat :=
  match db.hrs with
  | some (_, s) => s
  | none => 0

/-- an announced next-epoch datum is not lost: it is still on disk (NewEpochState restores it) or the epoch
    definition of the same or a later epoch has been persisted -/
def NedOK (db : DB) (e h : Nat) : Prop := db.ned e h = true ∨ ∃ e', e ≤ e' ∧ db.einfo e' = true
def NcdOK (db : DB) (e h : Nat) : Prop := db.ncd e h = true ∨ ∃ e', e ≤ e' ∧ db.cinfo e' = true

/-- the database invariant: every reference can be followed -/
structure DBInv (db : DB) : Prop where
  hsh0 : ∃ g, db.hsh 0 = some g
  skipto : db.skipto = true
  hrs : ∃ r s h, db.hrs = some (r, s) ∧ db.fin r s = some h
  fin : ∀ r s h, db.fin r s = some h → HdrOK db h
  fin00 : ∃ h, db.fin 0 0 = some h
  cur : ∃ cs a c, db.curSet = some cs ∧ db.auth cs = some a ∧ db.change cs = some c
  lfr : ∃ r, db.lfr = some r

theorem DBInv.good {db : DB} (h : DBInv db) : Good db := by
  obtain ⟨g, hg⟩ := h.hsh0
  obtain ⟨r, s, hh, hrs, hfin⟩ := h.hrs
  obtain ⟨hd, hhd, hnode, hblb⟩ := h.fin r s hh hfin
  obtain ⟨h0, hf0⟩ := h.fin00
  obtain ⟨hd0, hhd0, _, _⟩ := h.fin 0 0 h0 hf0
  obtain ⟨cs, a, c, hcs, ha, hc⟩ := h.cur
  obtain ⟨lr, hlr⟩ := h.lfr
  refine ⟨hd, r, s, cs, a, c, lr, ?_⟩
  simp [restart, hg, hrs, hfin, hhd, hnode, h.skipto, hblb, hf0, hhd0, hcs, ha, hc, hlr]

/-- a write that keeps the invariant: a header only after its state trie, a finalised-hash key only after the
    block is fully stored, the highest round/set only after its finalised-hash key (and never to a lower set
    id), the current set id only after the set's authorities and activation block -/
def SafeW (db : DB) : W → Prop
  | .hdr hd => db.node hd.root = true
  | .fin _ _ h => HdrOK db h
  | .hrs r s => (∃ h, db.fin r s = some h) ∧ setOf db ≤ s
  | .curSet s => (∃ a, db.auth s = some a) ∧ (∃ c, db.change s = some c)
  | .delNed e _ => ∃ e', e ≤ e' ∧ db.einfo e' = true
  | .delNcd e _ => ∃ e', e ≤ e' ∧ db.cinfo e' = true
  | _ => True

def SafeWs (db : DB) : List W → Prop
  | [] => True
  | w :: ws => SafeW db w ∧ SafeWs (db.write w) ws

def SafeE (db : DB) : Entry → Prop
  | .put w => SafeW db w
  | .batch ws => SafeWs db ws

def SafeSeg (db : DB) : List Entry → Prop
  | [] => True
  | e :: es => SafeE db e ∧ SafeSeg (db.apply e) es

/-- what a safe write / entry / segment preserves -/
structure Keeps (db db' : DB) : Prop where
  node : ∀ x, db.node x = true → db'.node x = true
  hdrok : ∀ h, HdrOK db h → HdrOK db' h
  inv : DBInv db → DBInv db'
  set : setOf db ≤ setOf db'
  nedok : ∀ e h, NedOK db e h → NedOK db' e h
  ncdok : ∀ e h, NcdOK db e h → NcdOK db' e h
  jcp : ∀ h, db.jcp h = true → db'.jcp h = true
  pv : ∀ r s, db.pv r s = true → db'.pv r s = true
  pc : ∀ r s, db.pc r s = true → db'.pc r s = true

theorem Keeps.refl (db : DB) : Keeps db db :=
  ⟨fun _ h => h, fun _ h => h, fun h => h, Nat.le_refl _, fun _ _ h => h, fun _ _ h => h, fun _ h => h,
   fun _ _ h => h, fun _ _ h => h⟩

theorem Keeps.trans {a b c : DB} (h1 : Keeps a b) (h2 : Keeps b c) : Keeps a c :=
  ⟨fun x h => h2.node x (h1.node x h), fun x h => h2.hdrok x (h1.hdrok x h), fun h => h2.inv (h1.inv h),
   Nat.le_trans h1.set h2.set, fun e x h => h2.nedok e x (h1.nedok e x h), fun e x h => h2.ncdok e x (h1.ncdok e x h),
   fun x h => h2.jcp x (h1.jcp x h), fun r s h => h2.pv r s (h1.pv r s h), fun r s h => h2.pc r s (h1.pc r s h)⟩

theorem node_write {db : DB} (w : W) {x : Nat} (h : db.node x = true) : (db.write w).node x = true := by
  cases w <;> simp [DB.write, h]

theorem hdrok_write {db : DB} {w : W} (hs : SafeW db w) {h : Nat} (hk : HdrOK db h) :
    HdrOK (db.write w) h := by
  obtain ⟨hd, h1, h2, h3⟩ := hk
  cases w with
  | hdr x =>
    have hs' : db.node x.root = true := hs
    by_cases hx : h = x.id
    · exact ⟨x, by simp [DB.write, hx], by simpa [DB.write] using hs', by simpa [DB.write] using h3⟩
    · exact ⟨hd, by simp [DB.write, hx, h1], by simpa [DB.write] using h2, by simpa [DB.write] using h3⟩
  | node st => exact ⟨hd, by simpa [DB.write] using h1, by simp [DB.write, h2], by simpa [DB.write] using h3⟩
  | blb i => exact ⟨hd, by simpa [DB.write] using h1, by simpa [DB.write] using h2, by simp [DB.write, h3]⟩
  | _ => exact ⟨hd, by simpa [DB.write] using h1, by simpa [DB.write] using h2, by simpa [DB.write] using h3⟩

theorem setOf_write {db : DB} {w : W} (hs : SafeW db w) : setOf db ≤ setOf (db.write w) := by
  cases w <;> try exact Nat.le_refl _
  case hrs r s => simpa [setOf, DB.write] using hs.2

theorem inv_write {db : DB} {w : W} (hs : SafeW db w) (h : DBInv db) : DBInv (db.write w) := by
  have hfin : ∀ r s x, (db.write w).fin r s = some x → HdrOK (db.write w) x := by
    intro r s x hx
    cases w with
    | fin r' s' y =>
      by_cases hc : r = r' ∧ s = s'
      · have : x = y := by simpa [DB.write, hc] using hx.symm
        subst this
        exact hdrok_write hs hs
      · have : db.fin r s = some x := by simpa [DB.write, hc] using hx
        exact hdrok_write hs (h.fin r s x this)
    | _ => exact hdrok_write hs (h.fin r s x (by simpa [DB.write] using hx))
  obtain ⟨g, hg⟩ := h.hsh0
  obtain ⟨r, s, hh, hrs, hf⟩ := h.hrs
  obtain ⟨h0, hf0⟩ := h.fin00
  obtain ⟨cs, a, c, hcs, ha, hc⟩ := h.cur
  obtain ⟨lr, hlr⟩ := h.lfr
  refine ⟨?_, ?_, ?_, hfin, ?_, ?_, ?_⟩
  · cases w <;> first | exact ⟨g, by simpa [DB.write] using hg⟩ | skip
    case hsh n i => by_cases hn : 0 = n <;> simp [DB.write, hn, hg]
  · cases w <;> simp [DB.write, h.skipto]
  · cases w <;> first | exact ⟨r, s, hh, by simpa [DB.write] using hrs, by simpa [DB.write] using hf⟩ | skip
    case fin r' s' y =>
      by_cases hc : r = r' ∧ s = s'
      · exact ⟨r, s, y, by simpa [DB.write] using hrs, by simp [DB.write, hc]⟩
      · exact ⟨r, s, hh, by simpa [DB.write] using hrs, by simp [DB.write, hc, hf]⟩
    case hrs r' s' =>
      obtain ⟨y, hy⟩ := hs.1
      exact ⟨r', s', y, by simp [DB.write], by simpa [DB.write] using hy⟩
  · cases w <;> first | exact ⟨h0, by simpa [DB.write] using hf0⟩ | skip
    case fin r' s' y =>
      by_cases hc : 0 = r' ∧ 0 = s'
      · obtain ⟨rfl, rfl⟩ := hc
        exact ⟨y, by simp [DB.write]⟩
      · exact ⟨h0, by simp [DB.write, hc, hf0]⟩
  · cases w <;> first | exact ⟨cs, a, c, by simpa [DB.write] using hcs, by simpa [DB.write] using ha,
        by simpa [DB.write] using hc⟩ | skip
    case curSet s' =>
      obtain ⟨⟨a', ha'⟩, ⟨c', hc'⟩⟩ := hs
      exact ⟨s', a', c', by simp [DB.write], by simpa [DB.write] using ha', by simpa [DB.write] using hc'⟩
    case auth s' t =>
      by_cases hx : cs = s'
      · exact ⟨cs, t, c, by simpa [DB.write] using hcs, by simp [DB.write, hx], by simpa [DB.write] using hc⟩
      · exact ⟨cs, a, c, by simpa [DB.write] using hcs, by simp [DB.write, hx, ha], by simpa [DB.write] using hc⟩
    case change s' m =>
      by_cases hx : cs = s'
      · exact ⟨cs, a, m, by simpa [DB.write] using hcs, by simpa [DB.write] using ha, by simp [DB.write, hx]⟩
      · exact ⟨cs, a, c, by simpa [DB.write] using hcs, by simpa [DB.write] using ha, by simp [DB.write, hx, hc]⟩
  · cases w <;> simp [DB.write, hlr]

theorem einfo_write {db : DB} (w : W) {e : Nat} (h : db.einfo e = true) : (db.write w).einfo e = true := by
  cases w <;> simp [DB.write, h]

theorem cinfo_write {db : DB} (w : W) {e : Nat} (h : db.cinfo e = true) : (db.write w).cinfo e = true := by
  cases w <;> simp [DB.write, h]

theorem nedok_write {db : DB} {w : W} (hs : SafeW db w) {e h : Nat} (hk : NedOK db e h) :
    NedOK (db.write w) e h := by
  rcases hk with hk | ⟨e', he, hk⟩
  · cases w with
    | delNed e2 h2 =>
      by_cases hc : e = e2 ∧ h = h2
      · obtain ⟨e', he', hk'⟩ := (hs : ∃ e', e2 ≤ e' ∧ db.einfo e' = true)
        exact Or.inr ⟨e', hc.1 ▸ he', by simpa [DB.write] using hk'⟩
      · exact Or.inl (by simp only [DB.write, hc, if_false, hk])
    | ned e2 h2 => exact Or.inl (by by_cases hc : e = e2 ∧ h = h2 <;> simp [DB.write, hc, hk])
    | _ => exact Or.inl (by simpa [DB.write] using hk)
  · exact Or.inr ⟨e', he, einfo_write w hk⟩

theorem ncdok_write {db : DB} {w : W} (hs : SafeW db w) {e h : Nat} (hk : NcdOK db e h) :
    NcdOK (db.write w) e h := by
  rcases hk with hk | ⟨e', he, hk⟩
  · cases w with
    | delNcd e2 h2 =>
      by_cases hc : e = e2 ∧ h = h2
      · obtain ⟨e', he', hk'⟩ := (hs : ∃ e', e2 ≤ e' ∧ db.cinfo e' = true)
        exact Or.inr ⟨e', hc.1 ▸ he', by simpa [DB.write] using hk'⟩
      · exact Or.inl (by simp only [DB.write, hc, if_false, hk])
    | ncd e2 h2 => exact Or.inl (by by_cases hc : e = e2 ∧ h = h2 <;> simp [DB.write, hc, hk])
    | _ => exact Or.inl (by simpa [DB.write] using hk)
  · exact Or.inr ⟨e', he, cinfo_write w hk⟩

theorem jcp_write {db : DB} (w : W) {h : Nat} (hk : db.jcp h = true) : (db.write w).jcp h = true := by
  cases w <;> simp [DB.write, hk]

theorem pv_write {db : DB} (w : W) {r s : Nat} (hk : db.pv r s = true) : (db.write w).pv r s = true := by
  cases w <;> simp [DB.write, hk]

theorem pc_write {db : DB} (w : W) {r s : Nat} (hk : db.pc r s = true) : (db.write w).pc r s = true := by
  cases w <;> simp [DB.write, hk]

theorem keeps_write {db : DB} {w : W} (hs : SafeW db w) : Keeps db (db.write w) :=
  ⟨fun _ h => node_write w h, fun _ h => hdrok_write hs h, inv_write hs, setOf_write hs,
   fun _ _ h => nedok_write hs h, fun _ _ h => ncdok_write hs h, fun _ h => jcp_write w h,
   fun _ _ h => pv_write w h, fun _ _ h => pc_write w h⟩

theorem keeps_writes : ∀ {ws : List W} {db : DB}, SafeWs db ws → Keeps db (ws.foldl DB.write db)
  | [], db, _ => Keeps.refl db
  | _ :: ws, _, ⟨h1, h2⟩ => (keeps_write h1).trans (keeps_writes (ws := ws) h2)

theorem keeps_apply {db : DB} {e : Entry} (hs : SafeE db e) : Keeps db (db.apply e) := by
  cases e with
  | put w => exact keeps_write hs
  | batch ws => exact keeps_writes hs

theorem keeps_replay : ∀ {l : List Entry} {db : DB}, SafeSeg db l → Keeps db (replay db l)
  | [], db, _ => Keeps.refl db
  | _ :: es, _, ⟨h1, h2⟩ => (keeps_apply h1).trans (keeps_replay (l := es) h2)

theorem replay_append (db : DB) (a b : List Entry) : replay db (a ++ b) = replay (replay db a) b := by
  simp [replay, List.foldl_append]

theorem SafeSeg.append : ∀ {a : List Entry} {db : DB} {b : List Entry},
    SafeSeg db a → SafeSeg (replay db a) b → SafeSeg db (a ++ b)
  | [], _, _, _, h2 => h2
  | _ :: es, _, _, ⟨h1, h1'⟩, h2 => ⟨h1, SafeSeg.append (a := es) h1' h2⟩

theorem SafeSeg.take : ∀ {l : List Entry} {db : DB} (k : Nat), SafeSeg db l → SafeSeg db (l.take k)
  | [], _, _, _ => by simp [SafeSeg]
  | _ :: _, _, 0, _ => by simp [SafeSeg]
  | _ :: es, _, k + 1, ⟨h1, h2⟩ => ⟨h1, SafeSeg.take (l := es) k h2⟩

/-- a batch of `hsh` puts (the batch of handleFinalisedBlock) and a batch of storage nodes are safe -/
theorem safeWs_of_plain : ∀ {ws : List W} (db : DB),
    (∀ w ∈ ws, (∃ n i, w = .hsh n i) ∨ (∃ st, w = .node st)) → SafeWs db ws
  | [], _, _ => trivial
  | w :: ws, db, h => by
    refine ⟨?_, safeWs_of_plain (ws := ws) _ (fun x hx => h x (List.mem_cons_of_mem _ hx))⟩
    rcases h w (List.mem_cons_self ..) with ⟨n, i, rfl⟩ | ⟨st, rfl⟩ <;> trivial

/-- a batch that deletes next-epoch-data keys of an epoch whose (or a later epoch's) definition is persisted -/
theorem safeWs_delNed : ∀ (hs : List Nat) (db : DB) (e e' : Nat), e ≤ e' → db.einfo e' = true →
    SafeWs db (hs.map (W.delNed e))
  | [], _, _, _, _, _ => trivial
  | h :: hs, db, e, e', he, hk =>
    ⟨⟨e', he, hk⟩, safeWs_delNed hs _ e e' he (einfo_write (.delNed e h) hk)⟩

theorem safeWs_delNcd : ∀ (hs : List Nat) (db : DB) (e e' : Nat), e ≤ e' → db.cinfo e' = true →
    SafeWs db (hs.map (W.delNcd e))
  | [], _, _, _, _, _ => trivial
  | h :: hs, db, e, e', he, hk =>
    ⟨⟨e', he, hk⟩, safeWs_delNcd hs _ e e' he (cinfo_write (.delNcd e h) hk)⟩

/-! ### the genesis database -/

theorem base_inv : DBInv base := by
  refine ⟨⟨0, by decide⟩, by decide, ⟨0, 0, 0, by decide, by decide⟩, ?_, ⟨0, by decide⟩,
    ⟨0, 0, 0, by decide, by decide, by decide⟩, ⟨0, by decide⟩⟩
  intro r s h hf
  have hf' : (if r = 0 ∧ s = 0 then some 0 else none) = some h := hf
  by_cases hc : r = 0 ∧ s = 0
  · have : h = 0 := by simpa [hc] using hf'.symm
    subst this
    exact ⟨genesisHdr, by decide, by decide, by decide⟩
  · simp [hc] at hf'

end Gossamer.C36
