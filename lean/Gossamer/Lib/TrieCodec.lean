/-
Trie node codecs of gossamer, transcribed function by function.  Core Lean only, self-contained
(imports only Base.Bytes).  Used by C07; reusable by the trie developments (C01/C02/C04/C05/C06).

  pkg/trie/node/{variants,header,key,decode,encode,branch_encode,hash}.go      → `Variant … decode`
  pkg/trie/triedb/codec/{variants,header,key,decode,node}.go, triedb/node.go   → `T…`
  pkg/scale: only what the codecs use (compact length + byte slice)            → `compactLen`, `scaleBytes`

Reader = the unread rest of a Go `bytes.Reader` (a byte list).  `bytes.Reader.Read(p)`:
EOF iff nothing is left, otherwise copies `min (len p) (remaining)` bytes WITHOUT error (short read,
the rest of `p` keeps its zero bytes).  `strict` selects the behaviour of the reads inside pkg/scale:
`false` = plain `Read` (short reads are zero-filled), `true` = `io.ReadFull` (a short read is an error).
What matters is the read of the DATA of a byte slice: the behaviour of the reads of the compact
length is provably unobservable through `decodeBytes` (`scaleBytes2_int_irrelevant` in
TrieCodecLemmas), so one flag suffices whichever combination the tree has.
Everything outside pkg/scale is fixed by the trie code itself.
-/
import Gossamer.Base.Bytes
namespace Gossamer.TrieCodec

/-- error classes = the sentinel errors of the two packages (`errors.Is`) -/
inductive Err where
  | eof | variantUnknown | keyTooBig | mismatch | value | hashShort | bitmap | child
  | unsupported | emptyChild | other
  deriving DecidableEq, Repr

/-- outcome of a Go call: value, error class, Go panic, or (model only) fuel exhausted -/
inductive Out (α : Type) where
  | ok (a : α)
  | err (e : Err)
  | panic
  | fuel
  deriving Repr

/-! ### variants.go -/

structure Variant where
  bits : UInt8
  mask : UInt8
  deriving DecidableEq, Repr

def leafV : Variant := ⟨0x40, 0xC0⟩
def branchV : Variant := ⟨0x80, 0xC0⟩
def branchValV : Variant := ⟨0xC0, 0xC0⟩
def leafHashedV : Variant := ⟨0x20, 0xE0⟩
def branchHashedV : Variant := ⟨0x10, 0xF0⟩
def emptyV : Variant := ⟨0x00, 0xFF⟩
def compactV : Variant := ⟨0x01, 0xFF⟩

/-- `variantsOrderedByBitMask` -/
def variantTable : List Variant :=
  [leafV, branchV, branchValV, leafHashedV, branchHashedV, emptyV, compactV]

/-- `partialKeyLengthHeaderMask` -/
def Variant.pklMask (v : Variant) : UInt8 := ~~~ v.mask

def maxPartialKeyLength : Nat := 65535
def hashLength : Nat := 32
def childrenCapacity : Nat := 16

/-! ### header.go -/

/-- `decodeHeaderByte`: the table is scanned from the highest index down -/
def decodeHeaderByte (h : UInt8) : Option (Variant × UInt8) :=
  match variantTable.reverse.find? (fun v => h &&& v.mask == v.bits) with
  | some v => some (v, h &&& v.pklMask)
  | none => none

/-- the `for` loop of `decodeHeader`; `uint16` accumulation with the wrap-around test -/
def decodeLenRun (v : Variant) : UInt16 → Bytes → Out (Variant × Nat × Bytes)
  | _, [] => .err .eof
  | acc, b :: r =>
    let acc' := acc + b.toUInt16
    if acc' < acc then .err .keyTooBig
    else if b < 255 then .ok (v, acc'.toNat, r)
    else decodeLenRun v acc' r

/-- `decodeHeader` (identical in both packages) -/
def decodeHeader : Bytes → Out (Variant × Nat × Bytes)
  | [] => .err .eof
  | b :: r =>
    match decodeHeaderByte b with
    | none => .err .variantUnknown
    | some (v, h) =>
      if v.pklMask == emptyV.bits then .ok (v, 0, r)
      else if h < v.pklMask then .ok (v, h.toNat, r)
      else decodeLenRun v h.toUInt16 r

/-- the 255-run loop of `encodeHeader` -/
def lenRun (n : Nat) : Bytes :=
  if n < 255 then [UInt8.ofNat n] else 255 :: lenRun (n - 255)
termination_by n
decreasing_by omega

/-- `encodeHeader` for a partial key of `pkl ≤ 65535` nibbles -/
def encodeHeader (v : Variant) (pkl : Nat) : Bytes :=
  if pkl < v.pklMask.toNat then [v.bits ||| UInt8.ofNat pkl]
  else (v.bits ||| v.pklMask) :: lenRun (pkl - v.pklMask.toNat)

/-- `encodeHeader` including its guard (`panic("partial key length is too big")`) -/
def encodeHeaderChecked (v : Variant) (pkl : Nat) : Out Bytes :=
  if pkl > maxPartialKeyLength then .panic else .ok (encodeHeader v pkl)

/-! ### pkg/trie/codec/nibbles.go -/

def packPairs : Bytes → Bytes
  | a :: b :: rest => (((a <<< 4) &&& 0xf0) ||| (b &&& 0x0f)) :: packPairs rest
  | _ => []

/-- `NibblesToKeyLE` -/
def nibblesToKeyLE (nib : Bytes) : Bytes :=
  if nib.length % 2 = 0 then packPairs nib
  else match nib with
    | [] => []
    | a :: rest => a :: packPairs rest

/-- `KeyLEToNibbles` (its two special cases coincide with the general rule) -/
def keyLEToNibbles (k : Bytes) : Bytes := k.flatMap fun b => [b / 16, b % 16]

/-! ### readers -/

/-- `bytes.Reader.Read(make([]byte, n))`, `n > 0`: `none` = `io.EOF`; otherwise the bytes read
    (possibly fewer than `n`) and the rest -/
def readN (n : Nat) (r : Bytes) : Option (Bytes × Bytes) :=
  match r with
  | [] => none
  | _ => some (r.take n, r.drop n)

/-- a read of `n > 0` bytes inside pkg/scale into a fresh zeroed buffer: the returned buffer always
    has `n` bytes.  `strict = false`: `Read` (short read zero-filled); `true`: `io.ReadFull`. -/
def readBuf (strict : Bool) (n : Nat) (r : Bytes) : Option (Bytes × Bytes) :=
  match r with
  | [] => none
  | _ =>
    if strict && r.length < n then none
    else some (r.take n ++ List.replicate (n - r.length) 0, r.drop n)

/-! ### pkg/scale: compact length and byte slices -/

/-- `decodeState.decodeUint` for a destination of type `uint` (64 bit) -/
def compactLen (strict : Bool) : Bytes → Option (Nat × Bytes)
  | [] => none
  | p :: r1 =>
    let pn := p.toNat
    if pn % 4 = 0 then some (pn / 4, r1)
    else if pn % 4 = 1 then
      match r1 with
      | [] => none
      | b :: r2 =>
        let v := (pn + 256 * b.toNat) / 4
        if v ≤ 63 ∨ v > 32767 then none else some (v, r2)
    else if pn % 4 = 2 then
      match readBuf strict 3 r1 with
      | none => none
      | some (buf, r2) =>
        let v := natOfLE (p :: buf) / 4
        if v ≤ 16383 ∨ v > 1073741823 then none else some (v, r2)
    else
      let byteLen := pn / 4 + 4
      match readBuf strict byteLen r1 with
      | none => none
      | some (buf, r2) =>
        if byteLen = 4 then
          let v := natOfLE buf
          if v ≤ 1073741823 then none else some (v, r2)
        else if byteLen = 8 then
          let v := natOfLE buf
          if v ≤ 72057594037927935 then none else some (v, r2)
        else none

/-- `decodeState.decodeBytes`: `none` = any error -/
def scaleBytes (strict : Bool) (r : Bytes) : Option (Bytes × Bytes) :=
  match compactLen strict r with
  | none => none
  | some (len, r1) =>
    if len > 4294967295 then none
    else if len = 0 then some ([], r1)
    else readBuf strict len r1

/-- `decodeBytes` with separate behaviours for the reads of the compact length (`si`) and of the
    data (`sd`) -/
def scaleBytes2 (si sd : Bool) (r : Bytes) : Option (Bytes × Bytes) :=
  match compactLen si r with
  | none => none
  | some (len, r1) =>
    if len > 4294967295 then none
    else if len = 0 then some ([], r1)
    else readBuf sd len r1

/-- `encodeState.encodeUint` -/
def compactEnc (n : Nat) : Bytes :=
  if n < 64 then [UInt8.ofNat (n * 4)]
  else if n < 16384 then leBytes 2 (n * 4 + 1)
  else if n < 1073741824 then leBytes 4 (n * 4 + 2)
  else
    let numBytes := (leMin n).length
    UInt8.ofNat ((numBytes - 4) * 4 + 3) :: leBytes numBytes n

/-- `encodeState.encodeBytes` -/
def scaleEncBytes (b : Bytes) : Bytes := compactEnc b.length ++ b

/-! ### pkg/trie/node: nodes -/

/-- A `*node.Node` as far as the codec is concerned.  `empty` = the nil pointer.
    `stub mv` = a node of which only the cached Merkle value is known (what `decodeBranch` creates for
    a hashed child; for `Encode` a clean child with `MerkleValue` set).
    `hashed` is `MustBeHashed` on the way in and `IsHashedValue` on the way out. -/
inductive Node where
  | empty
  | stub (mv : Bytes)
  | leaf (pk : Bytes) (value : Option Bytes) (hashed : Bool)
  | branch (pk : Bytes) (value : Option Bytes) (hashed : Bool) (kids : List Node)
  deriving Repr

instance : Inhabited Node := ⟨.empty⟩

def Node.isEmpty : Node → Bool
  | .empty => true
  | _ => false

/-! ### key.go, decode.go -/

/-- `decodeKey` -/
def decodeKey (pkl : Nat) (r : Bytes) : Out (Bytes × Bytes) :=
  if pkl = 0 then .ok ([], r)
  else
    let n := pkl / 2 + pkl % 2
    match readN n r with
    | none => .err .eof
    | some (got, r') =>
      if got.length ≠ n then .err .mismatch
      else
        let nib := keyLEToNibbles got
        -- the slice expression `[partialKeyLength%2:]`
        if pkl % 2 > nib.length then .panic else .ok (nib.drop (pkl % 2), r')

/-- `decodeHashedValue` (a direct `reader.Read` of 32 bytes) -/
def decodeHashedValue (r : Bytes) : Out (Bytes × Bytes) :=
  match readN hashLength r with
  | none => .err .value
  | some (got, r') => if got.length < hashLength then .err .hashShort else .ok (got, r')

/-- `decodeLeaf` -/
def decodeLeaf (strict : Bool) (v : Variant) (pkl : Nat) (r : Bytes) : Out Node :=
  match decodeKey pkl r with
  | .err e => .err e
  | .panic => .panic
  | .fuel => .fuel
  | .ok (pk, r1) =>
    if v = leafHashedV then
      match decodeHashedValue r1 with
      | .ok (h, _) => .ok (.leaf pk (some h) true)
      | .err e => .err e
      | .panic => .panic
      | .fuel => .fuel
    else
      match scaleBytes strict r1 with
      | none => .err .value
      | some (val, _) => .ok (.leaf pk (some val) false)

def testBit (b : UInt8) (i : Nat) : Bool := (b >>> UInt8.ofNat i) &&& 1 == 1

/-- `(childrenBitmap[i/8]>>(i%8))&1 == 1` for `i = 0..15` over the two-byte buffer -/
def bitmapBits (b0 b1 : UInt8) : List Bool :=
  (List.range 8).map (testBit b0) ++ (List.range 8).map (testBit b1)

/-- the children loop of `decodeBranch`; `dec` = `Decode` on an inlined child -/
def decodeKids (strict : Bool) (dec : Bytes → Out Node) : List Bool → Bytes → Out (List Node)
  | [], _ => .ok []
  | false :: bits, r =>
    match decodeKids strict dec bits r with
    | .ok cs => .ok (.empty :: cs)
    | o => o
  | true :: bits, r =>
    match scaleBytes strict r with
    | none => .err .child
    | some (hash, r') =>
      let c : Out Node :=
        if hash.length < hashLength then
          match dec hash with
          | .ok .empty => .err .emptyChild
          | o => o
        else .ok (.stub hash)
      match c with
      | .ok cn =>
        match decodeKids strict dec bits r' with
        | .ok cs => .ok (cn :: cs)
        | o => o
      | .err e => .err e
      | .panic => .panic
      | .fuel => .fuel

/-- `decodeBranch` -/
def decodeBranch (strict : Bool) (dec : Bytes → Out Node) (v : Variant) (pkl : Nat) (r : Bytes) :
    Out Node :=
  match decodeKey pkl r with
  | .err e => .err e
  | .panic => .panic
  | .fuel => .fuel
  | .ok (pk, r1) =>
    match r1 with
    | [] => .err .bitmap
    | b0 :: r1' =>
      -- `reader.Read(childrenBitmap)`: a one-byte short read leaves the second byte zero
      let b1 := r1'.headD 0
      let r2 := r1'.drop 1
      let bits := bitmapBits b0 b1
      if v = branchValV then
        match scaleBytes strict r2 with
        | none => .err .value
        | some (val, r3) =>
          match decodeKids strict dec bits r3 with
          | .ok cs => .ok (.branch pk (some val) false cs)
          | .err e => .err e
          | .panic => .panic
          | .fuel => .fuel
      else if v = branchHashedV then
        match decodeHashedValue r2 with
        | .ok (h, r3) =>
          match decodeKids strict dec bits r3 with
          | .ok cs => .ok (.branch pk (some h) true cs)
          | .err e => .err e
          | .panic => .panic
          | .fuel => .fuel
        | .err e => .err e
        | .panic => .panic
        | .fuel => .fuel
      else
        match decodeKids strict dec bits r2 with
        | .ok cs => .ok (.branch pk none false cs)
        | .err e => .err e
        | .panic => .panic
        | .fuel => .fuel

/-- `Decode`, with fuel for the recursion into inlined children -/
def decodeF (strict : Bool) : Nat → Bytes → Out Node
  | 0, _ => .fuel
  | f + 1, bs =>
    match decodeHeader bs with
    | .err e => .err e
    | .panic => .panic
    | .fuel => .fuel
    | .ok (v, pkl, r) =>
      if v = emptyV then .ok .empty
      else if v = leafV ∨ v = leafHashedV then decodeLeaf strict v pkl r
      else if v = branchV ∨ v = branchValV ∨ v = branchHashedV then
        decodeBranch strict (decodeF strict f) v pkl r
      else .err .unsupported

/-- `node.Decode(bytes.NewReader(bs))` -/
def decode (strict : Bool) (bs : Bytes) : Out Node := decodeF strict (bs.length + 1) bs

/-- `Descendants` of a decoded node -/
def descendants : Node → Nat
  | .branch _ _ _ kids => descKids kids
  | _ => 0
where
  descKids : List Node → Nat
    | [] => 0
    | .empty :: cs => descKids cs
    | c :: cs => 1 + descendants c + descKids cs

/-! ### encode.go, branch_encode.go, hash.go -/

/-- least significant bit first -/
def bitmapNat : List Bool → Nat
  | [] => 0
  | b :: bs => (if b then 1 else 0) + 2 * bitmapNat bs

/-- `common.Uint16ToBytes(n.ChildrenBitmap())` -/
def bitmapBytes (present : List Bool) : Bytes :=
  let n := bitmapNat present % 65536
  [UInt8.ofNat (n % 256), UInt8.ofNat (n / 256)]

def valueEnc (H : Bytes → Bytes) (v : Option Bytes) (hashed : Bool) : Bytes :=
  match v with
  | none => []
  | some x => if hashed then H x else scaleEncBytes x

def leafVariantOf (hashed : Bool) : Variant := if hashed then leafHashedV else leafV

def branchVariantOf (v : Option Bytes) (hashed : Bool) : Variant :=
  match v with
  | none => branchV
  | some _ => if hashed then branchHashedV else branchValV

/-- `ChildrenBitmap`: which slots are non-nil -/
def presentKids : List Node → List Bool
  | [] => []
  | c :: cs => (!c.isEmpty) :: presentKids cs

/-- `MerkleValue(encoding)` for a non-root node -/
def merkleValue (H : Bytes → Bytes) (enc : Bytes) : Bytes := if enc.length < 32 then enc else H enc

mutual
/-- `Node.Encode` (`H` = blake2b-256) -/
def encode (H : Bytes → Bytes) : Node → Bytes
  | .empty => [emptyV.bits]
  | .stub _ => encodeHeader leafV 0
  | .leaf pk v hashed =>
    encodeHeader (leafVariantOf hashed) pk.length ++ nibblesToKeyLE pk ++ valueEnc H v hashed
  | .branch pk v hashed kids =>
    encodeHeader (branchVariantOf v hashed) pk.length ++ nibblesToKeyLE pk
      ++ bitmapBytes (presentKids kids) ++ valueEnc H v hashed ++ encodeKids H kids
/-- `encodeChildrenOpportunisticParallel` (children in index order); per child `encodeChild` =
    SCALE bytes of `CalculateMerkleValue` (the cached value for a stub) -/
def encodeKids (H : Bytes → Bytes) : List Node → Bytes
  | [] => []
  | c :: cs =>
    (match c with
     | .empty => []
     | .stub mv => scaleEncBytes mv
     | _ => scaleEncBytes (merkleValue H (encode H c))) ++ encodeKids H cs
end

/-- the longest partial key in the node (root and inlined descendants) -/
def maxPk : Node → Nat
  | .leaf pk _ _ => pk.length
  | .branch pk _ _ kids => max pk.length (maxPkKids kids)
  | _ => 0
where
  maxPkKids : List Node → Nat
    | [] => 0
    | c :: cs => max (maxPk c) (maxPkKids cs)

/-- `Encode` including the guard of `encodeHeader` -/
def encodeChecked (H : Bytes → Bytes) (n : Node) : Out Bytes :=
  if maxPk n > maxPartialKeyLength then .panic else .ok (encode H n)

/-! ### pkg/trie/triedb/codec -/

inductive TValue where
  | inline (b : Bytes)
  | hashed (h : Bytes)
  deriving Repr, DecidableEq

inductive TChild where
  | none
  | inline (b : Bytes)
  | hashed (h : Bytes)
  deriving Repr, DecidableEq

/-- `codec.EncodedNode`; the partial key is `nibbles.Nibbles{data, offset}` -/
inductive TNode where
  | empty
  | leaf (data : Bytes) (offset : Nat) (v : TValue)
  | branch (data : Bytes) (offset : Nat) (v : Option TValue) (kids : List TChild)
  deriving Repr, DecidableEq

/-- `scale.Unmarshal(b, &h)` for `hash.H256`: 32 single-byte reads.  `quirk = true` is the code as it
    is (`H256.UnmarshalSCALE` leaves the destination at its zero value, the empty string, when the
    array is all zero); `quirk = false` is what the property demands (the 32 bytes). -/
def unmarshalH256 (quirk : Bool) (b : Bytes) : Option Bytes :=
  if b.length < 32 then none
  else
    let a := b.take 32
    some (if quirk && a.all (· == 0) then [] else a)

/-- codec `decodeKey` -/
def tdecodeKey (pkl : Nat) (r : Bytes) : Out (Bytes × Nat × Bytes) :=
  if pkl = 0 then .ok ([], 0, r)
  else
    let n := pkl / 2 + pkl % 2
    match readN n r with
    | none => .err .eof
    | some (got, r') =>
      if got.length ≠ n then .err .mismatch else .ok (got, pkl % 2, r')

/-- codec `decodeHashedValue` -/
def tdecodeHashedValue (quirk : Bool) (r : Bytes) : Out (Bytes × Bytes) :=
  match readN 32 r with
  | none => .err .value
  | some (got, r') =>
    if got.length < 32 then .err .hashShort
    else match unmarshalH256 quirk got with
      | none => .err .other
      | some h => .ok (h, r')

/-- codec `decodeLeaf` -/
def tdecodeLeaf (quirk strict : Bool) (v : Variant) (data : Bytes) (off : Nat) (r : Bytes) : Out TNode :=
  if v = leafHashedV then
    match tdecodeHashedValue quirk r with
    | .ok (h, _) => .ok (.leaf data off (.hashed h))
    | .err e => .err e
    | .panic => .panic
    | .fuel => .fuel
  else
    match scaleBytes strict r with
    | none => .err .value
    | some (val, _) => .ok (.leaf data off (.inline val))

/-- the children loop of codec `decodeBranch` -/
def tdecodeKids (quirk strict : Bool) : List Bool → Bytes → Out (List TChild)
  | [], _ => .ok []
  | false :: bits, r =>
    match tdecodeKids quirk strict bits r with
    | .ok cs => .ok (.none :: cs)
    | o => o
  | true :: bits, r =>
    match scaleBytes strict r with
    | none => .err .child
    | some (hash, r') =>
      if hash.length < 32 then
        match tdecodeKids quirk strict bits r' with
        | .ok cs => .ok (.inline hash :: cs)
        | o => o
      else
        match unmarshalH256 quirk hash with
        | none => .panic
        | some h =>
          match tdecodeKids quirk strict bits r' with
          | .ok cs => .ok (.hashed h :: cs)
          | o => o

/-- codec `decodeBranch` (the bitmap is read with `binary.Read` = `io.ReadFull`) -/
def tdecodeBranch (quirk strict : Bool) (v : Variant) (data : Bytes) (off : Nat) (r : Bytes) : Out TNode :=
  match r with
  | b0 :: b1 :: r2 =>
    let bits := bitmapBits b0 b1
    if v = branchValV then
      match scaleBytes strict r2 with
      | none => .err .value
      | some (val, r3) =>
        match tdecodeKids quirk strict bits r3 with
        | .ok cs => .ok (.branch data off (some (.inline val)) cs)
        | .err e => .err e
        | .panic => .panic
        | .fuel => .fuel
    else if v = branchHashedV then
      match tdecodeHashedValue quirk r2 with
      | .ok (h, r3) =>
        match tdecodeKids quirk strict bits r3 with
        | .ok cs => .ok (.branch data off (some (.hashed h)) cs)
        | .err e => .err e
        | .panic => .panic
        | .fuel => .fuel
      | .err e => .err e
      | .panic => .panic
      | .fuel => .fuel
    else
      match tdecodeKids quirk strict bits r2 with
      | .ok cs => .ok (.branch data off none cs)
      | .err e => .err e
      | .panic => .panic
      | .fuel => .fuel
  | _ => .err .bitmap

/-- `codec.Decode[hash.H256]` (`quirk`: see `unmarshalH256`) -/
def tdecodeG (quirk strict : Bool) (bs : Bytes) : Out TNode :=
  match decodeHeader bs with
  | .err e => .err e
  | .panic => .panic
  | .fuel => .fuel
  | .ok (v, pkl, r) =>
    if v = emptyV then .ok .empty
    else
      match tdecodeKey pkl r with
      | .err e => .err e
      | .panic => .panic
      | .fuel => .fuel
      | .ok (data, off, r1) =>
        if v = leafV ∨ v = leafHashedV then tdecodeLeaf quirk strict v data off r1
        else if v = branchV ∨ v = branchValV ∨ v = branchHashedV then tdecodeBranch quirk strict v data off r1
        else .err .unsupported

/-- `codec.Decode[hash.H256]` as it is -/
def tdecode (strict : Bool) (bs : Bytes) : Out TNode := tdecodeG true strict bs

/-- `EncodedValue.Write` -/
def tvalueEnc : TValue → Bytes
  | .inline b => scaleEncBytes b
  | .hashed h => h

def tleafVariant : TValue → Variant
  | .inline _ => leafV
  | .hashed _ => leafHashedV

def tbranchVariant : Option TValue → Variant
  | none => branchV
  | some (.inline _) => branchValV
  | some (.hashed _) => branchHashedV

/-- `codec.EncodeHeader` (header, then the packed key bytes as given) -/
def tencodeHeader (v : Variant) (key : Bytes) (nNibbles : Nat) : Bytes :=
  encodeHeader v nNibbles ++ key

/-- `triedb.NewEncodedLeaf` -/
def tencodeLeaf (key : Bytes) (nNibbles : Nat) (v : TValue) : Bytes :=
  tencodeHeader (tleafVariant v) key nNibbles ++ tvalueEnc v

def TChild.isNone : TChild → Bool
  | .none => true
  | _ => false

def tchildEnc : TChild → Bytes
  | .none => []
  | .inline b => scaleEncBytes b
  | .hashed h => scaleEncBytes h

/-- `triedb.NewEncodedBranch` -/
def tencodeBranch (key : Bytes) (nNibbles : Nat) (kids : List TChild) (v : Option TValue) : Bytes :=
  tencodeHeader (tbranchVariant v) key nNibbles
    ++ bitmapBytes (kids.map (fun c => !c.isNone))
    ++ (match v with | none => [] | some x => tvalueEnc x)
    ++ kids.flatMap tchildEnc

/-- encode of a `TNode` whose key is held as packed bytes with `offset = nNibbles % 2` -/
def tencode : TNode → Bytes
  | .empty => [0]
  | .leaf data off v => tencodeLeaf data (2 * data.length - off) v
  | .branch data off v kids => tencodeBranch data (2 * data.length - off) kids v

end Gossamer.TrieCodec
