/-
Semantics of the Merkle value caches of the heap model, without fuel:
`Val hp a m`  — `CalculateMerkleValue` on the node at `a` yields `m` (reading the caches of `hp`),
`RVal hp a m` — `CalculateRootMerkleValue` yields `m`,
and the relation `TrP P hp hp'`: on the cells of a region `P` that is closed under child pointers,
`hp'` differs from `hp` only by transparent cache writes (a Merkle value that equals what would be
computed anyway, `Dirty` kept or cleared).  Such writes change neither `Val` nor `RVal` of the
cells of `P` — whatever happens outside `P`.
-/
import Gossamer.Lib.TrieHeapLemmas
namespace Gossamer
namespace TrieHeap

/-- concatenated SCALE encodings of the children's Merkle values -/
def kidsBytes (ks : Nib → Option Nat) (ms : Nib → Bytes) : Bytes :=
  (List.finRange 16).flatMap (fun i => if (ks i).isSome then TrieCodec.scaleEncBytes (ms i) else [])

theorem kidsBytes_congr (ks : Nib → Option Nat) (ms ms' : Nib → Bytes)
    (h : ∀ i, (ks i).isSome → ms i = ms' i) : kidsBytes ks ms = kidsBytes ks ms' := by
  unfold kidsBytes
  congr 1
  funext i
  by_cases hi : (ks i).isSome
  · simp [hi, h i hi]
  · simp [hi]

/-- `CalculateMerkleValue` as a relation -/
inductive Val (H : Bytes → Bytes) (hp : Heap) : Nat → Bytes → Prop where
  | cached {a : Nat} {m : Bytes} : (hp.get a).dirty = false → (hp.get a).mv = some m → Val H hp a m
  | comp {a : Nat} (ms : Nib → Bytes) : ((hp.get a).dirty = true ∨ (hp.get a).mv = none) →
      (∀ i c, (hp.get a).encKids i = some c → Val H hp c (ms i)) →
      Val H hp a (merkleValue H (encodeHead H (hp.get a) ++ kidsBytes (hp.get a).encKids ms))

/-- the encoding of the node at `a` (children through their cached / computed Merkle values) -/
def Enc (H : Bytes → Bytes) (hp : Heap) (a : Nat) (e : Bytes) : Prop :=
  ∃ ms : Nib → Bytes, (∀ i c, (hp.get a).encKids i = some c → Val H hp c (ms i)) ∧
    e = encodeHead H (hp.get a) ++ kidsBytes (hp.get a).encKids ms

/-- `CalculateRootMerkleValue` as a relation -/
def RVal (H : Bytes → Bytes) (hp : Heap) (a : Nat) (m : Bytes) : Prop :=
  (((hp.get a).dirty = false ∧ ((hp.get a).mv.getD []).length = 32) ∧ (hp.get a).mv = some m) ∨
  (¬ ((hp.get a).dirty = false ∧ ((hp.get a).mv.getD []).length = 32) ∧ ∃ e, Enc H hp a e ∧ m = H e)

theorem Val.functional {H : Bytes → Bytes} {hp : Heap} {a : Nat} {m m' : Bytes}
    (h : Val H hp a m) (h' : Val H hp a m') : m = m' := by
  induction h generalizing m' with
  | cached hd hm =>
    cases h' with
    | cached _ hm' => rw [hm] at hm'; exact Option.some.inj hm'
    | comp ms hc _ => rcases hc with hc | hc <;> simp_all
  | @comp a ms hc _ ih =>
    cases h' with
    | cached hd hm => rcases hc with hc | hc <;> simp_all
    | comp ms' _ hk' =>
      have : kidsBytes (hp.get a).encKids ms = kidsBytes (hp.get a).encKids ms' := by
        apply kidsBytes_congr
        intro i hi
        obtain ⟨c, hcc⟩ := Option.isSome_iff_exists.mp hi
        exact ih i c hcc (hk' i c hcc)
      rw [this]

theorem Enc.functional {H : Bytes → Bytes} {hp : Heap} {a : Nat} {e e' : Bytes}
    (h : Enc H hp a e) (h' : Enc H hp a e') : e = e' := by
  obtain ⟨ms, hk, rfl⟩ := h
  obtain ⟨ms', hk', rfl⟩ := h'
  congr 1
  apply kidsBytes_congr
  intro i hi
  obtain ⟨c, hcc⟩ := Option.isSome_iff_exists.mp hi
  exact (hk i c hcc).functional (hk' i c hcc)

theorem RVal.functional {H : Bytes → Bytes} {hp : Heap} {a : Nat} {m m' : Bytes}
    (h : RVal H hp a m) (h' : RVal H hp a m') : m = m' := by
  rcases h with ⟨hc, hm⟩ | ⟨hc, e, he, rfl⟩ <;> rcases h' with ⟨hc', hm'⟩ | ⟨hc', e', he', rfl⟩
  · rw [hm] at hm'; exact Option.some.inj hm'
  · exact absurd hc hc'
  · exact absurd hc' hc
  · rw [he.functional he']

theorem encodeHead_strip (H : Bytes → Bytes) {n n' : HNode} (h : n'.strip = n.strip) :
    encodeHead H n' = encodeHead H n := by
  unfold encodeHead
  rw [strip_isBranch h, strip_mbh h, strip_pk h, strip_val h, strip_kids h]

theorem encKids_strip {n n' : HNode} (h : n'.strip = n.strip) : n'.encKids = n.encKids := by
  unfold HNode.encKids
  rw [strip_isBranch h, strip_kids h]

theorem encKids_sub (n : HNode) (i : Nib) (c : Nat) (h : n.encKids i = some c) : n.kids i = some c := by
  unfold HNode.encKids at h
  split at h
  · exact h
  · simp [noKids] at h

/-- `P` is closed under the child pointers of `hp` -/
def Closed (P : Nat → Prop) (hp : Heap) : Prop :=
  ∀ a, P a → ∀ i c, (hp.get a).kids i = some c → P c

/-- transparent cache writes on the cells of `P` -/
structure TrP (H : Bytes → Bytes) (P : Nat → Prop) (hp hp' : Heap) : Prop where
  cell : ∀ a, P a → (hp'.get a).strip = (hp.get a).strip ∧
    (hp'.get a = hp.get a ∨
      ∃ m, (hp'.get a).mv = some m ∧
        ((hp'.get a).dirty = (hp.get a).dirty ∨ (hp'.get a).dirty = false) ∧ Val H hp a m)

theorem TrP.refl (H : Bytes → Bytes) (P : Nat → Prop) (hp : Heap) : TrP H P hp hp :=
  ⟨fun _ _ => ⟨rfl, Or.inl rfl⟩⟩

theorem TrP.closed {H : Bytes → Bytes} {P : Nat → Prop} {hp hp' : Heap} (t : TrP H P hp hp')
    (hc : Closed P hp) : Closed P hp' := by
  intro a ha i c hk
  rw [strip_kids (t.cell a ha).1] at hk
  exact hc a ha i c hk

theorem TrP.mono {H : Bytes → Bytes} {P Q : Nat → Prop} {hp hp' : Heap} (t : TrP H Q hp hp')
    (h : ∀ a, P a → Q a) : TrP H P hp hp' :=
  ⟨fun a ha => t.cell a (h a ha)⟩

theorem TrP.val_fwd {H : Bytes → Bytes} {P : Nat → Prop} {hp hp' : Heap} (t : TrP H P hp hp')
    (hc : Closed P hp) {a : Nat} {m : Bytes} (h : Val H hp a m) (ha : P a) : Val H hp' a m := by
  induction h with
  | @cached a m hd hm =>
    obtain ⟨_, hcell⟩ := t.cell a ha
    rcases hcell with he | ⟨m', hm', hd', hv⟩
    · exact Val.cached (by rw [he]; exact hd) (by rw [he]; exact hm)
    · have : m' = m := hv.functional (Val.cached hd hm)
      subst this
      refine Val.cached ?_ hm'
      rcases hd' with h1 | h1
      · rw [h1]; exact hd
      · exact h1
  | @comp a ms hcnd hk ih =>
    obtain ⟨hs, hcell⟩ := t.cell a ha
    have hkids : ∀ i c, (hp'.get a).encKids i = some c → Val H hp' c (ms i) := by
      intro i c hic
      rw [encKids_strip hs] at hic
      exact ih i c hic (hc a ha i c (encKids_sub _ i c hic))
    have hval : Val H hp a (merkleValue H (encodeHead H (hp.get a) ++ kidsBytes (hp.get a).encKids ms)) :=
      Val.comp ms hcnd hk
    rcases hcell with he | ⟨m', hm', hd', hv⟩
    · have := Val.comp (H := H) (hp := hp') (a := a) ms (by rw [he]; exact hcnd) hkids
      rw [he] at this
      exact this
    · have hmm : m' = _ := hv.functional hval
      by_cases hdd : (hp'.get a).dirty = false
      · rw [← hmm]; exact Val.cached hdd hm'
      · have hdt : (hp'.get a).dirty = true := by simpa using hdd
        have := Val.comp (H := H) (hp := hp') (a := a) ms (Or.inl hdt) hkids
        rw [encodeHead_strip H hs, encKids_strip hs] at this
        exact this

theorem TrP.val_bwd {H : Bytes → Bytes} {P : Nat → Prop} {hp hp' : Heap} (t : TrP H P hp hp')
    (hc : Closed P hp) {a : Nat} {m : Bytes} (h : Val H hp' a m) (ha : P a) : Val H hp a m := by
  induction h with
  | @cached a m hd hm =>
    obtain ⟨_, hcell⟩ := t.cell a ha
    rcases hcell with he | ⟨m', hm', _, hv⟩
    · exact Val.cached (by rw [← he]; exact hd) (by rw [← he]; exact hm)
    · rw [hm] at hm'
      have : m = m' := Option.some.inj hm'
      rw [this]; exact hv
  | @comp a ms hcnd hk ih =>
    obtain ⟨hs, hcell⟩ := t.cell a ha
    have hkids : ∀ i c, (hp.get a).encKids i = some c → Val H hp c (ms i) := by
      intro i c hic
      have hic' : (hp'.get a).encKids i = some c := by rw [encKids_strip hs]; exact hic
      exact ih i c hic' (hc a ha i c (encKids_sub _ i c hic))
    rcases hcell with he | ⟨m', hm', hd', hv⟩
    · have := Val.comp (H := H) (hp := hp) (a := a) ms (by rw [← he]; exact hcnd) hkids
      rw [← he] at this
      exact this
    · have hdt : (hp'.get a).dirty = true := by
        rcases hcnd with h1 | h1
        · exact h1
        · rw [hm'] at h1; cases h1
      have hd0 : (hp.get a).dirty = true := by
        rcases hd' with h1 | h1
        · rw [← h1]; exact hdt
        · rw [hdt] at h1; cases h1
      have := Val.comp (H := H) (hp := hp) (a := a) ms (Or.inl hd0) hkids
      rw [← encodeHead_strip H hs, ← encKids_strip hs] at this
      exact this

theorem TrP.val_iff {H : Bytes → Bytes} {P : Nat → Prop} {hp hp' : Heap} (t : TrP H P hp hp')
    (hc : Closed P hp) {a : Nat} (ha : P a) (m : Bytes) : Val H hp a m ↔ Val H hp' a m :=
  ⟨fun h => t.val_fwd hc h ha, fun h => t.val_bwd hc h ha⟩

theorem TrP.trans {H : Bytes → Bytes} {P : Nat → Prop} {hp hp1 hp2 : Heap} (t1 : TrP H P hp hp1)
    (t2 : TrP H P hp1 hp2) (hc : Closed P hp) : TrP H P hp hp2 := by
  refine ⟨fun a ha => ?_⟩
  obtain ⟨s1, c1⟩ := t1.cell a ha
  obtain ⟨s2, c2⟩ := t2.cell a ha
  refine ⟨s2.trans s1, ?_⟩
  rcases c2 with e2 | ⟨m, hm, hd, hv⟩
  · rw [e2]; exact c1
  · right
    refine ⟨m, hm, ?_, t1.val_bwd hc hv ha⟩
    rcases hd with h | h
    · rcases c1 with e1 | ⟨_, _, hd1, _⟩
      · left; rw [h, e1]
      · rcases hd1 with h1 | h1
        · left; rw [h, h1]
        · right; rw [h, h1]
    · right; exact h

theorem TrP.enc_iff {H : Bytes → Bytes} {P : Nat → Prop} {hp hp' : Heap} (t : TrP H P hp hp')
    (hc : Closed P hp) {a : Nat} (hs : (hp'.get a).strip = (hp.get a).strip)
    (hk : ∀ i c, (hp.get a).kids i = some c → P c) (e : Bytes) : Enc H hp a e ↔ Enc H hp' a e := by
  constructor
  · rintro ⟨ms, hv, rfl⟩
    refine ⟨ms, ?_, ?_⟩
    · intro i c hic
      rw [encKids_strip hs] at hic
      exact t.val_fwd hc (hv i c hic) (hk i c (encKids_sub _ i c hic))
    · rw [encodeHead_strip H hs, encKids_strip hs]
  · rintro ⟨ms, hv, rfl⟩
    refine ⟨ms, ?_, ?_⟩
    · intro i c hic
      have hic' : (hp'.get a).encKids i = some c := by rw [encKids_strip hs]; exact hic
      exact t.val_bwd hc (hv i c hic') (hk i c (encKids_sub _ i c hic))
    · rw [encodeHead_strip H hs, encKids_strip hs]

/-! ### the executable Merkle value computation against the relations -/

/-- only `MerkleValue` fields differ -/
structure MvOnly (hp hp' : Heap) : Prop where
  size : hp'.size = hp.size
  cell : ∀ b, (hp'.get b).strip = (hp.get b).strip ∧ (hp'.get b).dirty = (hp.get b).dirty

theorem MvOnly.refl (hp : Heap) : MvOnly hp hp := ⟨rfl, fun _ => ⟨rfl, rfl⟩⟩

theorem MvOnly.trans {hp hp1 hp2 : Heap} (a : MvOnly hp hp1) (b : MvOnly hp1 hp2) : MvOnly hp hp2 :=
  ⟨b.size.trans a.size, fun x => ⟨(b.cell x).1.trans (a.cell x).1, (b.cell x).2.trans (a.cell x).2⟩⟩

theorem MvOnly.kids {hp hp' : Heap} (h : MvOnly hp hp') (b : Nat) : (hp'.get b).kids = (hp.get b).kids :=
  strip_kids (h.cell b).1

theorem MvOnly.closed {hp hp' : Heap} (h : MvOnly hp hp') {P : Nat → Prop} (hc : Closed P hp) :
    Closed P hp' := by
  intro a ha i c hk
  rw [h.kids] at hk
  exact hc a ha i c hk

theorem MvOnly.reach {hp hp' : Heap} (h : MvOnly hp hp') {a b : Nat} (r : Reach hp a b) : Reach hp' a b :=
  r.mono (fun x _ => h.kids x)

theorem closed_reach (hp : Heap) (a : Nat) : Closed (Reach hp a) hp :=
  fun _ hb i _ hk => hb.tail i hk

theorem MvOnly.modify_mv (hp : Heap) (a : Nat) (m : Option Bytes) :
    MvOnly hp (hp.modify a (fun x => { x with mv := m })) := by
  refine ⟨by simp, fun b => ?_⟩
  rw [Heap.get_modify]
  split
  · rename_i h; rw [h.1]; exact ⟨rfl, rfl⟩
  · exact ⟨rfl, rfl⟩

/-- what a `CalculateMerkleValue`-like computation guarantees -/
structure CalcOK (H : Bytes → Bytes) (hp : Heap) (a : Nat) (r : Heap × Option Bytes) : Prop where
  mvOnly : MvOnly hp r.1
  trp : ∀ Q : Nat → Prop, Closed Q hp → TrP H Q hp r.1
  val : ∀ m, r.2 = some m → Val H hp a m

/-- the value the relation assigns to child `j` (any value when there is none) -/
noncomputable def msOf (H : Bytes → Bytes) (hp : Heap) (ks : Nib → Option Nat) (j : Nib) : Bytes :=
  Classical.epsilon (fun m => ∃ c, ks j = some c ∧ Val H hp c m)

theorem msOf_eq {H : Bytes → Bytes} {hp : Heap} {ks : Nib → Option Nat} {j : Nib} {c : Nat} {m : Bytes}
    (hk : ks j = some c) (hv : Val H hp c m) : msOf H hp ks j = m := by
  have hex : ∃ m, ∃ c, ks j = some c ∧ Val H hp c m := ⟨m, c, hk, hv⟩
  obtain ⟨c', hk', hv'⟩ := Classical.epsilon_spec hex
  rw [hk] at hk'
  cases hk'
  exact hv'.functional hv

/-- the loop of `encodeKids` from an intermediate state, over any list of indices -/
theorem encodeKids_loop (H : Bytes → Bytes) (rec : Heap → Nat → Heap × Option Bytes)
    (hrec : ∀ hp c, CalcOK H hp c (rec hp c)) (ks : Nib → Option Nat) (hp : Heap) :
    ∀ (l : List Nib) (hp1 : Heap) (acc : Option Bytes), MvOnly hp hp1 →
      (∀ Q : Nat → Prop, Closed Q hp → TrP H Q hp hp1) →
      let r := l.foldl (fun (acc : Heap × Option Bytes) i =>
        match ks i, acc.2 with
        | some c, some bs => let r := rec acc.1 c; (r.1, r.2.map (fun m => bs ++ TrieCodec.scaleEncBytes m))
        | _, _ => acc) (hp1, acc)
      MvOnly hp r.1 ∧ (∀ Q : Nat → Prop, Closed Q hp → TrP H Q hp r.1) ∧
      (∀ out, r.2 = some out → ∃ pre, acc = some pre ∧
        (∀ i, i ∈ l → ∀ c, ks i = some c → Val H hp c (msOf H hp ks i)) ∧
        out = pre ++ l.flatMap (fun i => if (ks i).isSome then TrieCodec.scaleEncBytes (msOf H hp ks i) else [])) := by
  intro l
  induction l with
  | nil =>
    intro hp1 acc hm ht
    refine ⟨hm, ht, ?_⟩
    intro out ho
    exact ⟨out, ho, by simp, by simp⟩
  | cons i l ih =>
    intro hp1 acc hm ht
    simp only [List.foldl_cons]
    cases hki : ks i with
    | none =>
      have := ih hp1 acc hm ht
      simp only [hki] at this ⊢
      obtain ⟨h1, h2, h3⟩ := this
      refine ⟨h1, h2, ?_⟩
      intro out ho
      obtain ⟨pre, hp, hv, he⟩ := h3 out ho
      refine ⟨pre, hp, ?_, ?_⟩
      · intro j hj c hc
        rcases List.mem_cons.mp hj with rfl | hj
        · rw [hki] at hc; cases hc
        · exact hv j hj c hc
      · simp [he, hki]
    | some c =>
      cases acc with
      | none =>
        have := ih hp1 none hm ht
        simp only [hki] at this ⊢
        obtain ⟨h1, h2, h3⟩ := this
        refine ⟨h1, h2, ?_⟩
        intro out ho
        obtain ⟨pre, hp, _, _⟩ := h3 out ho
        cases hp
      | some pre =>
        simp only [hki]
        have ok := hrec hp1 c
        have hm2 : MvOnly hp (rec hp1 c).1 := hm.trans ok.mvOnly
        have ht2 : ∀ Q : Nat → Prop, Closed Q hp → TrP H Q hp (rec hp1 c).1 :=
          fun Q hq => (ht Q hq).trans (ok.trp Q (hm.closed hq)) hq
        have := ih (rec hp1 c).1 ((rec hp1 c).2.map (fun m => pre ++ TrieCodec.scaleEncBytes m)) hm2 ht2
        obtain ⟨h1, h2, h3⟩ := this
        refine ⟨h1, h2, ?_⟩
        intro out ho
        obtain ⟨pre', hp', hv, he⟩ := h3 out ho
        cases hr : (rec hp1 c).2 with
        | none => rw [hr] at hp'; cases hp'
        | some m =>
          rw [hr] at hp'
          simp only [Option.map_some, Option.some.injEq] at hp'
          have hval1 : Val H hp1 c m := ok.val m hr
          have hval : Val H hp c m :=
            (ht (Reach hp c) (closed_reach hp c)).val_bwd (closed_reach hp c) hval1 (Reach.refl c)
          have hms : msOf H hp ks i = m := msOf_eq hki hval
          refine ⟨pre, rfl, ?_, ?_⟩
          · intro j hj c' hc'
            rcases List.mem_cons.mp hj with rfl | hj
            · rw [hki] at hc'; cases hc'; rw [hms]; exact hval
            · exact hv j hj c' hc'
          · rw [he, ← hp']
            simp [hki, hms]

theorem encodeKids_spec (H : Bytes → Bytes) (rec : Heap → Nat → Heap × Option Bytes)
    (hrec : ∀ hp c, CalcOK H hp c (rec hp c)) (ks : Nib → Option Nat) (hp : Heap) :
    MvOnly hp (encodeKids rec ks hp).1 ∧
    (∀ Q : Nat → Prop, Closed Q hp → TrP H Q hp (encodeKids rec ks hp).1) ∧
    (∀ out, (encodeKids rec ks hp).2 = some out →
      (∀ i c, ks i = some c → Val H hp c (msOf H hp ks i)) ∧ out = kidsBytes ks (msOf H hp ks)) := by
  rw [encodeKids_eq]
  have := encodeKids_loop H rec hrec ks hp (List.finRange 16) hp (some []) (MvOnly.refl hp)
    (fun Q _ => TrP.refl H Q hp)
  obtain ⟨h1, h2, h3⟩ := this
  refine ⟨h1, h2, ?_⟩
  intro out ho
  obtain ⟨pre, hp', hv, he⟩ := h3 out ho
  cases hp'
  refine ⟨fun i c hc => hv i (List.mem_finRange i) c hc, ?_⟩
  simpa [kidsBytes] using he

theorem TrP.write_mv {H : Bytes → Bytes} {Q : Nat → Prop} {hp hp1 : Heap} (t : TrP H Q hp hp1)
    (a : Nat) (m : Bytes) (hv : Q a → Val H hp a m) :
    TrP H Q hp (hp1.modify a (fun x => { x with mv := some m })) := by
  refine ⟨fun b hb => ?_⟩
  rw [Heap.get_modify]
  split
  · rename_i h
    obtain ⟨rfl, _⟩ := h
    obtain ⟨hs, hc⟩ := t.cell b hb
    refine ⟨hs, Or.inr ⟨m, rfl, ?_, hv hb⟩⟩
    rcases hc with he | ⟨_, _, hd, _⟩
    · left; show (hp1.get b).dirty = _; rw [he]
    · exact hd
  · exact t.cell b hb

/-- `hashFinish` after a children phase that satisfies the loop guarantees -/
theorem hashFinish_spec (H : Bytes → Bytes) (root : Bool) (hp : Heap) (a : Nat) (r : Heap × Option Bytes)
    (h1 : MvOnly hp r.1) (h2 : ∀ Q : Nat → Prop, Closed Q hp → TrP H Q hp r.1)
    (h3 : ∀ out, r.2 = some out →
      (∀ i c, (hp.get a).encKids i = some c → Val H hp c (msOf H hp (hp.get a).encKids i)) ∧
        out = kidsBytes (hp.get a).encKids (msOf H hp (hp.get a).encKids)) :
    MvOnly hp (hashFinish H root (hp.get a) a r).1 ∧
    (match (hashFinish H root (hp.get a) a r).2 with
     | none => (hashFinish H root (hp.get a) a r).1 = r.1
     | some (enc, m) => Enc H hp a enc ∧ m = (if root then H enc else merkleValue H enc) ∧
          (hashFinish H root (hp.get a) a r).1 = r.1.modify a (fun x => { x with mv := some m })) := by
  unfold hashFinish
  cases hr : r.2 with
  | none => exact ⟨h1, rfl⟩
  | some ks =>
    obtain ⟨hv, hks⟩ := h3 ks hr
    refine ⟨h1.trans (MvOnly.modify_mv _ a _), ⟨_, hv, ?_⟩, rfl, rfl⟩
    rw [hks]

theorem calcMV_ok (H : Bytes → Bytes) : ∀ (f : Nat) (hp : Heap) (a : Nat), CalcOK H hp a (calcMV H f hp a)
  | 0, hp, a => ⟨MvOnly.refl hp, fun Q _ => TrP.refl H Q hp, fun m h => by simp [calcMV] at h⟩
  | f + 1, hp, a => by
    have ih := calcMV_ok H f
    unfold calcMV
    by_cases hc : (hp.get a).dirty = false ∧ (hp.get a).mv.isSome
    · simp only [hc, and_self, if_true]
      obtain ⟨m, hm⟩ := Option.isSome_iff_exists.mp hc.2
      exact ⟨MvOnly.refl hp, fun Q _ => TrP.refl H Q hp,
        fun m' h => by rw [hm] at h; cases h; exact Val.cached hc.1 hm⟩
    · simp only [hc, if_false]
      have hcnd : (hp.get a).dirty = true ∨ (hp.get a).mv = none := by
        by_cases hd : (hp.get a).dirty = true
        · exact Or.inl hd
        · right
          have hd' : (hp.get a).dirty = false := by simpa using hd
          cases hm : (hp.get a).mv with
          | none => rfl
          | some m => exact absurd ⟨hd', by simp [hm]⟩ hc
      obtain ⟨h1, h2, h3⟩ := encodeKids_spec H (calcMV H f) ih (hp.get a).encKids hp
      obtain ⟨g1, g2⟩ := hashFinish_spec H false hp a _ h1 h2 h3
      cases hr : (hashFinish H false (hp.get a) a (encodeKids (calcMV H f) (hp.get a).encKids hp)).2 with
      | none =>
        rw [hr] at g2
        refine ⟨g1, fun Q hq => ?_, fun m h => by simp at h⟩
        rw [g2]; exact h2 Q hq
      | some em =>
        obtain ⟨enc, m⟩ := em
        rw [hr] at g2
        obtain ⟨he, hm, hhp⟩ := g2
        simp only [Bool.false_eq_true, if_false] at hm
        have hval : Val H hp a m := by
          obtain ⟨ms, hv, rfl⟩ := he
          rw [hm]; exact Val.comp ms hcnd hv
        refine ⟨g1, fun Q hq => ?_, ?_⟩
        · rw [hhp]; exact (h2 Q hq).write_mv a m (fun _ => hval)
        · intro m' hm'
          simp only [Option.map_some, Option.some.injEq] at hm'
          rw [← hm']; exact hval

/-- `encodeAndHash`: the children phase is transparent everywhere; then the Merkle value of the
    node itself (root or non-root flavour) is written at `a` -/
theorem encodeAndHash_spec (H : Bytes → Bytes) (root : Bool) (hp : Heap) (a : Nat) :
    MvOnly hp (encodeAndHash H root hp a).1 ∧
    (match (encodeAndHash H root hp a).2 with
     | none => ∀ Q : Nat → Prop, Closed Q hp → TrP H Q hp (encodeAndHash H root hp a).1
     | some (enc, m) => Enc H hp a enc ∧ m = (if root then H enc else merkleValue H enc) ∧
        ∃ hp1, MvOnly hp hp1 ∧ (∀ Q : Nat → Prop, Closed Q hp → TrP H Q hp hp1) ∧
          (encodeAndHash H root hp a).1 = hp1.modify a (fun x => { x with mv := some m })) := by
  obtain ⟨h1, h2, h3⟩ := encodeKids_spec H (calcMV H bigFuel) (calcMV_ok H bigFuel) (hp.get a).encKids hp
  obtain ⟨g1, g2⟩ := hashFinish_spec H root hp a _ h1 h2 h3
  unfold encodeAndHash
  refine ⟨g1, ?_⟩
  cases hr : (hashFinish H root (hp.get a) a (encodeKids (calcMV H bigFuel) (hp.get a).encKids hp)).2 with
  | none =>
    rw [hr] at g2
    intro Q hq
    rw [g2]; exact h2 Q hq
  | some em =>
    obtain ⟨enc, m⟩ := em
    rw [hr] at g2
    obtain ⟨he, hm, hhp⟩ := g2
    exact ⟨he, hm, _, h1, h2, hhp⟩

end TrieHeap
end Gossamer
