/-
Persistence of the in-memory trie (`pkg/trie/inmemory/database.go`, `child_storage.go`) on the heap
model of `TrieHeap`, with the node decoder of `TrieCodec` (C07).  Core Lean only.

  Load / loadNode / loadStorageValue                      → `loadF`, `loadNodeF`, `loadStorageValue`
  GetFromDB / getFromDBAtNode (after the `fix:` commits)  → `getFromDB`, `gfdF`
  WriteDirty / writeDirtyTrie (main trie, then child tries) → `MTrie.writeDirty`
  Snapshot incl. child tries, SetChild, PutIntoChild      → `MTrie.snapshot`, `MTrie.putIntoChild`

Outcomes: `none` = the Go call returned an error (or dereferenced nil: a stored node that decodes
to the empty node); the database is an association list (`TrieHeap.DB`), `db.Get` of a missing key
is an error (Pebble's `ErrNotFound`).
-/
import Gossamer.Lib.TrieHeap
import Gossamer.Lib.TrieCodec
namespace Gossamer
namespace TrieHeap
open Trie

def toNib (b : UInt8) : Nib := Fin.ofNat 16 b.toNat

/-- the decoder in use (`false`/`true` differ only on truncated input, which `writeDirty` never stores) -/
def decodeNode (enc : Bytes) : Option TrieCodec.Node :=
  match TrieCodec.decode true enc with
  | .ok n => some n
  | _ => none

def kidsOfList (l : List (Option Nat)) : Nib → Option Nat := fun i => (l[i.val]?).getD none

/-- put a decoded node (with its inlined descendants) into fresh cells, as `node.Decode` builds it:
    generation 0, clean, no Merkle value; a child known by its hash is `&Node{MerkleValue: hash}` -/
def allocDecoded : Nat → Heap → TrieCodec.Node → Heap × Option Nat
  | 0, hp, _ => (hp, none)
  | _ + 1, hp, .empty => (hp, none)
  | _ + 1, hp, .stub mv =>
    let r := hp.alloc { (default : HNode) with mv := some mv }
    (r.1, some r.2)
  | _ + 1, hp, .leaf pk v hashed =>
    let r := hp.alloc { (default : HNode) with pk := pk.map toNib, val := v, ihv := hashed }
    (r.1, some r.2)
  | f + 1, hp, .branch pk v hashed kids =>
    let ks := kids.foldl (fun (acc : Heap × List (Option Nat)) c =>
      let x := allocDecoded f acc.1 c
      (x.1, acc.2 ++ [x.2])) (hp, [])
    let r := ks.1.alloc { (default : HNode) with pk := pk.map toNib, val := v, ihv := hashed,
                                                  isBranch := true, kids := kidsOfList ks.2 }
    (r.1, some r.2)

/-- `loadStorageValue(db, node)` -/
def loadStorageValue (hp : Heap) (db : DB) (a : Nat) : Option Heap :=
  let n := hp.get a
  if !n.ihv then some hp
  else
    match dbGet db (nibBytes n.pk ++ n.val.getD []) with
    | none => none
    | some raw => some (hp.modify a (fun x => { x with ihv := false, mbh := true, val := some raw }))

/-- one iteration of the children loop of `loadNode` on the branch at `a` -/
def loadKid (H : Bytes → Bytes) (db : DB) (a : Nat) (rec : Heap → Nat → Option Heap)
    (acc : Option Heap) (i : Nib) : Option Heap :=
  match acc with
  | none => none
  | some hp =>
    match (hp.get a).kids i with
    | none => some hp
    | some ch =>
      let cm := (hp.get ch).mv.getD []
      if cm.length < 32 then some (calcMV H bigFuel hp ch).1
      else
        match dbGet db cm with
        | none => none
        | some enc =>
          match decodeNode enc with
          | none => none
          | some dn =>
            match allocDecoded (enc.length + 1) hp dn with
            | (_, none) => none
            | (hp1, some d) =>
              match loadStorageValue hp1 db d with
              | none => none
              | some hp2 =>
                let hp3 := hp2.modify d (fun x => { x with mv := some cm })
                let hp4 := hp3.modify a (fun x => { x with kids := setKid x.kids i (some d) })
                rec hp4 d

/-- `t.loadNode(db, n)` -/
def loadNodeF (H : Bytes → Bytes) (db : DB) : Nat → Heap → Nat → Option Heap
  | 0, _, _ => none
  | f + 1, hp, a =>
    if !(hp.get a).isBranch then some hp
    else (List.finRange 16).foldl (loadKid H db a (loadNodeF H db f)) (some hp)

/-- an `InMemoryTrie` with its child tries (`childTries` map: root hash at insertion ↦ trie) -/
structure MTrie where
  t : Handle
  kids : List (Bytes × Handle)

def kidsLookup (kids : List (Bytes × Handle)) (h : Bytes) : Option Handle :=
  match kids.find? (fun e => e.1 == h) with
  | some e => some e.2
  | none => none

def kidsErase (kids : List (Bytes × Handle)) (h : Bytes) : List (Bytes × Handle) :=
  kids.filter (fun e => !(e.1 == h))

def kidsInsert (kids : List (Bytes × Handle)) (h : Bytes) (c : Handle) : List (Bytes × Handle) :=
  kidsErase kids h ++ [(h, c)]

/-- `:child_storage:default:` -/
def childPrefix : Bytes := ":child_storage:default:".toUTF8.toList

/-- `common.BytesToHash` -/
def bytesToHash (b : Bytes) : Bytes :=
  if b.length > 32 then b.drop (b.length - 32) else List.replicate (32 - b.length) 0 ++ b

/-- byte keys of the trie that have the byte prefix `p`, in trie order (`GetKeysWithPrefix`; the
    prefix used here does not end in a zero nibble, so no trimming applies) -/
def keysWithBytePrefix (hp : Heap) (root : Option Nat) (p : Bytes) : List Bytes :=
  ((keysF bigFuel hp root []).map nibblesToKeyLE).filter (fun k => p.isPrefixOf k)

/-- `t.Load(db, rootHash)` on a fresh trie: the heap with the loaded nodes and the loaded trie.
    The outer fuel bounds the nesting of child tries. -/
def loadF (H : Bytes → Bytes) (db : DB) : Nat → Heap → Bytes → Option (Heap × MTrie)
  | 0, _, _ => none
  | f + 1, hp, rootHash =>
    let empty : Handle := { root := none, gen := 0, ver := Ver.v0 }
    if rootHash == H [0] then some (hp, { t := empty, kids := [] })
    else
      match dbGet db rootHash with
      | none => none
      | some enc =>
        match decodeNode enc with
        | none => none
        | some dn =>
          match allocDecoded (enc.length + 1) hp dn with
          | (_, none) => none
          | (hp1, some r) =>
            match loadStorageValue hp1 db r with
            | none => none
            | some hp2 =>
              let hp3 := hp2.modify r (fun x => { x with mv := some rootHash })
              match loadNodeF H db (db.length + 2) hp3 r with
              | none => none
              | some hp4 =>
                let t : Handle := { empty with root := some r }
                (keysWithBytePrefix hp4 (some r) childPrefix).foldl
                  (fun (acc : Option (Heap × MTrie)) key =>
                    match acc with
                    | none => none
                    | some (hp, m) =>
                      let value := (get hp m.t.root key).getD []
                      match loadF H db f hp (bytesToHash value) with
                      | none => none
                      | some (hp', c) =>
                        let h := hash H hp' c.t
                        some (h.1, { m with kids := kidsInsert m.kids (h.2.getD []) c.t }))
                  (some (hp4, { t := t, kids := [] }))

/-! ### GetFromDB -/

/-- the storage value of a decoded node: a hashed value is fetched under `partialKey ‖ hash` -/
def gfdValue (db : DB) (pk : Bytes) (v : Option Bytes) (hashed : Bool) : Option (Option Bytes) :=
  if !hashed then some v
  else
    match dbGet db (pk ++ v.getD []) with
    | none => none
    | some raw => some (some raw)

/-- `getFromDBAtNode(db, n, key)`; outer `none` = error -/
def gfdF (db : DB) : Nat → TrieCodec.Node → Bytes → Option (Option Bytes)
  | 0, _, _ => none
  | _ + 1, .empty, _ => none
  | _ + 1, .stub _, _ => some none
  | _ + 1, .leaf pk v hashed, key => if pk == key then gfdValue db pk v hashed else some none
  | f + 1, .branch pk v hashed kids, key =>
    if key.length == 0 || pk == key then gfdValue db pk v hashed
    else if !(pk.isPrefixOf key) then some none
    else
      match key.drop pk.length with
      | [] => some none  -- unreachable
      | i :: rest =>
        match kids[i.toNat]? with
        | none => some none
        | some .empty => some none
        | some (.stub mv) =>
          match dbGet db mv with
          | none => none
          | some enc =>
            match decodeNode enc with
            | none => none
            | some dn => gfdF db f dn rest
        | some c => gfdF db f c rest

/-- `GetFromDB(db, rootHash, key)` -/
def getFromDB (H : Bytes → Bytes) (db : DB) (rootHash : Bytes) (key : Bytes) : Option (Option Bytes) :=
  if rootHash == H [0] then some none
  else
    match dbGet db rootHash with
    | none => none
    | some enc =>
      match decodeNode enc with
      | none => none
      | some dn =>
        let k := TrieCodec.keyLEToNibbles key
        gfdF db (k.length + 2) dn k

/-! ### tries with child tries -/

namespace MTrie

def empty : MTrie := { t := { root := none, gen := 0, ver := Ver.v0 }, kids := [] }

/-- `t.Snapshot()`: the child tries get a COPY of their root node (with its Merkle value) and the
    next generation; `none` = nil dereference on a child trie without root -/
def snapshot (hp : Heap) (m : MTrie) : Option (Heap × MTrie) :=
  let r := m.kids.foldl (fun (acc : Option (Heap × List (Bytes × Handle))) e =>
    match acc, e.2.root with
    | some (hp, l), some a =>
      let x := hp.alloc (hp.get a)
      some (x.1, l ++ [(e.1, { root := some x.2, gen := e.2.gen + 1, ver := m.t.ver })])
    | _, _ => none) (some (hp, []))
  match r with
  | none => none
  | some (hp', kids') => some (hp', { t := TrieHeap.snapshot m.t, kids := kids' })

/-- `t.SetChild(keyToChild, child)` -/
def setChild (H : Bytes → Bytes) (hp : Heap) (m : MTrie) (keyToChild : Bytes) (child : Handle) :
    Heap × MTrie :=
  let h := hash H hp child
  let p := put H h.1 m.t (childPrefix ++ keyToChild) (h.2.getD [])
  (p.1, { t := p.2, kids := kidsInsert m.kids (h.2.getD []) child })

/-- `t.PutIntoChild(keyToChild, key, value)`; `none` = nil dereference (the main trie names a child
    root that is not in the map) -/
def putIntoChild (H : Bytes → Bytes) (hp : Heap) (m : MTrie) (keyToChild k v : Bytes) :
    Option (Heap × MTrie) :=
  let child? : Option Handle :=
    match get hp m.t.root (childPrefix ++ keyToChild) with
    | none => some { root := none, gen := 0, ver := Ver.v0 }
    | some hv => kidsLookup m.kids (bytesToHash hv)
  match child? with
  | none => none
  | some child =>
    let child := { child with ver := m.t.ver }
    let orig := hash H hp child
    let p := put H orig.1 child k v
    some (setChild H p.1 { m with kids := kidsErase m.kids (orig.2.getD []) } keyToChild p.2)

/-- `t.WriteDirty(db)` / `writeDirtyTrie`: the dirty nodes of the main trie, then those of every
    child trie (after the `fix:` that took the loop over the child tries out of `writeDirtyNode`,
    where it ran only below a stored dirty branch) -/
def writeDirty (H : Bytes → Bytes) (hp : Heap) (db : DB) (m : MTrie) : Heap × DB :=
  m.kids.foldl (fun s e => TrieHeap.writeDirty H s.1 s.2 e.2) (TrieHeap.writeDirty H hp db m.t)

end MTrie

end TrieHeap
end Gossamer
